package main

// gen.go: random call trees. Every random choice comes from the run's PRNG.

import (
	"fxverif/lib"
)

type Gen struct {
	r        *lib.Rand
	w        *World
	nextID   int
	nextAddr int
	nextBit  int
	nextTag  uint64
	slots    map[int][]uint64 // per storage context: slots already written
	maxDepth int
	maxFrame int
	npcall   int
	maxPCall int
	rewards  bool // this tree may call delegationRewards (trigger of finding C09-1)
	tokenCB  bool // this tree may make one crossChain call of the hostile registered ERC-20
	usedCB   bool
	claimsOK, claimsPanic, claimsIBC, claimsIBCClosed int // pending claims of the world already assigned to markers of this tree
	panicky  bool // this tree may contain a keeper call that panics
	poolUse  map[int]MarkerKind // per storage context: its pool entry is used by cancel or by increaseFee markers, not both
}

func NewGen(r *lib.Rand, w *World, thorough bool) *Gen {
	g := &Gen{r: r, w: w, slots: map[int][]uint64{}, poolUse: map[int]MarkerKind{}, maxDepth: 3, maxFrame: 7, maxPCall: 9, nextTag: 2000}
	if thorough {
		g.maxDepth, g.maxFrame, g.maxPCall = 5, 14, 16
	}
	return g
}

func (g *Gen) id() int { g.nextID++; return g.nextID }

func (g *Gen) pickKind(weights []int) int {
	tot := 0
	for _, w := range weights {
		tot += w
	}
	x := g.r.Intn(tot)
	for i, w := range weights {
		if x < w {
			return i
		}
		x -= w
	}
	return 0
}

// Tree draws a whole transaction: the root frame is the contract the user calls.
func (g *Gen) Tree() *Node {
	root := &Node{Kind: NFrame, ID: g.id(), CallKind: lib.CALL, Addr: g.nextAddr}
	g.nextAddr++
	g.fillFrame(root, 0, root.Addr, false)
	root.End = [...]string{"return", "return", "return", "return", "return", "return", "return", "revert", "invalid", "return"}[g.r.Intn(10)]
	return root
}

func (g *Gen) fillFrame(f *Node, depth, ctx int, static bool) {
	n := 1 + g.r.Intn(5)
	if depth == 0 {
		n = 2 + g.r.Intn(5)
	}
	for i := 0; i < n; i++ {
		//           sstore log frame pcall
		w := []int{18, 10, 27, 45}
		if depth >= g.maxDepth || g.nextAddr >= g.maxFrame {
			w[2] = 0
		}
		if g.npcall >= g.maxPCall {
			w[3] = 0
		}
		switch g.pickKind(w) {
		case 0:
			var slot uint64
			if prev := g.slots[ctx]; len(prev) > 0 && g.r.Chance(30) {
				slot = prev[g.r.Intn(len(prev))] // overwrite (or rewrite the same value) of an earlier slot
			} else {
				slot = uint64(len(prev)) + 1
				g.slots[ctx] = append(g.slots[ctx], slot)
			}
			f.Body = append(f.Body, &Node{Kind: NSStore, ID: g.id(), Slot: slot, Val: uint64(1 + g.r.Intn(3))})
		case 1:
			g.nextTag++
			f.Body = append(f.Body, &Node{Kind: NLog, ID: g.id(), Tag: g.nextTag})
		case 2:
			ck := lib.CallKind(g.pickKind([]int{60, 14, 14, 12})) // CALL STATICCALL DELEGATECALL CALLCODE
			ch := &Node{Kind: NFrame, ID: g.id(), CallKind: ck, Addr: g.nextAddr, Caught: g.r.Chance(50)}
			g.nextAddr++
			cctx := ctx
			if ck == lib.CALL || ck == lib.STATICCALL {
				cctx = ch.Addr
			}
			g.fillFrame(ch, depth+1, cctx, static || ck == lib.STATICCALL)
			ch.End = [...]string{"return", "return", "return", "return", "return", "return", "return", "revert", "revert", "invalid"}[g.r.Intn(10)]
			if ch.End != "return" && g.r.Chance(50) {
				ch.Caught = true
			}
			f.Body = append(f.Body, ch)
		case 3:
			g.npcall++
			ck := lib.CALL
			if static || g.r.Chance(12) {
				// inside a STATICCALL only non-CALL kinds are generated for the write methods (the CALL case is
				// property C10's business); all of them must fail with "write protection"
				ck = lib.CallKind(1 + g.r.Intn(3))
			}
			mk := MarkerKind(g.pickKind([]int{34, 18, 12, 9, 6, 8, 10, 5, 8}))
			switch mk {
			case MkCancel:
				if _, used := g.poolUse[ctx]; used {
					mk = MkApprove
				} else {
					g.poolUse[ctx] = MkCancel
				}
			case MkIncreaseFee:
				if k, used := g.poolUse[ctx]; used && k != MkIncreaseFee {
					mk = MkApprove
				} else {
					g.poolUse[ctx] = MkIncreaseFee
				}
			}
			if g.rewards && g.r.Chance(35) {
				mk = MkRewards
				ck = lib.CallKind(g.r.Intn(4))
			}
			if !static && ck == lib.CALL && g.claimsOK < nClaims && g.r.Chance(9) {
				mk = MkExecClaim
			}
			if !static && ck == lib.CALL && g.r.Chance(7) {
				switch g.r.Intn(3) {
				case 0:
					if g.claimsIBC < nIBCClaims {
						mk = MkExecIBC
					}
				case 1:
					if g.claimsIBCClosed < nIBCClaims {
						mk = MkExecIBCClosed
					}
				case 2:
					if ctx < nBatched {
						mk = MkFeeGone
					}
				}
			}
			if !static && ck == lib.CALL && ctx < nBatched && g.r.Chance(8) {
				mk = []MarkerKind{MkBridgeTok, MkBridgeTokFail}[g.r.Intn(2)]
			}
			if g.panicky && !static && g.claimsPanic < 2 && g.r.Chance(30) {
				mk, ck = MkExecPanic, lib.CALL
			}
			if g.tokenCB && !g.usedCB && !static && g.r.Chance(40) {
				mk, ck, g.usedCB = MkTokenCB, lib.CALL, true
			}
			m := &Marker{ID: g.id(), Kind: mk, Ctx: ctx}
			switch mk {
			case MkExecClaim:
				m.Claim = g.w.okClaims[g.claimsOK]
				g.claimsOK++
			case MkExecPanic:
				m.Claim = g.w.panicClaims[g.claimsPanic]
				g.claimsPanic++
			case MkExecIBC:
				m.Claim = g.w.ibcOpen[g.claimsIBC]
				g.claimsIBC++
			case MkExecIBCClosed:
				m.Claim = g.w.ibcClosed[g.claimsIBCClosed]
				g.claimsIBCClosed++
			case MkBridgeTok:
				m.Pool = g.r.Intn(2)
			case MkBridgeTokFail:
				m.Pool = g.r.Intn(5)
			case MkFeeGone:
				m.Pool = g.r.Intn(4) / 3 // mostly the batched transfer, sometimes an id that never existed
			}
			if mk == MkDelegate || mk == MkXChain || mk == MkBridgeCall || mk == MkIncreaseFee {
				m.Bit = g.nextBit
				g.nextBit++
			}
			g.w.fill(m)
			if ck == lib.STATICCALL || ck == lib.DELEGATECALL {
				// these opcodes carry no value
			}
			caught := g.r.Chance(55)
			if mk == MkExecPanic {
				caught = g.r.Chance(90) // the interesting case: the caller swallows the failure
			} else if !mk.designedOK() || (ck != lib.CALL && mk != MkRewards) {
				caught = g.r.Chance(85) // a call designed to fail is mostly tolerated by its caller, so that more transactions get through
			}
			f.Body = append(f.Body, &Node{Kind: NPCall, ID: m.ID, CallKind: ck, Caught: caught, M: m})
		}
	}
}
