// c09: correspondence + monitors for properties C09 (precompile calls are all-or-nothing with their
// EVM frame) and C10 (precompiles act only for their direct caller, only in a writable context).
// VERIF_PROP selects the property (default C09).
// VERIF_MODE=replay with VERIF_REPLAY=<replay.json>: re-run the recorded (property, seed, tier) — generation is
// deterministic in the seed, so the recorded failing tree / call is executed again — and print the failures.
package main

import (
	"encoding/json"
	"fmt"
	"math/big"
	"os"
	"path/filepath"

	"fxverif/lib"
)

func modeSearch() bool { return os.Getenv("VERIF_MODE") == "search" }

func bigU(n uint64) *big.Int { return new(big.Int).SetUint64(n) }

func main() {
	prop := os.Getenv("VERIF_PROP")
	replay := os.Getenv("VERIF_MODE") == "replay" && os.Getenv("VERIF_REPLAY") != ""
	if replay {
		b, err := os.ReadFile(os.Getenv("VERIF_REPLAY"))
		lib.Must(err)
		var r struct {
			Property string `json:"property"`
			Seed     int64  `json:"seed"`
			Tier     string `json:"tier"`
		}
		lib.Must(json.Unmarshal(b, &r))
		prop = r.Property
		os.Setenv("VERIF_SEED", fmt.Sprint(r.Seed))
		os.Setenv("VERIF_TIER", r.Tier)
	}
	switch prop {
	case "C10":
		runC10()
	default:
		runC09()
	}
	if replay {
		b, err := os.ReadFile(filepath.Join(lib.OutDir(), "harness.json"))
		lib.Must(err)
		var rep struct {
			Failures []lib.Failure `json:"failures"`
		}
		lib.Must(json.Unmarshal(b, &rep))
		for _, f := range rep.Failures {
			fmt.Printf("%s: %s [%s]\n", f.Kind, f.What, f.Sig)
		}
		if len(rep.Failures) > 0 {
			os.Exit(1)
		}
	}
}
