// c09: correspondence + monitors for properties C09 (precompile calls are all-or-nothing with their
// EVM frame) and C10 (precompiles act only for their direct caller, only in a writable context).
// VERIF_PROP selects the property (default C09).
package main

import (
	"math/big"
	"os"
)

func modeSearch() bool { return os.Getenv("VERIF_MODE") == "search" }

func bigU(n uint64) *big.Int { return new(big.Int).SetUint64(n) }

func main() {
	switch os.Getenv("VERIF_PROP") {
	case "C10":
		runC10()
	default:
		runC09()
	}
}
