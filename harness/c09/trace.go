package main

// trace.go: an EVMLogger that records, from the REAL interpreter, the tree of call frames that were
// actually entered, how each one ended, and the SSTORE / LOG operations each one really executed.
// This is the observation "the EVM keeps / does not keep the call frame" of property C09.

import (
	"math/big"

	"github.com/ethereum/go-ethereum/common"
	"github.com/ethereum/go-ethereum/core/vm"
)

type TOp struct {
	Kind  string // "sstore" | "log" | "frame"
	Ctx   common.Address
	Slot  uint64
	Val   uint64
	Tag   uint64
	Frame *TFrame
	pc    uint64
}

type TFrame struct {
	Typ    vm.OpCode
	From   common.Address
	To     common.Address
	Input  []byte
	Value  *big.Int
	Gas    uint64
	Err    string // "" = returned normally
	Ops    []*TOp
	parent *TFrame
}

type Tracer struct {
	Root  *TFrame
	cur   *TFrame
	Steps int
}

func (t *Tracer) CaptureTxStart(uint64) {}
func (t *Tracer) CaptureTxEnd(uint64)   {}

func (t *Tracer) CaptureStart(_ *vm.EVM, from, to common.Address, _ bool, input []byte, gas uint64, value *big.Int) {
	t.Root = &TFrame{Typ: vm.CALL, From: from, To: to, Input: append([]byte{}, input...), Value: value, Gas: gas}
	t.cur = t.Root
}

func (t *Tracer) CaptureEnd(_ []byte, _ uint64, err error) {
	if t.Root != nil && err != nil {
		t.Root.Err = err.Error()
	}
}

func (t *Tracer) CaptureEnter(typ vm.OpCode, from, to common.Address, input []byte, gas uint64, value *big.Int) {
	f := &TFrame{Typ: typ, From: from, To: to, Input: append([]byte{}, input...), Value: value, Gas: gas, parent: t.cur}
	if t.cur != nil {
		t.cur.Ops = append(t.cur.Ops, &TOp{Kind: "frame", Frame: f})
	}
	t.cur = f
}

func (t *Tracer) CaptureExit(_ []byte, _ uint64, err error) {
	if t.cur == nil {
		return
	}
	if err != nil {
		t.cur.Err = err.Error()
	}
	t.cur = t.cur.parent
}

func (t *Tracer) CaptureState(pc uint64, op vm.OpCode, _, _ uint64, scope *vm.ScopeContext, _ []byte, _ int, err error) {
	t.Steps++
	if err != nil || t.cur == nil {
		return
	}
	switch op {
	case vm.SSTORE:
		st := scope.Stack
		slot, val := st.Back(0), st.Back(1)
		t.cur.Ops = append(t.cur.Ops, &TOp{Kind: "sstore", Ctx: scope.Contract.Address(), Slot: slot.Uint64(), Val: val.Uint64(), pc: pc})
	case vm.LOG0:
		st := scope.Stack
		off, size := st.Back(0).Uint64(), st.Back(1).Uint64()
		var tag uint64
		if size == 32 && int(off+size) <= scope.Memory.Len() {
			tag = new(big.Int).SetBytes(scope.Memory.GetCopy(int64(off), int64(size))).Uint64()
		}
		t.cur.Ops = append(t.cur.Ops, &TOp{Kind: "log", Ctx: scope.Contract.Address(), Tag: tag, pc: pc})
	}
}

// CaptureFault: the operation announced by the last CaptureState at this pc did not take effect.
func (t *Tracer) CaptureFault(pc uint64, op vm.OpCode, _, _ uint64, _ *vm.ScopeContext, _ int, _ error) {
	if t.cur == nil || len(t.cur.Ops) == 0 {
		return
	}
	last := t.cur.Ops[len(t.cur.Ops)-1]
	if (op == vm.SSTORE && last.Kind == "sstore" || op == vm.LOG0 && last.Kind == "log") && last.pc == pc {
		t.cur.Ops = t.cur.Ops[:len(t.cur.Ops)-1]
	}
}
