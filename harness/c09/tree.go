package main

// tree.go: call trees around precompile calls — generation, compilation to EVM bytecode (one contract
// per frame node), and their rendering as Coq terms of model.M_Frames (designed tree) or from the
// interpreter's trace (executed tree).

import (
	"fmt"
	"math/big"
	"strings"

	"github.com/ethereum/go-ethereum/common"
	"github.com/ethereum/go-ethereum/core/vm"

	"fxverif/lib"
)

// ---- markers: one native (Cosmos-side) effect each, individually observable afterwards ----

type MarkerKind int

const (
	MkApprove      MarkerKind = iota // staking.approveShares: one allowance key per marker
	MkDelegate                       // staking.delegateV2: bank + staking + distribution; amount = one bit
	MkXChain                         // crosschain.crossChain of FX with msg.value: transfer + pool entry
	MkTransferFail                   // staking.transferFromShares: decrements the allowance, then fails
	MkApproveBad                     // staking.approveShares with an unparsable validator: fails before the action
	MkDelegateFail                   // staking.delegateV2 beyond the balance: fails inside the action
	MkBridgeCall                     // crosschain.bridgeCall of FX with msg.value: transfer + outgoing bridge call
	MkCancel                         // crosschain.cancelSendToExternal of a pool entry the frame owns
	MkIncreaseFee                    // crosschain.increaseBridgeFee on a pool entry, paid with msg.value
	MkRewards                        // staking.delegationRewards (declared read-only) for a delegation that exists
	MkTokenCB                        // crosschain.crossChain of a registered ERC-20 whose transferFrom calls staking.approveShares
	MkInnerApprove                   // the approveShares made by that token (never placed in a tree on its own)
	MkExecClaim                      // crosschain.executeClaim of a pending, executable claim (SendToFx of FX)
	MkExecPanic                      // crosschain.executeClaim of a pending result claim whose bridge call is gone: the keeper deletes the claim, then PANICS
	MkExecIBC                        // crosschain.executeClaim of a pending SendToFx claim that forwards over an OPEN IBC channel
	MkExecIBCClosed                  // ... over a channel that has been CLOSED since: mint, conversion and escrow happen, then SendPacket refuses
	MkBridgeTok                      // crosschain.bridgeCall without msg.value: a list of ERC-20 tokens, refund address without an account
	MkBridgeTokFail                  // ... where one element of the list cannot be converted (unregistered token / above the balance)
	MkFeeGone                        // crosschain.increaseBridgeFee with an ERC-20 on a transfer that is already in a batch (or never existed): the
	                                 // closure takes the ERC-20 through the EVM, then the pool refuses
)

func (k MarkerKind) String() string {
	return [...]string{"approve", "delegate", "xchain", "transferFail", "approveBad", "delegateFail", "bridgeCall", "cancel", "increaseFee", "rewards", "tokenCallback", "innerApprove", "executeClaim", "executeClaimPanic", "executeClaimIBC", "executeClaimIBCClosed", "bridgeCallTokens", "bridgeCallTokensFail", "increaseFeeGone"}[k]
}

func (k MarkerKind) designedOK() bool {
	switch k {
	case MkTransferFail, MkApproveBad, MkDelegateFail, MkExecPanic, MkExecIBCClosed, MkFeeGone, MkBridgeTokFail:
		return false
	}
	return true
}

// failsInsideAction: the native action starts, writes, and then returns an error
func (k MarkerKind) failsInsideAction() bool {
	return k == MkTransferFail || k == MkDelegateFail || k == MkExecPanic || k == MkExecIBCClosed || k == MkFeeGone || k == MkBridgeTokFail
}

// panics: the keeper call does not return an error, it panics (after having written)
func (k MarkerKind) panics() bool { return k == MkExecPanic }

func (k MarkerKind) hasValue() bool { return k == MkXChain || k == MkBridgeCall || k == MkIncreaseFee }

type Marker struct {
	ID     int        `json:"id"`
	Kind   MarkerKind `json:"kind"`
	Ctx    int        `json:"ctx"` // index of the storage-context contract = the caller the precompile sees
	Bit    int        `json:"bit"` // amount bit (delegate / xchain / bridgeCall / fee)
	Target common.Address
	Data   []byte   `json:"-"`
	Value  *big.Int `json:"-"`
	Pool   int      `json:"pool"` // cancel / increaseFee: index of the pre-made pool entry
	Inner  *Marker  `json:"inner"` // tokenCallback: the approveShares its token makes
	Tokens  []common.Address `json:"-"` // bridgeCallTokens kinds: the requested list
	Amounts []*big.Int       `json:"-"`
	Claim  uint64   `json:"claim"` // executeClaim kinds: event nonce of the pending claim
	Owner  common.Address // approve kinds: the account whose allowance is written (zero = the frame contract Ctx)
}

// ---- nodes ----

type NodeKind int

const (
	NFrame NodeKind = iota
	NPCall
	NSStore
	NLog
)

type Node struct {
	Kind     NodeKind
	ID       int
	CallKind lib.CallKind // frame, pcall
	Caught   bool         // frame, pcall: success flag ignored at the call site
	Body     []*Node      // frame
	End      string       // frame: "return" | "revert" | "invalid"
	Addr     int          // frame: index of the contract holding its code
	M        *Marker      // pcall
	Slot     uint64       // sstore
	Val      uint64
	Tag      uint64 // log
	GasOverride uint64 // frame, pcall: gas handed to the callee when != 0 (starved variants); 1 = none
}

func frameAddr(i int) common.Address {
	return common.BytesToAddress([]byte{0xc0, 0xde, byte(i >> 8), byte(i)})
}

func markerSpender(id int) common.Address {
	return common.BytesToAddress([]byte{0xaa, 0x00, byte(id >> 8), byte(id)})
}

// compile emits the runtime code of frame f (its children live in their own contracts).
func compile(f *Node) []byte {
	a := &lib.Asm{}
	for _, n := range f.Body {
		switch n.Kind {
		case NSStore:
			a.SStore(n.Slot, n.Val)
		case NLog:
			a.Log0(n.Tag)
		case NFrame:
			a.Call(n.CallKind, frameAddr(n.Addr), callGas(n, budget(n)), nil, nil)
			if n.Caught {
				a.Ignore()
			} else {
				a.RequireSuccess()
			}
		case NPCall:
			a.Call(n.CallKind, n.M.Target, callGas(n, pcallGas), n.M.Value, n.M.Data)
			if n.Caught {
				a.Ignore()
			} else {
				a.RequireSuccess()
			}
		}
	}
	switch f.End {
	case "revert":
		a.Revert()
	case "invalid":
		a.Invalid()
	default:
		a.Stop()
	}
	return a.B
}

// Gas handed to callees is explicit: a frame that burns its gas (INVALID, write protection, a precompile error)
// must not starve the rest of the tree when the gas limit is ample.
const pcallGas = 110_000

func callGas(n *Node, dflt uint64) uint64 {
	if n.GasOverride != 0 {
		return n.GasOverride // note: Asm.Call treats 0 as "all remaining", so a starved call passes at least 1
	}
	return dflt
}

// budget: gas that lets frame f do everything it is designed to do
func budget(f *Node) uint64 {
	var b uint64 = 4_000
	for _, n := range f.Body {
		switch n.Kind {
		case NSStore:
			b += 23_000
		case NLog:
			b += 1_500
		case NPCall:
			b += pcallGas + 12_000 + 16*uint64(len(n.M.Data))
		case NFrame:
			b += budget(n) + budget(n)/32 + 6_000
		}
	}
	return b
}

func frames(f *Node, out *[]*Node) {
	*out = append(*out, f)
	for _, n := range f.Body {
		if n.Kind == NFrame {
			frames(n, out)
		}
	}
}

func markersOf(f *Node, out *[]*Marker) {
	for _, n := range f.Body {
		switch n.Kind {
		case NFrame:
			markersOf(n, out)
		case NPCall:
			*out = append(*out, n.M)
		}
	}
}

// ---- Coq rendering (model.M_Frames, marker instance) ----

func coqList(items []string) string {
	s := "nnil"
	for i := len(items) - 1; i >= 0; i-- {
		s = "(ncons " + items[i] + " " + s + ")"
	}
	return s
}

func coqEnd(e string) string {
	switch e {
	case "revert":
		return "Revert"
	case "invalid", "fail":
		return "Fail"
	}
	return "Return"
}

func storKey(ctx int, slot uint64) int64 { return int64(ctx)*1000 + int64(slot) }

// rewardsWrite: does delegationRewards write the native store outside any native action on the code under
// test (finding C09-1)? Decided once per run by observation (World.probeRewards); it only selects how the
// marker is rendered for the model, so that a fixed tree is checked as strictly as any other.
var rewardsWrite bool

const rewardsID = 9000 // every executed delegationRewards bumps the same counter: one marker id, counted

const (
	logBase      = 1000 // log id of a precompile's own EVM log = logBase + marker id
	transferBase = 5000 // marker id of the value transfer that precedes a payable precompile call
)

func coqEff(id int, ok, partial bool) string {
	return fmt.Sprintf("(mkeff %d %s %s false)", id, lib.Bool(ok), lib.Bool(partial))
}

func coqEffPanic(id int) string { return fmt.Sprintf("(mkeff %d false true true)", id) }

// coqPCallOK: what a successful call of marker m does, as a frame of the model.
func coqPCallBody(m *Marker, executed bool) []string {
	var body []string
	if m.Kind.hasValue() {
		t := transferBase + m.ID
		// the bank events of the transfer carry the same amount as the action's: attributed to the marker itself
		body = append(body, fmt.Sprintf("(Action %s [%d])", coqList([]string{"(NStep " + coqEff(t, true, false) + ")"}), m.ID))
	}
	if !executed {
		return body
	}
	if m.Kind == MkRewards {
		if rewardsWrite { // a bare native write: no ExecuteNativeAction around it
			body = append(body, "(NStep "+coqEff(rewardsID, true, false)+")")
		}
		return body
	}
	if m.Kind == MkTokenCB {
		// the closure first calls token.transferFrom through the same EVM; the token calls staking.approveShares
		in := m.Inner
		inner := fmt.Sprintf("(Frame %s Return false)", coqList([]string{fmt.Sprintf("(Action %s [])",
			coqList([]string{"(NStep " + coqEff(in.ID, true, false) + ")", fmt.Sprintf("(Log %d)", logBase+in.ID)}))}))
		tokenFrame := fmt.Sprintf("(Frame %s Return false)", coqList([]string{inner}))
		body = append(body, fmt.Sprintf("(Action %s [%d])", coqList([]string{tokenFrame, "(NStep " + coqEff(m.ID, true, false) + ")",
			fmt.Sprintf("(Log %d)", logBase+m.ID)}), m.ID))
		return body
	}
	switch {
	case m.Kind.designedOK():
		evs := "[]"
		if m.Kind != MkApprove && m.Kind != MkInnerApprove {
			evs = fmt.Sprintf("[%d]", m.ID)
		}
		body = append(body, fmt.Sprintf("(Action %s %s)",
			coqList([]string{"(NStep " + coqEff(m.ID, true, false) + ")", fmt.Sprintf("(Log %d)", logBase+m.ID)}), evs))
	case m.Kind == MkFeeGone:
		call := "(Frame (ncons (Frame nnil Return false) nnil) Return false)" // proxy -> logic (delegatecall); token storage is not modelled
		body = append(body, fmt.Sprintf("(Action %s [])", coqList([]string{call, call, "(NStep " + coqEff(m.ID, false, true) + ")"})))
	case m.Kind.panics():
		body = append(body, fmt.Sprintf("(Action %s [])", coqList([]string{"(NStep " + coqEffPanic(m.ID) + ")"})))
	case m.Kind.failsInsideAction():
		body = append(body, fmt.Sprintf("(Action %s [])", coqList([]string{"(NStep " + coqEff(m.ID, false, true) + ")"})))
	}
	return body
}

// designedCoq renders the tree as designed (what should happen with ample gas).
// ctx = storage context index, static = inside a STATICCALL.
func designedCoq(f *Node, ctx int, static bool) (body []string, end string) {
	end = f.End
	for _, n := range f.Body {
		switch n.Kind {
		case NSStore:
			if static { // SSTORE under STATICCALL: ErrWriteProtection, the frame fails here
				return body, "fail"
			}
			body = append(body, fmt.Sprintf("(Write %d %d)", storKey(ctx, n.Slot), n.Val))
		case NLog:
			if static {
				return body, "fail"
			}
			body = append(body, fmt.Sprintf("(Log %d)", n.Tag))
		case NFrame:
			cctx := ctx
			if n.CallKind == lib.CALL || n.CallKind == lib.STATICCALL {
				cctx = n.Addr
			}
			b, e := designedCoq(n, cctx, static || n.CallKind == lib.STATICCALL)
			body = append(body, fmt.Sprintf("(Frame %s %s %s)", coqList(b), coqEnd(e), lib.Bool(n.Caught)))
		case NPCall:
			m := n.M
			if m.Kind == MkRewards { // a read-only method runs under every opcode
				body = append(body, fmt.Sprintf("(Frame %s Return %s)", coqList(coqPCallBody(m, true)), lib.Bool(n.Caught)))
				continue
			}
			if n.CallKind != lib.CALL {
				// write method through STATICCALL/DELEGATECALL/CALLCODE: "write protection" before anything runs
				// (CALLCODE moves no value to the precompile: the transfer is caller -> caller)
				body = append(body, fmt.Sprintf("(Frame nnil Revert %s)", lib.Bool(n.Caught)))
				continue
			}
			switch {
			case m.Kind == MkApproveBad:
				body = append(body, fmt.Sprintf("(Frame nnil Revert %s)", lib.Bool(n.Caught)))
			default:
				body = append(body, fmt.Sprintf("(Frame %s Return %s)", coqList(coqPCallBody(m, true)), lib.Bool(n.Caught)))
			}
		}
	}
	return body, end
}

// tracedCoq renders what the interpreter really did (frames entered, how each ended, operations executed).
// Failures are all "caught" here: a caller that reverts because its callee failed shows up with its own end.
func tracedCoq(f *TFrame, byInput map[string]*Marker, addrIdx map[common.Address]int) (string, bool) {
	okAll := true
	var body []string
	for _, o := range f.Ops {
		switch o.Kind {
		case "sstore":
			ci, ok := addrIdx[o.Ctx]
			if !ok {
				if foreignStorage[o.Ctx] {
					continue // storage of a token contract: not part of the modelled state (watched by the ERC-20 monitor)
				}
				okAll = false
			}
			body = append(body, fmt.Sprintf("(Write %d %d)", storKey(ci, o.Slot), o.Val))
		case "log":
			body = append(body, fmt.Sprintf("(Log %d)", o.Tag))
		case "frame":
			s, ok := tracedFrameCoq(o.Frame, byInput, addrIdx)
			okAll = okAll && ok
			body = append(body, s)
		}
	}
	return coqList(body), okAll
}

// contracts outside the tree whose storage the trace may show (registered tokens and their logic contract)
var foreignStorage = map[common.Address]bool{}

func isPrecompile(a common.Address) bool {
	return a == lib.StakingPrecompile || a == lib.CrosschainPrecompile
}

func tracedFrameCoq(f *TFrame, byInput map[string]*Marker, addrIdx map[common.Address]int) (string, bool) {
	end := "Return"
	if f.Err != "" {
		end = "Fail"
		if f.Err == vm.ErrExecutionReverted.Error() {
			end = "Revert"
		}
	}
	if isPrecompile(f.To) {
		m := byInput[string(f.To.Bytes())+string(f.Input)]
		if m == nil {
			return "(Frame nnil Fail true)", false
		}
		// the precompile ran its action iff it was entered through CALL with enough gas; on success the
		// marker's action completed; on failure either nothing ran or the action failed inside
		// "out of gas" is RequiredGas not being covered: Run never started
		executed := f.Err == "" || (m.Kind.failsInsideAction() && f.Err != vm.ErrOutOfGas.Error())
		// (a call designed to be refused that the EVM kept is reported by the monitor; for the model it is rendered as designed)
		body := coqPCallBody(m, executed)
		if f.Typ != vm.CALL && m.Kind != MkRewards { // no value moves to the precompile, nothing runs
			body = nil
		}
		if m.Kind == MkFeeGone && f.Typ == vm.CALL && executed {
			// the closure's ERC-20 calls through the EVM (traced), then the refusing native step
			var inner []string
			okAll := true
			for _, o := range f.Ops {
				if o.Kind == "frame" {
					s, ok := tracedFrameCoq(o.Frame, byInput, addrIdx)
					okAll = okAll && ok
					inner = append(inner, strings.TrimSuffix(s, " true)")+" false)")
				}
			}
			inner = append(inner, "(NStep "+coqEff(m.ID, false, true)+")")
			return fmt.Sprintf("(Frame %s Return true)", coqList([]string{fmt.Sprintf("(Action %s [])", coqList(inner))})), okAll
		}
		if m.Kind == MkTokenCB && f.Typ == vm.CALL {
			// what the closure really did through the EVM (traced), then its own native step if it completed
			var inner []string
			okAll := true
			for _, o := range f.Ops {
				if o.Kind == "frame" {
					s, ok := tracedFrameCoq(o.Frame, byInput, addrIdx)
					okAll = okAll && ok
					// the Go closure does not ignore a failing call: render the call site as uncaught
					inner = append(inner, strings.TrimSuffix(s, " true)")+" false)")
				}
			}
			if f.Err == "" {
				inner = append(inner, "(NStep "+coqEff(m.ID, true, false)+")", fmt.Sprintf("(Log %d)", logBase+m.ID))
				return fmt.Sprintf("(Frame %s Return true)", coqList([]string{fmt.Sprintf("(Action %s [%d])", coqList(inner), m.ID)})), okAll
			}
			if len(inner) == 0 {
				return "(Frame nnil Fail true)", okAll
			}
			return fmt.Sprintf("(Frame %s Return true)", coqList([]string{fmt.Sprintf("(Action %s [])", coqList(inner))})), okAll
		}
		if f.Err != "" && m.Kind.designedOK() {
			// failed although designed to succeed (out of gas before Run, or write protection):
			// the value transfer happened, the action did not complete
			body = coqPCallBody(m, false)
			if f.Typ != vm.CALL {
				body = nil
			}
			return fmt.Sprintf("(Frame %s Fail true)", coqList(body)), true
		}
		return fmt.Sprintf("(Frame %s Return true)", coqList(body)), true
	}
	b, ok := tracedCoq(f, byInput, addrIdx)
	return fmt.Sprintf("(Frame %s %s true)", b, end), ok
}

func describe(f *Node, d int) string {
	var sb strings.Builder
	ind := strings.Repeat(" ", d)
	fmt.Fprintf(&sb, "%sframe#%d@%d %s caught=%v end=%s%s\n", ind, f.ID, f.Addr, f.CallKind, f.Caught, f.End, gasNote(f))
	for _, n := range f.Body {
		switch n.Kind {
		case NFrame:
			sb.WriteString(describe(n, d+1))
		case NPCall:
			fmt.Fprintf(&sb, "%s pcall#%d %s %s caught=%v ctx=%d%s\n", ind, n.M.ID, n.M.Kind, n.CallKind, n.Caught, n.M.Ctx, gasNote(n))
		case NSStore:
			fmt.Fprintf(&sb, "%s sstore %d=%d\n", ind, n.Slot, n.Val)
		case NLog:
			fmt.Fprintf(&sb, "%s log %d\n", ind, n.Tag)
		}
	}
	return sb.String()
}

func gasNote(n *Node) string {
	if n.GasOverride != 0 {
		return fmt.Sprintf(" gas=%d", n.GasOverride)
	}
	return ""
}
