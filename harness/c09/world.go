package main

// world.go: the real application prepared for precompile calls from contracts, marker construction,
// and the observation of which native effects are present in a context.

import (
	"encoding/hex"
	"fmt"
	"math/big"
	"sort"
	"strings"

	sdkmath "cosmossdk.io/math"
	sdk "github.com/cosmos/cosmos-sdk/types"
	"github.com/ethereum/go-ethereum/common"
	"github.com/ethereum/go-ethereum/core"
	"github.com/ethereum/go-ethereum/core/vm"
	ethtypes "github.com/ethereum/go-ethereum/core/types"
	"github.com/ethereum/go-ethereum/crypto"

	minttypes "github.com/cosmos/cosmos-sdk/x/mint/types"
	stakingkeeper "github.com/cosmos/cosmos-sdk/x/staking/keeper"
	stakingtypes "github.com/cosmos/cosmos-sdk/x/staking/types"

	ibctransfertypes "github.com/cosmos/ibc-go/v8/modules/apps/transfer/types"

	fxcontract "github.com/functionx/fx-core/v8/contract"
	fxtypes "github.com/functionx/fx-core/v8/types"
	erc20types "github.com/functionx/fx-core/v8/x/erc20/types"
	crosschaintypes "github.com/functionx/fx-core/v8/x/crosschain/types"
	fxstakingtypes "github.com/functionx/fx-core/v8/x/staking/types"

	"fxverif/lib"
)

const (
	maxFrames  = 24
	unit       = 1_000_000 // amount of bit b = 2^b * unit (afx)
	fullGas    = 6_000_000
	ownerAllow = 1_000_000 // allowance the outside owner gave every frame contract on validator 1
)

type World struct {
	c     *lib.Chain
	user  lib.Key
	owner lib.Key // an account without delegation that approved every frame contract (for MkTransferFail)
	val0  sdk.ValAddress
	val1  sdk.ValAddress
	fx    *lib.Token
	base  sdk.Context // branch of the block context with the world prepared; never written back
	basePeriod uint64 // distribution period of validator 1 in base
	okClaims    []uint64 // event nonces of pending claims that execute (SendToFx of FX to a fresh receiver)
	panicClaims []uint64 // event nonces of pending bridge-call results whose call no longer exists
	ibcOpen, ibcClosed   []uint64   // pending SendToFx claims forwarding over an open / a closed IBC channel
	ibcAmount            map[uint64]string // their amount+denom strings (event attribution)
	tokO       *lib.Token // second module-owned ERC-20 the first frame contracts hold (the token with the open IBC channel)
	tokE       *lib.Token // module-owned ERC-20 (eth alias) the frame contracts hold and approved to the crosschain precompile
	batched    []uint64   // per frame contract (first nBatched): id of its ERC-20 transfer that is already in a batch
	tokEBase   map[int]*big.Int
	tok        *lib.Token // a registered user-owned ERC-20 whose code the harness replaces per tree (hostile transferFrom)
}

func NewWorld(seed int64) *World {
	c := lib.NewChain(seed, 2, nil)
	lib.Must(c.NextBlock())
	w := &World{c: c, user: lib.EthKey(seed, "c09user", 0), owner: lib.EthKey(seed, "c09owner", 0)}
	w.val0, w.val1 = c.ValKeys[0].Val(), c.ValKeys[1].Val()
	w.fx = c.SetupFX([]string{"eth"})
	c.Mint(w.user.Acc(), lib.FX(1000))
	c.Mint(w.owner.Acc(), lib.FX(10))
	c.EnsureAccount(c.Ctx, w.user.Acc())
	for i := 0; i < maxFrames; i++ {
		a := frameAddr(i)
		c.Mint(a.Bytes(), lib.FX(100))
		c.App.StakingKeeper.SetAllowance(c.Ctx, w.val1, w.owner.Acc(), a.Bytes(), big.NewInt(ownerAllow))
		// every frame contract already delegates to validator 1 (delegationRewards has something to compute)
		c.EnsureAccount(c.Ctx, a.Bytes())
		_, err := stakingkeeper.NewMsgServerImpl(c.App.StakingKeeper.Keeper).Delegate(c.Ctx, &stakingtypes.MsgDelegate{
			DelegatorAddress: sdk.AccAddress(a.Bytes()).String(), ValidatorAddress: w.val1.String(), Amount: lib.FX(1)})
		lib.Must(err)
	}
	c.App.EthKeeper.SetLastObservedBlockHeight(c.Ctx, 1000, uint64(c.Ctx.BlockHeight()))
	// every frame contract owns one outgoing pool entry (cancelSendToExternal / increaseBridgeFee markers)
	for i := 0; i < maxFrames; i++ {
		id, err := c.App.EthKeeper.AddToOutgoingPool(c.Ctx, frameAddr(i).Bytes(), lib.ExternalAccount(seed, "eth", 900+i),
			lib.Coin(fxtypes.DefaultDenom, int64(poolAmount(i))), lib.Coin(fxtypes.DefaultDenom, poolFee))
		lib.Must(err)
		if id != uint64(i+1) {
			panic("unexpected pool id")
		}
	}
	w.setupBatched(seed)
	w.setupClaims(seed)
	tok, err := c.SetupExternal("HST", 77, w.owner, []string{"eth"})
	lib.Must(err)
	w.tok = tok
	lib.Must(c.NextBlock())
	lib.Must(c.NextBlock())
	// touch both precompiles once so that their (empty) accounts exist before the compared runs, as on a live chain
	for _, pc := range []common.Address{lib.StakingPrecompile, lib.CrosschainPrecompile} {
		pc := pc
		c.EvmCall(c.Ctx, w.user.Hex(), &pc, nil, 100_000, []byte{1, 2, 3, 4, 5, 6, 7, 8})
		if c.App.AccountKeeper.GetAccount(c.Ctx, pc.Bytes()) == nil {
			c.EnsureAccount(c.Ctx, pc.Bytes())
		}
	}
	w.base, _ = c.Ctx.CacheContext()
	w.basePeriod = w.period(w.base)
	w.probeRewards()
	return w
}

const nClaims = 6
const nIBCClaims = 3
const nBatched = 8

// setupBatched: a module-owned ERC-20 bridged to eth; the first nBatched frame contracts hold some, approved the
// crosschain precompile, sent a transfer through crossChain (so the erc20 module keeps the outgoing-transfer relation)
// and the transfers have since been picked into an outgoing batch.
func (w *World) setupBatched(seed int64) {
	c := w.c
	tokE, err := c.SetupModuleOwned("USDE", 93, []string{"eth"}, "")
	lib.Must(err)
	w.tokE = tokE
	foreignStorage[tokE.ERC20] = true
	// bridge-denom coins that earlier inbound deposits (swapped into the base denom) left with the chain module
	liq := sdk.NewCoins(lib.Coin(tokE.Alias("eth").Denom, 10_000_000))
	lib.Must(c.App.BankKeeper.MintCoins(c.Ctx, minttypes.ModuleName, liq))
	lib.Must(c.App.BankKeeper.SendCoinsFromModuleToModule(c.Ctx, minttypes.ModuleName, "eth", liq))
	// ... and with the erc20 module (alias liquidity ConvertDenomToTarget draws on)
	lib.Must(c.App.BankKeeper.MintCoins(c.Ctx, minttypes.ModuleName, liq))
	lib.Must(c.App.BankKeeper.SendCoinsFromModuleToModule(c.Ctx, minttypes.ModuleName, erc20types.ModuleName, liq))
	xabi := crosschaintypes.GetABI()
	pc := lib.CrosschainPrecompile
	max := new(big.Int).Lsh(big.NewInt(1), 200)
	for i := 0; i < nBatched; i++ {
		a := frameAddr(i)
		c.Mint(a.Bytes(), lib.Coin(tokE.Base, 1_000_000))
		_, err := c.App.Erc20Keeper.ConvertCoin(c.Ctx, &erc20types.MsgConvertCoin{Coin: lib.Coin(tokE.Base, 1_000_000),
			Receiver: a.Hex(), Sender: sdk.AccAddress(a.Bytes()).String()})
		lib.Must(err)
		ap, err := fxcontract.GetFIP20().ABI.Pack("approve", pc, max)
		lib.Must(err)
		if r := c.EvmCall(c.Ctx, a, &tokE.ERC20, nil, 3_000_000, ap); r.Err != nil || r.Failed {
			panic(fmt.Sprintf("setup approve: %v %s", r.Err, r.VmError))
		}
		data, err := xabi.Pack("crossChain", tokE.ERC20, lib.ExternalAccount(seed, "eth", 600+i), big.NewInt(int64(500+i)), big.NewInt(10),
			fxtypes.MustStrToByte32("eth"), "")
		lib.Must(err)
		if r := c.EvmCall(c.Ctx, a, &pc, nil, 3_000_000, data); r.Err != nil || r.Failed {
			panic(fmt.Sprintf("setup ERC-20 crossChain: %v %s", r.Err, r.VmError))
		}
		w.batched = append(w.batched, uint64(maxFrames+1+i))
	}
	batch, err := c.App.EthKeeper.BuildOutgoingTxBatch(c.Ctx, tokE.Alias("eth").Contract, lib.ExternalAccount(seed, "eth", 699), 100, sdkmath.ZeroInt(), sdkmath.ZeroInt())
	lib.Must(err)
	if len(batch.Transactions) != nBatched {
		panic("the batch did not pick every ERC-20 transfer")
	}
	for i, id := range w.batched {
		if !c.App.Erc20Keeper.HasOutgoingTransferRelation(c.Ctx, "eth", id) {
			panic(fmt.Sprintf("no outgoing-transfer relation for the ERC-20 transfer of frame %d (id %d)", i, id))
		}
	}
	// the proxy's logic contract also shows up as a storage context? no: delegatecall keeps the proxy's context
	w.tokEBase = map[int]*big.Int{}
}

func claimAmount(nonce uint64) int64 { return 30_000 + int64(nonce) }

// setupClaims: one oracle with all the power observes (through the real MsgServer.Claim -> Attest path) six deposits
// of FX to fresh receivers and six results of outgoing bridge calls that no longer exist (what a result arriving
// after the call timed out and was refunded leaves behind). Observed SendToFx / BridgeCallResult claims are parked
// as pending and wait for executeClaim.
func (w *World) setupClaims(seed int64) {
	c := w.c
	x := c.X("eth")
	x.SetupOracles([]int64{10000})
	o := x.Oracles[0]
	fxContract := w.fx.Alias("eth").Contract
	nonce := uint64(0)
	for i := 0; i < nClaims; i++ {
		nonce++
		n := nonce
		if err := x.Claim(o, &crosschaintypes.MsgSendToFxClaim{EventNonce: n, BlockHeight: 1000 + n, TokenContract: fxContract,
			Amount: sdkmath.NewInt(claimAmount(n)), Sender: lib.ExternalAccount(seed, "eth", 700+i),
			Receiver: sdk.AccAddress(markerSpender(20_000 + int(n)).Bytes()).String()}); err != nil {
			panic(fmt.Sprintf("setup SendToFx claim: %v", err))
		}
		w.okClaims = append(w.okClaims, n)
	}
	for i := 0; i < nClaims; i++ {
		nonce++
		n := nonce
		cl := &crosschaintypes.MsgBridgeCallResultClaim{EventNonce: n, BlockHeight: 1000 + n, Nonce: 9_000_000 + n,
			TxOrigin: lib.ExternalAccount(seed, "eth", 800+i), Success: true}
		if err := x.Claim(o, cl); err != nil {
			panic(fmt.Sprintf("setup BridgeCallResult claim: %v", err))
		}
		w.panicClaims = append(w.panicClaims, n)
	}
	// deposits that are to be forwarded over IBC: one channel stays open, the other one is closed after the
	// claims were attested
	w.ibcAmount = map[uint64]string{}
	var closedPort, closedChan string
	for ci, closed := range []bool{false, true} {
		port, ch := c.OpenTransferChannel(uint64(100 * (ci + 1)))
		t, err := c.SetupModuleOwned([]string{"USDO", "USDC"}[ci], 91+ci, []string{"eth"}, ch)
		lib.Must(err)
		foreignStorage[t.ERC20] = true
		if !closed {
			w.tokO = t
		}
		// vouchers that were swapped into the base denom earlier are parked in the transfer module
		vouchers := sdk.NewCoins(lib.Coin(t.IBCDenom, 10_000_000))
		lib.Must(c.App.BankKeeper.MintCoins(c.Ctx, minttypes.ModuleName, vouchers))
		lib.Must(c.App.BankKeeper.SendCoinsFromModuleToModule(c.Ctx, minttypes.ModuleName, ibctransfertypes.ModuleName, vouchers))
		for i := 0; i < nIBCClaims; i++ {
			nonce++
			n := nonce
			if err := x.Claim(o, &crosschaintypes.MsgSendToFxClaim{EventNonce: n, BlockHeight: 1000 + n, TokenContract: t.Alias("eth").Contract,
				Amount: sdkmath.NewInt(claimAmount(n)), Sender: lib.ExternalAccount(seed, "eth", 750+int(n)),
				Receiver:  sdk.AccAddress(markerSpender(20_000 + int(n)).Bytes()).String(),
				TargetIbc: hex.EncodeToString([]byte(fmt.Sprintf("px/%s/%s", port, ch)))}); err != nil {
				panic(fmt.Sprintf("setup SendToFx/IBC claim: %v", err))
			}
			w.ibcAmount[n] = fmt.Sprint(claimAmount(n))
			if closed {
				w.ibcClosed = append(w.ibcClosed, n)
			} else {
				w.ibcOpen = append(w.ibcOpen, n)
			}
		}
		if closed {
			closedPort, closedChan = port, ch
		}
	}
	c.SetChannelClosed(c.Ctx, closedPort, closedChan, true)
	// the first frame contracts also hold the open-channel token as ERC-20 (multi-token bridge calls)
	liq := sdk.NewCoins(lib.Coin(w.tokO.Alias("eth").Denom, 10_000_000))
	lib.Must(c.App.BankKeeper.MintCoins(c.Ctx, minttypes.ModuleName, liq))
	lib.Must(c.App.BankKeeper.SendCoinsFromModuleToModule(c.Ctx, minttypes.ModuleName, "eth", liq))
	for i := 0; i < nBatched; i++ {
		a := frameAddr(i)
		c.Mint(a.Bytes(), lib.Coin(w.tokO.Base, 1_000_000))
		_, err := c.App.Erc20Keeper.ConvertCoin(c.Ctx, &erc20types.MsgConvertCoin{Coin: lib.Coin(w.tokO.Base, 1_000_000),
			Receiver: a.Hex(), Sender: sdk.AccAddress(a.Bytes()).String()})
		lib.Must(err)
	}
	all := append(append(append(append([]uint64{}, w.okClaims...), w.panicClaims...), w.ibcOpen...), w.ibcClosed...)
	for _, n := range all {
		if _, found := c.App.EthKeeper.GetPendingExecuteClaim(c.Ctx, n); !found {
			panic(fmt.Sprintf("claim %d is not pending after its attestation", n))
		}
	}
}

func (w *World) period(ctx sdk.Context) uint64 {
	cr, err := w.c.App.DistrKeeper.GetValidatorCurrentRewards(ctx, w.val1)
	lib.Must(err)
	return cr.Period
}

// probeRewards: call delegationRewards inside a frame that reverts and see whether the native store changed.
func (w *World) probeRewards() {
	ctx, _ := w.base.CacheContext()
	m := &Marker{ID: 1, Kind: MkRewards, Ctx: 0}
	w.fill(m)
	a := (&lib.Asm{}).Call(lib.STATICCALL, m.Target, 0, nil, m.Data).RequireSuccess().Revert()
	w.c.InstallCode(ctx, frameAddr(0), a.B)
	r := w.call(ctx, frameAddr(0), fullGas)
	if r.Res.Err != nil || !r.Res.Failed {
		panic(fmt.Sprintf("rewards probe: unexpected outcome %v failed=%v", r.Res.Err, r.Res.Failed))
	}
	rewardsWrite = w.period(ctx) != w.basePeriod
}

const poolFee = 100

func poolAmount(ctx int) int { return 7000 + ctx }
func poolID(ctx int) int64   { return int64(ctx + 1) }

func amountOfBit(b int) *big.Int {
	return new(big.Int).Mul(new(big.Int).Lsh(big.NewInt(1), uint(b)), big.NewInt(unit))
}

// fill computes target, calldata and value of a marker.
func (w *World) fill(m *Marker) {
	sabi := fxstakingtypes.GetABI()
	xabi := crosschaintypes.GetABI()
	var err error
	m.Value = big.NewInt(0)
	switch m.Kind {
	case MkApprove:
		m.Target = lib.StakingPrecompile
		m.Data, err = sabi.Pack("approveShares", w.val0.String(), markerSpender(m.ID), big.NewInt(int64(m.ID)+1))
	case MkApproveBad:
		m.Target = lib.StakingPrecompile
		m.Data, err = sabi.Pack("approveShares", "not-a-validator", markerSpender(m.ID), big.NewInt(int64(m.ID)+1))
	case MkDelegate:
		m.Target = lib.StakingPrecompile
		m.Data, err = sabi.Pack("delegateV2", w.val0.String(), amountOfBit(m.Bit))
	case MkDelegateFail:
		m.Target = lib.StakingPrecompile
		huge := new(big.Int).Mul(big.NewInt(1_000_000), big.NewInt(1e18))
		m.Data, err = sabi.Pack("delegateV2", w.val0.String(), huge.Add(huge, big.NewInt(int64(m.ID))))
	case MkTransferFail:
		m.Target = lib.StakingPrecompile
		m.Data, err = sabi.Pack("transferFromShares", w.val1.String(), w.owner.Hex(), markerSpender(m.ID), big.NewInt(int64(m.ID)+1))
	case MkXChain:
		m.Target = lib.CrosschainPrecompile
		m.Value = amountOfBit(m.Bit)
		fee := big.NewInt(int64(m.ID) + 1)
		amt := new(big.Int).Sub(m.Value, fee)
		m.Data, err = xabi.Pack("crossChain", common.Address{}, lib.ExternalAccount(w.c.Seed, "eth", m.ID),
			amt, fee, fxtypes.MustStrToByte32("eth"), "")
	case MkBridgeCall:
		m.Target = lib.CrosschainPrecompile
		m.Value = amountOfBit(m.Bit)
		m.Data, err = xabi.Pack("bridgeCall", "eth", frameAddr(m.Ctx), []common.Address{}, []*big.Int{}, markerSpender(m.ID), []byte{byte(m.ID)}, big.NewInt(0), []byte{})
	case MkBridgeTok, MkBridgeTokFail:
		m.Target = lib.CrosschainPrecompile
		e, o := w.tokE.ERC20, w.tokO.ERC20
		unknown := common.HexToAddress("0x00000000000000000000000000000000deadbeef") // no token pair
		ae, ao := big.NewInt(int64(100+m.ID)), big.NewInt(int64(400+m.ID))
		over := big.NewInt(5_000_000) // above the balance
		switch {
		case m.Kind == MkBridgeTok && m.Pool == 0:
			m.Tokens, m.Amounts = []common.Address{e}, []*big.Int{ae}
		case m.Kind == MkBridgeTok:
			m.Tokens, m.Amounts = []common.Address{e, o}, []*big.Int{ae, ao}
		case m.Pool == 0:
			m.Tokens, m.Amounts = []common.Address{unknown}, []*big.Int{ae}
		case m.Pool == 1:
			m.Tokens, m.Amounts = []common.Address{unknown, e}, []*big.Int{ao, ae}
		case m.Pool == 2:
			m.Tokens, m.Amounts = []common.Address{e, unknown, o}, []*big.Int{ae, big.NewInt(1), ao}
		case m.Pool == 3:
			m.Tokens, m.Amounts = []common.Address{e, o}, []*big.Int{ae, over}
		default:
			m.Tokens, m.Amounts = []common.Address{e}, []*big.Int{over}
		}
		// the refund address has no account; no msg.value (nothing journalled before the action)
		m.Data, err = xabi.Pack("bridgeCall", "eth", markerSpender(30_000+m.ID), m.Tokens, m.Amounts, markerSpender(m.ID), []byte{byte(m.ID)}, big.NewInt(0), []byte{})
	case MkCancel:
		m.Target = lib.CrosschainPrecompile
		m.Data, err = xabi.Pack("cancelSendToExternal", "eth", big.NewInt(poolID(m.Ctx)))
	case MkIncreaseFee:
		m.Target = lib.CrosschainPrecompile
		m.Value = amountOfBit(m.Bit)
		m.Data, err = xabi.Pack("increaseBridgeFee", "eth", big.NewInt(poolID(m.Ctx)), common.Address{}, m.Value)
	case MkFeeGone:
		m.Target = lib.CrosschainPrecompile
		id := uint64(9_999)
		if m.Pool == 0 {
			id = w.batched[m.Ctx]
		}
		m.Data, err = xabi.Pack("increaseBridgeFee", "eth", new(big.Int).SetUint64(id), w.tokE.ERC20, big.NewInt(int64(7+m.ID)))
	case MkExecClaim, MkExecPanic, MkExecIBC, MkExecIBCClosed:
		m.Target = lib.CrosschainPrecompile
		m.Data, err = xabi.Pack("executeClaim", "eth", new(big.Int).SetUint64(m.Claim))
	case MkTokenCB:
		m.Target = lib.CrosschainPrecompile
		m.Data, err = xabi.Pack("crossChain", w.tok.ERC20, lib.ExternalAccount(w.c.Seed, "eth", m.ID),
			big.NewInt(int64(1000+m.ID)), big.NewInt(0), fxtypes.MustStrToByte32("eth"), "")
		lib.Must(err)
		m.Inner = &Marker{ID: m.ID + 500, Kind: MkInnerApprove, Ctx: -1, Owner: w.tok.ERC20}
		m.Inner.Target = lib.StakingPrecompile
		m.Inner.Value = big.NewInt(0)
		m.Inner.Data, err = sabi.Pack("approveShares", w.val0.String(), markerSpender(m.Inner.ID), big.NewInt(int64(m.Inner.ID)+1))
	case MkRewards:
		m.Target = lib.StakingPrecompile
		m.Data, err = sabi.Pack("delegationRewards", w.val1.String(), frameAddr(m.Ctx))
	default:
		panic("marker kind not built: " + m.Kind.String())
	}
	lib.Must(err)
}

// ---- observation ----

type Observed struct {
	Failed   bool              `json:"failed"`
	Refused  bool              `json:"refused"` // ApplyMessage did not return a result (gas below intrinsic, or a Go panic): nothing is committed
	Aborted  bool              `json:"aborted"` // ... because Go code panicked
	VmError  string            `json:"vm_error"`
	GasUsed  uint64            `json:"gas_used"`
	Natives  []int             `json:"natives"` // marker ids whose native effect is present (sorted)
	Logs     []int             `json:"logs"`    // receipt logs mapped to ids, in order (-1 = unknown log)
	Events   []int             `json:"events"`  // marker ids to which an emitted sdk event can be attributed (sorted, distinct)
	Stor     map[int64]uint64  `json:"stor"`    // storage key -> value, for every key some frame of the tree may write
	Leaks    []string          `json:"leaks"`   // effects of markers designed to fail that are nevertheless present
	Dump     map[string][]string `json:"-"`
}

func (w *World) allowance(ctx sdk.Context, val sdk.ValAddress, owner, spender []byte) *big.Int {
	return w.c.App.StakingKeeper.GetAllowance(ctx, val, owner, spender)
}

func (w *World) delegated(ctx sdk.Context, del common.Address, val sdk.ValAddress) *big.Int {
	d, err := w.c.App.StakingKeeper.GetDelegation(ctx, del.Bytes(), val)
	if err != nil {
		return big.NewInt(0)
	}
	return d.Shares.TruncateInt().BigInt()
}

// observeNatives decides marker by marker whether its Cosmos-side effect is present in ctx.
func (w *World) observeNatives(ctx sdk.Context, ms []*Marker, ctxs []int) (present []int, leaks []string) {
	pool := map[string]bool{} // amount/fee/sender of pool entries
	feeOf := map[int64]*big.Int{} // pre-made entries still in the pool: id -> fee
	for _, tx := range w.c.App.EthKeeper.GetUnbatchedTransactions(ctx) {
		pool[fmt.Sprintf("%s/%s/%s", tx.Token.Amount, tx.Fee.Amount, tx.Sender)] = true
		if tx.Id <= maxFrames {
			feeOf[int64(tx.Id)] = tx.Fee.Amount.BigInt()
		}
	}
	bcallTo := map[string]*crosschaintypes.OutgoingBridgeCall{} // by destination contract (unique per marker)
	bcall := map[string]bool{} // sender/amount of outgoing bridge calls
	w.c.App.EthKeeper.IterateOutgoingBridgeCalls(ctx, func(oc *crosschaintypes.OutgoingBridgeCall) bool {
		bcallTo[strings.ToLower(oc.To)] = oc
		for _, t := range oc.Tokens {
			bcall[fmt.Sprintf("%s/%s", strings.ToLower(oc.Sender), t.Amount)] = true
		}
		return false
	})
	tokEWatch := map[int]bool{}
	for _, m := range ms {
		if m.Kind == MkBridgeTok || m.Kind == MkBridgeTokFail {
			tokEWatch[m.Ctx] = true
		}
	}
	tokESpent := map[int]*big.Int{} // ERC-20 (USDE) that surviving bridge calls took from each frame contract
	delegatedBy := map[int]*big.Int{}
	valueBy := map[int]*big.Int{}
	for _, ci := range ctxs {
		a := frameAddr(ci)
		delegatedBy[ci] = w.delegated(ctx, a, w.val0)
		bal := w.c.Bal(ctx, a.Bytes(), fxtypes.DefaultDenom)
		spent := new(big.Int).Sub(w.c.Bal(w.base, a.Bytes(), fxtypes.DefaultDenom), bal)
		if _, still := feeOf[poolID(ci)]; !still { // the frame's pool entry was cancelled: amount and (increased) fee came back
			spent.Add(spent, big.NewInt(int64(poolAmount(ci)+poolFee)))
			// fee increases that preceded the cancellation were refunded with it: nothing of them remains spent
		}
		valueBy[ci] = spent.Sub(spent, delegatedBy[ci])
		if ob := w.allowance(ctx, w.val1, w.owner.Acc(), a.Bytes()); ob.Cmp(big.NewInt(ownerAllow)) != 0 {
			leaks = append(leaks, fmt.Sprintf("allowance of the outside owner to frame %d changed to %s", ci, ob))
		}
	}
	bitSet := func(total *big.Int, b int) bool {
		q := new(big.Int).Div(total, big.NewInt(unit))
		return q.Bit(b) == 1
	}
	for _, m := range ms {
		switch m.Kind {
		case MkExecClaim:
			if _, pending := w.c.App.EthKeeper.GetPendingExecuteClaim(ctx, m.Claim); !pending {
				present = append(present, m.ID)
			}
		case MkExecIBC:
			if _, pending := w.c.App.EthKeeper.GetPendingExecuteClaim(ctx, m.Claim); !pending {
				present = append(present, m.ID)
			}
		case MkExecIBCClosed:
			if _, pending := w.c.App.EthKeeper.GetPendingExecuteClaim(ctx, m.Claim); !pending {
				present = append(present, m.ID)
				leaks = append(leaks, fmt.Sprintf("marker %d: the pending claim %d was consumed although its IBC leg cannot be sent", m.ID, m.Claim))
			}
		case MkFeeGone:
			tokEWatch[m.Ctx] = true
		case MkExecPanic:
			if _, pending := w.c.App.EthKeeper.GetPendingExecuteClaim(ctx, m.Claim); !pending {
				present = append(present, m.ID)
				leaks = append(leaks, fmt.Sprintf("marker %d: the pending claim %d was deleted by an executeClaim that did not complete", m.ID, m.Claim))
			}
		case MkInnerApprove:
			if w.allowance(ctx, w.val0, m.Owner.Bytes(), markerSpender(m.ID).Bytes()).Sign() != 0 {
				present = append(present, m.ID)
			}
		case MkTokenCB:
			if pool[fmt.Sprintf("%d/0/%s", 1000+m.ID, sdk.AccAddress(frameAddr(m.Ctx).Bytes()).String())] {
				present = append(present, m.ID)
			}
		case MkApprove:
			if w.allowance(ctx, w.val0, frameAddr(m.Ctx).Bytes(), markerSpender(m.ID).Bytes()).Sign() != 0 {
				present = append(present, m.ID)
			}
		case MkDelegate:
			if bitSet(delegatedBy[m.Ctx], m.Bit) {
				present = append(present, m.ID)
			}
		case MkXChain:
			fee := big.NewInt(int64(m.ID) + 1)
			amt := new(big.Int).Sub(m.Value, fee)
			if pool[fmt.Sprintf("%s/%s/%s", amt, fee, sdk.AccAddress(frameAddr(m.Ctx).Bytes()).String())] {
				present = append(present, m.ID)
			}
			if bitSet(valueBy[m.Ctx], m.Bit) {
				present = append(present, transferBase+m.ID)
			}
		case MkBridgeCall:
			if bcall[fmt.Sprintf("%s/%s", strings.ToLower(frameAddr(m.Ctx).Hex()), m.Value)] {
				present = append(present, m.ID)
			}
			if bitSet(valueBy[m.Ctx], m.Bit) {
				present = append(present, transferBase+m.ID)
			}
		case MkBridgeTok, MkBridgeTokFail:
			if oc := bcallTo[strings.ToLower(markerSpender(m.ID).Hex())]; oc != nil {
				present = append(present, m.ID)
				// a kept bridge call carries ALL the tokens it was asked to carry
				want := map[string]string{}
				for i, t := range m.Tokens {
					if al := w.aliasOf(t); al != "" {
						want[strings.ToLower(al)] = m.Amounts[i].String()
					} else {
						want[strings.ToLower(t.Hex())] = m.Amounts[i].String()
					}
				}
				got := map[string]string{}
				for _, t := range oc.Tokens {
					got[strings.ToLower(t.Contract)] = t.Amount.String()
				}
				same := len(want) == len(got)
				for k, v := range want {
					same = same && got[k] == v
				}
				if !same {
					leaks = append(leaks, fmt.Sprintf("marker %d: the recorded outgoing bridge call carries %v, the call asked for %v", m.ID, got, want))
				}
				for i, t := range m.Tokens {
					if t == w.tokE.ERC20 {
						tokESpent[m.Ctx] = new(big.Int).Add(tokESpentOf(tokESpent, m.Ctx), m.Amounts[i])
					}
				}
			}
		case MkCancel:
			if _, still := feeOf[poolID(m.Ctx)]; !still {
				present = append(present, m.ID)
			}
		case MkIncreaseFee:
			if f, still := feeOf[poolID(m.Ctx)]; still && bitSet(new(big.Int).Sub(f, big.NewInt(poolFee)), m.Bit) {
				present = append(present, m.ID)
			}
			if bitSet(valueBy[m.Ctx], m.Bit) {
				present = append(present, transferBase+m.ID)
			}
		case MkApproveBad:
			if w.allowance(ctx, w.val0, frameAddr(m.Ctx).Bytes(), markerSpender(m.ID).Bytes()).Sign() != 0 {
				leaks = append(leaks, fmt.Sprintf("marker %d (approveBad) left an allowance", m.ID))
			}
		case MkTransferFail:
			if w.delegated(ctx, markerSpender(m.ID), w.val1).Sign() != 0 {
				leaks = append(leaks, fmt.Sprintf("marker %d (transferFail) moved shares", m.ID))
			}
		}
	}
	for ci := range tokEWatch {
		bal := w.c.ERC20BalanceOf(ctx, w.tokE.ERC20, frameAddr(ci))
		exp := new(big.Int).Sub(w.c.ERC20BalanceOf(w.base, w.tokE.ERC20, frameAddr(ci)), tokESpentOf(tokESpent, ci))
		if bal.Cmp(exp) != 0 {
			leaks = append(leaks, fmt.Sprintf("the ERC-20 balance of frame %d is %s, the precompile calls whose Cosmos side survived account for %s (a refused call kept what it took through the EVM?)", ci, bal, exp))
		}
	}
	for n := w.period(ctx); n > w.basePeriod; n-- {
		present = append(present, rewardsID)
	}
	for _, ci := range ctxs {
		// no amount outside the designed bits may have moved
		for _, tot := range []*big.Int{delegatedBy[ci], valueBy[ci]} {
			if tot.Sign() < 0 || new(big.Int).Mod(tot, big.NewInt(unit)).Sign() != 0 {
				leaks = append(leaks, fmt.Sprintf("frame %d: amount %s moved outside the designed markers", ci, tot))
			}
		}
	}
	sort.Ints(present)
	return present, leaks
}

func tokESpentOf(m map[int]*big.Int, ci int) *big.Int {
	if v, ok := m[ci]; ok {
		return v
	}
	return big.NewInt(0)
}

// aliasOf: external (eth) contract of a registered ERC-20, "" if unknown
func (w *World) aliasOf(t common.Address) string {
	for _, tk := range []*lib.Token{w.tokE, w.tokO} {
		if tk != nil && tk.ERC20 == t {
			return tk.Alias("eth").Contract
		}
	}
	return ""
}

// logKey identifies a precompile-emitted log independently of its position.
func logKey(addr common.Address, topics []common.Hash, data []byte) string {
	var b []byte
	b = append(b, addr.Bytes()...)
	for _, t := range topics {
		b = append(b, t.Bytes()...)
	}
	b = append(b, data...)
	return string(crypto.Keccak256(b))
}

var tokenBase = "hst"

// hostileToken: runtime code of the registered ERC-20 for one tree: whatever is called, it calls the staking
// precompile with the inner marker's calldata, insists on success, and returns true.
func hostileToken(in *Marker) []byte {
	a := (&lib.Asm{}).Call(lib.CALL, in.Target, 0, nil, in.Data).RequireSuccess()
	a.PushU(1).PushU(0).Op(vm.MSTORE).PushU(32).PushU(0).Op(vm.RETURN)
	return a.B
}

// eventMarkers attributes sdk events to markers through the unique amounts they carry.
func eventMarkers(evs sdk.Events, ms []*Marker) []int {
	byAmount := map[string]int{}
	byCancel := map[string]int{} // pool id -> cancel marker
	byPrefix := map[string]int{} // amount (any denomination of the token: bridge, base, ibc voucher) -> marker
	for _, m := range ms {
		switch m.Kind {
		case MkDelegate:
			byAmount[amountOfBit(m.Bit).String()+fxtypes.DefaultDenom] = m.ID
		case MkXChain:
			byAmount[m.Value.String()+fxtypes.DefaultDenom] = m.ID
		case MkTokenCB:
			byAmount[fmt.Sprintf("%d%s", 1000+m.ID, tokenBase)] = m.ID
		case MkBridgeCall, MkIncreaseFee:
			byAmount[m.Value.String()+fxtypes.DefaultDenom] = m.ID
		case MkExecClaim:
			byAmount[fmt.Sprint(claimAmount(m.Claim))+fxtypes.DefaultDenom] = m.ID
		case MkExecIBC:
			byPrefix[fmt.Sprint(claimAmount(m.Claim))] = m.ID
		case MkBridgeTok:
			byPrefix[m.Amounts[0].String()] = m.ID
		case MkCancel:
			byCancel[fmt.Sprint(poolID(m.Ctx))] = m.ID
		}
	}
	seen := map[int]bool{}
	for _, e := range evs {
		for _, a := range e.Attributes {
			if id, ok := byAmount[a.Value]; ok {
				seen[id] = true
			}
			for pre, id := range byPrefix {
				if strings.HasPrefix(a.Value, pre) && len(a.Value) > len(pre) && (a.Value[len(pre)] < '0' || a.Value[len(pre)] > '9') {
					seen[id] = true
				}
			}
			if e.Type == crosschaintypes.EventTypeSendToExternalCanceled && a.Key == crosschaintypes.AttributeKeyOutgoingTxID {
				if id, ok := byCancel[a.Value]; ok {
					seen[id] = true
				}
			}
		}
	}
	var out []int
	for id := range seen {
		out = append(out, id)
	}
	sort.Ints(out)
	return out
}

// ---- running ----

type Run struct {
	Res    lib.EvmResult
	Tr     *Tracer
	Events sdk.Events
}

func (w *World) call(ctx sdk.Context, to common.Address, gas uint64) Run {
	var r Run
	r.Res, r.Tr, r.Events = evmCall(w.c, ctx, w.user.Hex(), to, nil, gas, nil)
	return r
}

// evmCall = lib.EvmCall with our tracer and a private event manager.
func evmCall(c *lib.Chain, ctx sdk.Context, from common.Address, to common.Address, value *big.Int, gasLimit uint64, data []byte) (res lib.EvmResult, tr *Tracer, events sdk.Events) {
	tr = &Tracer{}
	defer func() {
		if r := recover(); r != nil {
			res.Err = fmt.Errorf("PANIC: %v", r)
		}
	}()
	c.EnsureAccount(ctx, from.Bytes())
	if value == nil {
		value = big.NewInt(0)
	}
	em := sdk.NewEventManager()
	ctx = ctx.WithEventManager(em)
	nonce := c.App.EvmKeeper.GetNonce(ctx, from)
	msg := &core.Message{
		From: from, To: &to, Nonce: nonce, Value: value, GasLimit: gasLimit,
		GasPrice: big.NewInt(0), GasFeeCap: big.NewInt(0), GasTipCap: big.NewInt(0),
		Data: data, AccessList: ethtypes.AccessList{}, SkipAccountChecks: false,
	}
	r, err := c.App.EvmKeeper.ApplyMessage(ctx, msg, tr, true)
	if err != nil {
		res.Err = err
		return
	}
	res.Failed = r.Failed()
	res.VmError = r.VmError
	res.Ret = r.Ret
	res.GasUsed = r.GasUsed
	res.Logs = r.Logs
	events = em.Events()
	return
}

// normDump: full store dump with the code of the tree contracts factored out (the pruned reference
// program has different code at the same addresses): code blobs are dropped and every tree contract
// gets the same stub code before dumping.
func (w *World) normDump(ctx sdk.Context, nframes int) map[string][]string {
	nctx, _ := ctx.CacheContext()
	for i := 0; i < nframes; i++ {
		w.c.InstallCode(nctx, frameAddr(i), []byte{0x00})
	}
	d := w.c.DumpAll(nctx)
	var evm []string
	for _, l := range d["evm"] {
		if strings.HasPrefix(l, "01") { // KeyPrefixCode
			continue
		}
		evm = append(evm, l)
	}
	d["evm"] = evm
	return d
}

var _ = sdkmath.NewInt
