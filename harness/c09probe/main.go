package main

import (
	"fmt"
	"math/big"

	"github.com/ethereum/go-ethereum/common"

	fxtypes "github.com/functionx/fx-core/v8/types"
	crosschaintypes "github.com/functionx/fx-core/v8/x/crosschain/types"

	"fxverif/lib"
)

func main() {
	c := lib.NewChain(1, 2, nil)
	lib.Must(c.NextBlock())
	x := c.X("eth")
	x.SetupOracles([]int64{10000, 10000, 10000})
	c.SetupFX([]string{"eth"})
	user := lib.EthKey(1, "user", 0)
	c.Mint(user.Acc(), lib.FX(1000))
	lib.Must(c.NextBlock())
	xabi := crosschaintypes.GetABI()
	to := lib.CrosschainPrecompile
	call := func(name string, value *big.Int, args ...interface{}) {
		data, err := xabi.Pack(name, args...)
		lib.Must(err)
		res := c.EvmCall(c.Ctx, user.Hex(), &to, value, 3_000_000, data)
		fmt.Printf("%s: failed=%v err=%v vm=%s ret=%x logs=%d gas=%d\n", name, res.Failed, res.Err, res.VmError, res.Ret, len(res.Logs), res.GasUsed)
	}
	call("crossChain", big.NewInt(1000), common.Address{}, lib.ExternalAccount(1, "eth", 1), big.NewInt(900), big.NewInt(100), fxtypes.MustStrToByte32("eth"), "")
	for _, tx := range c.App.EthKeeper.GetUnbatchedTransactions(c.Ctx) {
		fmt.Println("pool", tx.Id, tx.Sender, tx.Token.Amount, tx.Fee.Amount)
	}
	call("increaseBridgeFee", big.NewInt(50), "eth", big.NewInt(1), common.Address{}, big.NewInt(50))
	for _, tx := range c.App.EthKeeper.GetUnbatchedTransactions(c.Ctx) {
		fmt.Println("pool", tx.Id, tx.Sender, tx.Token.Amount, tx.Fee.Amount)
	}
	call("bridgeCall", big.NewInt(777), "eth", user.Hex(), []common.Address{}, []*big.Int{}, common.HexToAddress("0x1234"), []byte{1, 2}, big.NewInt(0), []byte{})
	fmt.Println("bal", c.Bal(c.Ctx, user.Acc(), "FX"))
	call("cancelSendToExternal", nil, "eth", big.NewInt(1))
	fmt.Println("bal", c.Bal(c.Ctx, user.Acc(), "FX"))
	call("executeClaim", nil, "eth", big.NewInt(5))
	for _, m := range []string{"bridgeCoinAmount"} {
		call(m, nil, common.Address{}, fxtypes.MustStrToByte32("eth"))
	}
	call("hasOracle", nil, "eth", common.HexToAddress("0x1234"))
	call("isOracleOnline", nil, "eth", common.HexToAddress("0x1234"))
}
