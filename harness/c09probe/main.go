package main

import (
	"fmt"
	"math/big"

	sdk "github.com/cosmos/cosmos-sdk/types"
	stakingtypes "github.com/cosmos/cosmos-sdk/x/staking/types"
	"github.com/ethereum/go-ethereum/common"

	fxstakingtypes "github.com/functionx/fx-core/v8/x/staking/types"

	"fxverif/lib"
)

func main() {
	c := lib.NewChain(1, 2, nil)
	lib.Must(c.NextBlock())
	user := lib.EthKey(1, "user", 0)
	c.Mint(user.Acc(), lib.FX(1000))
	A := common.HexToAddress("0xc0de0001")
	B := common.HexToAddress("0xc0de0002")
	c.Mint(A.Bytes(), lib.FX(100))
	c.Mint(B.Bytes(), lib.FX(100))
	val := c.ValKeys[0].Val()
	// B delegates through the real msg server
	c.EnsureAccount(c.Ctx, B.Bytes())
	_, err := c.App.StakingKeeper.Keeper.Delegate(c.Ctx, B.Bytes(), lib.FX(10).Amount, stakingtypes.Unbonded, mustVal(c, val), true)
	lib.Must(err)
	lib.Must(c.NextBlock())
	lib.Must(c.NextBlock())
	data, err := fxstakingtypes.GetABI().Pack("delegationRewards", val.String(), B)
	lib.Must(err)
	// B: STATICCALL staking.delegationRewards, then REVERT
	b := (&lib.Asm{}).Call(lib.STATICCALL, lib.StakingPrecompile, 0, nil, data).RequireSuccess().Revert()
	c.InstallCode(c.Ctx, B, b.B)
	a := (&lib.Asm{}).Call(lib.CALL, B, 0, nil, nil).Ignore().Stop()
	c.InstallCode(c.Ctx, A, a.B)
	for _, to := range []common.Address{A, B} {
		ctx, _ := c.Ctx.CacheContext()
		before := c.DumpAll(ctx)
		res := c.EvmCall(ctx, user.Hex(), &to, nil, 3_000_000, nil)
		fmt.Printf("call %s failed=%v err=%v vm=%s\n", to.Hex(), res.Failed, res.Err, res.VmError)
		after := c.DumpAll(ctx)
		for _, d := range lib.DiffDumps(before, after) {
			fmt.Println("  ", d)
		}
	}
}

func mustVal(c *lib.Chain, v sdk.ValAddress) stakingtypes.Validator {
	val, err := c.App.StakingKeeper.GetValidator(c.Ctx, v)
	lib.Must(err)
	return val
}

var _ = big.NewInt
