// c11: correspondence + monitor for "transferring delegation shares through the staking precompile
// conserves shares, stake and reward entitlements" (x/staking/precompile/transfer_shares.go & co).
//
// Random histories of delegate / undelegate / redelegate / withdraw / approve / transfer / transferFrom
// among a few EOAs run on the REAL app: every precompile operation is an EVM call from the EOA to
// 0x…1003 (ethermint ApplyMessage → geth interpreter → fx precompile → SDK keepers); a share of the
// delegate/undelegate/redelegate/withdraw operations goes through the SDK msg servers instead.  They are
// interleaved with reward-producing blocks (real Finalize/Commit with fees in the fee collector),
// validator slashing (real staking Keeper.Slash) and one jump past the unbonding time.
//
// After every operation
//   - the projection of the real staking/distribution stores the model speaks about is recorded
//     (Cases_C11*.v, evaluated against model.M_Shares.step inside coqc), and
//   - the property monitor (independent of the model, plain big.Int on the real observables) checks:
//     transfers move exactly x shares and leave validator tokens/shares alone, allowance accounting,
//     both parties are paid exactly their pending rewards, Σ delegations = validator shares, every
//     registered crisis invariant, a failed call changes nothing; every history ends with
//     "everyone withdraws and undelegates everything", which must succeed.
//
// Two streams: "noself" never generates sender == recipient; "self" includes it in 20-25% of the transfers
// (since commit 458669b the precompile refuses it; the monitor requires that nothing changes).
// The histories in /verif/corpus/C11 (replays of finding C11-1) are run first.
package main

import (
	"bytes"
	"encoding/json"
	"fmt"
	"math/big"
	"os"
	"path/filepath"
	"sort"
	"strings"
	"time"

	sdkmath "cosmossdk.io/math"
	sdk "github.com/cosmos/cosmos-sdk/types"
	authtypes "github.com/cosmos/cosmos-sdk/x/auth/types"
	distrkeeper "github.com/cosmos/cosmos-sdk/x/distribution/keeper"
	distrtypes "github.com/cosmos/cosmos-sdk/x/distribution/types"
	stakingkeeper "github.com/cosmos/cosmos-sdk/x/staking/keeper"
	stakingtypes "github.com/cosmos/cosmos-sdk/x/staking/types"

	fxtypes "github.com/functionx/fx-core/v8/types"
	fxstakingtypes "github.com/functionx/fx-core/v8/x/staking/types"

	"cosmossdk.io/log"
	abci "github.com/cometbft/cometbft/abci/types"
	dbm "github.com/cosmos/cosmos-db"
	"github.com/ethereum/go-ethereum/common"
	"github.com/spf13/viper"

	"github.com/functionx/fx-core/v8/app"
	migratetypes "github.com/functionx/fx-core/v8/x/migrate/types"

	"fxverif/lib"
)

var one18 = big.NewInt(1e18)

// ---------------------------------------------------------------- operations

type Op struct {
	K     string   `json:"k"`               // delegate undelegate redelegate withdraw approve transfer transferFrom block mature slash jail unjail
	V     int      `json:"v"`               // validator (src for redelegate)
	W     int      `json:"w,omitempty"`     // dst validator
	A     int      `json:"a"`               // actor: delegator / owner / sender / spender(transferFrom)
	B     int      `json:"b,omitempty"`     // spender (approve) / recipient (transfer) / from (transferFrom)
	C     int      `json:"c,omitempty"`     // recipient (transferFrom)
	X     string   `json:"x,omitempty"`     // amount (tokens for delegate/undelegate/redelegate, whole shares otherwise)
	Via   string   `json:"via,omitempty"`   // "evm" | "msg"
	Power int64    `json:"power,omitempty"` // slash
	Frac  string   `json:"frac,omitempty"`  // slash fraction, LegacyDec raw integer
	Back  int64    `json:"back,omitempty"`  // slash: the infraction happened this many blocks ago (0 = now)
	Ih    int64    `json:"-"`               // slash: the resulting infraction height (filled in when executed)
	Rs    []string `json:"-"`               // block/mature: rewards allocated to each validator (observed)
	Must  bool     `json:"must,omitempty"`  // exit phase: has to succeed
	Setup bool     `json:"setup,omitempty"` // set-up phase (validator operators act)
	Zero  bool     `json:"zero,omitempty"`  // export: for zero height
	Catch bool     `json:"catch,omitempty"` // approveRev: the reverting frame is called by a contract that swallows the failure
	Ord   []int    `json:"-"`               // export: the delegators in address order (filled in when executed)
}

type History struct {
	Seed   int64  `json:"seed"`
	NVals  int    `json:"nvals"`
	NAcc   int    `json:"nacc"`
	Stream string `json:"stream"`
	Ops    []Op   `json:"ops"`
}

// ---------------------------------------------------------------- snapshots of the real stores

type kvBig struct {
	ID int
	N  *big.Int
}
type startRec struct {
	ID     int
	Prev   uint64
	Stake  *big.Int
	Height uint64
}
type histRec struct {
	Period, Count uint64
	Ratio         *big.Int
}
type slashRec struct {
	Height, Period uint64
	Frac           *big.Int
}
type VSnap struct {
	Tokens, Shares *big.Int
	Status         int // 0 bonded, 1 unbonding, 2 unbonded
	Jailed         bool
	Ubh            int64
	Dels           []kvBig
	Period         uint64
	Cur, Out       *big.Int
	Hist           []histRec
	Start          []startRec
	Slashes        []slashRec
}
type redRec struct {
	Del, Src, Dst int
	H             int64
	Bal, Sh       *big.Int
}
type ubdRec struct {
	Del, Val  int
	H         int64
	Init, Bal *big.Int
}

func (v VSnap) del(id int) *big.Int {
	for _, d := range v.Dels {
		if d.ID == id {
			return d.N
		}
	}
	return big.NewInt(0)
}
func (v VSnap) sumDels() *big.Int {
	s := big.NewInt(0)
	for _, d := range v.Dels {
		s.Add(s, d.N)
	}
	return s
}

func (v VSnap) coq() string {
	var dels, hist, start, sl []string
	for _, d := range v.Dels {
		dels = append(dels, lib.Pair(lib.Z(int64(d.ID)), lib.ZBig(d.N)))
	}
	for _, h := range v.Hist {
		hist = append(hist, fmt.Sprintf("(%d, %d, %s)", h.Period, h.Count, lib.ZBig(h.Ratio)))
	}
	for _, s := range v.Start {
		start = append(start, lib.Pair(lib.Z(int64(s.ID)), fmt.Sprintf("mk_si %s %s %s", lib.ZU(s.Prev), lib.ZBig(s.Stake), lib.ZU(s.Height))))
	}
	for _, s := range v.Slashes {
		sl = append(sl, fmt.Sprintf("(%d, %d, %s)", s.Height, s.Period, lib.ZBig(s.Frac)))
	}
	return fmt.Sprintf("(mk_v %s %s %d %s %d %s %s %s %s %s %s %s)", lib.ZBig(v.Tokens), lib.ZBig(v.Shares), v.Status, lib.Bool(v.Jailed), v.Ubh,
		lib.List(dels), lib.ZU(v.Period), lib.ZBig(v.Cur), lib.ZBig(v.Out), lib.List(hist), lib.List(start), lib.List(sl))
}

func (v VSnap) key() string { return v.coq() }

type allowRec struct {
	V, Owner, Spender int
	N                 *big.Int
}
type Snap struct {
	Vals   []VSnap
	Allow  []allowRec
	Reds   []redRec
	Ubds   []ubdRec
	Paid   map[int]*big.Int // rewards paid out so far by account (maintained by the harness from balance deltas)
	Mig    []int            // accounts with a migrate record
	Height int64
}

// ---------------------------------------------------------------- world

type World struct {
	c      *lib.Chain
	accs   []lib.Key
	vals   []sdk.ValAddress
	accID  map[string]int
	valID  map[string]int
	smsg   stakingtypes.MsgServer
	dmsg   distrtypes.MsgServer
	dq     distrkeeper.Querier
	selfOK bool // a sender == recipient transfer has been accepted in this history

	legacy, fresh int              // ids of the cosmos-key account (can be migrated) and of the unused eth account it migrates to
	migrated      bool             // the migration happened
	lastBlock     bool             // nothing has been applied since the last block was committed
	valKeys       []lib.Key        // operator keys, in the order of w.vals
	paid          map[int]*big.Int // rewards paid out so far by account (from liquid balance deltas)
}

const opBase = 100 // ids of the validator operators: 100+i

// two contracts (no solc here: assembled by hand):
//
//	revID   forwards its calldata to the staking precompile (so the precompile's caller is this contract)
//	        and then REVERTs — whatever the precompile did in that frame must be gone;
//	catchID calls revID with its calldata and swallows the failure (try/catch): the transaction succeeds.
const (
	revID   = 50
	catchID = 51
)

var (
	revAddr   = common.HexToAddress("0x00000000000000000000000000000000000c1150")
	catchAddr = common.HexToAddress("0x00000000000000000000000000000000000c1151")
)

// newWorld builds the chain and stops right after InitChain: the history starts at genesis
// (model.M_Shares.gen_state), the set-up operations are ordinary recorded steps.
func newWorld(seed int64, nVals, nAcc int) *World {
	c := lib.NewChain(seed, nVals, nil)
	w := &World{c: c, accID: map[string]int{}, valID: map[string]int{}, paid: map[int]*big.Int{}}
	w.smsg = stakingkeeper.NewMsgServerImpl(c.App.StakingKeeper.Keeper)
	w.dmsg = distrkeeper.NewMsgServerImpl(c.App.DistrKeeper)
	w.dq = distrkeeper.NewQuerier(c.App.DistrKeeper)
	// accounts and validators are numbered in address order: the order in which the staking store
	// iterates redelegations (src, delegator, dst) is then the order of the ids
	for i := 0; i < nAcc; i++ {
		w.accs = append(w.accs, lib.EthKey(seed, "c11", i))
	}
	// one account with a cosmos secp256k1 key (it acts through the SDK msg servers only and can be migrated
	// with MsgMigrateAccount) and one unused eth account as the migration target
	legacyKey := lib.CosmosKey(seed, "c11-legacy", 0)
	freshKey := lib.EthKey(seed, "c11-fresh", 0)
	w.accs = append(w.accs, legacyKey, freshKey)
	sort.Slice(w.accs, func(a, b int) bool { return bytes.Compare(w.accs[a].Acc(), w.accs[b].Acc()) < 0 })
	for i, k := range w.accs {
		w.accID[k.Acc().String()] = i
		if bytes.Equal(k.Acc(), legacyKey.Acc()) {
			w.legacy = i
		}
		if bytes.Equal(k.Acc(), freshKey.Acc()) {
			w.fresh = i
			continue // no coins, no account record: it is created by the migration
		}
		c.Mint(k.Acc(), lib.FX(50_000_000))
	}
	la := c.App.AccountKeeper.GetAccount(c.Ctx, legacyKey.Acc())
	lib.Must(la.SetPubKey(legacyKey.Priv.PubKey()))
	c.App.AccountKeeper.SetAccount(c.Ctx, la)
	w.valKeys = append(w.valKeys, c.ValKeys...)
	sort.Slice(w.valKeys, func(a, b int) bool { return bytes.Compare(w.valKeys[a].Val(), w.valKeys[b].Val()) < 0 })
	for i, k := range w.valKeys {
		w.vals = append(w.vals, k.Val())
		w.valID[k.Val().String()] = i
		w.accID[k.Acc().String()] = opBase + i
	}
	w.accID[sdk.AccAddress(revAddr.Bytes()).String()] = revID
	w.accID[sdk.AccAddress(catchAddr.Bytes()).String()] = catchID
	c.InstallCode(c.Ctx, revAddr, (&lib.Asm{}).ForwardCalldata(lib.CALL, lib.StakingPrecompile).Ignore().Revert().B)
	c.InstallCode(c.Ctx, catchAddr, (&lib.Asm{}).ForwardCalldata(lib.CALL, revAddr).Ignore().Stop().B)
	return w
}

// evmTo sends calldata from an EOA to a contract; returns the EVM-level failure, if any
func (w *World) evmTo(from int, to common.Address, data []byte) error {
	var callErr error
	err := w.c.Try(func(ctx sdk.Context) error {
		res := w.c.EvmCall(ctx, w.key(from).Hex(), &to, nil, 5_000_000, data)
		if res.Err != nil {
			return res.Err
		}
		if res.Failed {
			callErr = fmt.Errorf("evm: %s", res.VmError)
		}
		return nil
	})
	if err != nil {
		return err
	}
	return callErr
}

// delegatorOrder: every account that can hold a delegation, in address order (the order of
// StakingKeeper.GetAllDelegations, which prepForZeroHeightGenesis walks)
func (w *World) delegatorOrder() []int {
	type ent struct {
		id   int
		addr []byte
	}
	var l []ent
	for i, k := range w.accs {
		l = append(l, ent{i, k.Acc()})
	}
	for i, k := range w.valKeys {
		l = append(l, ent{opBase + i, k.Acc()})
	}
	l = append(l, ent{revID, revAddr.Bytes()}, ent{catchID, catchAddr.Bytes()})
	sort.Slice(l, func(a, b int) bool { return bytes.Compare(l[a].addr, l[b].addr) < 0 })
	var out []int
	for _, e := range l {
		out = append(out, e.id)
	}
	return out
}

// exportImport: the application-level restart path. The committed state is exported
// (ExportAppStateAndValidators, optionally "for zero height") and a FRESH application on an empty database
// is initialised from that genesis; the history continues on the new application.
// (The ibc section is replaced by the default one: the test chain's localhost client cannot be imported.)
func (w *World) exportImport(zero bool) (err error) {
	defer func() {
		if r := recover(); r != nil {
			err = fmt.Errorf("PANIC in export/import: %v", r)
		}
	}()
	c := w.c
	exported, err := c.App.ExportAppStateAndValidators(zero, nil, nil)
	if err != nil {
		return fmt.Errorf("export: %w", err)
	}
	v := viper.New()
	for k, val := range c.Opts {
		v.Set(k, val)
	}
	na := app.New(log.NewNopLogger(), dbm.NewMemDB(), nil, true, map[int64]bool{}, fxtypes.GetDefaultNodeHome(), v)
	var gs app.GenesisState
	if err := json.Unmarshal(exported.AppState, &gs); err != nil {
		return err
	}
	gs["ibc"] = app.NewDefAppGenesisByDenom(na.AppCodec(), na.ModuleBasics)["ibc"]
	bz, err := json.Marshal(gs)
	if err != nil {
		return err
	}
	initial := exported.Height
	if initial == 0 {
		initial = 1
	}
	cp := app.CustomGenesisConsensusParams().ToProto()
	if _, err := na.InitChain(&abci.RequestInitChain{Time: c.Time, ConsensusParams: &cp, AppStateBytes: bz, InitialHeight: initial}); err != nil {
		return fmt.Errorf("InitChain on the exported genesis: %w", err)
	}
	c.App = na
	c.Height = initial - 1
	c.Ctx = na.GetContextForFinalizeBlock(nil).WithProposer(c.ValSet.Proposer.Address.Bytes()).WithBlockTime(c.Time)
	w.smsg = stakingkeeper.NewMsgServerImpl(c.App.StakingKeeper.Keeper)
	w.dmsg = distrkeeper.NewMsgServerImpl(c.App.DistrKeeper)
	w.dq = distrkeeper.NewQuerier(c.App.DistrKeeper)
	return nil
}

// setupOps: a first block, then every operator adds 5000 FX to its self-delegation (keeps the validator's
// consensus power comfortably above zero whatever the participants do), then another block.
func setupOps(nVals int) []Op {
	ops := []Op{{K: "block", X: "0"}}
	for i := 0; i < nVals; i++ {
		ops = append(ops, Op{K: "delegate", V: i, A: opBase + i, X: lib.FX(5_000).Amount.String(), Via: "msg", Setup: true})
	}
	return append(ops, Op{K: "block", X: "1000000000000000000"})
}

func decRaw(d sdk.DecCoins) *big.Int {
	if len(d) > 1 || len(d) == 1 && d[0].Denom != fxtypes.DefaultDenom {
		panic("reward coins in an unexpected denom: " + d.String())
	}
	return d.AmountOf(fxtypes.DefaultDenom).BigInt()
}

func (w *World) snap(ctx sdk.Context) Snap {
	c := w.c
	s := Snap{Height: ctx.BlockHeight(), Paid: map[int]*big.Int{}}
	for k, v := range w.paid {
		if v.Sign() != 0 {
			s.Paid[k] = new(big.Int).Set(v)
		}
	}
	s.Vals = make([]VSnap, len(w.vals))
	for i, va := range w.vals {
		v, err := c.App.StakingKeeper.GetValidator(ctx, va)
		lib.Must(err)
		vs := VSnap{Tokens: v.Tokens.BigInt(), Shares: v.DelegatorShares.BigInt(), Jailed: v.Jailed, Ubh: v.UnbondingHeight}
		switch {
		case v.IsBonded():
			vs.Status = 0
		case v.IsUnbonding():
			vs.Status = 1
		default:
			vs.Status = 2
		}
		if !v.Commission.Rate.IsZero() {
			panic("the model assumes commission rate 0")
		}
		dels, err := c.App.StakingKeeper.GetValidatorDelegations(ctx, va)
		lib.Must(err)
		for _, d := range dels {
			acc := sdk.MustAccAddressFromBech32(d.DelegatorAddress)
			id, ok := w.accID[acc.String()]
			if !ok {
				panic("unknown delegator " + d.DelegatorAddress)
			}
			vs.Dels = append(vs.Dels, kvBig{id, d.Shares.BigInt()})
		}
		sort.Slice(vs.Dels, func(a, b int) bool { return vs.Dels[a].ID < vs.Dels[b].ID })
		cur, err := c.App.DistrKeeper.GetValidatorCurrentRewards(ctx, va)
		lib.Must(err)
		vs.Period = cur.Period
		vs.Cur = decRaw(cur.Rewards)
		out, err := c.App.DistrKeeper.GetValidatorOutstandingRewards(ctx, va)
		lib.Must(err)
		vs.Out = decRaw(out.Rewards)
		s.Vals[i] = vs
	}
	c.App.DistrKeeper.IterateValidatorHistoricalRewards(ctx, func(val sdk.ValAddress, period uint64, r distrtypes.ValidatorHistoricalRewards) bool {
		if i, ok := w.valID[val.String()]; ok {
			s.Vals[i].Hist = append(s.Vals[i].Hist, histRec{period, uint64(r.ReferenceCount), decRaw(r.CumulativeRewardRatio)})
		}
		return false
	})
	c.App.DistrKeeper.IterateDelegatorStartingInfos(ctx, func(val sdk.ValAddress, del sdk.AccAddress, info distrtypes.DelegatorStartingInfo) bool {
		i, ok := w.valID[val.String()]
		if !ok {
			return false
		}
		id, ok := w.accID[del.String()]
		if !ok {
			panic("unknown delegator in starting info " + del.String())
		}
		st := big.NewInt(0)
		if !info.Stake.IsNil() {
			st = info.Stake.BigInt()
		}
		s.Vals[i].Start = append(s.Vals[i].Start, startRec{id, info.PreviousPeriod, st, info.Height})
		return false
	})
	c.App.DistrKeeper.IterateValidatorSlashEvents(ctx, func(val sdk.ValAddress, height uint64, ev distrtypes.ValidatorSlashEvent) bool {
		if i, ok := w.valID[val.String()]; ok {
			s.Vals[i].Slashes = append(s.Vals[i].Slashes, slashRec{height, ev.ValidatorPeriod, ev.Fraction.BigInt()})
		}
		return false
	})
	for i := range s.Vals {
		v := &s.Vals[i]
		sort.Slice(v.Hist, func(a, b int) bool { return v.Hist[a].Period < v.Hist[b].Period })
		sort.Slice(v.Start, func(a, b int) bool { return v.Start[a].ID < v.Start[b].ID })
		sort.SliceStable(v.Slashes, func(a, b int) bool {
			if v.Slashes[a].Height != v.Slashes[b].Height {
				return v.Slashes[a].Height < v.Slashes[b].Height
			}
			return v.Slashes[a].Period < v.Slashes[b].Period
		})
	}
	c.App.StakingKeeper.IterateAllAllowance(ctx, func(val sdk.ValAddress, owner, spender sdk.AccAddress, al *big.Int) bool {
		if al.Sign() == 0 {
			return false
		}
		vi, ok1 := w.valID[val.String()]
		o, ok2 := w.accID[owner.String()]
		sp, ok3 := w.accID[spender.String()]
		if !ok1 || !ok2 || !ok3 {
			panic("unknown allowance key")
		}
		s.Allow = append(s.Allow, allowRec{vi, o, sp, new(big.Int).Set(al)})
		return false
	})
	sort.Slice(s.Allow, func(a, b int) bool {
		x, y := s.Allow[a], s.Allow[b]
		if x.V != y.V {
			return x.V < y.V
		}
		if x.Owner != y.Owner {
			return x.Owner < y.Owner
		}
		return x.Spender < y.Spender
	})
	lib.Must(c.App.StakingKeeper.IterateRedelegations(ctx, func(_ int64, red stakingtypes.Redelegation) bool {
		d := w.accID[sdk.MustAccAddressFromBech32(red.DelegatorAddress).String()]
		for _, e := range red.Entries {
			s.Reds = append(s.Reds, redRec{d, w.valID[red.ValidatorSrcAddress], w.valID[red.ValidatorDstAddress], e.CreationHeight, e.InitialBalance.BigInt(), e.SharesDst.BigInt()})
		}
		return false
	}))
	c.App.MigrateKeeper.IterateMigrateRecords(ctx, func(rec migratetypes.MigrateRecord) bool {
		f, ok1 := w.accID[sdk.MustAccAddressFromBech32(rec.From).String()]
		t, ok2 := w.accID[sdk.AccAddress(common.HexToAddress(rec.To).Bytes()).String()]
		if !ok1 || !ok2 {
			panic("unknown account in a migrate record")
		}
		s.Mig = append(s.Mig, f, t)
		return false
	})
	lib.Must(c.App.StakingKeeper.IterateUnbondingDelegations(ctx, func(_ int64, u stakingtypes.UnbondingDelegation) bool {
		d := w.accID[sdk.MustAccAddressFromBech32(u.DelegatorAddress).String()]
		for _, e := range u.Entries {
			s.Ubds = append(s.Ubds, ubdRec{d, w.valID[u.ValidatorAddress], e.CreationHeight, e.InitialBalance.BigInt(), e.Balance.BigInt()})
		}
		return false
	}))
	return s
}

func (s Snap) nRedsOf(d int) int {
	n := 0
	for _, r := range s.Reds {
		if r.Del == d {
			n++
		}
	}
	return n
}

func (s Snap) nReds(d, src, dst int) int {
	n := 0
	for _, r := range s.Reds {
		if r.Del == d && (src < 0 || r.Src == src) && r.Dst == dst {
			n++
		}
	}
	return n
}

// digest: the fingerprint model.M_SharesCorr.digest computes over the model state, here over the
// records read from the real stores (polynomial hash modulo 2^64 of a canonical serialisation, numbers as five 64-bit limbs).
var hM = new(big.Int).SetUint64(^uint64(0))
var hB = big.NewInt(1000003)

func hstep(acc, x *big.Int) *big.Int {
	t := new(big.Int).Mul(acc, hB)
	t.Add(t, x)
	t.Add(t, big.NewInt(1))
	return t.And(t, hM)
}

func hmix(l []*big.Int) *big.Int {
	acc := big.NewInt(7)
	for _, x := range l {
		y := new(big.Int).Set(x)
		for i := 0; i < 5 && y.Sign() != 0; i++ {
			acc = hstep(acc, new(big.Int).And(y, hM))
			y.Rsh(y, 64)
		}
		acc = hstep(acc, big.NewInt(0))
	}
	return acc
}

func bi(n int) *big.Int    { return big.NewInt(int64(n)) }
func bu(n uint64) *big.Int { return new(big.Int).SetUint64(n) }

func b2i(b bool) *big.Int {
	if b {
		return big.NewInt(1)
	}
	return big.NewInt(0)
}

func (v VSnap) ser() []*big.Int {
	l := []*big.Int{v.Tokens, v.Shares, bi(v.Status), b2i(v.Jailed), big.NewInt(v.Ubh), bi(len(v.Dels))}
	for _, d := range v.Dels {
		l = append(l, bi(d.ID), d.N)
	}
	l = append(l, bu(v.Period), v.Cur, v.Out, bi(len(v.Hist)))
	for _, h := range v.Hist {
		l = append(l, bu(h.Period), bu(h.Count), h.Ratio)
	}
	l = append(l, bi(len(v.Start)))
	for _, st := range v.Start {
		l = append(l, bi(st.ID), bu(st.Prev), st.Stake, bu(st.Height))
	}
	l = append(l, bi(len(v.Slashes)))
	for _, sl := range v.Slashes {
		l = append(l, bu(sl.Height), bu(sl.Period), sl.Frac)
	}
	return l
}

func (s Snap) digest() *big.Int {
	l := []*big.Int{big.NewInt(s.Height), bi(len(s.Vals))}
	for _, v := range s.Vals {
		l = append(l, v.ser()...)
	}
	hv := hmix(l)
	ha, hr, hu, hp := big.NewInt(0), big.NewInt(0), big.NewInt(0), big.NewInt(0)
	for _, a := range s.Allow {
		ha.Add(ha, hmix([]*big.Int{bi(a.V), bi(a.Owner), bi(a.Spender), a.N}))
		ha.And(ha, hM)
	}
	for _, x := range s.Reds {
		hr.Add(hr, hmix([]*big.Int{bi(x.Del), bi(x.Src), bi(x.Dst), big.NewInt(x.H), x.Bal, x.Sh}))
		hr.And(hr, hM)
	}
	for _, x := range s.Ubds {
		hu.Add(hu, hmix([]*big.Int{bi(x.Del), bi(x.Val), big.NewInt(x.H), x.Init, x.Bal}))
		hu.And(hu, hM)
	}
	for id, n := range s.Paid {
		hp.Add(hp, hmix([]*big.Int{bi(id), n}))
		hp.And(hp, hM)
	}
	hm := big.NewInt(0)
	for _, id := range s.Mig {
		hm.Add(hm, hmix([]*big.Int{bi(id)}))
		hm.And(hm, hM)
	}
	return hmix([]*big.Int{hv, ha, hr, hu, hp, hm})
}

func (s Snap) allowance(v, owner, spender int) *big.Int {
	for _, a := range s.Allow {
		if a.V == v && a.Owner == owner && a.Spender == spender {
			return a.N
		}
	}
	return big.NewInt(0)
}

func (w *World) key(id int) lib.Key {
	if id >= opBase {
		return w.valKeys[id-opBase]
	}
	return w.accs[id]
}

func (w *World) balance(ctx sdk.Context, id int) *big.Int {
	return w.c.App.BankKeeper.GetBalance(ctx, w.key(id).Acc(), fxtypes.DefaultDenom).Amount.BigInt()
}

// pending rewards (truncated to whole coins, as a withdrawal pays them) according to the real querier
func (w *World) pending(id, v int) (out *big.Int) {
	defer func() {
		if r := recover(); r != nil {
			out = nil
		}
	}()
	ctx, _ := w.c.Ctx.CacheContext()
	res, err := w.dq.DelegationRewards(ctx, &distrtypes.QueryDelegationRewardsRequest{
		DelegatorAddress: w.key(id).Acc().String(), ValidatorAddress: w.vals[v].String()})
	if err != nil {
		return nil
	}
	return res.Rewards.AmountOf(fxtypes.DefaultDenom).TruncateInt().BigInt()
}

// ---------------------------------------------------------------- executing one operation on the real app

func bigOf(s string) *big.Int {
	n, ok := new(big.Int).SetString(s, 10)
	if !ok {
		panic("bad number " + s)
	}
	return n
}

// evm performs the precompile call as the EOA `from`. What the EVM commits is kept (also for a reverted
// call: that the revert leaves staking/distribution untouched is part of what is checked).
func (w *World) evm(from int, method string, args ...interface{}) error {
	data, err := fxstakingtypes.GetABI().Pack(method, args...)
	lib.Must(err)
	sp := lib.StakingPrecompile
	var callErr error
	err = w.c.Try(func(ctx sdk.Context) error {
		res := w.c.EvmCall(ctx, w.key(from).Hex(), &sp, nil, 5_000_000, data)
		if res.Err != nil {
			return res.Err // ApplyMessage refused / panicked: nothing is committed
		}
		if res.Failed {
			callErr = fmt.Errorf("evm: %s", res.VmError)
		}
		return nil
	})
	if err != nil {
		return err
	}
	return callErr
}

func (w *World) validOp(o Op) bool {
	nv := len(w.vals)
	okAcc := func(i int) bool {
		return i >= 0 && i < len(w.accs) || o.Setup && o.K == "delegate" && i >= opBase && i < opBase+len(w.vals)
	}
	if o.K == "block" || o.K == "mature" || o.K == "export" {
		return true
	}
	if o.K == "migrate" {
		return okAcc(o.A) && okAcc(o.B)
	}
	if o.V < 0 || o.V >= nv {
		return false
	}
	switch o.K {
	case "slash", "jail", "unjail":
		return true
	case "approveRev", "migrate":
		return okAcc(o.A) && okAcc(o.B)
	case "redelegate":
		return o.W >= 0 && o.W < nv && okAcc(o.A)
	case "approve", "transfer":
		return okAcc(o.A) && okAcc(o.B)
	case "transferFrom":
		return okAcc(o.A) && okAcc(o.B) && okAcc(o.C)
	}
	return okAcc(o.A)
}

func (w *World) apply(o *Op) error {
	c := w.c
	wasBlock := w.lastBlock
	w.lastBlock = o.K == "block" || o.K == "mature"
	switch o.K {
	case "export":
		if !wasBlock {
			panic("export must follow a block (it reads the committed state)")
		}
		o.Ord = w.delegatorOrder()
		err := w.exportImport(o.Zero)
		w.lastBlock = err == nil
		return err
	case "migrate":
		// the real MsgMigrateAccount handler: bank, staking/distribution and gov records move to the new address
		err := c.Try(func(ctx sdk.Context) error {
			_, e := c.App.MigrateKeeper.MigrateAccount(ctx, &migratetypes.MsgMigrateAccount{
				From: w.key(o.A).Acc().String(), To: w.key(o.B).Hex().String(), Signature: "00"})
			return e
		})
		if err == nil && o.A == w.legacy && o.B == w.fresh {
			w.migrated = true
		}
		return err
	case "approveRev":
		// approveShares(val, spender, x) executed by the reverting contract (owner = that contract)
		data, err := fxstakingtypes.GetABI().Pack("approveShares", w.vals[o.V].String(), w.key(o.B).Hex(), bigOf(o.X))
		lib.Must(err)
		target := revAddr
		if o.Catch {
			target = catchAddr
		}
		if err := w.evmTo(o.A, target, data); err != nil {
			return err
		}
		return fmt.Errorf("the frame that called approveShares reverted (the transaction itself succeeded)")
	}
	val := func(i int) string { return w.vals[i].String() }
	switch o.K {
	case "delegate":
		if o.Via == "msg" {
			return c.Try(func(ctx sdk.Context) error {
				_, err := w.smsg.Delegate(ctx, &stakingtypes.MsgDelegate{DelegatorAddress: w.key(o.A).Acc().String(), ValidatorAddress: val(o.V),
					Amount: sdk.NewCoin(fxtypes.DefaultDenom, sdkmath.NewIntFromBigInt(bigOf(o.X)))})
				return err
			})
		}
		return w.evm(o.A, "delegateV2", val(o.V), bigOf(o.X))
	case "undelegate":
		if o.Via == "msg" {
			return c.Try(func(ctx sdk.Context) error {
				_, err := w.smsg.Undelegate(ctx, &stakingtypes.MsgUndelegate{DelegatorAddress: w.key(o.A).Acc().String(), ValidatorAddress: val(o.V),
					Amount: sdk.NewCoin(fxtypes.DefaultDenom, sdkmath.NewIntFromBigInt(bigOf(o.X)))})
				return err
			})
		}
		return w.evm(o.A, "undelegateV2", val(o.V), bigOf(o.X))
	case "redelegate":
		if o.Via == "msg" {
			return c.Try(func(ctx sdk.Context) error {
				_, err := w.smsg.BeginRedelegate(ctx, &stakingtypes.MsgBeginRedelegate{DelegatorAddress: w.key(o.A).Acc().String(),
					ValidatorSrcAddress: val(o.V), ValidatorDstAddress: val(o.W),
					Amount: sdk.NewCoin(fxtypes.DefaultDenom, sdkmath.NewIntFromBigInt(bigOf(o.X)))})
				return err
			})
		}
		return w.evm(o.A, "redelegateV2", val(o.V), val(o.W), bigOf(o.X))
	case "withdraw":
		if o.Via == "msg" {
			return c.Try(func(ctx sdk.Context) error {
				_, err := w.dmsg.WithdrawDelegatorReward(ctx, &distrtypes.MsgWithdrawDelegatorReward{DelegatorAddress: w.key(o.A).Acc().String(), ValidatorAddress: val(o.V)})
				return err
			})
		}
		return w.evm(o.A, "withdraw", val(o.V))
	case "approve":
		return w.evm(o.A, "approveShares", val(o.V), w.key(o.B).Hex(), bigOf(o.X))
	case "transfer":
		return w.evm(o.A, "transferShares", val(o.V), w.key(o.B).Hex(), bigOf(o.X))
	case "transferFrom":
		return w.evm(o.A, "transferFromShares", val(o.V), w.key(o.B).Hex(), w.key(o.C).Hex(), bigOf(o.X))
	case "block", "mature":
		// fees for this block's reward allocation (distribution BeginBlocker)
		if o.X != "" && o.X != "0" {
			fee := sdk.NewCoins(sdk.NewCoin(fxtypes.DefaultDenom, sdkmath.NewIntFromBigInt(bigOf(o.X))))
			lib.Must(c.App.BankKeeper.MintCoins(c.Ctx, "mint", fee))
			lib.Must(c.App.BankKeeper.SendCoinsFromModuleToModule(c.Ctx, "mint", authtypes.FeeCollectorName, fee))
		}
		curBefore := make([]*big.Int, len(w.vals))
		for i, va := range w.vals {
			cur, err := c.App.DistrKeeper.GetValidatorCurrentRewards(c.Ctx, va)
			lib.Must(err)
			curBefore[i] = decRaw(cur.Rewards)
		}
		var err error
		if o.K == "mature" {
			err = c.NextBlockAfter(21*24*time.Hour + time.Minute)
		} else {
			err = c.NextBlock()
		}
		if err != nil {
			return err
		}
		// what AllocateTokens gave each validator (input of the model's Block operation)
		o.Rs = nil
		for i, va := range w.vals {
			cur, err := c.App.DistrKeeper.GetValidatorCurrentRewards(c.Ctx, va)
			lib.Must(err)
			o.Rs = append(o.Rs, new(big.Int).Sub(decRaw(cur.Rewards), curBefore[i]).String())
		}
		return nil
	case "slash":
		o.Ih = c.Ctx.BlockHeight() - o.Back
		return c.Try(func(ctx sdk.Context) error {
			v, err := c.App.StakingKeeper.GetValidator(ctx, w.vals[o.V])
			if err != nil {
				return err
			}
			cons, err := v.GetConsAddr()
			if err != nil {
				return err
			}
			_, err = c.App.StakingKeeper.Slash(ctx, cons, o.Ih, o.Power, sdkmath.LegacyNewDecFromBigIntWithPrec(bigOf(o.Frac), 18))
			return err
		})
	case "jail", "unjail":
		return c.Try(func(ctx sdk.Context) error {
			v, err := c.App.StakingKeeper.GetValidator(ctx, w.vals[o.V])
			if err != nil {
				return err
			}
			cons, err := v.GetConsAddr()
			if err != nil {
				return err
			}
			if o.K == "jail" {
				return c.App.StakingKeeper.Jail(ctx, cons)
			}
			return c.App.StakingKeeper.Unjail(ctx, cons)
		})
	}
	panic("unknown op " + o.K)
}

func (o Op) coq() string {
	z := func(i int) string { return lib.Z(int64(i)) }
	switch o.K {
	case "delegate":
		return fmt.Sprintf("Delegate %s %s %s", z(o.V), z(o.A), o.X)
	case "undelegate":
		return fmt.Sprintf("Undelegate %s %s %s", z(o.V), z(o.A), o.X)
	case "redelegate":
		return fmt.Sprintf("Redelegate %s %s %s %s", z(o.V), z(o.W), z(o.A), o.X)
	case "withdraw":
		return fmt.Sprintf("Withdraw %s %s", z(o.V), z(o.A))
	case "approve":
		return fmt.Sprintf("Approve %s %s %s %s", z(o.V), z(o.A), z(o.B), o.X)
	case "transfer":
		return fmt.Sprintf("Transfer %s %s %s %s", z(o.V), z(o.A), z(o.B), o.X)
	case "transferFrom":
		return fmt.Sprintf("TransferFrom %s %s %s %s %s", z(o.V), z(o.A), z(o.B), z(o.C), o.X)
	case "block":
		return "Block " + lib.List(o.Rs)
	case "mature":
		return "Mature " + lib.List(o.Rs)
	case "slash":
		return fmt.Sprintf("SlashVal %s %s %d %s", z(o.V), lib.Z(o.Ih), o.Power, o.Frac)
	case "export":
		var l []string
		for _, id := range o.Ord {
			l = append(l, z(id))
		}
		return fmt.Sprintf("ExportImport %s %s", lib.Bool(o.Zero), lib.List(l))
	case "approveRev":
		return fmt.Sprintf("Reverted (Approve %s %d %s %s)", z(o.V), revID, z(o.B), o.X)
	case "migrate":
		return fmt.Sprintf("Migrate %s %s", z(o.A), z(o.B))
	case "jail":
		return "Jail " + z(o.V)
	case "unjail":
		return "Unjail " + z(o.V)
	}
	panic("unknown op")
}

func (o Op) touched() []int {
	switch o.K {
	case "block", "mature", "approveRev":
		return nil
	case "migrate":
		return []int{0, 1, 2}
	case "export":
		return []int{0, 1, 2}
	case "slash":
		if o.Back > 0 {
			return []int{0, 1} // redelegation destinations change too; the final records cover validator 2
		}
	case "redelegate":
		if o.V == o.W {
			return []int{o.V}
		}
		return []int{o.V, o.W}
	}
	return []int{o.V}
}

// ---------------------------------------------------------------- monitor

type monFail struct{ kind, what string }

func (w *World) invariants() []monFail {
	var out []monFail
	for _, ir := range w.c.App.CrisisKeeper.Routes() {
		func() {
			defer func() {
				if r := recover(); r != nil {
					out = append(out, monFail{"invariant-panic:" + ir.FullRoute(), fmt.Sprintf("crisis invariant %s panicked: %v", ir.FullRoute(), r)})
				}
			}()
			ctx, _ := w.c.Ctx.CacheContext()
			if res, stop := ir.Invar(ctx); stop {
				out = append(out, monFail{"invariant:" + ir.FullRoute(), "crisis invariant broken: " + ir.FullRoute() + ": " + oneLine(res)})
			}
		}()
	}
	return out
}

func oneLine(s string) string {
	s = strings.Join(strings.Fields(s), " ")
	if len(s) > 300 {
		s = s[:300] + "…"
	}
	return s
}

// monitor evaluates the property on what the real app did for one operation.
func (w *World) monitor(o Op, before, after Snap, balBefore map[int]*big.Int, pend map[int]*big.Int, err error) []monFail {
	var out []monFail
	add := func(kind, f string, a ...interface{}) { out = append(out, monFail{kind, fmt.Sprintf(f, a...)}) }
	// Σ delegations = validator shares; no historical record is referenced more than twice (the bound
	// the SDK's incrementReferenceCount panics on)
	for i, v := range after.Vals {
		if v.sumDels().Cmp(v.Shares) != 0 {
			add("sum-shares", "validator %d: sum of delegations %s != validator shares %s", i, v.sumDels(), v.Shares)
		}
		for _, d := range v.Dels {
			if d.N.Sign() <= 0 {
				add("empty-delegation", "validator %d: account %d has a delegation record with %s shares", i, d.ID, d.N)
			}
		}
		for _, h := range v.Hist {
			if h.Count > 2 {
				add("refcount-gt-2", "validator %d: historical rewards of period %d have reference count %d", i, h.Period, h.Count)
			}
		}
	}
	if o.K != "block" && o.K != "mature" && err != nil {
		// a refused call changes nothing in staking / distribution / allowances
		for i := range after.Vals {
			if before.Vals[i].key() != after.Vals[i].key() {
				add("failed-call-wrote", "%s failed (%v) but validator %d's records changed", o.K, err, i)
			}
		}
		if fmt.Sprint(before.Allow) != fmt.Sprint(after.Allow) {
			add("failed-call-wrote", "%s failed (%v) but allowances changed", o.K, err)
		}
	}
	if (o.K == "transfer" || o.K == "transferFrom") && err != nil {
		// liveness of the interface: with a sufficient delegation, no incoming redelegation and (for
		// transferFrom) a sufficient allowance there is no reason to refuse
		from, to, spender := o.A, o.B, -1
		if o.K == "transferFrom" {
			spender, from, to = o.A, o.B, o.C
		}
		x := bigOf(o.X)
		// (refusing sender == recipient is a legitimate way of "changing nothing")
		okPre := from != to && x.Sign() > 0 && before.Vals[o.V].del(from).Cmp(new(big.Int).Mul(x, one18)) >= 0
		if before.nReds(from, -1, o.V) > 0 {
			okPre = false
		}
		if spender >= 0 && before.allowance(o.V, from, spender).Cmp(x) < 0 {
			okPre = false
		}
		if okPre {
			add("transfer-refused", "%s of %s shares refused (%s) although the sender holds %s, has no incoming redelegation and the allowance suffices",
				o.K, o.X, oneLine(err.Error()), before.Vals[o.V].del(from))
		}
	}
	if (o.K == "transfer" || o.K == "transferFrom") && err == nil {
		from, to, spender := o.A, o.B, -1
		if o.K == "transferFrom" {
			spender, from, to = o.A, o.B, o.C
		}
		x := new(big.Int).Mul(bigOf(o.X), one18)
		bv, av := before.Vals[o.V], after.Vals[o.V]
		if bv.Tokens.Cmp(av.Tokens) != 0 || bv.Shares.Cmp(av.Shares) != 0 {
			add("transfer-validator", "transfer changed the validator: tokens %s -> %s, shares %s -> %s", bv.Tokens, av.Tokens, bv.Shares, av.Shares)
		}
		if before.nReds(from, -1, o.V) > 0 {
			add("transfer-with-incoming-redelegation", "transfer accepted while sender %d has an incoming redelegation on validator %d", from, o.V)
		}
		if from == to {
			// an accepted transfer to oneself has to leave every delegation as it was
			for _, d := range bv.Dels {
				if av.del(d.ID).Cmp(d.N) != 0 {
					add("self-transfer", "transfer of %s shares to oneself changed the delegation of %d: %s -> %s", o.X, d.ID, d.N, av.del(d.ID))
				}
			}
			if len(av.Dels) != len(bv.Dels) {
				add("self-transfer", "transfer of %s shares to oneself changed the set of delegations", o.X)
			}
		} else {
			if d := new(big.Int).Sub(bv.del(from), av.del(from)); d.Cmp(x) != 0 {
				add("transfer-sender", "sender's delegation changed by -%s, transferred %s", d, x)
			}
			if d := new(big.Int).Sub(av.del(to), bv.del(to)); d.Cmp(x) != 0 {
				add("transfer-recipient", "recipient's delegation changed by +%s, transferred %s", d, x)
			}
		}
		for _, d := range bv.Dels {
			if d.ID != from && d.ID != to && av.del(d.ID).Cmp(d.N) != 0 {
				add("transfer-bystander", "delegation of %d changed by a transfer between %d and %d", d.ID, from, to)
			}
		}
		for i := range after.Vals {
			if i != o.V && before.Vals[i].key() != after.Vals[i].key() {
				add("transfer-other-validator", "transfer on validator %d changed validator %d", o.V, i)
			}
		}
		if spender >= 0 {
			ab, aa := before.allowance(o.V, from, spender), after.allowance(o.V, from, spender)
			if ab.Cmp(bigOf(o.X)) < 0 {
				add("allowance-exceeded", "transferFrom of %s accepted with allowance %s", o.X, ab)
			}
			if d := new(big.Int).Sub(ab, aa); d.Cmp(bigOf(o.X)) != 0 {
				add("allowance-delta", "allowance went %s -> %s for a transferFrom of %s", ab, aa, o.X)
			}
		}
		// reward entitlement afterwards: each party's starting info carries the stake its shares are
		// worth now (SDK rule: TokensFromSharesTruncated), starts in the period that just ended
		if from != to {
			for _, id := range []int{from, to} {
				sh := av.del(id)
				var rec *startRec
				for i := range av.Start {
					if av.Start[i].ID == id {
						rec = &av.Start[i]
					}
				}
				if sh.Sign() == 0 {
					if rec != nil {
						add("transfer-start-left", "account %d has no delegation after the transfer but still a starting info", id)
					}
					continue
				}
				if rec == nil {
					add("transfer-start-missing", "account %d has a delegation after the transfer but no starting info", id)
					continue
				}
				want := new(big.Int).Mul(sh, av.Tokens) // Dec(shares)*tokens / Dec(valShares), truncated to 18 decimals
				want.Mul(want, one18)
				want.Quo(want, av.Shares)
				if rec.Stake.Cmp(want) != 0 {
					add("transfer-stake", "account %d: starting info stake %s, its shares are worth %s", id, rec.Stake, want)
				}
				if rec.Prev+1 != av.Period && rec.Prev+2 != av.Period {
					add("transfer-start-period", "account %d: starting info period %d, current period %d", id, rec.Prev, av.Period)
				}
			}
		}
		// both parties are paid exactly what had accrued, nothing is pending afterwards
		if from != to {
			for _, id := range []int{from, to} {
				p := pend[id]
				if p == nil {
					continue
				}
				paid := new(big.Int).Sub(w.balance(w.c.Ctx, id), balBefore[id])
				if paid.Cmp(p) != 0 {
					add("reward-paid", "account %d had %s pending rewards, the transfer paid %s", id, p, paid)
				}
				if q := w.pending(id, o.V); q != nil && q.Sign() != 0 {
					add("reward-left", "account %d still has %s pending right after the transfer", id, q)
				}
			}
		}
	}
	if o.K == "approve" && err == nil {
		if after.allowance(o.V, o.A, o.B).Cmp(bigOf(o.X)) != 0 {
			add("approve", "approve(%s) left allowance %s", o.X, after.allowance(o.V, o.A, o.B))
		}
	}
	if o.K == "migrate" && err == nil {
		// the new address holds exactly what the old one held, on every validator; nobody else changes
		for i := range after.Vals {
			bv, av := before.Vals[i], after.Vals[i]
			if av.del(o.B).Cmp(bv.del(o.A)) != 0 || av.del(o.A).Sign() != 0 {
				add("migrate-shares", "validator %d: %d held %s before the migration, %d holds %s after it (old address: %s)", i, o.A, bv.del(o.A), o.B, av.del(o.B), av.del(o.A))
			}
			if bv.Tokens.Cmp(av.Tokens) != 0 || bv.Shares.Cmp(av.Shares) != 0 {
				add("migrate-validator", "the migration changed validator %d", i)
			}
		}
		if before.nRedsOf(o.A) != after.nRedsOf(o.B) || after.nRedsOf(o.A) != 0 {
			add("migrate-redelegations", "%d redelegation entries of %d before the migration, %d of %d after it", before.nRedsOf(o.A), o.A, after.nRedsOf(o.B), o.B)
		}
	}
	if o.K == "export" && err != nil {
		add("export-failed", "export (zero height: %v) and re-import failed: %s", o.Zero, oneLine(err.Error()))
	}
	if o.Must && err != nil {
		add("exit-blocked", "%s by account %d on validator %d (amount %s) failed at the end of the history: %v", o.K, o.A, o.V, o.X, oneLine(err.Error()))
	}
	out = append(out, w.invariants()...)
	return out
}

// ---------------------------------------------------------------- generator

var fracs = []string{"10000000000000000", "50000000000000000", "333333333333333333", "1000000000000000", "100000000000000000", "70000000000000001"}

func pickAmount(r *lib.Rand) *big.Int {
	if r.Chance(2) {
		return big.NewInt(0)
	}
	switch r.Intn(6) {
	case 0:
		return new(big.Int).Mul(big.NewInt(int64(1+r.Intn(5000))), one18)
	case 1:
		a := new(big.Int).Mul(big.NewInt(int64(1+r.Intn(900))), one18)
		return a.Add(a, big.NewInt(int64(r.Intn(1_000_000_000))*int64(1+r.Intn(1_000_000_000))))
	case 2:
		return big.NewInt(int64(1 + r.Intn(1000)))
	case 3:
		return new(big.Int).Mul(big.NewInt(int64(100_000+r.Intn(900_000))), one18)
	default:
		return new(big.Int).Mul(big.NewInt(int64(1+r.Intn(300))), one18)
	}
}

func via(r *lib.Rand) string {
	if r.Chance(30) {
		return "msg"
	}
	return "evm"
}

// tokens the delegation is worth (rounded as the staking module does), from the real validator
func tokensOf(v VSnap, shares *big.Int) *big.Int {
	if v.Shares.Sign() == 0 {
		return big.NewInt(0)
	}
	t := new(big.Int).Mul(shares, v.Tokens)
	t.Quo(t, v.Shares)
	return t.Quo(t, one18)
}

func (w *World) gen(r *lib.Rand, s Snap, self bool) Op {
	nv, na := len(w.vals), len(w.accs)
	v := r.Intn(nv)
	// accounts that hold a delegation on v
	var holders []int
	for _, d := range s.Vals[v].Dels {
		if d.ID < opBase {
			holders = append(holders, d.ID)
		}
	}
	anyAcc := func() int { return r.Intn(na) }
	holder := func() int {
		if len(holders) > 0 && r.Chance(85) {
			return holders[r.Intn(len(holders))]
		}
		return anyAcc()
	}
	shareAmt := func(from int) *big.Int {
		sh := s.Vals[v].del(from)
		whole := new(big.Int).Quo(sh, one18)
		if r.Chance(4) {
			return big.NewInt(0) // zero shares: every share-denominated call but approve has to refuse it
		}
		switch r.Intn(8) {
		case 0, 1:
			if whole.Sign() > 0 {
				return whole // everything that can be moved (all of it when the shares are integral)
			}
		case 2:
			return new(big.Int).Add(whole, big.NewInt(1)) // too much
		case 3:
			return big.NewInt(1)
		case 4:
			if whole.Cmp(big.NewInt(2)) >= 0 {
				return new(big.Int).Quo(whole, big.NewInt(2))
			}
		}
		if whole.Sign() > 0 {
			return new(big.Int).Add(big.NewInt(1), new(big.Int).Rand(r.Rand, whole))
		}
		return big.NewInt(int64(1 + r.Intn(50)))
	}
	p := r.Intn(100)
	switch {
	case p < 20:
		return Op{K: "delegate", V: v, A: anyAcc(), X: pickAmount(r).String(), Via: via(r)}
	case p < 29:
		a := holder()
		worth := tokensOf(s.Vals[v], s.Vals[v].del(a))
		var x *big.Int
		switch r.Intn(4) {
		case 0:
			x = worth
		case 1:
			x = new(big.Int).Add(worth, big.NewInt(int64(1+r.Intn(3))))
		default:
			if worth.Sign() > 0 {
				x = new(big.Int).Add(big.NewInt(1), new(big.Int).Rand(r.Rand, worth))
			} else {
				x = pickAmount(r)
			}
		}
		if x.Sign() == 0 {
			x = big.NewInt(1)
		}
		return Op{K: "undelegate", V: v, A: a, X: x.String(), Via: via(r)}
	case p < 37:
		a := holder()
		dst := r.Intn(nv)
		if dst == v && r.Chance(90) {
			dst = (v + 1) % nv
		}
		worth := tokensOf(s.Vals[v], s.Vals[v].del(a))
		x := worth
		if worth.Sign() > 0 && r.Chance(70) {
			x = new(big.Int).Add(big.NewInt(1), new(big.Int).Rand(r.Rand, worth))
		}
		if x.Sign() == 0 {
			x = big.NewInt(int64(1 + r.Intn(1000)))
		}
		return Op{K: "redelegate", V: v, W: dst, A: a, X: x.String(), Via: via(r)}
	case p < 44:
		return Op{K: "withdraw", V: v, A: holder(), Via: via(r)}
	case p < 54:
		owner := holder()
		sp := anyAcc()
		var x *big.Int
		switch r.Intn(5) {
		case 0:
			x = big.NewInt(0)
		case 1:
			x = new(big.Int).Lsh(big.NewInt(1), 255)
		default:
			x = shareAmt(owner)
		}
		if r.Chance(15) {
			// the same approval made by a contract whose frame reverts afterwards: must leave no allowance
			if x.Sign() == 0 {
				x = big.NewInt(int64(1 + r.Intn(1000)))
			}
			return Op{K: "approveRev", V: v, A: anyAcc(), B: sp, X: x.String(), Catch: r.Chance(50)}
		}
		return Op{K: "approve", V: v, A: owner, B: sp, X: x.String()}
	case p < 72:
		from := holder()
		to := anyAcc()
		if self && r.Chance(25) {
			to = from
		}
		if !self {
			for to == from {
				to = anyAcc()
			}
		}
		return Op{K: "transfer", V: v, A: from, B: to, X: shareAmt(from).String()}
	case p < 84:
		// prefer an (owner, spender) pair that has an allowance on some validator
		from, sp := holder(), anyAcc()
		if len(s.Allow) > 0 && r.Chance(80) {
			a := s.Allow[r.Intn(len(s.Allow))]
			v, from, sp = a.V, a.Owner, a.Spender
		}
		to := anyAcc()
		if self && r.Chance(20) {
			to = from
		}
		if !self {
			for to == from {
				to = anyAcc()
			}
		}
		x := shareAmt(from)
		if al := s.allowance(v, from, sp); al.Sign() > 0 {
			whole := new(big.Int).Quo(s.Vals[v].del(from), one18)
			lim := new(big.Int).Set(al) // what can actually move: min(allowance, whole shares held)
			if whole.Cmp(lim) < 0 {
				lim.Set(whole)
			}
			switch r.Intn(10) {
			case 0, 1:
				x = new(big.Int).Set(al) // exactly the allowance
			case 2:
				x = new(big.Int).Add(al, big.NewInt(1)) // one more than allowed
			case 3, 4, 5:
				if lim.Sign() > 0 {
					x = lim
				}
			case 6, 7, 8:
				if lim.Sign() > 0 {
					x = new(big.Int).Add(big.NewInt(1), new(big.Int).Rand(r.Rand, lim))
				}
			}
		}
		if r.Chance(8) {
			// zero shares from a real delegator to somebody without a delegation: has to be refused whatever
			// the allowance is (an accepted one would create an empty delegation)
			x = big.NewInt(0)
			if len(holders) > 0 {
				from = holders[r.Intn(len(holders))]
			}
			for i := 0; i < 8 && s.Vals[v].del(to).Sign() != 0; i++ {
				to = anyAcc()
			}
		}
		return Op{K: "transferFrom", V: v, A: sp, B: from, C: to, X: x.String()}
	case p < 92:
		fee := new(big.Int).Mul(big.NewInt(int64(1+r.Intn(2000))), big.NewInt(1e15))
		fee.Add(fee, big.NewInt(int64(r.Intn(1000))))
		return Op{K: "block", X: fee.String()}
	case p < 94:
		if !w.migrated && r.Chance(35) {
			return Op{K: "migrateblock", V: v}
		}
		if r.Chance(60) {
			return Op{K: "lifecycle", V: v, Zero: r.Chance(70)}
		}
		return Op{K: "mature", X: "1000000000000000000"}
	case p < 98:
		pw := new(big.Int).Quo(s.Vals[v].Tokens, new(big.Int).Mul(big.NewInt(100), one18)).Int64()
		if r.Chance(30) {
			pw = int64(1 + r.Intn(50))
		}
		back := int64(0)
		if r.Chance(45) {
			back = int64(1 + r.Intn(4)) // infraction a few blocks ago: unbonding and redelegation entries since then are slashed too
		}
		return Op{K: "slash", V: v, Power: pw, Frac: fracs[r.Intn(len(fracs))], Back: back}
	default:
		// jail a validator (it leaves the bonded set at the end of the block) while another one stays; or bring one back
		var jailed, free []int
		for i, x := range s.Vals {
			if x.Jailed {
				jailed = append(jailed, i)
			} else {
				free = append(free, i)
			}
		}
		if len(jailed) > 0 && (len(free) < 2 || r.Chance(50)) {
			return Op{K: "unjail", V: jailed[r.Intn(len(jailed))]}
		}
		if len(free) >= 2 {
			return Op{K: "jail", V: free[r.Intn(len(free))]}
		}
		return Op{K: "jail", V: v} // refused or not, the model has to agree
	}
}

// who may act: the migration target only after the migration, the migrated account never again; the
// cosmos-key account cannot send EVM transactions
func (w *World) alive(id int) bool {
	return !(id == w.fresh && !w.migrated) && !(id == w.legacy && w.migrated)
}

func (w *World) anyAlive(r *lib.Rand, evm bool) int {
	for {
		id := r.Intn(len(w.accs))
		if w.alive(id) && (!evm || id != w.legacy) {
			return id
		}
	}
}

func (w *World) fixActors(r *lib.Rand, o *Op, self bool) {
	fix := func(id *int, evm bool) {
		if !w.alive(*id) || evm && *id == w.legacy {
			*id = w.anyAlive(r, evm)
		}
	}
	switch o.K {
	case "delegate", "undelegate", "redelegate", "withdraw":
		fix(&o.A, false)
		if o.A == w.legacy {
			o.Via = "msg"
		}
	case "approve", "approveRev":
		fix(&o.A, true)
		fix(&o.B, false)
	case "transfer":
		fix(&o.A, true)
		fix(&o.B, false)
		for !self && o.B == o.A {
			o.B = w.anyAlive(r, false)
		}
	case "transferFrom":
		fix(&o.A, true)
		fix(&o.B, false)
		fix(&o.C, false)
		for !self && o.C == o.B {
			o.C = w.anyAlive(r, false)
		}
	}
}

// exit phase: everyone withdraws and undelegates everything (whole tokens); all of it has to succeed
func (w *World) exitOps(s Snap) []Op {
	var ops []Op
	for v := range w.vals {
		for _, d := range s.Vals[v].Dels {
			if d.ID >= opBase {
				continue
			}
			via := "evm"
			if d.ID == w.legacy {
				via = "msg"
			}
			ops = append(ops, Op{K: "withdraw", V: v, A: d.ID, Via: via, Must: true})
			ops = append(ops, Op{K: "undelegate", V: v, A: d.ID, X: "all", Via: via, Must: true})
		}
	}
	return ops
}

// the largest token amount MsgUndelegate accepts for this delegation, per the real keeper
func (w *World) maxUndelegate(v, a int) *big.Int {
	c := w.c
	val, err := c.App.StakingKeeper.GetValidator(c.Ctx, w.vals[v])
	lib.Must(err)
	del, err := c.App.StakingKeeper.GetDelegation(c.Ctx, w.key(a).Acc(), w.vals[v])
	if err != nil {
		return big.NewInt(0)
	}
	amt := val.TokensFromShares(del.Shares).TruncateInt()
	for i := 0; i < 3 && amt.IsPositive(); i++ {
		if _, err := c.App.StakingKeeper.ValidateUnbondAmount(c.Ctx, w.key(a).Acc(), w.vals[v], amt); err == nil {
			return amt.BigInt()
		}
		amt = amt.SubRaw(1)
	}
	return amt.BigInt()
}

// ---------------------------------------------------------------- running a history

type stepRec struct {
	op   Op
	ok   bool
	snap Snap
}

type result struct {
	h        History
	init     Snap
	steps    []stepRec
	final    Snap
	fails    []monFail
	failAt   int
	nOK      map[string]int
	selfSeen bool
	harness  string
	stats    map[string]int

	endBalances []*big.Int
}

func coqObs(o Op, ok bool, s Snap, full bool) string {
	if !full {
		return fmt.Sprintf("mk_obs_d %s %s %d", lib.Bool(ok), s.digest(), s.Height)
	}
	var vals []string
	for _, i := range o.touched() {
		if i < len(s.Vals) {
			vals = append(vals, lib.Pair(lib.Z(int64(i)), s.Vals[i].coq()))
		}
	}
	return fmt.Sprintf("mk_obs %s %s %s %d", lib.Bool(ok), s.digest(), lib.List(vals), s.Height)
}

func (res *result) coqCase(full bool) string {
	var vals, steps, fin []string
	for _, v := range res.init.Vals {
		vals = append(vals, v.coq())
	}
	for _, st := range res.steps {
		steps = append(steps, "("+st.op.coq()+",\n      "+coqObs(st.op, st.ok, st.snap, full)+")")
	}
	for _, v := range res.final.Vals {
		fin = append(fin, v.coq())
	}
	_ = vals
	return fmt.Sprintf("mk_shares_case %d %s\n    [%s]\n    %s", len(res.init.Vals), res.init.digest(), strings.Join(steps, ";\n     "), lib.List(fin))
}

// runHistory executes a history. With r != nil the operations are generated on the fly (n of them,
// then the exit phase); with r == nil h.Ops is replayed.
func runHistory(h History, r *lib.Rand, n int) *result {
	w := newWorld(h.Seed, h.NVals, h.NAcc)
	res := &result{h: h, nOK: map[string]int{}, failAt: -1, stats: map[string]int{}}
	res.init = w.snap(w.c.Ctx)
	cur := res.init
	self := h.Stream == "self"
	var queue []Op
	replay := r == nil
	if replay {
		queue = append(queue, h.Ops...)
		res.h.Ops = nil
	} else {
		queue = setupOps(h.NVals)
		n += len(queue)
	}
	exitQueued := false
	for step := 0; ; step++ {
		var o Op
		if replay || (len(queue) > 0 && !exitQueued) {
			if len(queue) == 0 {
				break
			}
			o, queue = queue[0], queue[1:]
		} else if step < n {
			o = w.gen(r, cur, self)
			w.fixActors(r, &o, self)
			if o.K == "migrateblock" {
				// the cosmos-key account delegates to v and redelegates part of it to another validator; while
				// that redelegation is open the account is migrated; the new address tries to move the
				// redelegated shares away (must be refused: incoming redelegation); then v is slashed for an
				// infraction before the redelegation, which has to reach the redelegated stake at the destination
				dst := (o.V + 1) % len(w.vals)
				amt := new(big.Int).Mul(big.NewInt(int64(200+r.Intn(800))), one18)
				half := new(big.Int).Quo(amt, big.NewInt(2))
				to := w.anyAlive(r, false)
				pw := new(big.Int).Quo(cur.Vals[o.V].Tokens, new(big.Int).Mul(big.NewInt(100), one18)).Int64()
				queue = append(queue,
					Op{K: "block", X: "1000000000000000000"},
					Op{K: "redelegate", V: o.V, W: dst, A: w.legacy, X: half.String(), Via: "msg"},
					Op{K: "migrate", A: w.legacy, B: w.fresh},
					Op{K: "transfer", V: dst, A: w.fresh, B: to, X: new(big.Int).Quo(half, big.NewInt(3)).String()},
					Op{K: "block", X: "1000000000000000000"},
					Op{K: "slash", V: o.V, Power: pw, Frac: fracs[r.Intn(len(fracs))], Back: 2})
				o = Op{K: "delegate", V: o.V, A: w.legacy, X: amt.String(), Via: "msg"}
			}
			if o.K == "lifecycle" {
				// export the committed state (after a block) and continue on a fresh application; then a
				// slash on the new chain and reward blocks, so that every starting info written by the
				// export is exercised by the operations that follow and by the exit phase
				pw := new(big.Int).Quo(cur.Vals[o.V].Tokens, new(big.Int).Mul(big.NewInt(100), one18)).Int64()
				queue = append(queue,
					Op{K: "export", Zero: o.Zero},
					Op{K: "block", X: "2000000000000000000"},
					Op{K: "slash", V: o.V, Power: pw, Frac: fracs[r.Intn(len(fracs))]},
					Op{K: "block", X: "1000000000000000000"})
				o = Op{K: "block", X: "1000000000000000000"}
			}
		} else {
			if !exitQueued {
				exitQueued = true
				// complete pending unbondings first so that the entry limit cannot refuse the exit
				queue = append(queue, Op{K: "mature"})
				queue = append(queue, w.exitOps(cur)...)
			}
			if len(queue) == 0 {
				break
			}
			o, queue = queue[0], queue[1:]
		}
		if !w.validOp(o) {
			res.harness = fmt.Sprintf("invalid op in history: %+v", o)
			break
		}
		if o.K == "undelegate" && o.X == "all" {
			m := w.maxUndelegate(o.V, o.A)
			if m.Sign() == 0 {
				continue // dust worth less than one token: nothing the message interface can remove
			}
			o.X = m.String()
		}
		res.h.Ops = append(res.h.Ops, o)
		// real observables needed by the monitor
		bal := map[int]*big.Int{}
		pend := map[int]*big.Int{}
		if o.K == "transfer" || o.K == "transferFrom" {
			from, to := o.A, o.B
			if o.K == "transferFrom" {
				from, to = o.B, o.C
			}
			for _, id := range []int{from, to} {
				bal[id] = w.balance(w.c.Ctx, id)
				pend[id] = w.pending(id, o.V)
			}
		}
		// liquid balances of everybody: their change is what the operation paid out as rewards
		allIDs := []int{}
		for i := range w.accs {
			allIDs = append(allIDs, i)
		}
		for i := range w.vals {
			allIDs = append(allIDs, opBase+i)
		}
		balAll := map[int]*big.Int{}
		for _, id := range allIDs {
			balAll[id] = w.balance(w.c.Ctx, id)
		}
		err := w.apply(&o)
		if err == nil && o.K != "block" && o.K != "mature" && o.K != "migrate" {
			for _, id := range allIDs {
				d := new(big.Int).Sub(w.balance(w.c.Ctx, id), balAll[id])
				if o.K == "delegate" && id == o.A {
					d.Add(d, bigOf(o.X)) // the delegated coins left the account
				}
				if d.Sign() != 0 {
					if w.paid[id] == nil {
						w.paid[id] = big.NewInt(0)
					}
					w.paid[id].Add(w.paid[id], d)
				}
			}
		}
		if (o.K == "block" || o.K == "mature") && err != nil {
			res.fails = append(res.fails, monFail{"block-failed", "block processing failed: " + oneLine(err.Error())})
			res.failAt = step
			break
		}
		after := w.snap(w.c.Ctx)
		ok := err == nil
		if ok {
			res.nOK[o.K]++
			if o.K == "transfer" && o.A == o.B || o.K == "transferFrom" && o.B == o.C {
				w.selfOK = true
				res.selfSeen = true
			}
		}
		res.steps = append(res.steps, stepRec{o, ok, after})
		if !ok && (o.K == "transfer" || o.K == "transferFrom") {
			from := o.A
			if o.K == "transferFrom" {
				from = o.B
			}
			if o.V < len(cur.Vals) && cur.nReds(from, -1, o.V) > 0 && cur.Vals[o.V].del(from).Sign() > 0 {
				res.stats["transfer:refused-with-incoming-redelegation"]++
			}
		}
		if ok {
			switch o.K {
			case "slash":
				if o.Back > 0 {
					res.stats["slash:past"]++
					n := 0
					for _, e := range cur.Reds {
						if e.Src == o.V && e.H >= o.Ih {
							n++
						}
					}
					for _, e := range cur.Ubds {
						if e.Val == o.V && e.H >= o.Ih {
							n++
						}
					}
					if n > 0 {
						res.stats["slash:past:entries-in-reach"]++
					}
				} else {
					res.stats["slash:now"]++
				}
			case "transfer", "transferFrom":
				if cur.Vals[o.V].Status != 0 {
					res.stats["transfer:on-unbonding-or-unbonded-validator"]++
				}
				if len(cur.Vals[o.V].Slashes) > 0 {
					res.stats["transfer:on-slashed-validator"]++
				}
			case "migrate":
				if cur.nRedsOf(o.A) > 0 {
					res.stats["migrate:with-open-redelegation"]++
				} else {
					res.stats["migrate:plain"]++
				}
			case "export":
				if o.Zero {
					res.stats["export:zero-height"]++
				} else {
					res.stats["export:as-is"]++
				}
			case "redelegate":
				if cur.Vals[o.V].Status != 0 {
					res.stats["redelegate:from-unbonding-or-unbonded-validator"]++
				}
			}
		}
		if fs := w.monitor(o, cur, after, bal, pend, err); len(fs) > 0 {
			res.fails = append(res.fails, fs...)
			if res.failAt < 0 {
				res.failAt = step
			}
			cur = after
			break // stop at the first operation on which the property fails
		}
		cur = after
	}
	res.final = cur
	for i := range w.accs {
		res.endBalances = append(res.endBalances, w.balance(w.c.Ctx, i))
	}
	return res
}

// ---------------------------------------------------------------- main

var nNoSelf, nSelf, nOps, nFull int

func main() {
	seed := lib.Seed()
	mode := os.Getenv("VERIF_MODE")
	rep := lib.NewReport("C11")
	rep.Rule = "histories of delegate/undelegate/redelegate/withdraw/approve/transfer/transferFrom among 3-5 EOAs on 2-3 validators through the real staking precompile (30% of delegate/undelegate/redelegate/withdraw through the SDK msg servers), interleaved with fee-carrying blocks (the per-validator reward allocation is observed and fed to the model), slashing for the current and for past infraction heights, jailing/unjailing (validators leave and re-enter the bonded set), unbonding-time jumps, application export (zero-height or as is) + import into a fresh app followed by a slash and reward blocks, migration of a cosmos-key account (MsgMigrateAccount handler) while its redelegation is open followed by a transfer attempt of the new address and a past-height slash of the source validator, and approveShares made by a contract whose frame reverts, closed by 'everyone withdraws and undelegates'; amounts biased to full/partial/over-limit values and exact allowances; stream noself never has sender == recipient, stream self has it in ~25% of transfers; one evaluation = one history; non-trivial = at least one accepted transfer or transferFrom and at least one reward block and the exit phase reached; distinct by full op list"

	if mode == "replay" {
		b, err := os.ReadFile(os.Getenv("VERIF_REPLAY"))
		lib.Must(err)
		var file struct {
			Replay History `json:"replay"`
		}
		lib.Must(json.Unmarshal(b, &file))
		res := runHistory(file.Replay, nil, 0)
		for i, st := range res.steps {
			fmt.Printf("%3d %-60s ok=%v\n", i, st.op.coq(), st.ok)
		}
		for _, f := range res.fails {
			fmt.Println("MONITOR:", f.kind, "-", f.what)
		}
		for i, b := range res.endBalances {
			fmt.Printf("account %d: liquid balance at the end %s (funded with 50000000 FX = 5e25)\n", i, b)
		}
		if len(res.fails) > 0 {
			os.Exit(1)
		}
		return
	}

	nNoSelf, nSelf, nOps, nFull = 30, 8, 45, 2
	if lib.Tier() == "thorough" || mode == "search" {
		nNoSelf, nSelf, nOps, nFull = 260, 40, 60, 6
	}
	if v := lib.EnvInt("VERIF_N", 0); v > 0 {
		nNoSelf = int(v)
	}
	if v := lib.EnvInt("VERIF_NSELF", -1); v >= 0 {
		nSelf = int(v)
	}
	if v := lib.EnvInt("VERIF_OPS", 0); v > 0 {
		nOps = int(v)
	}

	r := lib.NewRand(seed)
	itemsBy := map[string][]string{}
	report := func(res *result) {
		h := res.h
		key, _ := json.Marshal(h.Ops)
		exitReached := false
		for _, st := range res.steps {
			if st.op.Must {
				exitReached = true
			}
		}
		nontrivial := res.nOK["transfer"]+res.nOK["transferFrom"] > 0 && res.nOK["block"] > 0 && exitReached
		rep.Case(string(key), nontrivial)
		rep.Count("stream=" + h.Stream)
		for _, st := range res.steps {
			acc := "rejected"
			if st.ok {
				acc = "accepted"
			}
			rep.Count("op=" + st.op.K + ":" + acc)
		}
		rep.Count(fmt.Sprintf("history_len=%d0s", len(res.steps)/10))
		for k, n := range res.stats {
			for i := 0; i < n; i++ {
				rep.Count(k)
			}
		}
		if res.harness != "" {
			rep.Fail(lib.Failure{Kind: "harness", What: res.harness, Sig: "C11:harness", Replay: h})
			return
		}
		seen := map[string]bool{}
		for _, f := range res.fails {
			sig := "C11:" + f.kind
			if seen[sig] {
				continue
			}
			seen[sig] = true
			rep.Fail(lib.Failure{Kind: "monitor", What: f.what, Sig: sig, Replay: h})
		}
		// the first histories of each stream carry the explicit records of every step (readable
		// mismatches), the rest a fingerprint of the whole projection per step
		itemsBy[h.Stream] = append(itemsBy[h.Stream], res.coqCase(len(itemsBy[h.Stream]) < nFull))
	}

	// 0. corpus first: recorded histories (the replays of finding C11-1, fixed in 458669b). They run like
	// any other history: model correspondence + monitor; every sender == recipient transfer in them must
	// be refused now.
	files, _ := filepath.Glob(filepath.Join("..", "corpus", "C11", "*.json"))
	sort.Strings(files)
	for _, f := range files {
		b, err := os.ReadFile(f)
		lib.Must(err)
		var file struct {
			Replay History `json:"replay"`
		}
		lib.Must(json.Unmarshal(b, &file))
		file.Replay.Stream = "self"
		cres := runHistory(file.Replay, nil, 0)
		report(cres)
		rep.Count("corpus")
		nself, nacc := 0, 0
		for _, st := range cres.steps {
			if st.op.K == "transfer" && st.op.A == st.op.B || st.op.K == "transferFrom" && st.op.B == st.op.C {
				nself++
				if st.ok {
					nacc++
				}
			}
		}
		rep.Notes = append(rep.Notes, fmt.Sprintf("corpus %s: %d transfers to oneself, %d accepted, %d monitor failures", filepath.Base(f), nself, nacc, len(cres.fails)))
	}

	for i := 0; i < nNoSelf+nSelf; i++ {
		stream := "noself"
		if i >= nNoSelf {
			stream = "self"
		}
		h := History{Seed: seed*1000 + int64(i), NVals: 2 + r.Intn(2), NAcc: 3 + r.Intn(3), Stream: stream}
		res := runHistory(h, r, nOps)
		report(res)
		rep.Sample(map[string]interface{}{"stream": stream, "nvals": h.NVals, "nacc": h.NAcc, "accepted": res.nOK, "first_ops": firstOps(res.h.Ops, 6)})
	}
	imports := []string{"lib.Dec", "model.M_Shares", "model.M_SharesCorr"}
	lib.WriteCases("Cases_C11.v", imports, "shares_case", itemsBy["noself"], "shares_mismatch")
	lib.WriteCases("Cases_C11self.v", imports, "shares_case", itemsBy["self"], "shares_mismatch")
	rep.Write()
}

func firstOps(ops []Op, n int) []string {
	var out []string
	for i, o := range ops {
		if i >= n {
			break
		}
		out = append(out, o.coq())
	}
	return out
}
