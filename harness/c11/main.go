// probe (temporary)
package main

import (
	"fmt"
	"math/big"

	sdkmath "cosmossdk.io/math"
	sdk "github.com/cosmos/cosmos-sdk/types"
	authtypes "github.com/cosmos/cosmos-sdk/x/auth/types"

	fxstakingtypes "github.com/functionx/fx-core/v8/x/staking/types"
	fxtypes "github.com/functionx/fx-core/v8/types"

	"fxverif/lib"
)

func main() {
	c := lib.NewChain(1, 2, nil)
	fmt.Println("height0", c.Ctx.BlockHeight())
	if err := c.NextBlock(); err != nil {
		panic(err)
	}
	fmt.Println("height after 1 block", c.Ctx.BlockHeight(), c.Height)
	abi := fxstakingtypes.GetABI()
	a := lib.EthKey(1, "c11", 0)
	b := lib.EthKey(1, "c11", 1)
	c.Mint(a.Acc(), lib.FX(100000))
	c.Mint(b.Acc(), lib.FX(100000))
	val := c.ValKeys[0].Val()
	sp := lib.StakingPrecompile
	call := func(from lib.Key, method string, args ...interface{}) lib.EvmResult {
		data, err := abi.Pack(method, args...)
		if err != nil {
			panic(err)
		}
		var res lib.EvmResult
		err = c.Try(func(ctx sdk.Context) error {
			res = c.EvmCall(ctx, from.Hex(), &sp, nil, 3_000_000, data)
			if res.Err != nil {
				return res.Err
			}
			if res.Failed {
				return fmt.Errorf("vm: %s %x", res.VmError, res.Ret)
			}
			return nil
		})
		fmt.Println(method, "err=", err, "gas", res.GasUsed)
		return res
	}
	show := func() {
		v, _ := c.App.StakingKeeper.GetValidator(c.Ctx, val)
		fmt.Println("val tokens", v.Tokens, "shares", v.DelegatorShares)
		dels, _ := c.App.StakingKeeper.GetValidatorDelegations(c.Ctx, val)
		for _, d := range dels {
			fmt.Println("  del", d.DelegatorAddress, d.Shares)
		}
		cur, _ := c.App.DistrKeeper.GetValidatorCurrentRewards(c.Ctx, val)
		fmt.Println("  period", cur.Period)
	}
	call(a, "delegateV2", val.String(), lib.FX(100).Amount.BigInt())
	show()
	lib.Must(c.App.BankKeeper.MintCoins(c.Ctx, "mint", sdk.NewCoins(lib.FX(10))))
	lib.Must(c.App.BankKeeper.SendCoinsFromModuleToModule(c.Ctx, "mint", authtypes.FeeCollectorName, sdk.NewCoins(lib.FX(10))))
	c.NextBlock()
	c.NextBlock()
	call(a, "transferShares", val.String(), a.Hex(), big.NewInt(0).Mul(big.NewInt(40), big.NewInt(1e18)))
	show()
	for _, ir := range c.App.CrisisKeeper.Routes() {
		ctx, _ := c.Ctx.CacheContext()
		if res, stop := ir.Invar(ctx); stop {
			fmt.Println("BROKEN", ir.FullRoute(), res)
		}
	}
	_ = sdkmath.NewInt
	_ = fxtypes.DefaultDenom
}
