package main

// confirm.go: confirm histories on the real application.  Every step is one confirm message sent
// through the real MsgServer (directly or inside the generic MsgConfirm wrapper); the raw stores
// are read before and after, the model case is printed and the property monitor is evaluated.

import (
	"bytes"
	"crypto/ecdsa"
	"encoding/binary"
	"encoding/hex"
	"fmt"
	"math/big"
	"sort"
	"strings"

	sdkmath "cosmossdk.io/math"
	codectypes "github.com/cosmos/cosmos-sdk/codec/types"
	sdk "github.com/cosmos/cosmos-sdk/types"
	"github.com/ethereum/go-ethereum/crypto"
	"github.com/ethereum/go-ethereum/crypto/secp256k1"
	"github.com/cosmos/gogoproto/proto"

	fxtypes "github.com/functionx/fx-core/v8/types"
	crosschainkeeper "github.com/functionx/fx-core/v8/x/crosschain/keeper"
	crosschaintypes "github.com/functionx/fx-core/v8/x/crosschain/types"

	"fxverif/lib"
)

const ethPrefix = "\x19Ethereum Signed Message:\n32"
const tronPrefix = "\x19TRON Signed Message:\n32"

func prefixOf(tron bool) string {
	if tron {
		return tronPrefix
	}
	return ethPrefix
}

// ownSign: 65-byte signature [r ‖ s ‖ v] with v in {0,1} over keccak(prefix ‖ checkpoint)
func ownSign(tron bool, checkpoint []byte, key *ecdsa.PrivateKey) []byte {
	sig, err := crypto.Sign(keccak([]byte(prefixOf(tron)), checkpoint), key)
	lib.Must(err)
	return sig
}

// ownNormalise: what EthAddressFromSignature/TronAddressFromSignature do to v (written here independently)
func ownNormalise(sig []byte) []byte {
	out := append([]byte{}, sig...)
	if len(out) >= 65 && (out[64] == 27 || out[64] == 28) {
		out[64] -= 27
	}
	return out
}

// ownRecover: go-ethereum's public-key recovery for digest keccak(prefix ‖ checkpoint); the address in the chain's text form
func ownRecover(chain string, checkpoint, sig []byte) (string, bool) {
	tron := chain == "tron"
	pub, err := crypto.SigToPub(keccak([]byte(prefixOf(tron)), checkpoint), sig)
	if err != nil {
		return "", false
	}
	a := crypto.PubkeyToAddress(*pub)
	return crosschaintypes.ExternalAddrToStr(chain, a.Bytes()), true
}

func highS(sig []byte) []byte {
	out := append([]byte{}, sig...)
	s := new(big.Int).SetBytes(out[32:64])
	s.Sub(secp256k1.S256().Params().N, s)
	s.FillBytes(out[32:64])
	out[64] ^= 1
	return out
}

// ---------------------------------------------------------------- store snapshot

type storedObj struct {
	kind  int
	token string // batch: TokenContract string of the key
	nonce uint64
	real  interface{}
	obj   *Obj // nil when the stored object cannot be decoded
}
type storedConf struct {
	kind                       int
	token                      string
	nonce                      uint64
	oracle                     string // oracle address (bech32) from the key
	vNonce                     uint64 // fields of the stored value
	vToken, vBridger, vExt, vSig string
	rawKey                     []byte
}
type snap struct {
	gid     string
	index   map[string]string                 // external string -> oracle bech32
	byBridger map[string]string               // 0x14: bridger bech32 -> oracle bech32 (what claims and queries use)
	oracles map[string]crosschaintypes.Oracle // oracle bech32 -> record
	objs    []storedObj
	confs   []storedConf
}

func (h *hist) snapshot() *snap {
	ctx := h.c.Ctx
	cdc := h.c.App.AppCodec()
	s := &snap{gid: h.x.Keeper.GetGravityID(ctx), index: map[string]string{}, byBridger: map[string]string{}, oracles: map[string]crosschaintypes.Oracle{}}
	for _, kv := range h.c.DumpPrefix(ctx, h.chain, crosschaintypes.OracleAddressByBridgerKey) {
		s.byBridger[sdk.AccAddress(kv.K[1:]).String()] = sdk.AccAddress(kv.V).String()
	}
	for _, kv := range h.c.DumpPrefix(ctx, h.chain, crosschaintypes.OracleAddressByExternalKey) {
		s.index[string(kv.K[1:])] = sdk.AccAddress(kv.V).String()
	}
	for _, kv := range h.c.DumpPrefix(ctx, h.chain, crosschaintypes.OracleKey) {
		var o crosschaintypes.Oracle
		cdc.MustUnmarshal(kv.V, &o)
		s.oracles[sdk.AccAddress(kv.K[1:]).String()] = o
	}
	add := func(kind int, token string, nonce uint64, real interface{}) {
		o, _ := FromReal(h.chain, real)
		s.objs = append(s.objs, storedObj{kind, token, nonce, real, o})
	}
	for _, kv := range h.c.DumpPrefix(ctx, h.chain, crosschaintypes.OracleSetRequestKey) {
		var v crosschaintypes.OracleSet
		cdc.MustUnmarshal(kv.V, &v)
		add(KSet, "", binary.BigEndian.Uint64(kv.K[1:]), &v)
	}
	for _, kv := range h.c.DumpPrefix(ctx, h.chain, crosschaintypes.OutgoingTxBatchKey) {
		var v crosschaintypes.OutgoingTxBatch
		cdc.MustUnmarshal(kv.V, &v)
		n := len(kv.K)
		add(KBatch, string(kv.K[1:n-8]), binary.BigEndian.Uint64(kv.K[n-8:]), &v)
	}
	for _, kv := range h.c.DumpPrefix(ctx, h.chain, crosschaintypes.OutgoingBridgeCallNonceKey) {
		var v crosschaintypes.OutgoingBridgeCall
		cdc.MustUnmarshal(kv.V, &v)
		add(KCall, "", binary.BigEndian.Uint64(kv.K[1:]), &v)
	}
	for _, kv := range h.c.DumpPrefix(ctx, h.chain, crosschaintypes.OracleSetConfirmKey) {
		var v crosschaintypes.MsgOracleSetConfirm
		cdc.MustUnmarshal(kv.V, &v)
		s.confs = append(s.confs, storedConf{KSet, "", binary.BigEndian.Uint64(kv.K[1:9]), sdk.AccAddress(kv.K[9:]).String(),
			v.Nonce, "", v.BridgerAddress, v.ExternalAddress, v.Signature, kv.K})
	}
	for _, kv := range h.c.DumpPrefix(ctx, h.chain, crosschaintypes.BatchConfirmKey) {
		var v crosschaintypes.MsgConfirmBatch
		cdc.MustUnmarshal(kv.V, &v)
		n := len(kv.K)
		s.confs = append(s.confs, storedConf{KBatch, string(kv.K[1 : n-28]), binary.BigEndian.Uint64(kv.K[n-28 : n-20]), sdk.AccAddress(kv.K[n-20:]).String(),
			v.Nonce, v.TokenContract, v.BridgerAddress, v.ExternalAddress, v.Signature, kv.K})
	}
	for _, kv := range h.c.DumpPrefix(ctx, h.chain, crosschaintypes.BridgeCallConfirmKey) {
		var v crosschaintypes.MsgBridgeCallConfirm
		cdc.MustUnmarshal(kv.V, &v)
		s.confs = append(s.confs, storedConf{KCall, "", binary.BigEndian.Uint64(kv.K[1:9]), sdk.AccAddress(kv.K[9:]).String(),
			v.Nonce, "", v.BridgerAddress, v.ExternalAddress, v.Signature, kv.K})
	}
	return s
}

func (s *snap) find(kind int, token string, nonce uint64) *storedObj {
	for i := range s.objs {
		o := &s.objs[i]
		if o.kind == kind && o.nonce == nonce && (kind != KBatch || o.token == token) {
			return o
		}
	}
	return nil
}
func (s *snap) hasConf(kind int, token string, nonce uint64, oracle string) bool {
	for _, c := range s.confs {
		if c.kind == kind && c.nonce == nonce && c.oracle == oracle && (kind != KBatch || c.token == token) {
			return true
		}
	}
	return false
}

// ---------------------------------------------------------------- one history

type confirmMsg struct {
	kind                     int
	token                    string
	nonce                    uint64
	bridger, external, sigHex string
}

func (m confirmMsg) real(chain string) crosschaintypes.Confirm {
	switch m.kind {
	case KSet:
		return &crosschaintypes.MsgOracleSetConfirm{Nonce: m.nonce, BridgerAddress: m.bridger, ExternalAddress: m.external, Signature: m.sigHex, ChainName: chain}
	case KBatch:
		return &crosschaintypes.MsgConfirmBatch{Nonce: m.nonce, TokenContract: m.token, BridgerAddress: m.bridger, ExternalAddress: m.external, Signature: m.sigHex, ChainName: chain}
	default:
		return &crosschaintypes.MsgBridgeCallConfirm{Nonce: m.nonce, BridgerAddress: m.bridger, ExternalAddress: m.external, Signature: m.sigHex, ChainName: chain}
	}
}

type hist struct {
	id      int
	chain   string
	c       *lib.Chain
	x       *lib.XChain
	r       *lib.Rand
	ids     map[string]int64
	rogue   []*lib.Oracle // identities that are not registered
	blockNo uint64
	accepted []confirmMsg
	log     []string
	released map[int][]lib.Key // oracle index -> bridger accounts it gave up through MsgEditBridger
	edits   int
}

// editBridger: oracle i rotates its bridger through the real MsgServer.EditBridger; afterwards a fresh object
// appears (nobody has confirmed it yet), so confirms from the released and from the new bridger both matter
func (h *hist) editBridger() { h.editBridgerOf(h.r.Intn(len(h.x.Oracles))) }

// editBridgerConfirmed rotates the bridger of an oracle that has an oracle-set or batch confirm stored under its
// current bridger (so that stored confirm names a bridger no record has any more)
func (h *hist) editBridgerConfirmed() {
	s := h.snapshot()
	for i, o := range h.x.Oracles {
		for _, c := range s.confs {
			if c.kind != KCall && c.oracle == o.Oracle.Acc().String() && c.vBridger == o.Bridger.Acc().String() {
				h.editBridgerOf(i)
				return
			}
		}
	}
	h.editBridger()
}

func (h *hist) editBridgerOf(i int) {
	o := h.x.Oracles[i]
	h.edits++
	nb := lib.EthKey(h.c.Seed, "bridger-rot/"+h.chain, i*100+h.edits)
	old := o.Bridger
	err := h.c.Try(func(ctx sdk.Context) error {
		_, err := h.x.Msg().EditBridger(ctx, &crosschaintypes.MsgEditBridger{ChainName: h.chain, OracleAddress: o.Oracle.Acc().String(), BridgerAddress: nb.Acc().String()})
		return err
	})
	h.log = append(h.log, fmt.Sprintf("edit-bridger oracle=%d %s -> %s err=%v", i, old.Acc().String(), nb.Acc().String(), err))
	if err != nil {
		return
	}
	if h.released == nil {
		h.released = map[int][]lib.Key{}
	}
	h.released[i] = append(h.released[i], old)
	o.Bridger = nb
	h.store(rndObj(h.r, h.r.Intn(3), 4, 40, true))
}

func (h *hist) id64(s string) int64 {
	if s == "" {
		return 0
	}
	if v, ok := h.ids[s]; ok {
		return v
	}
	v := int64(len(h.ids) + 1)
	h.ids[s] = v
	return v
}

func newHist(id int, seed int64, chain string, r *lib.Rand, realPath bool) *hist {
	c := lib.NewChain(seed, 1, nil)
	x := c.X(chain)
	n := 2 + r.Intn(4)
	stakes := make([]int64, n)
	for i := range stakes {
		stakes[i] = 10000 + int64(r.Intn(5))*1000
	}
	x.SetupOracles(stakes)
	h := &hist{id: id, chain: chain, c: c, x: x, r: r, ids: map[string]int64{}, blockNo: 1000}
	for i := 0; i < 2; i++ {
		h.rogue = append(h.rogue, x.NewOracle(100+i))
	}
	if r.Chance(50) {
		p := x.Keeper.GetParams(c.Ctx)
		for {
			p.GravityId = rndGid(r)
			if p.GravityId != "" {
				break
			}
		}
		lib.Must(x.Keeper.SetParams(c.Ctx, &p))
	}
	lib.Must(c.NextBlock()) // the real end blocker creates oracle set #1
	if realPath {
		h.realObjects()
	}
	// objects with arbitrary contents, stored through the keeper's own store functions
	small := !r.Chance(15)
	for i, k := 0, 1+r.Intn(3); i < k; i++ {
		h.store(rndObj(r, KSet, 5, 0, small))
	}
	// batches share token contracts: "the batch named by (token, nonce)" must not be confused with another
	// batch of the same token (e.g. the latest one)
	var pool [2]Addr
	pool[0], pool[1] = rndAddr(r), rndAddr(r)
	for i, k := 0, 2+r.Intn(3); i < k; i++ {
		b := rndObj(r, KBatch, 4, 0, small)
		b.Token = pool[r.Intn(2)]
		if r.Chance(50) {
			b.Nonce = uint64(1 + r.Intn(6))
		}
		h.store(b)
	}
	for i, k := 0, 1+r.Intn(3); i < k; i++ {
		h.store(rndObj(r, KCall, 8, 70, small))
	}
	return h
}

// store puts an object with arbitrary contents into the real store through the keeper's own store functions.
// It never overwrites a stored object: on the chain an oracle set / batch / bridge call is written once under a fresh
// nonce and only ever deleted, so a confirm in the store always refers to the object it was made for.  (Overwriting
// one that already had confirms produced a state no history reaches: the old confirms then "did not cover the stored
// object" - a false alarm of the after-import verification in a thorough run.)
func (h *hist) store(o *Obj) {
	h.blockNo++
	ctx := h.c.Ctx
	k := h.x.Keeper
	switch v := o.ToReal(h.chain, h.blockNo).(type) {
	case *crosschaintypes.OracleSet:
		if v.Nonce <= 1 {
			v.Nonce = 2
		}
		// keep clear of 2^64: InitGenesis takes the largest stored nonce as "latest", and the end blocker's next
		// request would wrap to nonce 0 / 1 and overwrite confirmed sets - a state only this generator can produce
		// (values >= 2^63 stay covered)
		if v.Nonce > ^uint64(0)-(1<<32) {
			v.Nonce -= 1 << 32
		}
		for k.GetOracleSet(ctx, v.Nonce) != nil {
			v.Nonce++
			h.log = append(h.log, "store: oracle-set nonce taken, next one used")
		}
		k.StoreOracleSet(ctx, v)
	case *crosschaintypes.OutgoingTxBatch:
		for k.GetOutgoingTxBatch(ctx, v.TokenContract, v.BatchNonce) != nil {
			v.BatchNonce++
			h.log = append(h.log, "store: batch nonce taken, next one used")
		}
		lib.Must(k.StoreBatch(ctx, v))
	case *crosschaintypes.OutgoingBridgeCall:
		for {
			if _, found := k.GetOutgoingBridgeCallByNonce(ctx, v.Nonce); !found {
				break
			}
			v.Nonce++
			h.log = append(h.log, "store: bridge-call nonce taken, next one used")
		}
		k.SetOutgoingBridgeCall(ctx, v)
	}
}

// realObjects: a batch and a bridge call produced by the real message handlers (FX as the bridged token)
func (h *hist) realObjects() {
	c, x := h.c, h.x
	fxContract := lib.ExternalContract(c.Seed, h.chain, 1)
	lib.Must(x.Keeper.AddBridgeTokenExecuted(c.Ctx, &crosschaintypes.MsgBridgeTokenClaim{TokenContract: fxContract, Name: "Function X", Symbol: fxtypes.DefaultDenom, Decimals: 18, ChainName: h.chain}))
	user := lib.EthKey(c.Seed, "c12user", 0)
	c.Mint(user.Acc(), lib.FX(1000))
	ext := lib.ExternalAccount(c.Seed, h.chain, 1)
	// an observed event makes the external height known (time-outs are computed from it)
	extHeight := 1000 + uint64(h.r.Intn(1000))
	for _, e := range x.ObserveAll(func() crosschaintypes.ExternalClaim {
		return &crosschaintypes.MsgSendToFxClaim{EventNonce: 1, BlockHeight: extHeight, TokenContract: fxContract,
			Amount: sdkmath.NewInt(5), Sender: ext, Receiver: user.Acc().String()}
	}) {
		lib.Must(e)
	}
	ms := x.Msg()
	for i := 0; i < 1+h.r.Intn(3); i++ {
		lib.Must(c.Try(func(ctx sdk.Context) error {
			_, err := ms.SendToExternal(ctx, &crosschaintypes.MsgSendToExternal{Sender: user.Acc().String(), Dest: lib.ExternalAccount(c.Seed, h.chain, 2+i),
				Amount: sdk.NewCoin(fxtypes.DefaultDenom, sdkmath.NewInt(int64(100+h.r.Intn(900)))), BridgeFee: sdk.NewCoin(fxtypes.DefaultDenom, sdkmath.NewInt(int64(1+h.r.Intn(9)))), ChainName: h.chain})
			return err
		}))
	}
	lib.Must(c.Try(func(ctx sdk.Context) error {
		_, err := ms.RequestBatch(ctx, &crosschaintypes.MsgRequestBatch{Sender: x.Oracles[0].Bridger.Acc().String(), Denom: fxtypes.DefaultDenom,
			MinimumFee: sdkmath.NewInt(1), FeeReceive: ext, ChainName: h.chain, BaseFee: sdkmath.ZeroInt()})
		return err
	}))
	data, memo := rndBytes(h.r, 200), rndBytes(h.r, 40)
	lib.Must(c.Try(func(ctx sdk.Context) error {
		_, err := ms.BridgeCall(ctx, &crosschaintypes.MsgBridgeCall{ChainName: h.chain, Sender: user.Acc().String(), Refund: user.Acc().String(),
			Coins: sdk.NewCoins(sdk.NewCoin(fxtypes.DefaultDenom, sdkmath.NewInt(int64(1+h.r.Intn(50))))), To: ext,
			Data: hex.EncodeToString(data), Memo: hex.EncodeToString(memo), Value: sdkmath.ZeroInt()})
		return err
	}))
}

// ---------------------------------------------------------------- one step

type stepPlan struct {
	scenario string
	wrapped  bool
	wrapperBridger string
	msg      confirmMsg
}

// plan draws one confirm message for the current state
func (h *hist) plan(s *snap) stepPlan {
	r := h.r
	if len(h.accepted) > 0 && r.Chance(10) {
		m := h.accepted[r.Intn(len(h.accepted))]
		p := stepPlan{scenario: "duplicate", msg: m, wrapped: r.Chance(40)}
		p.wrapperBridger = m.bridger
		return p
	}
	target := s.objs[r.Intn(len(s.objs))]
	orc := h.x.Oracles[r.Intn(len(h.x.Oracles))]
	other := h.x.Oracles[r.Intn(len(h.x.Oracles))]
	m := confirmMsg{kind: target.kind, token: target.token, nonce: target.nonce, bridger: orc.Bridger.Acc().String(), external: orc.ExtAddr}
	signKey := orc.External
	signChain := h.chain
	signGid := s.gid
	signObj := target
	sc := "valid"
	mangle := ""
	k := r.Intn(100)
	if len(h.released) > 0 && r.Chance(45) {
		// an oracle that rotated its bridger: a genuine signature, submitted by the released or by the current bridger,
		// for an object that oracle has not confirmed yet if there is one
		for i := range h.x.Oracles { // (index order: map iteration would not replay)
			rel := h.released[i]
			if len(rel) == 0 {
				continue
			}
			if r.Chance(60) || orc.Idx == i {
				orc = h.x.Oracles[i]
				m.bridger, m.external, signKey = orc.Bridger.Acc().String(), orc.ExtAddr, orc.External
				sc, k = "after-rotation-current-bridger", 0
				if r.Chance(55) {
					sc = "after-rotation-released-bridger"
					m.bridger = rel[r.Intn(len(rel))].Acc().String()
				}
				break
			}
		}
		if k == 0 {
			oa := s.index[orc.ExtAddr]
			for _, o := range s.objs {
				if !s.hasConf(o.kind, o.token, o.nonce, oa) {
					target, signObj = o, o
					m.kind, m.token, m.nonce = o.kind, o.token, o.nonce
				}
			}
		}
	}
	switch {
	case k < 30:
	case k < 36:
		sc, signKey = "wrong-key-other-oracle", other.External
	case k < 40:
		sc, signKey = "wrong-key-unregistered", h.rogue[0].External
	case k < 46: // signature made for another stored object of the same kind (other nonce)
		sc = "transplant-other-nonce"
		for _, o := range s.objs { // any other object of the kind ...
			if o.kind == target.kind && (o.nonce != target.nonce || o.token != target.token) {
				signObj = o
			}
		}
		for _, o := range s.objs { // ... preferably another batch of the same token
			if o.kind == target.kind && o.token == target.token && o.nonce != target.nonce && r.Chance(60) {
				signObj = o
			}
		}
	case k < 51:
		sc = "transplant-other-kind"
		for _, o := range s.objs {
			if o.kind != target.kind {
				signObj = o
			}
		}
	case k < 56:
		sc, signGid = "transplant-other-gravity-id", s.gid+"x"
		if len(signGid) > 32 {
			signGid = "other"
		}
	case k < 61: // same object, signed for the other signature domain / another chain's address format
		sc = "transplant-other-chain"
		if h.chain == "tron" {
			signChain = "eth"
		} else {
			signChain = "tron"
		}
	case k < 66:
		sc, mangle = "malleated-high-s", "high-s"
	case k < 71:
		sc, mangle = "v-27-28", "v27"
	case k < 74:
		sc, mangle = "v-2-3", "v23"
		if r.Chance(60) { // V = v + 27j, j = 2..9: no signature the contract's ecrecover (v in {27,28}) could take
			sc, mangle = "v-plus-multiple-of-27", "vfold"
		}
	case k < 77:
		sc, mangle = "len-64", "len64"
	case k < 80:
		sc, mangle = "len-66", "len66"
	case k < 82:
		sc, mangle = "not-hex", "nothex"
	case k < 84:
		sc, mangle = "empty-signature", "empty"
	case k < 88:
		sc = "wrong-bridger-other-oracle"
		m.bridger = other.Bridger.Acc().String()
	case k < 90:
		sc = "wrong-bridger-random"
		m.bridger = h.rogue[1].Bridger.Acc().String()
	case k < 93: // names another oracle's external address, signs with its own key
		sc = "external-of-other-oracle"
		m.external = other.ExtAddr
	case k < 95:
		sc = "unregistered-oracle"
		m.external, m.bridger, signKey = h.rogue[0].ExtAddr, h.rogue[0].Bridger.Acc().String(), h.rogue[0].External
	case k < 97:
		sc = "external-lowercase"
		m.external = strings.ToLower(orc.ExtAddr)
	default:
		sc = "no-such-object"
		if r.Chance(50) || target.kind != KBatch {
			m.nonce = target.nonce + 1 + uint64(r.Intn(3))
			for s.find(m.kind, m.token, m.nonce) != nil {
				m.nonce++
			}
		} else {
			m.token = lib.ExternalContract(h.c.Seed, h.chain, 77)
		}
	}
	// what gets signed
	var cp []byte
	if signObj.obj != nil {
		cp = keccak(Encode(signObj.obj, signGid, true))
	} else {
		cp = make([]byte, 32)
	}
	sig := ownSign(signChain == "tron", cp, signKey)
	switch mangle {
	case "high-s":
		sig = highS(sig)
	case "v27":
		sig[64] += 27
	case "v23":
		sig[64] += 2
	case "vfold":
		sig[64] += 27 * byte(2+r.Intn(8))
	case "len64":
		sig = sig[:64]
	case "len66":
		sig = append(sig, byte(r.Intn(256)))
		if r.Chance(50) {
			sig[64] += 27
		}
	}
	m.sigHex = hex.EncodeToString(sig)
	switch mangle {
	case "nothex":
		m.sigHex = "zz" + m.sigHex[2:]
	case "empty":
		m.sigHex = ""
	}
	p := stepPlan{scenario: sc, msg: m, wrapped: r.Chance(45)}
	p.wrapperBridger = m.bridger
	if p.wrapped && r.Chance(35) {
		p.scenario += "+foreign-wrapper-signer"
		p.wrapperBridger = h.rogue[1].Bridger.Acc().String()
	}
	return p
}

// exec sends the message through the real MsgServer and reports the handler's error
func (h *hist) exec(p stepPlan) error {
	inner := p.msg.real(h.chain)
	ms := h.x.Msg()
	return h.c.Try(func(ctx sdk.Context) error {
		if p.wrapped {
			any, err := codectypes.NewAnyWithValue(inner.(proto.Message))
			if err != nil {
				return err
			}
			var w sdk.Msg = &crosschaintypes.MsgConfirm{ChainName: h.chain, BridgerAddress: p.wrapperBridger, Confirm: any}
			// MsgConfirm has no ValidateBasic on this tree; if a later tree adds one (e.g. wrapper bridger = inner
			// bridger) it is what a transaction would go through first
			if vb, ok := w.(sdk.HasValidateBasic); ok {
				if err := vb.ValidateBasic(); err != nil {
					return errValidateBasic{err}
				}
			}
			_, err = ms.Confirm(ctx, w.(*crosschaintypes.MsgConfirm))
			return err
		}
		var err error
		switch v := inner.(type) {
		case *crosschaintypes.MsgOracleSetConfirm:
			_, err = ms.OracleSetConfirm(ctx, v)
		case *crosschaintypes.MsgConfirmBatch:
			_, err = ms.ConfirmBatch(ctx, v)
		case *crosschaintypes.MsgBridgeCallConfirm:
			_, err = ms.BridgeCallConfirm(ctx, v)
		}
		return err
	})
}

type errValidateBasic struct{ error }

// requiredSigner: the account that has to sign the transaction carrying the message (the protobuf signer option)
func (h *hist) requiredSigner(p stepPlan) string {
	var msg proto.Message = p.msg.real(h.chain).(proto.Message)
	if p.wrapped {
		any, err := codectypes.NewAnyWithValue(msg)
		lib.Must(err)
		msg = &crosschaintypes.MsgConfirm{ChainName: h.chain, BridgerAddress: p.wrapperBridger, Confirm: any}
	}
	signers, _, err := h.c.App.AppCodec().GetMsgV1Signers(msg)
	if err != nil || len(signers) != 1 {
		return fmt.Sprintf("?%v", err)
	}
	return sdk.AccAddress(signers[0]).String()
}

// ---------------------------------------------------------------- Coq case

func (h *hist) coqSig(sigHex string) string {
	b, err := hex.DecodeString(sigHex)
	if err != nil {
		return "None"
	}
	return "(Some " + bytesL(b) + ")"
}

func (h *hist) coqState(s *snap) string {
	var idx, orcs, objs, confs []string
	keys := make([]string, 0, len(s.index))
	for k := range s.index {
		keys = append(keys, k)
	}
	sort.Strings(keys)
	for _, k := range keys {
		idx = append(idx, lib.Pair(lib.Z(h.id64(k)), lib.Z(h.id64(s.index[k]))))
	}
	keys = keys[:0]
	for k := range s.oracles {
		keys = append(keys, k)
	}
	sort.Strings(keys)
	for _, k := range keys {
		o := s.oracles[k]
		orcs = append(orcs, lib.Pair(lib.Z(h.id64(k)), fmt.Sprintf("mk_oracle %d %d", h.id64(o.BridgerAddress), h.id64(o.ExternalAddress))))
	}
	for _, o := range s.objs {
		if o.obj == nil {
			continue
		}
		objs = append(objs, fmt.Sprintf("((%s, %d, %s), %s)", kindCoq[o.kind], h.id64(o.token), zu(o.nonce), o.obj.Coq()))
	}
	confs = h.coqConfs(s)
	return fmt.Sprintf("(mk_st %s %s %s %s %s %s)", lib.Bool(h.chain == "tron"), bytesL([]byte(s.gid)), lib.List(idx), lib.List(orcs), lib.List(objs), lib.List(confs))
}

func (h *hist) coqConfs(s *snap) []string {
	var out []string
	for _, c := range s.confs {
		out = append(out, fmt.Sprintf("(((%s, %d, %s), %d), mk_msg %s %d %s %d %d %s)", kindCoq[c.kind], h.id64(c.token), zu(c.nonce), h.id64(c.oracle),
			kindCoq[c.kind], h.id64(c.vToken), zu(c.vNonce), h.id64(c.vBridger), h.id64(c.vExt), h.coqSig(c.vSig)))
	}
	return out
}

func (h *hist) coqMsg(m confirmMsg) string {
	return fmt.Sprintf("(mk_msg %s %d %s %d %d %s)", kindCoq[m.kind], h.id64(m.token), zu(m.nonce), h.id64(m.bridger), h.id64(m.external), h.coqSig(m.sigHex))
}

// ---------------------------------------------------------------- step + monitor

type stepResult struct {
	item     string
	accepted bool
	scenario string
}

func (h *hist) step(rep *lib.Report, stepNo int) stepResult {
	pre := h.snapshot()
	p := h.plan(pre)
	m := p.msg
	target := pre.find(m.kind, m.token, m.nonce)

	// what go-ethereum's recover returns for this signature over the pre-image of the named stored object
	var recs []string
	var preimage, realCP []byte
	hashOK := true
	sigBytes, sigErr := hex.DecodeString(m.sigHex)
	if target != nil && target.obj != nil {
		preimage = Encode(target.obj, pre.gid, true)
		cp, err := RealCheckpoint(h.chain, target.real, pre.gid)
		if err == nil {
			realCP = cp
			preimage, hashOK = hashedBytes(target.obj, pre.gid, cp)
		}
		if sigErr == nil && len(sigBytes) >= 65 && err == nil {
			ns := ownNormalise(sigBytes)
			res := "None"
			if a, ok := ownRecover(h.chain, keccak(preimage), ns); ok {
				res = fmt.Sprintf("(Some %d)", h.id64(a))
			}
			pw := bytesL(preimage)
			if !hashOK {
				pw = "[]" // the harness cannot name the bytes the implementation hashed: the model will miss its entry
			}
			recs = append(recs, fmt.Sprintf("(%s, %s, %s)", pw, bytesL(ns), res))
		}
	}

	err := h.exec(p)
	post := h.snapshot()
	ok := err == nil
	if _, isVB := err.(errValidateBasic); isVB { // never reached the handler: nothing for the handler model to say
		rep.Count("wrapped: rejected by MsgConfirm.ValidateBasic")
		if !sameConfs(pre, post) {
			rep.Fail(lib.Failure{Kind: "monitor", Sig: "C12/rejected-changed-store", What: "a confirm rejected by ValidateBasic changed the confirm stores"})
		}
		rep.Case(fmt.Sprintf("h%d/%d", h.id, stepNo), true)
		return stepResult{item: "", accepted: false, scenario: p.scenario}
	}
	if ok {
		h.accepted = append(h.accepted, m)
	}
	item := fmt.Sprintf("mk_conf_case %s %s %s %s %s", h.coqState(pre), h.coqMsg(m), lib.List(recs), lib.Bool(ok), lib.List(h.coqConfs(post)))

	replay := map[string]interface{}{"history": h.id, "chain": h.chain, "seed": h.c.Seed, "step": stepNo, "scenario": p.scenario, "wrapped": p.wrapped,
		"wrapper_bridger": p.wrapperBridger, "msg": map[string]interface{}{"kind": kindName[m.kind], "token": m.token, "nonce": m.nonce, "bridger": m.bridger, "external": m.external, "signature": m.sigHex},
		"accepted": ok, "error": fmt.Sprint(err), "log": append([]string{}, h.log...)}
	fail := func(sig, what string) {
		rep.Fail(lib.Failure{Kind: "monitor", What: what, Sig: sig, Replay: replay})
	}

	// ---- the property, on the real observables ----
	if !hashOK {
		fail("C12/checkpoint-not-contract-digest/"+kindName[m.kind], fmt.Sprintf("%s: the checkpoint of stored %s differs from keccak(abi.encode(...)) of the contract layout", h.chain, target.obj.Brief()))
	}
	if ok {
		orcAddr, found := pre.index[m.external]
		orc, found2 := pre.oracles[orcAddr]
		switch {
		case target == nil:
			fail("C12/accepted-no-object", "confirm accepted for an object that is not stored")
		case !found || !found2 || orc.ExternalAddress != m.external:
			fail("C12/accepted-unregistered", "confirm accepted although the external address is not the registered key of an oracle")
		default:
			if orc.BridgerAddress != m.bridger {
				fail("C12/accepted-wrong-bridger", "confirm accepted although the message's bridger is not the oracle's bridger")
			}
			// "that oracle's bridger" is also what the by-bridger index says (claims, queries, EditBridger use it):
			// the submitter must be bound to this oracle there, and record and index must agree
			if bound, ok := pre.byBridger[m.bridger]; !ok || bound != orcAddr {
				fail("C12/accepted-bridger-not-indexed", fmt.Sprintf("confirm for oracle %s accepted from %s, which the by-bridger index does not bind to that oracle (bound to %q); the index binds it to a bridger the handler refuses", orcAddr, m.bridger, bound))
			}
			// the signature must verify, under the registered key, over the contract's digest of exactly the stored object
			// (for objects with a uint64 field >= 2^63 the Go code's int64 cast makes its digest differ from the
			// contract's; such objects are unreachable and either digest is accepted here, see docs/C12.md)
			good := false
			for mask := 0; mask < 8; mask++ {
				if mask > 0 && target.obj.AllSmall() {
					break
				}
				if sigErr == nil && len(sigBytes) >= 65 {
					if a, rok := ownRecover(h.chain, keccak(EncodeMask(target.obj, pre.gid, mask)), ownNormalise(sigBytes)); rok && a == orc.ExternalAddress {
						good = true
					}
				}
			}
			if !good {
				fail("C12/accepted-bad-signature", "confirm accepted although the signature does not verify under the oracle's external key over the checkpoint of the stored object")
			}
			if pre.hasConf(m.kind, m.token, m.nonce, orcAddr) {
				fail("C12/accepted-duplicate", "a second confirm of the same oracle for the same object was accepted")
			}
			if !post.hasConf(m.kind, m.token, m.nonce, orcAddr) || len(post.confs) != len(pre.confs)+1 {
				fail("C12/accepted-not-stored", "accepted confirm is not the one new entry of the confirm stores")
			}
			// submitted by that oracle's bridger: the account that has to sign the transaction.
			// For a directly sent confirm that is the checked field.  For MsgConfirm it is the wrapper's field,
			// which nothing compares with the wrapped confirm - but this step hands the MESSAGE OBJECT to the
			// MsgServer; a MsgConfirm decoded from transaction bytes carries no wrapped message on this tree (no
			// UnpackInterfaces) and is always refused, so the mismatch is latent: it is counted here and decided
			// on the byte path in tx.go.
			if signer := h.requiredSigner(p); signer != orc.BridgerAddress {
				if p.wrapped {
					rep.Count("latent: wrapped confirm accepted on the object path although the wrapper names a foreign signer")
				} else {
					fail("C12/signer-not-bridger/direct", fmt.Sprintf("confirm accepted in a transaction whose required signer %s is not the oracle's bridger %s", signer, orc.BridgerAddress))
				}
			}
		}
	} else if !sameConfs(pre, post) {
		fail("C12/rejected-changed-store", "a rejected confirm changed the confirm stores")
	}
	// at most one confirm per (object, oracle): keys are unique by construction of the store; values must agree with their key
	seen := map[string]bool{}
	for _, c := range post.confs {
		k := fmt.Sprintf("%d/%s/%d/%s", c.kind, c.token, c.nonce, c.vExt)
		if seen[k] {
			fail("C12/two-confirms-one-key", "two stored confirms of one external key for one object")
		}
		seen[k] = true
		if c.vNonce != c.nonce || (c.kind == KBatch && c.vToken != c.token) {
			fail("C12/confirm-key-value", "stored confirm does not name the object it is stored under")
		}
	}
	_ = realCP

	h.checkAttribution(rep, post, true, "after-confirm", replay)
	for oa, o := range pre.oracles {
		if pre.byBridger[o.BridgerAddress] != oa {
			rep.Count("oracle record and by-bridger index disagree (state seen before a step)")
			break
		}
	}
	rep.Count("scenario:" + p.scenario)
	if p.wrapped {
		rep.Count("route:MsgConfirm")
	} else {
		rep.Count("route:direct")
	}
	rep.Count(fmt.Sprintf("verdict:%v", ok))
	rep.Count("errclass:" + errClass(err))
	rep.Count("chain:" + h.chain)
	h.log = append(h.log, fmt.Sprintf("%s %s nonce=%d wrapped=%v -> %v", p.scenario, kindName[m.kind], m.nonce, p.wrapped, ok))
	rep.Case(fmt.Sprintf("h%d/%d", h.id, stepNo), true)
	return stepResult{item: item, accepted: ok, scenario: p.scenario}
}

func sameConfs(a, b *snap) bool {
	if len(a.confs) != len(b.confs) {
		return false
	}
	for i := range a.confs {
		if !bytes.Equal(a.confs[i].rawKey, b.confs[i].rawKey) || a.confs[i].vSig != b.confs[i].vSig || a.confs[i].vBridger != b.confs[i].vBridger || a.confs[i].vExt != b.confs[i].vExt {
			return false
		}
	}
	return true
}

func errClass(err error) string {
	if err == nil {
		return "ok"
	}
	s := err.Error()
	switch {
	case strings.Contains(s, "couldn't find"):
		return "no-object"
	case strings.Contains(s, "signature decoding"):
		return "sig-decode"
	case strings.Contains(s, "no found oracle"), strings.Contains(s, "oracle"):
		return "no-oracle"
	case strings.Contains(s, "signature verification failed"):
		return "sig-verify"
	case strings.Contains(s, "duplicate confirm"):
		return "duplicate"
	case strings.Contains(s, "got ") && strings.Contains(s, "expected"):
		return "ext-or-bridger"
	case strings.Contains(s, "PANIC"):
		return "panic"
	}
	return "other"
}

// ---------------------------------------------------------------- lifecycle: genesis export + import

// checkAttribution: every stored confirm sits under an oracle whose registered external key is the one named in it,
// names the object it is stored under and (verify=true) carries that key's signature over the stored object's checkpoint
func (h *hist) checkAttribution(rep *lib.Report, s *snap, verify bool, where string, replay interface{}) {
	for _, c := range s.confs {
		rec, ok := s.oracles[c.oracle]
		if !ok || rec.ExternalAddress != c.vExt {
			rep.Fail(lib.Failure{Kind: "monitor", Sig: "C12/confirm-misattributed/" + where, Replay: replay,
				What: fmt.Sprintf("%s: the %s confirm stored under oracle %q (registered external key %q) carries external address %s: not that oracle's confirmation", where, kindName[c.kind], c.oracle, rec.ExternalAddress, c.vExt)})
			continue
		}
		if !verify {
			continue
		}
		obj := s.find(c.kind, c.token, c.nonce)
		sig, err := hex.DecodeString(c.vSig)
		good := false
		if obj != nil && obj.obj != nil && err == nil && len(sig) >= 65 {
			for mask := 0; mask < 8 && !good; mask++ {
				if a, rok := ownRecover(h.chain, keccak(EncodeMask(obj.obj, s.gid, mask)), ownNormalise(sig)); rok && a == rec.ExternalAddress {
					good = true
				}
			}
		}
		if !good {
			rep.Fail(lib.Failure{Kind: "monitor", Sig: "C12/stored-confirm-bad-signature/" + where, Replay: replay,
				What: fmt.Sprintf("%s: the %s confirm (nonce %d) stored under oracle %s does not carry that oracle's signature over the stored object", where, kindName[c.kind], c.nonce, c.oracle)})
		}
	}
}

// exportImport: the real ExportGenesis, every key of the module store deleted, the real InitGenesis - a chain restart
// from exported state.  Returns the Coq case (state before, confirm stores after).
func (h *hist) exportImport(rep *lib.Report, stepNo int) string {
	pre := h.snapshot()
	replay := map[string]interface{}{"history": h.id, "chain": h.chain, "seed": h.c.Seed, "step": stepNo, "op": "export-import", "log": append([]string{}, h.log...)}
	err := h.c.Try(func(ctx sdk.Context) error {
		gs := crosschainkeeper.ExportGenesis(ctx, h.x.Keeper)
		store := ctx.KVStore(h.c.App.GetKey(h.chain))
		var keys [][]byte
		it := store.Iterator(nil, nil)
		for ; it.Valid(); it.Next() {
			keys = append(keys, append([]byte{}, it.Key()...))
		}
		it.Close()
		for _, k := range keys {
			store.Delete(k)
		}
		crosschainkeeper.InitGenesis(ctx, h.x.Keeper, gs)
		return nil
	})
	h.log = append(h.log, fmt.Sprintf("export-import err=%v", err))
	rep.Case(fmt.Sprintf("h%d/%d/import", h.id, stepNo), true)
	if err != nil {
		rep.Count("export-import: " + errClass(err))
		rep.Fail(lib.Failure{Kind: "harness", Sig: "C12/export-import-error", What: "ExportGenesis/InitGenesis failed: " + err.Error()})
		return ""
	}
	post := h.snapshot()
	// outgoing bridge calls (and their confirms) are not part of the exported genesis on this tree (C05-2): documented, no alarm
	kept := h.accepted[:0]
	for _, m := range h.accepted {
		if m.kind != KCall {
			kept = append(kept, m)
		}
	}
	h.accepted = kept
	// ---- monitor: after the restart every stored confirm is still that oracle's own, verified, and was there before ----
	h.checkAttribution(rep, post, true, "after-import", replay)
	had := map[string]storedConf{}
	for _, c := range pre.confs {
		had[string(c.rawKey)] = c
	}
	dropped := len(pre.confs)
	for _, c := range post.confs {
		o, ok := had[string(c.rawKey)]
		if !ok || o.vSig != c.vSig || o.vExt != c.vExt || o.vBridger != c.vBridger {
			rep.Fail(lib.Failure{Kind: "monitor", Sig: "C12/import-invented-confirm", Replay: replay,
				What: fmt.Sprintf("after export/import the %s confirm under oracle %q (nonce %d) is not a confirm that was stored there before", kindName[c.kind], c.oracle, c.nonce)})
		} else {
			dropped--
		}
	}
	rep.Count("export-import: ok")
	if dropped > 0 {
		rep.Count("export-import: confirms not carried over (bridge-call confirms; confirms whose bridger was rotated away)")
	}
	return fmt.Sprintf("mk_imp_case %s %s", h.coqState(pre), lib.List(h.coqConfs(post)))
}

// reuseProbe (finding C12-1, scripted, run on every check): oracle X confirms oracle set #1 through bridger b, rotates
// to a fresh bridger, oracle Y then takes over the released account b (both through the real MsgServer.EditBridger), and
// the module is restarted from exported genesis (real ExportGenesis / store wiped / real InitGenesis).  InitGenesis
// resolves a confirm's owner by the bridger written in it, so X's confirm - X's external key and signature - is filed
// under Y.  Model: C12_import_misattributes_after_bridger_reuse.  The random histories never re-bind a released
// account, so the rest of the property keeps being checked without this trigger.
func reuseProbe(rep *lib.Report, seed int64) {
	c := lib.NewChain(seed, 1, nil)
	x := c.X("eth")
	x.SetupOracles([]int64{10000, 10000, 10000})
	lib.Must(c.NextBlock())
	h := &hist{id: -1, chain: "eth", c: c, x: x, r: lib.NewRand(seed), ids: map[string]int64{}}
	pre := h.snapshot()
	set := pre.find(KSet, "", 1)
	bad := func(what string) {
		rep.Fail(lib.Failure{Kind: "harness", Sig: "C12/reuse-probe-setup", What: "bridger-reuse probe could not be set up: " + what})
	}
	if set == nil || set.obj == nil {
		bad("no oracle set #1")
		return
	}
	X, Y := x.Oracles[0], x.Oracles[1]
	sig := ownSign(false, keccak(Encode(set.obj, pre.gid, true)), X.External)
	b := X.Bridger
	if err := h.exec(stepPlan{msg: confirmMsg{kind: KSet, nonce: 1, bridger: b.Acc().String(), external: X.ExtAddr, sigHex: hex.EncodeToString(sig)}}); err != nil {
		bad("X's confirm refused: " + err.Error())
		return
	}
	h.editBridgerOf(0)
	if err := c.Try(func(ctx sdk.Context) error {
		_, err := x.Msg().EditBridger(ctx, &crosschaintypes.MsgEditBridger{ChainName: "eth", OracleAddress: Y.Oracle.Acc().String(), BridgerAddress: b.Acc().String()})
		return err
	}); err != nil {
		bad("Y could not bind the released bridger: " + err.Error())
		return
	}
	tmp := lib.NewReport("C12")
	item := h.exportImport(tmp, 0)
	rep.Case("probe/bridger-reuse-restart", true)
	if item != "" {
		probeItems = append(probeItems, item)
	}
	hit := false
	for _, f := range tmp.Failures {
		if f.Kind == "monitor" && !hit {
			hit = true
			rep.Fail(lib.Failure{Kind: "monitor", Sig: "C12/import-misattributed/released-bridger-rebound",
				What: "after oracle X confirmed through bridger b, rotated away from b, and oracle Y bound the released account b, a restart from exported genesis stores X's confirmation under Y: " + f.What,
				Replay: map[string]interface{}{"probe": "bridger-reuse-restart", "seed": seed, "steps": h.log}})
		} else if f.Kind != "monitor" {
			rep.Fail(f)
		}
	}
	if hit {
		rep.Count("probe: bridger reuse + genesis restart misattributes a confirm (C12-1)")
	} else {
		rep.Count("probe: bridger reuse + genesis restart keeps attribution")
	}
}

// Coq cases produced by the probe (appended to Cases_C12_imp.v)
var probeItems []string

// ---------------------------------------------------------------- the recovery byte V, swept

// strictSigner: the independent verifier of what a stored confirmation must be for the external contract:
// exactly 65 bytes, V in {0,1,27,28} (27/28 normalised to 0/1), go-ethereum's recovery yields addr.
func strictSigner(chain string, checkpoint, sig []byte) (string, bool) {
	if len(sig) != 65 {
		return "", false
	}
	v := sig[64]
	if v != 0 && v != 1 && v != 27 && v != 28 {
		return "", false
	}
	return ownRecover(chain, checkpoint, ownNormalise(sig))
}

// vsweep: one genuine signature r‖s of a registered oracle over a stored object of the given kind that the oracle has
// not confirmed yet; the 65th byte takes every value 0..255 and each message is judged by the real MsgServer on a
// branch of the state that is thrown away (so all 256 see the same state).
func (h *hist) vsweep(rep *lib.Report, stepNo, kind int) string {
	pre := h.snapshot()
	var target *storedObj
	var orc *lib.Oracle
	for _, o := range h.x.Oracles {
		oa := pre.index[o.ExtAddr]
		rec, ok := pre.oracles[oa]
		if !ok || rec.BridgerAddress != o.Bridger.Acc().String() || pre.byBridger[rec.BridgerAddress] != oa {
			continue
		}
		for i := range pre.objs {
			t := &pre.objs[i]
			if t.kind == kind && t.obj != nil && !pre.hasConf(t.kind, t.token, t.nonce, oa) {
				target, orc = t, o
			}
		}
		if target != nil {
			break
		}
	}
	if target == nil {
		rep.Count("vsweep: no unconfirmed " + kindName[kind])
		return ""
	}
	cp, err := RealCheckpoint(h.chain, target.real, pre.gid)
	if err != nil {
		return ""
	}
	preimage, hashOK := hashedBytes(target.obj, pre.gid, cp)
	sig := ownSign(h.chain == "tron", cp, orc.External)
	m := confirmMsg{kind: target.kind, token: target.token, nonce: target.nonce, bridger: orc.Bridger.Acc().String(), external: orc.ExtAddr}
	ms := h.x.Msg()
	var accepted, table []string
	nAcc := 0
	for v := 0; v < 256; v++ {
		s65 := append(append([]byte{}, sig[:64]...), byte(v))
		m.sigHex = hex.EncodeToString(s65)
		inner := m.real(h.chain)
		cctx, _ := h.c.Ctx.CacheContext() // never written back
		var e error
		func() {
			defer func() {
				if r := recover(); r != nil {
					e = fmt.Errorf("PANIC: %v", r)
				}
			}()
			switch x := inner.(type) {
			case *crosschaintypes.MsgOracleSetConfirm:
				_, e = ms.OracleSetConfirm(cctx, x)
			case *crosschaintypes.MsgConfirmBatch:
				_, e = ms.ConfirmBatch(cctx, x)
			case *crosschaintypes.MsgBridgeCallConfirm:
				_, e = ms.BridgeCallConfirm(cctx, x)
			}
		}()
		if a, ok := ownRecover(h.chain, cp, s65); ok { // go-ethereum on the raw byte, no normalisation
			table = append(table, lib.Pair(fmt.Sprint(v), fmt.Sprint(h.id64(a))))
		}
		if e == nil {
			nAcc++
			accepted = append(accepted, fmt.Sprint(v))
			// ---- monitor: what the handler accepts (and would store) must be a signature the contract's rule verifies ----
			if a, ok := strictSigner(h.chain, cp, s65); !ok || a != orc.ExtAddr {
				rep.Fail(lib.Failure{Kind: "monitor", Sig: fmt.Sprintf("C12/accepted-unusable-v/%s", map[bool]string{true: "tron", false: "eth-family"}[h.chain == "tron"]),
					What: fmt.Sprintf("%s %s confirm accepted with recovery byte V=%d: r‖s‖V is not a signature of the oracle's external key that go-ethereum or the contract's ecrecover (v in {27,28} after the v<27 -> v+27 normalisation) verifies", h.chain, kindName[kind], v),
					Replay: map[string]interface{}{"history": h.id, "chain": h.chain, "seed": h.c.Seed, "step": stepNo, "op": "v-sweep", "kind": kindName[kind], "v": v,
						"msg": map[string]interface{}{"nonce": m.nonce, "token": m.token, "bridger": m.bridger, "external": m.external, "signature": m.sigHex}, "log": append([]string{}, h.log...)}})
			}
		}
	}
	if nAcc != 2 {
		rep.Count(fmt.Sprintf("vsweep: %d values of V accepted", nAcc))
	}
	rep.Count("vsweep:" + map[bool]string{true: "tron", false: "eth-family"}[h.chain == "tron"] + ":" + kindName[kind])
	rep.Case(fmt.Sprintf("h%d/%d/vsweep", h.id, stepNo), true)
	h.log = append(h.log, fmt.Sprintf("v-sweep %s nonce=%d accepted V=%v", kindName[kind], m.nonce, accepted))
	pw := bytesL(preimage)
	if !hashOK {
		pw = "[]"
	}
	m.sigHex = hex.EncodeToString(append(append([]byte{}, sig[:64]...), 0))
	return fmt.Sprintf("mk_vs_case %s %s %s %s %s %s", h.coqState(pre), h.coqMsg(m), bytesL(sig[:64]), pw, lib.List(table), lib.List(accepted))
}
