package main

// enc.go: chain-neutral description of the three signed objects, conversion to the real protobuf
// objects, an ABI encoder written from the Solidity source / ABI specification in plain Go
// (independent of go-ethereum's accounts/abi and of the Coq model: it is the monitor's reference),
// and Coq printing.

import (
	"bytes"
	"encoding/binary"
	"encoding/hex"
	"fmt"
	"math/big"
	"strconv"
	"strings"

	sdkmath "cosmossdk.io/math"
	"github.com/ethereum/go-ethereum/crypto"

	crosschaintypes "github.com/functionx/fx-core/v8/x/crosschain/types"
	trontypes "github.com/functionx/fx-core/v8/x/tron/types"

	"fxverif/lib"
)

const (
	KSet = iota
	KBatch
	KCall
)

var kindName = []string{"oracleset", "batch", "call"}
var kindCoq = []string{"KOracleSet", "KBatch", "KCall"}

type Addr [20]byte

type Member struct {
	Addr  Addr
	Power uint64
}
type Transfer struct {
	Amount *big.Int
	Dest   Addr
	Fee    *big.Int
}
type TokenAmt struct {
	Contract Addr
	Amount   *big.Int
}

// Obj holds exactly the fields that enter a checkpoint.
type Obj struct {
	Kind                       int
	Nonce, Timeout, EventNonce uint64
	Members                    []Member
	Txs                        []Transfer
	Token, FeeRecv             Addr
	Sender, Refund, To         Addr
	Tokens                     []TokenAmt
	Data, Memo                 []byte
}

func addrStr(chain string, a Addr) string { return crosschaintypes.ExternalAddrToStr(chain, a[:]) }
func strAddr(chain, s string) Addr {
	var a Addr
	copy(a[:], crosschaintypes.ExternalAddrToHexAddr(chain, s).Bytes())
	return a
}

// ToReal builds the protobuf object fx-core stores (fields outside the checkpoint get fixed values).
func (o *Obj) ToReal(chain string, block uint64) interface{} {
	switch o.Kind {
	case KSet:
		s := &crosschaintypes.OracleSet{Nonce: o.Nonce, Height: block}
		for _, m := range o.Members {
			s.Members = append(s.Members, crosschaintypes.BridgeValidator{Power: m.Power, ExternalAddress: addrStr(chain, m.Addr)})
		}
		return s
	case KBatch:
		tok := addrStr(chain, o.Token)
		b := &crosschaintypes.OutgoingTxBatch{BatchNonce: o.Nonce, BatchTimeout: o.Timeout, TokenContract: tok, FeeReceive: addrStr(chain, o.FeeRecv), Block: block}
		for i, t := range o.Txs {
			b.Transactions = append(b.Transactions, &crosschaintypes.OutgoingTransferTx{
				Id: uint64(i + 1), Sender: "fx1sender", DestAddress: addrStr(chain, t.Dest),
				Token: crosschaintypes.ERC20Token{Contract: tok, Amount: sdkmath.NewIntFromBigInt(t.Amount)},
				Fee:   crosschaintypes.ERC20Token{Contract: tok, Amount: sdkmath.NewIntFromBigInt(t.Fee)},
			})
		}
		return b
	default:
		c := &crosschaintypes.OutgoingBridgeCall{
			Sender: addrStr(chain, o.Sender), Refund: addrStr(chain, o.Refund), To: addrStr(chain, o.To),
			Data: hex.EncodeToString(o.Data), Memo: hex.EncodeToString(o.Memo),
			Nonce: o.Nonce, Timeout: o.Timeout, EventNonce: o.EventNonce, BlockHeight: block,
		}
		for _, t := range o.Tokens {
			c.Tokens = append(c.Tokens, crosschaintypes.ERC20Token{Contract: addrStr(chain, t.Contract), Amount: sdkmath.NewIntFromBigInt(t.Amount)})
		}
		return c
	}
}

// FromReal reads the checkpoint fields back out of a stored protobuf object.
func FromReal(chain string, real interface{}) (o *Obj, err error) {
	defer func() {
		if r := recover(); r != nil {
			err = fmt.Errorf("undecodable stored object: %v", r)
		}
	}()
	switch v := real.(type) {
	case *crosschaintypes.OracleSet:
		o = &Obj{Kind: KSet, Nonce: v.Nonce}
		for _, m := range v.Members {
			o.Members = append(o.Members, Member{Addr: strAddr(chain, m.ExternalAddress), Power: m.Power})
		}
	case *crosschaintypes.OutgoingTxBatch:
		o = &Obj{Kind: KBatch, Nonce: v.BatchNonce, Timeout: v.BatchTimeout, Token: strAddr(chain, v.TokenContract), FeeRecv: strAddr(chain, v.FeeReceive)}
		for _, t := range v.Transactions {
			o.Txs = append(o.Txs, Transfer{Amount: t.Token.Amount.BigInt(), Dest: strAddr(chain, t.DestAddress), Fee: t.Fee.Amount.BigInt()})
		}
	case *crosschaintypes.OutgoingBridgeCall:
		o = &Obj{Kind: KCall, Nonce: v.Nonce, Timeout: v.Timeout, EventNonce: v.EventNonce,
			Sender: strAddr(chain, v.Sender), Refund: strAddr(chain, v.Refund), To: strAddr(chain, v.To)}
		if o.Data, err = hex.DecodeString(v.Data); err != nil {
			return nil, err
		}
		if o.Memo, err = hex.DecodeString(v.Memo); err != nil {
			return nil, err
		}
		for _, t := range v.Tokens {
			o.Tokens = append(o.Tokens, TokenAmt{Contract: strAddr(chain, t.Contract), Amount: t.Amount.BigInt()})
		}
	default:
		return nil, fmt.Errorf("unknown object type %T", real)
	}
	return o, nil
}

// RealCheckpoint calls the function ConfirmHandler calls for this chain.
func RealCheckpoint(chain string, real interface{}, gid string) ([]byte, error) {
	tron := chain == trontypes.ModuleName
	switch v := real.(type) {
	case *crosschaintypes.OracleSet:
		if tron {
			return trontypes.GetCheckpointOracleSet(v, gid)
		}
		return v.GetCheckpoint(gid)
	case *crosschaintypes.OutgoingTxBatch:
		if tron {
			return trontypes.GetCheckpointConfirmBatch(v, gid)
		}
		return v.GetCheckpoint(gid)
	case *crosschaintypes.OutgoingBridgeCall:
		if tron {
			return trontypes.GetCheckpointBridgeCall(v, gid)
		}
		return v.GetCheckpoint(gid)
	}
	return nil, fmt.Errorf("unknown object type %T", real)
}

// ---------------------------------------------------------------- independent ABI encoder

var two256 = new(big.Int).Lsh(big.NewInt(1), 256)
var two64 = new(big.Int).Lsh(big.NewInt(1), 64)

func wordOf(v *big.Int) []byte {
	m := new(big.Int).Mod(v, two256)
	out := make([]byte, 32)
	m.FillBytes(out)
	return out
}

// u64Word: the word a uint64 field becomes.  cast = through Go's big.NewInt(int64(x)):
// values >= 2^63 turn negative and are packed as two's complement.
func u64Word(x uint64, cast bool) []byte {
	v := new(big.Int).SetUint64(x)
	if cast && x >= 1<<63 {
		v.Sub(v, two64)
	}
	return wordOf(v)
}
func addrWord(a Addr) []byte {
	out := make([]byte, 32)
	copy(out[12:], a[:])
	return out
}
func strWord(s string) []byte { // bytes32 of a short string, zero padded on the right
	out := make([]byte, 32)
	copy(out, s)
	return out
}

type abiArg struct {
	dyn  bool
	data []byte // the word (static) or enc(X) (dynamic)
}

func static(w []byte) abiArg { return abiArg{false, w} }
func arrayOf(ws [][]byte) abiArg {
	d := wordOf(big.NewInt(int64(len(ws))))
	for _, w := range ws {
		d = append(d, w...)
	}
	return abiArg{true, d}
}
func bytesOf(b []byte) abiArg {
	d := wordOf(big.NewInt(int64(len(b))))
	d = append(d, b...)
	if r := len(b) % 32; r != 0 {
		d = append(d, make([]byte, 32-r)...)
	}
	return abiArg{true, d}
}
func tuple(args []abiArg) []byte {
	off := 32 * len(args)
	var head, tail []byte
	for _, a := range args {
		if a.dyn {
			head = append(head, wordOf(big.NewInt(int64(off)))...)
			tail = append(tail, a.data...)
			off += len(a.data)
		} else {
			head = append(head, a.data...)
		}
	}
	return append(head, tail...)
}

// Encode: abi.encode(...) as FxBridgeLogic.sol writes it for the kind of o, over o's values.
// cast=false: the contract's view (it is handed the uint64 values as they are).
// cast=true: with the int64 cast the Go code applies to uint64 fields.
func Encode(o *Obj, gid string, cast bool) []byte {
	if cast {
		return EncodeMask(o, gid, 7)
	}
	return EncodeMask(o, gid, 0)
}

// EncodeMask: bit 0 = nonce, bit 1 = time-out (oracle set: member powers), bit 2 = event nonce go through the int64 cast
func EncodeMask(o *Obj, gid string, mask int) []byte {
	g := static(strWord(gid))
	c0, c1, c2 := mask&1 != 0, mask&2 != 0, mask&4 != 0
	switch o.Kind {
	case KSet: // makeCheckpoint: _fxBridgeId, "checkpoint", _oracleSetNonce, _oracles, _powers
		var as, ps [][]byte
		for _, m := range o.Members {
			as = append(as, addrWord(m.Addr))
			ps = append(ps, u64Word(m.Power, c1))
		}
		return tuple([]abiArg{g, static(strWord("checkpoint")), static(u64Word(o.Nonce, c0)), arrayOf(as), arrayOf(ps)})
	case KBatch: // submitBatch: id, "transactionBatch", _amounts, _destinations, _fees, _nonceArray[1], _tokenContract, _batchTimeout, _feeReceive
		var am, ds, fs [][]byte
		for _, t := range o.Txs {
			am = append(am, wordOf(t.Amount))
			ds = append(ds, addrWord(t.Dest))
			fs = append(fs, wordOf(t.Fee))
		}
		return tuple([]abiArg{g, static(strWord("transactionBatch")), arrayOf(am), arrayOf(ds), arrayOf(fs),
			static(u64Word(o.Nonce, c0)), static(addrWord(o.Token)), static(u64Word(o.Timeout, c1)), static(addrWord(o.FeeRecv))})
	default: // bridgeCallSigHash: id, "bridgeCall", sender, refund, tokens, amounts, to, data, memo, nonce, timeout, eventNonce
		var cs, am [][]byte
		for _, t := range o.Tokens {
			cs = append(cs, addrWord(t.Contract))
			am = append(am, wordOf(t.Amount))
		}
		return tuple([]abiArg{g, static(strWord("bridgeCall")), static(addrWord(o.Sender)), static(addrWord(o.Refund)),
			arrayOf(cs), arrayOf(am), static(addrWord(o.To)), bytesOf(o.Data), bytesOf(o.Memo),
			static(u64Word(o.Nonce, c0)), static(u64Word(o.Timeout, c1)), static(u64Word(o.EventNonce, c2))})
	}
}

// hashedBytes names the bytes whose keccak is the real checkpoint cp: the contract layout with the int64
// cast the current Go code applies or, should a tree drop the cast, without it.
func hashedBytes(o *Obj, gid string, cp []byte) ([]byte, bool) {
	for mask := 7; mask >= 0; mask-- {
		if pre := EncodeMask(o, gid, mask); bytes.Equal(keccak(pre), cp) {
			return pre, true
		}
	}
	return Encode(o, gid, true), false
}

func (o *Obj) AllSmall() bool {
	if o.Nonce >= 1<<63 || o.Timeout >= 1<<63 || o.EventNonce >= 1<<63 {
		return false
	}
	for _, m := range o.Members {
		if m.Power >= 1<<63 {
			return false
		}
	}
	return true
}

func keccak(b ...[]byte) []byte { return crypto.Keccak256(b...) }

// ---------------------------------------------------------------- Coq printing

// Large data is printed as lists of primitive-integer limbs (see coq/model/M_ConfirmCorr.v zl / bl):
// type-checking a 256-bit numeral costs coqc milliseconds, a 52-bit primitive literal microseconds.

var limbMask = new(big.Int).Sub(new(big.Int).Lsh(big.NewInt(1), 52), big.NewInt(1))

// zbig: a non-negative number; small ones as a plain numeral, big ones as (zl [little-endian 52-bit limbs])
func zbig(n *big.Int) string {
	if n.BitLen() <= 60 {
		return n.String()
	}
	var limbs []string
	v := new(big.Int).Set(n)
	for v.Sign() > 0 {
		limbs = append(limbs, new(big.Int).And(v, limbMask).String())
		v.Rsh(v, 52)
	}
	return "(zl " + lib.List(limbs) + "%uint63)"
}

func zu(x uint64) string { return zbig(new(big.Int).SetUint64(x)) }

func zAddr(a Addr) string { return zbig(new(big.Int).SetBytes(a[:])) }

// bytesL: a byte string as (bl len [big-endian 7-byte limbs])
func bytesL(b []byte) string {
	var limbs []string
	for i := 0; i < len(b); i += 7 {
		var chunk [8]byte
		copy(chunk[1:], b[i:min(i+7, len(b))])
		limbs = append(limbs, strconv.FormatUint(binary.BigEndian.Uint64(chunk[:]), 10))
	}
	return fmt.Sprintf("(bl %d %s%%uint63)", len(b), lib.List(limbs))
}

func (o *Obj) Coq() string {
	switch o.Kind {
	case KSet:
		ms := make([]string, len(o.Members))
		for i, m := range o.Members {
			ms[i] = lib.Pair(zAddr(m.Addr), zu(m.Power))
		}
		return fmt.Sprintf("(mk_set %s %s)", zu(o.Nonce), lib.List(ms))
	case KBatch:
		ts := make([]string, len(o.Txs))
		for i, t := range o.Txs {
			ts[i] = fmt.Sprintf("(%s, %s, %s)", zbig(t.Amount), zAddr(t.Dest), zbig(t.Fee))
		}
		return fmt.Sprintf("(mk_batch %s %s %s %s %s)", zu(o.Nonce), zu(o.Timeout), lib.List(ts), zAddr(o.Token), zAddr(o.FeeRecv))
	default:
		ts := make([]string, len(o.Tokens))
		for i, t := range o.Tokens {
			ts[i] = lib.Pair(zAddr(t.Contract), zbig(t.Amount))
		}
		return fmt.Sprintf("(mk_call %s %s %s %s %s %s %s %s %s)", zAddr(o.Sender), zAddr(o.Refund), lib.List(ts), zAddr(o.To),
			bytesL(o.Data), bytesL(o.Memo), zu(o.Nonce), zu(o.Timeout), zu(o.EventNonce))
	}
}

func (o *Obj) Brief() string {
	return fmt.Sprintf("%s nonce=%d timeout=%d members=%d txs=%d tokens=%d data=%d memo=%d", kindName[o.Kind], o.Nonce, o.Timeout,
		len(o.Members), len(o.Txs), len(o.Tokens), len(o.Data), len(o.Memo))
}

// ---------------------------------------------------------------- generators

func rndAddr(r *lib.Rand) Addr {
	var a Addr
	switch r.Intn(12) {
	case 0: // zero address
	case 1:
		for i := range a {
			a[i] = 0xff
		}
	case 2:
		a[19] = byte(1 + r.Intn(255))
	default:
		r.Read(a[:])
	}
	return a
}

var max256 = new(big.Int).Sub(two256, big.NewInt(1))

func rndAmount(r *lib.Rand) *big.Int {
	switch r.Intn(10) {
	case 0:
		return big.NewInt(0)
	case 1:
		return big.NewInt(1)
	case 2:
		return new(big.Int).Set(max256)
	case 3:
		return new(big.Int).Lsh(big.NewInt(1), uint(r.Intn(256)))
	case 4:
		return new(big.Int).SetUint64(r.U64Edge())
	default:
		b := make([]byte, 1+r.Intn(32))
		r.Read(b)
		return new(big.Int).SetBytes(b)
	}
}

func rndSize(r *lib.Rand, max int) int {
	switch r.Intn(8) {
	case 0:
		return 0
	case 1:
		return 1
	case 2:
		return max
	case 3:
		return r.Intn(max + 1)
	default:
		return r.Intn(max/8 + 2)
	}
}

func rndBytes(r *lib.Rand, max int) []byte {
	n := 0
	switch r.Intn(8) {
	case 0:
		n = 0
	case 1:
		n = []int{1, 31, 32, 33, 63, 64, 65}[r.Intn(7)]
	case 2:
		n = max
	case 3:
		n = r.Intn(max + 1)
	default:
		n = r.Intn(100)
	}
	b := make([]byte, n)
	r.Read(b)
	if n > 0 && r.Chance(20) { // trailing / leading zero bytes matter for padding
		b[n-1] = 0
		b[0] = 0
	}
	return b
}

// u64 draws a uint64; small keeps it below 2^63 (what the chain can reach)
func u64(r *lib.Rand, small bool) uint64 {
	v := r.U64Edge()
	if small && v >= 1<<63 {
		v = v>>1 | uint64(r.Intn(2))
		if r.Chance(50) {
			v = 1<<63 - 1
		}
	}
	return v
}

func rndObj(r *lib.Rand, kind int, maxN, maxBytes int, small bool) *Obj {
	o := &Obj{Kind: kind, Nonce: u64(r, small), Timeout: u64(r, small), EventNonce: u64(r, small)}
	switch kind {
	case KSet:
		n := rndSize(r, maxN)
		for i := 0; i < n; i++ {
			o.Members = append(o.Members, Member{Addr: rndAddr(r), Power: u64(r, small)})
		}
	case KBatch:
		n := rndSize(r, maxN)
		for i := 0; i < n; i++ {
			o.Txs = append(o.Txs, Transfer{Amount: rndAmount(r), Dest: rndAddr(r), Fee: rndAmount(r)})
		}
		o.Token, o.FeeRecv = rndAddr(r), rndAddr(r)
	default:
		n := rndSize(r, maxN/4+1)
		for i := 0; i < n; i++ {
			o.Tokens = append(o.Tokens, TokenAmt{Contract: rndAddr(r), Amount: rndAmount(r)})
		}
		o.Sender, o.Refund, o.To = rndAddr(r), rndAddr(r), rndAddr(r)
		o.Data, o.Memo = rndBytes(r, maxBytes), rndBytes(r, maxBytes)
	}
	return o
}

func rndGid(r *lib.Rand) string {
	switch r.Intn(8) {
	case 0:
		return "fx-gravity-id"
	case 1:
		return "fx-bridge-eth"
	case 2:
		return strings.Repeat("g", 32)
	case 3:
		return "x"
	case 4:
		return "" // rejected by Params validation, accepted by the checkpoint functions
	case 5:
		b := make([]byte, 1+r.Intn(32))
		r.Read(b)
		return string(b)
	default:
		return fmt.Sprintf("fx-%s-%d", lib.ChainModules[r.Intn(len(lib.ChainModules))], r.Intn(1000))
	}
}
