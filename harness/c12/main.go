// Harness for property C12: a confirmation is stored only with the oracle's signature over the exact
// object; the checkpoint fxcore signs equals the digest the external bridge contract recomputes.
//
// Streams (all on the REAL fx-core code):
//
//	enc   generated oracle sets / batches / bridge calls on all 8 chain modules -> the real
//	      GetCheckpoint* result; the bytes whose keccak is that result are printed next to the object
//	      and coqc compares them with the model's encode(go_checkpoint_args obj)   (Cases_C12_enc.v)
//	conf  confirm histories with real ECDSA keys on the full application: every step one confirm
//	      message through the real MsgServer (direct and inside MsgConfirm); stores before/after and
//	      what go-ethereum's recover returned are printed; coqc runs the model's handler (Cases_C12_conf.v)
//	tx    fully signed transactions carrying confirms: who has to sign vs whose bridger is checked
//
// Monitors (plain Go, independent of the model): see confirm.go step() and encStream().
package main

import (
	"bytes"
	"encoding/json"
	"fmt"
	"os"

	"fxverif/lib"
)

type replayRef struct {
	Stream  string `json:"stream"`
	History int    `json:"history"`
}

func main() {
	mode := os.Getenv("VERIF_MODE")
	seed := lib.Seed()
	tier := lib.Tier()
	if mode == "replay" {
		replay()
		return
	}
	rep := lib.NewReport("C12")
	rep.Rule = "enc: one generated object on one chain module (0..100 members / transfers, data and memo 0..2048 bytes, boundary integers, 9 gravity-id shapes), real GetCheckpoint* vs model pre-image and vs the contract-layout digest; " +
		"conf: one confirm message on the full application (2-5 bonded oracles with real secp256k1 external keys; objects from the real end blocker / RequestBatch / BridgeCall and stored with arbitrary contents; " +
		"valid, wrong key, transplanted (other nonce / kind / gravity id / chain), malleated (high-s, v 27/28, v 2/3, 64/66 bytes, not hex, empty), wrong bridger, other oracle's external address, unregistered, lowercase address, missing object, duplicates; direct and MsgConfirm-wrapped); " +
		"non-trivial = every case (each exercises the encoder or the handler on a distinct input); distinct by (stream, history, step)"
	nEnc, nHist, nSteps := 14, 36, 12
	if tier == "thorough" || mode == "search" {
		nEnc, nHist, nSteps = 90, 260, 16
	}
	encStream(rep, seed, nEnc, mode != "search")
	reuseProbe(rep, seed*31+5) // before confStream: its case goes into Cases_C12_imp.v
	confStream(rep, seed, nHist, nSteps, mode != "search", -1)
	txStream(rep, seed, mode != "search")
	rep.Write()
}

// ---------------------------------------------------------------- enc stream

func encStream(rep *lib.Report, seed int64, perKindChain int, write bool) {
	r := lib.NewRand(seed*1_000_003 + 12)
	var items []string
	for _, chain := range lib.ChainModules {
		for kind := KSet; kind <= KCall; kind++ {
			for i := 0; i < perKindChain; i++ {
				small := !r.Chance(20)
				maxN, maxB := 100, 2048
				if i%3 != 0 { // most cases moderate, every third one up to the full size
					maxN, maxB = 12, 200
				}
				o := rndObj(r, kind, maxN, maxB, small)
				gid := rndGid(r)
				items = append(items, encCase(rep, chain, o, gid, fmt.Sprintf("enc/%s/%s/%d", chain, kindName[kind], i)))
			}
		}
	}
	// the int64 boundary, deterministically, on one eth-like chain and on tron
	for _, chain := range []string{"eth", "tron"} {
		for kind := KSet; kind <= KCall; kind++ {
			for j, v := range []uint64{1<<63 - 1, 1 << 63, 1<<64 - 1} {
				o := rndObj(r, kind, 2, 10, true)
				o.Nonce, o.Timeout, o.EventNonce = v, v, v
				for k := range o.Members {
					o.Members[k].Power = v
				}
				items = append(items, encCase(rep, chain, o, "fx-gravity-id", fmt.Sprintf("enc-boundary/%s/%s/%d", chain, kindName[kind], j)))
			}
		}
	}
	if n := rep.Histogram["enc:uint64>=2^63 differs from contract (int64 cast)"]; n > 0 {
		rep.Notes = append(rep.Notes, fmt.Sprintf("observation (not a finding): %d generated objects with a uint64 field >= 2^63 (nonce, time-out, event nonce or member power) "+
			"get a checkpoint that differs from the contract's digest because the Go code packs big.NewInt(int64(x)) (theorems C12_layout_agrees_iff / C12_uint64_cast_refuted); "+
			"such values need 2^63 objects or a quorum-claimed external height >= 2^63 and are judged unreachable", n))
	}
	kept := items[:0]
	for _, it := range items {
		if it != "" {
			kept = append(kept, it)
		}
	}
	items = kept
	if write {
		lib.WriteCases("Cases_C12_enc.v", []string{"model.M_Abi", "model.M_CkDesc", "model.M_Confirm", "model.M_ConfirmCorr"}, "enc_case", items, "enc_mismatch")
	}
}

func encCase(rep *lib.Report, chain string, o *Obj, gid string, key string) string {
	real := o.ToReal(chain, 7)
	cp, err := RealCheckpoint(chain, real, gid)
	if err != nil {
		rep.Fail(lib.Failure{Kind: "harness", What: fmt.Sprintf("GetCheckpoint failed on a valid object: %v", err), Sig: "C12/enc-error"})
		return ""
	}
	pre, hashOK := hashedBytes(o, gid, cp)
	// monitor: the signed checkpoint is the digest the contract recomputes from the same values
	contract := keccak(Encode(o, gid, false))
	replay := map[string]interface{}{"stream": "enc", "chain": chain, "gravity_id": []byte(gid), "object": o, "checkpoint": fmt.Sprintf("%x", cp), "contract_digest": fmt.Sprintf("%x", contract)}
	switch {
	case o.AllSmall() && !bytes.Equal(cp, contract):
		rep.Fail(lib.Failure{Kind: "monitor", Sig: "C12/checkpoint-not-contract-digest/" + kindName[o.Kind],
			What: fmt.Sprintf("%s: GetCheckpoint of %s differs from keccak256(abi.encode(...)) as FxBridgeLogic.sol computes it", chain, o.Brief()), Replay: replay})
	case !o.AllSmall():
		rep.Count("enc:uint64>=2^63")
		if bytes.Equal(cp, contract) {
			rep.Count("enc:uint64>=2^63 agrees with contract")
		} else {
			rep.Count("enc:uint64>=2^63 differs from contract (int64 cast)")
		}
	}
	rep.Count("enc:" + chain)
	rep.Count("enc-kind:" + kindName[o.Kind])
	rep.Case(key, true)
	rep.Sample(map[string]interface{}{"chain": chain, "object": o.Brief(), "checkpoint": fmt.Sprintf("%x", cp)})
	return fmt.Sprintf("mk_enc_case %s %s %s %s %s", lib.Bool(chain == "tron"), bytesL([]byte(gid)), o.Coq(), lib.Bool(hashOK), bytesL(pre))
}

// ---------------------------------------------------------------- conf stream

func histChain(i int) string {
	// eth and tron every time, the other six modules in rotation
	switch i % 4 {
	case 0:
		return "eth"
	case 1:
		return "tron"
	default:
		return lib.ChainModules[1+(i/2)%6]
	}
}

func confStream(rep *lib.Report, seed int64, nHist, nSteps int, write bool, only int) {
	var items, imps, sweeps []string
	for i := 0; i < nHist; i++ {
		if only >= 0 && i != only {
			continue
		}
		r := lib.NewRand(seed*1_000_003 + 1000 + int64(i))
		h := newHist(i, seed*7919+int64(i), histChain(i), r, i%3 != 2)
		for s := 0; s < nSteps; s++ {
			// the recovery byte swept over 0..255 once per history; kinds rotate so that the eth family (i%4 != 1) and
			// tron (i%4 == 1) both see all three confirmation kinds
			if s == 4 {
				if it := h.vsweep(rep, s, (i/4+i)%3); it != "" {
					sweeps = append(sweeps, it)
				}
			}
			if res := h.step(rep, s); res.item != "" {
				items = append(items, res.item)
			}
			if r.Chance(12) {
				lib.Must(h.c.NextBlock())
				h.log = append(h.log, "next-block")
			}
			if i%3 == 0 && s == 6 { // a rotation by an oracle whose confirm is stored
				h.editBridgerConfirmed()
			} else if r.Chance(14) || (i%2 == 0 && s == 2) { // every second history rotates a bridger early
				h.editBridger()
			}
			// lifecycle: restart from exported genesis, in every third history after a rotation that followed confirms
			if (i%3 == 0 && s == 7) || r.Chance(4) {
				if it := h.exportImport(rep, s); it != "" {
					imps = append(imps, it)
				}
			}
		}
		if only >= 0 {
			for _, l := range h.log {
				fmt.Println(l)
			}
		}
	}
	if write && only < 0 {
		lib.WriteCases("Cases_C12_conf.v", []string{"model.M_Abi", "model.M_CkDesc", "model.M_Confirm", "model.M_ConfirmCorr"}, "conf_case", items, "conf_mismatch")
		lib.WriteCases("Cases_C12_vsweep.v", []string{"model.M_Abi", "model.M_CkDesc", "model.M_Confirm", "model.M_ConfirmCorr"}, "vs_case", sweeps, "vs_mismatch")
		lib.WriteCases("Cases_C12_imp.v", []string{"model.M_Abi", "model.M_CkDesc", "model.M_Confirm", "model.M_ConfirmCorr"}, "imp_case", append(probeItems, imps...), "imp_mismatch")
	}
}

// ---------------------------------------------------------------- replay

func replay() {
	path := os.Getenv("VERIF_REPLAY")
	raw, err := os.ReadFile(path)
	lib.Must(err)
	var doc struct {
		Seed   int64           `json:"seed"`
		Tier   string          `json:"tier"`
		Replay json.RawMessage `json:"replay"`
	}
	lib.Must(json.Unmarshal(raw, &doc))
	var ref struct {
		Stream  string `json:"stream"`
		History *int   `json:"history"`
		TxCase  string `json:"tx_case"`
	}
	_ = json.Unmarshal(doc.Replay, &ref)
	rep := lib.NewReport("C12")
	var pr struct {
		Probe string `json:"probe"`
		Seed  int64  `json:"seed"`
	}
	_ = json.Unmarshal(doc.Replay, &pr)
	switch {
	case pr.Probe != "":
		reuseProbe(rep, pr.Seed)
	case ref.TxCase != "":
		txStream(rep, doc.Seed, false)
	case ref.History != nil:
		nSteps := 12
		if doc.Tier == "thorough" {
			nSteps = 16
		}
		confStream(rep, doc.Seed, *ref.History+1, nSteps, false, *ref.History)
	default:
		encStream(rep, doc.Seed, 14, false)
	}
	for _, f := range rep.Failures {
		fmt.Println("MONITOR:", f.Sig, "-", f.What)
	}
	if len(rep.Failures) == 0 {
		fmt.Println("replay: no monitor failure on this tree")
	}
}
