package main

// tx.go: who must sign a transaction that carries a confirm, versus whose bridger ConfirmHandler checks.
// Fully signed transactions (SIGN_MODE_DIRECT) are taken (a) as encoded bytes inside a real block
// (FinalizeBlock + Commit) and (b) as the transaction object through ValidateBasic of each message, the app's real ante
// handler and the real MsgServiceRouter handler (what runTx does after decoding).  The technique follows
// harness/c01/tx.go (MsgClaim); this file is about MsgConfirm.

import (
	"encoding/hex"
	"fmt"
	"strings"

	sdkmath "cosmossdk.io/math"
	storetypes "cosmossdk.io/store/types"
	clienttx "github.com/cosmos/cosmos-sdk/client/tx"
	codectypes "github.com/cosmos/cosmos-sdk/codec/types"
	sdk "github.com/cosmos/cosmos-sdk/types"
	"github.com/cosmos/cosmos-sdk/types/tx/signing"
	authsigning "github.com/cosmos/cosmos-sdk/x/auth/signing"

	fxtypes "github.com/functionx/fx-core/v8/types"
	crosschaintypes "github.com/functionx/fx-core/v8/x/crosschain/types"

	"fxverif/lib"
)

type txCase struct {
	Name    string `json:"tx_case"`
	Chain   string `json:"chain"`
	Wrapped bool   `json:"wrapped"`
	Signer  int    `json:"signer"`  // oracle index whose bridger signs; -1 = an account that is nobody's bridger
	Wrapper int    `json:"wrapper"` // wrapper bridger_address (same numbering); ignored for direct messages
	Inner   int    `json:"inner"`   // oracle whose bridger/external key the confirm names and whose signature it carries
	Bytes   bool   `json:"bytes"`
}

func txScenarios() []txCase {
	return []txCase{
		{Name: "direct-honest", Chain: "eth", Signer: 0, Inner: 0},
		{Name: "direct-outsider-signs", Chain: "eth", Signer: -1, Inner: 0},
		{Name: "wrapped-honest", Chain: "eth", Wrapped: true, Signer: 1, Wrapper: 1, Inner: 1},
		{Name: "wrapped-outsider-signs-own-wrapper", Chain: "eth", Wrapped: true, Signer: -1, Wrapper: -1, Inner: 2},
		{Name: "wrapped-outsider-signs-wrapper-names-bridger", Chain: "eth", Wrapped: true, Signer: -1, Wrapper: 2, Inner: 2},
		{Name: "wrapped-other-oracle-signs", Chain: "tron", Wrapped: true, Signer: 0, Wrapper: 0, Inner: 1},
	}
}

func txStream(rep *lib.Report, seed int64, write bool) {
	var items []string
	for i, tc := range txScenarios() {
		for _, asBytes := range []bool{false, true} {
			tc.Bytes = asBytes
			if it := runTxCase(rep, seed*104729+int64(i), tc); it != "" {
				items = append(items, it)
			}
		}
	}
	if write {
		lib.WriteCases("Cases_C12_tx.v", []string{"model.M_Abi", "model.M_CkDesc", "model.M_Confirm", "model.M_ConfirmCorr"}, "tx_case", items, "tx_mismatch")
	}
}

func runTxCase(rep *lib.Report, seed int64, tc txCase) string {
	c := lib.NewChain(seed, 1, nil)
	x := c.X(tc.Chain)
	x.SetupOracles([]int64{10000, 10000, 10000})
	lib.Must(c.NextBlock())
	h := &hist{chain: tc.Chain, c: c, x: x, ids: map[string]int64{}}
	outsider := lib.EthKey(seed, "c12outsider", 0)
	c.Mint(outsider.Acc(), lib.FX(1000))
	acct := func(i int) lib.Key {
		if i < 0 {
			return outsider
		}
		return x.Oracles[i].Bridger
	}
	pre := h.snapshot()
	set := pre.find(KSet, "", 1)
	if set == nil || set.obj == nil {
		rep.Fail(lib.Failure{Kind: "harness", What: "no oracle set after the first end blocker", Sig: "C12/tx-setup"})
		return ""
	}
	inner := x.Oracles[tc.Inner]
	sig := ownSign(tc.Chain == "tron", keccak(Encode(set.obj, pre.gid, true)), inner.External)
	confirm := &crosschaintypes.MsgOracleSetConfirm{Nonce: 1, BridgerAddress: inner.Bridger.Acc().String(), ExternalAddress: inner.ExtAddr,
		Signature: hex.EncodeToString(sig), ChainName: tc.Chain}
	var msg sdk.Msg = confirm
	if tc.Wrapped {
		any, err := codectypes.NewAnyWithValue(confirm)
		lib.Must(err)
		msg = &crosschaintypes.MsgConfirm{ChainName: tc.Chain, BridgerAddress: acct(tc.Wrapper).Acc().String(), Confirm: any}
	}
	signer := acct(tc.Signer)
	required, err := deliverTx(c, tc.Bytes, signer, msg)
	post := h.snapshot()
	accepted := err == nil
	orcAddr := pre.index[inner.ExtAddr]
	stored := post.hasConf(KSet, "", 1, orcAddr) && !pre.hasConf(KSet, "", 1, orcAddr)
	path := map[bool]string{true: "bytes", false: "object"}[tc.Bytes]
	rep.Case("tx/"+tc.Name+"/"+path, true)
	rep.Count(fmt.Sprintf("tx:%s:%s:accepted=%v", tc.Name, path, accepted))
	if accepted != stored {
		rep.Fail(lib.Failure{Kind: "monitor", Sig: "C12/tx-accept-store", What: fmt.Sprintf("tx %s (%s): accepted=%v but confirm stored=%v", tc.Name, path, accepted, stored), Replay: tc})
	}
	if stored && signer.Acc().String() != pre.oracles[orcAddr].BridgerAddress {
		what := fmt.Sprintf("a transaction whose only required signer is %s (an account that is not oracle %d's bridger) stored a confirm for oracle %d, whose bridger %s did not sign [%s, %s path]",
			strings.Join(required, ","), tc.Inner, tc.Inner, pre.oracles[orcAddr].BridgerAddress, tc.Name, path)
		if tc.Bytes {
			// reachable through a real transaction: the property fails
			rep.Fail(lib.Failure{Kind: "monitor", Sig: "C12/signer-not-bridger/tx-bytes", What: what, Replay: tc})
		} else {
			// only the in-memory message object gets this far: on this tree a MsgConfirm decoded from bytes has no
			// wrapped message (no UnpackInterfaces) and is refused, so this is latent, not a failure
			addNote(rep, "LATENT (not reachable through a transaction on this tree, no alarm): MsgConfirm's required signer is the wrapper's bridger_address, ConfirmHandler checks only the wrapped confirm's; "+
				"handed to the ante handler + message router as a message object, a MsgConfirm signed by an outsider stores an oracle's confirm. A MsgConfirm decoded from transaction bytes carries no wrapped message "+
				"(MsgConfirm has no UnpackInterfaces) and is always refused. The byte path is monitored: adding UnpackInterfaces without comparing the two bridger addresses would be reported (theorems C12_tree_wrapper_safe, C12_wrapped_signer_latent)")
		}
	}
	if tc.Bytes && tc.Wrapped && tc.Signer == tc.Wrapper && tc.Wrapper == tc.Inner && !accepted {
		addNote(rep, "observation (liveness, outside C12): an honest MsgConfirm transaction delivered in a real block is rejected ('"+short(err)+
			"'): MsgConfirm has no UnpackInterfaces, so the wrapped Any has no cached value after decoding; on this tree the wrapper cannot be used at all")
	}
	if tc.Name == "direct-honest" && !accepted {
		rep.Fail(lib.Failure{Kind: "harness", Sig: "C12/tx-honest-rejected", What: "an honest directly sent MsgOracleSetConfirm transaction was rejected: " + fmt.Sprint(err)})
	}
	// Coq case: state before, the transaction, who signed, what recover returned, verdict, confirm stores after
	m := confirmMsg{kind: KSet, nonce: 1, bridger: confirm.BridgerAddress, external: confirm.ExternalAddress, sigHex: confirm.Signature}
	preimage, _ := hashedBytes(set.obj, pre.gid, mustCP(tc.Chain, set.real, pre.gid))
	res := "None"
	if a, ok := ownRecover(tc.Chain, keccak(preimage), ownNormalise(sig)); ok {
		res = fmt.Sprintf("(Some %d)", h.id64(a))
	}
	recs := []string{fmt.Sprintf("(%s, %s, %s)", bytesL(preimage), bytesL(ownNormalise(sig)), res)}
	return fmt.Sprintf("mk_tx_case %s %s %d %s %d %s %s %s %s", h.coqState(pre), lib.Bool(tc.Wrapped), h.id64(acct(tc.Wrapper).Acc().String()), h.coqMsg(m),
		h.id64(signer.Acc().String()), lib.Bool(tc.Bytes), lib.List(recs), lib.Bool(accepted), lib.List(h.coqConfs(post)))
}

func mustCP(chain string, real interface{}, gid string) []byte {
	cp, err := RealCheckpoint(chain, real, gid)
	lib.Must(err)
	return cp
}

func addNote(rep *lib.Report, note string) {
	for _, n := range rep.Notes {
		if n == note {
			return
		}
	}
	rep.Notes = append(rep.Notes, note)
}

func short(err error) string {
	if err == nil {
		return ""
	}
	s := err.Error()
	if len(s) > 120 {
		s = s[:120]
	}
	return s
}

// deliverTx builds, signs (by signer only) and delivers one single-message transaction.
func deliverTx(c *lib.Chain, asBytes bool, signer lib.Key, msg sdk.Msg) (requiredSigners []string, err error) {
	app := c.App
	ctx := c.Ctx
	sgs, _, e := app.AppCodec().GetMsgV1Signers(msg)
	lib.Must(e)
	for _, s := range sgs {
		requiredSigners = append(requiredSigners, sdk.AccAddress(s).String())
	}
	acc := app.AccountKeeper.GetAccount(ctx, signer.Acc())
	if acc == nil {
		return requiredSigners, fmt.Errorf("signer account does not exist")
	}
	txCfg := app.GetTxConfig()
	b := txCfg.NewTxBuilder()
	lib.Must(b.SetMsgs(msg))
	b.SetGasLimit(2_000_000)
	b.SetFeeAmount(sdk.NewCoins(sdk.NewCoin(fxtypes.DefaultDenom, sdkmath.NewInt(10).MulRaw(1e18))))
	mode := signing.SignMode_SIGN_MODE_DIRECT
	lib.Must(b.SetSignatures(signing.SignatureV2{PubKey: signer.Priv.PubKey(), Data: &signing.SingleSignatureData{SignMode: mode}, Sequence: acc.GetSequence()}))
	sd := authsigning.SignerData{ChainID: ctx.ChainID(), AccountNumber: acc.GetAccountNumber(), Sequence: acc.GetSequence(), PubKey: signer.Priv.PubKey(), Address: signer.Acc().String()}
	sig, e := clienttx.SignWithPrivKey(ctx, mode, sd, b, signer.Priv, txCfg, acc.GetSequence())
	lib.Must(e)
	lib.Must(b.SetSignatures(sig))
	defer func() {
		if r := recover(); r != nil {
			err = fmt.Errorf("PANIC: %v", r)
		}
	}()
	tx := b.GetTx()
	bz, e := txCfg.TxEncoder()(tx)
	lib.Must(e)
	if asBytes { // the real thing: a block that contains the transaction
		resp, e := c.NextBlockResp(lib.BlockStep, [][]byte{bz})
		if e != nil {
			return requiredSigners, e
		}
		if len(resp.TxResults) != 1 {
			return requiredSigners, fmt.Errorf("no tx result")
		}
		if r := resp.TxResults[0]; r.Code != 0 {
			return requiredSigners, fmt.Errorf("code %d: %s", r.Code, r.Log)
		}
		return requiredSigners, nil
	}
	err = c.Try(func(cctx sdk.Context) error {
		cctx = cctx.WithTxBytes(bz).WithGasMeter(storetypes.NewInfiniteGasMeter())
		for _, m := range tx.GetMsgs() {
			if hv, ok := m.(sdk.HasValidateBasic); ok {
				if e := hv.ValidateBasic(); e != nil {
					return e
				}
			}
		}
		actx, e := app.AnteHandler()(cctx, tx, false)
		if e != nil {
			return e
		}
		for _, m := range tx.GetMsgs() {
			handler := app.MsgServiceRouter().Handler(m)
			if handler == nil {
				return fmt.Errorf("no message handler")
			}
			if _, e := handler(actx.WithEventManager(sdk.NewEventManager()), m); e != nil {
				return e
			}
		}
		return nil
	})
	return requiredSigners, err
}
