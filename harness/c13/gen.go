package main

// gen.go: history generator. It looks at the real state to pick mostly-meaningful operations
// (that is allowed: it only chooses inputs), mixes in invalid ones, and puts amounts on the bounds.

import (
	"fmt"
	"math/big"

	"fxverif/lib"
)

type gen struct {
	r    *lib.Rand
	run_ *runner
	idx  int
	// flavour: which known-defect triggers this history may contain (so that the rest of the property keeps
	// being checked on histories without them)
	allowUnbond  bool // C13-1: UnbondedOracle on an oracle removed by governance
	allowReadd   bool // C13-2: AddDelegate on an oracle removed by governance and approved again
	diligent     [2][nOracles]bool
	govRemoved   [2][nOracles]bool
	everUnbonded [2][nOracles]bool
	sawSlash     bool
	sawRemoval   bool
	sawMature    bool
	nextBatch    [2]int64
	nCalls       [2]int64
	slashVals    bool
	jails        bool
	calls        bool // outgoing bridge calls may be created (false while bridgeCallSlashing panics, C07)
}

func newGen(r *lib.Rand, run *runner, idx int) *gen {
	g := &gen{r: r, run_: run, idx: idx}
	// every history may call UnbondedOracle on removed oracles (the trigger of C13-1 before its fix); half of
	// them avoid the trigger of the known finding C13-2
	g.allowUnbond = true
	g.allowReadd = idx%2 == 0
	g.slashVals = idx%4 >= 1 // three quarters of the histories contain staking slashes of validators
	g.jails = idx%3 == 0     // a third of them validators that are jailed / leave the bonded set / come back
	for m := 0; m < 2; m++ {
		for a := 0; a < nOracles; a++ {
			g.diligent[m][a] = r.Chance(65)
		}
		g.nextBatch[m] = 1
	}
	return g
}

func (g *gen) flavour() string {
	return fmt.Sprintf("unbond-trigger=%v,readd-trigger=%v", g.allowUnbond, g.allowReadd)
}

func (g *gen) view(m int) *View { return g.run_.pre[m] }

func bigAdd(x *big.Int, d int64) string { return new(big.Int).Add(x, big.NewInt(d)).String() }

func (g *gen) do(op Op) int {
	pre := g.view(op.M)
	cl := g.run_.do(op)
	if op.K == "block" {
		for m := 0; m < 2; m++ {
			for _, r := range g.run_.pre[m].Recs {
				if r.Slash > 0 {
					g.sawSlash = true
				}
			}
		}
		return cl
	}
	post := g.view(op.M)
	if cl == 0 {
		if r0 := pre.rec(op.A); r0 != nil && r0.Slash > 0 && (op.K == "add" || op.K == "unbond") {
			g.run_.rep.Count("penalty-paid-at-" + op.K)
		}
		if op.K == "bond" && g.everUnbonded[op.M][op.A] {
			g.run_.rep.Count("re-bond-after-unbond")
		}
		if op.K == "unbond" {
			g.everUnbonded[op.M][op.A] = true
		}
	}
	if op.K == "gov" && cl == 0 {
		for _, r := range pre.Recs {
			if r.A >= 0 && r.A < nOracles && pre.inProp(r.A) && !hasInt(op.L, r.A) {
				g.govRemoved[op.M][r.A] = true
				g.sawRemoval = true
			}
		}
	}
	if op.K == "unbond" && cl == 0 {
		g.govRemoved[op.M][op.A] = false
	}
	_ = post
	return cl
}

func (g *gen) pickParams(first bool) []string {
	r := g.r
	thr := fx(10000)
	switch r.Intn(6) {
	case 0:
		thr = fx(100)
	case 1:
		thr = "12345678901234567890123"
	}
	mul := []string{"10", "10", "2", "1", "3"}[r.Intn(5)]
	frac := []string{"800000000000000000", "800000000000000000", "100000000000000000", "0", "1000000000000000000", "333333333333333333", "1"}[r.Intn(7)]
	win := []string{"2", "2", "2", "3", "4"}[r.Intn(5)]
	if !first && r.Chance(15) {
		win = "1" // rejected by ValidateBasic
	}
	return []string{thr, mul, frac, win}
}

func (g *gen) run() {
	r := g.r
	// funding: enough for several maximal bonds, one oracle is poor
	for m := 0; m < 2; m++ {
		for a := 0; a < nOracles; a++ {
			amt := fx(400000)
			if a == nOracles-1 {
				amt = fx(int64(5000 + r.Intn(8000)))
			}
			g.do(Op{K: "fund", M: m, A: a, Amt: amt})
		}
		g.do(Op{K: "params", M: m, P: g.pickParams(true)})
		// initial governance list: 5..7 oracles
		l := r.Perm(nOracles)[:6+r.Intn(2)]
		g.do(Op{K: "gov", M: m, L: l})
		// most of them bond right away
		for _, a := range l {
			if r.Chance(90) {
				g.do(g.bondOp(m, a))
			}
		}
	}
	g.block(1)
	nOps := 34 + r.Intn(14)
	for i := 0; i < nOps; i++ {
		m := r.Intn(2)
		if g.slashVals && r.Chance(4) {
			// the staking module slashes a validator (double sign 5 %, downtime 0.01 %, or something drastic)
			frac := []string{"50000000000000000", "100000000000000", "500000000000000000", "10000000000000000", "333333333333333333"}[r.Intn(5)]
			// (not below 1000 FX: a validator with no power leaves the bonded set, which the model does not cover)
			if v := r.Intn(3); g.view(m).Vals[v][1].Cmp(bigOf(fx(2000))) >= 0 {
				g.do(Op{K: "slashval", M: m, V: v, Amt: frac})
				g.run_.rep.Count("validator-slashed-by-staking")
			}
		}
		if g.slashVals && r.Chance(3) {
			// ... or for an infraction one to three blocks back: unbonding entries and redelegations created since are cut
			frac := []string{"50000000000000000", "100000000000000", "500000000000000000", "333333333333333333"}[r.Intn(4)]
			if v := r.Intn(3); g.view(m).Vals[v][1].Cmp(bigOf(fx(2000))) >= 0 {
				g.do(Op{K: "slashpast", V: v, Amt: frac, N: int64(1 + r.Intn(3))})
				g.run_.rep.Count("validator-slashed-for-past-infraction")
			}
		}
		if g.jails && r.Chance(4) {
			// a validator is jailed and leaves the bonded set, or is unjailed and returns
			g.do(Op{K: []string{"jail", "unjail", "unjail"}[r.Intn(3)], V: r.Intn(3)})
			g.run_.rep.Count("validator-jail-or-unjail")
		}
		switch k := r.Intn(100); {
		case k < 8:
			g.do(g.bondOp(m, r.Intn(nOracles)))
		case k < 18:
			g.addOp(m)
		case k < 25:
			a := g.someRecorded(m)
			v := r.Intn(3)
			if r.Chance(8) {
				v = badVal
			}
			g.do(Op{K: "redel", M: m, A: a, V: v})
		case k < 32:
			g.editOp(m)
		case k < 39:
			g.do(Op{K: "withdraw", M: m, A: g.someRecorded(m)})
		case k < 52:
			g.govOp(m)
		case k < 58:
			g.unbondOp(m)
		case k < 61:
			g.randomConfirm(m)
		case k < 62:
			if ss := g.view(m).Sets; len(ss) > 0 {
				g.do(Op{K: "observeset", M: m, N: ss[len(ss)-1-r.Intn((len(ss)+1)/2)].N})
				g.run_.rep.Count("oracle-set-observed")
			}
		case k < 66:
			g.do(Op{K: "addbatch", M: m})
		case k < 69:
			// the oldest or a random live batch is executed on the external chain
			if bs := g.view(m).Batches; len(bs) > 0 {
				g.do(Op{K: "execbatch", M: m, N: bs[r.Intn(len(bs))].N})
			}
		case k < 70 && r.Chance(50):
			// the external chain adopts one of the stored oracle sets (pruning of older ones becomes possible)
			if ss := g.view(m).Sets; len(ss) > 0 {
				g.do(Op{K: "observeset", M: m, N: ss[len(ss)-1-r.Intn((len(ss)+1)/2)].N})
				g.run_.rep.Count("oracle-set-observed")
			}
		case k < 70:
			g.do(Op{K: "exportimport", M: m})
			g.run_.rep.Count("genesis-export-import")
		case k < 71:
			g.do(Op{K: "params", M: m, P: g.pickParams(false)})
		case k < 75 && g.calls:
			if g.nCalls[m] > 0 && r.Chance(15) {
				g.do(Op{K: "delcall", M: m, N: 1 + int64(r.Intn(int(g.nCalls[m])))})
			} else {
				g.do(Op{K: "addcall", M: m})
				g.nCalls[m]++
			}
		case k < 76:
			g.do(Op{K: "fund", M: m, A: r.Intn(nOracles), Amt: fx(int64(1 + r.Intn(50000)))})
		case k < 80:
			// let the unbonding period pass
			g.blockDt(g.run_.w.ubtime + int64(r.Intn(3))*5 - 5)
			g.sawMature = true
		case k < 83:
			g.supersede(m)
		default:
			g.block(1 + r.Intn(3))
		}
	}
	// epilogue: time passes, whoever was removed tries to get its stake out (if this flavour allows the trigger)
	g.blockDt(g.run_.w.ubtime + 10)
	g.block(1)
	for m := 0; m < 2; m++ {
		for a := 0; a < nOracles; a++ {
			if g.allowUnbond && g.govRemoved[m][a] {
				ok := g.do(Op{K: "unbond", M: m, A: a}) == 0
				g.do(Op{K: "unbond", M: m, A: a})
				if ok && r.Chance(50) {
					// come back: approved again, bond again with the same or a spare external key
					g.do(Op{K: "gov", M: m, L: append(append([]int{}, g.view(m).Prop...), a)})
					g.do(g.bondOp(m, a))
				}
			}
		}
	}
	g.block(1)
}

// supersede: two oracle sets alive at once and the newer one adopted by the external chain.  An online oracle raises its
// stake to the maximum (power change: the end blocker requests a new oracle set inside the signed window of the latest
// one), the diligent oracles confirm both, the newest stored set is observed through the real claim path
// (LastObservedOracleSet above the older ones) and the end blocker runs block by block across height+window and
// height+window+1 of the older sets (slashing, then pruning).  The monitor keeps its own record of accepted confirms.
func (g *gen) supersede(m int) {
	// two power changes in consecutive blocks (two different online oracles raise their stake to the maximum): oracle
	// set N at height h, oracle set N+1 at h+1, both inside each other's window whatever the window (2..4)
	raised := 0
	used := map[int]bool{}
	for round := 0; round < 2; round++ {
		v := g.view(m)
		max := new(big.Int).Mul(v.Threshold, big.NewInt(v.Multiple))
		for _, c := range v.Recs {
			if c.Online && c.A >= 0 && c.A < nOracles && !used[c.A] && v.inProp(c.A) && !g.govRemoved[m][c.A] && max.Cmp(c.Amount) > 0 {
				used[c.A] = true
				if g.do(Op{K: "add", M: m, A: c.A, Amt: new(big.Int).Sub(max, c.Amount).String()}) == 0 {
					raised++
				}
				break
			}
		}
		g.block(1)
	}
	v := g.view(m)
	if len(v.Sets) == 0 {
		return
	}
	if g.do(Op{K: "observeset", M: m, N: v.Sets[len(v.Sets)-1].N}) == 0 && raised > 0 && len(v.Sets) > 1 {
		g.run_.rep.Count("oracle-set-superseded-and-observed")
	}
	g.block(int(v.Window) + 2)
}

// editOp: MsgEditBridger by a (preferably online) oracle; the new bridger is, with real probability each, the
// bridger of an OFFLINE oracle (slashed, or removed by governance and not yet withdrawn), of an online oracle, its
// own, another oracle's ADDRESS, an account that is nobody's bridger, or any account.  An accepted edit that took
// over somebody's bridger is followed by that oracle re-joining or withdrawing, so index damage shows in the store.
func (g *gen) editOp(m int) {
	r := g.r
	v := g.view(m)
	a := g.someRecorded(m)
	var online, offline []oracleRec
	for _, rec := range v.Recs {
		if rec.Online {
			online = append(online, rec)
		} else {
			offline = append(offline, rec)
		}
	}
	if len(online) > 0 && r.Chance(85) {
		a = online[r.Intn(len(online))].A
	}
	b := 100 + r.Intn(nBridgers)
	victim := -1
	switch k := r.Intn(100); {
	case k < 30 && len(offline) > 0:
		o := offline[r.Intn(len(offline))]
		b, victim = o.B, o.A
	case k < 45 && len(online) > 0:
		o := online[r.Intn(len(online))]
		b, victim = o.B, o.A
	case k < 52:
		if rec := v.rec(a); rec != nil {
			b = rec.B
		}
	case k < 64:
		b = r.Intn(nOracles) // an oracle ADDRESS as bridger
	case k < 82:
		for _, c := range r.Perm(nBridgers) { // an account that is nobody's bridger
			free := true
			for _, p := range v.ByB {
				if p[0] == 100+c {
					free = false
				}
			}
			if free {
				b = 100 + c
				break
			}
		}
	}
	if b < 0 || b == a {
		return
	}
	if g.do(Op{K: "edit", M: m, A: a, B: b}) != 0 || victim < 0 || victim == a {
		return
	}
	// the bridger of another oracle was taken over (cannot happen on a correct tree): let that oracle come back or leave
	g.run_.rep.Count("edit-took-over-a-bound-bridger")
	if r.Chance(50) {
		g.do(Op{K: "gov", M: m, L: append(append([]int{}, g.view(m).Prop...), victim)})
		g.do(Op{K: "add", M: m, A: victim, Amt: fx(10000)})
	} else {
		g.do(Op{K: "unbond", M: m, A: victim})
	}
	g.block(1)
}

func (g *gen) someRecorded(m int) int {
	v := g.view(m)
	if len(v.Recs) > 0 && g.r.Chance(85) {
		return v.Recs[g.r.Intn(len(v.Recs))].A
	}
	return g.r.Intn(nOracles)
}

func (g *gen) bondOp(m, a int) Op {
	r := g.r
	v := g.view(m)
	b, e := 100+a, 200+a
	switch r.Intn(12) {
	case 0:
		b = 100 + r.Intn(nBridgers)
	case 1:
		b = (a + 1 + r.Intn(nOracles-1)) % nOracles // another oracle's account
	case 2:
		e = 200 + r.Intn(nExts)
	case 3:
		e = 200 + nOracles + r.Intn(nExts-nOracles) // a spare external key
	}
	max := new(big.Int).Mul(v.Threshold, big.NewInt(v.Multiple))
	var amt string
	switch r.Intn(9) {
	case 0:
		amt = v.Threshold.String()
	case 1:
		amt = bigAdd(v.Threshold, -1)
	case 2:
		amt = max.String()
	case 3:
		amt = bigAdd(max, 1)
	case 4:
		amt = "0"
	case 5:
		amt = bigAdd(v.BalO[a], 1) // more than the account holds
	default:
		span := new(big.Int).Sub(max, v.Threshold)
		off := new(big.Int).Rand(r.Rand, new(big.Int).Add(span, big.NewInt(1)))
		amt = new(big.Int).Add(v.Threshold, off).String()
	}
	val := r.Intn(3)
	if r.Chance(5) {
		val = badVal
	}
	return Op{K: "bond", M: m, A: a, B: b, E: e, V: val, Amt: amt}
}

func (g *gen) addOp(m int) {
	r := g.r
	v := g.view(m)
	a := g.someRecorded(m)
	if r.Chance(50) {
		for _, c := range v.Recs {
			if !c.Online && c.A >= 0 && c.A < nOracles && v.inProp(c.A) {
				a = c.A
			}
		}
	}
	rec := v.rec(a)
	if rec != nil && g.govRemoved[m][a] && !g.allowReadd {
		return
	}
	amt := fx(int64(1 + r.Intn(20000)))
	if rec != nil {
		pen := penalty(rec, v.Fraction)
		max := new(big.Int).Mul(v.Threshold, big.NewInt(v.Multiple))
		room := new(big.Int).Sub(max, rec.Amount)
		switch r.Intn(12) {
		case 7, 8, 9, 10:
			// valid: penalty + something that fits under the maximum
			if room.Sign() > 0 {
				amt = new(big.Int).Add(pen, new(big.Int).Rand(r.Rand, new(big.Int).Add(room, big.NewInt(1)))).String()
			}
		case 0:
			amt = "1"
		case 1:
			amt = pen.String()
		case 2:
			amt = bigAdd(pen, -1)
		case 3:
			amt = bigAdd(pen, 1)
		case 4:
			amt = new(big.Int).Add(pen, room).String()
		case 5:
			amt = bigAdd(new(big.Int).Add(pen, room), 1)
		case 6:
			amt = "0"
		}
		if bigOf(amt).Sign() < 0 {
			amt = "0"
		}
	}
	g.do(Op{K: "add", M: m, A: a, Amt: amt})
}

func (g *gen) govOp(m int) {
	r := g.r
	v := g.view(m)
	cur := append([]int{}, v.Prop...)
	var l []int
	switch r.Intn(12) {
	case 0, 1, 2, 3, 10, 11: // remove one (preferably one that has a record)
		if len(cur) > 1 {
			i := r.Intn(len(cur))
			for k := 0; k < 3 && v.rec(cur[i]) == nil; k++ {
				i = r.Intn(len(cur))
			}
			l = append(append([]int{}, cur[:i]...), cur[i+1:]...)
		} else {
			l = cur
		}
	case 4, 5, 6: // add one
		l = cur
		a := r.Intn(nOracles)
		if !hasInt(l, a) {
			l = append(l, a)
		}
	case 7: // random subset
		l = r.Perm(nOracles)[:1+r.Intn(nOracles)]
	case 8: // everybody
		l = r.Perm(nOracles)
	default: // malformed: empty or duplicate
		if r.Chance(50) && len(cur) > 0 {
			l = append(append([]int{}, cur...), cur[0])
		}
	}
	before := g.govRemoved[m]
	if g.do(Op{K: "gov", M: m, L: l}) != 0 {
		return
	}
	for a := 0; a < nOracles; a++ {
		if g.govRemoved[m][a] && !before[a] {
			g.run_.rep.Count("gov-removal-of-recorded-oracle")
			if g.allowUnbond && r.Chance(50) {
				// withdraw right away (before maturity), then perhaps come back: approved again, bond again
				if r.Chance(50) {
					g.block(1)
				}
				if g.do(Op{K: "unbond", M: m, A: a}) == 0 && r.Chance(60) {
					g.do(Op{K: "gov", M: m, L: append(append([]int{}, g.view(m).Prop...), a)})
					g.do(g.bondOp(m, a))
				}
			}
		}
	}
}

func (g *gen) unbondOp(m int) {
	a := g.someRecorded(m)
	if g.allowUnbond && g.r.Chance(60) {
		for _, c := range g.r.Perm(nOracles) {
			if g.govRemoved[m][c] {
				a = c
				break
			}
		}
	}
	if g.govRemoved[m][a] && !g.allowUnbond {
		return
	}
	g.do(Op{K: "unbond", M: m, A: a})
}

func (g *gen) randomConfirm(m int) {
	r := g.r
	v := g.view(m)
	a := g.someRecorded(m)
	rec := v.rec(a)
	b, e := 100+a, 200+a
	if rec != nil {
		b, e = rec.B, rec.E
	}
	op := Op{K: "confirm", M: m, Obj: "set", B: b, E: e, N: int64(1 + r.Intn(len(v.Sets)+2))}
	if r.Chance(40) && len(v.Batches) > 0 {
		op.Obj, op.N = "batch", v.Batches[r.Intn(len(v.Batches))].N
	} else if r.Chance(30) && len(v.Calls) > 0 {
		op.Obj, op.N = "call", v.Calls[r.Intn(len(v.Calls))].N
	}
	switch r.Intn(6) {
	case 0:
		op.Sig = 1
	case 1:
		op.B = 100 + r.Intn(nBridgers)
	case 2:
		op.E = 200 + r.Intn(nExts)
	}
	if op.B < 0 || op.E < 0 {
		return
	}
	g.do(op)
}

// diligent oracles sign every oracle set / batch they have not signed yet
func (g *gen) confirms() {
	for m := 0; m < 2; m++ {
		v := g.view(m)
		for _, rec := range v.Recs {
			if rec.A < 0 || rec.A >= nOracles || !g.diligent[m][rec.A] || rec.B < 0 || rec.E < 0 {
				continue
			}
			for _, s := range v.Sets {
				// what the property expects of a diligent oracle: every set created since it joined
				// (now and then also an older one)
				if s.H < rec.Start && !g.r.Chance(10) {
					continue
				}
				if s.N > v.SlashedSet && !hasInt(s.Conf, rec.E) && !g.r.Chance(3) {
					g.do(Op{K: "confirm", M: m, Obj: "set", N: s.N, B: rec.B, E: rec.E})
				}
			}
			for _, s := range v.Batches {
				if s.H < rec.Start && !g.r.Chance(10) {
					continue
				}
				if s.H > v.SlashedBat && !hasInt(s.Conf, rec.E) && !g.r.Chance(3) {
					g.do(Op{K: "confirm", M: m, Obj: "batch", N: s.N, B: rec.B, E: rec.E})
				}
			}
			for _, s := range v.Calls {
				if s.H < rec.Start && !g.r.Chance(10) {
					continue
				}
				if s.N >= v.SlashedCall && !hasInt(s.Conf, rec.E) && !g.r.Chance(3) {
					g.do(Op{K: "confirm", M: m, Obj: "call", N: s.N, B: rec.B, E: rec.E})
				}
			}
		}
	}
}

func (g *gen) block(n int) {
	for i := 0; i < n; i++ {
		g.do(Op{K: "block"})
		g.confirms()
	}
}

func (g *gen) blockDt(dt int64) {
	g.do(Op{K: "block", Dt: dt})
	g.confirms()
}
