// probe (temporary): life cycle of an oracle on the real app
package main

import (
	"fmt"

	sdk "github.com/cosmos/cosmos-sdk/types"

	fxtypes "github.com/functionx/fx-core/v8/types"
	crosschaintypes "github.com/functionx/fx-core/v8/x/crosschain/types"

	"fxverif/lib"
)

func main() {
	c := lib.NewChain(1, 3, nil)
	fmt.Println("ctx height", c.Ctx.BlockHeight(), c.Ctx.BlockTime())
	must(c.NextBlock())
	fmt.Println("ctx height", c.Ctx.BlockHeight(), c.Ctx.BlockTime(), c.Height)
	x := c.X("eth")
	var os []*lib.Oracle
	for i := 0; i < 8; i++ {
		o := x.NewOracle(i)
		os = append(os, o)
		c.Mint(o.Oracle.Acc(), lib.FX(300000))
	}
	must(x.ProposeOracles(os))
	for i, o := range os {
		must(x.Bond(o, 10000, i))
	}
	sp, _ := c.App.StakingKeeper.GetParams(c.Ctx)
	fmt.Println("unbonding time", sp.UnbondingTime, "max entries", sp.MaxEntries)
	must(c.NextBlock())
	show := func(tag string, o *lib.Oracle) {
		ctx := c.Ctx
		rec, found := x.Keeper.GetOracle(ctx, o.Oracle.Acc())
		tmp := crosschaintypes.Oracle{OracleAddress: o.Oracle.Acc().String()}
		da := tmp.GetDelegateAddress("eth")
		fmt.Printf("%s: found=%v online=%v amt=%s slash=%d start=%d | bal_o=%s bal_d=%s", tag, found, rec.Online, rec.DelegateAmount, rec.SlashTimes, rec.StartHeight,
			c.App.BankKeeper.GetBalance(ctx, o.Oracle.Acc(), fxtypes.DefaultDenom).Amount, c.App.BankKeeper.GetBalance(ctx, da, fxtypes.DefaultDenom).Amount)
		dels, _ := c.App.StakingKeeper.GetAllDelegatorDelegations(ctx, da)
		for _, d := range dels {
			fmt.Printf(" del[%s]=%s", d.ValidatorAddress[len(d.ValidatorAddress)-4:], d.Shares)
		}
		ubds, _ := c.App.StakingKeeper.GetAllUnbondingDelegations(ctx, da)
		for _, u := range ubds {
			for _, e := range u.Entries {
				fmt.Printf(" ubd[%s]=%s@%s", u.ValidatorAddress[len(u.ValidatorAddress)-4:], e.Balance, e.CompletionTime.Format("01-02T15:04"))
			}
		}
		fmt.Println(" power", x.Keeper.GetLastTotalPower(ctx))
	}
	show("bonded", os[0])
	// governance removes oracle 0
	err := c.Try(func(ctx sdk.Context) error {
		_, err := x.Msg().UpdateChainOracles(ctx, &crosschaintypes.MsgUpdateChainOracles{ChainName: "eth", Authority: lib.GovAuthority(), Oracles: addrs(os[1:])})
		return err
	})
	fmt.Println("gov remove:", err)
	show("removed", os[0])
	unbond := func(o *lib.Oracle) error {
		return c.Try(func(ctx sdk.Context) error {
			_, err := x.Msg().UnbondedOracle(ctx, &crosschaintypes.MsgUnbondedOracle{ChainName: "eth", OracleAddress: o.Oracle.Acc().String()})
			return err
		})
	}
	must(c.NextBlock())
	// scenario A: wait for maturity then unbond (oracle 0)
	must(c.NextBlockAfter(sp.UnbondingTime + lib.BlockStep))
	must(c.NextBlock())
	show("matured", os[0])
	fmt.Println("unbond after maturity:", unbond(os[0]))
	show("after-unbond-attempt", os[0])

	// scenario B: oracle 1 removed, unbond BEFORE maturity
	err = c.Try(func(ctx sdk.Context) error {
		_, err := x.Msg().UpdateChainOracles(ctx, &crosschaintypes.MsgUpdateChainOracles{ChainName: "eth", Authority: lib.GovAuthority(), Oracles: addrs(os[2:])})
		return err
	})
	fmt.Println("gov remove 1:", err)
	must(c.NextBlock())
	show("B removed", os[1])
	fmt.Println("unbond before maturity:", unbond(os[1]))
	show("B unbonded", os[1])
	fmt.Println("second unbond:", unbond(os[1]))
	must(c.NextBlockAfter(sp.UnbondingTime + lib.BlockStep))
	must(c.NextBlock())
	show("B matured", os[1])

	// scenario C: oracle 2 removed, re-added, add-delegate 1 afx
	err = c.Try(func(ctx sdk.Context) error {
		_, err := x.Msg().UpdateChainOracles(ctx, &crosschaintypes.MsgUpdateChainOracles{ChainName: "eth", Authority: lib.GovAuthority(), Oracles: addrs(os[3:])})
		return err
	})
	fmt.Println("gov remove 2:", err)
	show("C removed", os[2])
	err = c.Try(func(ctx sdk.Context) error {
		_, err := x.Msg().UpdateChainOracles(ctx, &crosschaintypes.MsgUpdateChainOracles{ChainName: "eth", Authority: lib.GovAuthority(), Oracles: addrs(os[2:])})
		return err
	})
	fmt.Println("gov re-add 2:", err)
	err = c.Try(func(ctx sdk.Context) error {
		_, err := x.Msg().AddDelegate(ctx, &crosschaintypes.MsgAddDelegate{ChainName: "eth", OracleAddress: os[2].Oracle.Acc().String(), Amount: sdk.NewInt64Coin(fxtypes.DefaultDenom, 1)})
		return err
	})
	fmt.Println("add-delegate 1afx:", err)
	show("C re-online", os[2])
	must(c.NextBlockAfter(sp.UnbondingTime + lib.BlockStep))
	must(c.NextBlock())
	err = c.Try(func(ctx sdk.Context) error {
		_, err := x.Msg().WithdrawReward(ctx, &crosschaintypes.MsgWithdrawReward{ChainName: "eth", OracleAddress: os[2].Oracle.Acc().String()})
		return err
	})
	fmt.Println("withdraw:", err)
	show("C withdrawn", os[2])
}

func addrs(os []*lib.Oracle) []string {
	var r []string
	for _, o := range os {
		r = append(r, o.Oracle.Acc().String())
	}
	return r
}

func must(err error) {
	if err != nil {
		panic(err)
	}
}
