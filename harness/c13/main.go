// c13: correspondence + monitor for the oracle registry (bond / add-delegate / re-delegate /
// edit-bridger / withdraw-reward / governance list / slashing in the real end blocker / unbond).
//
// Every history runs on the REAL application (lib.NewChain: full fx-core app, real staking, bank,
// distribution, two crosschain modules side by side), all messages through the real MsgServer.
// After every operation the projection (records, both reverse indexes from raw store dumps,
// proposal list, last total power, real delegations / unbonding entries / balances of the delegate
// addresses and oracle accounts, oracle sets + confirms, slash cursors) is written next to the
// operation into Cases_C13.v, where coqc replays the history in model.M_OracleReg and compares.
// The monitor (monitor.go) evaluates the property text on the same real observables.
package main

import (
	"encoding/json"
	"fmt"
	"math/big"
	"os"
	"path/filepath"
	"sort"
	"strings"

	"fxverif/lib"
)

var secondModules = []string{"bsc", "tron", "polygon", "avalanche"}

type runner struct {
	w     *world
	hist  History
	rep   *lib.Report
	pre   []*View
	fails map[string]bool
	// monitor bookkeeping per module and oracle: removed by governance since it bonded / add-delegate accepted after that
	removed []map[int]bool
	readded []map[int]bool
	joined  []map[int]int64
	redel   []map[int]bool
	book    []map[int]*stakeBook
	conf    []map[string]bool // the monitor's own record of accepted confirms: "kind/nonce/ext"
}

func newRunner(seed int64, modules []string, rep *lib.Report) *runner {
	r := &runner{w: newWorld(seed, modules), rep: rep, fails: map[string]bool{}}
	r.hist = History{Seed: seed, Modules: modules}
	for _, m := range r.w.mods {
		v := m.view()
		r.pre = append(r.pre, v)
		r.removed = append(r.removed, map[int]bool{})
		r.readded = append(r.readded, map[int]bool{})
		r.joined = append(r.joined, map[int]int64{})
		r.redel = append(r.redel, map[int]bool{})
		r.book = append(r.book, map[int]*stakeBook{})
		r.conf = append(r.conf, map[string]bool{})
		m.view0 = v.coq()
		m.vals0 = coqDeleg(v.Vals)
		m.initArg = fmt.Sprintf("%d %d %d %s %d %s %d", v.Height, int64(r.w.c.Ctx.BlockTime().Sub(lib.GenesisTime).Seconds()),
			r.w.ubtime, v.Threshold, v.Multiple, v.Fraction, v.Window)
	}
	return r
}

// do executes one operation, records the model step(s) and runs the monitor.
func (r *runner) do(op Op) (class int) {
	r.hist.Ops = append(r.hist.Ops, op)
	var valsBefore [][3]*big.Int
	if op.K == "slashval" {
		valsBefore = r.w.mods[0].view().Vals
	}
	res := r.w.apply(op)
	if op.K == "slashval" && op.V >= 0 && op.V < len(valsBefore) {
		// the validators are shared by the modules: scale the booked stake of every oracle delegating to V
		after := r.w.mods[0].view().Vals
		t0, t1 := valsBefore[op.V][1], after[op.V][1]
		for mi := range r.w.mods {
			for _, rec := range r.pre[mi].Recs {
				if b := r.book[mi][rec.A]; b != nil && rec.V == op.V && t0.Sign() > 0 && t1.Cmp(t0) != 0 {
					e := new(big.Int).Quo(new(big.Int).Mul(b.expected, t1), t0)
					b.losses.Add(b.losses, new(big.Int).Sub(b.expected, e))
					b.expected = e
					b.events++
				}
			}
		}
	}
	for _, a := range res {
		m := r.w.mods[a.mod]
		post := m.view()
		if op.K == "slashpast" {
			// a staking-side cut of redelegated stake: booked as a loss, like the validator's own slash
			for _, rec := range post.Recs {
				if b := r.book[a.mod][rec.A]; b != nil {
					if d0, d1 := r.pre[a.mod].delegated(rec.A), post.delegated(rec.A); d1.Cmp(d0) < 0 {
						b.losses.Add(b.losses, new(big.Int).Sub(d0, d1))
						b.expected.Sub(b.expected, new(big.Int).Sub(d0, d1))
						b.events++
					}
				}
			}
		}
		m.steps = append(m.steps, fmt.Sprintf("(%s, %d, %s)", a.coqOp, a.class, post.deltas(r.pre[a.mod])))
		m.nsteps++
		r.rep.Count("op=" + op.K + fmt.Sprintf("/class=%d", a.class))
		if os.Getenv("C13_DEBUG") != "" && a.class != 0 {
			e := a.err
			if i := strings.Index(e, ":"); i > 0 && len(e) > 60 {
				e = e[:60]
			}
			r.rep.Count("err/" + op.K + "/" + e)
		}
		if a.class == 0 {
			pre := r.pre[a.mod]
			switch op.K {
			case "gov":
				for _, rec := range pre.Recs {
					if pre.inProp(rec.A) && !hasInt(op.L, rec.A) {
						r.removed[a.mod][rec.A] = true
						if b := r.book[a.mod][rec.A]; b != nil {
							b.expected = big.NewInt(0)
						}
					}
				}
			case "bond":
				r.removed[a.mod][op.A], r.readded[a.mod][op.A] = false, false
				r.joined[a.mod][op.A] = pre.Height
				r.book[a.mod][op.A] = &stakeBook{expected: bigOf(op.Amt), losses: big.NewInt(0)}
				if !pre.rateOne(op.V) {
					r.book[a.mod][op.A].events = 1
				}
			case "add":
				if r.removed[a.mod][op.A] {
					r.readded[a.mod][op.A] = true
				}
				if r0 := pre.rec(op.A); r0 != nil && !r0.Online {
					r.joined[a.mod][op.A] = pre.Height
				}
				if r0, b := pre.rec(op.A), r.book[a.mod][op.A]; r0 != nil && b != nil {
					b.expected.Add(b.expected, new(big.Int).Sub(bigOf(op.Amt), penalty(r0, pre.Fraction)))
					if !pre.rateOne(r0.V) {
						b.events++
					}
				}
			case "redel":
				if b := r.book[a.mod][op.A]; b != nil && (!pre.rateOne(op.V) || !pre.rateOne(pre.rec(op.A).V)) {
					b.events++
				}
			case "unbond":
				delete(r.book[a.mod], op.A)
			case "confirm":
				r.conf[a.mod][fmt.Sprintf("%s/%d/%d", op.Obj, op.N, op.E)] = true
			}
		}
		var vio []violation
		vio = append(vio, checkStep(op, a.class, r.pre[a.mod], post, r.joined[a.mod], r.redel[a.mod], func(kind string, nonce int64, ext int) bool {
			return r.conf[a.mod][fmt.Sprintf("%s/%d/%d", kind, nonce, ext)]
		})...)
		vio = append(vio, checkState(post, r.readded[a.mod], r.book[a.mod])...)
		for _, v := range vio {
			key := fmt.Sprintf("%s/%d/%s", v.sig, a.mod, strings.SplitN(v.what, ":", 2)[0])
			if r.fails[key] {
				continue
			}
			r.fails[key] = true
			h := r.hist
			h.Ops = append([]Op{}, r.hist.Ops...)
			r.rep.Fail(lib.Failure{Kind: "monitor", What: fmt.Sprintf("[%s] %s", m.name, v.what), Sig: v.sig, Replay: h})
		}
		if op.K == "redel" && a.class == 0 {
			r.redel[a.mod][op.A] = true
		}
		r.pre[a.mod] = post
		class = a.class
	}
	if op.K == "block" {
		for _, st := range r.w.statusSteps() {
			for _, m := range r.w.mods {
				m.steps = append(m.steps, st)
			}
		}
	}
	if op.K != "block" && op.K != "slashval" && len(res) == 1 {
		// the validators are shared: what this operation did to them is an environment step for the other modules
		cur := r.pre[res[0].mod].Vals
		for o, m := range r.w.mods {
			if o == res[0].mod {
				continue
			}
			for i := range cur {
				if cur[i][1].Cmp(r.pre[o].Vals[i][1]) != 0 || cur[i][2].Cmp(r.pre[o].Vals[i][2]) != 0 {
					m.steps = append(m.steps, fmt.Sprintf("(EnvVal %d %s %s, 0, [DVal (%d, %s, %s)])", i, cur[i][1], cur[i][2], i, cur[i][1], cur[i][2]))
				}
			}
			r.pre[o].Vals = cur
		}
	}
	return class
}

func (r *runner) coqCases() []string {
	var out []string
	accs := []string{}
	orcs := []string{}
	exts := []string{}
	for a := 0; a < nOracles; a++ {
		accs = append(accs, fmt.Sprint(a))
		orcs = append(orcs, fmt.Sprint(a))
	}
	for b := 0; b < nBridgers; b++ {
		accs = append(accs, fmt.Sprint(100+b))
	}
	for e := 0; e < nExts; e++ {
		exts = append(exts, fmt.Sprint(200+e))
	}
	for _, m := range r.w.mods {
		// mk_orc_case accs orcs exts vals h t ub thr mul frac win view0 steps
		out = append(out, fmt.Sprintf("mk_orc_case %s %s %s %s %s\n    %s\n    [%s]", lib.List(accs), lib.List(orcs), lib.List(exts), m.vals0,
			m.initArg, m.view0, strings.Join(m.steps, ";\n     ")))
	}
	return out
}

func fx(n int64) string { return new(big.Int).Mul(big.NewInt(n), big.NewInt(1e18)).String() }

func main() {
	seed := lib.Seed()
	rep := lib.NewReport("C13")
	rep.Rule = "histories of fund/bond/add-delegate/re-delegate/edit-bridger/withdraw-reward/governance-list/params/confirm/batch/unbond and real blocks " +
		"(signed window 2..4, block time jumps past the unbonding period) on two crosschain modules of one real chain; amounts at threshold, threshold*multiple +-1, " +
		"penalty +-1; non-trivial = history in which an oracle was slashed by the real end blocker or removed by governance; distinct by operation list"
	mode := os.Getenv("VERIF_MODE")
	if mode == "replay" {
		replay(rep)
		return
	}
	n := 24
	if lib.Tier() == "thorough" {
		n = 250
	}
	if mode == "search" {
		n = 150
	}
	if v := lib.EnvInt("VERIF_N", 0); v > 0 {
		n = int(v)
	}
	var items []string
	// corpus first: the recorded life cycles (corpus/C13/*.json — the replays of findings C13-1 (fixed in /repo)
	// and C13-2 (known); they are the witnesses of the *_refuted / life-cycle theorems run on the real app).
	// C13_WRITE_CORPUS=1 rewrites the files from scripted().
	corpusDir := filepath.Join("..", "corpus", "C13")
	if os.Getenv("C13_WRITE_CORPUS") != "" {
		lib.Must(os.MkdirAll(corpusDir, 0o755))
		for i, sc := range scripted() {
			b, _ := json.MarshalIndent(History{Seed: 1000 + int64(i), Modules: []string{"eth", "bsc"}, Ops: sc}, "", " ")
			name := []string{"A-C13-1-withdraw-after-maturity", "B-C13-1-withdraw-before-maturity", "C-C13-2-add-delegate-after-removal",
				"D-validator-slashed-then-redelegate-removal-withdraw", "E-two-live-batches-older-executed",
				"F-export-import-with-offline-oracles", "H-edit-bridger-to-offline-oracles-bridger", "I-power-cap-boundary", "J-C13-3-penalty-exceeds-what-staking-left", "K-jail-redelegate-past-infraction-slash",
				"L-two-live-oracle-sets-newer-observed"}[i]
			lib.Must(os.WriteFile(filepath.Join(corpusDir, name+".json"), b, 0o644))
		}
	}
	var corpus []History
	if files, _ := filepath.Glob(filepath.Join(corpusDir, "*.json")); len(files) > 0 {
		sort.Strings(files)
		for _, f := range files {
			raw, err := os.ReadFile(f)
			lib.Must(err)
			var h History
			lib.Must(json.Unmarshal(raw, &h))
			corpus = append(corpus, h)
		}
	} else {
		for i, sc := range scripted() {
			corpus = append(corpus, History{Seed: 1000 + int64(i), Modules: []string{"eth", "bsc"}, Ops: sc})
		}
	}
	for i, h := range corpus {
		r := newRunner(h.Seed, h.Modules, rep)
		for _, op := range h.Ops {
			r.do(op)
		}
		rep.Case(fmt.Sprintf("corpus-%d", i), true)
		rep.Count("corpus-history")
		items = append(items, r.coqCases()...)
	}
	callsOK := bridgeCallLoopSafe()
	if !callsOK {
		rep.Notes = append(rep.Notes, "bridgeCallSlashing panics in the end blocker (property C07): the random histories create no outgoing bridge calls")
	}
	rng := lib.NewRand(seed)
	for i := 0; i < n; i++ {
		hseed := rng.Int63()
		mods := []string{"eth", secondModules[i%len(secondModules)]}
		r := newRunner(hseed, mods, rep)
		g := newGen(lib.NewRand(hseed), r, i)
		g.calls = callsOK
		g.run()
		key, _ := json.Marshal(r.hist.Ops)
		rep.Case(string(key), g.sawSlash || g.sawRemoval)
		rep.Count(fmt.Sprintf("flavour=%s", g.flavour()))
		if g.sawSlash {
			rep.Count("history-with-real-slash")
		}
		if g.sawMature {
			rep.Count("history-with-matured-unbonding")
		}
		if i < 2 {
			rep.Sample(r.hist)
		}
		items = append(items, r.coqCases()...)
	}
	lib.WriteCases("Cases_C13.v", []string{"model.M_OracleReg", "model.M_OracleRegCorr"}, "orc_case", items, "orc_mismatch")
	rep.Write()
}

// bridgeCallLoopSafe: on a throw-away chain, does the end blocker survive the signed window elapsing over an
// unconfirmed outgoing bridge call?  (It panicked before the C07 fix; C13's histories then avoid bridge calls.)
func bridgeCallLoopSafe() bool {
	r := newRunner(4242, []string{"eth"}, lib.NewReport("probe"))
	ops := []Op{{K: "fund", A: 0, Amt: fx(300000)}, {K: "params", P: []string{fx(10000), "10", "800000000000000000", "2"}},
		{K: "gov", L: []int{0}}, {K: "bond", A: 0, B: 100, E: 200, V: 0, Amt: fx(10000)}, {K: "block"}, {K: "addcall"}}
	for _, op := range ops {
		r.w.apply(op)
	}
	for i := 0; i < 5; i++ {
		if res := r.w.apply(Op{K: "block"}); res[0].class == 2 {
			return false
		}
	}
	return true
}

func replay(rep *lib.Report) {
	raw, err := os.ReadFile(os.Getenv("VERIF_REPLAY"))
	lib.Must(err)
	var f struct {
		Replay History `json:"replay"`
	}
	lib.Must(json.Unmarshal(raw, &f))
	r := newRunner(f.Replay.Seed, f.Replay.Modules, rep)
	for i, op := range f.Replay.Ops {
		cl := r.do(op)
		b, _ := json.Marshal(op)
		fmt.Printf("%3d %s -> class %d\n", i+1, b, cl)
	}
	for _, fl := range rep.Failures {
		fmt.Println("MONITOR FAILURE:", fl.Sig, "-", fl.What)
	}
	lib.WriteCases("Cases_C13.v", []string{"model.M_OracleReg", "model.M_OracleRegCorr"}, "orc_case", r.coqCases(), "orc_mismatch")
	rep.Write()
	if len(rep.Failures) > 0 {
		os.Exit(1)
	}
}

// scripted: deterministic life cycles (module 0 = eth). 7 oracles bonded with 10000 FX each.
func scripted() [][]Op {
	setup := func() []Op {
		var ops []Op
		for a := 0; a < nOracles; a++ {
			ops = append(ops, Op{K: "fund", M: 0, A: a, Amt: fx(300000)})
		}
		ops = append(ops, Op{K: "params", M: 0, P: []string{fx(10000), "10", "800000000000000000", "2"}})
		ops = append(ops, Op{K: "gov", M: 0, L: []int{0, 1, 2, 3, 4, 5, 6}})
		for a := 0; a < nOracles; a++ {
			ops = append(ops, Op{K: "bond", M: 0, A: a, B: 100 + a, E: 200 + a, V: a % 3, Amt: fx(10000)})
		}
		ops = append(ops, Op{K: "block"})
		return ops
	}
	confirmAll := func(n int64, except int) []Op {
		var ops []Op
		for a := 0; a < nOracles; a++ {
			if a != except {
				ops = append(ops, Op{K: "confirm", M: 0, Obj: "set", N: n, B: 100 + a, E: 200 + a})
			}
		}
		return ops
	}
	const mature = 1814400 + 10
	// A: removed by governance, unbonding matures, then withdraws (before the C13-1 fix: refused for ever); second
	//    withdrawal refused
	a := setup()
	a = append(a, confirmAll(1, -1)...)
	a = append(a, Op{K: "gov", M: 0, L: []int{1, 2, 3, 4, 5, 6}}, Op{K: "block"})
	a = append(a, confirmAll(2, 0)...)
	a = append(a, Op{K: "unbond", M: 0, A: 1}) // still approved: correctly refused
	a = append(a, Op{K: "block", Dt: mature}, Op{K: "block"}, Op{K: "unbond", M: 0, A: 0}, Op{K: "block"}, Op{K: "unbond", M: 0, A: 0})
	// B: removed by governance, tries to withdraw BEFORE maturity (before the C13-1 fix: accepted, pays only the
	//    rewards, records deleted, the stake later matures into the keyless delegate address), then after it
	b := setup()
	b = append(b, confirmAll(1, -1)...)
	b = append(b, Op{K: "gov", M: 0, L: []int{1, 2, 3, 4, 5, 6}}, Op{K: "block"})
	b = append(b, confirmAll(2, 0)...)
	b = append(b, Op{K: "unbond", M: 0, A: 0}, Op{K: "unbond", M: 0, A: 0}, Op{K: "block", Dt: mature}, Op{K: "block"},
		Op{K: "unbond", M: 0, A: 0}, Op{K: "unbond", M: 0, A: 0})
	// C: removed, re-approved, add-delegate of one base unit: online again with the full recorded stake
	//    and a delegation of one base unit; the old stake comes back through withdraw-reward (C13-2).
	//    Oracle 3 does not sign oracle set 1 and is slashed by the real end blocker, pays the penalty.
	c := setup()
	c = append(c, confirmAll(1, 3)...)
	c = append(c, Op{K: "block"}, Op{K: "block"}, Op{K: "block"})
	c = append(c, confirmAll(2, 3)...)
	c = append(c, Op{K: "add", M: 0, A: 3, Amt: fx(8000)}, Op{K: "block"})
	c = append(c, Op{K: "gov", M: 0, L: []int{1, 2, 3, 4, 5, 6}}, Op{K: "gov", M: 0, L: []int{0, 1, 2, 3, 4, 5, 6}},
		Op{K: "add", M: 0, A: 0, Amt: "1"}, Op{K: "block", Dt: mature}, Op{K: "block"}, Op{K: "withdraw", M: 0, A: 0})
	// D: the staking module slashes validator 0 by 5 %; afterwards oracle 1 (validator 1) re-delegates to the slashed
	//    validator 0 and back is refused only by staking's own transitive rule, oracle 3 (validator 0) moves to
	//    validator 2, governance removes oracle 0 (validator 0): what is undelegated is the remaining 9500 FX,
	//    it matures, the withdrawal pays exactly that once
	d := setup()
	d = append(d, confirmAll(1, -1)...)
	d = append(d, Op{K: "slashval", M: 0, V: 0, Amt: "50000000000000000"},
		Op{K: "redel", M: 0, A: 3, V: 2}, Op{K: "redel", M: 0, A: 1, V: 0},
		Op{K: "gov", M: 0, L: []int{1, 2, 3, 4, 5, 6}}, Op{K: "block"})
	d = append(d, confirmAll(2, 0)...)
	d = append(d, Op{K: "add", M: 0, A: 6, Amt: fx(500)}, // oracle 6 is on validator 0: new shares at the new rate
		Op{K: "slashval", M: 0, V: 2, Amt: "100000000000000"}, Op{K: "block", Dt: mature}, Op{K: "block"},
		Op{K: "unbond", M: 0, A: 0}, Op{K: "unbond", M: 0, A: 0}, Op{K: "gov", M: 0, L: []int{1, 2, 4, 5, 6}}, Op{K: "block"})
	// E: two live batches of one token; everybody confirms both; the older one is executed on the external chain and the
	//    event observed through the real claim path; the window of the newer one elapses: nobody may be penalised
	e := setup()
	e = append(e, confirmAll(1, -1)...)
	confirmBatch := func(n int64) []Op {
		var ops []Op
		for a := 0; a < nOracles; a++ {
			ops = append(ops, Op{K: "confirm", M: 0, Obj: "batch", N: n, B: 100 + a, E: 200 + a})
		}
		return ops
	}
	e = append(e, Op{K: "addbatch", M: 0}, Op{K: "block"}, Op{K: "addbatch", M: 0})
	e = append(e, confirmBatch(1)...)
	e = append(e, confirmBatch(2)...)
	e = append(e, Op{K: "execbatch", M: 0, N: 1}, Op{K: "block"}, Op{K: "block"}, Op{K: "block"}, Op{K: "block"}, Op{K: "block"})
	// F: oracle 3 does not sign and is taken offline, oracle 0 is removed by governance; the chain is restarted from
	//    exported state; afterwards oracle 0 withdraws its matured stake and oracle 3 pays its penalty and returns
	f := setup()
	f = append(f, confirmAll(1, 3)...)
	f = append(f, Op{K: "block"}, Op{K: "block"}, Op{K: "block"})
	f = append(f, confirmAll(2, 3)...)
	f = append(f, Op{K: "gov", M: 0, L: []int{1, 2, 3, 4, 5, 6}}, Op{K: "block"})
	f = append(f, confirmAll(3, 3)...)
	f = append(f, Op{K: "exportimport", M: 0}, Op{K: "block", Dt: mature}, Op{K: "block"},
		Op{K: "unbond", M: 0, A: 0}, Op{K: "add", M: 0, A: 3, Amt: fx(9000)}, Op{K: "block"})
	// H: oracle 3 does not sign and is taken offline, oracle 0 is removed by governance; online oracles try to take the
	//    bridger of each of them, of an online oracle, their own, an oracle address, a free one; then 3 returns, 0 withdraws
	h := setup()
	h = append(h, confirmAll(1, 3)...)
	h = append(h, Op{K: "block"}, Op{K: "block"}, Op{K: "block"})
	h = append(h, confirmAll(2, 3)...)
	h = append(h, Op{K: "gov", M: 0, L: []int{1, 2, 3, 4, 5, 6}},
		Op{K: "edit", M: 0, A: 1, B: 103}, Op{K: "edit", M: 0, A: 2, B: 100}, Op{K: "edit", M: 0, A: 4, B: 105},
		Op{K: "edit", M: 0, A: 4, B: 104}, Op{K: "edit", M: 0, A: 5, B: 6}, Op{K: "edit", M: 0, A: 6, B: 108},
		Op{K: "edit", M: 0, A: 3, B: 109}, // offline: refused
		Op{K: "add", M: 0, A: 3, Amt: fx(9000)}, Op{K: "block", Dt: mature}, Op{K: "block"}, Op{K: "unbond", M: 0, A: 0}, Op{K: "block"})
	// I: the 30 % power cap at its boundary: powers 30,10,10,10,10,15,15 (total 100, cap floor(30*100/100) = 30): dropping
	//    oracle 0 (30) is refused, dropping oracles 1 and 5 (25) is accepted, then dropping 0 (30 of 75: cap 22) refused
	var ib []Op
	for a := 0; a < nOracles; a++ {
		ib = append(ib, Op{K: "fund", M: 0, A: a, Amt: fx(300000)})
	}
	ib = append(ib, Op{K: "params", M: 0, P: []string{fx(100), "100", "800000000000000000", "2"}}, Op{K: "gov", M: 0, L: []int{0, 1, 2, 3, 4, 5, 6}})
	for a, st := range []int64{3000, 1000, 1000, 1000, 1000, 1500, 1500} {
		ib = append(ib, Op{K: "bond", M: 0, A: a, B: 100 + a, E: 200 + a, V: a % 3, Amt: fx(st)})
	}
	ib = append(ib, Op{K: "block"}, Op{K: "gov", M: 0, L: []int{1, 2, 3, 4, 5, 6}}, Op{K: "gov", M: 0, L: []int{0, 2, 3, 4, 6}},
		Op{K: "gov", M: 0, L: []int{2, 3, 4, 6}}, Op{K: "block"})
	// J: slash fraction 1.0; oracle 3 (validator 0) misses oracle set 1 and is penalised; staking slashes validator 0 by
	//    5 %; governance removes oracle 3; after maturity 9500 FX are there, the penalty is 10000 FX of recorded stake:
	//    the withdrawal is refused for ever (finding C13-3)
	j := setup()
	j[nOracles] = Op{K: "params", M: 0, P: []string{fx(10000), "10", "1000000000000000000", "2"}}
	j = append(j, confirmAll(1, 3)...)
	j = append(j, Op{K: "block"}, Op{K: "block"}, Op{K: "block"})
	j = append(j, confirmAll(2, 3)...)
	j = append(j, Op{K: "slashval", M: 0, V: 0, Amt: "50000000000000000"}, Op{K: "gov", M: 0, L: []int{0, 1, 2, 4, 5, 6}}, Op{K: "block"},
		Op{K: "block", Dt: mature}, Op{K: "block"}, Op{K: "unbond", M: 0, A: 3}, Op{K: "block"}, Op{K: "unbond", M: 0, A: 3})
	// K: staking-side events around the life cycle: validator 1 is jailed and leaves the bonded set; oracle 1 (on it)
	//    re-delegates away (entry ends with the validator's own unbonding), oracle 4 (on it) is removed by governance;
	//    validator 0 is slashed for an infraction two blocks back, which cuts the fresh unbonding entry of oracle 0 and the
	//    redelegated stake of oracle 3; everybody who was removed withdraws what is left after maturity
	k := setup()
	k = append(k, confirmAll(1, -1)...)
	k = append(k, Op{K: "jail", V: 1}, Op{K: "block"}, Op{K: "redel", M: 0, A: 1, V: 2}, Op{K: "gov", M: 0, L: []int{0, 1, 2, 3, 5, 6}},
		Op{K: "redel", M: 0, A: 3, V: 2}, Op{K: "block"})
	k = append(k, confirmAll(2, 4)...)
	k = append(k, Op{K: "gov", M: 0, L: []int{1, 2, 3, 5, 6}}, Op{K: "block"})
	k = append(k, confirmAll(3, 0)...)
	k = append(k, Op{K: "slashpast", V: 0, Amt: "50000000000000000", N: 2}, Op{K: "block"}, Op{K: "unjail", V: 1}, Op{K: "block"},
		Op{K: "block", Dt: mature}, Op{K: "block"}, Op{K: "unbond", M: 0, A: 4}, Op{K: "unbond", M: 0, A: 0}, Op{K: "block"})
	// L: two oracle sets alive at once, the newer one adopted by the external chain.  Signed window 4.  Oracle set 1 is
	//    confirmed by everybody; inside its window oracle 0 raises its stake by 80000 FX (power 70000 -> 150000): the end
	//    blocker requests oracle set 2; everybody confirms it too; it is relayed and observed through the real claim path
	//    (LastObservedOracleSet.Nonce = 2 > 1); the end blocker then runs block by block over height(1)+window and
	//    height(1)+window+1 (slashing looks at set 1, then set 1 is pruned) and on over the window of set 2: every oracle
	//    confirmed in time, nobody may be penalised; a second round (oracle 1 raises its stake, set 3, observed) follows
	l := setup()
	l[nOracles] = Op{K: "params", M: 0, P: []string{fx(10000), "10", "800000000000000000", "4"}}
	l = append(l, confirmAll(1, -1)...)
	l = append(l, Op{K: "add", M: 0, A: 0, Amt: fx(80000)}, Op{K: "block"})
	l = append(l, confirmAll(2, -1)...)
	l = append(l, Op{K: "observeset", M: 0, N: 2})
	for i := 0; i < 4; i++ {
		l = append(l, Op{K: "block"})
	}
	l = append(l, Op{K: "add", M: 0, A: 1, Amt: fx(90000)}, Op{K: "block"})
	l = append(l, confirmAll(3, -1)...)
	l = append(l, Op{K: "block"}, Op{K: "observeset", M: 0, N: 3})
	for i := 0; i < 7; i++ {
		l = append(l, Op{K: "block"})
	}
	return [][]Op{a, b, c, d, e, f, h, ib, j, k, l}
}
