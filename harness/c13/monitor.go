package main

// monitor.go: property C13 as an executable predicate over REAL observables (raw store dumps, real
// staking / bank state) — written from the property text, independent of the Coq model.
// It decides nothing on a clean run; it is the failing-input search the driver falls back to.
//
// Readings (resolved towards not alarming, see docs/C13.md):
//  * "created after it joined": block granularity, StartHeight <= creation height of the object;
//  * "left unconfirmed for at least the signed window": finalized height - creation height >= window;
//  * "stake recorded = delegated on its behalf": checked for ONLINE oracles (an oracle removed by
//    governance has its stake in the unbonding queue, a record that is offline is not voting);
//  * "can withdraw its stake minus penalties exactly once": judged at every UnbondedOracle call on an
//    oracle that governance removed: it must succeed once nothing is left in the unbonding queue, pay
//    delegate-address balance minus penalty, delete the records; a successful call while stake is
//    still in the queue forfeits that stake (the records are gone) and is a violation too.

import (
	"fmt"
	"math/big"
)

type violation struct {
	sig  string
	what string
}

func (v *View) rec(a int) *oracleRec {
	for i := range v.Recs {
		if v.Recs[i].A == a {
			return &v.Recs[i]
		}
	}
	return nil
}
func (v *View) inProp(a int) bool {
	for _, p := range v.Prop {
		if p == a {
			return true
		}
	}
	return false
}

// delegated: token value (at the validators' current rates) of what is delegated on behalf of oracle a
func (v *View) delegated(a int) *big.Int {
	s := big.NewInt(0)
	for _, d := range v.DelegTok {
		if d[0].Int64() == int64(a) {
			s.Add(s, d[2])
		}
	}
	return s
}

// unbondingEntries: number of entries of oracle a still in the unbonding queue (a staking slash can cut an entry to 0
// without removing it)
func (v *View) unbondingEntries(a int) int {
	n := 0
	for _, u := range v.Ubds {
		if u[0].Int64() == int64(a) {
			n++
		}
	}
	return n
}
func (v *View) unbonding(a int) *big.Int {
	s := big.NewInt(0)
	for _, u := range v.Ubds {
		if u[0].Int64() == int64(a) {
			s.Add(s, u[3])
		}
	}
	return s
}

var decOne = new(big.Int).Exp(big.NewInt(10), big.NewInt(18), nil)

// rateOne: validator id has never lost tokens to a staking slash (1 share = 1 token)
func (v *View) rateOne(id int) bool {
	for _, x := range v.Vals {
		if x[0].Int64() == int64(id) {
			return new(big.Int).Mul(x[1], decOne).Cmp(x[2]) == 0
		}
	}
	return true
}

// scaled: amount * Tokens / DelegatorShares of validator id (what `amount` delegated before any slash is worth now)
func (v *View) scaled(id int, amount *big.Int) *big.Int {
	for _, x := range v.Vals {
		if x[0].Int64() == int64(id) && x[2].Sign() > 0 {
			r := new(big.Int).Mul(amount, x[1])
			r.Mul(r, decOne)
			return r.Quo(r, x[2])
		}
	}
	return new(big.Int).Set(amount)
}

// near: |x - y| <= tol
func near(x, y *big.Int, tol int64) bool {
	d := new(big.Int).Sub(x, y)
	return d.Abs(d).Cmp(big.NewInt(tol)) <= 0
}

// penalty per the property text: stake * fraction * times, never more than the stake
func penalty(r *oracleRec, fraction *big.Int) *big.Int {
	p := new(big.Int).Mul(r.Amount, fraction)
	p.Mul(p, big.NewInt(r.Slash))
	p.Quo(p, new(big.Int).Exp(big.NewInt(10), big.NewInt(18), nil))
	if p.Cmp(r.Amount) > 0 {
		p.Set(r.Amount)
	}
	if p.Sign() < 0 {
		p.SetInt64(0)
	}
	return p
}

func hasInt(l []int, x int) bool {
	for _, y := range l {
		if y == x {
			return true
		}
	}
	return false
}

// stakeBook: the monitor's own bookkeeping of what an oracle has had delegated on its behalf: tokens it put in
// (bond, add-delegate minus penalty), scaled down by every staking slash of the validator holding them
// (observed on the validator's Tokens), zero after governance removal; losses = what those slashes took.
type stakeBook struct {
	expected, losses *big.Int
	events           int64
}

// static invariants of one observed state.  readded[a]: governance removed oracle a since it bonded and an
// AddDelegate of a was accepted afterwards (the trigger of finding C13-2).
func checkState(v *View, readded map[int]bool, book map[int]*stakeBook) []violation {
	var out []violation
	if v.rawIdxBad != "" {
		out = append(out, violation{"C13:index:key", v.rawIdxBad})
	}
	// the three maps are mutually inverse: every record has exactly its two index entries, every index entry a record
	seenB, seenE := map[int]bool{}, map[int]bool{}
	for _, r := range v.Recs {
		if seenB[r.B] || seenE[r.E] {
			out = append(out, violation{"C13:index:shared", fmt.Sprintf("bridger %d / external %d belongs to two oracle records", r.B, r.E)})
		}
		seenB[r.B], seenE[r.E] = true, true
		okB, okE := false, false
		for _, p := range v.ByB {
			if p[0] == r.B && p[1] == r.A {
				okB = true
			}
		}
		for _, p := range v.ByE {
			if p[0] == r.E && p[1] == r.A {
				okE = true
			}
		}
		if !okB || !okE {
			out = append(out, violation{"C13:index:missing", fmt.Sprintf("record of oracle %d is not found through its bridger/external index", r.A)})
		}
		if r.Slash < 0 || r.Slash > 1 || (r.Slash == 1 && r.Online) {
			out = append(out, violation{"C13:slash:count", fmt.Sprintf("oracle %d: slash count %d online=%v (more than one penalty per offline period)", r.A, r.Slash, r.Online)})
		}
		if penalty(&r, v.Fraction).Cmp(r.Amount) > 0 {
			out = append(out, violation{"C13:slash:exceeds", fmt.Sprintf("oracle %d: penalty exceeds stake", r.A)})
		}
		if r.Online {
			// recorded stake = what it transferred = what is delegated on its behalf; a staking slash of the validator
			// takes its share of the delegation (booked as losses), a few base units of share rounding per event
			d := v.delegated(r.A)
			bad := d.Cmp(r.Amount) != 0
			if b := book[r.A]; b != nil && b.events > 0 {
				tol := 3 * (b.events + 1)
				bad = !near(d, b.expected, tol) || !near(r.Amount, new(big.Int).Add(b.expected, b.losses), tol)
			}
			if bad {
				sig := "C13:stake:online-oracle-delegation-differs-from-recorded-stake"
				if readded[r.A] {
					sig = "C13:unbacked:add-delegate-after-governance-removal"
				}
				out = append(out, violation{sig,
					fmt.Sprintf("online oracle %d: recorded stake %s but %s delegated on its behalf", r.A, r.Amount, d)})
			}
		}
	}
	if len(v.ByB) != len(v.Recs) || len(v.ByE) != len(v.Recs) {
		out = append(out, violation{"C13:index:dangling", fmt.Sprintf("%d records, %d bridger index entries, %d external index entries", len(v.Recs), len(v.ByB), len(v.ByE))})
	}
	for _, p := range v.ByB {
		if r := v.rec(p[1]); r == nil || r.B != p[0] {
			out = append(out, violation{"C13:index:dangling", fmt.Sprintf("bridger index %d -> oracle %d has no matching record", p[0], p[1])})
		}
	}
	for _, p := range v.ByE {
		if r := v.rec(p[1]); r == nil || r.E != p[0] {
			out = append(out, violation{"C13:index:dangling", fmt.Sprintf("external index %d -> oracle %d has no matching record", p[0], p[1])})
		}
	}
	return out
}

// transition checks for one executed operation (class 0 = accepted).  joined[a]: the height at which the
// monitor saw oracle a come online last (bond, or add-delegate of an offline oracle) — its own notion of
// "joined", not the StartHeight field of the record.  redelegated[a]: a re-delegation of a was accepted earlier in
// this history (then staking may legitimately refuse the next one: transitive redelegation).  confirmed: the monitor's
// OWN record of the confirms it saw accepted (object kind, nonce, external id) — not what the store says now.
func checkStep(op Op, class int, pre, post *View, joined map[int]int64, redelegated map[int]bool, confirmed func(kind string, nonce int64, ext int) bool) []violation {
	var out []violation
	fail := func(sig, f string, a ...interface{}) { out = append(out, violation{sig, fmt.Sprintf(f, a...)}) }
	sub := func(x, y *big.Int) *big.Int { return new(big.Int).Sub(x, y) }
	switch op.K {
	case "bond":
		if class == 0 {
			amt := bigOf(op.Amt)
			max := new(big.Int).Mul(pre.Threshold, big.NewInt(pre.Multiple))
			if !pre.inProp(op.A) {
				fail("C13:bond:unapproved", "oracle %d bonded without being on the governance list", op.A)
			}
			if amt.Cmp(pre.Threshold) < 0 || amt.Cmp(max) > 0 {
				fail("C13:bond:bounds", "oracle %d bonded %s outside [%s, %s]", op.A, amt, pre.Threshold, max)
			}
			r := post.rec(op.A)
			tol := int64(0)
			if !pre.rateOne(op.V) {
				tol = 2 // share rounding at a slashed validator
			}
			if r == nil || r.Amount.Cmp(amt) != 0 || sub(pre.BalO[op.A], post.BalO[op.A]).Cmp(amt) != 0 ||
				!near(sub(post.delegated(op.A), pre.delegated(op.A)), amt, tol) {
				fail("C13:bond:accounting", "oracle %d: recorded stake, amount transferred and amount delegated differ", op.A)
			}
			if pre.rec(op.A) != nil {
				fail("C13:bond:twice", "oracle %d bonded while it had a record", op.A)
			}
		}
	case "add":
		if class == 0 {
			amt := bigOf(op.Amt)
			r0, r1 := pre.rec(op.A), post.rec(op.A)
			max := new(big.Int).Mul(pre.Threshold, big.NewInt(pre.Multiple))
			if r0 == nil || r1 == nil || !pre.inProp(op.A) {
				fail("C13:bond:unapproved", "oracle %d added stake without record / approval", op.A)
				break
			}
			if r1.Amount.Cmp(pre.Threshold) < 0 || r1.Amount.Cmp(max) > 0 {
				fail("C13:bond:bounds", "oracle %d: stake %s outside [%s, %s] after add-delegate", op.A, r1.Amount, pre.Threshold, max)
			}
			pen := penalty(r0, pre.Fraction)
			if sub(pre.BalO[op.A], post.BalO[op.A]).Cmp(amt) != 0 {
				fail("C13:bond:accounting", "oracle %d: add-delegate %s moved a different amount out of the oracle account", op.A, amt)
			}
			dDel := sub(post.delegated(op.A), pre.delegated(op.A))
			// what left the account = what was delegated + the penalty due; that the recorded stake equals the
			// delegation afterwards is the state check (checkState) for the now online oracle
			tol := int64(0)
			if !pre.rateOne(r0.V) {
				tol = 2
			}
			if !near(new(big.Int).Add(dDel, pen), amt, tol) {
				fail("C13:slash:charge", "oracle %d: add-delegate %s: delegated %s, penalty due %s", op.A, amt, dDel, pen)
			}
			if r1.Slash != 0 || !r1.Online {
				fail("C13:slash:count", "oracle %d: slash count not reset / not online after paying", op.A)
			}
		}
	case "gov":
		// "after governance removes an oracle ...": a well-formed list update within the 30 % power cap must go
		// through when every dropped oracle has its stake delegated, and what is undelegated is that stake
		wellFormed := len(op.L) > 0 && len(op.L) <= 100
		seen := map[int]bool{}
		for _, a := range op.L {
			if seen[a] {
				wellFormed = false
			}
			seen[a] = true
		}
		total, gone := big.NewInt(0), big.NewInt(0)
		pr := new(big.Int).Exp(big.NewInt(10), big.NewInt(20), nil)
		removable := true
		var dropped []oracleRec
		for _, r := range pre.Recs {
			pw := new(big.Int).Quo(r.Amount, pr)
			if r.Online {
				total.Add(total, pw)
			}
			if pre.inProp(r.A) && !seen[r.A] {
				dropped = append(dropped, r)
				if r.Online {
					gone.Add(gone, pw)
				}
				entries := 0
				for _, u := range pre.Ubds {
					if u[0].Int64() == int64(r.A) && u[1].Int64() == int64(r.V) {
						entries++
					}
				}
				if pre.delegated(r.A).Sign() <= 0 || r.V < 0 || r.V > 2 || entries >= 7 {
					removable = false
				}
			}
		}
		cap30 := new(big.Int).Quo(new(big.Int).Mul(big.NewInt(30), total), big.NewInt(100))
		withinCap := gone.Sign() == 0 || gone.Cmp(cap30) < 0
		if class != 0 && wellFormed && withinCap && removable {
			fail("C13:removal:refused", "governance list update dropping %d staked oracle(s) within the power cap is refused: they can never be removed, their stake never withdrawn", len(dropped))
		}
		if class == 0 {
			for _, r := range dropped {
				und := sub(post.unbonding(r.A), pre.unbonding(r.A))
				if d := pre.delegated(r.A); !near(und, d, 2) {
					fail("C13:removal:amount", "oracle %d removed by governance: %s delegated on its behalf, %s put into the unbonding queue", r.A, d, und)
				}
			}
		}
	case "exportimport":
		// a chain restart from exported state must give back the registry exactly: records and both indexes
		if class == 0 {
			same := len(pre.Recs) == len(post.Recs) && coqPairs(pre.ByB) == coqPairs(post.ByB) && coqPairs(pre.ByE) == coqPairs(post.ByE)
			for i := 0; same && i < len(pre.Recs); i++ {
				same = coqRec(pre.Recs[i]) == coqRec(post.Recs[i])
			}
			if !same {
				fail("C13:export:registry-changed", "genesis export + import changed the oracle registry: %d records / %d bridger / %d external index entries before, %d / %d / %d after",
					len(pre.Recs), len(pre.ByB), len(pre.ByE), len(post.Recs), len(post.ByB), len(post.ByE))
			}
		}
	case "redel":
		// a first re-delegation of an online oracle with a delegation, to another existing validator, has no reason to fail
		if r0 := pre.rec(op.A); class != 0 && r0 != nil && r0.Online && r0.V != op.V && r0.V >= 0 && r0.V <= 2 && op.V >= 0 && op.V <= 2 &&
			pre.delegated(op.A).Sign() > 0 && !redelegated[op.A] {
			fail("C13:redelegate:refused", "oracle %d cannot move its stake of %s from validator %d to %d", op.A, pre.delegated(op.A), r0.V, op.V)
		}
	case "unbond":
		r0 := pre.rec(op.A)
		if r0 == nil {
			if class == 0 {
				fail("C13:unbond:twice", "oracle %d withdrew without a record (second withdrawal)", op.A)
			}
			break
		}
		removed := !pre.inProp(op.A) && !r0.Online
		if class == 0 && !removed {
			fail("C13:unbond:not-removed", "oracle %d unbonded while online or still approved", op.A)
		}
		if !removed {
			break
		}
		pend := pre.unbonding(op.A)
		pen := penalty(r0, pre.Fraction)
		if class != 0 {
			if pre.unbondingEntries(op.A) == 0 && pre.BalD[op.A].Sign() > 0 && pre.BalD[op.A].Cmp(pen) < 0 && pre.delegated(op.A).Cmp(big.NewInt(1000)) < 0 {
				// everything has matured, but a staking-side slash left less than the penalty computed from the recorded stake
				fail("C13:penalty-exceeds-remaining:withdrawal-refused", "oracle %d was removed by governance and its unbonding has matured, but only %s is left at the delegate address (staking slashed its validator) and the penalty computed from the RECORDED stake is %s: the withdrawal is refused, for ever", op.A, pre.BalD[op.A], pen)
			}
			if pre.unbondingEntries(op.A) == 0 && pre.BalD[op.A].Cmp(pen) >= 0 {
				fail("C13:unbond-inverted:after-maturity-rejected", "oracle %d was removed by governance, its unbonding has matured (%s at the delegate address, penalty %s) and the withdrawal is refused", op.A, pre.BalD[op.A], pen)
			}
			break
		}
		if post.rec(op.A) != nil {
			fail("C13:unbond:record-left", "oracle %d: record not deleted by the withdrawal", op.A)
		}
		// "withdraws its stake minus penalties": the oracle receives max(0, delegate balance - penalty) and the delegate
		// address ends empty (a tree that refuses when the balance is smaller than the penalty never gets here with less)
		paid := sub(post.BalO[op.A], pre.BalO[op.A])
		want := sub(pre.BalD[op.A], pen)
		if want.Sign() < 0 {
			want = big.NewInt(0)
		}
		if paid.Cmp(want) != 0 || post.BalD[op.A].Sign() != 0 {
			fail("C13:unbond:amount", "oracle %d: paid %s, penalty %s, delegate balance was %s", op.A, paid, pen, pre.BalD[op.A])
		}
		if pre.unbondingEntries(op.A) > 0 {
			fail("C13:unbond-inverted:before-maturity-forfeits-stake", "oracle %d withdrew while %s of its stake was still unbonding: records deleted, that stake will mature into the keyless delegate address", op.A, pend)
		}
	}
	// offline transitions and slash counts
	for _, r0 := range pre.Recs {
		r1 := post.rec(r0.A)
		if r1 == nil {
			continue
		}
		slashed := r1.Slash > r0.Slash
		wentOff := r0.Online && !r1.Online
		if !slashed && !wentOff {
			continue
		}
		if op.K == "gov" && class == 0 && !hasInt(op.L, r0.A) && !slashed {
			continue
		}
		if op.K != "block" {
			fail("C13:slash:cause", "oracle %d went offline / was penalised by operation %s", r0.A, op.K)
			continue
		}
		if !(slashed && wentOff && r1.Slash == r0.Slash+1) {
			fail("C13:slash:cause", "oracle %d: offline=%v slash %d -> %d in the end blocker", r0.A, wentOff, r0.Slash, r1.Slash)
			continue
		}
		justified := false
		start, seen := joined[r0.A]
		if !seen {
			start = r0.Start
		}
		for kind, objs := range map[string][]objView{"set": pre.Sets, "batch": pre.Batches, "call": pre.Calls} {
			for _, x := range objs {
				if start <= x.H && !confirmed(kind, x.N, r0.E) && pre.Height-x.H >= pre.Window {
					justified = true
				}
			}
		}
		if !justified {
			fail("C13:slash:unjustified", "oracle %d (joined %d, external %d) penalised at height %d although it confirmed every oracle set / batch / bridge call created since it joined that is older than the window %d",
				r0.A, start, r0.E, pre.Height, pre.Window)
		}
	}
	return out
}
