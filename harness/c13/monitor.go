package main

// monitor.go: property C13 as an executable predicate over REAL observables (raw store dumps, real
// staking / bank state) — written from the property text, independent of the Coq model.
// It decides nothing on a clean run; it is the failing-input search the driver falls back to.
//
// Readings (resolved towards not alarming, see docs/C13.md):
//  * "created after it joined": block granularity, StartHeight <= creation height of the object;
//  * "left unconfirmed for at least the signed window": finalized height - creation height >= window;
//  * "stake recorded = delegated on its behalf": checked for ONLINE oracles (an oracle removed by
//    governance has its stake in the unbonding queue, a record that is offline is not voting);
//  * "can withdraw its stake minus penalties exactly once": judged at every UnbondedOracle call on an
//    oracle that governance removed: it must succeed once nothing is left in the unbonding queue, pay
//    delegate-address balance minus penalty, delete the records; a successful call while stake is
//    still in the queue forfeits that stake (the records are gone) and is a violation too.

import (
	"fmt"
	"math/big"
)

type violation struct {
	sig  string
	what string
}

func (v *View) rec(a int) *oracleRec {
	for i := range v.Recs {
		if v.Recs[i].A == a {
			return &v.Recs[i]
		}
	}
	return nil
}
func (v *View) inProp(a int) bool {
	for _, p := range v.Prop {
		if p == a {
			return true
		}
	}
	return false
}
func (v *View) delegated(a int) *big.Int {
	s := big.NewInt(0)
	for _, d := range v.Deleg {
		if d[0].Int64() == int64(a) {
			s.Add(s, d[2])
		}
	}
	return s
}
func (v *View) unbonding(a int) *big.Int {
	s := big.NewInt(0)
	for _, u := range v.Ubds {
		if u[0].Int64() == int64(a) {
			s.Add(s, u[3])
		}
	}
	return s
}

// penalty per the property text: stake * fraction * times, never more than the stake
func penalty(r *oracleRec, fraction *big.Int) *big.Int {
	p := new(big.Int).Mul(r.Amount, fraction)
	p.Mul(p, big.NewInt(r.Slash))
	p.Quo(p, new(big.Int).Exp(big.NewInt(10), big.NewInt(18), nil))
	if p.Cmp(r.Amount) > 0 {
		p.Set(r.Amount)
	}
	if p.Sign() < 0 {
		p.SetInt64(0)
	}
	return p
}

func hasInt(l []int, x int) bool {
	for _, y := range l {
		if y == x {
			return true
		}
	}
	return false
}

// static invariants of one observed state.  readded[a]: governance removed oracle a since it bonded and an
// AddDelegate of a was accepted afterwards (the trigger of finding C13-2).
func checkState(v *View, readded map[int]bool) []violation {
	var out []violation
	if v.rawIdxBad != "" {
		out = append(out, violation{"C13:index:key", v.rawIdxBad})
	}
	// the three maps are mutually inverse: every record has exactly its two index entries, every index entry a record
	seenB, seenE := map[int]bool{}, map[int]bool{}
	for _, r := range v.Recs {
		if seenB[r.B] || seenE[r.E] {
			out = append(out, violation{"C13:index:shared", fmt.Sprintf("bridger %d / external %d belongs to two oracle records", r.B, r.E)})
		}
		seenB[r.B], seenE[r.E] = true, true
		okB, okE := false, false
		for _, p := range v.ByB {
			if p[0] == r.B && p[1] == r.A {
				okB = true
			}
		}
		for _, p := range v.ByE {
			if p[0] == r.E && p[1] == r.A {
				okE = true
			}
		}
		if !okB || !okE {
			out = append(out, violation{"C13:index:missing", fmt.Sprintf("record of oracle %d is not found through its bridger/external index", r.A)})
		}
		if r.Slash < 0 || r.Slash > 1 || (r.Slash == 1 && r.Online) {
			out = append(out, violation{"C13:slash:count", fmt.Sprintf("oracle %d: slash count %d online=%v (more than one penalty per offline period)", r.A, r.Slash, r.Online)})
		}
		if penalty(&r, v.Fraction).Cmp(r.Amount) > 0 {
			out = append(out, violation{"C13:slash:exceeds", fmt.Sprintf("oracle %d: penalty exceeds stake", r.A)})
		}
		if r.Online {
			if d := v.delegated(r.A); d.Cmp(r.Amount) != 0 {
				sig := "C13:stake:online-oracle-delegation-differs-from-recorded-stake"
				if readded[r.A] {
					sig = "C13:unbacked:add-delegate-after-governance-removal"
				}
				out = append(out, violation{sig,
					fmt.Sprintf("online oracle %d: recorded stake %s but %s delegated on its behalf", r.A, r.Amount, d)})
			}
		}
	}
	if len(v.ByB) != len(v.Recs) || len(v.ByE) != len(v.Recs) {
		out = append(out, violation{"C13:index:dangling", fmt.Sprintf("%d records, %d bridger index entries, %d external index entries", len(v.Recs), len(v.ByB), len(v.ByE))})
	}
	for _, p := range v.ByB {
		if r := v.rec(p[1]); r == nil || r.B != p[0] {
			out = append(out, violation{"C13:index:dangling", fmt.Sprintf("bridger index %d -> oracle %d has no matching record", p[0], p[1])})
		}
	}
	for _, p := range v.ByE {
		if r := v.rec(p[1]); r == nil || r.E != p[0] {
			out = append(out, violation{"C13:index:dangling", fmt.Sprintf("external index %d -> oracle %d has no matching record", p[0], p[1])})
		}
	}
	return out
}

// transition checks for one executed operation (class 0 = accepted).  joined[a]: the height at which the
// monitor saw oracle a come online last (bond, or add-delegate of an offline oracle) — its own notion of
// "joined", not the StartHeight field of the record.
func checkStep(op Op, class int, pre, post *View, joined map[int]int64) []violation {
	var out []violation
	fail := func(sig, f string, a ...interface{}) { out = append(out, violation{sig, fmt.Sprintf(f, a...)}) }
	sub := func(x, y *big.Int) *big.Int { return new(big.Int).Sub(x, y) }
	switch op.K {
	case "bond":
		if class == 0 {
			amt := bigOf(op.Amt)
			max := new(big.Int).Mul(pre.Threshold, big.NewInt(pre.Multiple))
			if !pre.inProp(op.A) {
				fail("C13:bond:unapproved", "oracle %d bonded without being on the governance list", op.A)
			}
			if amt.Cmp(pre.Threshold) < 0 || amt.Cmp(max) > 0 {
				fail("C13:bond:bounds", "oracle %d bonded %s outside [%s, %s]", op.A, amt, pre.Threshold, max)
			}
			r := post.rec(op.A)
			if r == nil || r.Amount.Cmp(amt) != 0 || sub(pre.BalO[op.A], post.BalO[op.A]).Cmp(amt) != 0 ||
				sub(post.delegated(op.A), pre.delegated(op.A)).Cmp(amt) != 0 {
				fail("C13:bond:accounting", "oracle %d: recorded stake, amount transferred and amount delegated differ", op.A)
			}
			if pre.rec(op.A) != nil {
				fail("C13:bond:twice", "oracle %d bonded while it had a record", op.A)
			}
		}
	case "add":
		if class == 0 {
			amt := bigOf(op.Amt)
			r0, r1 := pre.rec(op.A), post.rec(op.A)
			max := new(big.Int).Mul(pre.Threshold, big.NewInt(pre.Multiple))
			if r0 == nil || r1 == nil || !pre.inProp(op.A) {
				fail("C13:bond:unapproved", "oracle %d added stake without record / approval", op.A)
				break
			}
			if r1.Amount.Cmp(pre.Threshold) < 0 || r1.Amount.Cmp(max) > 0 {
				fail("C13:bond:bounds", "oracle %d: stake %s outside [%s, %s] after add-delegate", op.A, r1.Amount, pre.Threshold, max)
			}
			pen := penalty(r0, pre.Fraction)
			if sub(pre.BalO[op.A], post.BalO[op.A]).Cmp(amt) != 0 {
				fail("C13:bond:accounting", "oracle %d: add-delegate %s moved a different amount out of the oracle account", op.A, amt)
			}
			dDel := sub(post.delegated(op.A), pre.delegated(op.A))
			// what left the account = what was delegated + the penalty due; that the recorded stake equals the
			// delegation afterwards is the state check (checkState) for the now online oracle
			if new(big.Int).Add(dDel, pen).Cmp(amt) != 0 {
				fail("C13:slash:charge", "oracle %d: add-delegate %s: delegated %s, penalty due %s", op.A, amt, dDel, pen)
			}
			if r1.Slash != 0 || !r1.Online {
				fail("C13:slash:count", "oracle %d: slash count not reset / not online after paying", op.A)
			}
		}
	case "unbond":
		r0 := pre.rec(op.A)
		if r0 == nil {
			if class == 0 {
				fail("C13:unbond:twice", "oracle %d withdrew without a record (second withdrawal)", op.A)
			}
			break
		}
		removed := !pre.inProp(op.A) && !r0.Online
		if class == 0 && !removed {
			fail("C13:unbond:not-removed", "oracle %d unbonded while online or still approved", op.A)
		}
		if !removed {
			break
		}
		pend := pre.unbonding(op.A)
		pen := penalty(r0, pre.Fraction)
		if class != 0 {
			if pend.Sign() == 0 && pre.BalD[op.A].Cmp(pen) >= 0 {
				fail("C13:unbond-inverted:after-maturity-rejected", "oracle %d was removed by governance, its unbonding has matured (%s at the delegate address, penalty %s) and the withdrawal is refused", op.A, pre.BalD[op.A], pen)
			}
			break
		}
		if post.rec(op.A) != nil {
			fail("C13:unbond:record-left", "oracle %d: record not deleted by the withdrawal", op.A)
		}
		paid := sub(post.BalO[op.A], pre.BalO[op.A])
		if new(big.Int).Add(paid, pen).Cmp(pre.BalD[op.A]) != 0 || post.BalD[op.A].Sign() != 0 {
			fail("C13:unbond:amount", "oracle %d: paid %s, penalty %s, delegate balance was %s", op.A, paid, pen, pre.BalD[op.A])
		}
		if pend.Sign() > 0 {
			fail("C13:unbond-inverted:before-maturity-forfeits-stake", "oracle %d withdrew while %s of its stake was still unbonding: records deleted, that stake will mature into the keyless delegate address", op.A, pend)
		}
	}
	// offline transitions and slash counts
	for _, r0 := range pre.Recs {
		r1 := post.rec(r0.A)
		if r1 == nil {
			continue
		}
		slashed := r1.Slash > r0.Slash
		wentOff := r0.Online && !r1.Online
		if !slashed && !wentOff {
			continue
		}
		if op.K == "gov" && class == 0 && !hasInt(op.L, r0.A) && !slashed {
			continue
		}
		if op.K != "block" {
			fail("C13:slash:cause", "oracle %d went offline / was penalised by operation %s", r0.A, op.K)
			continue
		}
		if !(slashed && wentOff && r1.Slash == r0.Slash+1) {
			fail("C13:slash:cause", "oracle %d: offline=%v slash %d -> %d in the end blocker", r0.A, wentOff, r0.Slash, r1.Slash)
			continue
		}
		justified := false
		start, seen := joined[r0.A]
		if !seen {
			start = r0.Start
		}
		for _, objs := range [][]objView{pre.Sets, pre.Batches, pre.Calls} {
			for _, x := range objs {
				if start <= x.H && !hasInt(x.Conf, r0.E) && pre.Height-x.H >= pre.Window {
					justified = true
				}
			}
		}
		if !justified {
			fail("C13:slash:unjustified", "oracle %d (joined %d, external %d) penalised at height %d although it confirmed every oracle set / batch / bridge call created since it joined that is older than the window %d",
				r0.A, start, r0.E, pre.Height, pre.Window)
		}
	}
	return out
}
