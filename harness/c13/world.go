package main

// world.go: one real fx-core chain with two crosschain modules; every operation of the C13
// operation language is executed through the REAL MsgServer (inside c.Try = what a tx does),
// blocks through the real FinalizeBlock/Commit (begin/end blockers, staking queue maturation).
// After each operation the projection the property is about is read back from the real stores.

import (
	"crypto/ecdsa"
	"encoding/hex"
	"fmt"
	"math/big"
	"sort"
	"strings"
	"time"

	sdkmath "cosmossdk.io/math"
	sdk "github.com/cosmos/cosmos-sdk/types"
	distrkeeper "github.com/cosmos/cosmos-sdk/x/distribution/keeper"
	distrtypes "github.com/cosmos/cosmos-sdk/x/distribution/types"
	stakingtypes "github.com/cosmos/cosmos-sdk/x/staking/types"
	"github.com/ethereum/go-ethereum/crypto"

	fxtypes "github.com/functionx/fx-core/v8/types"
	crosschainkeeper "github.com/functionx/fx-core/v8/x/crosschain/keeper"
	crosschaintypes "github.com/functionx/fx-core/v8/x/crosschain/types"
	trontypes "github.com/functionx/fx-core/v8/x/tron/types"

	"fxverif/lib"
)

const (
	nOracles  = 7  // oracle account ids 0..6
	nBridgers = 10 // bridger account ids 100..109 (100+i is oracle i's usual bridger)
	nExts     = 9  // external ids 200..208 (200+i is oracle i's usual external key)
	badVal    = 9  // validator id of an address that is no validator
)

// Op is one operation of a history (JSON = the replay format).
type Op struct {
	K   string   `json:"k"`             // fund bond add redel edit withdraw unbond gov params confirm addbatch execbatch observeset addcall delcall slashval slashpast jail unjail exportimport block
	M   int      `json:"m"`             // module index (ignored by block)
	A   int      `json:"a,omitempty"`   // oracle account id
	B   int      `json:"b,omitempty"`   // bridger account id
	E   int      `json:"e,omitempty"`   // external id
	V   int      `json:"v,omitempty"`   // validator id
	Amt string   `json:"amt,omitempty"` // amount in base units
	L   []int    `json:"l,omitempty"`   // governance list (oracle ids)
	P   []string `json:"p,omitempty"`   // threshold, multiple, slash fraction (scaled 1e18), signed window
	Obj string   `json:"obj,omitempty"` // confirm: set | batch | call
	N   int64    `json:"n,omitempty"`   // confirm / batch: nonce or batch id
	Sig int      `json:"sig,omitempty"` // confirm: 0 = signed with the key of E, 1 = signed with another key
	Dt  int64    `json:"dt,omitempty"`  // block: seconds the block time advances
}

type History struct {
	Seed    int64    `json:"chain_seed"`
	Modules []string `json:"modules"`
	Ops     []Op     `json:"ops"`
}

type oracleRec struct {
	A, B, E  int
	Amount   *big.Int
	Start    int64
	Online   bool
	V        int
	Slash    int64
	AddrStr  string
	ValidStr string
}

type objView struct {
	N, H int64
	Conf []int
}

// View: projection of the real state of one module (ids instead of addresses).
type View struct {
	Recs        []oracleRec
	ByB         [][2]int
	ByE         [][2]int
	Prop        []int
	Power       *big.Int
	Deleg       [][3]*big.Int // oracle, validator, SHARES (LegacyDec scaled 10^18)
	DelegTok    [][3]*big.Int // oracle, validator, token value of those shares at the validator's rate
	Vals        [][3]*big.Int // validator id, Tokens, DelegatorShares (scaled)
	LastObs     int64         // nonce of the last observed oracle set, -1 = none
	Ubds        [][4]*big.Int // oracle, validator, completion (s since genesis), balance
	BalO        []*big.Int
	BalD        []*big.Int
	Sets        []objView
	SlashedSet  int64
	Batches     []objView
	SlashedBat  int64
	Calls       []objView
	SlashedCall int64
	Height      int64
	Threshold   *big.Int
	Multiple    int64
	Fraction    *big.Int
	Window      int64
	rawIdxBad   string // raw index dump inconsistency found while decoding (monitor)
}

type modw struct {
	w        *world
	idx      int
	name     string
	x        *lib.XChain
	accKey   map[int]lib.Key
	extKey   map[int]*ecdsa.PrivateKey
	accID    map[string]int // bech32 -> id
	extID    map[string]int // external address string -> id
	token    string
	steps    []string // Coq step terms
	view0    string
	vals0    string
	initArg  string
	nsteps   int
	nextBat  int64
	nextCall int64
	user     lib.Key                                  // ordinary account that sends FX to the external chain (pool transactions)
	nSends   int                                      // pool transactions created so far (fees double each time)
	events   map[uint64]crosschaintypes.ExternalClaim // the external events reported so far, by event nonce
	stuck    bool                                     // an event did not reach quorum: no further events in this history
	exported bool                                     // a genesis export/import happened: id counters restarted, no new batches
}

type world struct {
	c      *lib.Chain
	mods   []*modw
	valID  map[string]int
	badV   sdk.ValAddress
	ubtime int64
	vstat  [][2]int64 // last reported status of each validator: 0 bonded / 1 unbonding / 2 unbonded, completion time
}

func newWorld(seed int64, modules []string) *world {
	c := lib.NewChain(seed, 3, nil)
	if err := c.NextBlock(); err != nil {
		panic(err)
	}
	w := &world{c: c, valID: map[string]int{}}
	for i, k := range c.ValKeys {
		w.valID[k.Val().String()] = i
	}
	w.badV = lib.CosmosKey(seed, "noval", 0).Val()
	w.valID[w.badV.String()] = badVal
	sp, err := c.App.StakingKeeper.GetParams(c.Ctx)
	lib.Must(err)
	w.ubtime = int64(sp.UnbondingTime / time.Second)
	// an ordinary delegator puts 20000 FX on every validator (real staking Delegate), so that staking slashes in the
	// histories never push a validator out of the bonded set (lib.NewChain gives them 100 FX each)
	other := lib.CosmosKey(seed, "c13/delegator", 0)
	c.Mint(other.Acc(), lib.FX(100000))
	for _, k := range c.ValKeys {
		val, e := c.App.StakingKeeper.GetValidator(c.Ctx, k.Val())
		lib.Must(e)
		_, e = c.App.StakingKeeper.Delegate(c.Ctx, other.Acc(), lib.FX(20000).Amount, stakingtypes.Unbonded, val, true)
		lib.Must(e)
	}
	for i, name := range modules {
		m := &modw{w: w, idx: i, name: name, x: c.X(name), accKey: map[int]lib.Key{}, extKey: map[int]*ecdsa.PrivateKey{},
			accID: map[string]int{}, extID: map[string]int{}, nextBat: 1, nextCall: 1}
		for a := 0; a < nOracles; a++ {
			m.accKey[a] = lib.EthKey(seed, "c13/oracle/"+name, a)
		}
		for b := 0; b < nBridgers; b++ {
			m.accKey[100+b] = lib.EthKey(seed, "c13/bridger/"+name, b)
		}
		for id, k := range m.accKey {
			m.accID[k.Acc().String()] = id
		}
		for e := 0; e < nExts; e++ {
			o := m.x.NewOracle(1000 + e) // lib derives a deterministic external key; only the key is used
			m.extKey[200+e] = o.External
			m.extID[o.ExtAddr] = 200 + e
		}
		m.token = crosschaintypes.ExternalAddrToStr(name, crypto.PubkeyToAddress(m.x.NewOracle(2000).External.PublicKey).Bytes())
		// real batches: FX is a bridge token of the module (what an attested BridgeTokenClaim does), an external block
		// height has been observed (needed for batch time-outs), and a user holds FX to send out
		lib.Must(m.x.Keeper.AddBridgeTokenExecuted(c.Ctx, &crosschaintypes.MsgBridgeTokenClaim{TokenContract: m.token, Name: "Function X",
			Symbol: fxtypes.DefaultDenom, Decimals: 18, ChainName: name}))
		m.x.Keeper.SetLastObservedBlockHeight(c.Ctx, 1000, uint64(c.Ctx.BlockHeight()))
		m.user = lib.EthKey(seed, "c13/user/"+name, 0)
		c.Mint(m.user.Acc(), lib.FX(1_000_000))
		m.events = map[uint64]crosschaintypes.ExternalClaim{}
		w.mods = append(w.mods, m)
	}
	return w
}

func (m *modw) acc(id int) sdk.AccAddress { return m.accKey[id].Acc() }
func (m *modw) extAddr(e int) string {
	return crosschaintypes.ExternalAddrToStr(m.name, crypto.PubkeyToAddress(m.extKey[e].PublicKey).Bytes())
}
func (m *modw) delegateAddr(a int) sdk.AccAddress {
	o := crosschaintypes.Oracle{OracleAddress: m.acc(a).String()}
	return o.GetDelegateAddress(m.name)
}
func (w *world) val(v int) sdk.ValAddress {
	if v >= 0 && v < len(w.c.ValKeys) {
		return w.c.ValKeys[v].Val()
	}
	return w.badV
}

func bigOf(s string) *big.Int {
	n, ok := new(big.Int).SetString(s, 10)
	if !ok {
		panic("bad integer " + s)
	}
	return n
}
func coin(s string) sdk.Coin {
	return sdk.NewCoin(fxtypes.DefaultDenom, sdkmath.NewIntFromBigInt(bigOf(s)))
}

// pendingReward: what the distribution module would pay the delegate address of oracle a for its
// delegation to validator v right now (0 when there is no such delegation).
func (m *modw) pendingReward(a int, v sdk.ValAddress) *big.Int {
	c := m.w.c
	da := m.delegateAddr(a)
	if _, err := c.App.StakingKeeper.GetDelegation(c.Ctx, da, v); err != nil {
		return big.NewInt(0)
	}
	cctx, _ := c.Ctx.CacheContext()
	resp, err := distrkeeper.NewQuerier(c.App.DistrKeeper).DelegationRewards(cctx, &distrtypes.QueryDelegationRewardsRequest{
		DelegatorAddress: da.String(), ValidatorAddress: v.String()})
	if err != nil {
		return big.NewInt(0)
	}
	return resp.Rewards.AmountOf(fxtypes.DefaultDenom).TruncateInt().BigInt()
}

func (m *modw) record(a int) (crosschaintypes.Oracle, bool) {
	return m.x.Keeper.GetOracle(m.w.c.Ctx, m.acc(a))
}

func classOf(err error) int {
	if err == nil {
		return 0
	}
	if strings.HasPrefix(err.Error(), "PANIC") {
		return 2
	}
	return 1
}

// apply executes op on the real chain. It returns the Coq term(s) of the model operation per
// module (block ops concern every module), with the observed class.
type applied struct {
	mod   int
	coqOp string
	class int
	err   string
}

func (w *world) apply(op Op) []applied {
	c := w.c
	if op.K == "block" {
		pre := make([]uint64, len(w.mods))
		for i, m := range w.mods {
			pre[i] = m.x.Keeper.GetLatestOracleSetNonce(c.Ctx)
		}
		dt := op.Dt
		if dt <= 0 {
			dt = int64(lib.BlockStep / time.Second)
		}
		err := c.NextBlockAfter(time.Duration(dt) * time.Second)
		tEnd := int64(c.Time.Sub(lib.GenesisTime) / time.Second)
		tNext := int64(c.Ctx.BlockTime().Sub(lib.GenesisTime) / time.Second)
		var res []applied
		for i, m := range w.mods {
			pd := m.x.Keeper.GetLatestOracleSetNonce(c.Ctx) > pre[i]
			a := applied{mod: i, coqOp: fmt.Sprintf("EndBlock %d %d %s", tEnd, tNext, lib.Bool(pd)), class: classOf(err)}
			if err != nil {
				a.err = err.Error()
			}
			res = append(res, a)
		}
		return res
	}
	m := w.mods[op.M]
	x := m.x
	var err error
	var coqOp string
	try := func(basic func() error, f func(ctx sdk.Context) error) {
		if basic != nil {
			if e := basic(); e != nil {
				err = e
				return
			}
		}
		err = c.Try(f)
	}
	switch op.K {
	case "fund":
		c.Mint(m.acc(op.A), coin(op.Amt))
		coqOp = fmt.Sprintf("Fund %d %s", op.A, op.Amt)
	case "bond":
		msg := &crosschaintypes.MsgBondedOracle{OracleAddress: m.acc(op.A).String(), BridgerAddress: m.acc(op.B).String(),
			ExternalAddress: m.extAddr(op.E), ValidatorAddress: w.val(op.V).String(), DelegateAmount: coin(op.Amt), ChainName: m.name}
		try(msg.ValidateBasic, func(ctx sdk.Context) error { _, e := x.Msg().BondedOracle(ctx, msg); return e })
		coqOp = fmt.Sprintf("Bond %d %d %d %d %s", op.A, op.B, op.E, op.V, op.Amt)
	case "add":
		rw := big.NewInt(0)
		if rec, ok := m.record(op.A); ok {
			rw = m.pendingReward(op.A, rec.GetValidator())
		}
		msg := &crosschaintypes.MsgAddDelegate{OracleAddress: m.acc(op.A).String(), Amount: coin(op.Amt), ChainName: m.name}
		try(msg.ValidateBasic, func(ctx sdk.Context) error { _, e := x.Msg().AddDelegate(ctx, msg); return e })
		coqOp = fmt.Sprintf("AddDelegate %d %s %s", op.A, op.Amt, rw)
	case "redel":
		rw := big.NewInt(0)
		if rec, ok := m.record(op.A); ok {
			rw = m.pendingReward(op.A, rec.GetValidator())
		}
		msg := &crosschaintypes.MsgReDelegate{OracleAddress: m.acc(op.A).String(), ValidatorAddress: w.val(op.V).String(), ChainName: m.name}
		try(msg.ValidateBasic, func(ctx sdk.Context) error { _, e := x.Msg().ReDelegate(ctx, msg); return e })
		coqOp = fmt.Sprintf("ReDelegate %d %d %s", op.A, op.V, rw)
	case "edit":
		// MsgEditBridger.ValidateBasic parses the bridger with ValAddressFromBech32 (it can never hold for an
		// account address); the handler is driven directly.
		msg := &crosschaintypes.MsgEditBridger{OracleAddress: m.acc(op.A).String(), BridgerAddress: m.acc(op.B).String(), ChainName: m.name}
		try(nil, func(ctx sdk.Context) error { _, e := x.Msg().EditBridger(ctx, msg); return e })
		coqOp = fmt.Sprintf("EditBridger %d %d", op.A, op.B)
	case "withdraw":
		rw := big.NewInt(0)
		if rec, ok := m.record(op.A); ok {
			rw = m.pendingReward(op.A, rec.GetValidator())
		}
		msg := &crosschaintypes.MsgWithdrawReward{OracleAddress: m.acc(op.A).String(), ChainName: m.name}
		try(msg.ValidateBasic, func(ctx sdk.Context) error { _, e := x.Msg().WithdrawReward(ctx, msg); return e })
		coqOp = fmt.Sprintf("WithdrawReward %d %s", op.A, rw)
	case "unbond":
		msg := &crosschaintypes.MsgUnbondedOracle{OracleAddress: m.acc(op.A).String(), ChainName: m.name}
		try(msg.ValidateBasic, func(ctx sdk.Context) error { _, e := x.Msg().UnbondedOracle(ctx, msg); return e })
		coqOp = fmt.Sprintf("Unbond %d", op.A)
	case "gov":
		var rws []string
		for a := 0; a < nOracles; a++ {
			if rec, ok := m.record(a); ok {
				if r := m.pendingReward(a, rec.GetValidator()); r.Sign() != 0 {
					rws = append(rws, lib.Pair(fmt.Sprint(a), r.String()))
				}
			}
		}
		var addrs []string
		var ids []string
		for _, a := range op.L {
			addrs = append(addrs, m.acc(a).String())
			ids = append(ids, fmt.Sprint(a))
		}
		msg := &crosschaintypes.MsgUpdateChainOracles{ChainName: m.name, Authority: lib.GovAuthority(), Oracles: addrs}
		try(msg.ValidateBasic, func(ctx sdk.Context) error { _, e := x.Msg().UpdateChainOracles(ctx, msg); return e })
		coqOp = fmt.Sprintf("GovSet %s %s", lib.List(ids), lib.List(rws))
	case "params":
		p := x.Keeper.GetParams(c.Ctx)
		p.DelegateThreshold = coin(op.P[0])
		p.DelegateMultiple = bigOf(op.P[1]).Int64()
		p.SlashFraction = sdkmath.LegacyNewDecFromBigIntWithPrec(bigOf(op.P[2]), 18)
		p.SignedWindow = bigOf(op.P[3]).Uint64()
		msg := &crosschaintypes.MsgUpdateParams{ChainName: m.name, Authority: lib.GovAuthority(), Params: p}
		try(msg.ValidateBasic, func(ctx sdk.Context) error { _, e := x.Msg().UpdateParams(ctx, msg); return e })
		coqOp = fmt.Sprintf("SetParams (mkParams %s %s %s %s)", op.P[0], op.P[1], op.P[2], op.P[3])
	case "confirm":
		signer := m.extKey[op.E]
		if op.Sig == 1 {
			signer = m.extKey[200+(op.E-200+1)%nExts]
		}
		gravityID := x.Keeper.GetGravityID(c.Ctx)
		if op.Obj == "set" {
			sig := "00"
			if set := x.Keeper.GetOracleSet(c.Ctx, uint64(op.N)); set != nil {
				sig = hex.EncodeToString(m.sign(signer, func() ([]byte, error) {
					if m.name == trontypes.ModuleName {
						return trontypes.GetCheckpointOracleSet(set, gravityID)
					}
					return set.GetCheckpoint(gravityID)
				}))
			}
			msg := &crosschaintypes.MsgOracleSetConfirm{Nonce: uint64(op.N), BridgerAddress: m.acc(op.B).String(),
				ExternalAddress: m.extAddr(op.E), Signature: sig, ChainName: m.name}
			try(msg.ValidateBasic, func(ctx sdk.Context) error { _, e := x.Msg().OracleSetConfirm(ctx, msg); return e })
			coqOp = fmt.Sprintf("Confirm KSet %d %d %d %s", op.N, op.B, op.E, lib.Bool(op.Sig == 0))
		} else if op.Obj == "call" {
			sig := "00"
			if oc, found := x.Keeper.GetOutgoingBridgeCallByNonce(c.Ctx, uint64(op.N)); found {
				sig = hex.EncodeToString(m.sign(signer, func() ([]byte, error) {
					if m.name == trontypes.ModuleName {
						return trontypes.GetCheckpointBridgeCall(oc, gravityID)
					}
					return oc.GetCheckpoint(gravityID)
				}))
			}
			msg := &crosschaintypes.MsgBridgeCallConfirm{Nonce: uint64(op.N), BridgerAddress: m.acc(op.B).String(),
				ExternalAddress: m.extAddr(op.E), Signature: sig, ChainName: m.name}
			try(msg.ValidateBasic, func(ctx sdk.Context) error { _, e := x.Msg().BridgeCallConfirm(ctx, msg); return e })
			coqOp = fmt.Sprintf("Confirm KCall %d %d %d %s", op.N, op.B, op.E, lib.Bool(op.Sig == 0))
		} else {
			sig := "00"
			if b := x.Keeper.GetOutgoingTxBatch(c.Ctx, m.token, uint64(op.N)); b != nil {
				sig = hex.EncodeToString(m.sign(signer, func() ([]byte, error) {
					if m.name == trontypes.ModuleName {
						return trontypes.GetCheckpointConfirmBatch(b, gravityID)
					}
					return b.GetCheckpoint(gravityID)
				}))
			}
			msg := &crosschaintypes.MsgConfirmBatch{Nonce: uint64(op.N), TokenContract: m.token, BridgerAddress: m.acc(op.B).String(),
				ExternalAddress: m.extAddr(op.E), Signature: sig, ChainName: m.name}
			try(msg.ValidateBasic, func(ctx sdk.Context) error { _, e := x.Msg().ConfirmBatch(ctx, msg); return e })
			coqOp = fmt.Sprintf("Confirm KBatch %d %d %d %s", op.N, op.B, op.E, lib.Bool(op.Sig == 0))
		}
	case "addbatch":
		// a REAL batch: a user sends FX to the external chain (pool transaction whose fee exceeds everything before, so
		// the batch is "more profitable" than the live ones), then a bridger requests the batch
		sender := ""
		for _, kv := range c.DumpPrefix(c.Ctx, m.name, crosschaintypes.OracleAddressByBridgerKey) {
			sender = sdk.AccAddress(kv.K[1:]).String()
			break
		}
		if sender == "" || m.exported {
			return nil
		}
		dest := crosschaintypes.ExternalAddrToStr(m.name, crypto.PubkeyToAddress(m.extKey[200].PublicKey).Bytes())
		fee := new(big.Int).Lsh(big.NewInt(1_000_000_000), uint(m.nSends))
		m.nSends++
		send := &crosschaintypes.MsgSendToExternal{Sender: m.user.Acc().String(), Dest: dest, ChainName: m.name,
			Amount: sdk.NewCoin(fxtypes.DefaultDenom, sdkmath.NewInt(1000)), BridgeFee: sdk.NewCoin(fxtypes.DefaultDenom, sdkmath.NewIntFromBigInt(fee))}
		lib.Must(send.ValidateBasic())
		lib.Must(c.Try(func(ctx sdk.Context) error { _, e := x.Msg().SendToExternal(ctx, send); return e }))
		req := &crosschaintypes.MsgRequestBatch{Sender: sender, Denom: fxtypes.DefaultDenom, MinimumFee: sdkmath.NewInt(1), FeeReceive: dest,
			ChainName: m.name, BaseFee: sdkmath.ZeroInt()}
		nonce := uint64(m.nextBat)
		try(req.ValidateBasic, func(ctx sdk.Context) error {
			resp, e := x.Msg().RequestBatch(ctx, req)
			if e == nil {
				nonce = resp.BatchNonce
			}
			return e
		})
		if err == nil {
			m.nextBat = int64(nonce) + 1
		}
		coqOp = fmt.Sprintf("AddBatch %d", nonce)
	case "execbatch":
		// the batch was executed on the external chain: every online oracle reports the SendToExternal event through the
		// real claim path (catching up on earlier events first); the observed event runs OutgoingTxBatchExecuted
		if x.Keeper.GetOutgoingTxBatch(c.Ctx, m.token, uint64(op.N)) == nil || m.stuck || !m.quorumOnline() {
			return nil
		}
		if !m.observe(&crosschaintypes.MsgSendToExternalClaim{BlockHeight: 1000, BatchNonce: uint64(op.N), TokenContract: m.token, ChainName: m.name}) {
			m.stuck = true
			return nil
		}
		coqOp = fmt.Sprintf("ExecBatch %d", op.N)
	case "observeset":
		// the external chain switched to oracle set N: every online oracle reports the OracleSetUpdated event (real claims)
		set := x.Keeper.GetOracleSet(c.Ctx, uint64(op.N))
		if set == nil || m.stuck || !m.quorumOnline() {
			return nil
		}
		for _, mem := range set.Members { // claimLogicCheck: every member must still be a registered external address
			if !x.Keeper.HasOracleAddrByExternalAddr(c.Ctx, mem.ExternalAddress) {
				return nil
			}
		}
		if !m.observe(&crosschaintypes.MsgOracleSetUpdatedClaim{BlockHeight: 1000, OracleSetNonce: set.Nonce, Members: set.Members, ChainName: m.name}) {
			m.stuck = true
			return nil
		}
		coqOp = fmt.Sprintf("ObserveSet %d", op.N)
	case "exportimport":
		// chain restart from exported state, for this module: real ExportGenesis, empty store, real InitGenesis
		try(nil, func(ctx sdk.Context) error {
			gs := crosschainkeeper.ExportGenesis(ctx, x.Keeper)
			store := ctx.KVStore(c.App.GetKey(m.name))
			var keys [][]byte
			it := store.Iterator(nil, nil)
			for ; it.Valid(); it.Next() {
				keys = append(keys, append([]byte{}, it.Key()...))
			}
			it.Close()
			for _, k := range keys {
				store.Delete(k)
			}
			crosschainkeeper.InitGenesis(ctx, x.Keeper, gs)
			return nil
		})
		m.exported = true
		coqOp = "ExportImport"
	case "slashval":
		// the staking module slashes validator V (what evidence / downtime handling does), infraction at the current height
		amount := big.NewInt(0)
		if !w.bonded(op.V) {
			return nil
		}
		if op.V >= 0 && op.V < len(c.ValKeys) {
			val, e := c.App.StakingKeeper.GetValidator(c.Ctx, w.val(op.V))
			lib.Must(e)
			power := val.ConsensusPower(sdk.DefaultPowerReduction)
			frac := sdkmath.LegacyNewDecFromBigIntWithPrec(bigOf(op.Amt), 18)
			amount = sdkmath.LegacyNewDecFromInt(sdk.TokensFromConsensusPower(power, sdk.DefaultPowerReduction)).Mul(frac).TruncateInt().BigInt()
			cons, e := val.GetConsAddr()
			lib.Must(e)
			try(nil, func(ctx sdk.Context) error {
				_, e := c.App.StakingKeeper.Slash(ctx, cons, ctx.BlockHeight(), power, frac)
				return e
			})
		}
		var res []applied
		for i := range w.mods {
			a := applied{mod: i, coqOp: fmt.Sprintf("SlashVal %d %s", op.V, amount), class: classOf(err)}
			if err != nil {
				a.err = err.Error()
			}
			res = append(res, a)
		}
		return res
	case "slashpast":
		// the staking module slashes validator V for an infraction op.N blocks ago (evidence / downtime handling): besides
		// the validator's tokens this cuts unbonding entries and redelegations created since then
		if op.V < 0 || op.V >= len(c.ValKeys) {
			return nil
		}
		val, e := c.App.StakingKeeper.GetValidator(c.Ctx, w.val(op.V))
		lib.Must(e)
		hinf := c.Ctx.BlockHeight() - op.N
		if hinf < 1 || op.N < 1 || !val.IsBonded() {
			return nil
		}
		rws := make([][]string, len(w.mods))
		for i, mm := range w.mods {
			for a := 0; a < nOracles; a++ {
				if rec, ok := mm.record(a); ok {
					if r := mm.pendingReward(a, rec.GetValidator()); r.Sign() != 0 {
						rws[i] = append(rws[i], lib.Pair(fmt.Sprint(a), r.String()))
					}
				}
			}
		}
		frac := sdkmath.LegacyNewDecFromBigIntWithPrec(bigOf(op.Amt), 18)
		cons, e := val.GetConsAddr()
		lib.Must(e)
		err = c.Try(func(ctx sdk.Context) error {
			_, e := c.App.StakingKeeper.Slash(ctx, cons, hinf, val.ConsensusPower(sdk.DefaultPowerReduction), frac)
			return e
		})
		var vs []string
		for i, k := range c.ValKeys {
			v2, e := c.App.StakingKeeper.GetValidator(c.Ctx, k.Val())
			lib.Must(e)
			vs = append(vs, fmt.Sprintf("(%d, %s, %s)", i, v2.Tokens, v2.DelegatorShares.BigInt()))
		}
		var res []applied
		for i := range w.mods {
			a := applied{mod: i, coqOp: fmt.Sprintf("SlashValPast %d %d %s %s %s", op.V, hinf, op.Amt, lib.List(vs), lib.List(rws[i])), class: classOf(err)}
			if err != nil {
				a.err = err.Error()
			}
			res = append(res, a)
		}
		return res
	case "jail", "unjail":
		// the validator is jailed (downtime / double sign) or comes back: it leaves / re-enters the bonded set at the end
		// of the block (observed, see statusSteps)
		if op.V < 0 || op.V >= len(c.ValKeys) {
			return nil
		}
		val, e := c.App.StakingKeeper.GetValidator(c.Ctx, w.val(op.V))
		lib.Must(e)
		cons, e := val.GetConsAddr()
		lib.Must(e)
		if (op.K == "jail") == val.Jailed {
			return nil
		}
		if op.K == "jail" {
			jailed := 0
			for _, k := range c.ValKeys {
				if v2, _ := c.App.StakingKeeper.GetValidator(c.Ctx, k.Val()); v2.Jailed {
					jailed++
				}
			}
			if jailed >= len(c.ValKeys)-1 {
				return nil // keep a validator set
			}
			lib.Must(c.App.StakingKeeper.Jail(c.Ctx, cons))
		} else {
			lib.Must(c.App.StakingKeeper.Unjail(c.Ctx, cons))
		}
		return nil
	case "addcall":
		// like batches: the object is stored with the keeper's own setter (its construction is C05/C06 matter)
		dest := crosschaintypes.ExternalAddrToStr(m.name, crypto.PubkeyToAddress(m.extKey[200].PublicKey).Bytes())
		oc := &crosschaintypes.OutgoingBridgeCall{Sender: dest, Refund: dest, To: dest, Nonce: uint64(m.nextCall), Timeout: 1 << 40,
			BlockHeight: uint64(c.Ctx.BlockHeight())}
		m.nextCall++
		try(nil, func(ctx sdk.Context) error { x.Keeper.AddOutgoingBridgeCallWithoutBuild(ctx, oc); return nil })
		coqOp = "AddCall"
	case "delcall":
		try(nil, func(ctx sdk.Context) error { x.Keeper.DeleteOutgoingBridgeCallRecord(ctx, uint64(op.N)); return nil })
		coqOp = fmt.Sprintf("DelCall %d", op.N)
	default:
		panic("unknown op " + op.K)
	}
	a := applied{mod: op.M, coqOp: coqOp, class: classOf(err)}
	if err != nil {
		a.err = err.Error()
	}
	return []applied{a}
}

func (m *modw) sign(k *ecdsa.PrivateKey, checkpoint func() ([]byte, error)) []byte {
	cp, err := checkpoint()
	lib.Must(err)
	var sig []byte
	if m.name == trontypes.ModuleName {
		sig, err = trontypes.NewTronSignature(cp, k)
	} else {
		sig, err = crosschaintypes.NewEthereumSignature(cp, k)
	}
	lib.Must(err)
	return sig
}

// ---------- reading the projection back from the real stores ----------

func (m *modw) view() *View {
	c := m.w.c
	ctx := c.Ctx
	x := m.x
	v := &View{Height: ctx.BlockHeight()}
	p := x.Keeper.GetParams(ctx)
	v.Threshold = p.DelegateThreshold.Amount.BigInt()
	v.Multiple = p.DelegateMultiple
	v.Fraction = p.SlashFraction.BigInt()
	v.Window = int64(p.SignedWindow)
	id := func(addr string) int {
		if i, ok := m.accID[addr]; ok {
			return i
		}
		return -1
	}
	// raw dumps of the record store and the two reverse indexes (prefixes of types/key.go)
	var bad []string
	for _, kv := range c.DumpPrefix(ctx, m.name, crosschaintypes.OracleKey) {
		var o crosschaintypes.Oracle
		c.App.AppCodec().MustUnmarshal(kv.V, &o)
		if sdk.AccAddress(kv.K[1:]).String() != o.OracleAddress {
			bad = append(bad, "record stored under a key that is not its oracle address")
		}
		ve, ok := m.w.valID[o.DelegateValidator]
		if !ok {
			ve = -1
		}
		e, ok := m.extID[o.ExternalAddress]
		if !ok {
			e = -1
		}
		v.Recs = append(v.Recs, oracleRec{A: id(o.OracleAddress), B: id(o.BridgerAddress), E: e, Amount: o.DelegateAmount.BigInt(),
			Start: o.StartHeight, Online: o.Online, V: ve, Slash: o.SlashTimes, AddrStr: o.OracleAddress, ValidStr: o.DelegateValidator})
	}
	sort.Slice(v.Recs, func(i, j int) bool { return v.Recs[i].A < v.Recs[j].A })
	for _, kv := range c.DumpPrefix(ctx, m.name, crosschaintypes.OracleAddressByBridgerKey) {
		v.ByB = append(v.ByB, [2]int{id(sdk.AccAddress(kv.K[1:]).String()), id(sdk.AccAddress(kv.V).String())})
	}
	sort.Slice(v.ByB, func(i, j int) bool { return v.ByB[i][0] < v.ByB[j][0] })
	for _, kv := range c.DumpPrefix(ctx, m.name, crosschaintypes.OracleAddressByExternalKey) {
		e, ok := m.extID[string(kv.K[1:])]
		if !ok {
			e = -1
		}
		v.ByE = append(v.ByE, [2]int{e, id(sdk.AccAddress(kv.V).String())})
	}
	sort.Slice(v.ByE, func(i, j int) bool { return v.ByE[i][0] < v.ByE[j][0] })
	v.rawIdxBad = strings.Join(bad, "; ")
	po, _ := x.Keeper.GetProposalOracle(ctx)
	for _, a := range po.Oracles {
		v.Prop = append(v.Prop, id(a))
	}
	v.Power = x.Keeper.GetLastTotalPower(ctx).BigInt()
	for a := 0; a < nOracles; a++ {
		da := m.delegateAddr(a)
		v.BalO = append(v.BalO, c.App.BankKeeper.GetBalance(ctx, m.acc(a), fxtypes.DefaultDenom).Amount.BigInt())
		v.BalD = append(v.BalD, c.App.BankKeeper.GetBalance(ctx, da, fxtypes.DefaultDenom).Amount.BigInt())
		dels, err := c.App.StakingKeeper.GetAllDelegatorDelegations(ctx, da)
		lib.Must(err)
		var ds [][3]*big.Int
		for _, d := range dels {
			val, err := c.App.StakingKeeper.GetValidator(ctx, mustVal(d.ValidatorAddress))
			lib.Must(err)
			tok := val.TokensFromShares(d.Shares).TruncateInt().BigInt()
			ds = append(ds, [3]*big.Int{big.NewInt(int64(a)), big.NewInt(int64(m.w.valID[d.ValidatorAddress])), d.Shares.BigInt()})
			v.DelegTok = append(v.DelegTok, [3]*big.Int{big.NewInt(int64(a)), big.NewInt(int64(m.w.valID[d.ValidatorAddress])), tok})
		}
		sort.Slice(ds, func(i, j int) bool { return ds[i][1].Cmp(ds[j][1]) < 0 })
		v.Deleg = append(v.Deleg, ds...)
		ubds, err := c.App.StakingKeeper.GetAllUnbondingDelegations(ctx, da)
		lib.Must(err)
		sort.Slice(ubds, func(i, j int) bool { return m.w.valID[ubds[i].ValidatorAddress] < m.w.valID[ubds[j].ValidatorAddress] })
		for _, u := range ubds {
			for _, e := range u.Entries {
				v.Ubds = append(v.Ubds, [4]*big.Int{big.NewInt(int64(a)), big.NewInt(int64(m.w.valID[u.ValidatorAddress])),
					big.NewInt(int64(e.CompletionTime.Sub(lib.GenesisTime) / time.Second)), e.Balance.BigInt()})
			}
		}
	}
	for i, k := range c.ValKeys {
		val, err := c.App.StakingKeeper.GetValidator(ctx, k.Val())
		lib.Must(err)
		v.Vals = append(v.Vals, [3]*big.Int{big.NewInt(int64(i)), val.Tokens.BigInt(), val.DelegatorShares.BigInt()})
	}
	for _, s := range x.Keeper.GetOracleSets(ctx) {
		ov := objView{N: int64(s.Nonce), H: int64(s.Height)}
		x.Keeper.IterateOracleSetConfirmByNonce(ctx, s.Nonce, func(cf *crosschaintypes.MsgOracleSetConfirm) bool {
			ov.Conf = append(ov.Conf, m.extID[cf.ExternalAddress])
			return false
		})
		sort.Ints(ov.Conf)
		v.Sets = append(v.Sets, ov)
	}
	sort.Slice(v.Sets, func(i, j int) bool { return v.Sets[i].N < v.Sets[j].N })
	v.SlashedSet = int64(x.Keeper.GetLastSlashedOracleSetNonce(ctx))
	x.Keeper.IterateBatchByBlockHeight(ctx, 0, 1<<62, func(b *crosschaintypes.OutgoingTxBatch) bool {
		ov := objView{N: int64(b.BatchNonce), H: int64(b.Block)}
		x.Keeper.IterateBatchConfirmByNonceAndTokenContract(ctx, b.BatchNonce, b.TokenContract, func(cf *crosschaintypes.MsgConfirmBatch) bool {
			ov.Conf = append(ov.Conf, m.extID[cf.ExternalAddress])
			return false
		})
		sort.Ints(ov.Conf)
		v.Batches = append(v.Batches, ov)
		return false
	})
	v.SlashedBat = int64(x.Keeper.GetLastSlashedBatchBlock(ctx))
	x.Keeper.IterateOutgoingBridgeCalls(ctx, func(oc *crosschaintypes.OutgoingBridgeCall) bool {
		ov := objView{N: int64(oc.Nonce), H: int64(oc.BlockHeight)}
		x.Keeper.IterBridgeCallConfirmByNonce(ctx, oc.Nonce, func(cf *crosschaintypes.MsgBridgeCallConfirm) bool {
			ov.Conf = append(ov.Conf, m.extID[cf.ExternalAddress])
			return false
		})
		sort.Ints(ov.Conf)
		v.Calls = append(v.Calls, ov)
		return false
	})
	sort.Slice(v.Calls, func(i, j int) bool { return v.Calls[i].N < v.Calls[j].N })
	v.SlashedCall = int64(x.Keeper.GetLastSlashedBridgeCallNonce(ctx))
	v.LastObs = -1
	if lo := x.Keeper.GetLastObservedOracleSet(ctx); lo != nil {
		v.LastObs = int64(lo.Nonce)
	}
	return v
}

// ---------- Coq printing ----------

func coqObjs(os []objView) string {
	var items []string
	for _, o := range os {
		items = append(items, coqObj(o))
	}
	return lib.List(items)
}

func coqRec(r oracleRec) string {
	return fmt.Sprintf("mkOracle %s %s %s %s %d %s %s %d", lib.Z(int64(r.A)), lib.Z(int64(r.B)), lib.Z(int64(r.E)), r.Amount, r.Start,
		lib.Bool(r.Online), lib.Z(int64(r.V)), r.Slash)
}
func coqObj(o objView) string {
	var cs []string
	for _, e := range o.Conf {
		cs = append(cs, fmt.Sprint(e))
	}
	return fmt.Sprintf("(%d, %d, %s)", o.N, o.H, lib.List(cs))
}
func coqPairs(ps [][2]int) string {
	var out []string
	for _, p := range ps {
		out = append(out, lib.Pair(lib.Z(int64(p[0])), lib.Z(int64(p[1]))))
	}
	return lib.List(out)
}
func coqInts(l []int) string {
	var out []string
	for _, a := range l {
		out = append(out, lib.Z(int64(a)))
	}
	return lib.List(out)
}
func coqDeleg(ds [][3]*big.Int) string {
	var out []string
	for _, d := range ds {
		out = append(out, fmt.Sprintf("(%s, %s, %s)", d[0], d[1], d[2]))
	}
	return lib.List(out)
}
func coqUbds(us [][4]*big.Int) string {
	var out []string
	for _, u := range us {
		out = append(out, fmt.Sprintf("(%s, %s, %s, %s)", u[0], u[1], u[2], u[3]))
	}
	return lib.List(out)
}

func (v *View) coq() string {
	var recs, bo, bd []string
	for _, r := range v.Recs {
		recs = append(recs, coqRec(r))
	}
	for _, b := range v.BalO {
		bo = append(bo, b.String())
	}
	for _, b := range v.BalD {
		bd = append(bd, b.String())
	}
	return fmt.Sprintf("(mkView %s %s %s %s %s %s %s %s %s %s %d %s %d %s %d %s %s)", lib.List(recs), coqPairs(v.ByB), coqPairs(v.ByE), coqInts(v.Prop),
		v.Power, coqDeleg(v.Deleg), coqUbds(v.Ubds), lib.List(bo), lib.List(bd), coqObjs(v.Sets), v.SlashedSet, coqObjs(v.Batches), v.SlashedBat,
		coqObjs(v.Calls), v.SlashedCall, coqDeleg(v.Vals), lib.Z(v.LastObs))
}

// deltas: Coq list of vdelta turning the previous observed view into this one
func (v *View) deltas(p *View) string {
	var ds []string
	seen := map[int]bool{}
	for _, r := range v.Recs {
		seen[r.A] = true
		if q := p.rec(r.A); q == nil || coqRec(*q) != coqRec(r) {
			ds = append(ds, fmt.Sprintf("DRec %s (Some (%s))", lib.Z(int64(r.A)), coqRec(r)))
		}
	}
	for _, q := range p.Recs {
		if !seen[q.A] {
			ds = append(ds, fmt.Sprintf("DRec %s None", lib.Z(int64(q.A))))
		}
	}
	if a, b := coqPairs(v.ByB), coqPairs(p.ByB); a != b {
		ds = append(ds, "DByB "+a)
	}
	if a, b := coqPairs(v.ByE), coqPairs(p.ByE); a != b {
		ds = append(ds, "DByE "+a)
	}
	if a, b := coqInts(v.Prop), coqInts(p.Prop); a != b {
		ds = append(ds, "DProp "+a)
	}
	if v.Power.Cmp(p.Power) != 0 {
		ds = append(ds, "DPower "+v.Power.String())
	}
	if a, b := coqDeleg(v.Deleg), coqDeleg(p.Deleg); a != b {
		ds = append(ds, "DDeleg "+a)
	}
	if a, b := coqUbds(v.Ubds), coqUbds(p.Ubds); a != b {
		ds = append(ds, "DUbds "+a)
	}
	for i := range v.BalO {
		if v.BalO[i].Cmp(p.BalO[i]) != 0 {
			ds = append(ds, fmt.Sprintf("DBalO %d %s", i, v.BalO[i]))
		}
		if v.BalD[i].Cmp(p.BalD[i]) != 0 {
			ds = append(ds, fmt.Sprintf("DBalD %d %s", i, v.BalD[i]))
		}
	}
	objDelta := func(cur, old []objView, one, all string) {
		if len(cur) < len(old) {
			ds = append(ds, all+" "+coqObjs(cur))
			return
		}
		for i, o := range cur {
			if i < len(old) && old[i].N != o.N {
				ds = append(ds, all+" "+coqObjs(cur))
				return
			}
		}
		for i, o := range cur {
			if i >= len(old) || coqObj(old[i]) != coqObj(o) {
				ds = append(ds, one+" "+coqObj(o))
			}
		}
	}
	objDelta(v.Sets, p.Sets, "DSet", "DSets")
	if v.SlashedSet != p.SlashedSet {
		ds = append(ds, fmt.Sprintf("DSlashedSet %d", v.SlashedSet))
	}
	objDelta(v.Batches, p.Batches, "DBatch", "DBatches")
	if v.SlashedBat != p.SlashedBat {
		ds = append(ds, fmt.Sprintf("DSlashedBat %d", v.SlashedBat))
	}
	for i := range v.Vals {
		if v.Vals[i][1].Cmp(p.Vals[i][1]) != 0 || v.Vals[i][2].Cmp(p.Vals[i][2]) != 0 {
			ds = append(ds, fmt.Sprintf("DVal (%s, %s, %s)", v.Vals[i][0], v.Vals[i][1], v.Vals[i][2]))
		}
	}
	if v.LastObs != p.LastObs {
		ds = append(ds, "DLastObs "+lib.Z(v.LastObs))
	}
	objDelta(v.Calls, p.Calls, "DCall", "DCalls")
	if v.SlashedCall != p.SlashedCall {
		ds = append(ds, fmt.Sprintf("DSlashedCall %d", v.SlashedCall))
	}
	return lib.List(ds)
}

func mustVal(s string) sdk.ValAddress {
	v, err := sdk.ValAddressFromBech32(s)
	lib.Must(err)
	return v
}

// quorumOnline: would the votes of all online oracles reach the attestation threshold (66 % of LastTotalPower)?
func (m *modw) quorumOnline() bool {
	ctx := m.w.c.Ctx
	sum := sdkmath.ZeroInt()
	for _, o := range m.x.Keeper.GetAllOracles(ctx, true) {
		sum = sum.Add(o.GetPower())
	}
	need := crosschaintypes.AttestationVotesPowerThreshold.Mul(m.x.Keeper.GetLastTotalPower(ctx)).Quo(sdkmath.NewInt(100))
	return sum.IsPositive() && sum.GTE(need)
}

func cloneClaim(c crosschaintypes.ExternalClaim, nonce uint64) crosschaintypes.ExternalClaim {
	switch x := c.(type) {
	case *crosschaintypes.MsgSendToExternalClaim:
		y := *x
		y.EventNonce = nonce
		return &y
	case *crosschaintypes.MsgOracleSetUpdatedClaim:
		y := *x
		y.EventNonce = nonce
		return &y
	}
	panic("unknown claim")
}

// observe: the next external event (nonce lastObserved+1) is voted by every online oracle, each one first re-reporting
// the earlier events it has not voted on yet (the same claims, from the log). True when the event became observed.
func (m *modw) observe(claim crosschaintypes.ExternalClaim) bool {
	c := m.w.c
	k := m.x.Keeper
	target := k.GetLastObservedEventNonce(c.Ctx) + 1
	m.events[target] = cloneClaim(claim, target)
	for _, o := range k.GetAllOracles(c.Ctx, true) {
		id, ok := m.accID[o.BridgerAddress]
		if !ok {
			continue
		}
		voter := &lib.Oracle{Bridger: m.accKey[id]}
		for n := k.GetLastEventNonceByOracle(c.Ctx, o.GetOracle()) + 1; n <= target; n++ {
			ev, ok := m.events[n]
			if !ok {
				break
			}
			if err := m.x.Claim(voter, cloneClaim(ev, n)); err != nil {
				break
			}
		}
		if k.GetLastObservedEventNonce(c.Ctx) >= target {
			return true
		}
	}
	return k.GetLastObservedEventNonce(c.Ctx) >= target
}

// statusSteps: validators that changed status since the last report (jailed -> unbonding -> unbonded, unjailed ->
// bonded), as environment steps for every module
func (w *world) statusSteps() []string {
	c := w.c
	var out []string
	for i, k := range c.ValKeys {
		val, err := c.App.StakingKeeper.GetValidator(c.Ctx, k.Val())
		lib.Must(err)
		st, until := int64(0), int64(0)
		switch {
		case val.IsUnbonding():
			st, until = 1, int64(val.UnbondingTime.Sub(lib.GenesisTime)/time.Second)
		case val.IsUnbonded():
			st = 2
		}
		for len(w.vstat) <= i {
			w.vstat = append(w.vstat, [2]int64{0, 0})
		}
		if w.vstat[i] != [2]int64{st, until} {
			w.vstat[i] = [2]int64{st, until}
			out = append(out, fmt.Sprintf("(EnvStat %d %d %d, 0, [])", i, st, until))
		}
	}
	return out
}

func (w *world) bonded(v int) bool {
	if v < 0 || v >= len(w.c.ValKeys) {
		return false
	}
	val, err := w.c.App.StakingKeeper.GetValidator(w.c.Ctx, w.c.ValKeys[v].Val())
	return err == nil && val.IsBonded()
}
