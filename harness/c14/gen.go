package main

// gen.go: history generator (adaptive: it looks at the real state to produce mostly-valid
// operations) and the fixed witness histories of the Coq refutations.

import (
	"fmt"
	"math/big"
	"time"

	codectypes "github.com/cosmos/cosmos-sdk/codec/types"
	sdk "github.com/cosmos/cosmos-sdk/types"

	"fxverif/lib"
)

type codecAny = codectypes.Any

const (
	sec  = int64(time.Second)
	hour = int64(time.Hour)
	day  = 24 * hour
)

var otherDenoms = []string{"ibc/ABC", "usdt", "eth"}

func (h *Hist) tokens(a, v int) *big.Int {
	d, err := h.c.App.StakingKeeper.GetDelegation(h.c.Ctx, h.acc(a), sdk.ValAddress(h.acc(v)))
	if err != nil {
		return new(big.Int)
	}
	val, err := h.c.App.StakingKeeper.GetValidator(h.c.Ctx, sdk.ValAddress(h.acc(v)))
	if err != nil {
		return new(big.Int)
	}
	return val.TokensFromShares(d.Shares).TruncateInt().BigInt()
}

func (h *Hist) fxBalance(a int) *big.Int {
	return h.c.App.BankKeeper.GetBalance(h.c.Ctx, h.acc(a), "FX").Amount.BigInt()
}

func wholeFX(b *big.Int) int64 {
	return new(big.Int).Quo(b, big.NewInt(1e18)).Int64()
}

type gen struct {
	h     *Hist
	r     *lib.Rand
	avoid bool
	pids  []uint64
}

func (g *gen) pickVal() int { return val0 + g.r.Intn(3) }
func (g *gen) pickSrc() int { return g.r.Intn(nSrc) }
func (g *gen) pickTgt() int { return tgt0 + g.r.Intn(4) }
func (g *gen) pickOth() int { return oth0 + g.r.Intn(2) }

// anybody who can hold funds and act in governance
func (g *gen) pickGovActor() int {
	for k := 0; k < 8; k++ {
		a := g.pickGovActor1()
		if _, gone := g.h.moved[a]; !gone { // a migrated source is never funded or used again
			return a
		}
	}
	return g.pickOth()
}

func (g *gen) pickGovActor1() int {
	if g.avoid {
		return g.pickOth()
	}
	switch g.r.Intn(6) {
	case 0:
		return g.pickSrc()
	case 1:
		return g.pickTgt()
	}
	return g.pickOth()
}

func (g *gen) block(dt int64) { g.h.Exec(Op{Kind: "block", Dt: dt}) }

func (g *gen) delegate(a int) {
	bal := wholeFX(g.h.fxBalance(a))
	if bal < 200 {
		return
	}
	g.h.Exec(Op{Kind: "delegate", A: a, V: g.pickVal(), Amt: fx(100 + int64(g.r.Intn(int(bal/4)))), Mode: "must"})
}

func (g *gen) undelegate(a, v int, must bool) bool {
	t := wholeFX(g.h.tokens(a, v))
	if t < 2 {
		return false
	}
	n := 1 + int64(g.r.Intn(int(t)))
	if g.r.Chance(15) {
		n = t // everything: the delegation record disappears
	}
	mode := ""
	if must {
		mode = "must"
	}
	o := g.h.Exec(Op{Kind: "undelegate", A: a, V: v, Amt: fx(n), Mode: mode})
	return o.Res == "ok"
}

func (g *gen) redelegate(a, v, w int) bool {
	t := wholeFX(g.h.tokens(a, v))
	if t < 2 || v == w {
		return false
	}
	o := g.h.Exec(Op{Kind: "redelegate", A: a, V: v, W: w, Amt: fx(1 + int64(g.r.Intn(int(t))))})
	return o.Res == "ok"
}

func (g *gen) delegatedVals(a int) []int {
	var out []int
	for v := val0; v < val0+3; v++ {
		if g.h.tokens(a, v).Sign() > 0 {
			out = append(out, v)
		}
	}
	return out
}

func (g *gen) govAction() {
	h, r := g.h, g.r
	switch {
	case len(g.pids) == 0 || r.Chance(35):
		a := g.pickGovActor()
		if wholeFX(h.fxBalance(a)) < 11000 {
			h.Exec(Op{Kind: "mint", A: a, Denom: "FX", Amt: fx(30000)})
		}
		amount := int64(1000 + r.Intn(3000)) // stays in the deposit period
		if r.Chance(50) {
			amount = 10000 + int64(r.Intn(500)) // voting period at once
		}
		pre := h.snap().NextPid
		if o := h.Exec(Op{Kind: "submit", A: a, Amt: fx(amount)}); o.Res == "ok" {
			g.pids = append(g.pids, uint64(pre))
		}
	case r.Chance(50):
		a := g.pickGovActor()
		if wholeFX(h.fxBalance(a)) < 11000 {
			h.Exec(Op{Kind: "mint", A: a, Denom: "FX", Amt: fx(30000)})
		}
		amount := int64(100 + r.Intn(2000))
		if r.Chance(35) {
			amount = 10000
		}
		h.Exec(Op{Kind: "deposit", A: a, Pid: g.pids[r.Intn(len(g.pids))], Amt: fx(amount)})
	default:
		h.Exec(Op{Kind: "vote", A: g.pickGovActor(), Pid: g.pids[r.Intn(len(g.pids))]})
	}
}

// a block-time jump that lands on / just before / just after something that is queued
func (g *gen) boundaryJump() {
	h, r := g.h, g.r
	s := h.snap()
	now := ns(h.c.Time)
	var marks []int64
	for _, q := range s.IQ {
		marks = append(marks, q[0])
	}
	for _, q := range s.AQ {
		marks = append(marks, q[0])
	}
	for _, q := range s.UbdQ {
		marks = append(marks, q.T)
	}
	for _, q := range s.RedQ {
		marks = append(marks, q.T)
	}
	var future []int64
	for _, m := range marks {
		if m > now+6*sec {
			future = append(future, m)
		}
	}
	if len(future) == 0 {
		g.block(5 * sec)
		return
	}
	e := future[r.Intn(len(future))]
	// the next transactions run at (new block time + 5s): put the mark inside, at the edge of, or
	// outside the window (new block time, new block time + 5s]
	var target int64
	switch r.Intn(6) {
	case 0:
		target = e - 5*sec // tx time == mark exactly
	case 1:
		target = e - 1 // mark 1ns after the block time
	case 2:
		target = e - 5*sec - 1 // tx time 1ns short of the mark
	case 3:
		target = e // block time == mark: the end blocker processes it
	case 4:
		target = e - 2*sec
	default:
		target = e + sec
	}
	if target <= now {
		target = now + 5*sec
	}
	g.block(target - now)
}

func (g *gen) migrateAttempt() {
	h, r := g.h, g.r
	a, b := g.pickSrc(), g.pickTgt()
	op := Op{Kind: "migrate", A: a, B: b, Mode: "tx", Sig: "ok", Signer: b, SF: a, ST: b}
	switch r.Intn(20) {
	case 0:
		op.Sig, op.Signer = "other", g.pickTgt() // another key signs (may coincide: then valid)
	case 1:
		op.SF = g.pickSrc() // target signs, but for another source
	case 2:
		op.Sig = "empty"
	case 3:
		op.Sig = "garbage"
	case 4:
		op.Sig, op.Signer, op.SF, op.ST = "swap", b, a, g.pickTgt() // target signs for another target
	case 14:
		op.Sig, op.SF, op.ST = "swap", b, a // target signs the pair the wrong way round
	case 5:
		op.A = val0 + r.Intn(3) // a validator operator as source
		op.SF = op.A
	case 6:
		op.B, op.Mode = val0+r.Intn(3), "srv" // a validator operator as target (msg server rule)
	case 7:
		op.B = ethVal // possibly a validator operator with an eth key: signature is fine
		op.Signer, op.ST = ethVal, ethVal
	case 8:
		op.A = noPub
		op.SF = noPub
	case 9:
		op.A = g.pickOth() // eth_secp256k1 account as source, or no account at all
		op.SF = op.A
	case 10:
		op.B, op.Signer, op.ST = a, a, a // onto itself
	case 11:
		op.Mode = "srv" // the msg server alone
	case 12:
		op.Mode = "srv"
		op.A, op.B = g.pickTgt(), g.pickSrc() // roles swapped: only the msg server can see this
	case 13:
		op.B, op.Mode = g.pickSrc(), "srv" // onto another source
	}
	h.Exec(op)
}

func genHistory(h *Hist, r *lib.Rand, avoid bool) {
	g := &gen{h: h, r: r, avoid: avoid}
	// ---- accounts and funds ----
	h.Exec(Op{Kind: "mint", A: oth0, Denom: "FX", Amt: fx(200000)})
	for i := 0; i < nSrc; i++ {
		if i >= 2 && r.Chance(50) {
			// a vesting source: continuous or delayed, ending some days or weeks from now
			mode := "continuous"
			if r.Chance(40) {
				mode = "delayed"
			}
			h.Exec(Op{Kind: "vest", A: i, B: oth0, Amt: fx(1000 + int64(r.Intn(30000))), Dt: (1 + int64(r.Intn(40))) * day, Mode: mode})
		}
		h.Exec(Op{Kind: "acct", A: i})
		h.Exec(Op{Kind: "mint", A: i, Denom: "FX", Amt: fx(20000 + int64(r.Intn(80000)))})
		for _, d := range otherDenoms {
			if r.Chance(45) {
				h.Exec(Op{Kind: "mint", A: i, Denom: d, Amt: fmt.Sprint(1 + r.Intn(1_000_000))})
			}
		}
	}
	for i := tgt0; i < oth0; i++ {
		if r.Chance(50) {
			h.Exec(Op{Kind: "mint", A: i, Denom: "FX", Amt: fx(int64(r.Intn(40000)))})
		}
		if r.Chance(25) {
			h.Exec(Op{Kind: "mint", A: i, Denom: otherDenoms[r.Intn(3)], Amt: fmt.Sprint(1 + r.Intn(1000))})
		}
	}
	for i := oth0; i < oth0+2; i++ {
		h.Exec(Op{Kind: "mint", A: i, Denom: "FX", Amt: fx(60000)})
	}
	h.Exec(Op{Kind: "mint", A: noPub, Denom: "FX", Amt: fx(10)})
	h.Exec(Op{Kind: "mint", A: ethVal, Denom: "FX", Amt: fx(5000)})
	if r.Chance(60) {
		h.Exec(Op{Kind: "createval", A: ethVal, Amt: fx(1)})
	}
	g.block(5 * sec)

	// ---- portfolios ----
	for i := 0; i < nSrc; i++ {
		for k := r.Intn(4); k > 0; k-- {
			g.delegate(i)
		}
	}
	g.delegate(g.pickOth())
	g.delegate(g.pickOth())
	g.block(5 * sec)
	steps := 10 + r.Intn(14)
	for s := 0; s < steps; s++ {
		switch r.Intn(12) {
		case 0, 1:
			a := g.pickSrc()
			if vs := g.delegatedVals(a); len(vs) > 0 {
				v := vs[r.Intn(len(vs))]
				g.undelegate(a, v, false)
				if r.Chance(35) { // the same delegator again in the same block: two pairs of it in one slice
					w := vs[r.Intn(len(vs))]
					g.undelegate(a, w, false)
				}
				if r.Chance(50) { // another delegator unbonds in the same block: shared completion time
					o := g.pickOth()
					if r.Chance(50) {
						o = g.pickSrc()
					}
					if ws := g.delegatedVals(o); len(ws) > 0 {
						g.undelegate(o, ws[r.Intn(len(ws))], false)
					}
				}
			}
		case 2, 3:
			a := g.pickSrc()
			if vs := g.delegatedVals(a); len(vs) > 0 {
				g.redelegate(a, vs[r.Intn(len(vs))], g.pickVal())
				if r.Chance(35) {
					g.redelegate(a, vs[r.Intn(len(vs))], g.pickVal())
				}
				if r.Chance(50) {
					o := g.pickOth()
					if ws := g.delegatedVals(o); len(ws) > 0 {
						g.redelegate(o, ws[r.Intn(len(ws))], g.pickVal())
					}
				}
			}
		case 4:
			g.delegate(g.pickSrc())
		case 5:
			g.delegate(g.pickOth())
		case 6:
			if r.Chance(25) {
				g.delegate(g.pickTgt()) // a target with staking records
			} else {
				g.block(5 * sec)
			}
		case 7, 8:
			g.govAction()
		case 9:
			g.block(5 * sec)
		case 10:
			g.block(hour + int64(r.Intn(int(3*day/sec)))*sec)
		default:
			g.boundaryJump()
		}
	}
	g.block(5 * sec)

	// ---- migrations, interleaved with governance and time ----
	for k := 3 + r.Intn(6); k > 0; k-- {
		switch r.Intn(8) {
		case 0:
			g.govAction()
		case 1:
			g.boundaryJump()
		case 2:
			g.block(5 * sec)
		default:
			g.migrateAttempt()
		}
	}

	// ---- afterwards ----
	for k := 6 + r.Intn(8); k > 0; k-- {
		switch r.Intn(10) {
		case 0, 1:
			g.boundaryJump()
		case 2:
			g.block(7*day + int64(r.Intn(1000))*sec)
		case 3:
			g.block(21 * day)
		case 4, 5:
			for _, t := range h.moved {
				if vs := g.delegatedVals(t); len(vs) > 0 {
					v := vs[r.Intn(len(vs))]
					if r.Chance(50) {
						h.Exec(Op{Kind: "withdraw", A: t, V: v, Mode: "must"})
					} else {
						g.undelegate(t, v, h.entries(t, v) < 7)
					}
				}
			}
		case 6:
			for _, t := range h.moved {
				if vs := g.delegatedVals(t); len(vs) > 0 {
					g.redelegate(t, vs[r.Intn(len(vs))], g.pickVal())
				}
			}
		case 7:
			g.migrateAttempt()
		case 8:
			if r.Chance(40) {
				v := g.pickVal()
				h.Exec(Op{Kind: "slash", V: v, Dt: 1})
			} else {
				g.govAction()
			}
		default:
			g.block(5 * sec)
		}
	}
	g.block(21 * day)
	g.block(5 * sec)
	// what kind of portfolio did the accepted migrations move?
}

func (h *Hist) entries(a, v int) int {
	for _, u := range h.snap().Ubds {
		if u.KA == h.id(a) && u.KV == h.id(v) {
			return len(u.Entries)
		}
	}
	return 0
}

// runWitnesses: the histories of the fixed findings C14-1 / C14-2 (the Coq examples ex_gov / ex_init),
// as regression histories on the real application.
func runWitnesses(seed int64, cw *CaseWriter, rep *lib.Report) {
	// 1. proposer in the deposit period, depositor and voter in the voting period: all accepted;
	//    the deposit refund then goes to the emptied source
	h := NewHist(seed*1000+900, cw, rep)
	for i := 0; i < 3; i++ {
		h.Exec(Op{Kind: "acct", A: i})
		h.Exec(Op{Kind: "mint", A: i, Denom: "FX", Amt: fx(50000)})
	}
	h.Exec(Op{Kind: "mint", A: oth0, Denom: "FX", Amt: fx(50000)})
	h.Exec(Op{Kind: "block", Dt: 5 * sec})
	h.Exec(Op{Kind: "submit", A: 0, Amt: fx(1000)})     // proposal 1: source 0 is proposer, deposit period
	h.Exec(Op{Kind: "submit", A: oth0, Amt: fx(10000)}) // proposal 2: voting period
	h.Exec(Op{Kind: "deposit", A: 1, Pid: 2, Amt: fx(500)})
	h.Exec(Op{Kind: "vote", A: 2, Pid: 2})
	h.Exec(Op{Kind: "block", Dt: 5 * sec})
	for i := 0; i < 3; i++ {
		h.Exec(Op{Kind: "migrate", A: i, B: tgt0 + i, Mode: "tx", Sig: "ok", Signer: tgt0 + i, SF: i, ST: tgt0 + i})
	}
	h.Exec(Op{Kind: "block", Dt: 14 * day})
	h.Exec(Op{Kind: "block", Dt: 5 * sec})
	finish(h, rep, "witness-gov")

	// 2. one delegation: the by-validator index keeps the source
	h = NewHist(seed*1000+901, cw, rep)
	h.Exec(Op{Kind: "acct", A: 0})
	h.Exec(Op{Kind: "mint", A: 0, Denom: "FX", Amt: fx(50000)})
	h.Exec(Op{Kind: "block", Dt: 5 * sec})
	h.Exec(Op{Kind: "delegate", A: 0, V: val0, Amt: fx(1000)})
	h.Exec(Op{Kind: "block", Dt: 5 * sec})
	h.Exec(Op{Kind: "undelegate", A: 0, V: val0, Amt: fx(100)})
	h.Exec(Op{Kind: "block", Dt: 5 * sec})
	h.Exec(Op{Kind: "migrate", A: 0, B: tgt0, Mode: "tx", Sig: "ok", Signer: tgt0, SF: 0, ST: tgt0})
	h.Exec(Op{Kind: "block", Dt: 5 * sec})
	h.Exec(Op{Kind: "undelegate", A: tgt0, V: val0, Amt: fx(900), Mode: "must"})
	h.Exec(Op{Kind: "block", Dt: 21 * day})
	h.Exec(Op{Kind: "block", Dt: 5 * sec})
	finish(h, rep, "witness-index")
}

// ---------- scenario families: every refusal rule and every cell of the governance window, each run ----------

func (h *Hist) setupBasic() {
	for i := 0; i < nSrc; i++ {
		h.Exec(Op{Kind: "acct", A: i})
		h.Exec(Op{Kind: "mint", A: i, Denom: "FX", Amt: fx(60000)})
		h.Exec(Op{Kind: "mint", A: i, Denom: otherDenoms[i%3], Amt: fmt.Sprint(1000 + i)})
	}
	for i := tgt0; i <= ethVal; i++ {
		h.Exec(Op{Kind: "mint", A: i, Denom: "FX", Amt: fx(60000)})
	}
	h.Exec(Op{Kind: "mint", A: noPub, Denom: "FX", Amt: fx(10)})
	h.Exec(Op{Kind: "block", Dt: 5 * sec})
}

func mig(a, b int, mode string) Op {
	return Op{Kind: "migrate", A: a, B: b, Mode: mode, Sig: "ok", Signer: b, SF: a, ST: b}
}

// runRuleScenarios: one attempt per refusal rule, in the transaction form and (where the signature
// rule would hide it) through the msg server alone; then the same migrations without the obstacle.
func runRuleScenarios(seed int64, cw *CaseWriter, rep *lib.Report, r *lib.Rand) {
	h := NewHist(seed*1000+910, cw, rep)
	h.setupBasic()
	h.Exec(Op{Kind: "createval", A: ethVal, Amt: fx(1)})
	v0, v1 := val0, val0+1+r.Intn(2)
	// source 0: delegation + unbonding + redelegation; target tgt0+1 delegates; tgt0+2 only unbonds; tgt0+3 only redelegation
	h.Exec(Op{Kind: "delegate", A: 0, V: v0, Amt: fx(3000)})
	h.Exec(Op{Kind: "delegate", A: 1, V: v0, Amt: fx(2000)})
	h.Exec(Op{Kind: "delegate", A: tgt0 + 1, V: v0, Amt: fx(100)})
	h.Exec(Op{Kind: "delegate", A: tgt0 + 2, V: v0, Amt: fx(100)})
	h.Exec(Op{Kind: "delegate", A: tgt0 + 3, V: v0, Amt: fx(100)})
	h.Exec(Op{Kind: "block", Dt: 5 * sec})
	h.Exec(Op{Kind: "undelegate", A: 0, V: v0, Amt: fx(500)})
	h.Exec(Op{Kind: "undelegate", A: 0, V: v0, Amt: fx(30)}) // same block, same validator: ONE merged entry, TWO queue pairs
	h.Exec(Op{Kind: "undelegate", A: 1, V: v0, Amt: fx(70)}) // another delegator in between
	h.Exec(Op{Kind: "undelegate", A: 0, V: v0, Amt: fx(20)}) // a third pair of the source in the same slice
	h.Exec(Op{Kind: "redelegate", A: 0, V: v0, W: v1, Amt: fx(400)})
	h.Exec(Op{Kind: "redelegate", A: 0, V: v0, W: v1, Amt: fx(40)})
	h.Exec(Op{Kind: "redelegate", A: 1, V: v0, W: v1, Amt: fx(40)})
	h.Exec(Op{Kind: "redelegate", A: 0, V: v0, W: v1, Amt: fx(10)})
	h.Exec(Op{Kind: "undelegate", A: tgt0 + 2, V: v0, Amt: fx(100)}) // everything: only the unbonding record remains
	h.Exec(Op{Kind: "redelegate", A: tgt0 + 3, V: v0, W: v1, Amt: fx(100)})
	h.Exec(Op{Kind: "block", Dt: 5 * sec})
	h.Exec(Op{Kind: "undelegate", A: tgt0 + 3, V: v1, Amt: fx(100)}) // leaves redelegation + unbonding, no delegation
	h.Exec(Op{Kind: "block", Dt: 5 * sec})
	for _, mode := range []string{"tx", "srv"} {
		h.Exec(mig(val0, tgt0, mode))  // source is a validator operator
		h.Exec(mig(0, ethVal, mode))   // target is a validator operator (eth key: the signature is valid)
		h.Exec(mig(0, tgt0+1, mode))   // target has a delegation
		h.Exec(mig(0, tgt0+2, mode))   // target has only an unbonding delegation
		h.Exec(mig(0, tgt0+3, mode))   // target has redelegation/unbonding records
		h.Exec(mig(noPub, tgt0, mode)) // account without public key
		h.Exec(mig(oth0, tgt0, mode))  // eth_secp256k1 account / no account
		h.Exec(mig(0, 0, mode))        // onto itself
	}
	h.Exec(mig(0, val0+1, "srv")) // target validator operator with a cosmos key: only the msg server can be asked
	// signature rule
	h.Exec(Op{Kind: "migrate", A: 0, B: tgt0, Mode: "tx", Sig: "other", Signer: tgt0 + 1, SF: 0, ST: tgt0})
	h.Exec(Op{Kind: "migrate", A: 0, B: tgt0, Mode: "tx", Sig: "swap", Signer: tgt0, SF: 1, ST: tgt0})
	h.Exec(Op{Kind: "migrate", A: 0, B: tgt0, Mode: "tx", Sig: "swap", Signer: tgt0, SF: 0, ST: tgt0 + 1})
	h.Exec(Op{Kind: "migrate", A: 0, B: tgt0, Mode: "tx", Sig: "swap", Signer: tgt0, SF: tgt0, ST: 0}) // (target, source)
	h.Exec(Op{Kind: "migrate", A: 0, B: tgt0, Mode: "tx", Sig: "empty"})
	h.Exec(Op{Kind: "migrate", A: 0, B: tgt0, Mode: "tx", Sig: "garbage"})
	h.Exec(Op{Kind: "migrate", A: 0, B: tgt0, Mode: "tx", Sig: "other", Signer: 1, SF: 0, ST: tgt0}) // the source's colleague signs
	// the real thing
	h.Exec(mig(0, tgt0, "tx"))
	h.Exec(Op{Kind: "block", Dt: 5 * sec})
	// once
	for _, mode := range []string{"tx", "srv"} {
		h.Exec(mig(0, oth0, mode))    // source again
		h.Exec(mig(1, tgt0, mode))    // target again
		h.Exec(mig(tgt0, oth0, mode)) // the former target as source
		h.Exec(mig(1, 0, mode))       // the former source as target
	}
	h.Exec(mig(1, oth0, "tx")) // an unrelated pair still works
	h.Exec(Op{Kind: "withdraw", A: tgt0, V: v0, Mode: "must"})
	h.Exec(Op{Kind: "undelegate", A: tgt0, V: v0, Amt: fx(700), Mode: "must"})
	h.Exec(Op{Kind: "slash", V: v0, Dt: 1})
	h.Exec(Op{Kind: "block", Dt: 21 * day})
	h.Exec(Op{Kind: "block", Dt: 5 * sec})
	finish(h, rep, "scenario-rules")
}

// runGovWindow: for each role x side x queue, a proposal whose end time falls inside / at the edges of /
// outside the window (previous block time, transaction time] in which the scan can see it.
func runGovWindow(seed int64, cw *CaseWriter, rep *lib.Report, r *lib.Rand) {
	type cell struct {
		role string // proposer | depositor | voter
		side string // from | to
		act  bool   // voting period (active queue) or deposit period (inactive queue)
	}
	var cells []cell
	for _, act := range []bool{false, true} {
		for _, side := range []string{"from", "to"} {
			for _, role := range []string{"proposer", "depositor", "voter"} {
				if role == "voter" && !act {
					continue
				}
				cells = append(cells, cell{role, side, act})
			}
		}
	}
	for ci, c := range cells {
		h := NewHist(seed*1000+920+int64(ci), cw, rep)
		h.setupBasic()
		h.Exec(Op{Kind: "delegate", A: 0, V: val0, Amt: fx(1000)})
		h.Exec(Op{Kind: "block", Dt: 5 * sec})
		who := 0
		if c.side == "to" {
			who = tgt0
		}
		proposer := oth0
		if c.role == "proposer" {
			proposer = who
		}
		amount := int64(1000)
		if c.act {
			amount = 10000
		}
		pid := uint64(h.snap().NextPid)
		h.Exec(Op{Kind: "submit", A: proposer, Amt: fx(amount)})
		switch c.role {
		case "depositor":
			h.Exec(Op{Kind: "deposit", A: who, Pid: pid, Amt: fx(200)})
		case "voter":
			h.Exec(Op{Kind: "vote", A: who, Pid: pid})
		}
		// the end time of the proposal's current period
		var end int64
		for _, p := range h.snap().Props {
			if p.ID == int64(pid) {
				end = p.DepEnd
				if c.act {
					end = p.VoteEnd
				}
			}
		}
		// well inside the period: not seen (the finding)
		h.Exec(Op{Kind: "block", Dt: 3 * day})
		h.Exec(mig(1, tgt0+1, "tx")) // an uninvolved pair, for contrast
		// place the transaction time relative to the end time
		offsets := []int64{-1, 0, 1, 2 * sec, 5*sec - 1, 5 * sec} // tx time - end
		off := offsets[(ci+int(seed))%len(offsets)]
		if r.Chance(30) {
			off = offsets[r.Intn(len(offsets))]
		}
		// tx time = block time + 5s  =>  block time = end + off - 5s
		now := ns(h.c.Time)
		h.Exec(Op{Kind: "block", Dt: end + off - 5*sec - now})
		h.Exec(mig(0, tgt0, "tx"))
		h.Exec(Op{Kind: "block", Dt: 5 * sec})
		h.Exec(mig(0, tgt0, "tx")) // after the end blocker has closed it (or again)
		h.Exec(Op{Kind: "block", Dt: 15 * day})
		h.Exec(Op{Kind: "block", Dt: 5 * sec})
		rep.Count(fmt.Sprintf("gov-window:%s:%s:active=%v:offset=%d", c.role, c.side, c.act, off))
		finish(h, rep, fmt.Sprintf("scenario-govwindow-%d", ci))
	}
}

func finish(h *Hist, rep *lib.Report, key string) {
	rep.Case(key, true)
	for t := range h.tags {
		rep.Count("history-with:" + t)
	}
}

// runMaturityWindow: a migration in the very block in which one of the source's unbonding /
// redelegation entries matures (block time >= completion time, staking end blocker not yet run), just
// before it, and just after: the queue pair must have been renamed so that the end blocker pays the target.
func runMaturityWindow(seed int64, cw *CaseWriter, rep *lib.Report, r *lib.Rand) {
	offsets := []int64{0, 1, 2 * sec, 5*sec - 1, -1, 5 * sec} // tx time - completion time
	for i, off := range offsets {
		h := NewHist(seed*1000+940+int64(i), cw, rep)
		h.setupBasic()
		v0, v1 := val0+i%3, val0+(i+1)%3
		h.Exec(Op{Kind: "delegate", A: 0, V: v0, Amt: fx(3000)})
		h.Exec(Op{Kind: "delegate", A: 1, V: v0, Amt: fx(3000)})
		h.Exec(Op{Kind: "block", Dt: 5 * sec})
		h.Exec(Op{Kind: "undelegate", A: 0, V: v0, Amt: fx(300)})
		h.Exec(Op{Kind: "undelegate", A: 1, V: v0, Amt: fx(200)}) // shares the slice
		h.Exec(Op{Kind: "redelegate", A: 0, V: v0, W: v1, Amt: fx(250)})
		var mark int64
		for _, q := range h.snap().UbdQ {
			mark = q.T
		}
		h.Exec(Op{Kind: "block", Dt: 2 * day})
		h.Exec(Op{Kind: "undelegate", A: 0, V: v0, Amt: fx(100)}) // a later entry that must stay queued
		// tx time = block time + 5s  =>  block time = mark + off - 5s
		h.Exec(Op{Kind: "block", Dt: mark + off - 5*sec - ns(h.c.Time)})
		h.Exec(mig(0, tgt0, "tx"))
		h.Exec(Op{Kind: "block", Dt: 5 * sec})
		h.Exec(Op{Kind: "block", Dt: 5 * sec})
		h.Exec(Op{Kind: "undelegate", A: tgt0, V: v0, Amt: fx(50), Mode: "must"})
		h.Exec(Op{Kind: "block", Dt: 21 * day})
		h.Exec(Op{Kind: "block", Dt: 5 * sec})
		rep.Count(fmt.Sprintf("maturity-window:offset=%d", off))
		finish(h, rep, fmt.Sprintf("scenario-maturity-%d", i))
	}
}

// runVestingScenarios: vesting accounts as migration sources — continuous (partly vested) and delayed (nothing
// vested yet), with free funds in other denominations, with and without delegations; migration attempted while
// something is locked, when all locked coins are delegated, and after the schedule has ended.
func runVestingScenarios(seed int64, cw *CaseWriter, rep *lib.Report, r *lib.Rand) {
	for i, mode := range []string{"continuous", "delayed"} {
		h := NewHist(seed*1000+960+int64(i), cw, rep)
		h.Exec(Op{Kind: "mint", A: oth0, Denom: "FX", Amt: fx(500000)})
		h.Exec(Op{Kind: "block", Dt: 5 * sec})
		// source 0: 10000 FX vesting over 10 days + free FX and another denom; source 1: everything locked gets delegated;
		// source 2: plain account
		h.Exec(Op{Kind: "vest", A: 0, B: oth0, Amt: fx(10000), Dt: 10 * day, Mode: mode})
		h.Exec(Op{Kind: "vest", A: 1, B: oth0, Amt: fx(4000), Dt: 10 * day, Mode: mode})
		for a := 0; a < 3; a++ {
			h.Exec(Op{Kind: "acct", A: a})
			h.Exec(Op{Kind: "mint", A: a, Denom: "FX", Amt: fx(300 + int64(r.Intn(200)))})
			h.Exec(Op{Kind: "mint", A: a, Denom: "ibc/ABC", Amt: "1000"})
		}
		h.Exec(Op{Kind: "block", Dt: 5 * sec})
		h.Exec(Op{Kind: "delegate", A: 0, V: val0, Amt: fx(2000)})
		h.Exec(Op{Kind: "delegate", A: 1, V: val0 + 1, Amt: fx(4100)}) // more than the whole vesting amount
		h.Exec(Op{Kind: "block", Dt: 5 * sec})
		h.Exec(mig(0, tgt0, "tx")) // nothing vested yet / just started
		h.Exec(Op{Kind: "block", Dt: 4*day + int64(r.Intn(2*int(day/sec)))*sec})
		h.Exec(mig(0, tgt0, "tx"))   // partly vested (continuous) or still fully locked (delayed)
		h.Exec(mig(0, tgt0, "srv"))  // the msg server alone
		h.Exec(mig(1, tgt0+1, "tx")) // locked coins all delegated: LockedCoins is zero
		h.Exec(mig(2, tgt0+2, "tx")) // plain account for contrast
		h.Exec(Op{Kind: "block", Dt: 5 * sec})
		h.Exec(Op{Kind: "undelegate", A: 0, V: val0, Amt: fx(500)})
		h.Exec(Op{Kind: "block", Dt: 7 * day}) // the schedule has ended
		h.Exec(mig(0, tgt0, "tx"))
		h.Exec(Op{Kind: "block", Dt: 5 * sec})
		h.Exec(Op{Kind: "withdraw", A: tgt0, V: val0, Mode: "must"})
		h.Exec(Op{Kind: "block", Dt: 21 * day})
		h.Exec(Op{Kind: "block", Dt: 5 * sec})
		finish(h, rep, "scenario-vesting-"+mode)
	}
}

// runLongGov: governance has raised its own periods (real MsgUpdateParams) to 30 / 21 days; participants of
// proposals whose end is weeks away try to migrate at several points of the period.
func runLongGov(seed int64, cw *CaseWriter, rep *lib.Report, r *lib.Rand) {
	h := NewHist(seed*1000+970, cw, rep)
	h.setupBasic()
	h.Exec(Op{Kind: "govparams", D1: 30 * day, D2: 21 * day})
	h.Exec(Op{Kind: "delegate", A: 0, V: val0, Amt: fx(1000)})
	h.Exec(Op{Kind: "block", Dt: 5 * sec})
	p1 := uint64(h.snap().NextPid)
	h.Exec(Op{Kind: "submit", A: 0, Amt: fx(1000)})     // deposit period, ends in 30 days; source 0 proposer
	h.Exec(Op{Kind: "submit", A: oth0, Amt: fx(10000)}) // voting period, ends in 21 days
	h.Exec(Op{Kind: "deposit", A: 1, Pid: p1 + 1, Amt: fx(300)})
	h.Exec(Op{Kind: "vote", A: 2, Pid: p1 + 1})
	h.Exec(Op{Kind: "deposit", A: tgt0 + 3, Pid: p1, Amt: fx(200)})
	h.Exec(Op{Kind: "vote", A: tgt0 + 3, Pid: p1 + 1})
	for _, dt := range []int64{5 * sec, day + int64(r.Intn(3*int(day/sec)))*sec, 8 * day} {
		h.Exec(Op{Kind: "block", Dt: dt})
		h.Exec(mig(0, tgt0, "tx"))    // proposer, deposit period
		h.Exec(mig(1, tgt0+1, "tx"))  // depositor, voting period
		h.Exec(mig(2, tgt0+2, "tx"))  // voter
		h.Exec(mig(3, tgt0+3, "tx"))  // the target deposited and voted
		h.Exec(mig(3, tgt0+2, "srv")) // uninvolved pair
	}
	h.Exec(Op{Kind: "block", Dt: 13 * day}) // the voting period has ended, the deposit period has not
	h.Exec(mig(1, tgt0+1, "tx"))
	h.Exec(mig(0, tgt0, "tx"))
	h.Exec(Op{Kind: "block", Dt: 10 * day})
	h.Exec(mig(0, tgt0, "tx"))
	h.Exec(Op{Kind: "block", Dt: 5 * sec})
	finish(h, rep, "scenario-long-gov-periods")
}

// runScale: more than a hundred open proposals in each gov queue; the migrating accounts take part in the LAST ones
func runScale(seed int64, cw *CaseWriter, rep *lib.Report, r *lib.Rand, n int) {
	h := NewHist(seed*1000+975, cw, rep)
	h.quiet = true
	h.setupBasic()
	h.Exec(Op{Kind: "mint", A: oth0, Denom: "FX", Amt: fx(int64(n) * 10200)})
	h.Exec(Op{Kind: "mint", A: 2, Denom: "FX", Amt: fx(20000)})
	h.Exec(Op{Kind: "block", Dt: 5 * sec})
	first := uint64(h.snap().NextPid)
	for i := 0; i < n; i++ {
		h.Exec(Op{Kind: "submit", A: oth0, Amt: fx(100)}) // deposit period
	}
	h.Exec(Op{Kind: "submit", A: 0, Amt: fx(100)}) // source 0 proposes the last but one
	lastDep := first + uint64(n) + 1
	h.Exec(Op{Kind: "submit", A: oth0, Amt: fx(100)})
	h.Exec(Op{Kind: "deposit", A: 1, Pid: lastDep, Amt: fx(150)}) // source 1 deposits on the very last
	for i := 0; i < n; i++ {
		h.Exec(Op{Kind: "submit", A: oth0, Amt: fx(10000)}) // voting period
	}
	h.Exec(Op{Kind: "submit", A: 2, Amt: fx(10000)}) // source 2 proposes a late one
	lastVote := lastDep + uint64(n) + 2
	h.Exec(Op{Kind: "submit", A: oth0, Amt: fx(10000)})
	h.Exec(Op{Kind: "vote", A: tgt0 + 3, Pid: lastVote})       // a target votes on the very last
	h.Exec(Op{Kind: "vote", A: 3, Pid: first + uint64(n) + 2}) // and source 3 on the first voting proposal, for contrast
	h.Exec(Op{Kind: "block", Dt: 5 * sec})
	h.Exec(mig(0, tgt0, "tx"))
	h.Exec(mig(1, tgt0+1, "tx"))
	h.Exec(mig(2, tgt0+2, "tx"))
	h.Exec(mig(1, tgt0+3, "srv")) // wait: source 1 is a depositor AND the target a voter
	h.Exec(mig(3, tgt0+2, "tx"))
	rep.Count(fmt.Sprintf("scale:open-proposals=%d", len(h.snap().Props)))
	finish(h, rep, "scenario-scale")
}

// runExportImport: migrations, then the chain is restarted from its exported genesis (real export, fresh app,
// real InitChain); addresses used before must still be refused
func runExportImport(seed int64, cw *CaseWriter, rep *lib.Report, r *lib.Rand) {
	h := NewHist(seed*1000+978, cw, rep)
	h.setupBasic()
	h.Exec(Op{Kind: "delegate", A: 0, V: val0, Amt: fx(1000)})
	h.Exec(Op{Kind: "block", Dt: 5 * sec})
	h.Exec(Op{Kind: "undelegate", A: 0, V: val0, Amt: fx(100)})
	h.Exec(Op{Kind: "block", Dt: 5 * sec})
	h.Exec(mig(0, tgt0, "tx"))   // with staking records
	h.Exec(mig(2, tgt0+2, "tx")) // balances only
	h.Exec(Op{Kind: "block", Dt: 5 * sec})
	h.Exec(Op{Kind: "block", Dt: 5 * sec})
	h.Exec(Op{Kind: "exportimport"})
	h.Exec(mig(1, tgt0+2, "tx")) // a used target
	h.Exec(mig(2, tgt0+3, "tx")) // a used source
	h.Exec(mig(1, tgt0, "srv"))  // a used target that now has staking records: refused for that reason
	h.Exec(mig(3, tgt0+1, "tx")) // an unrelated pair
	finish(h, rep, "scenario-export-import")
}

// runGovKinds: expedited proposals (incl. the conversion of a failed one into a regular proposal, which keeps it open
// past its first end time) and a proposal whose message type has a custom voting period
func runGovKinds(seed int64, cw *CaseWriter, rep *lib.Report, r *lib.Rand) {
	h := NewHist(seed*1000+972, cw, rep)
	h.setupBasic()
	h.Exec(Op{Kind: "mint", A: 0, Denom: "FX", Amt: fx(200000)})
	h.Exec(Op{Kind: "mint", A: oth0, Denom: "FX", Amt: fx(200000)})
	h.Exec(Op{Kind: "govparams", Mode: "kinds"})
	h.Exec(Op{Kind: "block", Dt: 5 * sec})
	first := uint64(h.snap().NextPid)
	h.Exec(Op{Kind: "submit", A: 0, Amt: fx(1000), Mode: "exp"})         // expedited, deposit period; source 0 proposer
	h.Exec(Op{Kind: "submit", A: oth0, Amt: fx(100000), Mode: "exp"})    // expedited, (probably) voting at once
	h.Exec(Op{Kind: "submit", A: oth0, Amt: fx(10000), Denom: "toggle"}) // custom 7-day voting period
	h.Exec(Op{Kind: "deposit", A: 1, Pid: first + 1, Amt: fx(300)})
	h.Exec(Op{Kind: "vote", A: 2, Pid: first + 1})
	h.Exec(Op{Kind: "vote", A: tgt0 + 3, Pid: first + 2})
	h.Exec(Op{Kind: "deposit", A: oth0, Pid: first, Amt: fx(150000)}) // opens the expedited voting period of the first
	attempts := func() {
		h.Exec(mig(0, tgt0, "tx"))
		h.Exec(mig(1, tgt0+1, "tx"))
		h.Exec(mig(2, tgt0+2, "tx"))
		h.Exec(mig(3, tgt0+3, "tx"))
	}
	h.Exec(Op{Kind: "block", Dt: 5 * sec})
	attempts()
	for _, dt := range []int64{hour, day + int64(r.Intn(1000))*sec, 2 * day, 5 * day, 8 * day} {
		h.Exec(Op{Kind: "block", Dt: dt}) // expedited periods end, failed ones are converted; the custom period ends on day 7
		h.Exec(Op{Kind: "block", Dt: 5 * sec})
		attempts()
	}
	n := 0
	for _, p := range h.snap().Props {
		if p.Status != 3 {
			n++
		}
	}
	rep.Count(fmt.Sprintf("gov-kinds:open-at-end=%d", n))
	finish(h, rep, "scenario-gov-kinds")
}

// runRedelegationOnlyTarget: a target whose ONLY staking record is a redelegation. It redelegates everything while the
// unbonding time is 21 days, governance shortens the unbonding time (real staking MsgUpdateParams), it undelegates
// everything from the destination and that short unbonding matures: the redelegation entry outlives both.
func runRedelegationOnlyTarget(seed int64, cw *CaseWriter, rep *lib.Report, r *lib.Rand) {
	h := NewHist(seed*1000+979, cw, rep)
	h.setupBasic()
	t := tgt0 + 1
	v0, v1 := val0+r.Intn(3), 0
	v1 = val0 + (v0-val0+1+r.Intn(2))%3
	h.Exec(Op{Kind: "delegate", A: 0, V: v0, Amt: fx(1000)})
	h.Exec(Op{Kind: "delegate", A: t, V: v0, Amt: fx(500)})
	h.Exec(Op{Kind: "block", Dt: 5 * sec})
	h.Exec(Op{Kind: "redelegate", A: t, V: v0, W: v1, Amt: fx(500)}) // completes in 21 days
	h.Exec(Op{Kind: "block", Dt: 5 * sec})
	h.Exec(mig(0, t, "tx")) // delegation + redelegation: refused
	h.Exec(Op{Kind: "stakingparams", Dt: 5 * int64(time.Minute)})
	h.Exec(Op{Kind: "block", Dt: 5 * sec})
	h.Exec(Op{Kind: "undelegate", A: t, V: v1, Amt: fx(500)}) // completes in 5 minutes
	h.Exec(Op{Kind: "block", Dt: 5 * sec})
	h.Exec(mig(0, t, "tx")) // unbonding + redelegation: refused
	h.Exec(Op{Kind: "block", Dt: 6 * int64(time.Minute)})
	h.Exec(Op{Kind: "block", Dt: 5 * sec})
	// only the redelegation record is left
	only := true
	for _, d := range h.snap().Dels {
		if d.KA == h.id(t) {
			only = false
		}
	}
	for _, u := range h.snap().Ubds {
		if u.KA == h.id(t) {
			only = false
		}
	}
	nred := 0
	for _, u := range h.snap().Reds {
		if u.KA == h.id(t) {
			nred++
		}
	}
	if only && nred > 0 {
		h.tags["target-redelegation-only"] = true
	}
	h.Exec(mig(0, t, "tx"))
	h.Exec(mig(0, t, "srv"))
	h.Exec(mig(1, tgt0+2, "tx")) // an unrelated pair
	h.Exec(Op{Kind: "stakingparams", Dt: 21 * day})
	h.Exec(Op{Kind: "block", Dt: 22 * day}) // the redelegation has matured too
	h.Exec(Op{Kind: "block", Dt: 5 * sec})
	h.Exec(mig(0, t, "tx")) // now clean: accepted
	h.Exec(Op{Kind: "block", Dt: 5 * sec})
	finish(h, rep, "scenario-redelegation-only-target")
}

// runValidatorSetChange: a validator that holds only its 100 FX self-delegation is slashed by 5%: its power
// (tokens / 10^20) drops to 0 and the end blocker of that block moves it out of the active set (tokens to the
// not-bonded pool, an unbonding id for the VALIDATOR in the 0x38 index). A source then delegates to the unbonding
// validator (coins go to the not-bonded pool), the validator re-enters the set at the next block end, the source
// undelegates part, migrates, and the target's entry matures; another validator leaves and stays out until its own
// unbonding period ends (its id is deleted from the index).
func runValidatorSetChange(seed int64, cw *CaseWriter, rep *lib.Report, r *lib.Rand) {
	h := NewHist(seed*1000+983, cw, rep)
	h.setupBasic()
	v0 := val0 + r.Intn(3)
	v1 := val0 + (v0-val0+1)%3
	h.Exec(Op{Kind: "block", Dt: 5 * sec})
	h.Exec(Op{Kind: "slash", V: v0, Dt: 1})
	h.Exec(Op{Kind: "block", Dt: 5 * sec}) // v0 leaves the active set
	h.Exec(Op{Kind: "delegate", A: 0, V: v0, Amt: fx(400)})
	h.Exec(Op{Kind: "block", Dt: 5 * sec}) // ... and is back
	h.Exec(Op{Kind: "slash", V: v1, Dt: 1})
	h.Exec(Op{Kind: "block", Dt: 5 * sec}) // v1 leaves and stays out
	h.Exec(Op{Kind: "undelegate", A: 0, V: v0, Amt: fx(150)})
	h.Exec(Op{Kind: "block", Dt: 5 * sec})
	h.Exec(mig(0, tgt0, "tx"))
	h.Exec(Op{Kind: "block", Dt: 5 * sec})
	h.Exec(Op{Kind: "withdraw", A: tgt0, V: v0})
	h.Exec(Op{Kind: "block", Dt: 21 * day}) // the target's entry matures; v1's own unbonding period ends
	h.Exec(Op{Kind: "block", Dt: 5 * sec})
	finish(h, rep, "scenario-validator-set-change")
}
