package main

// hist.go: concrete operations, their execution on the REAL application, and the emission of the
// correspondence cases (pre-state, operation, observed class, post-state).

import (
	"encoding/binary"
	"encoding/hex"
	"encoding/json"
	"errors"
	"fmt"
	"math/big"
	"sort"
	"strings"
	"time"

	"cosmossdk.io/collections"
	"cosmossdk.io/log"
	sdkmath "cosmossdk.io/math"
	abci "github.com/cometbft/cometbft/abci/types"
	cryptoenc "github.com/cometbft/cometbft/crypto/encoding"
	dbm "github.com/cosmos/cosmos-db"
	"github.com/cosmos/cosmos-sdk/crypto/keys/ed25519"
	sdk "github.com/cosmos/cosmos-sdk/types"
	sdkerrors "github.com/cosmos/cosmos-sdk/types/errors"
	sdktx "github.com/cosmos/cosmos-sdk/types/tx"
	authtypes "github.com/cosmos/cosmos-sdk/x/auth/types"
	"github.com/cosmos/cosmos-sdk/x/auth/vesting"
	vestingtypes "github.com/cosmos/cosmos-sdk/x/auth/vesting/types"
	distrkeeper "github.com/cosmos/cosmos-sdk/x/distribution/keeper"
	distrtypes "github.com/cosmos/cosmos-sdk/x/distribution/types"
	govtypes "github.com/cosmos/cosmos-sdk/x/gov/types"
	govv1 "github.com/cosmos/cosmos-sdk/x/gov/types/v1"
	govv1beta1 "github.com/cosmos/cosmos-sdk/x/gov/types/v1beta1"
	stakingkeeper "github.com/cosmos/cosmos-sdk/x/staking/keeper"
	stakingtypes "github.com/cosmos/cosmos-sdk/x/staking/types"
	"github.com/ethereum/go-ethereum/common"
	"github.com/ethereum/go-ethereum/crypto"
	"github.com/functionx/fx-core/v8/app"
	fxtypes "github.com/functionx/fx-core/v8/types"
	"github.com/spf13/viper"

	erc20types "github.com/functionx/fx-core/v8/x/erc20/types"
	fxgovkeeper "github.com/functionx/fx-core/v8/x/gov/keeper"
	fxgovtypes "github.com/functionx/fx-core/v8/x/gov/types"
	migratetypes "github.com/functionx/fx-core/v8/x/migrate/types"

	"fxverif/lib"
)

// actor indexes
const (
	nSrc   = 4  // 0..3   cosmos secp256k1 keys with an account + public key (migration sources)
	tgt0   = 4  // 4..7   eth keys (migration targets)
	oth0   = 8  // 8..9   eth keys, other delegators
	ethVal = 10 // eth key that may become a validator operator
	noPub  = 11 // cosmos key whose account has no public key
	val0   = 12 // 12..14 genesis validator operators (cosmos keys, account with public key)
	nActor = 15
)

type Op struct {
	Kind   string `json:"kind"`
	A      int    `json:"a,omitempty"`
	B      int    `json:"b,omitempty"`
	V      int    `json:"v,omitempty"`
	W      int    `json:"w,omitempty"`
	Amt    string `json:"amt,omitempty"`
	Denom  string `json:"denom,omitempty"`
	Dt     int64  `json:"dt,omitempty"`
	Pid    uint64 `json:"pid,omitempty"`
	Mode   string `json:"mode,omitempty"`   // migrate: "tx" | "srv"
	Sig    string `json:"sig,omitempty"`    // ok | other | swap | empty | garbage
	Signer int    `json:"signer,omitempty"` // key that signs
	SF     int    `json:"sf,omitempty"`     // the (from, to) pair that is signed
	ST     int    `json:"st,omitempty"`
	D1     int64  `json:"d1,omitempty"`  // govparams: max deposit period (ns)
	D2     int64  `json:"d2,omitempty"`  // govparams: voting period (ns)
	Res    string `json:"res,omitempty"` // filled by the executor
}

type Hist struct {
	c        *lib.Chain
	ids      *Ids
	seed     int64
	keys     []lib.Key
	ops      []Op
	cw       *CaseWriter
	rep      *lib.Report
	cur      *Snap // snapshot of the current open-block state, nil if stale
	cfg      string
	tags     map[string]bool // what happened in this history (for the non-triviality rule)
	moved    map[int]int     // accepted migrations: source actor -> target actor
	mon      *Monitor
	quiet    bool         // do not emit correspondence cases for gov transactions (scale histories)
	used     map[int]bool // actors that took part in an accepted migration, remembered outside every store
	imported bool         // the application was rebuilt from an exported genesis: no further blocks
}

func NewHist(seed int64, cw *CaseWriter, rep *lib.Report) *Hist {
	h := &Hist{c: lib.NewChain(seed, 3, nil), ids: NewIds(), seed: seed, cw: cw, rep: rep, tags: map[string]bool{}, moved: map[int]int{}, used: map[int]bool{}}
	for i := 0; i < nActor; i++ {
		var k lib.Key
		switch {
		case i < tgt0:
			k = lib.CosmosKey(seed, "c14src", i)
		case i < oth0:
			k = lib.EthKey(seed, "c14tgt", i)
		case i <= ethVal:
			k = lib.EthKey(seed, "c14oth", i)
		case i == noPub:
			k = lib.CosmosKey(seed, "c14nopub", i)
		default:
			k = h.c.ValKeys[i-val0]
		}
		h.keys = append(h.keys, k)
		h.ids.Reg(k.Acc(), int64(i+1), true)
	}
	lib.Must(h.c.NextBlock())
	h.setCfg()
	h.mon = NewMonitor(h)
	return h
}

func (h *Hist) setCfg() {
	gp, err := h.c.App.GovKeeper.Keeper.Params.Get(h.c.Ctx)
	lib.Must(err)
	h.cfg = fmt.Sprintf("(CFG 0 %d %d %d %d %s %s)", idPoolNB, idGov, gp.MaxDepositPeriod.Nanoseconds(), gp.VotingPeriod.Nanoseconds(),
		zb(sdk.NewCoins(gp.MinDeposit...).AmountOf("FX").BigInt()), lib.Bool(gp.BurnProposalDepositPrevote))
}

func (h *Hist) id(i int) int64               { return int64(i + 1) }
func (h *Hist) acc(i int) sdk.AccAddress     { return h.keys[i].Acc() }
func (h *Hist) val(i int) string             { return sdk.ValAddress(h.keys[i].Acc()).String() }
func (h *Hist) hexAddr(i int) common.Address { return common.BytesToAddress(h.keys[i].Acc()) }

func (h *Hist) snap() *Snap {
	if h.cur == nil {
		h.cur = h.Snapshot(h.c.Ctx)
	}
	return h.cur
}

func amt(s string) sdkmath.Int {
	a, ok := sdkmath.NewIntFromString(s)
	if !ok {
		panic("bad amount " + s)
	}
	return a
}

func fx(n int64) string { return new(big.Int).Mul(big.NewInt(n), big.NewInt(1e18)).String() }

// sign: the signature bytes (hex) and the id of the address that go-ethereum recovers from it over
// the digest of the pair that was actually signed
func (h *Hist) sign(op Op) (string, string) {
	switch op.Sig {
	case "empty":
		return "", "None"
	case "garbage":
		return "zz" + strings.Repeat("0", 128), "None"
	}
	digest := migratetypes.MigrateAccountSignatureHash(h.acc(op.SF), h.hexAddr(op.ST).Bytes())
	priv, err := crypto.ToECDSA(h.keys[op.Signer].ECDSAKeyBytes())
	lib.Must(err)
	sig, err := crypto.Sign(digest, priv)
	lib.Must(err)
	rec := crypto.PubkeyToAddress(priv.PublicKey)
	return hex.EncodeToString(sig), fmt.Sprintf("(Some (%s, (%s, %s)))", z(h.ids.A(rec.Bytes())), z(h.id(op.SF)), z(h.id(op.ST)))
}

// class of a migration error: the codes of M_MigrateCorr.err_code
func classify(err error, basic bool) (string, int) {
	if err == nil {
		return "ok", 0
	}
	m := err.Error()
	switch {
	case strings.HasPrefix(m, "PANIC"):
		return "panic", -1
	case basic && strings.Contains(m, "same account"):
		return "same", 1
	case basic:
		return "sig", 2
	case errors.Is(err, sdkerrors.ErrInvalidSequence):
		return "migrated", 3
	case strings.Contains(m, "empty account"):
		return "account", 4
	case errors.Is(err, sdkerrors.ErrInvalidPubKey):
		return "pubkey", 5
	case strings.Contains(m, "is the validator address"):
		return "validator", 6
	case strings.Contains(m, "has delegation record"), strings.Contains(m, "has undelegate record"), strings.Contains(m, "has redelegation record"):
		return "tostaking", 7
	case strings.Contains(m, "can not migrate"):
		return "gov", 8
	case errors.Is(err, sdkerrors.ErrInsufficientFunds):
		return "funds", 10
	case errors.Is(err, collections.ErrNotFound):
		return "govmissing", 9
	}
	return "other:" + m, 100
}

// Exec runs one operation on the real application. Model-compared operations emit a case.
func (h *Hist) Exec(op Op) Op {
	c := h.c
	// the operation is part of the replay from the moment it starts (monitors run inside)
	h.ops = append(h.ops, op)
	idx := len(h.ops) - 1
	defer func() { h.ops[idx] = op }()
	sms := stakingkeeper.NewMsgServerImpl(c.App.StakingKeeper.Keeper)
	gms := fxgovkeeper.NewMsgServerImpl(c.App.GovKeeper)
	try := func(f func(ctx sdk.Context) error) error { return c.Try(f) }
	res := func(err error) string {
		if err != nil {
			return "err: " + err.Error()
		}
		return "ok"
	}
	switch op.Kind {
	case "acct":
		a := c.App.AccountKeeper.GetAccount(c.Ctx, h.acc(op.A))
		if a == nil {
			a = c.App.AccountKeeper.NewAccountWithAddress(c.Ctx, h.acc(op.A))
		}
		lib.Must(a.SetPubKey(h.keys[op.A].Priv.PubKey()))
		c.App.AccountKeeper.SetAccount(c.Ctx, a)
		h.cur, op.Res = nil, "ok"
	case "vest":
		// actor B opens a vesting account for actor A (which must not exist yet): Amt FX, ends Dt ns from now
		end := c.Ctx.BlockTime().Add(time.Duration(op.Dt))
		vs := vesting.NewMsgServerImpl(c.App.AccountKeeper, c.App.BankKeeper)
		err := try(func(ctx sdk.Context) error {
			_, e := vs.CreateVestingAccount(ctx, &vestingtypes.MsgCreateVestingAccount{FromAddress: h.acc(op.B).String(), ToAddress: h.acc(op.A).String(),
				Amount: sdk.NewCoins(sdk.NewCoin("FX", amt(op.Amt))), EndTime: end.Unix(), Delayed: op.Mode == "delayed"})
			return e
		})
		h.cur, op.Res = nil, res(err)
		if err == nil {
			h.tags["vesting-source"] = true
		}
	case "govparams":
		// governance changes its own periods through the real MsgUpdateParams
		gp, err := c.App.GovKeeper.Keeper.Params.Get(c.Ctx)
		lib.Must(err)
		if op.D1 > 0 {
			d1, d2 := time.Duration(op.D1), time.Duration(op.D2)
			gp.MaxDepositPeriod, gp.VotingPeriod = &d1, &d2
		}
		if op.Mode == "kinds" {
			// make expedited proposals possible (the default genesis names the SDK's placeholder denom for their
			// deposit) and give one message type a custom voting period, both through the real gov messages
			ev := 24 * time.Hour
			gp.ExpeditedVotingPeriod = &ev
			gp.ExpeditedMinDeposit = sdk.NewCoins(sdk.NewCoin("FX", amt(fx(50000))))
		}
		govAuth := authtypes.NewModuleAddress(govtypes.ModuleName).String()
		err = try(func(ctx sdk.Context) error {
			if _, e := gms.UpdateParams(ctx, &govv1.MsgUpdateParams{Authority: govAuth, Params: gp}); e != nil {
				return e
			}
			if op.Mode == "kinds" {
				week := 7 * 24 * time.Hour
				_, e := gms.UpdateCustomParams(ctx, &fxgovtypes.MsgUpdateCustomParams{Authority: govAuth,
					MsgUrl:       sdk.MsgTypeURL(&erc20types.MsgToggleTokenConversion{}),
					CustomParams: fxgovtypes.CustomParams{DepositRatio: "0.000000000000000000", VotingPeriod: &week, Quorum: "0.250000000000000000"}})
				return e
			}
			return nil
		})
		h.cur, op.Res = nil, res(err)
		h.setCfg()
	case "stakingparams":
		// governance changes the staking UnbondingTime through the real MsgUpdateParams (entries created before keep
		// their completion time, entries created afterwards get the new one)
		sp, err := c.App.StakingKeeper.GetParams(c.Ctx)
		lib.Must(err)
		sp.UnbondingTime = time.Duration(op.Dt)
		err = try(func(ctx sdk.Context) error {
			_, e := sms.UpdateParams(ctx, &stakingtypes.MsgUpdateParams{Authority: authtypes.NewModuleAddress(govtypes.ModuleName).String(), Params: sp})
			return e
		})
		h.cur, op.Res = nil, res(err)
	case "exportimport":
		// the chain is restarted from an exported genesis: real app-level export, a fresh application on an
		// empty database, real InitChain. Only transactions can follow (no further blocks in this harness).
		pre := h.snap()
		exported, err := c.App.ExportAppStateAndValidators(false, []string{}, []string{})
		if err != nil {
			op.Res = "err: export: " + err.Error()
			break
		}
		appState := allowLocalhostClient(exported.AppState)
		na := app.New(log.NewNopLogger(), dbm.NewMemDB(), nil, true, map[int64]bool{}, fxtypes.GetDefaultNodeHome(), viper.New())
		var vals []abci.ValidatorUpdate
		for _, v := range exported.Validators {
			pk, e := cryptoenc.PubKeyToProto(v.PubKey)
			lib.Must(e)
			vals = append(vals, abci.ValidatorUpdate{PubKey: pk, Power: v.Power})
		}
		err = func() (err error) {
			defer func() {
				if r := recover(); r != nil {
					err = fmt.Errorf("PANIC in InitChain: %v", r)
				}
			}()
			_, e := na.InitChain(&abci.RequestInitChain{Time: c.Time, ConsensusParams: &exported.ConsensusParams, Validators: vals,
				AppStateBytes: appState, InitialHeight: exported.Height})
			return e
		}()
		if err != nil {
			op.Res = "err: import: " + err.Error()
			break
		}
		nctx := na.GetContextForFinalizeBlock(nil).WithBlockTime(c.Ctx.BlockTime()).WithBlockHeight(exported.Height)
		h.c = &lib.Chain{App: na, Ctx: nctx, Seed: c.Seed, Height: exported.Height, Time: c.Time}
		h.cur, h.imported, op.Res = nil, true, "ok"
		post := h.snap()
		h.cw.Add(pre, fmt.Sprintf("CExportImport %d", exported.Height), "OOk", post, h.cfg)
		h.mon.AfterImport(op, pre, post)
	case "mint":
		c.Mint(h.acc(op.A), sdk.NewCoin(op.Denom, amt(op.Amt)))
		h.cur, op.Res = nil, "ok"
	case "delegate":
		pre := h.snap()
		err := try(func(ctx sdk.Context) error {
			_, e := sms.Delegate(ctx, &stakingtypes.MsgDelegate{DelegatorAddress: h.acc(op.A).String(), ValidatorAddress: h.val(op.V), Amount: sdk.NewCoin("FX", amt(op.Amt))})
			return e
		})
		h.cur, op.Res = nil, res(err)
		if err == nil {
			h.follow(op, pre, h.snap())
		}
	case "undelegate":
		pre := h.snap()
		err := try(func(ctx sdk.Context) error {
			_, e := sms.Undelegate(ctx, &stakingtypes.MsgUndelegate{DelegatorAddress: h.acc(op.A).String(), ValidatorAddress: h.val(op.V), Amount: sdk.NewCoin("FX", amt(op.Amt))})
			return e
		})
		h.cur, op.Res = nil, res(err)
		if err == nil && h.isMoved(op.A) {
			h.tags["target-undelegated"] = true
		}
		if err == nil {
			h.follow(op, pre, h.snap())
		}
		h.mon.FollowUp(op, err)
	case "redelegate":
		pre := h.snap()
		err := try(func(ctx sdk.Context) error {
			_, e := sms.BeginRedelegate(ctx, &stakingtypes.MsgBeginRedelegate{DelegatorAddress: h.acc(op.A).String(), ValidatorSrcAddress: h.val(op.V), ValidatorDstAddress: h.val(op.W), Amount: sdk.NewCoin("FX", amt(op.Amt))})
			return e
		})
		h.cur, op.Res = nil, res(err)
		if err == nil {
			h.followRedelegate(op, pre, h.snap())
		}
		h.mon.FollowUp(op, err)
	case "withdraw":
		pre := h.snap()
		dms := distrkeeper.NewMsgServerImpl(c.App.DistrKeeper)
		var got sdk.Coins
		err := try(func(ctx sdk.Context) error {
			r, e := dms.WithdrawDelegatorReward(ctx, &distrtypes.MsgWithdrawDelegatorReward{DelegatorAddress: h.acc(op.A).String(), ValidatorAddress: h.val(op.V)})
			if e == nil {
				got = r.Amount
			}
			return e
		})
		h.cur, op.Res = nil, res(err)
		if err == nil && h.isMoved(op.A) && !got.IsZero() {
			h.tags["target-withdrew"] = true
		}
		if err == nil {
			h.follow(op, pre, h.snap())
		}
		h.mon.FollowUp(op, err)
	case "createval":
		pk := ed25519.GenPrivKeyFromSecret([]byte(fmt.Sprintf("c14-cons-%d-%d", h.seed, op.A))).PubKey()
		msg, err := stakingtypes.NewMsgCreateValidator(h.val(op.A), pk, sdk.NewCoin("FX", amt(op.Amt)),
			stakingtypes.Description{Moniker: "c14"}, stakingtypes.NewCommissionRates(sdkmath.LegacyZeroDec(), sdkmath.LegacyOneDec(), sdkmath.LegacyZeroDec()), sdkmath.OneInt())
		lib.Must(err)
		err = try(func(ctx sdk.Context) error { _, e := sms.CreateValidator(ctx, msg); return e })
		h.cur, op.Res = nil, res(err)
	case "slash":
		v, err := c.App.StakingKeeper.GetValidator(c.Ctx, sdk.ValAddress(h.acc(op.V)))
		lib.Must(err)
		cons, err := v.GetConsAddr()
		lib.Must(err)
		pre := h.snap()
		err = try(func(ctx sdk.Context) error {
			_, e := c.App.StakingKeeper.Slash(ctx, cons, op.Dt, v.ConsensusPower(sdk.DefaultPowerReduction), sdkmath.LegacyNewDecWithPrec(5, 2))
			return e
		})
		h.cur, op.Res = nil, res(err)
		if err == nil && op.Dt < pre.Height && h.cw.follow < h.cw.followLimit+10 {
			n := len(h.cw.items)
			h.cw.Add(pre, fmt.Sprintf("CSlashUbd %s %d %s", z(h.id(op.V)), op.Dt, zb(sdkmath.LegacyNewDecWithPrec(5, 2).BigInt())), "OOk", h.snap(), h.cfg)
			if len(h.cw.items) > n {
				h.rep.Count("follow-case:slash")
			}
		}
		h.mon.AfterSlash(op, pre, h.snap(), err)
	case "submit":
		var pre *Snap
		if !h.quiet {
			pre = h.snap()
		}
		err := try(func(ctx sdk.Context) error {
			msgs := textMsgs()
			if op.Denom == "toggle" { // a message type with a custom (7-day) voting period
				msgs = toggleMsgs()
			}
			_, e := gms.SubmitProposal(ctx, &govv1.MsgSubmitProposal{Messages: msgs, InitialDeposit: sdk.NewCoins(sdk.NewCoin("FX", amt(op.Amt))), Proposer: h.acc(op.A).String(), Title: "title", Summary: "description", Expedited: op.Mode == "exp"})
			return e
		})
		h.cur, op.Res = nil, res(err)
		if err == nil && !h.quiet {
			post := h.snap()
			var np PropRec
			for _, p := range post.Props {
				if p.ID == pre.NextPid {
					np = p
				}
			}
			if np.Status == 2 { // voting started at once: the applicable period is the elapsed one, the opening deposit was met
				np.VP = np.VoteEnd - pre.Now
			}
			ex := "0"
			if np.Exp {
				ex = "1"
			}
			h.cw.Add(pre, fmt.Sprintf("CSubmit %s %s %s %s %s", z(h.id(op.A)), zb(amt(op.Amt).BigInt()), ex, z(np.VP), zb(np.Min)), "OOk", post, h.cfg)
		}
	case "deposit":
		pre := h.snap()
		err := try(func(ctx sdk.Context) error {
			_, e := gms.Deposit(ctx, &govv1.MsgDeposit{ProposalId: op.Pid, Depositor: h.acc(op.A).String(), Amount: sdk.NewCoins(sdk.NewCoin("FX", amt(op.Amt)))})
			return e
		})
		h.cur, op.Res = nil, res(err)
		if err == nil && !h.quiet {
			h.cw.Add(pre, fmt.Sprintf("CDeposit %s %d %s", z(h.id(op.A)), op.Pid, zb(amt(op.Amt).BigInt())), "OOk", h.snap(), h.cfg)
		}
	case "vote":
		pre := h.snap()
		err := try(func(ctx sdk.Context) error {
			_, e := gms.Vote(ctx, &govv1.MsgVote{ProposalId: op.Pid, Voter: h.acc(op.A).String(), Option: govv1.OptionYes})
			return e
		})
		h.cur, op.Res = nil, res(err)
		if err == nil && !h.quiet {
			h.cw.Add(pre, fmt.Sprintf("CVote %s %d", z(h.id(op.A)), op.Pid), "OOk", h.snap(), h.cfg)
		}
	case "block":
		pre := h.snap()
		t := c.Time.Add(time.Duration(op.Dt))
		// which closing proposals burn their deposits: the real tally on a discarded branch
		var burns, converts []string
		cctx, _ := c.Ctx.CacheContext()
		cctx = cctx.WithBlockTime(t)
		rng := collections.NewPrefixUntilPairRange[time.Time, uint64](t)
		lib.Must(c.App.GovKeeper.ActiveProposalsQueue.Walk(cctx, rng, func(k collections.Pair[time.Time, uint64], _ uint64) (bool, error) {
			p, e := c.App.GovKeeper.Keeper.Proposals.Get(cctx, k.K2())
			if e != nil {
				return false, nil
			}
			if passes, burn, _, e := c.App.GovKeeper.Tally(cctx, p); e == nil {
				if p.Expedited && !passes {
					converts = append(converts, fmt.Sprint(k.K2()))
				} else if burn {
					burns = append(burns, fmt.Sprint(k.K2()))
				}
			}
			return false, nil
		}))
		valsPre := h.valRecs()
		err := c.NextBlockAfter(time.Duration(op.Dt))
		h.cur = nil
		op.Res = res(err)
		if err != nil {
			h.rep.Fail(lib.Failure{Kind: "monitor", What: "block processing failed: " + err.Error(), Sig: "C14:block-halt", Replay: h.replay()})
			return op
		}
		post := h.snap()
		vs, changed := vsideOf(valsPre, h.valRecs())
		if changed {
			h.rep.Count("valset-change-block")
		}
		h.cw.Add(pre, fmt.Sprintf("CEndBlock %s %s %s %s %s", z(ns(t)), z(post.Now), lib.List(burns), lib.List(converts), vs), "OOk", post, h.cfg)
		h.mon.AfterBlock(op, pre, post, ns(t))
	case "migrate":
		pre := h.snap()
		sigHex, sigCoq := h.sign(op)
		msg := &migratetypes.MsgMigrateAccount{From: h.acc(op.A).String(), To: h.hexAddr(op.B).String(), Signature: sigHex}
		pm := h.mon.BeforeMigrate(op, pre)
		var err error
		basic := false
		if op.Mode == "tx" {
			if err = msg.ValidateBasic(); err != nil {
				basic = true
			}
		}
		if err == nil {
			err = try(func(ctx sdk.Context) error { _, e := c.App.MigrateKeeper.MigrateAccount(ctx, msg); return e })
		}
		h.cur = nil
		cls, code := classify(err, basic)
		op.Res = cls
		post := h.snap()
		obs := "OOk"
		switch {
		case code > 0:
			obs = fmt.Sprintf("(OErr %d)", code)
		case code < 0:
			obs = "OPanic"
		}
		if op.Mode == "tx" {
			h.cw.Add(pre, fmt.Sprintf("CMigrate %s %s %s", z(h.id(op.A)), z(h.id(op.B)), sigCoq), obs, post, h.cfg)
		} else {
			h.cw.Add(pre, fmt.Sprintf("CMigrateSrv %s %s", z(h.id(op.A)), z(h.id(op.B))), obs, post, h.cfg)
		}
		h.rep.Count("migrate:" + op.Mode + ":" + strings.SplitN(cls, ":", 2)[0])
		if cls == "funds" {
			h.tags["refused-locked"] = true
		}
		if err == nil && op.A != op.B {
			h.used[op.A], h.used[op.B] = true, true
			h.moved[op.A] = op.B
			h.tags["migrated"] = true
			nd, nu := 0, 0
			for _, d := range pre.Dels {
				if d.KA == h.id(op.A) {
					nd++
				}
			}
			for _, u := range pre.Ubds {
				if u.KA == h.id(op.A) {
					nu++
				}
			}
			for _, u := range pre.Reds {
				if u.KA == h.id(op.A) {
					nu++
				}
			}
			if nd > 0 && nu > 0 {
				h.tags["migrated-rich"] = true
			}
		}
		h.mon.AfterMigrate(op, pm, pre, post, err)
	default:
		panic("unknown op " + op.Kind)
	}
	return op
}

// follow: emit the correspondence case of a successful delegate / undelegate / withdraw. The validator-side
// answers (reward, new starting info, shares issued / tokens returned, completion time, unbonding id) are read
// off the real pre/post states; the model must reproduce every record, index and queue write from them.
func (h *Hist) follow(op Op, pre, post *Snap) {
	if h.cw.follow >= h.cw.followLimit {
		return
	}
	c := h.c
	val, err := c.App.StakingKeeper.GetValidator(c.Ctx, sdk.ValAddress(h.acc(op.V)))
	if err != nil || !val.IsBonded() {
		return
	}
	a, v := h.id(op.A), h.id(op.V)
	balOf := func(s *Snap) *big.Int {
		for _, b := range s.Bal {
			if b.A == a && b.D == 0 {
				return b.X
			}
		}
		return new(big.Int)
	}
	sharesOf := func(s *Snap) *big.Int {
		for _, d := range s.Dels {
			if d.KA == a && d.KV == v {
				return d.Shares
			}
		}
		return new(big.Int)
	}
	unbOf := func(s *Snap) *big.Int {
		t := new(big.Int)
		for _, u := range s.Ubds {
			if u.KA == a && u.KV == v {
				for _, e := range u.Entries {
					t.Add(t, e.Bal)
				}
			}
		}
		return t
	}
	start := "(SI 0 0 0)"
	for _, x := range post.Start {
		if x.A == a && x.V == v {
			start = "(SI " + z(x.Period) + " " + zb(x.Stake) + " " + z(x.Height) + ")"
		}
	}
	sp, err := c.App.StakingKeeper.GetParams(c.Ctx)
	lib.Must(err)
	var idb int64
	for _, kv := range c.DumpPrefix(c.Ctx, "staking", []byte{0x37}) {
		idb = int64(binary.BigEndian.Uint64(kv.V))
	}
	delta := new(big.Int).Sub(balOf(post), balOf(pre))
	ans := func(reward, amount *big.Int) string {
		return fmt.Sprintf("(VA %s %s %s true %s %s %d)", zb(reward), start, zb(amount), z(pre.Now+sp.UnbondingTime.Nanoseconds()), z(idb), sp.MaxEntries)
	}
	var cop string
	switch op.Kind {
	case "delegate":
		cop = fmt.Sprintf("CDelegate %s %s %s %s", z(a), z(v), zb(amt(op.Amt).BigInt()),
			ans(new(big.Int).Add(delta, amt(op.Amt).BigInt()), new(big.Int).Sub(sharesOf(post), sharesOf(pre))))
	case "undelegate":
		cop = fmt.Sprintf("CUndelegate %s %s %s %s", z(a), z(v), zb(new(big.Int).Sub(sharesOf(pre), sharesOf(post))),
			ans(delta, new(big.Int).Sub(unbOf(post), unbOf(pre))))
	case "withdraw":
		cop = fmt.Sprintf("CWithdraw %s %s %s", z(a), z(v), ans(delta, new(big.Int)))
	default:
		return
	}
	n := len(h.cw.items)
	h.cw.Add(pre, cop, "OOk", post, h.cfg)
	if len(h.cw.items) > n {
		h.cw.follow++
		h.rep.Count("follow-case:" + op.Kind)
	}
}

// followRedelegate: the correspondence case of a successful redelegation between two bonded validators
func (h *Hist) followRedelegate(op Op, pre, post *Snap) {
	if h.cw.follow >= h.cw.followLimit {
		return
	}
	c := h.c
	for _, vi := range []int{op.V, op.W} {
		val, err := c.App.StakingKeeper.GetValidator(c.Ctx, sdk.ValAddress(h.acc(vi)))
		if err != nil || !val.IsBonded() {
			return
		}
	}
	a, v, w := h.id(op.A), h.id(op.V), h.id(op.W)
	balOf := func(s *Snap) *big.Int {
		for _, b := range s.Bal {
			if b.A == a && b.D == 0 {
				return b.X
			}
		}
		return new(big.Int)
	}
	sharesOf := func(s *Snap, val int64) *big.Int {
		for _, d := range s.Dels {
			if d.KA == a && d.KV == val {
				return d.Shares
			}
		}
		return new(big.Int)
	}
	startOf := func(val int64) string {
		for _, x := range post.Start {
			if x.A == a && x.V == val {
				return "(SI " + z(x.Period) + " " + zb(x.Stake) + " " + z(x.Height) + ")"
			}
		}
		return "(SI 0 0 0)"
	}
	// the new entry is the last one of the (a, v, w) record
	var tokens *big.Int
	for _, r := range post.Reds {
		if r.KA == a && r.KS == v && r.KD == w && len(r.Entries) > 0 {
			tokens = r.Entries[len(r.Entries)-1].Init
		}
	}
	if tokens == nil {
		return
	}
	sp, err := c.App.StakingKeeper.GetParams(c.Ctx)
	lib.Must(err)
	var idb int64
	for _, kv := range c.DumpPrefix(c.Ctx, "staking", []byte{0x37}) {
		idb = int64(binary.BigEndian.Uint64(kv.V))
	}
	when, maxe := z(pre.Now+sp.UnbondingTime.Nanoseconds()), sp.MaxEntries
	// only the sum of the two hook rewards is observable on the balance: it is attributed to the first answer
	ans1 := fmt.Sprintf("(VA %s %s %s true %s %s %d)", zb(new(big.Int).Sub(balOf(post), balOf(pre))), startOf(v), zb(tokens), when, z(idb), maxe)
	ans2 := fmt.Sprintf("(VA 0 %s %s true %s %s %d)", startOf(w), zb(new(big.Int).Sub(sharesOf(post, w), sharesOf(pre, w))), when, z(idb), maxe)
	n := len(h.cw.items)
	h.cw.Add(pre, fmt.Sprintf("CRedelegate %s %s %s %s %s %s", z(a), z(v), z(w), zb(new(big.Int).Sub(sharesOf(pre, v), sharesOf(post, v))), ans1, ans2), "OOk", post, h.cfg)
	if len(h.cw.items) > n {
		h.cw.follow++
		h.rep.Count("follow-case:redelegate")
	}
}

func (h *Hist) isMoved(a int) bool {
	for _, t := range h.moved {
		if t == a {
			return true
		}
	}
	return false
}

func textMsgs() []*codecAny {
	content, ok := govv1beta1.ContentFromProposalType("title", "description", "Text")
	if !ok {
		panic("text proposal")
	}
	lc, err := govv1.NewLegacyContent(content, authtypes.NewModuleAddress(govtypes.ModuleName).String())
	lib.Must(err)
	anys, err := sdktx.SetMsgs([]sdk.Msg{lc})
	lib.Must(err)
	return anys
}

func toggleMsgs() []*codecAny {
	anys, err := sdktx.SetMsgs([]sdk.Msg{&erc20types.MsgToggleTokenConversion{Authority: authtypes.NewModuleAddress(govtypes.ModuleName).String(), Token: "nonexistent"}})
	lib.Must(err)
	return anys
}

type replayT struct {
	Seed int64 `json:"seed"`
	Ops  []Op  `json:"ops"`
	Twin []Op  `json:"twin_ops,omitempty"` // twin run: the operations of the chain that does not migrate
}

func (h *Hist) replay() replayT { return replayT{Seed: h.seed, Ops: append([]Op{}, h.ops...)} }

// allowLocalhostClient: the exported ibc genesis contains the 09-localhost client that ibc-go creates by itself,
// while the exported client params do not allow that type, so ibc's InitGenesis refuses its own export. The
// type is added to the allow list (nothing else of the exported state is touched).
func allowLocalhostClient(state []byte) []byte {
	var m map[string]json.RawMessage
	lib.Must(json.Unmarshal(state, &m))
	var ibc map[string]json.RawMessage
	if json.Unmarshal(m["ibc"], &ibc) != nil {
		return state
	}
	var cg map[string]json.RawMessage
	if json.Unmarshal(ibc["client_genesis"], &cg) != nil {
		return state
	}
	var params struct {
		AllowedClients []string `json:"allowed_clients"`
	}
	if json.Unmarshal(cg["params"], &params) != nil {
		return state
	}
	params.AllowedClients = append(params.AllowedClients, "09-localhost")
	cg["params"], _ = json.Marshal(params)
	ibc["client_genesis"], _ = json.Marshal(cg)
	m["ibc"], _ = json.Marshal(ibc)
	out, err := json.Marshal(m)
	lib.Must(err)
	return out
}

// valRec: what the staking end blocker's validator part is read from — the validator RECORDS (status, tokens,
// unbonding ids), not the pool balance or the unbonding-id index that the correspondence compares.
type valRec struct {
	bonded    bool
	unbonding bool
	present   bool
	tokens    sdkmath.Int
	ids       []uint64
}

func (h *Hist) valRecs() map[int64]valRec {
	vals, err := h.c.App.StakingKeeper.GetAllValidators(h.c.Ctx)
	lib.Must(err)
	m := map[int64]valRec{}
	for _, v := range vals {
		m[h.ids.Bech(v.OperatorAddress)] = valRec{bonded: v.IsBonded(), unbonding: v.IsUnbonding(), present: true, tokens: v.Tokens, ids: append([]uint64{}, v.UnbondingIds...)}
	}
	return m
}

// vsideOf renders the model's `vside` input of an end-block step: net tokens moved into the not-bonded pool by
// validators leaving (+) / entering (-) the active set, unbonding ids registered for validators, ids deleted.
func vsideOf(pre, post map[int64]valRec) (string, bool) {
	pool := sdkmath.ZeroInt()
	var sets, dels []string
	has := func(xs []uint64, x uint64) bool {
		for _, y := range xs {
			if y == x {
				return true
			}
		}
		return false
	}
	for id, q := range post {
		p := pre[id] // a validator created in this block was not bonded before
		switch {
		case p.bonded && !q.bonded:
			pool = pool.Add(q.tokens)
		case !p.bonded && q.bonded:
			pool = pool.Sub(q.tokens)
		}
		for _, u := range q.ids {
			if !has(p.ids, u) {
				sets = append(sets, "("+z(int64(u))+", "+z(id)+")")
			}
		}
	}
	for id, p := range pre {
		// UnbondAllMatureValidators: a validator whose own unbonding period ends (unbonding -> unbonded, or removed when it
		// has no shares left) has all its unbonding ids deleted from the index; the ids are NOT cleared in the validator
		// record that stays (the SDK resets them on a copy it does not store), so this is read off the status change
		q := post[id]
		if p.unbonding && (!q.present || !(q.unbonding || q.bonded)) {
			for _, u := range p.ids {
				dels = append(dels, z(int64(u)))
			}
		}
	}
	sort.Strings(sets)
	sort.Strings(dels)
	changed := !pool.IsZero() || len(sets) > 0 || len(dels) > 0
	return "(VS " + zb(pool.BigInt()) + " " + lib.List(sets) + " " + lib.List(dels) + ")", changed
}
