package main

import (
	"encoding/hex"
	"fmt"

	sdkmath "cosmossdk.io/math"
	sdk "github.com/cosmos/cosmos-sdk/types"
	sdktx "github.com/cosmos/cosmos-sdk/types/tx"
	authtypes "github.com/cosmos/cosmos-sdk/x/auth/types"
	govtypes "github.com/cosmos/cosmos-sdk/x/gov/types"
	govv1 "github.com/cosmos/cosmos-sdk/x/gov/types/v1"
	govv1beta1 "github.com/cosmos/cosmos-sdk/x/gov/types/v1beta1"
	stakingkeeper "github.com/cosmos/cosmos-sdk/x/staking/keeper"
	stakingtypes "github.com/cosmos/cosmos-sdk/x/staking/types"
	"github.com/ethereum/go-ethereum/crypto"

	fxgovkeeper "github.com/functionx/fx-core/v8/x/gov/keeper"
	migratetypes "github.com/functionx/fx-core/v8/x/migrate/types"

	"fxverif/lib"
)

func main() {
	c := lib.NewChain(1, 3, nil)
	lib.Must(c.NextBlock())
	ctx := c.Ctx
	gp, _ := c.App.GovKeeper.Keeper.Params.Get(ctx)
	fmt.Printf("gov params: mindep=%v maxdepperiod=%v voting=%v burnPrevote=%v burnQuorum=%v burnVeto=%v minInitRatio=%v minDepRatio=%v\n",
		gp.MinDeposit, *gp.MaxDepositPeriod, *gp.VotingPeriod, gp.BurnProposalDepositPrevote, gp.BurnVoteQuorum, gp.BurnVoteVeto, gp.MinInitialDepositRatio, gp.MinDepositRatio)
	sp, _ := c.App.StakingKeeper.GetParams(ctx)
	fmt.Printf("staking params: %+v\n", sp)
	fmt.Println("ctx time", ctx.BlockTime(), "c.Time", c.Time, "height", ctx.BlockHeight())

	from := lib.CosmosKey(1, "c14from", 0)
	to := lib.EthKey(1, "c14to", 0)
	acc := c.App.AccountKeeper.NewAccountWithAddress(ctx, from.Acc())
	lib.Must(acc.SetPubKey(from.Priv.PubKey()))
	c.App.AccountKeeper.SetAccount(ctx, acc)
	c.Mint(from.Acc(), lib.FX(100000), sdk.NewCoin("ibc/ABC", sdkmath.NewInt(777)))
	c.Mint(to.Acc(), lib.FX(5))

	vals, _ := c.App.StakingKeeper.GetValidators(ctx, 10)
	for _, v := range vals {
		fmt.Println("val", v.OperatorAddress, v.Tokens, v.Status)
	}
	sms := stakingkeeper.NewMsgServerImpl(c.App.StakingKeeper.Keeper)
	err := c.Try(func(ctx sdk.Context) error {
		_, e := sms.Delegate(ctx, &stakingtypes.MsgDelegate{DelegatorAddress: from.Acc().String(), ValidatorAddress: vals[0].OperatorAddress, Amount: lib.FX(1000)})
		return e
	})
	fmt.Println("delegate", err)
	lib.Must(c.NextBlock())
	err = c.Try(func(ctx sdk.Context) error {
		_, e := sms.Undelegate(ctx, &stakingtypes.MsgUndelegate{DelegatorAddress: from.Acc().String(), ValidatorAddress: vals[0].OperatorAddress, Amount: lib.FX(100)})
		return e
	})
	fmt.Println("undelegate", err)
	err = c.Try(func(ctx sdk.Context) error {
		_, e := sms.BeginRedelegate(ctx, &stakingtypes.MsgBeginRedelegate{DelegatorAddress: from.Acc().String(), ValidatorSrcAddress: vals[0].OperatorAddress, ValidatorDstAddress: vals[1].OperatorAddress, Amount: lib.FX(50)})
		return e
	})
	fmt.Println("redelegate", err)

	// gov
	content, _ := govv1beta1.ContentFromProposalType("title", "description", "Text")
	legacyContent, _ := govv1.NewLegacyContent(content, authtypes.NewModuleAddress(govtypes.ModuleName).String())
	anys, _ := sdktx.SetMsgs([]sdk.Msg{legacyContent})
	gms := fxgovkeeper.NewMsgServerImpl(c.App.GovKeeper)
	err = c.Try(func(ctx sdk.Context) error {
		r, e := gms.SubmitProposal(ctx, &govv1.MsgSubmitProposal{Messages: anys, InitialDeposit: sdk.NewCoins(lib.FX(1000)), Proposer: from.Acc().String(), Title: "title", Summary: "description"})
		if e == nil {
			fmt.Println("proposal id", r.ProposalId)
		}
		return e
	})
	fmt.Println("submit", err)
	lib.Must(c.NextBlock())

	for _, kv := range c.DumpPrefix(c.Ctx, "staking", nil) {
		if kv.K[0] >= 0x31 && kv.K[0] != 0x50 {
			fmt.Printf("staking %x = %x\n", kv.K, kv.V)
		}
	}
	// migrate
	hash := migratetypes.MigrateAccountSignatureHash(from.Acc(), to.Acc())
	priv, _ := crypto.ToECDSA(to.ECDSAKeyBytes())
	sig, _ := crypto.Sign(hash, priv)
	msg := migratetypes.NewMsgMigrateAccount(from.Acc(), to.Hex(), hex.EncodeToString(sig))
	fmt.Println("validate basic", msg.ValidateBasic())
	err = c.Try(func(ctx sdk.Context) error {
		_, e := c.App.MigrateKeeper.MigrateAccount(ctx, msg)
		return e
	})
	fmt.Println("migrate", err)
	for _, kv := range c.DumpPrefix(c.Ctx, "staking", nil) {
		if kv.K[0] >= 0x31 && kv.K[0] != 0x50 {
			fmt.Printf("staking %x = %x\n", kv.K, kv.V)
		}
	}
	for _, kv := range c.DumpPrefix(c.Ctx, "migrate", nil) {
		fmt.Printf("migrate %x = %x\n", kv.K, kv.V)
	}
	q := stakingkeeper.NewQuerier(c.App.StakingKeeper.Keeper)
	r, err := q.ValidatorDelegations(c.Ctx, &stakingtypes.QueryValidatorDelegationsRequest{ValidatorAddr: vals[0].OperatorAddress})
	fmt.Println("validator delegations query:", r, err)
	ds, err := c.App.StakingKeeper.GetValidatorDelegations(c.Ctx, sdk.ValAddress(c.ValKeys[0].Acc()))
	fmt.Println("GetValidatorDelegations:", ds, err)
	func() {
		defer func() { fmt.Println("recover:", recover()) }()
		c.App.CrisisKeeper.AssertInvariants(c.Ctx)
		fmt.Println("invariants ok")
	}()
}
