package main

// monitor.go: property C14 evaluated on REAL observables, independently of the Coq model
// (plain Go over decoded store records, keeper queries and byte-level store diffs).  It decides
// nothing on a clean run; it is the failing-input search.

import (
	"bytes"
	"fmt"
	"math/big"
	"sort"
	"strings"

	sdk "github.com/cosmos/cosmos-sdk/types"
	distrkeeper "github.com/cosmos/cosmos-sdk/x/distribution/keeper"
	distrtypes "github.com/cosmos/cosmos-sdk/x/distribution/types"
	stakingkeeper "github.com/cosmos/cosmos-sdk/x/staking/keeper"
	stakingtypes "github.com/cosmos/cosmos-sdk/x/staking/types"
	"github.com/ethereum/go-ethereum/crypto"

	migratetypes "github.com/functionx/fx-core/v8/x/migrate/types"

	"fxverif/lib"
)

type Monitor struct {
	h    *Hist
	seen map[string]bool
}

func NewMonitor(h *Hist) *Monitor { return &Monitor{h: h, seen: map[string]bool{}} }

var globalSeen = map[string]bool{}

func (m *Monitor) fail(sig, what string) {
	m.h.rep.Count("monitor-failure:" + sig)
	if globalSeen[sig] {
		return
	}
	globalSeen[sig] = true
	m.h.rep.Fail(lib.Failure{Kind: "monitor", What: what, Sig: sig, Replay: m.h.replay()})
}

type preMig struct {
	usedBefore map[int]bool // actors of earlier accepted migrations (remembered by the harness, not read from a store)
	sigValid   bool
	rewards    map[int64]string // validator id -> rewards of the source
	dump       map[string][]string
	vals       []int64
}

func (m *Monitor) rewards(a sdk.AccAddress, v sdk.ValAddress) string {
	cctx, _ := m.h.c.Ctx.CacheContext()
	q := distrkeeper.NewQuerier(m.h.c.App.DistrKeeper)
	r, err := q.DelegationRewards(cctx, &distrtypes.QueryDelegationRewardsRequest{DelegatorAddress: a.String(), ValidatorAddress: v.String()})
	if err != nil {
		return "err:" + err.Error()
	}
	return r.Rewards.String()
}

func (m *Monitor) addrOf(id int64) []byte {
	for a, i := range m.h.ids.addr {
		if i == id {
			return []byte(a)
		}
	}
	return nil
}

func (m *Monitor) BeforeMigrate(op Op, pre *Snap) *preMig {
	h := m.h
	pm := &preMig{rewards: map[int64]string{}, usedBefore: map[int]bool{}}
	for k := range h.used {
		pm.usedBefore[k] = true
	}
	// signature: does go-ethereum recover the target's address from it over keccak(prefix, from, to)?
	if op.Sig != "empty" && op.Sig != "garbage" && op.A != op.B {
		digestSigned := migratetypes.MigrateAccountSignatureHash(h.acc(op.SF), h.hexAddr(op.ST).Bytes())
		priv, _ := crypto.ToECDSA(h.keys[op.Signer].ECDSAKeyBytes())
		sig, _ := crypto.Sign(digestSigned, priv)
		digest := crypto.Keccak256([]byte("MigrateAccount:"), h.acc(op.A), h.hexAddr(op.B).Bytes())
		if pub, err := crypto.SigToPub(digest, sig); err == nil {
			pm.sigValid = bytes.Equal(crypto.PubkeyToAddress(*pub).Bytes(), h.hexAddr(op.B).Bytes())
		}
	}
	from := h.id(op.A)
	for _, d := range pre.Dels {
		if d.KA == from {
			pm.rewards[d.KV] = m.rewards(h.acc(op.A), sdk.ValAddress(m.addrOf(d.KV)))
			pm.vals = append(pm.vals, d.KV)
		}
	}
	pm.dump = h.c.DumpAll(h.c.Ctx)
	return pm
}

func bigOf(m map[[2]int64]*big.Int, k [2]int64) *big.Int {
	if v, ok := m[k]; ok {
		return v
	}
	return new(big.Int)
}

func renderEntries(es []UE) string {
	var sb strings.Builder
	for _, e := range es {
		fmt.Fprintf(&sb, "[h%d t%d i%s b%s id%d hold%d]", e.Height, e.Time, e.Init, e.Bal, e.ID, e.Hold)
	}
	return sb.String()
}

// portfolio of an address as strings, with the address itself blanked out
func portfolio(s *Snap, a int64) []string {
	var out []string
	for _, d := range s.Dels {
		if d.KA == a || d.VA == a {
			out = append(out, fmt.Sprintf("del val=%d/%d shares=%s keyvalue=%v", d.KV, d.VV, d.Shares, d.KA == d.VA))
		}
	}
	for _, d := range s.Start {
		if d.A == a {
			out = append(out, fmt.Sprintf("start val=%d period=%d stake=%s height=%d", d.V, d.Period, d.Stake, d.Height))
		}
	}
	for _, u := range s.Ubds {
		if u.KA == a || u.VA == a {
			out = append(out, fmt.Sprintf("ubd val=%d/%d keyvalue=%v %s", u.KV, u.VV, u.KA == u.VA, renderEntries(u.Entries)))
		}
	}
	for _, u := range s.Reds {
		if u.KA == a || u.VA == a {
			out = append(out, fmt.Sprintf("red %d/%d->%d/%d keyvalue=%v %s", u.KS, u.VS, u.KD, u.VD, u.KA == u.VA, renderEntries(u.Entries)))
		}
	}
	for _, x := range s.Idx33 {
		if x[0] == a {
			out = append(out, fmt.Sprintf("idx33 val=%d", x[1]))
		}
	}
	for _, x := range s.Idx35 {
		if x[0] == a {
			out = append(out, fmt.Sprintf("idx35 %d->%d", x[1], x[2]))
		}
	}
	for _, x := range s.Idx36 {
		if x[0] == a {
			out = append(out, fmt.Sprintf("idx36 %d->%d", x[1], x[2]))
		}
	}
	sort.Strings(out)
	return out
}

// records of everybody except the two given addresses
func others(s *Snap, a, b int64) []string {
	var out []string
	skip := func(x int64) bool { return x == a || x == b }
	for _, d := range s.Dels {
		if !skip(d.KA) && !skip(d.VA) {
			out = append(out, fmt.Sprintf("del %d %d %d %d %s", d.KA, d.KV, d.VA, d.VV, d.Shares))
		}
	}
	for _, d := range s.Start {
		if !skip(d.A) {
			out = append(out, fmt.Sprintf("start %d %d %d %s %d", d.A, d.V, d.Period, d.Stake, d.Height))
		}
	}
	for _, u := range s.Ubds {
		if !skip(u.KA) && !skip(u.VA) {
			out = append(out, fmt.Sprintf("ubd %d %d %d %d %s", u.KA, u.KV, u.VA, u.VV, renderEntries(u.Entries)))
		}
	}
	for _, u := range s.Reds {
		if !skip(u.KA) && !skip(u.VA) {
			out = append(out, fmt.Sprintf("red %d %d %d %d %d %d %s", u.KA, u.KS, u.KD, u.VA, u.VS, u.VD, renderEntries(u.Entries)))
		}
	}
	for _, x := range s.Idx71 {
		if !skip(x[0]) {
			out = append(out, fmt.Sprintf("idx71 %v", x))
		}
	}
	for _, x := range s.Idx33 {
		if !skip(x[0]) {
			out = append(out, fmt.Sprintf("idx33 %v", x))
		}
	}
	for _, x := range s.Idx35 {
		if !skip(x[0]) {
			out = append(out, fmt.Sprintf("idx35 %v", x))
		}
	}
	for _, x := range s.Idx36 {
		if !skip(x[0]) {
			out = append(out, fmt.Sprintf("idx36 %v", x))
		}
	}
	for _, q := range s.UbdQ {
		for i, p := range q.Pairs {
			if !skip(p[0]) {
				out = append(out, fmt.Sprintf("ubdq %d #%d %v", q.T, i, p))
			}
		}
	}
	for _, q := range s.RedQ {
		for i, p := range q.Trips {
			if !skip(p[0]) {
				out = append(out, fmt.Sprintf("redq %d #%d %v", q.T, i, p))
			}
		}
	}
	for _, b := range s.Bal {
		if !skip(b.A) {
			out = append(out, fmt.Sprintf("bal %d %d %s", b.A, b.D, b.X))
		}
	}
	sort.Strings(out)
	return out
}

func eqStrs(a, b []string) (bool, string) {
	if len(a) != len(b) {
		return false, fmt.Sprintf("%d vs %d records; %v vs %v", len(a), len(b), a, b)
	}
	for i := range a {
		if a[i] != b[i] {
			return false, a[i] + " vs " + b[i]
		}
	}
	return true, ""
}

func (m *Monitor) AfterMigrate(op Op, pm *preMig, pre, post *Snap, err error) {
	h := m.h
	from, to := h.id(op.A), h.id(op.B)
	if err != nil {
		// a refused migration must leave no trace
		if d := lib.DiffDumps(pm.dump, h.c.DumpAll(h.c.Ctx)); len(d) > 0 {
			m.fail("C14:refused-changed-state", "a refused migration changed the state: "+strings.Join(d, "; "))
		}
		return
	}
	role := fmt.Sprintf("from=%d to=%d mode=%s", from, to, op.Mode)
	if op.Mode == "srv" && op.A == op.B {
		// the msg server alone, asked to migrate an address onto itself: no transaction can do this
		// (ValidateBasic refuses "same account"); the property says nothing about it
		return
	}

	// ---- authorisation and refusal rules, as the property states them ----
	if op.Mode == "tx" && !pm.sigValid {
		m.fail("C14:auth:signature", "migration accepted without a signature of the target key over (source, target): "+role)
	}
	if op.A == op.B || bytes.Equal(h.acc(op.A), h.acc(op.B)) {
		m.fail("C14:auth:same", "migration onto the same address accepted: "+role)
	}
	for _, r := range pre.Recs {
		if r.A == from || r.A == to {
			m.fail("C14:once", fmt.Sprintf("migration accepted although address %d already has a migration record: %s", r.A, role))
		}
	}
	for _, x := range []int{op.A, op.B} {
		if pm.usedBefore[x] {
			sig := "C14:once:history"
			if h.imported {
				sig = "C14:restart:regression:reused"
			}
			m.fail(sig, fmt.Sprintf("migration accepted although address %d took part in an earlier accepted migration of this history (imported genesis: %v; its record is not in the store): %s", h.id(x), h.imported, role))
		}
	}
	for _, v := range pre.Vals {
		if v == from || v == to {
			m.fail("C14:validator", fmt.Sprintf("migration accepted although %d is a validator operator: %s", v, role))
		}
	}
	if p := portfolio(pre, to); len(p) > 0 {
		m.fail("C14:target-staking", fmt.Sprintf("migration accepted although the target already has staking records %v: %s", p, role))
	}
	for _, p := range pre.Props {
		if p.Status == 3 {
			continue
		}
		period := map[int]string{1: "deposit-period", 2: "voting-period"}[p.Status]
		end := p.DepEnd
		if p.Status == 2 {
			end = p.VoteEnd
		}
		// the known defect (C14-1) concerns proposals whose period ends AFTER the transaction's block time;
		// a proposal whose end time is already reached (it is closed by this block's end blocker) is seen
		// by the scan: accepting then is a different failure
		sigp := "C14:gov-open:"
		if end <= pre.Now {
			sigp = "C14:gov-due:"
		}
		for _, a := range []int64{from, to} {
			who := "source"
			if a == to {
				who = "target"
			}
			if p.Proposer == a {
				h.tags["gov-open-accepted"] = true
				m.fail(sigp+"proposer:"+period, fmt.Sprintf("migration accepted while the %s is proposer of open proposal %d (%s, ends at %d, block time %d): %s", who, p.ID, period, end, pre.Now, role))
			}
			for _, d := range pre.Deposits {
				if d.Pid == p.ID && d.A == a {
					h.tags["gov-open-accepted"] = true
					m.fail(sigp+"depositor:"+period, fmt.Sprintf("migration accepted while the %s has a deposit on open proposal %d (%s, ends at %d, block time %d): %s", who, p.ID, period, end, pre.Now, role))
				}
			}
			for _, v := range pre.Votes {
				if v[0] == p.ID && v[1] == a {
					h.tags["gov-open-accepted"] = true
					m.fail(sigp+"voter:"+period, fmt.Sprintf("migration accepted while the %s has voted on open proposal %d (ends at %d, block time %d): %s", who, p.ID, end, pre.Now, role))
				}
			}
		}
	}

	// ---- everything moved ----
	if ok, why := eqStrs(portfolio(pre, from), portfolio(post, to)); !ok {
		m.fail("C14:moved:portfolio", "portfolio(target) after differs from portfolio(source) before: "+why+" "+role)
	}
	if p := portfolio(post, from); len(p) > 0 {
		m.fail("C14:moved:source-left", fmt.Sprintf("the source still has staking records after migration %v: %s", p, role))
	}
	preB, postB := map[[2]int64]*big.Int{}, map[[2]int64]*big.Int{}
	denoms := map[int64]bool{}
	for _, b := range pre.Bal {
		preB[[2]int64{b.A, b.D}] = b.X
		denoms[b.D] = true
	}
	for _, b := range post.Bal {
		postB[[2]int64{b.A, b.D}] = b.X
		denoms[b.D] = true
	}
	for d := range denoms {
		want := new(big.Int).Add(bigOf(preB, [2]int64{from, d}), bigOf(preB, [2]int64{to, d}))
		if bigOf(postB, [2]int64{to, d}).Cmp(want) != 0 || bigOf(postB, [2]int64{from, d}).Sign() != 0 {
			m.fail("C14:moved:balance", fmt.Sprintf("denom %d: target has %s (want %s), source keeps %s: %s", d, bigOf(postB, [2]int64{to, d}), want, bigOf(postB, [2]int64{from, d}), role))
		}
	}
	if ok, why := eqStrs(others(pre, from, to), others(post, from, to)); !ok {
		m.fail("C14:moved:others", "records of another account changed: "+why+" "+role)
	}
	// queue entries: every moved entry is queued under the target; the source is gone from those slices
	slice2 := map[int64][][2]int64{}
	for _, q := range post.UbdQ {
		slice2[q.T] = q.Pairs
	}
	for _, u := range post.Ubds {
		if u.KA != to {
			continue
		}
		for _, e := range u.Entries {
			found := false
			for _, p := range slice2[e.Time] {
				if p == [2]int64{to, u.KV} {
					found = true
				}
				if p[0] == from {
					m.fail("C14:moved:queue", fmt.Sprintf("unbonding queue slice %d still names the source: %s", e.Time, role))
				}
			}
			if !found {
				m.fail("C14:moved:queue", fmt.Sprintf("moved unbonding entry (val %d, time %d) has no queue pair under the target: %s", u.KV, e.Time, role))
			}
		}
	}
	slice3 := map[int64][][3]int64{}
	for _, q := range post.RedQ {
		slice3[q.T] = q.Trips
	}
	for _, u := range post.Reds {
		if u.KA != to {
			continue
		}
		for _, e := range u.Entries {
			found := false
			for _, p := range slice3[e.Time] {
				if p == [3]int64{to, u.KS, u.KD} {
					found = true
				}
				if p[0] == from {
					m.fail("C14:moved:queue", fmt.Sprintf("redelegation queue slice %d still names the source: %s", e.Time, role))
				}
			}
			if !found {
				m.fail("C14:moved:queue", fmt.Sprintf("moved redelegation entry (%d->%d, time %d) has no queue triplet under the target: %s", u.KS, u.KD, e.Time, role))
			}
		}
	}
	// reward entitlement
	for v, want := range pm.rewards {
		got := m.rewards(h.acc(op.B), sdk.ValAddress(m.addrOf(v)))
		if got != want {
			m.fail("C14:moved:rewards", fmt.Sprintf("pending rewards at validator %d: source had %s, target has %s: %s", v, want, got, role))
		}
		if want != "" && !strings.HasPrefix(want, "err") {
			h.tags["rewards-moved"] = true
		}
	}
	// migration record in both directions
	nrec := 0
	for _, r := range post.Recs {
		if (r.A == from && r.Flag == 1 && r.Other == to) || (r.A == to && r.Flag == 2 && r.Other == from) {
			nrec++
		}
	}
	if nrec != 2 {
		m.fail("C14:record", "migration accepted without recording it in both directions: "+role)
	}

	// ---- no total changed, nothing else touched: byte-level diff of every store ----
	after := h.c.DumpAll(h.c.Ctx)
	for store := range after {
		switch store {
		case "bank", "staking", "distribution", "migrate", "acc":
			continue
		}
		if d := lib.DiffDumps(map[string][]string{store: pm.dump[store]}, map[string][]string{store: after[store]}); len(d) > 0 {
			m.fail("C14:totals:store:"+store, "migration changed store "+store+": "+strings.Join(d, "; "))
		}
	}
	for _, line := range lib.DiffDumps(map[string][]string{"staking": pm.dump["staking"]}, map[string][]string{"staking": after["staking"]}) {
		// "staking: -<hexkey>=..." ; the delegator-record prefixes (records 31 32 34, their indexes 33 35 36 71 38,
		// queues 41 42) may change, nothing else (validators, pools, params, last total power ...)
		k := strings.TrimLeft(strings.TrimPrefix(line, "staking: "), "+-")
		switch k[:2] {
		case "31", "32", "33", "34", "35", "36", "38", "41", "42", "71":
		default:
			m.fail("C14:totals:staking", "migration changed a staking key outside the delegator records: "+line)
		}
	}
	for _, line := range lib.DiffDumps(map[string][]string{"distribution": pm.dump["distribution"]}, map[string][]string{"distribution": after["distribution"]}) {
		k := strings.TrimLeft(strings.TrimPrefix(line, "distribution: "), "+-")
		if k[:2] != "04" {
			m.fail("C14:totals:distribution", "migration changed a distribution key other than a delegator starting info: "+line)
		}
	}
	for d := range h.ids.denom {
		_ = d
	}
	supplyDiff := lib.DiffDumps(map[string][]string{"bank": filterPrefix(pm.dump["bank"], "00")}, map[string][]string{"bank": filterPrefix(after["bank"], "00")})
	if len(supplyDiff) > 0 {
		m.fail("C14:totals:supply", "migration changed the bank supply: "+strings.Join(supplyDiff, "; "))
	}
	m.invariants("after migration " + role)

	// ---- the source is left with nothing: no staking / distribution key or value still names it ----
	fromBytes := fmt.Sprintf("%x", []byte(h.acc(op.A)))
	fromBech := fmt.Sprintf("%x", h.acc(op.A).String())
	for _, store := range []string{"staking", "distribution"} {
		hit := map[string]int{}
		for _, line := range after[store] {
			if strings.Contains(line, fromBytes) || strings.Contains(line, fromBech) {
				hit[line[:2]]++
			}
		}
		for p, n := range hit {
			h.tags["stale:"+p] = true
			m.fail("C14:stale:"+store+":"+p, fmt.Sprintf("after migration %d record(s) under %s prefix 0x%s still name the source: %s", n, store, p, role))
		}
	}
	// validator-side view: the validator's delegation listing works and shows the target
	q := stakingkeeper.NewQuerier(h.c.App.StakingKeeper.Keeper)
	for _, v := range pm.vals {
		cctx, _ := h.c.Ctx.CacheContext()
		r, e := q.ValidatorDelegations(cctx, &stakingtypes.QueryValidatorDelegationsRequest{ValidatorAddr: sdk.ValAddress(m.addrOf(v)).String()})
		if e != nil {
			m.fail("C14:stale:valquery", fmt.Sprintf("after migration the delegations-of-validator query for validator %d fails (%v): %s", v, e, role))
			continue
		}
		found := false
		for _, d := range r.DelegationResponses {
			if d.Delegation.DelegatorAddress == h.acc(op.B).String() {
				found = true
			}
		}
		if !found {
			m.fail("C14:stale:valquery", fmt.Sprintf("after migration validator %d's delegation listing does not contain the target: %s", v, role))
		}
	}
	// unbonding entries can be found by their id
	for _, u := range post.Ubds {
		if u.KA != to {
			continue
		}
		for _, e := range u.Entries {
			if _, e2 := h.c.App.StakingKeeper.GetUnbondingDelegationByUnbondingID(h.c.Ctx, uint64(e.ID)); e2 != nil {
				m.fail("C14:stale:staking:38:lookup", fmt.Sprintf("moved unbonding entry id %d cannot be looked up by id (%v): %s", e.ID, e2, role))
			}
		}
	}
}

func filterPrefix(lines []string, p string) []string {
	var out []string
	for _, l := range lines {
		if strings.HasPrefix(l, p) {
			out = append(out, l)
		}
	}
	return out
}

func (m *Monitor) invariants(when string) {
	defer func() {
		if r := recover(); r != nil {
			m.fail("C14:invariant", fmt.Sprintf("a registered crisis invariant is broken %s: %v", when, r))
		}
	}()
	cctx, _ := m.h.c.Ctx.CacheContext()
	m.h.c.App.CrisisKeeper.AssertInvariants(cctx)
}

// AfterBlock: matured unbonding entries were paid to the address that owns them now; a migrated
// source receives nothing any more.
func (m *Monitor) AfterBlock(op Op, pre, post *Snap, t int64) {
	h := m.h
	preB, postB := map[[2]int64]*big.Int{}, map[[2]int64]*big.Int{}
	for _, b := range pre.Bal {
		preB[[2]int64{b.A, b.D}] = b.X
	}
	for _, b := range post.Bal {
		postB[[2]int64{b.A, b.D}] = b.X
	}
	matured := map[int64]*big.Int{}
	for _, u := range pre.Ubds {
		for _, e := range u.Entries {
			if e.Time <= t && e.Hold <= 0 {
				if matured[u.KA] == nil {
					matured[u.KA] = new(big.Int)
				}
				matured[u.KA].Add(matured[u.KA], e.Bal)
			}
		}
	}
	refund := map[int64]*big.Int{}
	closing := map[int64]bool{}
	for _, q := range append(append([][2]int64{}, pre.IQ...), pre.AQ...) {
		if q[0] <= t {
			closing[q[1]] = true
		}
	}
	for _, d := range pre.Deposits {
		if closing[d.Pid] {
			if refund[d.A] == nil {
				refund[d.A] = new(big.Int)
			}
			refund[d.A].Add(refund[d.A], d.Amt)
		}
	}
	for a, want := range matured {
		delta := new(big.Int).Sub(bigOf(postB, [2]int64{a, 0}), bigOf(preB, [2]int64{a, 0}))
		if delta.Cmp(want) < 0 {
			m.fail("C14:mature:unpaid", fmt.Sprintf("block at %d: account %d had matured unbonding entries worth %s but its balance grew by %s", t, a, want, delta))
		}
		if h.isMoved(int(a-1)) && want.Sign() > 0 && delta.Cmp(want) >= 0 {
			h.tags["target-matured"] = true
		}
	}
	for src := range h.moved {
		a := h.id(src)
		for _, b := range post.Bal {
			if b.A == a && b.X.Sign() > 0 {
				if r := refund[a]; r != nil && r.Sign() > 0 {
					h.tags["source-refunded"] = true
					m.fail("C14:gov-open:refund", fmt.Sprintf("block at %d: the migrated source %d receives a governance deposit refund of %s (its proposal was still open when it migrated)", t, a, r))
				} else if bigOf(preB, [2]int64{a, b.D}).Cmp(b.X) != 0 {
					m.fail("C14:source-refilled", fmt.Sprintf("block at %d: the migrated source %d holds %s of denom %d again", t, a, b.X, b.D))
				}
			}
		}
		if p := portfolio(post, a); len(p) > 0 {
			m.fail("C14:source-refilled:staking", fmt.Sprintf("block at %d: the migrated source %d has staking records again: %v", t, a, p))
		}
	}
	// queue hygiene: every remaining entry still has its pair
	for _, u := range post.Ubds {
		for _, e := range u.Entries {
			if e.Time <= t && e.Hold <= 0 {
				m.fail("C14:mature:left", fmt.Sprintf("block at %d: unbonding entry of %d at validator %d with completion %d was not completed", t, u.KA, u.KV, e.Time))
			}
		}
	}
	for _, u := range post.Reds {
		for _, e := range u.Entries {
			if e.Time <= t && e.Hold <= 0 {
				m.fail("C14:mature:left", fmt.Sprintf("block at %d: redelegation entry of %d (%d->%d) with completion %d was not completed", t, u.KA, u.KS, u.KD, e.Time))
			}
		}
	}
	if len(h.moved) > 0 {
		m.invariants(fmt.Sprintf("after the block at %d", t))
	}
}

// FollowUp: staking transactions of a migration target that the source could have made must work
func (m *Monitor) FollowUp(op Op, err error) {
	if err != nil && op.Mode == "must" && m.h.isMoved(op.A) {
		m.fail("C14:followup:"+op.Kind, fmt.Sprintf("the migration target %d cannot %s at validator %d: %v", m.h.id(op.A), op.Kind, m.h.id(op.V), err))
	}
}

// AfterSlash: unbonding entries created at or after the infraction height are slashed, whoever owns them now
func (m *Monitor) AfterSlash(op Op, pre, post *Snap, err error) {
	if err != nil {
		return
	}
	v := m.h.id(op.V)
	bal := map[string]*big.Int{}
	for _, u := range post.Ubds {
		for _, e := range u.Entries {
			bal[fmt.Sprintf("%d/%d/%d", u.KA, u.KV, e.ID)] = e.Bal
		}
	}
	for _, u := range pre.Ubds {
		if u.KV != v {
			continue
		}
		for _, e := range u.Entries {
			if e.Height >= op.Dt && e.Time > pre.Now && e.Init.Sign() > 0 && e.Bal.Sign() > 0 {
				nb := bal[fmt.Sprintf("%d/%d/%d", u.KA, u.KV, e.ID)]
				if nb == nil || nb.Cmp(e.Bal) >= 0 {
					m.fail("C14:slash", fmt.Sprintf("slashing validator %d did not reduce the unbonding entry %d of account %d", v, e.ID, u.KA))
				} else if m.h.isMoved(int(u.KA - 1)) {
					m.h.tags["target-slashed"] = true
				}
			}
		}
	}
}

// AfterImport: a chain restarted from its exported genesis still knows every migration
func (m *Monitor) AfterImport(op Op, pre, post *Snap) {
	have := map[int64]bool{}
	for _, r := range post.Recs {
		have[r.A] = true
	}
	for _, r := range pre.Recs {
		if !have[r.A] {
			m.h.tags["import-lost-record"] = true
			m.fail("C14:restart:regression", fmt.Sprintf("after export + InitChain of the exported genesis the migration record of address %d (flag %d, other %d) is gone: %d records before, %d after", r.A, r.Flag, r.Other, len(pre.Recs), len(post.Recs)))
			return
		}
	}
}
