package main

// snap.go: the abstraction of the REAL stores (bank, staking, distribution, gov, migrate, auth) into
// the state of the Coq model (coq/model/M_Migrate.v), decoded from raw keys and values, and its
// rendering as a Coq term.

import (
	"encoding/binary"
	"fmt"
	"math/big"
	"sort"
	"strings"
	"time"

	"cosmossdk.io/collections"
	sdk "github.com/cosmos/cosmos-sdk/types"
	authtypes "github.com/cosmos/cosmos-sdk/x/auth/types"
	distrtypes "github.com/cosmos/cosmos-sdk/x/distribution/types"
	govtypes "github.com/cosmos/cosmos-sdk/x/gov/types"
	govv1 "github.com/cosmos/cosmos-sdk/x/gov/types/v1"
	stakingtypes "github.com/cosmos/cosmos-sdk/x/staking/types"

	"fxverif/lib"
)

// ---------- identifiers ----------

const (
	idPoolNB     = 90
	idGov        = 91
	idPoolBonded = 92
	idDistr      = 93
)

type Ids struct {
	addr       map[string]int64 // raw 20 bytes (as string) -> id
	next       int64
	denom      map[string]int64
	dnext      int64
	tracked    []sdk.AccAddress
	trackedIDs []int64
}

func NewIds() *Ids {
	ids := &Ids{addr: map[string]int64{}, next: 1000, denom: map[string]int64{"FX": 0}, dnext: 1}
	ids.Reg(authtypes.NewModuleAddress(stakingtypes.NotBondedPoolName), idPoolNB, true)
	ids.Reg(authtypes.NewModuleAddress(govtypes.ModuleName), idGov, true)
	ids.Reg(authtypes.NewModuleAddress(stakingtypes.BondedPoolName), idPoolBonded, false)
	ids.Reg(authtypes.NewModuleAddress(distrtypes.ModuleName), idDistr, false)
	return ids
}

func (i *Ids) Reg(a []byte, id int64, track bool) {
	i.addr[string(a)] = id
	if track {
		i.tracked = append(i.tracked, append([]byte{}, a...))
		i.trackedIDs = append(i.trackedIDs, id)
	}
}

func (i *Ids) A(a []byte) int64 {
	if id, ok := i.addr[string(a)]; ok {
		return id
	}
	i.next++
	i.addr[string(a)] = i.next
	return i.next
}

func (i *Ids) Bech(s string) int64 {
	if s == "" {
		return -1
	}
	if strings.Contains(s, "valoper") {
		b, err := sdk.ValAddressFromBech32(s)
		lib.Must(err)
		return i.A(b)
	}
	b, err := sdk.AccAddressFromBech32(s)
	lib.Must(err)
	return i.A(b)
}

func (i *Ids) Denom(d string) int64 {
	if id, ok := i.denom[d]; ok {
		return id
	}
	i.denom[d] = i.dnext
	i.dnext++
	return i.denom[d]
}

// ---------- snapshot ----------

type BalRec struct {
	A, D int64
	X    *big.Int
}
type StartRec struct {
	A, V, Period int64
	Stake        *big.Int
	Height       int64
}
type DelRec struct {
	KA, KV, VA, VV int64
	Shares         *big.Int
}
type UE struct {
	Height, Time int64
	Init, Bal    *big.Int
	ID, Hold     int64
}
type UbdRec struct {
	KA, KV, VA, VV int64
	Entries        []UE
}
type RedRec struct {
	KA, KS, KD, VA, VS, VD int64
	Entries                []UE // Bal = SharesDst
}
type Slice2 struct {
	T     int64
	Pairs [][2]int64
}
type Slice3 struct {
	T     int64
	Trips [][3]int64
}
type UnbIdx struct {
	ID      int64
	Kind    int // 1 ubd, 2 red, 3 validator
	A, V, W int64
}
type PropRec struct {
	ID       int64
	Status   int // 1 deposit, 2 voting, 3 closed
	Proposer int64
	Total    *big.Int
	DepEnd   int64
	VoteEnd  int64
	VP       int64    // the voting period that applies (elapsed one once voting has started)
	Min      *big.Int // the deposit that opens the voting period
	Exp      bool
}
type DepRec struct {
	Pid, A int64
	Amt    *big.Int
}
type MigRec struct {
	A, Flag, Other, Height int64
}

type Snap struct {
	Now, Height int64
	Accts       [][2]int64
	Vals        []int64
	Bal         []BalRec
	Start       []StartRec
	Dels        []DelRec
	Idx71       [][2]int64
	Ubds        []UbdRec
	Idx33       [][2]int64
	UbdQ        []Slice2
	Reds        []RedRec
	Idx35       [][3]int64
	Idx36       [][3]int64
	RedQ        []Slice3
	Unb         []UnbIdx
	Props       []PropRec
	Deposits    []DepRec
	Votes       [][2]int64
	IQ, AQ      [][2]int64
	NextPid     int64
	Recs        []MigRec
	DirFrom     []int64
	DirTo       []int64
	Locked      []BalRec
}

func ns(t time.Time) int64 { return t.Sub(lib.GenesisTime).Nanoseconds() }

// readLP reads a length-prefixed address at k[off:], returns it and the next offset.
func readLP(k []byte, off int) ([]byte, int) {
	n := int(k[off])
	return k[off+1 : off+1+n], off + 1 + n
}

func (h *Hist) Snapshot(ctx sdk.Context) *Snap {
	c, ids := h.c, h.ids
	cdc := c.App.AppCodec()
	s := &Snap{Now: ns(ctx.BlockTime()), Height: ctx.BlockHeight()}

	// accounts (kinds) and balances of the tracked addresses
	for i, a := range ids.tracked {
		id := ids.trackedIDs[i]
		acc := c.App.AccountKeeper.GetAccount(ctx, a)
		kind := int64(0)
		if acc != nil {
			switch pk := acc.GetPubKey(); {
			case pk == nil:
				kind = 1
			case pk.Type() == "secp256k1":
				kind = 2
			default:
				kind = 3
			}
		}
		if kind != 0 {
			s.Accts = append(s.Accts, [2]int64{id, kind})
		}
		for _, coin := range c.App.BankKeeper.GetAllBalances(ctx, a) {
			s.Bal = append(s.Bal, BalRec{id, ids.Denom(coin.Denom), coin.Amount.BigInt()})
		}
		for _, coin := range c.App.BankKeeper.LockedCoins(ctx, a) {
			if coin.Amount.IsPositive() {
				s.Locked = append(s.Locked, BalRec{id, ids.Denom(coin.Denom), coin.Amount.BigInt()})
			}
		}
	}

	// staking store, raw
	for _, kv := range c.DumpPrefix(ctx, stakingtypes.StoreKey, nil) {
		k, v := kv.K, kv.V
		switch k[0] {
		case 0x21: // validators: 0x21 | len | operator
			op, _ := readLP(k, 1)
			s.Vals = append(s.Vals, ids.A(op))
		case 0x31:
			d, o := readLP(k, 1)
			va, _ := readLP(k, o)
			var del stakingtypes.Delegation
			lib.Must(cdc.Unmarshal(v, &del))
			s.Dels = append(s.Dels, DelRec{ids.A(d), ids.A(va), ids.Bech(del.DelegatorAddress), ids.Bech(del.ValidatorAddress), del.Shares.BigInt()})
		case 0x71: // 0x71 | len | validator | delegator (not length-prefixed)
			va, o := readLP(k, 1)
			s.Idx71 = append(s.Idx71, [2]int64{ids.A(k[o:]), ids.A(va)})
		case 0x32:
			d, o := readLP(k, 1)
			va, _ := readLP(k, o)
			var u stakingtypes.UnbondingDelegation
			lib.Must(cdc.Unmarshal(v, &u))
			r := UbdRec{KA: ids.A(d), KV: ids.A(va), VA: ids.Bech(u.DelegatorAddress), VV: ids.Bech(u.ValidatorAddress)}
			for _, e := range u.Entries {
				r.Entries = append(r.Entries, UE{e.CreationHeight, ns(e.CompletionTime), e.InitialBalance.BigInt(), e.Balance.BigInt(), int64(e.UnbondingId), e.UnbondingOnHoldRefCount})
			}
			s.Ubds = append(s.Ubds, r)
		case 0x33: // validator | delegator
			va, o := readLP(k, 1)
			d, _ := readLP(k, o)
			s.Idx33 = append(s.Idx33, [2]int64{ids.A(d), ids.A(va)})
		case 0x34:
			d, o := readLP(k, 1)
			sa, o2 := readLP(k, o)
			da, _ := readLP(k, o2)
			var u stakingtypes.Redelegation
			lib.Must(cdc.Unmarshal(v, &u))
			r := RedRec{KA: ids.A(d), KS: ids.A(sa), KD: ids.A(da), VA: ids.Bech(u.DelegatorAddress), VS: ids.Bech(u.ValidatorSrcAddress), VD: ids.Bech(u.ValidatorDstAddress)}
			for _, e := range u.Entries {
				r.Entries = append(r.Entries, UE{e.CreationHeight, ns(e.CompletionTime), e.InitialBalance.BigInt(), e.SharesDst.BigInt(), int64(e.UnbondingId), e.UnbondingOnHoldRefCount})
			}
			s.Reds = append(s.Reds, r)
		case 0x35: // src | delegator | dst
			sa, o := readLP(k, 1)
			d, o2 := readLP(k, o)
			da, _ := readLP(k, o2)
			s.Idx35 = append(s.Idx35, [3]int64{ids.A(d), ids.A(sa), ids.A(da)})
		case 0x36: // dst | delegator | src
			da, o := readLP(k, 1)
			d, o2 := readLP(k, o)
			sa, _ := readLP(k, o2)
			s.Idx36 = append(s.Idx36, [3]int64{ids.A(d), ids.A(sa), ids.A(da)})
		case 0x38:
			id := int64(binary.BigEndian.Uint64(k[1:]))
			u := UnbIdx{ID: id}
			switch v[0] {
			case 0x32:
				d, o := readLP(v, 1)
				va, _ := readLP(v, o)
				u.Kind, u.A, u.V = 1, ids.A(d), ids.A(va)
			case 0x34:
				d, o := readLP(v, 1)
				sa, o2 := readLP(v, o)
				da, _ := readLP(v, o2)
				u.Kind, u.A, u.V, u.W = 2, ids.A(d), ids.A(sa), ids.A(da)
			default:
				op, _ := readLP(v, 1)
				u.Kind, u.V = 3, ids.A(op)
			}
			s.Unb = append(s.Unb, u)
		case 0x41:
			t, err := sdk.ParseTimeBytes(k[1:])
			lib.Must(err)
			var ps stakingtypes.DVPairs
			lib.Must(cdc.Unmarshal(v, &ps))
			sl := Slice2{T: ns(t)}
			for _, p := range ps.Pairs {
				sl.Pairs = append(sl.Pairs, [2]int64{ids.Bech(p.DelegatorAddress), ids.Bech(p.ValidatorAddress)})
			}
			s.UbdQ = append(s.UbdQ, sl)
		case 0x42:
			t, err := sdk.ParseTimeBytes(k[1:])
			lib.Must(err)
			var ps stakingtypes.DVVTriplets
			lib.Must(cdc.Unmarshal(v, &ps))
			sl := Slice3{T: ns(t)}
			for _, p := range ps.Triplets {
				sl.Trips = append(sl.Trips, [3]int64{ids.Bech(p.DelegatorAddress), ids.Bech(p.ValidatorSrcAddress), ids.Bech(p.ValidatorDstAddress)})
			}
			s.RedQ = append(s.RedQ, sl)
		}
	}

	// distribution: delegator starting info 0x04 | len | validator | len | delegator
	for _, kv := range c.DumpPrefix(ctx, distrtypes.StoreKey, []byte{0x04}) {
		va, o := readLP(kv.K, 1)
		d, _ := readLP(kv.K, o)
		var si distrtypes.DelegatorStartingInfo
		lib.Must(cdc.Unmarshal(kv.V, &si))
		s.Start = append(s.Start, StartRec{ids.A(d), ids.A(va), int64(si.PreviousPeriod), si.Stake.BigInt(), int64(si.Height)})
	}

	// gov
	gk := c.App.GovKeeper.Keeper
	lib.Must(gk.Proposals.Walk(ctx, nil, func(id uint64, p govv1.Proposal) (bool, error) {
		st := 3
		switch p.Status {
		case govv1.StatusDepositPeriod:
			st = 1
		case govv1.StatusVotingPeriod:
			st = 2
		}
		pr := PropRec{ID: int64(id), Status: st, Proposer: ids.Bech(p.Proposer), Total: sdk.NewCoins(p.TotalDeposit...).AmountOf("FX").BigInt()}
		if p.DepositEndTime != nil {
			pr.DepEnd = ns(*p.DepositEndTime)
		}
		if p.VotingEndTime != nil {
			pr.VoteEnd = ns(*p.VotingEndTime)
		}
		// period and opening deposit as the real keeper assigns them to this proposal (expedited flag,
		// per-message custom params)
		pr.Exp = p.Expedited
		params, err := gk.Params.Get(ctx)
		lib.Must(err)
		if p.VotingStartTime != nil && p.VotingEndTime != nil {
			pr.VP = p.VotingEndTime.Sub(*p.VotingStartTime).Nanoseconds()
		} else {
			base := params.VotingPeriod
			if p.Expedited {
				base = params.ExpeditedVotingPeriod
			}
			pr.VP = c.App.GovKeeper.GetCustomMsgVotingPeriod(ctx, base, p).Nanoseconds()
		}
		md, err := c.App.GovKeeper.GetMinDepositAmountFromProposalMsgs(ctx, p.GetMinDepositFromParams(params), p)
		lib.Must(err)
		pr.Min = md.AmountOf("FX").BigInt()
		s.Props = append(s.Props, pr)
		return false, nil
	}))
	lib.Must(gk.Deposits.Walk(ctx, nil, func(k collections.Pair[uint64, sdk.AccAddress], d govv1.Deposit) (bool, error) {
		s.Deposits = append(s.Deposits, DepRec{int64(k.K1()), ids.A(k.K2()), sdk.NewCoins(d.Amount...).AmountOf("FX").BigInt()})
		return false, nil
	}))
	lib.Must(gk.Votes.Walk(ctx, nil, func(k collections.Pair[uint64, sdk.AccAddress], _ govv1.Vote) (bool, error) {
		s.Votes = append(s.Votes, [2]int64{int64(k.K1()), ids.A(k.K2())})
		return false, nil
	}))
	lib.Must(gk.InactiveProposalsQueue.Walk(ctx, nil, func(k collections.Pair[time.Time, uint64], _ uint64) (bool, error) {
		s.IQ = append(s.IQ, [2]int64{ns(k.K1()), int64(k.K2())})
		return false, nil
	}))
	lib.Must(gk.ActiveProposalsQueue.Walk(ctx, nil, func(k collections.Pair[time.Time, uint64], _ uint64) (bool, error) {
		s.AQ = append(s.AQ, [2]int64{ns(k.K1()), int64(k.K2())})
		return false, nil
	}))
	np, err := gk.ProposalID.Peek(ctx)
	lib.Must(err)
	s.NextPid = int64(np)

	// migrate store, raw
	for _, kv := range c.DumpPrefix(ctx, "migrate", nil) {
		switch kv.K[0] {
		case 1:
			s.Recs = append(s.Recs, MigRec{ids.A(kv.K[1:]), int64(kv.V[0]), ids.A(kv.V[1:21]), int64(binary.BigEndian.Uint64(kv.V[21:]))})
		case 2:
			s.DirFrom = append(s.DirFrom, ids.A(kv.K[1:]))
		case 3:
			s.DirTo = append(s.DirTo, ids.A(kv.K[1:]))
		}
	}
	return s
}

// ---------- Coq rendering ----------

func z(n int64) string        { return lib.Z(n) }
func zb(n *big.Int) string    { return lib.ZBig(n) }
func p2(a, b int64) string    { return "(" + z(a) + ", " + z(b) + ")" }
func p3(a, b, c int64) string { return "(" + z(a) + ", (" + z(b) + ", " + z(c) + "))" }

func list[T any](xs []T, f func(T) string) string {
	ss := make([]string, len(xs))
	for i, x := range xs {
		ss[i] = f(x)
	}
	sort.Strings(ss)
	return lib.List(ss)
}

// listOrdered keeps the order (queue slices, entries)
func listOrdered[T any](xs []T, f func(T) string) string {
	ss := make([]string, len(xs))
	for i, x := range xs {
		ss[i] = f(x)
	}
	return lib.List(ss)
}

func (s *Snap) Coq(cfg string) string {
	var b strings.Builder
	b.WriteString("mk_st " + cfg + " " + z(s.Now) + " " + z(s.Height) + " ")
	w := func(x string) { b.WriteString(x + " ") }
	w(list(s.Accts, func(x [2]int64) string { return p2(x[0], x[1]) }))
	w(list(s.Vals, z))
	w(list(s.Bal, func(x BalRec) string { return "(" + p2(x.A, x.D) + ", " + zb(x.X) + ")" }))
	w(list(s.Start, func(x StartRec) string {
		return "(" + p2(x.A, x.V) + ", SI " + z(x.Period) + " " + zb(x.Stake) + " " + z(x.Height) + ")"
	}))
	w(list(s.Dels, func(x DelRec) string {
		return "(" + p2(x.KA, x.KV) + ", D " + z(x.VA) + " " + z(x.VV) + " " + zb(x.Shares) + ")"
	}))
	w(list(s.Idx71, func(x [2]int64) string { return p2(x[0], x[1]) }))
	ue := func(c string) func(e UE) string {
		return func(e UE) string {
			return c + " " + z(e.Height) + " " + z(e.Time) + " " + zb(e.Init) + " " + zb(e.Bal) + " " + z(e.ID) + " " + z(e.Hold)
		}
	}
	w(list(s.Ubds, func(x UbdRec) string {
		return "(" + p2(x.KA, x.KV) + ", U " + z(x.VA) + " " + z(x.VV) + " " + listOrdered(x.Entries, ue("UE")) + ")"
	}))
	w(list(s.Idx33, func(x [2]int64) string { return p2(x[0], x[1]) }))
	w(list(s.UbdQ, func(x Slice2) string {
		return "(" + z(x.T) + ", " + listOrdered(x.Pairs, func(p [2]int64) string { return p2(p[0], p[1]) }) + ")"
	}))
	w(list(s.Reds, func(x RedRec) string {
		return "(" + p3(x.KA, x.KS, x.KD) + ", R " + z(x.VA) + " " + z(x.VS) + " " + z(x.VD) + " " + listOrdered(x.Entries, ue("RE")) + ")"
	}))
	w(list(s.Idx35, func(x [3]int64) string { return p3(x[0], x[1], x[2]) }))
	w(list(s.Idx36, func(x [3]int64) string { return p3(x[0], x[1], x[2]) }))
	w(list(s.RedQ, func(x Slice3) string {
		return "(" + z(x.T) + ", " + listOrdered(x.Trips, func(p [3]int64) string { return p3(p[0], p[1], p[2]) }) + ")"
	}))
	w(list(s.Unb, func(x UnbIdx) string {
		switch x.Kind {
		case 1:
			return "(" + z(x.ID) + ", UKubd " + z(x.A) + " " + z(x.V) + ")"
		case 2:
			return "(" + z(x.ID) + ", UKred " + z(x.A) + " " + z(x.V) + " " + z(x.W) + ")"
		}
		return "(" + z(x.ID) + ", UKval " + z(x.V) + ")"
	}))
	w(list(s.Props, func(x PropRec) string {
		ex := "0"
		if x.Exp {
			ex = "1"
		}
		return "(" + z(x.ID) + ", PR " + fmt.Sprint(x.Status) + " " + z(x.Proposer) + " " + zb(x.Total) + " " + z(x.DepEnd) + " " + z(x.VoteEnd) + " " + z(x.VP) + " " + zb(x.Min) + " " + ex + ")"
	}))
	w(list(s.Deposits, func(x DepRec) string { return "(" + p2(x.Pid, x.A) + ", " + zb(x.Amt) + ")" }))
	w(list(s.Votes, func(x [2]int64) string { return p2(x[0], x[1]) }))
	w(listOrdered(s.IQ, func(x [2]int64) string { return p2(x[0], x[1]) }))
	w(listOrdered(s.AQ, func(x [2]int64) string { return p2(x[0], x[1]) }))
	w(z(s.NextPid))
	w(list(s.Recs, func(x MigRec) string {
		return "(" + z(x.A) + ", MR " + z(x.Flag) + " " + z(x.Other) + " " + z(x.Height) + ")"
	}))
	w(list(s.DirFrom, z))
	w(list(s.DirTo, z))
	b.WriteString(list(s.Locked, func(x BalRec) string { return "(" + p2(x.A, x.D) + ", " + zb(x.X) + ")" }))
	return b.String()
}
