package main

// twin.go: the twin run — "afterwards the target can withdraw, undelegate and receive matured funds as the
// source could have", checked on two REAL chains without any model: chain A migrates source -> target and the
// target acts; chain B (same seed, same history) does not migrate and the source performs the same
// operations. After every operation the two applications must give the same result and the same stores up to
// renaming source -> target (balances of the pair added up).

import (
	"fmt"
	"math/big"
	"sort"
	"strings"

	"fxverif/lib"
)

// canon renders the delegator-keyed part of a snapshot with `from` renamed to `to`
func canon(s *Snap, from, to int64) map[string][]string {
	rn := func(x int64) int64 {
		if x == from {
			return to
		}
		return x
	}
	out := map[string][]string{}
	add := func(k, v string) { out[k] = append(out[k], v) }
	bal := map[[2]int64]*big.Int{}
	for _, b := range s.Bal {
		k := [2]int64{rn(b.A), b.D}
		if bal[k] == nil {
			bal[k] = new(big.Int)
		}
		bal[k].Add(bal[k], b.X)
	}
	for k, v := range bal {
		if v.Sign() != 0 {
			add("balances", fmt.Sprintf("%d/%d=%s", k[0], k[1], v))
		}
	}
	for _, d := range s.Dels {
		add("delegations", fmt.Sprintf("%d %d | %d %d %s", rn(d.KA), d.KV, rn(d.VA), d.VV, d.Shares))
	}
	for _, d := range s.Start {
		add("starting-info", fmt.Sprintf("%d %d | %d %s %d", rn(d.A), d.V, d.Period, d.Stake, d.Height))
	}
	for _, u := range s.Ubds {
		add("unbonding", fmt.Sprintf("%d %d | %d %d %s", rn(u.KA), u.KV, rn(u.VA), u.VV, renderEntries(u.Entries)))
	}
	for _, u := range s.Reds {
		add("redelegations", fmt.Sprintf("%d %d %d | %d %d %d %s", rn(u.KA), u.KS, u.KD, rn(u.VA), u.VS, u.VD, renderEntries(u.Entries)))
	}
	for _, x := range s.Idx71 {
		add("index-0x71", fmt.Sprintf("%d %d", rn(x[0]), x[1]))
	}
	for _, x := range s.Idx33 {
		add("index-0x33", fmt.Sprintf("%d %d", rn(x[0]), x[1]))
	}
	for _, x := range s.Idx35 {
		add("index-0x35", fmt.Sprintf("%d %d %d", rn(x[0]), x[1], x[2]))
	}
	for _, x := range s.Idx36 {
		add("index-0x36", fmt.Sprintf("%d %d %d", rn(x[0]), x[1], x[2]))
	}
	for _, q := range s.UbdQ {
		var ps []string
		for _, p := range q.Pairs {
			ps = append(ps, fmt.Sprintf("(%d,%d)", rn(p[0]), p[1]))
		}
		add("unbonding-queue", fmt.Sprintf("%d: %s", q.T, strings.Join(ps, " ")))
	}
	for _, q := range s.RedQ {
		var ps []string
		for _, p := range q.Trips {
			ps = append(ps, fmt.Sprintf("(%d,%d,%d)", rn(p[0]), p[1], p[2]))
		}
		add("redelegation-queue", fmt.Sprintf("%d: %s", q.T, strings.Join(ps, " ")))
	}
	for _, u := range s.Unb {
		add("index-0x38", fmt.Sprintf("%d -> %d %d %d %d", u.ID, u.Kind, rn(u.A), u.V, u.W))
	}
	for k := range out {
		sort.Strings(out[k])
	}
	return out
}

// validator side: tokens and shares of every validator, pools
func (h *Hist) validatorSide() []string {
	var out []string
	vals, err := h.c.App.StakingKeeper.GetAllValidators(h.c.Ctx)
	lib.Must(err)
	for _, v := range vals {
		out = append(out, fmt.Sprintf("%s tokens=%s shares=%s status=%s", v.OperatorAddress, v.Tokens, v.DelegatorShares, v.Status))
	}
	sort.Strings(out)
	return out
}

type twin struct {
	a, b     *Hist // a migrates, b does not
	from, to int
	migrated bool
	rep      *lib.Report
	steps    int
}

func (t *twin) fail(comp, what string) {
	sig := "C14:twin:" + comp
	t.rep.Count("monitor-failure:" + sig)
	if globalSeen[sig] {
		return
	}
	globalSeen[sig] = true
	t.rep.Fail(lib.Failure{Kind: "monitor", What: what, Sig: sig,
		Replay: replayT{Seed: t.a.seed, Ops: append([]Op{}, t.a.ops...), Twin: append([]Op{}, t.b.ops...)}})
}

// both executes op on the two chains; on chain A the migrant acts under its new address
func (t *twin) both(op Op) {
	opA := op
	if t.migrated {
		if opA.A == t.from {
			opA.A = t.to
		}
	}
	ra := t.a.Exec(opA)
	rb := t.b.Exec(op)
	t.steps++
	okA, okB := ra.Res == "ok", rb.Res == "ok"
	if okA != okB {
		t.fail("result", fmt.Sprintf("step %d %s: the target after migration gets %q where the source without migration gets %q", t.steps, op.Kind, ra.Res, rb.Res))
	}
	t.compare(fmt.Sprintf("after step %d (%s a=%d v=%d amt=%s dt=%d)", t.steps, op.Kind, op.A, op.V, op.Amt, op.Dt))
}

func (t *twin) compare(when string) {
	if !t.migrated {
		return
	}
	from, to := t.a.id(t.from), t.a.id(t.to)
	ca, cb := canon(t.a.snap(), from, to), canon(t.b.snap(), from, to)
	keys := map[string]bool{}
	for k := range ca {
		keys[k] = true
	}
	for k := range cb {
		keys[k] = true
	}
	for k := range keys {
		if ok, why := eqStrs(ca[k], cb[k]); !ok {
			t.fail(k, fmt.Sprintf("%s: %s of the migrating chain differ from the renamed %s of the chain without migration: %s", when, k, k, why))
		}
	}
	if ok, why := eqStrs(t.a.validatorSide(), t.b.validatorSide()); !ok {
		t.fail("validators", when+": validator tokens/shares differ between the two chains: "+why)
	}
}

// runTwin: deterministic preparation, migration on chain A only, then random follow-up activity on both
func runTwin(seed int64, rep *lib.Report, r *lib.Rand, n int) {
	for i := 0; i < n; i++ {
		hs := seed*1000 + 980 + int64(i)
		none := func() *CaseWriter { return &CaseWriter{idx: map[string]int{}} }
		t := &twin{a: NewHist(hs, none(), rep), b: NewHist(hs, none(), rep), from: 0, to: tgt0, rep: rep}
		for a := 0; a < 2; a++ {
			t.both(Op{Kind: "acct", A: a})
			t.both(Op{Kind: "mint", A: a, Denom: "FX", Amt: fx(50000 + int64(r.Intn(50000)))})
			t.both(Op{Kind: "mint", A: a, Denom: "ibc/ABC", Amt: fmt.Sprint(1 + r.Intn(100000))})
		}
		t.both(Op{Kind: "mint", A: oth0, Denom: "FX", Amt: fx(60000)})
		if r.Chance(50) {
			t.both(Op{Kind: "mint", A: tgt0, Denom: "FX", Amt: fx(int64(1 + r.Intn(500)))})
		}
		t.both(Op{Kind: "block", Dt: 5 * sec})
		for k := 1 + r.Intn(3); k > 0; k-- {
			t.both(Op{Kind: "delegate", A: 0, V: val0 + r.Intn(3), Amt: fx(500 + int64(r.Intn(5000)))})
		}
		t.both(Op{Kind: "delegate", A: 1, V: val0, Amt: fx(3000)})
		t.both(Op{Kind: "delegate", A: oth0, V: val0 + 1, Amt: fx(3000)})
		t.both(Op{Kind: "block", Dt: 5 * sec})
		g := &gen{h: t.b, r: r}
		// the source always holds an unbonding entry and a redelegation when it migrates
		if vs := g.delegatedVals(0); len(vs) > 0 {
			v := vs[0]
			t.both(Op{Kind: "undelegate", A: 0, V: v, Amt: fx(100)})
			t.both(Op{Kind: "redelegate", A: 0, V: v, W: val0 + (v-val0+1)%3, Amt: fx(120)})
			t.both(Op{Kind: "block", Dt: 5 * sec})
		}
		for k := r.Intn(4); k > 0; k-- {
			if vs := g.delegatedVals(0); len(vs) > 0 {
				v := vs[r.Intn(len(vs))]
				tok := wholeFX(t.b.tokens(0, v))
				if tok > 2 {
					if r.Chance(60) {
						t.both(Op{Kind: "undelegate", A: 0, V: v, Amt: fx(1 + int64(r.Intn(int(tok/2))))})
					} else {
						t.both(Op{Kind: "redelegate", A: 0, V: v, W: val0 + r.Intn(3), Amt: fx(1 + int64(r.Intn(int(tok/2))))})
					}
				}
			}
			if r.Chance(50) {
				t.both(Op{Kind: "block", Dt: 5 * sec})
			}
		}
		t.both(Op{Kind: "block", Dt: hour + int64(r.Intn(100000))*sec})
		// the migration, on chain A only
		o := t.a.Exec(mig(t.from, t.to, "tx"))
		if o.Res != "ok" {
			t.fail("setup", "twin run: the prepared migration was refused: "+o.Res)
			continue
		}
		t.migrated = true
		t.compare("right after the migration")
		// follow-up activity: the migrant (source on B, target on A), a colleague, time
		for k := 14 + r.Intn(10); k > 0; k-- {
			who := 0
			if r.Chance(25) {
				who = 1
			}
			vs := g.delegatedVals(who)
			switch c := r.Intn(12); {
			case c < 2:
				bal := wholeFX(t.b.fxBalance(who))
				if bal > 200 {
					t.both(Op{Kind: "delegate", A: who, V: val0 + r.Intn(3), Amt: fx(1 + int64(r.Intn(int(bal/3))))})
				}
			case c < 5 && len(vs) > 0:
				v := vs[r.Intn(len(vs))]
				tok := wholeFX(t.b.tokens(who, v))
				n := int64(1)
				if tok > 1 {
					n = 1 + int64(r.Intn(int(tok)))
				}
				if r.Chance(15) {
					n = tok
				}
				if n > 0 {
					t.both(Op{Kind: "undelegate", A: who, V: v, Amt: fx(n)})
				}
			case c < 7 && len(vs) > 0:
				t.both(Op{Kind: "withdraw", A: who, V: vs[r.Intn(len(vs))]})
			case c < 8 && len(vs) > 0:
				v := vs[r.Intn(len(vs))]
				if tok := wholeFX(t.b.tokens(who, v)); tok > 1 {
					t.both(Op{Kind: "redelegate", A: who, V: v, W: val0 + r.Intn(3), Amt: fx(1 + int64(r.Intn(int(tok))))})
				}
			case c < 9:
				if r.Chance(40) {
					t.both(Op{Kind: "slash", V: val0 + r.Intn(3), Dt: 1})
				} else {
					t.both(Op{Kind: "block", Dt: 21*day + int64(r.Intn(1000))*sec})
				}
			case c < 10:
				t.both(Op{Kind: "block", Dt: hour + int64(r.Intn(int(5*day/sec)))*sec})
			default:
				t.both(Op{Kind: "block", Dt: 5 * sec})
			}
		}
		t.both(Op{Kind: "block", Dt: 22 * day})
		t.both(Op{Kind: "block", Dt: 5 * sec})
		rep.Count("twin-histories")
		rep.Count(fmt.Sprintf("twin-steps=%d0s", t.steps/10))
		rep.Case(fmt.Sprintf("twin-%d-%d", hs, t.steps), true)
	}
}

// replayTwin re-runs a twin failure: ops = the migrating chain's operations, twinOps = the reference chain's
func replayTwin(f replayT, rep *lib.Report) {
	none := func() *CaseWriter { return &CaseWriter{idx: map[string]int{}} }
	t := &twin{a: NewHist(f.Seed, none(), rep), b: NewHist(f.Seed, none(), rep), rep: rep}
	j := 0
	for _, op := range f.Ops {
		op.Res = ""
		if op.Kind == "migrate" && !t.migrated {
			o := t.a.Exec(op)
			fmt.Printf("A only: migrate a=%d b=%d -> %s\n", op.A, op.B, o.Res)
			if o.Res == "ok" {
				t.migrated, t.from, t.to = true, op.A, op.B
				t.compare("right after the migration")
			}
			continue
		}
		if j >= len(f.Twin) {
			break
		}
		ob := f.Twin[j]
		j++
		ob.Res = ""
		t.both(ob)
		fmt.Printf("both: %-10s a=%d v=%d w=%d amt=%s dt=%d\n", ob.Kind, ob.A, ob.V, ob.W, ob.Amt, ob.Dt)
	}
}
