// c15: governance deposits and per-message-type rules, on the REAL fx-core application.
//
// Every history builds a fresh deterministic chain (real gov / bank / staking / distribution /
// erc20 / crosschain keepers), drives the real gov MsgServer (inside cache branches, like a tx)
// and the real EndBlocker (through FinalizeBlock/Commit), and after every operation
//   - records what the real stores show (proposals, deposit records, module and account balances,
//     both queues, tally results, voting end times) for the Coq model to be replayed against
//     (Cases_C15.v, model.M_Gov evaluated by coqc), and
//   - evaluates the property itself with plain big.Int arithmetic (monitor), independently of the model.
package main

import (
	"bytes"
	"encoding/binary"
	"encoding/hex"
	"encoding/json"
	"errors"
	"fmt"
	"math/big"
	"os"
	"sort"
	"strings"
	"time"

	"cosmossdk.io/collections"
	sdkmath "cosmossdk.io/math"
	sdk "github.com/cosmos/cosmos-sdk/types"
	sdkerrors "github.com/cosmos/cosmos-sdk/types/errors"
	authtypes "github.com/cosmos/cosmos-sdk/x/auth/types"
	banktypes "github.com/cosmos/cosmos-sdk/x/bank/types"
	crisistypes "github.com/cosmos/cosmos-sdk/x/crisis/types"
	distrtypes "github.com/cosmos/cosmos-sdk/x/distribution/types"
	govtypes "github.com/cosmos/cosmos-sdk/x/gov/types"
	govv1 "github.com/cosmos/cosmos-sdk/x/gov/types/v1"
	govv1beta1 "github.com/cosmos/cosmos-sdk/x/gov/types/v1beta1"
	minttypes "github.com/cosmos/cosmos-sdk/x/mint/types"
	paramproposal "github.com/cosmos/cosmos-sdk/x/params/types/proposal"
	stakingtypes "github.com/cosmos/cosmos-sdk/x/staking/types"

	sdkgovkeeper "github.com/cosmos/cosmos-sdk/x/gov/keeper"
	crosschaintypes "github.com/functionx/fx-core/v8/x/crosschain/types"
	erc20types "github.com/functionx/fx-core/v8/x/erc20/types"
	govkeeper "github.com/functionx/fx-core/v8/x/gov/keeper"
	fxgovtypes "github.com/functionx/fx-core/v8/x/gov/types"

	"fxverif/lib"
)

const (
	tyNone     = 0
	tyEGF      = 1
	tySend     = 2
	tyXParams  = 3
	tyToggle   = 4
	tyText     = 5
	tyBankPar  = 6 // same message NAME as tyXParams / tyErc20Par / tyStakePar, another module
	tyErc20Par = 7
	tyStakePar = 8
	tyAny      = 99
)

var typeURL = map[int]string{
	tyNone:     "", // a proposal without messages is looked up under the empty key
	tyEGF:      sdk.MsgTypeURL(&distrtypes.MsgCommunityPoolSpend{}),
	tySend:     sdk.MsgTypeURL(&banktypes.MsgSend{}),
	tyXParams:  sdk.MsgTypeURL(&crosschaintypes.MsgUpdateParams{}),
	tyToggle:   sdk.MsgTypeURL(&erc20types.MsgToggleTokenConversion{}),
	tyText:     sdk.MsgTypeURL(&govv1.MsgExecLegacyContent{}),
	tyBankPar:  sdk.MsgTypeURL(&banktypes.MsgUpdateParams{}),
	tyErc20Par: sdk.MsgTypeURL(&erc20types.MsgUpdateParams{}),
	tyStakePar: sdk.MsgTypeURL(&stakingtypes.MsgUpdateParams{}),
	tyAny:      "/google.protobuf.Any",
}

var e18 = new(big.Int).Exp(big.NewInt(10), big.NewInt(18), nil)

func fxAmt(n int64) *big.Int { return new(big.Int).Mul(big.NewInt(n), e18) }

const denomFX = "FX"

// ---------------------------------------------------------------- model-side descriptions

type mMsg struct {
	Type  int
	Spend [][2]string // denom id, amount (EGF)
	Act   string      // Coq action term
}

type propInfo struct {
	ID            uint64
	Kind          string
	Types         []int
	URLs          []string
	Expedited     bool
	ReqFX         *big.Int // requested community-pool spend in the deposit denomination
	AllEGF        bool
	HasFail       bool // a message that must fail on execution
	OkBefore      bool // ... preceded by messages that succeed
	Rcpt          []sdk.AccAddress
	GovSend       *big.Int // what a passed proposal sends out of the module account
	sendTo        int64
	Deposits      map[int64]*big.Int
	Activated     bool
	Closed        bool
	Proposer      int64
	LegacyContent govv1beta1.Content // submit through the v1beta1 MsgServer
}

// ---------------------------------------------------------------- history

type hist struct {
	idx    int
	class  string
	seed   int64
	r      *lib.Rand
	c      *lib.Chain
	ms     fxgovtypes.MsgServerPro
	legacy govv1beta1.MsgServer // the v1beta1 server the app registers: a wrapper around ms
	gov    string
	govAcc sdk.AccAddress
	ids    []int64
	keys   map[int64]lib.Key
	idOf   map[string]int64
	params govv1.Params
	fixed  bool // which key function the code under test implements (see M_Gov.keyfun)

	props      map[uint64]*propInfo
	steps      []string
	log        []string
	initBals   string
	initParams string
	initCust   string
	prev       *obsT
	token      string
	enabled0   bool
	abt0       int64
	supply0    *big.Int
	pool0      *big.Int
	minted     *big.Int
	nrcpt      int
	halted     bool
	noCorr     bool // the history contains a message the model has no action for: monitor only

	maxOpenTypes    int
	corrupted       bool // some stored proposal record was made undecodable
	corruptIDs      map[uint64]bool
	govSendExecuted bool
	customTouched   bool
	fails           []lib.Failure
	stats           map[string]int
}

type pObs struct {
	ID          uint64
	Status      int
	Expedited   bool
	Total       *big.Int
	Deps        map[int64]*big.Int
	VStart      int64
	VEnd        int64
	DepEnd      int64
	Undecodable bool
	DepEndNs    int64
	VEndNs      int64
	Tally       [4]*big.Int
	URLs        []string
}

type obsT struct {
	Res      int
	Props    []*pObs
	Gov      *big.Int
	GovOther sdk.Coins
	Bals     map[int64]*big.Int
	Inactive []uint64
	Active   []uint64
	InactKey map[uint64][]int64 // queue key times (unix nanoseconds) per proposal id
	ActKey   map[uint64][]int64
	Stray    int      // deposit records of proposals that are not open
	Parity   int64    // 1 iff the registered erc20 pair's flag differs from its initial value
	ABT      int64    // crosschain eth AverageBlockTime
	Supply   *big.Int // total FX supply, relative to the start, net of the harness's own mints
	Pool     *big.Int // community pool FX (truncated), relative to the start
}

func rel(t time.Time) int64 { return t.Unix() - lib.GenesisTime.Unix() }

func decZ(s string) *big.Int {
	d, err := sdkmath.LegacyNewDecFromStr(s)
	lib.Must(err)
	return d.BigInt()
}

func (h *hist) logf(f string, a ...interface{}) { h.log = append(h.log, fmt.Sprintf(f, a...)) }

func (h *hist) fail(sig, what string) {
	if len(h.fails) < 20 {
		h.fails = append(h.fails, lib.Failure{Kind: "monitor", What: what, Sig: sig,
			Replay: map[string]interface{}{"seed": h.seed, "history": h.idx, "class": h.class, "ops": append([]string{}, h.log...)}})
	}
}

// aid: the account id the model sees.  The refund loops walk a proposal's deposit records in address
// order and the module account's own record (finding C15-2, second shape) is a transfer to itself, so
// the model needs to know on which side of the module account an address sorts: the parity of the id
// says it (even: before, odd: after).  The module account itself is -1.
func (h *hist) aid(id int64) int64 {
	if id < 0 {
		return id
	}
	if bytes.Compare(h.keys[id].Acc(), h.govAcc) > 0 {
		return 2*id + 1
	}
	return 2 * id
}

const feeCollectorID = 2000 // an account nobody observes: where a crisis constant fee goes

func (h *hist) supplyAndPool() (*big.Int, *big.Int) {
	ctx := h.c.Ctx
	sup := h.c.App.BankKeeper.GetSupply(ctx, denomFX).Amount.BigInt()
	fp, err := h.c.App.DistrKeeper.FeePool.Get(ctx)
	lib.Must(err)
	return sup, fp.CommunityPool.AmountOf(denomFX).TruncateInt().BigInt()
}

func (h *hist) observe(res int) *obsT {
	ctx := h.c.Ctx
	o := &obsT{Res: res, Bals: map[int64]*big.Int{}, InactKey: map[uint64][]int64{}, ActKey: map[uint64][]int64{}}
	gk := h.c.App.GovKeeper
	open := map[uint64]bool{}
	for _, kv := range h.c.DumpPrefix(ctx, "gov", []byte{0}) {
		if len(kv.K) != 9 {
			continue
		}
		id := binary.BigEndian.Uint64(kv.K[1:])
		p, err := gk.Proposals.Get(ctx, id)
		if err != nil {
			// the stored record cannot be decoded: report what was last seen of it, flagged
			po := &pObs{ID: id, Status: 9, Deps: map[int64]*big.Int{}, Total: new(big.Int), Undecodable: true}
			if h.prev != nil {
				for _, q := range h.prev.Props {
					if q.ID == id {
						cp := *q
						cp.Deps = map[int64]*big.Int{}
						cp.Undecodable = true
						po = &cp
					}
				}
			}
			if po.Status == 1 || po.Status == 2 {
				open[id] = true
			}
			o.Props = append(o.Props, po)
			continue
		}
		po := &pObs{ID: id, Status: int(p.Status), Expedited: p.Expedited, Deps: map[int64]*big.Int{}}
		tot := sdk.NewCoins(p.TotalDeposit...)
		po.Total = tot.AmountOf(denomFX).BigInt()
		if p.VotingEndTime != nil {
			po.VEnd = rel(*p.VotingEndTime)
			po.VStart = rel(*p.VotingStartTime)
			po.VEndNs = p.VotingEndTime.UnixNano()
		}
		if p.DepositEndTime != nil {
			po.DepEnd = rel(*p.DepositEndTime)
			po.DepEndNs = p.DepositEndTime.UnixNano()
		}
		for i := range po.Tally {
			po.Tally[i] = new(big.Int)
		}
		if tr := p.FinalTallyResult; tr != nil {
			for i, s := range []string{tr.YesCount, tr.AbstainCount, tr.NoCount, tr.NoWithVetoCount} {
				po.Tally[i], _ = new(big.Int).SetString(s, 10)
			}
		}
		for _, m := range p.Messages {
			po.URLs = append(po.URLs, m.TypeUrl)
		}
		if p.Status == govv1.StatusDepositPeriod || p.Status == govv1.StatusVotingPeriod {
			open[id] = true
		}
		o.Props = append(o.Props, po)
	}
	byID := map[uint64]*pObs{}
	for _, p := range o.Props {
		byID[p.ID] = p
	}
	lib.Must(gk.Deposits.Walk(ctx, nil, func(k collections.Pair[uint64, sdk.AccAddress], d govv1.Deposit) (bool, error) {
		p := byID[k.K1()]
		if p == nil || !open[k.K1()] {
			o.Stray++
			return false, nil
		}
		id, ok := h.idOf[k.K2().String()]
		if !ok {
			id = -7
		}
		if k.K2().Equals(h.govAcc) {
			id = -1 // the module account's own record
		}
		p.Deps[id] = sdk.NewCoins(d.Amount...).AmountOf(denomFX).BigInt()
		return false, nil
	}))
	all := h.c.App.BankKeeper.GetAllBalances(ctx, h.govAcc)
	o.Gov = all.AmountOf(denomFX).BigInt()
	for _, c := range all {
		if c.Denom != denomFX {
			o.GovOther = append(o.GovOther, c)
		}
	}
	for _, id := range h.ids {
		o.Bals[id] = h.c.App.BankKeeper.GetBalance(ctx, h.keys[id].Acc(), denomFX).Amount.BigInt()
	}
	if h.token != "" {
		if pair, ok := h.c.App.Erc20Keeper.GetTokenPair(ctx, h.token); ok && pair.Enabled != h.enabled0 {
			o.Parity = 1
		}
	}
	o.ABT = int64(h.c.App.EthKeeper.GetParams(ctx).AverageBlockTime)
	sup, pool := h.supplyAndPool()
	o.Supply = new(big.Int).Sub(new(big.Int).Sub(sup, h.supply0), h.minted)
	o.Pool = new(big.Int).Sub(pool, h.pool0)
	lib.Must(gk.InactiveProposalsQueue.Walk(ctx, nil, func(k collections.Pair[time.Time, uint64], v uint64) (bool, error) {
		o.Inactive = append(o.Inactive, v)
		o.InactKey[v] = append(o.InactKey[v], k.K1().UnixNano())
		if k.K2() != v {
			o.InactKey[v] = append(o.InactKey[v], -1)
		}
		return false, nil
	}))
	lib.Must(gk.ActiveProposalsQueue.Walk(ctx, nil, func(k collections.Pair[time.Time, uint64], v uint64) (bool, error) {
		o.Active = append(o.Active, v)
		o.ActKey[v] = append(o.ActKey[v], k.K1().UnixNano())
		if k.K2() != v {
			o.ActKey[v] = append(o.ActKey[v], -1)
		}
		return false, nil
	}))
	return o
}

func zb(b *big.Int) string { return lib.ZBig(b) }

func (o *obsT) coq(ids []int64, aid func(int64) int64) string {
	var ps []string
	for _, p := range o.Props {
		var deps []string
		var ks []int64
		for k := range p.Deps {
			ks = append(ks, k)
		}
		sort.Slice(ks, func(i, j int) bool { return ks[i] < ks[j] })
		for _, k := range ks {
			deps = append(deps, lib.Pair(lib.Z(aid(k)), zb(p.Deps[k])))
		}
		vend := p.VEnd
		if p.Status == 1 {
			vend = 0
		}
		st := p.Status
		if p.Undecodable {
			st += 7 // 8 / 9: undecodable while in the deposit / voting period
		}
		ps = append(ps, fmt.Sprintf("mk_pobs %d %d %s %s %s %s [%s; %s; %s; %s]", p.ID, st, lib.Bool(p.Expedited),
			zb(p.Total), lib.List(deps), lib.Z(vend), zb(p.Tally[0]), zb(p.Tally[1]), zb(p.Tally[2]), zb(p.Tally[3])))
	}
	var bs []string
	for _, id := range ids {
		bs = append(bs, lib.Pair(lib.Z(aid(id)), zb(o.Bals[id])))
	}
	u := func(l []uint64) string {
		s := make([]string, len(l))
		for i, v := range l {
			s[i] = fmt.Sprint(v)
		}
		return lib.List(s)
	}
	return fmt.Sprintf("mk_obs %s %s %s %s %s %s [%d; %d; %s; %s]", lib.Z(int64(o.Res)), lib.List(ps), zb(o.Gov), lib.List(bs), u(o.Inactive), u(o.Active), o.Parity, o.ABT, zb(o.Supply), zb(o.Pool))
}

// ---------------------------------------------------------------- error classes

func errCode(op string, err error) int {
	if err == nil {
		return 0
	}
	is := func(t error) bool { return errors.Is(err, t) }
	switch {
	case strings.HasPrefix(err.Error(), "PANIC"):
		return 99
	case is(govtypes.ErrInvalidProposalType):
		return 6
	case is(govtypes.ErrMinDepositTooSmall):
		return 3
	case is(govtypes.ErrInvalidDepositDenom):
		return 4
	case is(sdkerrors.ErrInsufficientFunds):
		return 5
	case is(collections.ErrNotFound):
		return 1
	case is(govtypes.ErrInactiveProposal):
		return 2
	case is(govtypes.ErrInvalidVote):
		return 8
	case is(govtypes.ErrInvalidProposer):
		return 9
	case is(govtypes.ErrInvalidProposal):
		return 10
	case is(govtypes.ErrVotingPeriodEnded):
		return 11
	case is(govtypes.ErrInvalidSigner):
		if op == "custom" {
			return 12
		}
		return 7
	}
	return 7
}

// ---------------------------------------------------------------- setup

func newHist(seed int64, idx int, class string) *hist {
	h := &hist{idx: idx, class: class, seed: seed, keys: map[int64]lib.Key{}, idOf: map[string]int64{},
		props: map[uint64]*propInfo{}, stats: map[string]int{}}
	h.r = lib.NewRand(seed*1_000_003 + int64(idx)*7919 + 13)
	h.c = lib.NewChain(seed*1000+int64(idx), 3, nil)
	lib.Must(h.c.NextBlock())
	c := h.c
	h.ms = govkeeper.NewMsgServerImpl(c.App.GovKeeper)
	h.legacy = sdkgovkeeper.NewLegacyMsgServerImpl(lib.GovAuthority(), h.ms) // as x/gov/module.go RegisterServices does
	h.gov = lib.GovAuthority()
	h.govAcc = authtypes.NewModuleAddress(govtypes.ModuleName)
	for i, k := range c.ValKeys {
		h.ids = append(h.ids, int64(i))
		h.keys[int64(i)] = k
		h.idOf[k.Acc().String()] = int64(i)
	}
	for j := 0; j < 6; j++ {
		id := int64(10 + j)
		k := lib.EthKey(c.Seed, "c15user", j)
		h.ids = append(h.ids, id)
		h.keys[id] = k
		h.idOf[k.Acc().String()] = id
		c.Mint(k.Acc(), lib.FX(int64(200_000+h.r.Intn(5)*100_000)))
	}
	// community pool with the deposit denomination and two foreign ones
	funder := lib.EthKey(c.Seed, "c15funder", 0)
	pool := sdk.NewCoins(lib.FX(10_000_000), sdk.NewCoin("usdt", sdkmath.NewInt(1_000_000_000_000_000)), sdk.NewCoin("aaa", sdkmath.NewInt(1_000_000)))
	lib.Must(c.App.BankKeeper.MintCoins(c.Ctx, minttypes.ModuleName, pool))
	lib.Must(c.App.BankKeeper.SendCoinsFromModuleToAccount(c.Ctx, minttypes.ModuleName, funder.Acc(), pool))
	lib.Must(c.App.DistrKeeper.FundCommunityPool(c.Ctx, pool, funder.Acc()))
	// a registered token pair for ToggleTokenConversion
	pairs := c.App.Erc20Keeper.GetAllTokenPairs(c.Ctx)
	if len(pairs) > 0 {
		h.token = pairs[0].Denom
	} else {
		md := banktypes.Metadata{Description: "c15 test token", Base: "c15tok", Display: "c15tok", Name: "C15 Token", Symbol: "C15",
			DenomUnits: []*banktypes.DenomUnit{{Denom: "c15tok", Exponent: 0}, {Denom: "C15", Exponent: 18}}}
		if _, err := c.App.Erc20Keeper.RegisterNativeCoin(c.Ctx, md); err == nil {
			h.token = "c15tok"
		}
	}
	// stake: users delegate; one validator is slashed so that tokens != shares
	for j := 0; j < 4; j++ {
		id := int64(10 + j)
		n := 1 + h.r.Intn(3)
		for k := 0; k < n; k++ {
			vi := h.r.Intn(3)
			val, err := c.App.StakingKeeper.GetValidator(c.Ctx, c.ValKeys[vi].Val())
			lib.Must(err)
			amt := sdkmath.NewIntFromBigInt(fxAmt(int64(20 + h.r.Intn(300))))
			if h.r.Chance(30) {
				amt = amt.AddRaw(int64(h.r.Intn(1_000_000_000)))
			}
			_, err = c.App.StakingKeeper.Keeper.Delegate(c.Ctx, h.keys[id].Acc(), amt, stakingtypes.Unbonded, val, true)
			lib.Must(err)
		}
	}
	if h.r.Chance(70) {
		vi := h.r.Intn(3)
		val, err := c.App.StakingKeeper.GetValidator(c.Ctx, c.ValKeys[vi].Val())
		lib.Must(err)
		cons, err := val.GetConsAddr()
		lib.Must(err)
		frac := sdkmath.LegacyNewDecWithPrec(int64(1+h.r.Intn(30)), 2)
		power := val.GetConsensusPower(c.App.StakingKeeper.PowerReduction(c.Ctx))
		_, err = c.App.StakingKeeper.Slash(c.Ctx, cons, c.Ctx.BlockHeight(), power, frac)
		lib.Must(err)
	}
	// governance parameters for this history (through the real authority-guarded handler)
	p, err := c.App.GovKeeper.Params.Get(c.Ctx)
	lib.Must(err)
	mind := []int64{10_000, 5_000, 1_000}[h.r.Intn(3)]
	if idx < 0 {
		mind = 10_000
	}
	if idx == -1 || idx == -7 {
		p.Quorum = "0.999" // any partial turnout misses the default quorum
	}
	p.MinDeposit = sdk.NewCoins(lib.FX(mind))
	p.ExpeditedMinDeposit = sdk.NewCoins(lib.FX(mind * int64(2+h.r.Intn(3))))
	if idx >= 0 {
		dur := func(d time.Duration) *time.Duration { return &d }
		p.MaxDepositPeriod = dur([]time.Duration{14 * 24 * time.Hour, 2 * 24 * time.Hour, 6 * time.Hour}[h.r.Intn(3)])
		p.VotingPeriod = dur([]time.Duration{14 * 24 * time.Hour, 3 * 24 * time.Hour, 12 * time.Hour}[h.r.Intn(3)])
		p.ExpeditedVotingPeriod = dur([]time.Duration{24 * time.Hour, 2 * time.Hour}[h.r.Intn(2)])
		if *p.ExpeditedVotingPeriod >= *p.VotingPeriod {
			p.ExpeditedVotingPeriod = dur(2 * time.Hour)
		}
		p.Quorum = []string{"0.4", "0.334", "0.1", "0.75"}[h.r.Intn(4)]
		p.MinInitialDepositRatio = []string{"0", "0", "0.25", "0.1"}[h.r.Intn(4)]
		p.MinDepositRatio = []string{"0.01", "0.01", "0", "0.05"}[h.r.Intn(4)]
		p.ProposalCancelRatio = []string{"0.5", "0", "1", "0.333333333333333333"}[h.r.Intn(4)]
		switch h.r.Intn(4) {
		case 0:
			p.ProposalCancelDest = authtypes.NewModuleAddress(distrtypes.ModuleName).String()
		case 1:
			p.ProposalCancelDest = h.keys[15].Acc().String()
		default:
			p.ProposalCancelDest = ""
		}
		p.BurnProposalDepositPrevote = h.r.Chance(35)
		p.BurnVoteQuorum = h.r.Chance(35)
		p.BurnVoteVeto = h.r.Chance(70)
	}
	lib.Must(c.Try(func(ctx sdk.Context) error {
		_, err := h.ms.UpdateParams(ctx, &govv1.MsgUpdateParams{Authority: h.gov, Params: p})
		return err
	}))
	h.params = p
	if class == "plain" {
		// no per-type configuration at all: the per-type rules coincide with the defaults
		var keysToDrop []string
		lib.Must(c.App.GovKeeper.CustomerParams.Walk(c.Ctx, nil, func(k string, _ fxgovtypes.CustomParams) (bool, error) {
			keysToDrop = append(keysToDrop, k)
			return false, nil
		}))
		for _, k := range keysToDrop {
			lib.Must(c.Try(func(ctx sdk.Context) error {
				_, err := h.ms.UpdateCustomParams(ctx, &fxgovtypes.MsgUpdateCustomParams{Authority: h.gov, MsgUrl: k})
				return err
			}))
		}
	}
	if h.token != "" {
		pair, _ := c.App.Erc20Keeper.GetTokenPair(c.Ctx, h.token)
		h.enabled0 = pair.Enabled
	}
	h.abt0 = int64(c.App.EthKeeper.GetParams(c.Ctx).AverageBlockTime)
	h.fixed = detectKeyFun(h)
	// no inflation in this chain: the supply then moves only by burns and the harness's own mints,
	// the community pool only by governance (cancellation charges, executed spends)
	mp, err := c.App.MintKeeper.Params.Get(c.Ctx)
	lib.Must(err)
	mp.InflationMax, mp.InflationMin, mp.InflationRateChange = sdkmath.LegacyZeroDec(), sdkmath.LegacyZeroDec(), sdkmath.LegacyZeroDec()
	lib.Must(c.App.MintKeeper.Params.Set(c.Ctx, mp))
	mt, err := c.App.MintKeeper.Minter.Get(c.Ctx)
	lib.Must(err)
	mt.Inflation, mt.AnnualProvisions = sdkmath.LegacyZeroDec(), sdkmath.LegacyZeroDec()
	lib.Must(c.App.MintKeeper.Minter.Set(c.Ctx, mt))
	lib.Must(c.NextBlock())
	lib.Must(c.NextBlock())
	h.minted = new(big.Int)
	h.supply0, h.pool0 = new(big.Int), new(big.Int)
	h.supply0, h.pool0 = h.supplyAndPool()
	// initial facts for the model
	o := h.observe(0)
	var bs []string
	for _, id := range h.ids {
		bs = append(bs, lib.Pair(lib.Z(h.aid(id)), zb(o.Bals[id])))
	}
	h.initBals = lib.List(bs)
	h.initCust = h.customCoq()
	h.initParams = h.paramsCoq()
	h.prev = o
	return h
}

func urlID(u string) int64 {
	for id, s := range typeURL {
		if s == u {
			return int64(id)
		}
	}
	// other registered custom-parameter keys (erc20 / evm defaults): ids 20..
	h := int64(0)
	for _, ch := range u {
		h = (h*131 + int64(ch)) % 1_000_003
	}
	return 1000 + h
}

func (h *hist) customCoq() string {
	var items []string
	lib.Must(h.c.App.GovKeeper.CustomerParams.Walk(h.c.Ctx, nil, func(k string, v fxgovtypes.CustomParams) (bool, error) {
		items = append(items, fmt.Sprintf("(%d, %s)", urlID(k), cpCoq(v)))
		return false, nil
	}))
	return lib.List(items)
}

func cpCoq(v fxgovtypes.CustomParams) string {
	per := int64(0)
	if v.VotingPeriod != nil {
		per = int64(v.VotingPeriod.Seconds())
	}
	return fmt.Sprintf("mk_cp %s %d %s", zb(decZ(v.DepositRatio)), per, zb(decZ(v.Quorum)))
}

// detectKeyFun: does the code under test look up per-type parameters by the wrapped message's
// type URL (true) or by the Any wrapper's own name (false, the tree as it is)?
func detectKeyFun(h *hist) bool {
	c := h.c
	spend := &distrtypes.MsgCommunityPoolSpend{Authority: h.gov, Recipient: h.keys[10].Acc().String(), Amount: sdk.NewCoins(lib.FX(1_000_000_000))}
	p, err := govv1.NewProposal([]sdk.Msg{spend}, 777, c.Ctx.BlockTime(), c.Ctx.BlockTime(), "", "t", "s", h.keys[10].Acc(), false)
	lib.Must(err)
	cctx, _ := c.Ctx.CacheContext()
	d := 1234 * time.Second
	lib.Must(c.App.GovKeeper.CustomerParams.Set(cctx, typeURL[tyEGF], fxgovtypes.CustomParams{DepositRatio: "0.5", VotingPeriod: &d, Quorum: "0.123"}))
	def := 99 * time.Second
	per := c.App.GovKeeper.GetCustomMsgVotingPeriod(cctx, &def, p)
	q := c.App.GovKeeper.GetCustomMsgQuorum(cctx, "0.9", p)
	min, err := c.App.GovKeeper.GetMinDepositAmountFromProposalMsgs(cctx, sdk.NewCoins(lib.FX(1)), p)
	lib.Must(err)
	n := 0
	if *per == d {
		n++
	}
	if q == "0.123" {
		n++
	}
	if min.AmountOf(denomFX).GT(lib.FX(1).Amount) {
		n++
	}
	return n == 3
}

// ---------------------------------------------------------------- operations on the real app + model terms

func (h *hist) now() int64 { return rel(h.c.Ctx.BlockTime()) }

func (h *hist) record(opCoq string, res int) *obsT {
	o := h.observe(res)
	h.steps = append(h.steps, "("+opCoq+", "+o.coq(h.ids, h.aid)+")")
	return o
}

// effect tag of an executed community-pool spend: 10^40 + the amount in the deposit denomination
func spendTag(fxAmount *big.Int) string {
	base := new(big.Int).Exp(big.NewInt(10), big.NewInt(40), nil)
	return base.Add(base, fxAmount).String()
}

func msgCoq(m mMsg) string {
	sp := make([]string, len(m.Spend))
	for i, s := range m.Spend {
		sp[i] = lib.Pair(s[0], s[1])
	}
	return fmt.Sprintf("mk_msg %d %s (%s)", m.Type, lib.List(sp), m.Act)
}

var denomIDs = map[string]string{"FX": "0", "aaa": "2", "usdt": "3"}

// buildMsgs makes the real messages and their model descriptions for a proposal kind.
func (h *hist) buildMsgs(kind string, info *propInfo) ([]sdk.Msg, []mMsg) {
	r := h.r
	var msgs []sdk.Msg
	var mm []mMsg
	tag := int64(r.Intn(1000))
	newRcpt := func() sdk.AccAddress {
		h.nrcpt++
		a := lib.EthKey(h.c.Seed, "c15rcpt", h.nrcpt).Acc()
		info.Rcpt = append(info.Rcpt, a)
		return a
	}
	text := func() {
		content := govv1beta1.NewTextProposal(fmt.Sprintf("T%d", tag), "description")
		m, err := govv1.NewLegacyContent(content, h.gov)
		lib.Must(err)
		msgs = append(msgs, m)
		mm = append(mm, mMsg{Type: tyText, Act: fmt.Sprintf("AOk %d", tag)})
		if kind == "text-legacy" {
			info.LegacyContent = content
		}
	}
	spend := func(coins sdk.Coins, ok bool) {
		msgs = append(msgs, &distrtypes.MsgCommunityPoolSpend{Authority: h.gov, Recipient: newRcpt().String(), Amount: coins})
		var sp [][2]string
		for _, c := range coins {
			sp = append(sp, [2]string{denomIDs[c.Denom], c.Amount.String()})
		}
		act := "AOk " + spendTag(coins.AmountOf(denomFX).BigInt())
		if !ok {
			act = "AFail"
		}
		mm = append(mm, mMsg{Type: tyEGF, Spend: sp, Act: act})
		info.ReqFX.Add(info.ReqFX, coins.AmountOf(denomFX).BigInt())
	}
	send := func(to int64, amt *big.Int) {
		msgs = append(msgs, &banktypes.MsgSend{FromAddress: h.gov, ToAddress: h.keys[to].Acc().String(),
			Amount: sdk.NewCoins(sdk.NewCoin(denomFX, sdkmath.NewIntFromBigInt(amt)))})
		mm = append(mm, mMsg{Type: tySend, Act: fmt.Sprintf("AGovSend %d %s", h.aid(to), zb(amt))})
	}
	xparams := func() {
		p := h.c.App.EthKeeper.GetParams(h.c.Ctx)
		abt := 5000 + r.Intn(3000)
		p.AverageBlockTime = uint64(abt)
		msgs = append(msgs, &crosschaintypes.MsgUpdateParams{ChainName: "eth", Authority: h.gov, Params: p})
		mm = append(mm, mMsg{Type: tyXParams, Act: fmt.Sprintf("AOk %d", abt)})
	}
	toggle := func(ok bool) {
		tok := h.token
		act := fmt.Sprintf("AOk %d", 400000+tag)
		if !ok || tok == "" {
			tok = "nosuchtoken"
			act = "AFail"
		}
		msgs = append(msgs, &erc20types.MsgToggleTokenConversion{Authority: h.gov, Token: tok})
		mm = append(mm, mMsg{Type: tyToggle, Act: act})
	}
	okSpendCoins := func() sdk.Coins {
		switch r.Intn(7) {
		case 0: // the share equals the default minimum exactly (10% of 10x)
			return sdk.NewCoins(sdk.NewCoin(denomFX, h.params.MinDeposit[0].Amount.MulRaw(10)))
		case 1:
			return sdk.NewCoins(sdk.NewCoin(denomFX, h.params.MinDeposit[0].Amount.MulRaw(10).AddRaw(int64(r.Intn(40))-20)))
		case 2:
			return sdk.NewCoins(lib.FX(int64(100_000 + r.Intn(100_000))))
		case 3: // dust of another denomination next to a large request
			return sdk.NewCoins(lib.FX(int64(50_000+r.Intn(100_000))), sdk.NewCoin("aaa", sdkmath.NewInt(int64(1+r.Intn(4)))))
		case 4:
			return sdk.NewCoins(sdk.NewCoin("usdt", sdkmath.NewInt(int64(1+r.Intn(1_000_000)))))
		case 5:
			return sdk.NewCoins(lib.FX(int64(1+r.Intn(5000))), sdk.NewCoin("usdt", sdkmath.NewInt(int64(1_000_000+r.Intn(1_000_000)))))
		default:
			return sdk.NewCoins(lib.FX(int64(1 + r.Intn(20_000))))
		}
	}
	switch kind {
	case "text", "text-legacy":
		text()
	case "legacy-unrouted":
		// a legacy parameter change of a subspace that does not exist: the legacy handler, run on a cache
		// context at submission, refuses it
		content := paramproposal.NewParameterChangeProposal("change", "description", []paramproposal.ParamChange{{Subspace: "nosuchspace", Key: "k", Value: "1"}})
		m, err := govv1.NewLegacyContent(content, h.gov)
		lib.Must(err)
		msgs = append(msgs, m)
		mm = append(mm, mMsg{Type: tyText, Act: "AFail"})
		info.LegacyContent = content
	case "none":
	case "egf":
		n := 1 + r.Intn(2)
		for i := 0; i < n; i++ {
			spend(okSpendCoins(), true)
		}
	case "egf-fail":
		if r.Chance(60) {
			spend(okSpendCoins(), true)
			info.OkBefore = true
		}
		spend(sdk.NewCoins(lib.FX(900_000_000_000)), false)
		info.HasFail = true
	case "send":
		// amount the module account can only pay out of other proposals' deposits
		amt := fxAmt(int64(1 + r.Intn(3000)))
		info.sendTo = int64(10 + r.Intn(6))
		send(info.sendTo, amt)
		info.GovSend = new(big.Int).Set(amt)
	case "send-fail":
		if r.Chance(50) && h.class == "govsend" {
			a := fxAmt(int64(1 + r.Intn(500)))
			send(int64(10+r.Intn(6)), a)
			info.OkBefore = true
		}
		send(int64(10+r.Intn(6)), fxAmt(800_000_000))
		info.HasFail = true
	case "xparams":
		xparams()
		if r.Chance(30) {
			xparams()
		}
	case "toggle":
		toggle(true)
	case "toggle-fail":
		if r.Chance(60) && h.token != "" {
			toggle(true)
			info.OkBefore = true
		}
		toggle(false)
		info.HasFail = true
	case "mixed-samename":
		// MsgUpdateParams of different modules: same Go type name (`*types.MsgUpdateParams`), different type URLs
		sameName := []func(){
			xparams,
			func() {
				msgs = append(msgs, &banktypes.MsgUpdateParams{Authority: h.gov, Params: h.c.App.BankKeeper.GetParams(h.c.Ctx)})
				mm = append(mm, mMsg{Type: tyBankPar, Act: fmt.Sprintf("AOk %d", tag)})
			},
			func() {
				msgs = append(msgs, &erc20types.MsgUpdateParams{Authority: h.gov, Params: h.c.App.Erc20Keeper.GetParams(h.c.Ctx)})
				mm = append(mm, mMsg{Type: tyErc20Par, Act: fmt.Sprintf("AOk %d", tag)})
			},
			func() {
				sp, err := h.c.App.StakingKeeper.GetParams(h.c.Ctx)
				lib.Must(err)
				msgs = append(msgs, &stakingtypes.MsgUpdateParams{Authority: h.gov, Params: sp})
				mm = append(mm, mMsg{Type: tyStakePar, Act: fmt.Sprintf("AOk %d", tag)})
			},
		}
		perm := r.Perm(len(sameName))
		n := 2 + r.Intn(2)
		if r.Chance(30) {
			sameName[perm[0]]() // the first type twice, then another one
		}
		for i := 0; i < n; i++ {
			sameName[perm[i]]()
		}
	case "mixed":
		switch r.Intn(3) {
		case 0:
			text()
			xparams()
		case 1:
			toggle(true)
			toggle(true)
			spend(okSpendCoins(), true)
		default:
			spend(okSpendCoins(), true)
			send(10, fxAmt(1))
		}
	case "badsigner":
		msgs = append(msgs, &banktypes.MsgSend{FromAddress: h.keys[11].Acc().String(), ToAddress: h.keys[12].Acc().String(), Amount: sdk.NewCoins(lib.FX(1))})
		mm = append(mm, mMsg{Type: tySend, Act: "AFail"})
	}
	for _, m := range mm {
		info.Types = append(info.Types, m.Type)
	}
	for _, m := range msgs {
		info.URLs = append(info.URLs, sdk.MsgTypeURL(m))
	}
	info.AllEGF = len(mm) > 0
	for _, m := range mm {
		if m.Type != tyEGF {
			info.AllEGF = false
		}
	}
	return msgs, mm
}

func (h *hist) depositCoins(amt *big.Int, badDenom bool) sdk.Coins {
	cs := sdk.Coins{}
	if amt.Sign() > 0 {
		cs = sdk.NewCoins(sdk.NewCoin(denomFX, sdkmath.NewIntFromBigInt(amt)))
	}
	if badDenom {
		cs = cs.Add(sdk.NewCoin("usdt", sdkmath.NewInt(5)))
	}
	return cs
}

func (h *hist) opSubmit(kind string, proposer int64, amt *big.Int, expedited, badDenom bool) {
	if kind == "text-legacy" || kind == "legacy-unrouted" {
		expedited = false // the v1beta1 message has no such field
	}
	h.opSubmitWith(kind, proposer, amt, expedited, badDenom, func(info *propInfo) ([]sdk.Msg, []mMsg) { return h.buildMsgs(kind, info) })
}

func (h *hist) opSubmitKind(kind string, proposer int64, amt *big.Int, expedited bool) {
	h.opSubmit(kind, proposer, amt, expedited, false)
}

// a community-pool spend of reqFX (deposit denomination) to a fresh recipient
func (h *hist) opSubmitEGF(proposer int64, reqFX, amt *big.Int) {
	h.opSubmitWith("egf", proposer, amt, false, false, func(info *propInfo) ([]sdk.Msg, []mMsg) {
		h.nrcpt++
		rc := lib.EthKey(h.c.Seed, "c15rcpt", h.nrcpt).Acc()
		info.Rcpt = append(info.Rcpt, rc)
		info.ReqFX.Add(info.ReqFX, reqFX)
		info.Types, info.URLs, info.AllEGF = []int{tyEGF}, []string{typeURL[tyEGF]}, true
		coins := sdk.NewCoins(sdk.NewCoin(denomFX, sdkmath.NewIntFromBigInt(reqFX)))
		return []sdk.Msg{&distrtypes.MsgCommunityPoolSpend{Authority: h.gov, Recipient: rc.String(), Amount: coins}},
			[]mMsg{{Type: tyEGF, Spend: [][2]string{{"0", reqFX.String()}}, Act: "AOk " + spendTag(reqFX)}}
	})
}

// a community-pool spend of arbitrary coins (denominations FX, aaa, usdt) to a fresh recipient
func (h *hist) opSubmitSpend(proposer int64, coins sdk.Coins, amt *big.Int) {
	h.opSubmitWith("egf", proposer, amt, false, false, func(info *propInfo) ([]sdk.Msg, []mMsg) {
		h.nrcpt++
		rc := lib.EthKey(h.c.Seed, "c15rcpt", h.nrcpt).Acc()
		info.Rcpt = append(info.Rcpt, rc)
		info.ReqFX.Add(info.ReqFX, coins.AmountOf(denomFX).BigInt())
		info.Types, info.URLs, info.AllEGF = []int{tyEGF}, []string{typeURL[tyEGF]}, true
		var sp [][2]string
		for _, c := range coins {
			sp = append(sp, [2]string{denomIDs[c.Denom], c.Amount.String()})
		}
		return []sdk.Msg{&distrtypes.MsgCommunityPoolSpend{Authority: h.gov, Recipient: rc.String(), Amount: coins}},
			[]mMsg{{Type: tyEGF, Spend: sp, Act: "AOk " + spendTag(coins.AmountOf(denomFX).BigInt())}}
	})
}

// gov MsgDeposit with the governance module account itself as depositor, into proposal `target`:
// the account "deposits" coins it holds for other proposals — a record with no new funds behind it.
// The model has no action for it (what happens when the target closes depends on the address order
// of the refund loop); such histories are evaluated by the monitor only.
func (h *hist) opSubmitGovDeposit(proposer int64, target uint64, amount, amt *big.Int) {
	h.opSubmitWith("govdeposit", proposer, amt, false, false, func(info *propInfo) ([]sdk.Msg, []mMsg) {
		info.GovSend = new(big.Int) // a spend of the module account's holdings, nothing leaves it
		info.sendTo = -7
		m := &govv1.MsgDeposit{ProposalId: target, Depositor: h.gov, Amount: sdk.NewCoins(sdk.NewCoin(denomFX, sdkmath.NewIntFromBigInt(amount)))}
		info.Types, info.URLs = []int{9}, []string{sdk.MsgTypeURL(m)}
		return []sdk.Msg{m}, []mMsg{{Type: 9, Act: fmt.Sprintf("AGovDeposit %d %s", target, zb(amount))}}
	})
}

// crisis MsgVerifyInvariant sent by the governance module account: the handler first charges the
// crisis constant fee to the sender — i.e. out of what the account holds for open proposals — and
// then runs the invariant.  Monitor only (no model action).
func (h *hist) opSubmitCrisis(proposer int64, module, route string, amt *big.Int) {
	h.opSubmitWith("crisis", proposer, amt, false, false, func(info *propInfo) ([]sdk.Msg, []mMsg) {
		fee, err := h.c.App.CrisisKeeper.ConstantFee.Get(h.c.Ctx)
		lib.Must(err)
		info.GovSend = fee.Amount.BigInt()
		info.sendTo = -7
		m := &crisistypes.MsgVerifyInvariant{Sender: h.gov, InvariantModuleName: module, InvariantRoute: route}
		info.Types, info.URLs = []int{10}, []string{sdk.MsgTypeURL(m)}
		// the gov module-account invariant is broken by the fee charge itself: the handler panics and
		// the branch is dropped (a failing message); any invariant that holds: the fee is a send from
		// the module account to the fee collector
		act := fmt.Sprintf("AGovSend %d %s", feeCollectorID, zb(fee.Amount.BigInt()))
		if module == "gov" && route == "module-account" {
			act = "AFail"
			info.GovSend = nil
			info.HasFail = true
		}
		return []sdk.Msg{m}, []mMsg{{Type: 10, Act: act}}
	})
}

// a bank send of `amount` from the governance module account to account `to`
func (h *hist) opSubmitSend(proposer, to int64, amount, amt *big.Int) {
	h.opSubmitWith("send", proposer, amt, false, false, func(info *propInfo) ([]sdk.Msg, []mMsg) {
		info.sendTo, info.GovSend = to, new(big.Int).Set(amount)
		info.Types, info.URLs = []int{tySend}, []string{typeURL[tySend]}
		return []sdk.Msg{&banktypes.MsgSend{FromAddress: h.gov, ToAddress: h.keys[to].Acc().String(),
				Amount: sdk.NewCoins(sdk.NewCoin(denomFX, sdkmath.NewIntFromBigInt(amount)))}},
			[]mMsg{{Type: tySend, Act: fmt.Sprintf("AGovSend %d %s", h.aid(to), zb(amount))}}
	})
}

func (h *hist) opSubmitWith(kind string, proposer int64, amt *big.Int, expedited, badDenom bool, build func(*propInfo) ([]sdk.Msg, []mMsg)) {
	info := &propInfo{Kind: kind, Expedited: expedited, ReqFX: new(big.Int), Deposits: map[int64]*big.Int{}, Proposer: proposer}
	msgs, mm := build(info)
	valid := kind != "badsigner" && kind != "legacy-unrouted"
	metadata := ""
	if kind == "none" {
		metadata = "c15 metadata-only proposal"
	}
	var id uint64
	err := h.c.Try(func(ctx sdk.Context) error {
		if info.LegacyContent != nil {
			lm, err := govv1beta1.NewMsgSubmitProposal(info.LegacyContent, h.depositCoins(amt, badDenom), h.keys[proposer].Acc())
			if err != nil {
				return err
			}
			r, err := h.legacy.SubmitProposal(ctx, lm)
			if err != nil {
				return err
			}
			id = r.ProposalId
			return nil
		}
		m, err := govv1.NewMsgSubmitProposal(msgs, h.depositCoins(amt, badDenom), h.keys[proposer].Acc().String(), metadata, "title", "summary", expedited)
		if err != nil {
			return err
		}
		r, err := h.ms.SubmitProposal(ctx, m)
		if err != nil {
			return err
		}
		id = r.ProposalId
		return nil
	})
	code := errCode("submit", err)
	ms := make([]string, len(mm))
	for i, m := range mm {
		ms[i] = msgCoq(m)
	}
	opc := fmt.Sprintf("GOp (OSubmit %d %d %s %s %s %s %s)", h.now(), h.aid(proposer), lib.List(ms), zb(amt), lib.Bool(expedited), lib.Bool(valid), lib.Bool(badDenom))
	h.logf("submit kind=%s types=%v by=%d deposit=%s expedited=%v badDenom=%v -> id=%d err=%v", kind, info.URLs, proposer, amt, expedited, badDenom, id, err)
	h.stats["submit:"+kind]++
	if err == nil {
		h.stats["submit-accepted"]++
		info.ID = id
		info.Deposits[proposer] = new(big.Int).Set(amt)
		h.props[id] = info
		// monitor: all messages of one type
		for _, u := range info.URLs {
			if !strings.EqualFold(u, info.URLs[0]) {
				h.fail("C15:mixed-types-accepted", fmt.Sprintf("proposal %d accepted with message types %v", id, info.URLs))
			}
		}
	} else if strings.HasPrefix(kind, "mixed") && code != 6 {
		h.logf("  (mixed proposal refused with code %d)", code)
	}
	o := h.record(opc, code)
	h.monitor(o, "submit", err)
}

func (h *hist) opDeposit(pid uint64, who int64, amt *big.Int, badDenom bool) {
	viaLegacy := h.r.Chance(15)
	err := h.c.Try(func(ctx sdk.Context) error {
		if viaLegacy {
			_, err := h.legacy.Deposit(ctx, &govv1beta1.MsgDeposit{ProposalId: pid, Depositor: h.keys[who].Acc().String(), Amount: h.depositCoins(amt, badDenom)})
			return err
		}
		_, err := h.ms.Deposit(ctx, &govv1.MsgDeposit{ProposalId: pid, Depositor: h.keys[who].Acc().String(), Amount: h.depositCoins(amt, badDenom)})
		return err
	})
	if viaLegacy {
		h.stats["legacy-deposit"]++
	}
	code := errCode("deposit", err)
	opc := fmt.Sprintf("GOp (ODeposit %d %d %d %s %s)", h.now(), pid, h.aid(who), zb(amt), lib.Bool(badDenom))
	h.logf("deposit id=%d by=%d amount=%s badDenom=%v -> err=%v", pid, who, amt, badDenom, err)
	h.stats["deposit"]++
	if err == nil {
		if p := h.props[pid]; p != nil {
			if p.Deposits[who] == nil {
				p.Deposits[who] = new(big.Int)
			}
			p.Deposits[who].Add(p.Deposits[who], amt)
		}
	}
	o := h.record(opc, code)
	h.monitor(o, "deposit", err)
}

func (h *hist) opVote(pid uint64, who int64, opts [][2]string, weighted bool) {
	viaLegacy := h.r.Chance(15)
	if viaLegacy {
		h.stats["legacy-vote"]++
	}
	err := h.c.Try(func(ctx sdk.Context) error {
		if viaLegacy && !weighted {
			var o int32
			fmt.Sscan(opts[0][0], &o)
			_, err := h.legacy.Vote(ctx, &govv1beta1.MsgVote{ProposalId: pid, Voter: h.keys[who].Acc().String(), Option: govv1beta1.VoteOption(o)})
			return err
		}
		if viaLegacy {
			var wo []govv1beta1.WeightedVoteOption
			for _, ow := range opts {
				var o int32
				fmt.Sscan(ow[0], &o)
				w, _ := new(big.Int).SetString(ow[1], 10)
				wo = append(wo, govv1beta1.WeightedVoteOption{Option: govv1beta1.VoteOption(o), Weight: sdkmath.LegacyNewDecFromBigIntWithPrec(w, 18)})
			}
			_, err := h.legacy.VoteWeighted(ctx, &govv1beta1.MsgVoteWeighted{ProposalId: pid, Voter: h.keys[who].Acc().String(), Options: wo})
			return err
		}
		if !weighted {
			var o int32
			fmt.Sscan(opts[0][0], &o)
			_, err := h.ms.Vote(ctx, &govv1.MsgVote{ProposalId: pid, Voter: h.keys[who].Acc().String(), Option: govv1.VoteOption(o)})
			return err
		}
		var wo []*govv1.WeightedVoteOption
		for _, ow := range opts {
			var o int32
			fmt.Sscan(ow[0], &o)
			w, _ := new(big.Int).SetString(ow[1], 10)
			wo = append(wo, &govv1.WeightedVoteOption{Option: govv1.VoteOption(o), Weight: sdkmath.LegacyNewDecFromBigIntWithPrec(w, 18).String()})
		}
		_, err := h.ms.VoteWeighted(ctx, &govv1.MsgVoteWeighted{ProposalId: pid, Voter: h.keys[who].Acc().String(), Options: wo})
		return err
	})
	code := errCode("vote", err)
	ps := make([]string, len(opts))
	for i, ow := range opts {
		ps[i] = lib.Pair(ow[0], ow[1])
	}
	opc := fmt.Sprintf("GOp (OVote %d %d %s %s)", pid, h.aid(who), lib.List(ps), lib.Bool(weighted))
	h.logf("vote id=%d by=%d opts=%v weighted=%v -> err=%v", pid, who, opts, weighted, err)
	h.stats["vote"]++
	o := h.record(opc, code)
	h.monitor(o, "vote", err)
}

func (h *hist) opCancel(pid uint64, who int64) {
	err := h.c.Try(func(ctx sdk.Context) error {
		_, err := h.ms.CancelProposal(ctx, &govv1.MsgCancelProposal{ProposalId: pid, Proposer: h.keys[who].Acc().String()})
		return err
	})
	code := errCode("cancel", err)
	opc := fmt.Sprintf("GOp (OCancel %d %d %d)", h.now(), pid, h.aid(who))
	h.logf("cancel id=%d by=%d -> err=%v", pid, who, err)
	h.stats["cancel"]++
	o := h.record(opc, code)
	h.monitor(o, "cancel", err)
}

func (h *hist) opCustom(authorized bool, key int, cp *fxgovtypes.CustomParams) {
	auth := h.gov
	if !authorized {
		auth = h.keys[11].Acc().String()
	}
	req := &fxgovtypes.MsgUpdateCustomParams{Authority: auth, MsgUrl: typeURL[key]}
	opc := fmt.Sprintf("GOp (ORemoveCustom %s %d)", lib.Bool(authorized), key)
	if cp != nil {
		req.CustomParams = *cp
		opc = fmt.Sprintf("GOp (OSetCustom %s %d (%s))", lib.Bool(authorized), key, cpCoq(*cp))
	}
	err := h.c.Try(func(ctx sdk.Context) error {
		_, err := h.ms.UpdateCustomParams(ctx, req)
		return err
	})
	code := errCode("custom", err)
	h.logf("custom params key=%s set=%v authorized=%v -> err=%v", typeURL[key], cp, authorized, err)
	h.stats["custom"]++
	if err == nil {
		h.customTouched = true
	}
	o := h.record(opc, code)
	h.monitor(o, "custom", err)
}

// the stored record of a proposal is overwritten with bytes that do not decode, through fx-core's own
// authority-guarded MsgUpdateStore (what an upgrade that drops a message type does to old proposals)
func (h *hist) opCorrupt(pid uint64) {
	key := append([]byte{0}, make([]byte, 8)...)
	binary.BigEndian.PutUint64(key[1:], pid)
	var old []byte
	for _, kv := range h.c.DumpPrefix(h.c.Ctx, "gov", key) {
		old = kv.V
	}
	err := h.c.Try(func(ctx sdk.Context) error {
		_, err := h.ms.UpdateStore(ctx, &fxgovtypes.MsgUpdateStore{Authority: h.gov, UpdateStores: []fxgovtypes.UpdateStore{
			{Space: "gov", Key: hex.EncodeToString(key), OldValue: hex.EncodeToString(old), Value: "ffff"}}})
		return err
	})
	code := errCode("custom", err)
	h.logf("corrupt stored proposal %d (MsgUpdateStore) -> err=%v", pid, err)
	h.stats["corrupt"]++
	if err == nil {
		h.corrupted = true
		if h.corruptIDs == nil {
			h.corruptIDs = map[uint64]bool{}
		}
		h.corruptIDs[pid] = true
	}
	o := h.record(fmt.Sprintf("GOp (OCorrupt %d)", pid), code)
	h.monitor(o, "corrupt", err)
}

// governance Params replaced mid-history through the real (authority-guarded) MsgUpdateParams
func (h *hist) opGovParams(authorized, valid bool, mutate func(p *govv1.Params)) {
	p := h.params
	p.MinDeposit = sdk.NewCoins(p.MinDeposit...)
	p.ExpeditedMinDeposit = sdk.NewCoins(p.ExpeditedMinDeposit...)
	mutate(&p)
	if !valid {
		d := *p.VotingPeriod + time.Hour
		p.ExpeditedVotingPeriod = &d
	}
	auth := h.gov
	if !authorized {
		auth = h.keys[12].Acc().String()
	}
	err := h.c.Try(func(ctx sdk.Context) error {
		_, err := h.ms.UpdateParams(ctx, &govv1.MsgUpdateParams{Authority: auth, Params: p})
		return err
	})
	code := errCode("custom", err)
	saved := h.params
	h.params = p
	opc := fmt.Sprintf("GSetParams %s %s %s", lib.Bool(authorized), lib.Bool(valid), h.paramsCoq())
	h.params = saved
	if err == nil {
		h.params = p
	}
	h.logf("gov params authorized=%v valid=%v min=%s expmin=%s maxdep=%s voting=%s expvoting=%s quorum=%s initratio=%s depratio=%s cancel=%s/%q burn=%v/%v/%v -> err=%v",
		authorized, valid, p.MinDeposit, p.ExpeditedMinDeposit, p.MaxDepositPeriod, p.VotingPeriod, p.ExpeditedVotingPeriod, p.Quorum,
		p.MinInitialDepositRatio, p.MinDepositRatio, p.ProposalCancelRatio, p.ProposalCancelDest, p.BurnProposalDepositPrevote, p.BurnVoteQuorum, p.BurnVoteVeto, err)
	h.stats["govparams"]++
	o := h.record(opc, code)
	h.monitor(o, "govparams", err)
}

func (h *hist) genGovParams() {
	r := h.r
	dur := func(d time.Duration) *time.Duration { return &d }
	h.opGovParams(!r.Chance(12), !r.Chance(10), func(p *govv1.Params) {
		for n := 1 + r.Intn(3); n > 0; n-- {
			switch r.Intn(9) {
			case 8:
				// vote thresholds (the expedited one must stay above the regular one) and the veto threshold
				th := []string{"0.5", "0.334", "0.6", "0.9"}[r.Intn(4)]
				p.Threshold = th
				p.ExpeditedThreshold = map[string]string{"0.5": "0.667", "0.334": "0.5", "0.6": "0.75", "0.9": "1"}[th]
				p.VetoThreshold = []string{"0.334", "0.1", "0.5", "1"}[r.Intn(4)]
			case 0:
				mind := []int64{10_000, 5_000, 1_000, 20_000}[r.Intn(4)]
				p.MinDeposit = sdk.NewCoins(lib.FX(mind))
				p.ExpeditedMinDeposit = sdk.NewCoins(lib.FX(mind * int64(2+r.Intn(3))))
			case 1:
				p.VotingPeriod = dur([]time.Duration{14 * 24 * time.Hour, 3 * 24 * time.Hour, 12 * time.Hour, 30 * 24 * time.Hour}[r.Intn(4)])
				if *p.ExpeditedVotingPeriod >= *p.VotingPeriod {
					p.ExpeditedVotingPeriod = dur(2 * time.Hour)
				}
			case 2:
				p.ExpeditedVotingPeriod = dur([]time.Duration{24 * time.Hour, 2 * time.Hour, 30 * time.Minute}[r.Intn(3)])
				if *p.ExpeditedVotingPeriod >= *p.VotingPeriod {
					p.ExpeditedVotingPeriod = dur(*p.VotingPeriod / 2)
				}
			case 3:
				p.MaxDepositPeriod = dur([]time.Duration{14 * 24 * time.Hour, 2 * 24 * time.Hour, 6 * time.Hour}[r.Intn(3)])
			case 4:
				p.Quorum = []string{"0.4", "0.334", "0.1", "0.75", "0", "1"}[r.Intn(6)]
			case 5:
				p.BurnProposalDepositPrevote, p.BurnVoteQuorum, p.BurnVoteVeto = r.Chance(50), r.Chance(50), r.Chance(50)
			case 6:
				p.MinInitialDepositRatio = []string{"0", "0.25", "0.1"}[r.Intn(3)]
				p.MinDepositRatio = []string{"0.01", "0", "0.05"}[r.Intn(3)]
			default:
				p.ProposalCancelRatio = []string{"0.5", "0", "1", "0.333333333333333333"}[r.Intn(4)]
				switch r.Intn(3) {
				case 0:
					p.ProposalCancelDest = authtypes.NewModuleAddress(distrtypes.ModuleName).String()
				case 1:
					p.ProposalCancelDest = h.keys[15].Acc().String()
				default:
					p.ProposalCancelDest = ""
				}
			}
		}
	})
}

func (h *hist) opMint(who int64, amt *big.Int) {
	h.c.Mint(h.keys[who].Acc(), sdk.NewCoin(denomFX, sdkmath.NewIntFromBigInt(amt)))
	h.minted.Add(h.minted, amt)
	opc := fmt.Sprintf("GOp (OBank %d %s)", h.aid(who), zb(amt))
	h.logf("bank credit acct=%d amount=%s", who, amt)
	o := h.record(opc, 0)
	h.monitor(o, "bank", nil)
}

func (h *hist) stakingCoq(blockTime int64) string {
	ctx := h.c.Ctx
	sk := h.c.App.StakingKeeper
	var vals, dels []string
	valID := map[string]int64{}
	lib.Must(sk.IterateBondedValidatorsByPower(ctx, func(_ int64, v stakingtypes.ValidatorI) bool {
		bz, err := sk.ValidatorAddressCodec().StringToBytes(v.GetOperator())
		lib.Must(err)
		id, ok := h.idOf[sdk.AccAddress(bz).String()]
		if !ok {
			id = -5
		}
		valID[v.GetOperator()] = id
		vals = append(vals, fmt.Sprintf("(%d, %s, %s)", h.aid(id), zb(v.GetBondedTokens().BigInt()), zb(v.GetDelegatorShares().BigInt())))
		return false
	}))
	for _, id := range h.ids {
		ds, err := sk.GetDelegatorDelegations(ctx, h.keys[id].Acc(), 100)
		lib.Must(err)
		for _, d := range ds {
			vid, ok := valID[d.ValidatorAddress]
			if !ok {
				vid = -6
			}
			dels = append(dels, fmt.Sprintf("(%d, %d, %s)", h.aid(id), h.aid(vid), zb(d.Shares.BigInt())))
		}
	}
	tb, err := sk.TotalBondedTokens(ctx)
	lib.Must(err)
	return fmt.Sprintf("mk_stk %s %s %s %d", lib.List(vals), lib.List(dels), zb(tb.BigInt()), blockTime)
}

func (h *hist) opEndBlock(dt time.Duration) {
	// environment control (like the switched-off inflation): whatever reached the fee collector (a crisis
	// constant fee charged to the module account) is swept away before the next block's distribution
	// begin blocker would split it between validators and the community pool
	if fc := h.c.App.BankKeeper.GetAllBalances(h.c.Ctx, authtypes.NewModuleAddress(authtypes.FeeCollectorName)); !fc.IsZero() {
		lib.Must(h.c.App.BankKeeper.SendCoinsFromModuleToAccount(h.c.Ctx, authtypes.FeeCollectorName, lib.EthKey(h.c.Seed, "c15sink", 0).Acc(), fc))
	}
	stk := h.stakingCoq(rel(h.c.Time.Add(dt)))
	before := map[string][]lib.KV{}
	for _, st := range []string{"erc20", "eth"} {
		before[st] = h.c.DumpPrefix(h.c.Ctx, st, nil)
	}
	custBefore := h.customMap()
	err := h.c.NextBlockAfter(dt)
	t := rel(h.c.Time)
	opc := fmt.Sprintf("GOp (OEndBlock %d (%s))", t, stk)
	h.logf("end block at t=%d (dt=%s) -> err=%v", t, dt, err)
	if os.Getenv("C15_DEBUG") != "" {
		sup, pool := h.supplyAndPool()
		h.logf("   supply=%s pool=%s minted=%s gov=%s acct11=%s burnprevote=%v", sup, pool, h.minted, h.c.App.BankKeeper.GetAllBalances(h.c.Ctx, h.govAcc), h.c.App.BankKeeper.GetBalance(h.c.Ctx, h.keys[11].Acc(), denomFX), h.params.BurnProposalDepositPrevote)
	}
	h.stats["endblock"]++
	if err != nil {
		h.halted = true
		h.steps = append(h.steps, "("+opc+", "+h.haltObs().coq(h.ids, h.aid)+")")
		sig := "C15:endblock-error"
		spend := h.govSendExecuted
		for _, info := range h.props {
			// a send from the module account that may have executed inside this very block
			if info.GovSend != nil && info.Activated && !info.Closed {
				spend = true
			}
		}
		if spend {
			sig = "C15:gov-account-spend:endblock-halts"
		}
		// a history may contain both a corrupted record and a spend from the module account: the halt is
		// attributed by its cause. A refund / burn that fails for lack of funds after a module-account
		// spend is the C15-2 halt; the halts of the undecodable-record branches were `collections: not
		// found` (stale queue entry) and a nil dereference
		es := err.Error()
		lacksFunds := strings.Contains(es, "insufficient funds")
		decodeHalt := strings.Contains(es, "not found") || strings.Contains(es, "nil pointer") || strings.Contains(es, "invalid memory address") || strings.Contains(es, "panic")
		if h.corrupted && !(spend && lacksFunds) && (decodeHalt || !spend) {
			sig = "C15:undecodable-proposal:endblock-halts"
		}
		h.fail(sig, fmt.Sprintf("the end blocker returned an error, the block cannot be finalized: %v", err))
		return
	}
	o := h.record(opc, 0)
	for _, p := range o.Props {
		if pp := h.propObs(p.ID); pp != nil && pp.Status != p.Status {
			h.logf("  proposal %d: status %d -> %d, tally yes=%s abstain=%s no=%s veto=%s", p.ID, pp.Status, p.Status, p.Tally[0], p.Tally[1], p.Tally[2], p.Tally[3])
		}
	}
	h.monitorEndBlock(o, before, custBefore)
	h.monitor(o, "endblock", nil)
}

// after a failed FinalizeBlock the model keeps the previous state; report that state with result -1
func (h *hist) haltObs() *obsT {
	o := *h.prev
	o.Res = -1
	return &o
}

// ---------------------------------------------------------------- monitor (property text, independent of the model)

type cpT struct {
	ratio, quorum *big.Int
	period        int64
}

func (h *hist) customMap() map[string]cpT {
	m := map[string]cpT{}
	lib.Must(h.c.App.GovKeeper.CustomerParams.Walk(h.c.Ctx, nil, func(k string, v fxgovtypes.CustomParams) (bool, error) {
		per := int64(0)
		if v.VotingPeriod != nil {
			per = int64(v.VotingPeriod.Seconds())
		}
		m[k] = cpT{decZ(v.DepositRatio), decZ(v.Quorum), per}
		return false, nil
	}))
	return m
}

// round half to even of x / 10^18, x >= 0
func roundDec(x *big.Int) *big.Int {
	q, r := new(big.Int).QuoRem(x, e18, new(big.Int))
	half := new(big.Int).Rsh(e18, 1)
	switch r.Cmp(half) {
	case 1:
		q.Add(q, big.NewInt(1))
	case 0:
		if q.Bit(0) == 1 {
			q.Add(q, big.NewInt(1))
		}
	}
	return q
}

func (h *hist) monitor(o *obsT, op string, opErr error) {
	prev := h.prev
	// (1) the module account holds exactly the deposits of open proposals
	sum := new(big.Int)
	for _, p := range o.Props {
		ps := new(big.Int)
		for _, a := range p.Deps {
			ps.Add(ps, a)
		}
		open := p.Status == 1 || p.Status == 2
		if open && ps.Cmp(p.Total) != 0 {
			h.fail("C15:total-vs-records", fmt.Sprintf("proposal %d: TotalDeposit %s but its deposit records sum to %s", p.ID, p.Total, ps))
		}
		sum.Add(sum, ps)
	}
	if o.Stray > 0 {
		straySig := "C15:stray-deposit-records"
		if h.govSendExecuted {
			straySig = "C15:gov-account-spend:stray-record" // a pledge into the very proposal being executed
		}
		h.fail(straySig, fmt.Sprintf("%d deposit records belong to proposals that are not open", o.Stray))
	}
	if o.Gov.Cmp(sum) != 0 || len(o.GovOther) > 0 {
		sig := "C15:conservation"
		if h.govSendExecuted {
			sig = "C15:gov-account-spend:conservation"
		}
		h.fail(sig, fmt.Sprintf("governance module account holds %s FX (+%s) but open proposals' deposits sum to %s", o.Gov, o.GovOther, sum))
	}
	// (1b) the queues hold exactly the proposals in their deposit / voting period, keyed by the
	// proposal's own deposit end / voting end time: a stale or missing entry means the end blocker
	// will close the wrong proposal, close it at the wrong time, or fail
	{
		wantIn, wantAct := map[uint64]int64{}, map[uint64]int64{}
		for _, p := range o.Props {
			switch p.Status {
			case 1:
				wantIn[p.ID] = p.DepEndNs
			case 2:
				wantAct[p.ID] = p.VEndNs
			}
		}
		chk := func(name string, want map[uint64]int64, got map[uint64][]int64) {
			for id, ks := range got {
				w, ok := want[id]
				if !ok || len(ks) != 1 || ks[0] != w {
					qsig := "C15:queue-inconsistent"
					if h.corruptIDs[id] {
						qsig = "C15:undecodable-proposal:stale-queue-entry"
					}
					h.fail(qsig, fmt.Sprintf("%s queue has entries %v for proposal %d (expected: %v at %d)", name, ks, id, ok, w))
				}
			}
			for id, w := range want {
				if len(got[id]) == 0 {
					h.fail("C15:queue-inconsistent", fmt.Sprintf("proposal %d is missing from the %s queue (its period ends at %d)", id, name, w))
				}
			}
		}
		chk("inactive", wantIn, o.InactKey)
		chk("active", wantAct, o.ActKey)
	}
	// (2) activation only at or above the applicable minimum; voting period as configured for the type
	cust := h.customMap()
	prevBy := map[uint64]*pObs{}
	for _, p := range prev.Props {
		prevBy[p.ID] = p
	}
	for _, p := range o.Props {
		info := h.props[p.ID]
		if info == nil {
			continue
		}
		pp := prevBy[p.ID]
		activatedNow := p.Status == 2 && (pp == nil || pp.Status == 1)
		if activatedNow {
			info.Activated = true
			h.stats["activated"]++
			min := h.params.MinDeposit[0].Amount.BigInt()
			if p.Expedited {
				min = h.params.ExpeditedMinDeposit[0].Amount.BigInt()
			}
			if p.Total.Cmp(min) < 0 {
				h.fail("C15:activation-below-minimum", fmt.Sprintf("proposal %d entered voting with %s < minimum %s", p.ID, p.Total, min))
			}
			if info.AllEGF {
				if cp, ok := cust[typeURL[tyEGF]]; ok && cp.ratio.Sign() > 0 {
					share := roundDec(new(big.Int).Mul(info.ReqFX, cp.ratio))
					if share.Cmp(min) > 0 && p.Total.Cmp(share) < 0 {
						h.fail("C15:custom-params-ignored:egf-share", fmt.Sprintf("community-pool spend proposal %d (requests %s) entered voting with %s < configured share %s", p.ID, info.ReqFX, p.Total, share))
					}
				}
			}
			want := int64(h.params.VotingPeriod.Seconds())
			if p.Expedited {
				want = int64(h.params.ExpeditedVotingPeriod.Seconds())
			}
			if cp, ok := cust[typeKey(info)]; ok {
				want = cp.period
			}
			{
				stored := int64(h.params.VotingPeriod.Seconds())
				if p.Expedited {
					stored = int64(h.params.ExpeditedVotingPeriod.Seconds())
				}
				if cp, ok := cust[h.liveKey(info)]; ok {
					stored = cp.period
				}
				if got := p.VEnd - p.VStart; got != stored {
					h.fail("C15:stored-period-not-used", fmt.Sprintf("proposal %d (%v) got voting period %ds; in force for its lookup key %q: %ds", p.ID, info.URLs, got, h.liveKey(info), stored))
				}
			}
			if got := p.VEnd - p.VStart; got != want {
				sig := "C15:voting-period"
				if _, ok := cust[typeKey(info)]; ok {
					sig = "C15:custom-params-ignored:period"
				}
				if _, ok := cust[typeURL[tyAny]]; ok {
					sig = "C15:custom-params-ignored:period-any-key"
				}
				h.fail(sig, fmt.Sprintf("proposal %d (%v) got voting period %ds, configured for its type: %ds", p.ID, info.URLs, got, want))
			}
		}
		if p.Status == 1 && pp != nil && pp.Status != 1 {
			h.fail("C15:status-regressed", fmt.Sprintf("proposal %d went back to the deposit period", p.ID))
		}
	}
	openTypes := map[string]bool{}
	for _, p := range o.Props {
		if p.Status == 1 || p.Status == 2 {
			if len(p.URLs) > 0 {
				openTypes[p.URLs[0]] = true
			} else {
				openTypes[""] = true
			}
		}
	}
	if len(openTypes) > h.maxOpenTypes {
		h.maxOpenTypes = len(openTypes)
	}
	// (3) payout exactly once, in the closing step (cancel; end-block closings are checked in monitorEndBlock)
	if op != "endblock" {
		h.checkPayout(prev, o, op)
	}
	h.prev = o
}

// checkPayout: every proposal that was open before and is not open now must have paid each deposit
// record exactly once (refund xor burn; for a cancellation: refund of the uncharged part), and
// nobody else's balance may have moved because of it.
func (h *hist) checkPayout(prev, o *obsT, op string) {
	nowBy := map[uint64]*pObs{}
	for _, p := range o.Props {
		nowBy[p.ID] = p
	}
	var closing []*pObs
	for _, p := range prev.Props {
		if p.Status != 1 && p.Status != 2 {
			continue
		}
		q := nowBy[p.ID]
		if q == nil || (q.Status != 1 && q.Status != 2) {
			closing = append(closing, p)
		}
	}
	delta := map[int64]*big.Int{}
	for _, id := range h.ids {
		delta[id] = new(big.Int).Sub(o.Bals[id], prev.Bals[id])
	}
	if len(closing) == 0 {
		return
	}
	for _, p := range closing {
		info := h.props[p.ID]
		if info != nil {
			info.Closed = true
			// the harness's own record of who deposited what must match the stored records being paid
			for who, a := range info.Deposits {
				if a.Sign() == 0 {
					continue
				}
				if p.Deps[who] == nil || p.Deps[who].Cmp(a) != 0 {
					h.fail("C15:deposit-record-lost", fmt.Sprintf("proposal %d: account %d deposited %s, record shows %v", p.ID, who, a, p.Deps[who]))
				}
			}
		}
		h.stats["closed"]++
	}
	if op == "cancel" {
		p := closing[0]
		rate := decZ(h.params.ProposalCancelRatio)
		charges := new(big.Int)
		want := map[int64]*big.Int{}
		for who, a := range p.Deps {
			ch := new(big.Int).Quo(new(big.Int).Mul(a, rate), e18)
			charges.Add(charges, ch)
			want[who] = new(big.Int).Sub(a, ch)
		}
		if id, ok := h.idOf[h.params.ProposalCancelDest]; ok && h.params.ProposalCancelDest != "" {
			if want[id] == nil {
				want[id] = new(big.Int)
			}
			want[id].Add(want[id], charges)
		}
		for _, id := range h.ids {
			w := want[id]
			if w == nil {
				w = new(big.Int)
			}
			if delta[id].Cmp(w) != 0 {
				h.fail("C15:payout:cancel", fmt.Sprintf("cancelled proposal %d: account %d balance moved by %s, expected %s", p.ID, id, delta[id], w))
			}
		}
		return
	}
}

func (h *hist) monitorEndBlock(o *obsT, before map[string][]lib.KV, custBefore map[string]cpT) {
	prev := h.prev
	nowBy := map[uint64]*pObs{}
	for _, p := range o.Props {
		nowBy[p.ID] = p
	}
	var closing []*pObs
	for _, p := range prev.Props {
		if p.Status != 1 && p.Status != 2 {
			continue
		}
		q := nowBy[p.ID]
		if q == nil || (q.Status != 1 && q.Status != 2) {
			closing = append(closing, p)
		}
	}
	delta := map[int64]*big.Int{}
	for _, id := range h.ids {
		delta[id] = new(big.Int).Sub(o.Bals[id], prev.Bals[id])
	}
	// receipts of executed governance sends
	passedKinds := map[string]int{}
	for _, p := range closing {
		q := nowBy[p.ID]
		info := h.props[p.ID]
		if info == nil {
			continue
		}
		info.Closed = true
		h.stats["closed"]++
		if q != nil {
			h.stats[fmt.Sprintf("final-status=%d", q.Status)]++
		} else {
			h.stats["final-status=dropped"]++
		}
		for who, a := range info.Deposits {
			if a.Sign() == 0 {
				continue
			}
			if p.Deps[who] == nil || p.Deps[who].Cmp(a) != 0 {
				h.fail("C15:deposit-record-lost", fmt.Sprintf("proposal %d: account %d deposited %s, record shows %v", p.ID, who, a, p.Deps[who]))
			}
		}
		if q != nil && q.Status == 3 {
			passedKinds[info.Kind]++
			if info.GovSend != nil {
				h.govSendExecuted = true
			}
		}
	}
	// payout: some assignment refund/burn per closing proposal explains every tracked balance
	if len(closing) > 0 && len(closing) <= 10 {
		okAssign := false
		for mask := 0; mask < 1<<len(closing) && !okAssign; mask++ {
			want := map[int64]*big.Int{}
			for _, id := range h.ids {
				want[id] = new(big.Int)
			}
			for i, p := range closing {
				if mask&(1<<i) != 0 {
					for who, a := range p.Deps {
						if want[who] != nil {
							want[who].Add(want[who], a)
						}
					}
				}
			}
			// an executed send from the module account credits its recipient
			for _, p := range closing {
				q := nowBy[p.ID]
				info := h.props[p.ID]
				if info != nil && q != nil && q.Status == 3 && info.Kind == "send" {
					to := info.sendTo
					if want[to] != nil {
						want[to].Add(want[to], info.GovSend)
					}
				}
			}
			good := true
			for _, id := range h.ids {
				if delta[id].Cmp(want[id]) != 0 {
					good = false
					break
				}
			}
			okAssign = good
		}
		if !okAssign {
			h.fail("C15:payout:endblock", fmt.Sprintf("closing proposals %v: account balance changes %v are not 'each deposit refunded or burned exactly once'", ids(closing), delta))
		}
	} else if len(closing) == 0 {
		for _, id := range h.ids {
			if delta[id].Sign() != 0 {
				h.fail("C15:payout:unexpected", fmt.Sprintf("no proposal closed but account %d moved by %s", id, delta[id]))
			}
		}
	}
	// a stored record that does not decode any more: the designated outcome of the end blocker's
	// ErrEncoding branches (regression expectation since the repair e5a1e24 of finding C15-3)
	for _, p := range closing {
		if !p.Undecodable {
			continue
		}
		q := nowBy[p.ID]
		switch {
		case p.Status == 1 && q != nil:
			h.fail("C15:undecodable-proposal:outcome", fmt.Sprintf("undecodable proposal %d left its deposit period but is still stored with status %d", p.ID, q.Status))
		case p.Status == 2 && (q == nil || q.Status != 5):
			h.fail("C15:undecodable-proposal:outcome", fmt.Sprintf("undecodable proposal %d left its voting period without being recorded as failed", p.ID))
		}
	}
	for _, p := range prev.Props {
		// ... and it must leave when its period is over, not stay in the queue
		if p.Undecodable && (p.Status == 1 && p.DepEnd <= rel(h.c.Time) || p.Status == 2 && p.VEnd <= rel(h.c.Time)) {
			if q := nowBy[p.ID]; q != nil && q.Undecodable {
				h.fail("C15:undecodable-proposal:outcome", fmt.Sprintf("undecodable proposal %d is still queued after its period ended", p.ID))
			}
		}
	}
	// a proposal leaves its deposit / voting period through the end blocker only when that period is over
	blockT := rel(h.c.Time)
	for _, p := range closing {
		if p.Status == 2 && blockT < p.VEnd {
			h.fail("C15:voting-cut-short", fmt.Sprintf("proposal %d was in voting until %d but the end blocker at %d closed it", p.ID, p.VEnd, blockT))
		}
		if p.Status == 1 && blockT < p.DepEnd {
			h.fail("C15:deposit-period-cut-short", fmt.Sprintf("proposal %d could be funded until %d but the end blocker at %d removed it", p.ID, p.DepEnd, blockT))
		}
	}
	// tally: quorum configured for the type at this moment
	for _, p := range prev.Props {
		if p.Status != 2 {
			continue
		}
		q := nowBy[p.ID]
		info := h.props[p.ID]
		if q == nil || info == nil {
			continue
		}
		tallied := q.Status != 2 || (p.Expedited && !q.Expedited)
		if !tallied {
			continue
		}
		if p.Undecodable {
			continue // closed by failUnsupportedProposal, not by a tally
		}
		h.stats["tallied"]++
		h.checkQuorum(p, q, info, custBefore)
		if p.Expedited && !q.Expedited && q.Status == 2 {
			h.stats["expedited-converted"]++
			want := int64(h.params.VotingPeriod.Seconds())
			if cp, ok := custBefore[typeKey(info)]; ok {
				want = cp.period
			}
			if got := q.VEnd - q.VStart; got != want {
				h.fail("C15:custom-params-ignored:period-converted", fmt.Sprintf("converted expedited proposal %d got voting period %ds, configured for its type: %ds", p.ID, got, want))
			}
		}
	}
	// a passed proposal whose message fails: nothing of it may survive
	for _, p := range closing {
		q := nowBy[p.ID]
		info := h.props[p.ID]
		if q == nil || info == nil {
			continue
		}
		if info.HasFail && q.Status == 3 {
			h.fail("C15:failing-message-passed", fmt.Sprintf("proposal %d has a message that cannot succeed but ended as passed", p.ID))
		}
		if q.Status != 5 {
			continue
		}
		h.stats["failed-on-execution"]++
		if info.OkBefore {
			h.stats["failed-after-ok-message"]++
		}
		for _, rc := range info.Rcpt {
			if b := h.c.App.BankKeeper.GetAllBalances(h.c.Ctx, rc); !b.IsZero() {
				h.fail("C15:partial-execution", fmt.Sprintf("failed proposal %d: spend recipient holds %s", p.ID, b))
			}
		}
		switch info.Kind {
		case "toggle-fail":
			if passedKinds["toggle"] == 0 {
				if d := diffKV(before["erc20"], h.c.DumpPrefix(h.c.Ctx, "erc20", nil)); d != "" {
					h.fail("C15:partial-execution", fmt.Sprintf("failed proposal %d left writes in the erc20 store: %s", p.ID, d))
				}
			}
		}
	}
	if passedKinds["xparams"] == 0 {
		if d := diffKV(before["eth"], h.c.DumpPrefix(h.c.Ctx, "eth", nil)); d != "" {
			// only meaningful when nothing legitimately wrote there; crosschain end blocker is idle without oracles
			h.fail("C15:unexpected-store-write", "eth store changed in a block without a passed crosschain proposal: "+d)
		}
	}
	if passedKinds["toggle"] == 0 {
		if d := diffKV(before["erc20"], h.c.DumpPrefix(h.c.Ctx, "erc20", nil)); d != "" {
			h.fail("C15:partial-execution", "erc20 store changed in a block without a passed erc20 proposal: "+d)
		}
	}
}

func ids(ps []*pObs) []uint64 {
	var r []uint64
	for _, p := range ps {
		r = append(r, p.ID)
	}
	return r
}

func diffKV(a, b []lib.KV) string {
	am := map[string]string{}
	for _, kv := range a {
		am[string(kv.K)] = string(kv.V)
	}
	n := 0
	first := ""
	for _, kv := range b {
		if v, ok := am[string(kv.K)]; !ok || v != string(kv.V) {
			n++
			if first == "" {
				first = fmt.Sprintf("%x", kv.K)
			}
		}
		delete(am, string(kv.K))
	}
	for k := range am {
		n++
		if first == "" {
			first = fmt.Sprintf("-%x", k)
		}
	}
	if n == 0 {
		return ""
	}
	return fmt.Sprintf("%d keys differ, e.g. %s", n, first)
}

// checkQuorum recomputes the verdict from the stored tally with the quorum configured for the
// proposal's message type and compares it with what happened.
// liveKey: the key under which the tree under test looks up a proposal's custom parameters (what
// getProposalMsgType returns): with the lookup as it is, "/google.protobuf.Any" for every proposal
// that has messages and "" for a metadata-only one; with the intended lookup, the first message's URL.
// typeKey: the key a proposal's message type is configured under — its first message's type URL,
// and the empty key for a proposal without messages (that is what getProposalMsgType returns for it
// under either reading of the lookup)
func typeKey(info *propInfo) string {
	if len(info.URLs) == 0 {
		return ""
	}
	return info.URLs[0]
}

func (h *hist) liveKey(info *propInfo) string {
	if len(info.URLs) == 0 {
		return ""
	}
	if h.fixed {
		return info.URLs[0]
	}
	return typeURL[tyAny]
}

func (h *hist) checkQuorum(p, q *pObs, info *propInfo, cust map[string]cpT) {
	tb, err := h.c.App.StakingKeeper.TotalBondedTokens(h.c.Ctx)
	lib.Must(err)
	if tb.IsZero() {
		return
	}
	yes, abst, no, veto := q.Tally[0], q.Tally[1], q.Tally[2], q.Tally[3]
	total := new(big.Int).Add(new(big.Int).Add(yes, abst), new(big.Int).Add(no, veto))
	verdict := func(quorum *big.Int) (pass bool, near bool) {
		// percent = total / bonded  (the stored counts are truncated: allow 8 base units of slack)
		lhs := new(big.Int).Mul(total, e18)
		rhs := new(big.Int).Mul(quorum, tb.BigInt())
		diff := new(big.Int).Sub(lhs, rhs)
		slack := new(big.Int).Mul(big.NewInt(16), e18)
		if new(big.Int).Abs(diff).Cmp(slack) <= 0 {
			near = true
		}
		if diff.Sign() < 0 {
			return false, near
		}
		nonAbst := new(big.Int).Sub(total, abst)
		if nonAbst.Sign() == 0 {
			return false, near
		}
		vt := decZ(h.params.VetoThreshold)
		if new(big.Int).Mul(veto, e18).Cmp(new(big.Int).Mul(vt, total)) > 0 {
			return false, near
		}
		th := decZ(h.params.Threshold)
		if p.Expedited {
			th = decZ(h.params.ExpeditedThreshold)
		}
		l := new(big.Int).Mul(yes, e18)
		r := new(big.Int).Mul(th, nonAbst)
		d2 := new(big.Int).Sub(l, r)
		if new(big.Int).Abs(d2).Cmp(slack) <= 0 {
			near = true
		}
		return d2.Sign() > 0, near
	}
	defQ := decZ(h.params.Quorum)
	typeQ := defQ
	configured := false
	if cp, ok := cust[typeKey(info)]; ok {
		typeQ = cp.quorum
		configured = true
	}
	passed := q.Status == 3 || q.Status == 5
	// whatever key the lookup derives: the outcome follows the quorum STORED under it (any valid
	// value, 0 and 1 included), and the default only when nothing is stored
	storedQ, stored := defQ, false
	if cp, ok := cust[h.liveKey(info)]; ok {
		storedQ, stored = cp.quorum, true
	}
	if w, nr := verdict(storedQ); !nr && w != passed {
		h.fail("C15:stored-quorum-not-used", fmt.Sprintf("proposal %d (%v): tally yes=%s abstain=%s no=%s veto=%s of %s bonded; the quorum in force for its lookup key %q is %s (stored=%v, default %s): it should pass=%v, it ended with status %d",
			p.ID, info.URLs, yes, abst, no, veto, tb, h.liveKey(info), storedQ, stored, defQ, w, q.Status))
	}
	want, near := verdict(typeQ)
	if near {
		return
	}
	if want != passed {
		sig := "C15:tally-verdict"
		if alt, _ := verdict(defQ); configured && alt == passed {
			sig = "C15:custom-params-ignored:quorum"
		} else if cp, ok := cust[typeURL[tyAny]]; ok {
			if alt, _ := verdict(cp.quorum); alt == passed {
				sig = "C15:custom-params-ignored:quorum-any-key"
			}
		}
		h.fail(sig, fmt.Sprintf("proposal %d (%v): tally yes=%s abstain=%s no=%s veto=%s of %s bonded; with the quorum configured for its type (%s) it should pass=%v, it ended with status %d",
			p.ID, info.URLs, yes, abst, no, veto, tb, typeQ, want, q.Status))
	}
}

// ---------------------------------------------------------------- generator

func (h *hist) openIDs(status int) []uint64 {
	var r []uint64
	for _, p := range h.prev.Props {
		if status == 0 && (p.Status == 1 || p.Status == 2) || p.Status == status {
			r = append(r, p.ID)
		}
	}
	return r
}

func (h *hist) propObs(id uint64) *pObs {
	for _, p := range h.prev.Props {
		if p.ID == id {
			return p
		}
	}
	return nil
}

func (h *hist) pickKind() string {
	r := h.r
	kinds := []string{"text", "text", "egf", "egf", "xparams", "xparams", "toggle", "toggle", "toggle-fail", "toggle-fail", "egf-fail", "egf-fail", "send-fail", "none", "mixed", "mixed-samename", "badsigner", "text-legacy", "text-legacy", "legacy-unrouted"}
	if h.class == "govsend" {
		kinds = append(kinds, "send", "send", "send", "send")
	}
	return kinds[r.Intn(len(kinds))]
}

func (h *hist) minFor(expedited bool) *big.Int {
	if expedited {
		return h.params.ExpeditedMinDeposit[0].Amount.BigInt()
	}
	return h.params.MinDeposit[0].Amount.BigInt()
}

func (h *hist) genSubmit() {
	r := h.r
	if h.class == "govsend" && r.Chance(12) {
		// the other shapes of "the module account spends what it holds for others"
		proposer := int64(10 + r.Intn(6))
		min := h.minFor(false)
		if r.Chance(60) {
			// a pledge into an existing open proposal, into the next one to be submitted, or into itself
			target := uint64(len(h.prev.Props) + 1 + r.Intn(2))
			if open := h.openIDs(0); len(open) > 0 && r.Chance(60) {
				target = open[r.Intn(len(open))]
			}
			amount := new(big.Int).Quo(new(big.Int).Mul(min, big.NewInt(int64(1+r.Intn(9)))), big.NewInt(20))
			h.opSubmitGovDeposit(proposer, target, amount, min)
		} else if r.Chance(50) {
			h.opSubmitCrisis(proposer, "gov", "module-account", min)
		} else {
			h.opSubmitCrisis(proposer, "bank", "nonnegative-outstanding", min)
		}
		return
	}
	kind := h.pickKind()
	expedited := r.Chance(18)
	proposer := int64(10 + r.Intn(6))
	min := h.minFor(expedited)
	var amt *big.Int
	switch r.Intn(8) {
	case 0:
		amt = new(big.Int).Set(min) // activates at once
	case 1:
		amt = new(big.Int).Sub(min, big.NewInt(1))
	case 2:
		amt = new(big.Int)
	case 3: // around the per-deposit threshold
		th := new(big.Int).Quo(new(big.Int).Mul(min, decZ(h.params.MinDepositRatio)), e18)
		amt = th.Add(th, big.NewInt(int64(r.Intn(3)-1)))
	case 4: // around the initial-deposit requirement
		th := roundDec(new(big.Int).Mul(min, decZ(h.params.MinInitialDepositRatio)))
		amt = th.Add(th, big.NewInt(int64(r.Intn(3)-1)))
	case 5:
		amt = new(big.Int).Mul(min, big.NewInt(2))
	default:
		amt = new(big.Int).Quo(new(big.Int).Mul(min, big.NewInt(int64(1+r.Intn(9)))), big.NewInt(10))
	}
	if amt.Sign() < 0 {
		amt = new(big.Int)
	}
	h.opSubmit(kind, proposer, amt, expedited, r.Chance(4))
}

func (h *hist) genDeposit() {
	r := h.r
	open := h.openIDs(0)
	var pid uint64
	switch {
	case len(open) > 0 && !r.Chance(8):
		pid = open[r.Intn(len(open))]
	case len(h.prev.Props) > 0 && r.Chance(50):
		pid = h.prev.Props[r.Intn(len(h.prev.Props))].ID // possibly finished
	default:
		pid = uint64(1 + r.Intn(12)) // possibly unknown / removed
	}
	who := int64(10 + r.Intn(6))
	if r.Chance(15) {
		who = int64(r.Intn(3))
	}
	p := h.propObs(pid)
	min := h.minFor(p != nil && p.Expedited)
	var amt *big.Int
	missing := new(big.Int).Set(min)
	if p != nil {
		missing.Sub(min, p.Total)
	}
	if info := h.props[pid]; info != nil && info.AllEGF && r.Chance(50) {
		// aim at the configured share of the requested amount instead
		if cp, ok := h.customMap()[typeURL[tyEGF]]; ok {
			share := roundDec(new(big.Int).Mul(info.ReqFX, cp.ratio))
			if p != nil && share.Cmp(min) > 0 {
				missing.Sub(share, p.Total)
			}
		}
	}
	switch r.Intn(8) {
	case 0, 1:
		amt = new(big.Int).Set(missing) // exactly reaches the minimum
	case 2:
		amt = new(big.Int).Sub(missing, big.NewInt(1)) // one below
	case 3:
		th := new(big.Int).Quo(new(big.Int).Mul(min, decZ(h.params.MinDepositRatio)), e18)
		amt = th.Add(th, big.NewInt(int64(r.Intn(3)-1)))
	case 4:
		amt = new(big.Int).Add(missing, fxAmt(int64(r.Intn(500))))
	case 5:
		amt = fxAmt(100_000_000) // more than anybody has
	default:
		amt = new(big.Int).Quo(new(big.Int).Mul(min, big.NewInt(int64(1+r.Intn(6)))), big.NewInt(10))
	}
	if amt.Sign() <= 0 {
		if r.Chance(70) {
			amt = new(big.Int).Quo(min, big.NewInt(5))
		} else {
			amt = new(big.Int)
		}
	}
	h.opDeposit(pid, who, amt, r.Chance(4))
}

func (h *hist) genVote() {
	r := h.r
	voting := h.openIDs(2)
	var pid uint64
	if len(voting) > 0 && !r.Chance(6) {
		pid = voting[r.Intn(len(voting))]
	} else {
		pid = uint64(1 + r.Intn(10))
	}
	who := int64(r.Intn(3))
	if r.Chance(45) {
		who = int64(10 + r.Intn(6))
	}
	if !r.Chance(30) {
		opt := []int{1, 1, 1, 1, 3, 2, 4}[r.Intn(7)]
		if r.Chance(3) {
			opt = 0
		}
		h.opVote(pid, who, [][2]string{{fmt.Sprint(opt), e18.String()}}, false)
		return
	}
	// weighted
	n := 2 + r.Intn(3)
	perm := r.Perm(4)
	var opts [][2]string
	left := new(big.Int).Set(e18)
	for i := 0; i < n; i++ {
		var w *big.Int
		if i == n-1 {
			w = new(big.Int).Set(left)
		} else {
			w = new(big.Int).Quo(new(big.Int).Mul(left, big.NewInt(int64(1+r.Intn(8)))), big.NewInt(10))
			if r.Chance(30) {
				w.Add(w, big.NewInt(int64(r.Intn(1000))))
			}
			left.Sub(left, w)
		}
		opts = append(opts, [2]string{fmt.Sprint(perm[i] + 1), w.String()})
	}
	switch r.Intn(12) {
	case 0: // weights do not add up
		w, _ := new(big.Int).SetString(opts[0][1], 10)
		opts[0][1] = w.Add(w, big.NewInt(1)).String()
	case 1: // duplicate option
		opts[1][0] = opts[0][0]
	}
	h.opVote(pid, who, opts, true)
}

// a voting campaign: most validators and delegators vote on one proposal, so that proposals
// actually pass, get vetoed, or end near the quorum
func (h *hist) genCampaign() {
	r := h.r
	voting := h.openIDs(2)
	if len(voting) == 0 {
		h.genVote()
		return
	}
	pid := voting[r.Intn(len(voting))]
	mood := r.Intn(100)
	turnout := []int{100, 90, 60, 35}[r.Intn(4)]
	for _, who := range []int64{0, 1, 2, 10, 11, 12, 13} {
		if !r.Chance(turnout) || h.halted {
			continue
		}
		opt := 1
		switch {
		case mood < 60:
			if r.Chance(12) {
				opt = []int{2, 3, 4}[r.Intn(3)]
			}
		case mood < 75:
			opt = 4
			if r.Chance(30) {
				opt = 1
			}
		default:
			opt = 1 + r.Intn(4)
		}
		if r.Chance(20) {
			other := 1 + (opt % 4)
			w := new(big.Int).Quo(new(big.Int).Mul(e18, big.NewInt(int64(1+r.Intn(9)))), big.NewInt(10))
			rest := new(big.Int).Sub(e18, w)
			h.opVote(pid, who, [][2]string{{fmt.Sprint(opt), w.String()}, {fmt.Sprint(other), rest.String()}}, true)
		} else {
			h.opVote(pid, who, [][2]string{{fmt.Sprint(opt), e18.String()}}, false)
		}
	}
}

// the deposit that completes the minimum lands in the block whose time is just before / exactly
// at / just after the end of the deposit period
func (h *hist) genDeadlineDeposit() {
	r := h.r
	var cands []*pObs
	nowT := rel(h.c.Time)
	for _, p := range h.prev.Props {
		if p.Status == 1 && p.DepEnd > nowT+12 {
			cands = append(cands, p)
		}
	}
	if len(cands) == 0 {
		h.genSubmit()
		return
	}
	p := cands[r.Intn(len(cands))]
	h.deadlineDeposit(p.ID, []int64{6, 5, 5, 4, 4, 1}[r.Intn(6)], int64(10+r.Intn(6)), r.Chance(80))
}

// advance so that the next block's time is DepositEndTime - k + 5 s (k = 5: exactly the deadline),
// deposit what is missing in that block, and run its end blocker
func (h *hist) deadlineDeposit(pid uint64, k int64, who int64, complete bool) {
	p := h.propObs(pid)
	if p == nil || p.Status != 1 {
		return
	}
	dt := p.DepEnd - k - rel(h.c.Time)
	if dt < 5 {
		return
	}
	h.opEndBlock(time.Duration(dt) * time.Second)
	if h.halted {
		return
	}
	p = h.propObs(pid)
	if p == nil || p.Status != 1 {
		return
	}
	missing := new(big.Int).Sub(h.minFor(p.Expedited), p.Total)
	if !complete {
		missing.Sub(missing, big.NewInt(1))
	}
	th := new(big.Int).Quo(new(big.Int).Mul(h.minFor(p.Expedited), decZ(h.params.MinDepositRatio)), e18)
	if missing.Cmp(th) < 0 {
		missing = th
	}
	if missing.Sign() <= 0 {
		missing = big.NewInt(1)
	}
	if bal := h.prev.Bals[who]; bal != nil && bal.Cmp(missing) < 0 {
		h.opMint(who, missing)
	}
	h.opDeposit(pid, who, missing, false)
	h.opEndBlock(lib.BlockStep)
}

// an expedited proposal runs into the end of its (expedited) voting period, and its proposer
// cancels it in the following block
func (h *hist) genExpeditedEnd() {
	r := h.r
	var cands []*pObs
	nowT := rel(h.c.Time)
	for _, p := range h.prev.Props {
		if p.Status == 2 && p.Expedited && p.VEnd > nowT+5 {
			cands = append(cands, p)
		}
	}
	if len(cands) == 0 {
		h.opSubmit("text", int64(10+r.Intn(6)), h.minFor(true), true, false)
		return
	}
	p := cands[r.Intn(len(cands))]
	h.expeditedEnd(p.ID, r.Chance(60), r.Chance(50))
}

func (h *hist) expeditedEnd(pid uint64, cancel, sameBlockStep bool) {
	p := h.propObs(pid)
	if p == nil || p.Status != 2 {
		return
	}
	dt := p.VEnd - rel(h.c.Time)
	if dt < 5 {
		dt = 5
	}
	h.opEndBlock(time.Duration(dt) * time.Second)
	if h.halted {
		return
	}
	if cancel {
		if info := h.props[pid]; info != nil {
			h.opCancel(pid, info.Proposer)
		}
	}
	if sameBlockStep {
		h.opEndBlock(lib.BlockStep)
	} else {
		h.opEndBlock(time.Hour)
	}
}

func (h *hist) genCancel() {
	r := h.r
	open := h.openIDs(0)
	if len(open) == 0 {
		h.opCancel(uint64(1+r.Intn(5)), int64(10+r.Intn(6)))
		return
	}
	pid := open[r.Intn(len(open))]
	who := int64(10 + r.Intn(6))
	if info := h.props[pid]; info != nil && !r.Chance(20) {
		who = info.Proposer
	}
	h.opCancel(pid, who)
}

func (h *hist) genCustom() {
	r := h.r
	// the keys that are live with the lookup as it is ("/google.protobuf.Any", "") get half of the weight
	key := []int{tyEGF, tyEGF, tyToggle, tyText, tySend, tyXParams, tyAny, tyAny, tyAny, tyAny, tyNone, tyNone}[r.Intn(12)]
	if h.class == "plain" {
		// no per-type configuration in this class: only requests that must be refused
		d := 24 * time.Hour
		if r.Chance(50) {
			h.opCustom(false, key, &fxgovtypes.CustomParams{DepositRatio: "0.1", VotingPeriod: &d, Quorum: "0.1"})
		} else {
			h.opCustom(true, key, &fxgovtypes.CustomParams{DepositRatio: "0.1", VotingPeriod: &d, Quorum: "1.5"})
		}
		return
	}
	if r.Chance(20) {
		h.opCustom(!r.Chance(15), key, nil)
		return
	}
	d := []time.Duration{time.Second, time.Hour, 6 * time.Hour, 24 * time.Hour, 5 * 24 * time.Hour, 14 * 24 * time.Hour, 20 * 24 * time.Hour}[r.Intn(7)]
	cp := &fxgovtypes.CustomParams{
		DepositRatio: []string{"0", "0.1", "0.1", "0.5", "0.000001", "1", "0.000000000000000001"}[r.Intn(7)],
		VotingPeriod: &d,
		// every boundary of [0,1]: exactly 0, the smallest positive Dec, exactly 1
		Quorum: []string{"0", "0", "0.000000000000000001", "0.1", "0.25", "0.4", "0.9", "1"}[r.Intn(8)],
	}
	if r.Chance(6) {
		cp.Quorum = "1.5"
	}
	h.opCustom(!r.Chance(12), key, cp)
}

func (h *hist) genEndBlock() {
	r := h.r
	var dt time.Duration
	// often: exactly to the next queue deadline, or one second short of it
	var next int64 = -1
	for _, p := range h.prev.Props {
		var end int64 = -1
		if p.Status == 2 {
			end = p.VEnd
		}
		if end >= 0 && (next < 0 || end < next) {
			next = end
		}
	}
	nowT := rel(h.c.Time)
	switch {
	case next > nowT+10 && r.Chance(45):
		dt = time.Duration(next-nowT) * time.Second
		if r.Chance(25) {
			dt -= time.Second
		} else if r.Chance(20) {
			dt += time.Duration(1+r.Intn(3600)) * time.Second
		}
	case r.Chance(30):
		dt = lib.BlockStep
	default:
		dt = []time.Duration{time.Hour, 7 * time.Hour, 24 * time.Hour, 3 * 24 * time.Hour, 15 * 24 * time.Hour}[r.Intn(5)]
	}
	if dt < lib.BlockStep {
		dt = lib.BlockStep
	}
	h.opEndBlock(dt)
}

func (h *hist) run(nops int) {
	r := h.r
	for i := 0; i < nops && !h.halted; i++ {
		x := r.Intn(100)
		nOpen := len(h.openIDs(0))
		switch {
		case x < 16 || (nOpen < 2 && x < 40):
			h.genSubmit()
		case x < 40:
			h.genDeposit()
		case x < 52:
			h.genVote()
		case x < 60:
			h.genCampaign()
		case x < 64:
			h.genCancel()
		case x < 70:
			h.genDeposit()
		case x < 76:
			h.genCustom()
		case x < 78:
			if r.Chance(60) {
				h.genDeadlineDeposit()
			} else {
				h.genExpeditedEnd()
			}
		case x < 80:
			if open := h.openIDs(0); h.class == "govsend" && len(open) > 0 && r.Chance(25) {
				// a stored record becomes undecodable (finding C15-3, repaired in e5a1e24: refund and FAILED / removal)
				if p := h.propObs(open[r.Intn(len(open))]); p != nil && !p.Undecodable {
					h.opCorrupt(p.ID)
				}
			} else if r.Chance(70) {
				h.genGovParams()
			} else {
				h.opMint(int64(10+r.Intn(6)), fxAmt(int64(1+r.Intn(1000))))
			}
		default:
			h.genEndBlock()
		}
	}
	// drain: let everything still open run to its end
	for k := 0; k < 4 && !h.halted && len(h.openIDs(0)) > 0; k++ {
		h.opEndBlock(16 * 24 * time.Hour)
	}
}

func (h *hist) paramsCoq() string {
	p := h.params
	dest := "DBurn"
	switch {
	case p.ProposalCancelDest == "":
	case p.ProposalCancelDest == authtypes.NewModuleAddress(distrtypes.ModuleName).String():
		dest = "DPool"
	default:
		dest = fmt.Sprintf("(DAcct %d)", h.aid(h.idOf[p.ProposalCancelDest]))
	}
	return fmt.Sprintf("(mk_params %s %s %d %d %d %s %s %s %s %s %s %s %s %s %s %s)",
		zb(p.MinDeposit[0].Amount.BigInt()), zb(p.ExpeditedMinDeposit[0].Amount.BigInt()),
		int64(p.MaxDepositPeriod.Seconds()), int64(p.VotingPeriod.Seconds()), int64(p.ExpeditedVotingPeriod.Seconds()),
		zb(decZ(p.Quorum)), zb(decZ(p.Threshold)), zb(decZ(p.ExpeditedThreshold)), zb(decZ(p.VetoThreshold)),
		zb(decZ(p.MinInitialDepositRatio)), zb(decZ(p.MinDepositRatio)), zb(decZ(p.ProposalCancelRatio)), dest,
		lib.Bool(p.BurnProposalDepositPrevote), lib.Bool(p.BurnVoteQuorum), lib.Bool(p.BurnVoteVeto))
}

func (h *hist) caseCoq() string {
	return fmt.Sprintf("mk_gov_case %s %s %s %s %d\n   [%s]", lib.Bool(h.fixed), h.initParams, h.initBals, h.initCust, h.abt0, strings.Join(h.steps, ";\n    "))
}

// ---------------------------------------------------------------- main

func classOf(i int) string {
	switch i % 5 {
	case 0, 1:
		return "plain"
	case 2, 3:
		return "custom"
	default:
		return "govsend"
	}
}

func main() {
	seed := lib.Seed()
	rep := lib.NewReport("C15")
	rep.Rule = "histories of submit / deposit / vote (plain and weighted, validators and delegators) / cancel / per-type parameter updates / time advancement on the real app with 3 validators (one slashed), 6 user accounts, randomized governance parameters; classes: plain (no per-type configuration), custom (per-type configuration added/changed/removed in between), govsend (proposals that send from the module account may pass); non-trivial = at least two proposals of different message types open at the same time and at least one tallied; distinct by the full operation log"

	mode := os.Getenv("VERIF_MODE")
	if mode == "replay" {
		replay()
		return
	}
	n, nops := 60, 45
	if lib.Tier() == "thorough" {
		n, nops = 400, 70
	}
	if mode == "search" {
		n, nops = 300, 70
	}
	if v := lib.EnvInt("VERIF_N", 0); v > 0 {
		n = int(v)
	}
	var items []string
	known := map[string]bool{}
	// the deterministic replays of the documented defects come first
	for _, h := range scripted(seed) {
		finish(rep, h, &items, known)
	}
	for i := 0; i < n; i++ {
		h := newHist(seed, i, classOf(i))
		h.run(nops)
		finish(rep, h, &items, known)
	}
	if mode != "search" {
		writeCases("Cases_C15.v", items)
	}
	checkTypeURLs(rep)
	rep.Write()
}

func finish(rep *lib.Report, h *hist, items *[]string, known map[string]bool) {
	// non-trivial: judged on what happened
	rep.Case(strings.Join(h.log, "|"), h.stats["tallied"] > 0 && h.maxOpenTypes > 1)
	for k, v := range h.stats {
		for i := 0; i < v; i++ {
			rep.Count(k)
		}
	}
	rep.Count("class=" + h.class)
	if h.fixed {
		rep.Count("keyfun=fixed")
	} else {
		rep.Count("keyfun=code")
	}
	if h.halted {
		rep.Count("halted")
	}
	rep.Sample(map[string]interface{}{"history": h.idx, "class": h.class, "ops": h.log})
	// one report per signature and history; the report keeps at most 50, so anything that is not
	// one of the two documented defects goes first
	seen := map[string]bool{}
	for pass := 0; pass < 2; pass++ {
		for _, f := range h.fails {
			documented := strings.HasPrefix(f.Sig, "C15:custom-params-ignored") || strings.HasPrefix(f.Sig, "C15:gov-account-spend")
			if documented != (pass == 1) || seen[f.Sig] {
				continue
			}
			seen[f.Sig] = true
			if documented && known[f.Sig] && len(rep.Failures) > 30 {
				continue
			}
			known[f.Sig] = true
			rep.Fail(f)
		}
	}
	if !h.noCorr {
		*items = append(*items, h.caseCoq())
	}
}

// EqualFold on registered message type URLs coincides with equality (the model's message type ids)
func checkTypeURLs(rep *lib.Report) {
	c := lib.NewChain(1, 1, nil)
	urls := c.App.InterfaceRegistry().ListImplementations(sdk.MsgInterfaceProtoName)
	seen := map[string]string{}
	for _, u := range urls {
		l := strings.ToLower(u)
		if o, ok := seen[l]; ok && o != u {
			rep.Fail(lib.Failure{Kind: "harness", What: "two registered message type URLs differ only by case: " + o + " / " + u, Sig: "C15:typeurl-case"})
		}
		seen[l] = u
	}
	rep.Notes = append(rep.Notes, fmt.Sprintf("%d registered message type URLs, no two equal up to case", len(urls)))
}

func replay() {
	path := os.Getenv("VERIF_REPLAY")
	b, err := os.ReadFile(path)
	lib.Must(err)
	var doc struct {
		Replay struct {
			Seed    int64  `json:"seed"`
			History int    `json:"history"`
			Class   string `json:"class"`
		} `json:"replay"`
	}
	lib.Must(json.Unmarshal(b, &doc))
	var h *hist
	if doc.Replay.History < 0 {
		for _, s := range scripted(doc.Replay.Seed) {
			if s.idx == doc.Replay.History {
				h = s
			}
		}
	} else {
		nops := 45
		if lib.Tier() == "thorough" {
			nops = 70
		}
		h = newHist(doc.Replay.Seed, doc.Replay.History, doc.Replay.Class)
		h.run(nops)
	}
	if h == nil {
		fmt.Println("unknown replay")
		os.Exit(2)
	}
	for _, l := range h.log {
		fmt.Println(l)
	}
	for _, f := range h.fails {
		fmt.Println("MONITOR:", f.Sig, "—", f.What)
	}
	if len(h.fails) > 0 {
		os.Exit(1)
	}
}
