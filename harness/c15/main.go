// probe (temporary)
package main

import (
	"fmt"
	"time"

	sdkmath "cosmossdk.io/math"
	sdk "github.com/cosmos/cosmos-sdk/types"
	banktypes "github.com/cosmos/cosmos-sdk/x/bank/types"
	distrtypes "github.com/cosmos/cosmos-sdk/x/distribution/types"
	govtypes "github.com/cosmos/cosmos-sdk/x/gov/types"
	govv1 "github.com/cosmos/cosmos-sdk/x/gov/types/v1"
	govv1beta1 "github.com/cosmos/cosmos-sdk/x/gov/types/v1beta1"
	authtypes "github.com/cosmos/cosmos-sdk/x/auth/types"

	fxtypes "github.com/functionx/fx-core/v8/types"
	erc20types "github.com/functionx/fx-core/v8/x/erc20/types"
	govkeeper "github.com/functionx/fx-core/v8/x/gov/keeper"

	"fxverif/lib"
)

func fxc(n int64) sdk.Coins { return sdk.NewCoins(lib.FX(n)) }

func main() {
	c := lib.NewChain(1, 3, nil)
	fmt.Println("nextblock:", c.NextBlock())
	ms := govkeeper.NewMsgServerImpl(c.App.GovKeeper)
	gov := lib.GovAuthority()
	govAddr := authtypes.NewModuleAddress(govtypes.ModuleName)
	params, _ := c.App.GovKeeper.Params.Get(c.Ctx)
	fmt.Printf("params: %+v\n", params)
	fmt.Println("denom", fxtypes.DefaultDenom, "ctx time", c.Ctx.BlockTime(), "chain time", c.Time)
	{
		it, err := c.App.GovKeeper.CustomerParams.Iterate(c.Ctx, nil)
		fmt.Println("iter err", err)
		for ; it.Valid(); it.Next() {
			kv, _ := it.KeyValue()
			fmt.Println("custom:", kv.Key, kv.Value)
		}
		it.Close()
	}
	accs := []lib.Key{}
	for i := 0; i < 6; i++ {
		k := lib.EthKey(1, "acc", i)
		accs = append(accs, k)
		c.Mint(k.Acc(), lib.FX(1_000_000))
	}
	status := func(id uint64) string {
		p, err := c.App.GovKeeper.Proposals.Get(c.Ctx, id)
		if err != nil {
			return "gone:" + err.Error()
		}
		s := fmt.Sprintf("%s total=%s exp=%v", p.Status, sdk.NewCoins(p.TotalDeposit...), p.Expedited)
		if p.VotingEndTime != nil {
			s += fmt.Sprintf(" vstart=%s vend=%s", p.VotingStartTime.Format(time.RFC3339), p.VotingEndTime.Format(time.RFC3339))
		}
		if p.FinalTallyResult != nil {
			s += fmt.Sprintf(" tally=%v", p.FinalTallyResult)
		}
		s += " reason=" + p.FailedReason
		return s
	}
	submit := func(who lib.Key, dep sdk.Coins, expedited bool, msgs ...sdk.Msg) uint64 {
		var id uint64
		err := c.Try(func(ctx sdk.Context) error {
			m, err := govv1.NewMsgSubmitProposal(msgs, dep, who.Acc().String(), "", "t", "s", expedited)
			if err != nil {
				return err
			}
			r, err := ms.SubmitProposal(ctx, m)
			if err != nil {
				return err
			}
			id = r.ProposalId
			return nil
		})
		fmt.Println("submit ->", id, err)
		return id
	}
	// 1. EGF dust
	spend := &distrtypes.MsgCommunityPoolSpend{Authority: gov, Recipient: accs[5].Acc().String(),
		Amount: sdk.Coins{sdk.NewCoin("FX", sdkmath.NewInt(1000).MulRaw(1e18)), sdk.NewCoin("aaa", sdkmath.NewInt(1))}}
	id1 := submit(accs[0], fxc(100), false, spend)
	fmt.Println("EGF dust:", status(id1))
	{
		p, _ := c.App.GovKeeper.Proposals.Get(c.Ctx, id1)
		for _, m := range p.GetMessages() {
			fmt.Println("MsgTypeURL(any) =", sdk.MsgTypeURL(m), " any.TypeUrl =", m.TypeUrl)
		}
		min, err := c.App.GovKeeper.GetMinDepositAmountFromProposalMsgs(c.Ctx, params.MinDeposit, p)
		fmt.Println("min from msgs:", min, err)
		fmt.Println("custom period:", *c.App.GovKeeper.GetCustomMsgVotingPeriod(c.Ctx, params.VotingPeriod, p), "quorum:", c.App.GovKeeper.GetCustomMsgQuorum(c.Ctx, params.Quorum, p))
	}
	spend2 := &distrtypes.MsgCommunityPoolSpend{Authority: gov, Recipient: accs[5].Acc().String(),
		Amount: sdk.Coins{sdk.NewCoin("FX", sdkmath.NewInt(1000).MulRaw(1e18))}}
	id1b := submit(accs[0], fxc(100), false, spend2)
	fmt.Println("EGF plain:", status(id1b))
	spend3 := &distrtypes.MsgCommunityPoolSpend{Authority: gov, Recipient: accs[5].Acc().String(),
		Amount: sdk.Coins{sdk.NewCoin("usdt", sdkmath.NewInt(3))}}
	id1c := submit(accs[0], fxc(100), false, spend3)
	fmt.Println("EGF foreign dust only:", status(id1c))

	// 2. gov send drain
	send := &banktypes.MsgSend{FromAddress: gov, ToAddress: accs[4].Acc().String(), Amount: fxc(5000)}
	id2 := submit(accs[1], fxc(10000), false, send)
	fmt.Println("send:", status(id2))
	for i, v := range c.ValKeys {
		err := c.Try(func(ctx sdk.Context) error {
			_, err := ms.Vote(ctx, govv1.NewMsgVote(v.Acc(), id2, govv1.OptionYes, ""))
			return err
		})
		fmt.Println("vote", i, err)
	}
	fmt.Println(c.NextBlockAfter(time.Hour))
	content := govv1beta1.NewTextProposal("Test", "description")
	legacy, _ := govv1.NewLegacyContent(content, gov)
	id3 := submit(accs[2], fxc(10000), false, legacy)
	fmt.Println("text:", status(id3))
	fmt.Println("gov bal", c.App.BankKeeper.GetAllBalances(c.Ctx, govAddr))
	fmt.Println(c.NextBlockAfter(14*24*time.Hour - 30*time.Minute))
	fmt.Println("send:", status(id2))
	fmt.Println("gov bal", c.App.BankKeeper.GetAllBalances(c.Ctx, govAddr))
	err := c.NextBlockAfter(2 * time.Hour)
	fmt.Println("after text end: err=", err)
	fmt.Println("text:", status(id3))
	fmt.Println("EGF dust:", status(id1))

	// 3. expedited
	c = lib.NewChain(2, 3, nil)
	c.NextBlock()
	ms = govkeeper.NewMsgServerImpl(c.App.GovKeeper)
	for _, k := range accs {
		c.Mint(k.Acc(), lib.FX(1_000_000))
	}
	params, _ = c.App.GovKeeper.Params.Get(c.Ctx)
	params.ExpeditedMinDeposit = fxc(20000)
	fmt.Println("update params:", c.Try(func(ctx sdk.Context) error {
		_, err := ms.UpdateParams(ctx, &govv1.MsgUpdateParams{Authority: gov, Params: params})
		return err
	}))
	toggle := &erc20types.MsgToggleTokenConversion{Authority: gov, Token: "nosuchtoken"}
	id4 := submit(accs[0], fxc(20000), true, toggle)
	fmt.Println("exp toggle:", status(id4))
	id5 := submit(accs[0], fxc(20000), true, legacy)
	fmt.Println("exp text:", status(id5))
	fmt.Println(c.NextBlockAfter(25 * time.Hour))
	fmt.Println("exp text:", status(id5))
	fmt.Println("exp toggle:", status(id4))
	fmt.Println(c.NextBlockAfter(20 * 24 * time.Hour))
	fmt.Println("exp text:", status(id5))
	fmt.Println("exp toggle:", status(id4))
	fmt.Println(c.NextBlock())
	fmt.Println("exp text:", status(id5))
	fmt.Println("exp toggle:", status(id4))
	fmt.Println(c.NextBlock())
	fmt.Println("exp toggle:", status(id4))
}
