package main

import (
	"math/big"
	"time"

	sdkmath "cosmossdk.io/math"
	sdk "github.com/cosmos/cosmos-sdk/types"

	"fxverif/lib"

	fxgovtypes "github.com/functionx/fx-core/v8/x/gov/types"
)

// scripted: short deterministic histories that replay the documented defects on the real code
// (negative history numbers; bin/replay re-runs them).  They are also part of the correspondence.
func scripted(seed int64) []*hist {
	var out []*hist

	// -1: per-type parameters are configured (genesis defaults) but never applied
	{
		h := newHist(seed, -1, "custom")
		min := h.minFor(false)
		// an erc20 proposal: configured 7 days / quorum 25%
		h.opSubmitKind("toggle", 10, min, false)
		// a community-pool spend of 1,000,000 FX: configured share 10% = 100,000 FX
		h.opSubmitEGF(11, fxAmt(1_000_000), min)
		// votes worth less than the default quorum but more than the erc20 quorum
		d := 10 * 24 * time.Hour
		h.opCustom(true, tyToggle, &fxgovtypes.CustomParams{DepositRatio: "0", VotingPeriod: &d, Quorum: "0.000001"})
		h.opVote(1, 10, [][2]string{{"1", e18.String()}}, false)
		for k := 0; k < 3 && len(h.openIDs(0)) > 0 && !h.halted; k++ {
			h.opEndBlock(16 * 24 * time.Hour)
		}
		out = append(out, h)
	}
	// -2: a passed proposal sends from the governance module account, i.e. out of other
	// proposals' deposits; the later refund fails and the block cannot be finalized
	{
		h := newHist(seed, -2, "govsend")
		min := h.minFor(false)
		h.opSubmitSend(10, 12, new(big.Int).Quo(min, big.NewInt(2)), min)
		for v := int64(0); v < 3; v++ {
			h.opVote(1, v, [][2]string{{"1", e18.String()}}, false)
		}
		for u := int64(10); u < 14; u++ {
			h.opVote(1, u, [][2]string{{"1", e18.String()}}, false)
		}
		h.opEndBlock(time.Hour)
		h.opSubmitKind("text", 11, min, false)
		for k := 0; k < 3 && len(h.openIDs(0)) > 0 && !h.halted; k++ {
			h.opEndBlock(time.Duration(h.params.VotingPeriod.Seconds())*time.Second - 30*time.Minute)
		}
		out = append(out, h)
	}
	// -3: corners of the deposit-share rule that only matter once the per-type lookup works
	// (inert on the tree as it is): a dust amount of a second denomination next to the request,
	// a request in another denomination only, an expedited proposal of a configured type
	{
		h := newHist(seed, -3, "custom")
		min := h.minFor(false)
		half := new(big.Int).Quo(min, big.NewInt(2))
		h.opSubmitSpend(10, sdk.NewCoins(lib.FX(50_000), sdk.NewCoin("aaa", sdkmath.NewInt(1))), half)
		h.opSubmitSpend(11, sdk.NewCoins(sdk.NewCoin("usdt", sdkmath.NewInt(4))), new(big.Int).Quo(min, big.NewInt(10)))
		h.opSubmitSpend(12, sdk.NewCoins(sdk.NewCoin("usdt", sdkmath.NewInt(4_000_000))), min)
		h.opSubmitKind("toggle", 13, h.minFor(true), true)
		for k := 0; k < 4 && len(h.openIDs(0)) > 0 && !h.halted; k++ {
			h.opEndBlock(8 * 24 * time.Hour)
		}
		out = append(out, h)
	}
	// -4: the completing deposit lands just before / exactly at / just after the deposit deadline
	{
		h := newHist(seed, -4, "plain")
		min := h.minFor(false)
		part := new(big.Int).Quo(min, big.NewInt(4))
		for i, k := range []int64{6, 5, 4} {
			h.opSubmitKind("text", int64(10+i), part, false)
			id := uint64(i + 1)
			h.deadlineDeposit(id, k, int64(13+i%3), true)
			h.opVote(id, 0, [][2]string{{"1", e18.String()}}, false)
		}
		for k := 0; k < 3 && len(h.openIDs(0)) > 0 && !h.halted; k++ {
			h.opEndBlock(time.Duration(h.params.VotingPeriod.Seconds()+60) * time.Second)
		}
		out = append(out, h)
	}
	// -5: expedited proposals fail their first tally and are converted; one is cancelled by its
	// proposer in the next block, one runs on to the regular end
	{
		h := newHist(seed, -5, "plain")
		h.opSubmitKind("text", 10, h.minFor(true), true)
		h.opSubmitKind("xparams", 11, h.minFor(true), true)
		h.expeditedEnd(1, true, true)
		if !h.halted {
			h.opEndBlock(lib.BlockStep)
		}
		for k := 0; k < 3 && len(h.openIDs(0)) > 0 && !h.halted; k++ {
			h.opEndBlock(time.Duration(h.params.VotingPeriod.Seconds()/2+60) * time.Second)
		}
		out = append(out, h)
	}
	// -6 (monitor only): the other way a passed proposal spends what the module account holds for
	// others — gov MsgDeposit with the module account as depositor into another open proposal.  The
	// record has no funds behind it; when the target closes, the refund loop pays in address order
	// and fails if the real depositors come first.  Same root cause and finding as -2.
	{
		h := newHist(seed, -6, "govsend")
		min := h.minFor(false)
		// the target's real depositor: an account whose address sorts before the module account's,
		// so that it is refunded first
		dep := int64(10)
		for _, id := range h.ids {
			if id >= 10 && string(h.keys[id].Acc()) < string(h.govAcc) {
				dep = id
				break
			}
		}
		// 1: the pledge, targeting the proposal that will be number 2 (a MsgDeposit is not checked against
		// the store at submission); it ends, and passes, one hour before its target does
		h.opSubmitGovDeposit(11, 2, new(big.Int).Quo(min, big.NewInt(4)), min)
		for v := int64(0); v < 3; v++ {
			h.opVote(1, v, [][2]string{{"1", e18.String()}}, false)
		}
		for u := int64(10); u < 14; u++ {
			h.opVote(1, u, [][2]string{{"1", e18.String()}}, false)
		}
		h.opEndBlock(time.Hour)
		h.opSubmitKind("text", dep, min, false) // 2: the target
		if p := h.propObs(1); p != nil && p.Status == 2 {
			h.opEndBlock(time.Duration(p.VEnd-rel(h.c.Time)) * time.Second) // 1 passes: the pledge is recorded
		}
		for k := 0; k < 3 && len(h.openIDs(0)) > 0 && !h.halted; k++ {
			h.opEndBlock(2 * time.Hour) // 2 ends: its depositor is refunded first, then the pledge cannot be
		}
		out = append(out, h)
	}
	// -7: boundary values of the custom parameters under the keys the lookup really derives
	// ("/google.protobuf.Any" for proposals with messages, "" for metadata-only ones): quorum exactly 0,
	// the smallest positive quorum, quorum exactly 1, the shortest voting period.  The default quorum of
	// this history is 99.9%, one delegator votes yes: the outcome must follow the STORED quorum.
	{
		h := newHist(seed, -7, "custom")
		min := h.minFor(false)
		sec, hour := time.Second, time.Hour
		yes := [][2]string{{"1", e18.String()}}
		h.opCustom(true, tyAny, &fxgovtypes.CustomParams{DepositRatio: "0", VotingPeriod: &hour, Quorum: "0"})
		h.opCustom(true, tyNone, &fxgovtypes.CustomParams{DepositRatio: "1", VotingPeriod: &sec, Quorum: "0.000000000000000001"})
		h.opSubmitKind("text", 10, min, false) // 1: key Any, quorum 0, 1 h
		h.opSubmitKind("none", 11, min, false) // 2: key "", quorum 1e-18, 1 s
		h.opVote(1, 12, yes, false)
		h.opVote(2, 12, yes, false)
		h.opEndBlock(lib.BlockStep)           // 2 ends: passes on the smallest quorum
		h.opEndBlock(time.Hour + time.Minute) // 1 ends: passes on quorum 0
		h.opCustom(true, tyAny, &fxgovtypes.CustomParams{DepositRatio: "0", VotingPeriod: &hour, Quorum: "0"})
		h.opSubmitKind("xparams", 10, min, false) // 3: quorum 0 and nobody votes: rejected, nothing burned
		h.opCustom(true, tyAny, &fxgovtypes.CustomParams{DepositRatio: "0", VotingPeriod: &hour, Quorum: "1"})
		h.opSubmitKind("text", 11, min, false) // 4: activated under quorum 1 ...
		h.opVote(4, 12, yes, false)
		h.opCustom(true, tyAny, &fxgovtypes.CustomParams{DepositRatio: "0", VotingPeriod: &hour, Quorum: "0"})
		h.opEndBlock(time.Hour + time.Minute) // ... tallied under quorum 0 (3 and 4 end)
		h.opCustom(true, tyAny, &fxgovtypes.CustomParams{DepositRatio: "0", VotingPeriod: &hour, Quorum: "1"})
		h.opSubmitKind("text", 13, min, false) // 5: quorum exactly 1 with partial turnout: rejected
		h.opVote(5, 12, yes, false)
		h.opCustom(true, tyAny, nil)           // removed: back to the default
		h.opSubmitKind("text", 14, min, false) // 6: default period and quorum again
		h.opVote(6, 12, yes, false)
		for k := 0; k < 3 && len(h.openIDs(0)) > 0 && !h.halted; k++ {
			h.opEndBlock(time.Duration(h.params.VotingPeriod.Seconds()/2+1800) * time.Second)
		}
		out = append(out, h)
	}
	// -8 (monitor only): crisis MsgVerifyInvariant signed by the module account, while another proposal's
	// deposit sits on the account: (a) the gov module-account invariant — broken by the fee charge itself,
	// the handler panics, the cache branch is dropped; (b) an invariant that holds — the fee stays charged
	{
		h := newHist(seed, -8, "govsend")
		min := h.minFor(false)
		two := new(big.Int).Mul(min, big.NewInt(2))
		h.opSubmitCrisis(10, "gov", "module-account", min)           // 1
		h.opSubmitCrisis(11, "bank", "nonnegative-outstanding", min) // 2
		for _, id := range []uint64{1, 2} {
			for _, v := range []int64{0, 1, 2, 10, 11, 12, 13} {
				h.opVote(id, v, [][2]string{{"1", e18.String()}}, false)
			}
		}
		h.opEndBlock(time.Hour)
		h.opSubmitKind("text", 12, two, false) // 3: 20,000 FX of somebody else's deposit on the account
		if p := h.propObs(1); p != nil && p.Status == 2 {
			h.opEndBlock(time.Duration(p.VEnd-rel(h.c.Time)) * time.Second) // 1 and 2 end
		}
		for k := 0; k < 3 && len(h.openIDs(0)) > 0 && !h.halted; k++ {
			h.opEndBlock(2 * time.Hour) // 3 ends
		}
		out = append(out, h)
	}
	// -9, -10 (corpus/C15/undecodable-*.json): a stored proposal record that no longer decodes — what the
	// end blocker's failUnsupportedProposal branches are for — in the inactive queue (-9) and in the
	// active queue (-10).  Finding C15-3 (stale queue entry -> ErrNotFound next block; nil dereference)
	// was repaired in e5a1e24: these are regression expectations now — refund, removal resp. FAILED,
	// and every later block finalizes.
	for _, both := range []bool{false, true} {
		idx := -9
		if both {
			idx = -10
		}
		h := newHist(seed, idx, "plain")
		min := h.minFor(false)
		h.opSubmitKind("text", 10, new(big.Int).Quo(min, big.NewInt(2)), false) // 1: deposit period
		h.opSubmitKind("text", 11, min, false)                                  // 2: voting
		h.opVote(2, 0, [][2]string{{"1", e18.String()}}, false)
		h.opEndBlock(time.Hour)
		if both {
			h.opCorrupt(2)
		} else {
			h.opCorrupt(1)
		}
		h.opDeposit(1, 12, new(big.Int).Quo(min, big.NewInt(2)), false)
		h.opVote(2, 1, [][2]string{{"1", e18.String()}}, false)
		for k := 0; k < 5 && !h.halted; k++ {
			h.opEndBlock(time.Duration(h.params.VotingPeriod.Seconds()/2+900) * time.Second)
		}
		out = append(out, h)
	}
	return out
}
