package main

// build.go: structure-aware payload builders.  Every builder returns a message that the real
// handler ACCEPTS when the authority is the governance account (checked per run: the positive
// control) — so a rejection with another authority is caused by the authority and a handler that
// forgot its guard would visibly change stores.  Parameters start from the chain's current
// parameters (genesis defaults) and are perturbed inside their valid ranges.

import (
	"encoding/hex"
	"fmt"
	"reflect"
	"time"

	sdkmath "cosmossdk.io/math"
	upgradetypes "cosmossdk.io/x/upgrade/types"
	codectypes "github.com/cosmos/cosmos-sdk/codec/types"
	sdk "github.com/cosmos/cosmos-sdk/types"
	authtypes "github.com/cosmos/cosmos-sdk/x/auth/types"
	banktypes "github.com/cosmos/cosmos-sdk/x/bank/types"
	consensustypes "github.com/cosmos/cosmos-sdk/x/consensus/types"
	crisistypes "github.com/cosmos/cosmos-sdk/x/crisis/types"
	distrtypes "github.com/cosmos/cosmos-sdk/x/distribution/types"
	govv1 "github.com/cosmos/cosmos-sdk/x/gov/types/v1"
	govv1beta1 "github.com/cosmos/cosmos-sdk/x/gov/types/v1beta1"
	minttypes "github.com/cosmos/cosmos-sdk/x/mint/types"
	slashingtypes "github.com/cosmos/cosmos-sdk/x/slashing/types"
	stakingtypes "github.com/cosmos/cosmos-sdk/x/staking/types"
	ibctransfertypes "github.com/cosmos/ibc-go/v8/modules/apps/transfer/types"
	ibcclienttypes "github.com/cosmos/ibc-go/v8/modules/core/02-client/types"
	ibcconntypes "github.com/cosmos/ibc-go/v8/modules/core/03-connection/types"
	ibcchantypes "github.com/cosmos/ibc-go/v8/modules/core/04-channel/types"
	ibccommitment "github.com/cosmos/ibc-go/v8/modules/core/23-commitment/types"
	ibctm "github.com/cosmos/ibc-go/v8/modules/light-clients/07-tendermint"
	"github.com/ethereum/go-ethereum/common"
	evmtypes "github.com/evmos/ethermint/x/evm/types"
	feemarkettypes "github.com/evmos/ethermint/x/feemarket/types"

	"github.com/functionx/fx-core/v8/contract"
	fxtypes "github.com/functionx/fx-core/v8/types"
	crosschaintypes "github.com/functionx/fx-core/v8/x/crosschain/types"
	erc20types "github.com/functionx/fx-core/v8/x/erc20/types"
	fxevmtypes "github.com/functionx/fx-core/v8/x/evm/types"
	fxgovtypes "github.com/functionx/fx-core/v8/x/gov/types"

	"fxverif/lib"
)

// scenario: state prepared once so that every privileged message has something to act on
type scenario struct {
	c          *lib.Chain
	erc20Free  common.Address // deployed FIP20, not registered: RegisterERC20 / CallContract target
	pairDenom  string         // registered native coin (toggle, alias update)
	pairERC20  common.Address // its ERC-20 contract
	pairAlias  string         // one of its bridge aliases
	extERC20   common.Address // a registered native ERC-20 (owner external) and its denom
	extDenom   string
	fxERC20    common.Address // the WFX contract of the FX pair
	recipient  sdk.AccAddress
	storeSpace string
	storeKey   []byte // existing key in storeSpace with value storeVal
	storeVal   []byte
}

type payload struct {
	Msg        sdk.Msg
	Variant    string // "", chain name, or a builder-specific tag
	NoPositive string // non-empty: why the positive control is not expected to succeed
	Full       bool   // deliver at every level although no positive control is expected (payloads naming a particular existing object)
}

func must(err error) {
	if err != nil {
		panic(err)
	}
}

func setupScenario(c *lib.Chain, r *lib.Rand) *scenario {
	s := &scenario{c: c}
	ctx := c.Ctx
	gov := lib.GovAuthority()
	// oracles on two chains (UpdateChainOracles has something to replace)
	c.X("eth").SetupOracles([]int64{10_000, 12_000, 15_000})
	c.X("tron").SetupOracles([]int64{10_000, 20_000})
	// a registered native coin
	md := fxtypes.GetCrossChainMetadataManyToOne("Verif Token", "VRF", 18, "eth0x00000000000000000000000000000000000000a1")
	_, err := c.App.Erc20Keeper.RegisterCoin(ctx, &erc20types.MsgRegisterCoin{Authority: gov, Metadata: md})
	must(err)
	s.pairDenom = md.Base
	s.pairAlias = "eth0x00000000000000000000000000000000000000a1"
	if p, ok := c.App.Erc20Keeper.GetTokenPair(ctx, md.Base); ok {
		s.pairERC20 = p.GetERC20Contract()
	}
	if p, ok := c.App.Erc20Keeper.GetTokenPair(ctx, fxtypes.DefaultDenom); ok {
		s.fxERC20 = p.GetERC20Contract()
	}
	// a free ERC20 contract
	deployer := lib.EthKey(c.Seed, "c16-deployer", 0)
	c.EnsureAccount(ctx, deployer.Acc())
	addr, err := c.App.Erc20Keeper.DeployUpgradableToken(ctx, deployer.Hex(), "Free Token", "FREE", 18)
	must(err)
	s.erc20Free = addr
	// a registered native ERC-20 (externally owned contract)
	ext, err := c.App.Erc20Keeper.DeployUpgradableToken(ctx, deployer.Hex(), "Ext Token", "EXTK", 18)
	must(err)
	_, err = c.App.Erc20Keeper.RegisterERC20(ctx, &erc20types.MsgRegisterERC20{Authority: gov, Erc20Address: ext.Hex(), Aliases: []string{"bsc0x00000000000000000000000000000000000000b2"}})
	must(err)
	s.extERC20, s.extDenom = ext, "extk"
	// community pool funds
	funder := lib.EthKey(c.Seed, "c16-funder", 0)
	c.Mint(funder.Acc(), lib.FX(5000))
	must(c.App.DistrKeeper.FundCommunityPool(ctx, sdk.NewCoins(lib.FX(1000)), funder.Acc()))
	s.recipient = lib.EthKey(c.Seed, "c16-recipient", 0).Acc()
	setupRecoverableClients(c)
	must(c.NextBlock())
	must(c.NextBlock())
	// a raw store entry to compare-and-set: the erc20 params key
	s.storeSpace = erc20types.StoreKey
	kvs := c.DumpPrefix(c.Ctx, s.storeSpace, nil)
	if len(kvs) == 0 {
		panic("erc20 store is empty")
	}
	pick := kvs[r.Pick(len(kvs))]
	s.storeKey, s.storeVal = pick.K, pick.V
	return s
}

// setSigner writes the authority/signer field by reflection (works for every row of table 1).
func setSigner(m sdk.Msg, goField, v string) {
	reflect.ValueOf(m).Elem().FieldByName(goField).SetString(v)
}

// zeroPayload: only the authority is set (what a careless caller would send)
func zeroPayload(row authMsg) sdk.Msg {
	return reflect.New(row.GoType).Interface().(sdk.Msg)
}

func dur(d time.Duration) *time.Duration { return &d }

// build returns the structure-aware payloads for one row of table (1); nil = no builder known
// (the caller then falls back to the zero payload and reports the row as not deeply covered).
func (s *scenario) build(row authMsg, r *lib.Rand, chains []string) []payload {
	c, ctx := s.c, s.c.Ctx
	one := func(m sdk.Msg) []payload { return []payload{{Msg: m}} }
	switch row.URL {
	// ---------------- fx-core ----------------
	case "/fx.gravity.crosschain.v1.MsgUpdateParams":
		var out []payload
		for _, ch := range chains {
			p := c.XKeeper(ch).GetParams(ctx)
			p.AverageBlockTime = 5000 + uint64(r.Intn(3000))
			p.SignedWindow = 2 + uint64(r.Intn(50000))
			p.BridgeCallTimeout = 3_600_001 + uint64(r.Intn(1_000_000))
			p.EnableSendToExternalPending = r.Chance(50)
			p.Oracles = nil
			out = append(out, payload{Msg: &crosschaintypes.MsgUpdateParams{ChainName: ch, Params: p}, Variant: ch})
		}
		return out
	case "/fx.gravity.crosschain.v1.MsgUpdateChainOracles":
		var out []payload
		for _, ch := range chains {
			x := c.X(ch)
			var oracles []string
			// keep the currently approved ones (dropping bonded power is limited to 30%) and add fresh ones
			if po, ok := x.Keeper.GetProposalOracle(ctx); ok {
				oracles = append(oracles, po.Oracles...)
			}
			n := 1 + r.Intn(3)
			for i := 0; i < n; i++ {
				oracles = append(oracles, lib.EthKey(c.Seed, "c16-neworacle/"+ch, r.Intn(1000)+i*1000).Acc().String())
			}
			out = append(out, payload{Msg: &crosschaintypes.MsgUpdateChainOracles{ChainName: ch, Oracles: oracles}, Variant: ch})
		}
		return out
	case "/fx.erc20.v1.MsgUpdateParams":
		p := c.App.Erc20Keeper.GetParams(ctx)
		p.EnableEVMHook = !p.EnableEVMHook
		p.IbcTimeout = time.Duration(1+r.Intn(48)) * time.Hour
		return one(&erc20types.MsgUpdateParams{Params: p})
	case "/fx.erc20.v1.MsgRegisterCoin":
		sym := fmt.Sprintf("TK%d", r.Intn(100000))
		md := fxtypes.GetCrossChainMetadataManyToOne("Token "+sym, sym, uint32(6+r.Intn(13)),
			fmt.Sprintf("bsc0x%040x", r.Int63()), fmt.Sprintf("eth0x%040x", r.Int63()))
		mdTaken := fxtypes.GetCrossChainMetadataManyToOne("Token "+sym+"x", sym+"X", 18, s.pairAlias)
		mdSame := fxtypes.GetCrossChainMetadataManyToOne("Verif Token", "VRF", 18, "eth0x00000000000000000000000000000000000000a1")
		return []payload{{Msg: &erc20types.MsgRegisterCoin{Metadata: md}},
			{Msg: &erc20types.MsgRegisterCoin{Metadata: mdTaken}, Variant: "taken-alias", NoPositive: "names a taken alias", Full: true},
			{Msg: &erc20types.MsgRegisterCoin{Metadata: mdSame}, Variant: "already-registered-coin", NoPositive: "names a registered coin", Full: true}}
	// the erc20 messages name an existing object: one payload per KIND of object (live module-owned pair by denom and
	// by address, externally owned pair, the FX pair, an alias, a contract that is already registered …) — an effect
	// in front of the guard can hide behind the state of the object the message names
	case "/fx.erc20.v1.MsgRegisterERC20":
		obj := func(v string, a common.Address, al ...string) payload {
			return payload{Msg: &erc20types.MsgRegisterERC20{Erc20Address: a.Hex(), Aliases: al}, Variant: v, NoPositive: "names " + v, Full: true}
		}
		return []payload{{Msg: &erc20types.MsgRegisterERC20{Erc20Address: s.erc20Free.Hex(), Aliases: []string{fmt.Sprintf("polygon0x%040x", r.Int63())}}},
			obj("registered-module-pair-contract", s.pairERC20), obj("registered-external-contract", s.extERC20),
			obj("wfx-contract", s.fxERC20), obj("free-contract+taken-alias", s.erc20Free, s.pairAlias)}
	case "/fx.erc20.v1.MsgToggleTokenConversion":
		obj := func(v, tok string) payload {
			return payload{Msg: &erc20types.MsgToggleTokenConversion{Token: tok}, Variant: v, NoPositive: "names " + v, Full: true}
		}
		return []payload{{Msg: &erc20types.MsgToggleTokenConversion{Token: s.pairDenom}, Variant: "module-pair-by-denom"},
			{Msg: &erc20types.MsgToggleTokenConversion{Token: s.pairERC20.Hex()}, Variant: "module-pair-by-address"},
			{Msg: &erc20types.MsgToggleTokenConversion{Token: s.extDenom}, Variant: "external-pair-by-denom"},
			{Msg: &erc20types.MsgToggleTokenConversion{Token: s.extERC20.Hex()}, Variant: "external-pair-by-address"},
			obj("fx-pair-by-denom", fxtypes.DefaultDenom), obj("fx-pair-by-address", s.fxERC20.Hex()),
			obj("alias-denom", s.pairAlias), obj("unregistered-contract", s.erc20Free.Hex()), obj("unknown-denom", "nosuchdenom")}
	case "/fx.erc20.v1.MsgUpdateDenomAlias":
		obj := func(v, d, a string) payload {
			return payload{Msg: &erc20types.MsgUpdateDenomAlias{Denom: d, Alias: a}, Variant: v, NoPositive: "names " + v, Full: true}
		}
		return []payload{{Msg: &erc20types.MsgUpdateDenomAlias{Denom: s.pairDenom, Alias: fmt.Sprintf("avalanche0x%040x", r.Int63())}, Variant: "add-alias"},
			{Msg: &erc20types.MsgUpdateDenomAlias{Denom: s.pairDenom, Alias: s.pairAlias}, Variant: "remove-existing-alias", NoPositive: "may be the last alias", Full: true},
			obj("external-pair", s.extDenom, fmt.Sprintf("avalanche0x%040x", r.Int63())), obj("fx-pair", fxtypes.DefaultDenom, fmt.Sprintf("avalanche0x%040x", r.Int63())),
			obj("unknown-denom", "nosuchdenom", s.pairAlias)}
	case "/fx.evm.v1.MsgCallContract":
		// the contract's owner is the erc20 module, the caller is the evm module: use a call that any caller may make
		data, err := contract.GetFIP20().ABI.Pack("approve", common.BigToAddress(sdkmath.NewInt(1+r.Int63()).BigInt()), sdkmath.NewInt(1+r.Int63()).BigInt())
		must(err)
		return one(&fxevmtypes.MsgCallContract{ContractAddress: s.erc20Free.Hex(), Data: hex.EncodeToString(data)})
	case "/fx.gov.v1.MsgUpdateStore":
		newVal := append([]byte{}, s.storeVal...)
		newVal = append(newVal, byte(r.Intn(256)))
		return []payload{
			{Msg: &fxgovtypes.MsgUpdateStore{UpdateStores: []fxgovtypes.UpdateStore{{
				Space: s.storeSpace, Key: hex.EncodeToString(s.storeKey), OldValue: hex.EncodeToString(s.storeVal), Value: hex.EncodeToString(newVal)}}}, Variant: "existing-key"},
			{Msg: &fxgovtypes.MsgUpdateStore{UpdateStores: []fxgovtypes.UpdateStore{
				{Space: banktypes.StoreKey, Key: fmt.Sprintf("ff%014x", r.Int63()), OldValue: "", Value: fmt.Sprintf("%016x", r.Int63())},
				{Space: s.storeSpace, Key: hex.EncodeToString(s.storeKey), OldValue: hex.EncodeToString(s.storeVal), Value: ""}}}, Variant: "fresh-key+existing"},
		}
	case "/fx.gov.v1.MsgUpdateSwitchParams":
		return one(&fxgovtypes.MsgUpdateSwitchParams{Params: fxgovtypes.SwitchParams{
			DisablePrecompiles: []string{fmt.Sprintf("%040x/%08x", 0x1004, r.Uint32())},
			DisableMsgTypes:    []string{sdk.MsgTypeURL(&erc20types.MsgConvertCoin{})}}})
	case "/fx.gov.v1.MsgUpdateCustomParams":
		return []payload{
			{Msg: &fxgovtypes.MsgUpdateCustomParams{MsgUrl: sdk.MsgTypeURL(&erc20types.MsgRegisterCoin{}),
				CustomParams: fxgovtypes.CustomParams{DepositRatio: "0.1", VotingPeriod: dur(time.Duration(1+r.Intn(100)) * time.Hour), Quorum: "0.3"}}, Variant: "set"},
			{Msg: &fxgovtypes.MsgUpdateCustomParams{MsgUrl: sdk.MsgTypeURL(&distrtypes.MsgCommunityPoolSpend{})}, Variant: "remove"},
		}
	// ---------------- cosmos-sdk ----------------
	case "/cosmos.auth.v1beta1.MsgUpdateParams":
		p := c.App.AccountKeeper.GetParams(ctx)
		p.MaxMemoCharacters = 100 + uint64(r.Intn(1000))
		return one(&authtypes.MsgUpdateParams{Params: p})
	case "/cosmos.bank.v1beta1.MsgUpdateParams":
		p := c.App.BankKeeper.GetParams(ctx)
		p.DefaultSendEnabled = !p.DefaultSendEnabled
		return one(&banktypes.MsgUpdateParams{Params: p})
	case "/cosmos.bank.v1beta1.MsgSetSendEnabled":
		return one(&banktypes.MsgSetSendEnabled{SendEnabled: []*banktypes.SendEnabled{{Denom: s.pairDenom, Enabled: r.Chance(50)}}, UseDefaultFor: []string{fxtypes.DefaultDenom}})
	case "/cosmos.consensus.v1.MsgUpdateParams":
		cp, err := c.App.ConsensusParamsKeeper.ParamsStore.Get(ctx)
		must(err)
		b := *cp.Block
		b.MaxGas = 10_000_000 + int64(r.Intn(1_000_000))
		return one(&consensustypes.MsgUpdateParams{Block: &b, Evidence: cp.Evidence, Validator: cp.Validator, Abci: cp.Abci})
	case "/cosmos.crisis.v1beta1.MsgUpdateParams":
		return one(&crisistypes.MsgUpdateParams{ConstantFee: sdk.NewCoin(fxtypes.DefaultDenom, sdkmath.NewInt(1+r.Int63n(1_000_000)))})
	case "/cosmos.distribution.v1beta1.MsgUpdateParams":
		p, err := c.App.DistrKeeper.Params.Get(ctx)
		must(err)
		p.CommunityTax = sdkmath.LegacyNewDecWithPrec(int64(1+r.Intn(50)), 2)
		p.WithdrawAddrEnabled = !p.WithdrawAddrEnabled
		p.BaseProposerReward, p.BonusProposerReward = sdkmath.LegacyZeroDec(), sdkmath.LegacyZeroDec() // deprecated: must be zero
		return one(&distrtypes.MsgUpdateParams{Params: p})
	case "/cosmos.distribution.v1beta1.MsgCommunityPoolSpend":
		return one(&distrtypes.MsgCommunityPoolSpend{Recipient: s.recipient.String(), Amount: sdk.NewCoins(sdk.NewCoin(fxtypes.DefaultDenom, sdkmath.NewInt(1+r.Int63n(1_000_000))))})
	case "/cosmos.gov.v1.MsgUpdateParams":
		p, err := c.App.GovKeeper.Keeper.Params.Get(ctx)
		must(err)
		p.BurnVoteVeto = !p.BurnVoteVeto
		p.MaxDepositPeriod = dur(time.Duration(1+r.Intn(30)) * 24 * time.Hour)
		return one(&govv1.MsgUpdateParams{Params: p})
	case "/cosmos.gov.v1.MsgExecLegacyContent":
		content, err := codectypes.NewAnyWithValue(&govv1beta1.TextProposal{Title: fmt.Sprintf("t%d", r.Intn(1000)), Description: "d"})
		must(err)
		return one(&govv1.MsgExecLegacyContent{Content: content})
	case "/cosmos.mint.v1beta1.MsgUpdateParams":
		p, err := c.App.MintKeeper.Params.Get(ctx)
		must(err)
		p.BlocksPerYear = 1_000_000 + uint64(r.Intn(10_000_000))
		return one(&minttypes.MsgUpdateParams{Params: p})
	case "/cosmos.slashing.v1beta1.MsgUpdateParams":
		p, err := c.App.SlashingKeeper.GetParams(ctx)
		must(err)
		p.SignedBlocksWindow = 100 + int64(r.Intn(100_000))
		return one(&slashingtypes.MsgUpdateParams{Params: p})
	case "/cosmos.staking.v1beta1.MsgUpdateParams":
		p, err := c.App.StakingKeeper.GetParams(ctx)
		must(err)
		p.MaxEntries = 1 + uint32(r.Intn(20))
		p.HistoricalEntries = uint32(r.Intn(20000))
		return one(&stakingtypes.MsgUpdateParams{Params: p})
	case "/cosmos.upgrade.v1beta1.MsgSoftwareUpgrade":
		return one(&upgradetypes.MsgSoftwareUpgrade{Plan: upgradetypes.Plan{Name: fmt.Sprintf("v%d", r.Intn(1000)), Height: c.Height + 100 + int64(r.Intn(1000)), Info: "x"}})
	case "/cosmos.upgrade.v1beta1.MsgCancelUpgrade":
		return one(&upgradetypes.MsgCancelUpgrade{})
	// ---------------- ethermint ----------------
	case "/ethermint.evm.v1.MsgUpdateParams":
		p := c.App.EvmKeeper.GetParams(ctx)
		p.AllowUnprotectedTxs = !p.AllowUnprotectedTxs
		return one(&evmtypes.MsgUpdateParams{Params: p})
	case "/ethermint.feemarket.v1.MsgUpdateParams":
		p := c.App.FeeMarketKeeper.GetParams(ctx)
		p.ElasticityMultiplier = 1 + uint32(r.Intn(5))
		return one(&feemarkettypes.MsgUpdateParams{Params: p})
	// ---------------- ibc-go ----------------
	case "/ibc.applications.transfer.v1.MsgUpdateParams":
		p := c.App.IBCTransferKeeper.GetParams(ctx)
		p.SendEnabled = !p.SendEnabled
		return one(&ibctransfertypes.MsgUpdateParams{Params: p})
	case "/ibc.core.client.v1.MsgUpdateParams":
		p := c.App.IBCKeeper.ClientKeeper.GetParams(ctx)
		p.AllowedClients = []string{"07-tendermint"}
		return one(&ibcclienttypes.MsgUpdateParams{Params: p})
	case "/ibc.core.connection.v1.MsgUpdateParams":
		p := c.App.IBCKeeper.ConnectionKeeper.GetParams(ctx)
		p.MaxExpectedTimePerBlock = uint64(time.Duration(10+r.Intn(100)) * time.Second)
		return one(&ibcconntypes.MsgUpdateParams{Params: p})
	case "/ibc.core.channel.v1.MsgUpdateParams":
		p := c.App.IBCKeeper.ChannelKeeper.GetParams(ctx)
		p.UpgradeTimeout = ibcchantypes.NewTimeout(ibcclienttypes.ZeroHeight(), uint64(time.Duration(10+r.Intn(100))*time.Minute))
		return one(&ibcchantypes.MsgUpdateParams{Params: p})
	case "/ibc.core.client.v1.MsgRecoverClient":
		// subject 07-tendermint-0 is expired, substitute 07-tendermint-1 is active and matches it (set up in setupScenario)
		return one(&ibcclienttypes.MsgRecoverClient{SubjectClientId: "07-tendermint-0", SubstituteClientId: "07-tendermint-1"})
	case "/ibc.core.client.v1.MsgIBCSoftwareUpgrade":
		cs := ibctm.NewClientState("fxcore-upgraded", ibctm.DefaultTrustLevel, 14*24*time.Hour, 21*24*time.Hour, 10*time.Second,
			ibcclienttypes.NewHeight(1, uint64(c.Height+200)), ibccommitment.GetSDKSpecs(), []string{"upgrade", "upgradedIBCState"})
		anyCS, err := ibcclienttypes.PackClientState(cs.ZeroCustomFields())
		must(err)
		return one(&ibcclienttypes.MsgIBCSoftwareUpgrade{Plan: upgradetypes.Plan{Name: fmt.Sprintf("ibc-v%d", r.Intn(1000)), Height: c.Height + 150}, UpgradedClientState: anyCS})
	}
	return nil
}

// setupRecoverableClients: an EXPIRED tendermint light client (07-tendermint-0) and an ACTIVE one with matching
// parameters at a greater height (07-tendermint-1), written the way the client keeper stores them, so that
// MsgRecoverClient has something to recover (its positive control).
func setupRecoverableClients(c *lib.Chain) {
	ctx := c.Ctx
	ck := c.App.IBCKeeper.ClientKeeper
	mk := func(h uint64, trusting time.Duration) *ibctm.ClientState {
		return ibctm.NewClientState("counterparty-1", ibctm.DefaultTrustLevel, trusting, 21*24*time.Hour, 10*time.Second,
			ibcclienttypes.NewHeight(1, h), ibccommitment.GetSDKSpecs(), []string{"upgrade", "upgradedIBCState"})
	}
	put := func(id string, cs *ibctm.ClientState, ts time.Time) {
		ck.SetClientState(ctx, id, cs)
		cons := ibctm.NewConsensusState(ts, ibccommitment.NewMerkleRoot([]byte("root-"+id)), make([]byte, 32))
		ck.SetClientConsensusState(ctx, id, cs.LatestHeight, cons)
		store := ck.ClientStore(ctx, id)
		ibctm.SetProcessedTime(store, cs.LatestHeight, uint64(ctx.BlockTime().UnixNano()))
		ibctm.SetProcessedHeight(store, cs.LatestHeight, ibcclienttypes.NewHeight(0, uint64(ctx.BlockHeight())))
	}
	now := c.Time
	put("07-tendermint-0", mk(10, time.Hour), now.Add(-3*time.Hour))
	put("07-tendermint-1", mk(20, 14*24*time.Hour), now)
}
