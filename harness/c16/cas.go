package main

// cas.go: the raw store update (x/gov MsgUpdateStore) — compare-and-set over a list of entries.
// Real handler vs the Coq model (Cases_C16cas.v) at handler level (partial writes visible), and
// the property's monitor, written independently in Go: an entry is applied only if the store's
// current value equals the stated old value; a failing update leaves nothing applied at tx level.

import (
	"bytes"
	"encoding/hex"
	"fmt"
	"strings"

	sdk "github.com/cosmos/cosmos-sdk/types"

	fxgovtypes "github.com/functionx/fx-core/v8/x/gov/types"

	"fxverif/lib"
)

type casEntry struct {
	Space    string `json:"space"`
	Key      string `json:"key_hex"`
	OldValue string `json:"old_hex"`
	Value    string `json:"new_hex"`
}

type casReplay struct {
	Seed    int64             `json:"seed"`
	Init    map[string]string `json:"initial_values"`
	Entries []casEntry        `json:"entries"`
	Level   string            `json:"delivery"`
	Outcome string            `json:"outcome"`
	Final   map[string]string `json:"final_values"`
	Problem string            `json:"problem"`
}

func optHex(s string) (string, bool) { // Coq `option bytes`
	if len(s) == 0 {
		return "(Some [])", true
	}
	b, err := hex.DecodeString(s)
	if err != nil {
		return "None", false
	}
	return "(Some " + lib.Bytes(b) + ")", true
}

func keyHex(s string) string { // KeyToBytes has no empty-string shortcut, but hex("") = []
	b, err := hex.DecodeString(s)
	if err != nil {
		return "None"
	}
	return "(Some " + lib.Bytes(b) + ")"
}

func (h *harness) casCases(sc *scenario, thorough bool) []string {
	c, r, rep := h.c, h.r, h.rep
	gov := lib.GovAuthority()
	known := []string{"erc20", "bank", "gov", "eth"}
	spaceID := func(s string) int64 {
		for i, k := range known {
			if k == s {
				return int64(i)
			}
		}
		return 99
	}
	keys := []string{"fe01", "fe02", "fe03aa", "fe04"}
	n := 160
	if thorough {
		n = 1200
	}
	var items []string
	for i := 0; i < n; i++ {
		ctx, _ := c.Ctx.CacheContext()
		// initial content
		type sk struct{ s, k string }
		cur := map[sk][]byte{} // present keys (value may be empty)
		var initCoq []string
		initJSON := map[string]string{}
		for _, s := range known {
			for _, k := range keys {
				if r.Chance(55) {
					var v []byte
					if !r.Chance(20) {
						v = make([]byte, 1+r.Intn(3))
						r.Read(v)
					} else {
						v = []byte{}
					}
					kb, _ := hex.DecodeString(k)
					ctx.KVStore(c.App.GetKey(s)).Set(kb, v)
					cur[sk{s, k}] = v
					initCoq = append(initCoq, fmt.Sprintf("((%d, %s), %s)", spaceID(s), lib.Bytes(kb), lib.Bytes(v)))
					initJSON[s+"/"+k] = hex.EncodeToString(v)
				}
			}
		}
		before := h.digest(ctx)
		// entries, simulated by the monitor's own map
		sim := map[sk][]byte{}
		for k, v := range cur {
			sim[k] = v
		}
		ne := 1 + r.Intn(4)
		var es []casEntry
		simOutcome := "ok" // what the property text + Go semantics demand
		applied, revisits := 0, 0
		for j := 0; j < ne; j++ {
			e := casEntry{Space: known[r.Pick(len(known))], Key: keys[r.Pick(len(keys))]}
			// a later entry often addresses a key an earlier entry of the SAME message already wrote: then the
			// compare must be against the value that earlier entry left, not against the pre-message value
			revisit := j > 0 && r.Chance(40)
			if revisit {
				revisits++
				prev := es[r.Pick(len(es))]
				e.Space, e.Key = prev.Space, strings.ToLower(prev.Key)
			}
			if r.Chance(6) && !revisit {
				e.Space = "nospace"
			}
			switch {
			case revisit:
			case r.Chance(3):
				e.Key = ""
			case r.Chance(3):
				e.Key = "zz"
			case r.Chance(3):
				e.Key = "fe0"
			case r.Chance(5):
				e.Key = strings.ToUpper(e.Key)
			}
			kcanon := strings.ToLower(e.Key)
			if pre, had := cur[sk{e.Space, kcanon}]; revisit && r.Chance(45) {
				// stale: the value the key had BEFORE the message (absent = empty)
				e.OldValue = ""
				if had {
					e.OldValue = hex.EncodeToString(pre)
				}
			} else if v, ok := sim[sk{e.Space, kcanon}]; ok && r.Chance(65) {
				e.OldValue = hex.EncodeToString(v)
			} else if ok && r.Chance(40) {
				e.OldValue = "" // empty old value against a present key: must NOT match (unless the value is empty)
			} else if !ok && r.Chance(70) {
				e.OldValue = ""
			} else {
				switch r.Intn(4) {
				case 0:
					e.OldValue = ""
				case 1:
					e.OldValue = "00"
				case 2:
					e.OldValue = "xy"
				default:
					e.OldValue = fmt.Sprintf("%02x", r.Intn(256))
				}
			}
			switch r.Intn(6) {
			case 0:
				e.Value = ""
			case 1:
				e.Value = "q"
			default:
				e.Value = fmt.Sprintf("%0*x", 2*(1+r.Intn(3)), r.Intn(256))
			}
			es = append(es, e)
			// the monitor's reading of one entry (only while no earlier entry failed)
			if simOutcome == "ok" {
				kb, kerr := hex.DecodeString(e.Key)
				ob, oerr := hex.DecodeString(e.OldValue)
				nb, nerr := hex.DecodeString(e.Value)
				switch {
				case spaceID(e.Space) == 99:
					simOutcome = "err"
				case kerr != nil || len(kb) == 0 || oerr != nil:
					simOutcome = "panic"
				case !bytes.Equal(sim[sk{e.Space, kcanon}], ob):
					simOutcome = "err"
				case nerr != nil:
					simOutcome = "panic"
				default:
					sim[sk{e.Space, kcanon}] = append([]byte{}, nb...)
					applied++
				}
			}
		}
		msg := &fxgovtypes.MsgUpdateStore{Authority: gov}
		for _, e := range es {
			msg.UpdateStores = append(msg.UpdateStores, fxgovtypes.UpdateStore{Space: e.Space, Key: e.Key, OldValue: e.OldValue, Value: e.Value})
		}

		// (1) handler level: direct server call, writes of earlier entries stay visible
		hctx, _ := ctx.CacheContext()
		err := h.directDeliver(hctx, sdk.MsgTypeURL(msg), msg)
		outcome := errClass(err)
		if outcome != "ok" && outcome != "panic" {
			outcome = "err"
		}
		finalJSON := map[string]string{}
		var finalCoq []string
		problem := ""
		for _, s := range known {
			for _, k := range keys {
				kb, _ := hex.DecodeString(k)
				st := hctx.KVStore(c.App.GetKey(s))
				if st.Has(kb) {
					v := st.Get(kb)
					finalJSON[s+"/"+k] = hex.EncodeToString(v)
					finalCoq = append(finalCoq, fmt.Sprintf("((%d, %s), Some %s)", spaceID(s), lib.Bytes(kb), lib.Bytes(v)))
					if sv, ok := sim[sk{s, k}]; !ok || !bytes.Equal(sv, v) {
						problem = fmt.Sprintf("key %s/%s holds %x but compare-and-set semantics give %x (present=%v)", s, k, v, sv, ok)
					}
				} else {
					finalCoq = append(finalCoq, fmt.Sprintf("((%d, %s), None)", spaceID(s), lib.Bytes(kb)))
					if _, ok := sim[sk{s, k}]; ok {
						problem = fmt.Sprintf("key %s/%s is absent but compare-and-set semantics leave a value", s, k)
					}
				}
			}
		}
		if outcome != simOutcome {
			problem = fmt.Sprintf("outcome %s, compare-and-set semantics give %s", outcome, simOutcome)
		}
		rep.Case(fmt.Sprintf("cas|%v", es), applied > 0 && ne > 1)
		if revisits > 0 {
			rep.Count("cas-same-key-twice")
		}
		rep.Count("cas-outcome:" + outcome)
		rep.Count(fmt.Sprintf("cas-applied=%d", applied))
		if problem != "" {
			rep.Fail(lib.Failure{Kind: "monitor", What: "raw store update is not a compare-and-set: " + problem, Sig: "C16:cas:handler",
				Replay: casReplay{Seed: c.Seed, Init: initJSON, Entries: es, Level: "B", Outcome: outcome, Final: finalJSON, Problem: problem}})
		}
		var esCoq []string
		for _, e := range es {
			o, _ := optHex(e.OldValue)
			v, _ := optHex(e.Value)
			esCoq = append(esCoq, fmt.Sprintf("mk_entry %d %s %s %s", spaceID(e.Space), keyHex(e.Key), o, v))
		}
		obs := map[string]string{"ok": "Ok", "err": "Err", "panic": "Panic"}[outcome]
		items = append(items, fmt.Sprintf("mk_cas_case [0; 1; 2; 3] %s %s %s %s", lib.List(initCoq), lib.List(esCoq), obs, lib.List(finalCoq)))

		// (2) tx level through the router: a failing update leaves nothing applied
		tctx, write := ctx.CacheContext()
		terr := h.routerDeliver(tctx, msg)
		if terr == nil {
			write()
		}
		after := h.digest(ctx)
		rep.Case(fmt.Sprintf("cas-tx|%v", es), applied > 0 && terr != nil)
		if terr != nil && len(before.diff(after)) > 0 {
			rep.Fail(lib.Failure{Kind: "monitor", What: fmt.Sprintf("failing raw store update left stores %v modified at tx level", before.diff(after)), Sig: "C16:cas:tx",
				Replay: casReplay{Seed: c.Seed, Init: initJSON, Entries: es, Level: "T", Outcome: errClass(terr), Problem: "stores changed"}})
		}
		if terr == nil && simOutcome != "ok" {
			rep.Fail(lib.Failure{Kind: "monitor", What: "raw store update accepted although an entry's old value does not match (" + simOutcome + ")", Sig: "C16:cas:accepted",
				Replay: casReplay{Seed: c.Seed, Init: initJSON, Entries: es, Level: "T", Outcome: "ok", Problem: "accepted"}})
		}
	}
	return items
}
