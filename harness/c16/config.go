package main

// config.go: non-default configurations.  A guard may be state dependent (a handler that consults a
// governance-settable switch before — or instead of — comparing the authority), so the authority sweep is
// repeated, for the privileged messages of the module concerned, on a branch of the state in which the switch
// has been turned OFF through the real governance-authorised message.  Monitor as everywhere: non-governance
// authority => error and every store byte-identical (relative to the configured branch).

import (
	"fmt"

	sdkmath "cosmossdk.io/math"
	"strings"

	sdk "github.com/cosmos/cosmos-sdk/types"
	banktypes "github.com/cosmos/cosmos-sdk/x/bank/types"
	distrtypes "github.com/cosmos/cosmos-sdk/x/distribution/types"
	ibctransfertypes "github.com/cosmos/ibc-go/v8/modules/apps/transfer/types"
	"github.com/ethereum/go-ethereum/common"
	evmtypes "github.com/evmos/ethermint/x/evm/types"

	crosschaintypes "github.com/functionx/fx-core/v8/x/crosschain/types"
	erc20types "github.com/functionx/fx-core/v8/x/erc20/types"
	fxgovtypes "github.com/functionx/fx-core/v8/x/gov/types"

	"fxverif/lib"
)

type config struct {
	Name    string
	Modules []string // type-URL prefixes of the privileged messages swept under it
	Apply   func(h *harness, ctx sdk.Context, rows []authMsg) error
}

func (h *harness) deliverGov(ctx sdk.Context, m sdk.Msg) error { return h.routerDeliver(ctx, m) }

func configs(sc *scenario) []config {
	gov := lib.GovAuthority()
	return []config{
		{Name: "erc20 disabled through governance (EnableErc20=false, EnableEVMHook=false)", Modules: []string{"/fx.erc20."},
			Apply: func(h *harness, ctx sdk.Context, _ []authMsg) error {
				p := h.c.App.Erc20Keeper.GetParams(ctx)
				p.EnableErc20, p.EnableEVMHook = false, false
				return h.deliverGov(ctx, &erc20types.MsgUpdateParams{Authority: gov, Params: p})
			}},
		{Name: "the ERC-20 contracts of the registered pairs have no code any more (contract accounts deleted, as after SELFDESTRUCT)", Modules: []string{"/fx.erc20."},
			Apply: func(h *harness, ctx sdk.Context, _ []authMsg) error {
				for _, a := range []common.Address{sc.pairERC20, sc.extERC20} {
					if err := h.c.App.EvmKeeper.DeleteAccount(ctx, a); err != nil {
						return err
					}
				}
				return nil
			}},
		{Name: "token conversion of the registered pair toggled off", Modules: []string{"/fx.erc20."},
			Apply: func(h *harness, ctx sdk.Context, _ []authMsg) error {
				return h.deliverGov(ctx, &erc20types.MsgToggleTokenConversion{Authority: gov, Token: sc.pairDenom})
			}},
		{Name: "gov switch params: every privileged message type and the bridge precompiles disabled", Modules: []string{"/fx.gov.", "/fx.evm.", "/fx.erc20.", "/fx.gravity."},
			Apply: func(h *harness, ctx sdk.Context, rows []authMsg) error {
				var urls []string
				for _, r := range rows {
					if r.URL != "/fx.gov.v1.MsgUpdateSwitchParams" {
						urls = append(urls, r.URL)
					}
				}
				return h.deliverGov(ctx, &fxgovtypes.MsgUpdateSwitchParams{Authority: gov, Params: fxgovtypes.SwitchParams{
					DisableMsgTypes: urls, DisablePrecompiles: []string{lib.CrosschainPrecompile.Hex(), lib.StakingPrecompile.Hex()}}})
			}},
		{Name: "crosschain pending switches off on every chain", Modules: []string{"/fx.gravity."},
			Apply: func(h *harness, ctx sdk.Context, _ []authMsg) error {
				for _, ch := range lib.ChainModules {
					p := h.c.XKeeper(ch).GetParams(ctx)
					p.EnableSendToExternalPending, p.EnableBridgeCallPending = false, false
					p.Oracles = nil
					if err := h.deliverGov(ctx, &crosschaintypes.MsgUpdateParams{ChainName: ch, Authority: gov, Params: p}); err != nil {
						return err
					}
				}
				return nil
			}},
		{Name: "evm calls and creation disabled", Modules: []string{"/ethermint.", "/fx.evm."},
			Apply: func(h *harness, ctx sdk.Context, _ []authMsg) error {
				p := h.c.App.EvmKeeper.GetParams(ctx)
				p.EnableCall, p.EnableCreate = false, false
				return h.deliverGov(ctx, &evmtypes.MsgUpdateParams{Authority: gov, Params: p})
			}},
		{Name: "bank sends disabled by default, ibc transfers disabled, withdraw addresses disabled", Modules: []string{"/cosmos.bank.", "/ibc.applications.transfer.", "/cosmos.distribution."},
			Apply: func(h *harness, ctx sdk.Context, _ []authMsg) error {
				bp := h.c.App.BankKeeper.GetParams(ctx)
				bp.DefaultSendEnabled = false
				if err := h.deliverGov(ctx, &banktypes.MsgUpdateParams{Authority: gov, Params: bp}); err != nil {
					return err
				}
				tp := h.c.App.IBCTransferKeeper.GetParams(ctx)
				tp.SendEnabled, tp.ReceiveEnabled = false, false
				if err := h.deliverGov(ctx, &ibctransfertypes.MsgUpdateParams{Signer: gov, Params: tp}); err != nil {
					return err
				}
				dp, err := h.c.App.DistrKeeper.Params.Get(ctx)
				if err != nil {
					return err
				}
				dp.WithdrawAddrEnabled = false
				dp.BaseProposerReward, dp.BonusProposerReward = sdkmath.LegacyZeroDec(), sdkmath.LegacyZeroDec() // deprecated: must be zero
				return h.deliverGov(ctx, &distrtypes.MsgUpdateParams{Authority: gov, Params: dp})
			}},
	}
}

// configSweep repeats the authority sweep of the concerned modules' privileged messages under each configuration.
func (h *harness) configSweep(sc *scenario, rows []authMsg, vs []variant, chains []string) {
	for _, cf := range configs(sc) {
		root, _ := h.c.Ctx.CacheContext()
		var err error
		func() {
			defer func() {
				if r := recover(); r != nil {
					err = errPanic(r)
				}
			}()
			err = cf.Apply(h, root, rows)
		}()
		if err != nil {
			h.rep.Fail(lib.Failure{Kind: "harness", What: "cannot set up configuration [" + cf.Name + "] with the governance authority: " + err.Error(), Sig: "C16:harness:config"})
			continue
		}
		h.root, h.config, h.baseDump = root, cf.Name, nil
		h.base = h.digest(root)
		h.rep.Count("configuration: " + cf.Name)
		for _, row := range rows {
			match := false
			for _, m := range cf.Modules {
				match = match || strings.HasPrefix(row.URL, m)
			}
			if !match {
				continue
			}
			pls := sc.build(row, h.r, chains[:2]) // per-chain messages: two chains per configuration
			for _, pl := range pls {
				h.exercise(row, pl, vs)
			}
		}
	}
}

type panicErr struct{ v interface{} }

func (p panicErr) Error() string   { return fmt.Sprintf("PANIC: %v", p.v) }
func errPanic(v interface{}) error { return panicErr{v} }
