// c16: privileged messages take effect only when issued by the governance authority.
//
//	c16 gen      writes Gen_AuthorityMsgs.v: table (1) from the RUNNING app (router routes x protobuf
//	             cosmos.msg.v1.signer option)
//	c16          for EVERY row of table (1) (and every bridge chain where the message has a chain_name):
//	             structure-aware payloads, authorities from variants.go, delivered
//	               A  through the real MsgServiceRouter handler, observing the handler's context directly
//	               T  through the real MsgServiceRouter handler inside a tx-style cache branch
//	               B  (fx-core's own servers) directly on the message server method, without the
//	                  router's ValidateBasic — "leaves every store unchanged" is about the handler
//	             monitor: error returned AND every KV/transient store byte-identical; positive control
//	             with the real governance authority; raw-store compare-and-set cases.
//	             Writes Cases_C16.v (guard decisions vs the model's guard for the comparison kind
//	             the translator read from the source) and Cases_C16cas.v (UpdateStore vs model).
package main

import (
	"context"
	"crypto/sha256"
	"encoding/json"
	"fmt"
	"os"
	"path/filepath"
	"reflect"
	"regexp"
	"sort"
	"strings"

	storetypes "cosmossdk.io/store/types"
	sdk "github.com/cosmos/cosmos-sdk/types"
	"google.golang.org/grpc"

	crosschainkeeper "github.com/functionx/fx-core/v8/x/crosschain/keeper"
	crosschaintypes "github.com/functionx/fx-core/v8/x/crosschain/types"
	erc20types "github.com/functionx/fx-core/v8/x/erc20/types"
	fxevmtypes "github.com/functionx/fx-core/v8/x/evm/types"
	fxgovkeeper "github.com/functionx/fx-core/v8/x/gov/keeper"
	fxgovtypes "github.com/functionx/fx-core/v8/x/gov/types"

	"fxverif/lib"
)

// ---------- direct access to fx-core's message servers (level B) ----------

type capture struct {
	methods map[string]directMethod // type URL -> method
}
type directMethod struct {
	srv     interface{}
	handler func(srv interface{}, ctx context.Context, dec func(interface{}) error, interceptor grpc.UnaryServerInterceptor) (interface{}, error)
	name    string
}

func (c *capture) RegisterService(sd *grpc.ServiceDesc, ss interface{}) {
	for _, m := range sd.Methods {
		m := m
		url := ""
		_, _ = m.Handler(nil, context.Background(), func(i interface{}) error {
			if msg, ok := i.(sdk.Msg); ok {
				url = sdk.MsgTypeURL(msg)
			}
			return nil
		}, func(context.Context, interface{}, *grpc.UnaryServerInfo, grpc.UnaryHandler) (interface{}, error) {
			return nil, nil
		})
		if url != "" {
			c.methods[url] = directMethod{srv: ss, handler: m.Handler, name: sd.ServiceName + "/" + m.MethodName}
		}
	}
}

func fxServers(c *lib.Chain) *capture {
	cp := &capture{methods: map[string]directMethod{}}
	crosschaintypes.RegisterMsgServer(cp, crosschainkeeper.NewMsgServerRouterImpl(c.App.CrosschainRouterKeeper))
	erc20types.RegisterMsgServer(cp, c.App.Erc20Keeper)
	fxevmtypes.RegisterMsgServer(cp, c.App.EvmKeeper)
	fxgovtypes.RegisterMsgServer(cp, fxgovkeeper.NewMsgServerImpl(c.App.GovKeeper))
	return cp
}

// ---------- state digests ----------

type digest map[string][32]byte

func (h *harness) digest(ctx sdk.Context) digest {
	d := digest{}
	for _, n := range h.kvNames {
		d[n] = hashStore(ctx.KVStore(h.c.App.GetKey(n)))
	}
	for _, n := range h.tNames {
		d["transient:"+n] = hashStore(ctx.KVStore(h.c.App.GetTKey(n)))
	}
	return d
}

func hashStore(st storetypes.KVStore) [32]byte {
	hh := sha256.New()
	it := st.Iterator(nil, nil)
	defer it.Close()
	var lenb [8]byte
	for ; it.Valid(); it.Next() {
		k, v := it.Key(), it.Value()
		lenb[0], lenb[1], lenb[2], lenb[3] = byte(len(k)>>24), byte(len(k)>>16), byte(len(k)>>8), byte(len(k))
		lenb[4], lenb[5], lenb[6], lenb[7] = byte(len(v)>>24), byte(len(v)>>16), byte(len(v)>>8), byte(len(v))
		hh.Write(lenb[:])
		hh.Write(k)
		hh.Write(v)
	}
	var out [32]byte
	copy(out[:], hh.Sum(nil))
	return out
}

func (a digest) diff(b digest) []string {
	var out []string
	for n, x := range a {
		if b[n] != x {
			out = append(out, n)
		}
	}
	sort.Strings(out)
	return out
}

// ---------- harness ----------

type harness struct {
	c        *lib.Chain
	rep      *lib.Report
	r        *lib.Rand
	kvNames  []string
	tNames   []string
	base     digest
	baseDump map[string][]string
	direct   *capture
	items    []string // Cases_C16.v
	urlIdx   map[string]bool
	tRot     int
	root     sdk.Context       // the state every delivery branches from: c.Ctx, or a branch with a governance switch turned off
	config   string            // "" = default configuration
	guards   map[string]string // type URL -> what the translator read of its handlers (for the replay)
}

type replayT struct {
	Seed        int64    `json:"seed"`
	Config      string   `json:"configuration,omitempty"` // governance switch turned off before the delivery ("" = default)
	SourceGuard string   `json:"source_guard,omitempty"`  // what the translator read of this type's handlers (position/kind of the guard)
	URL         string   `json:"type_url"`
	Variant     string   `json:"payload_variant"`
	Level       string   `json:"delivery"`
	Class       string   `json:"authority_class"`
	Authority   string   `json:"authority"`
	Msg         string   `json:"message"`
	Err         string   `json:"error"`
	Changed     []string `json:"stores_changed"`
	Diff        []string `json:"diff"`
}

func (h *harness) routerDeliver(ctx sdk.Context, msg sdk.Msg) (err error) {
	defer func() {
		if r := recover(); r != nil {
			err = fmt.Errorf("PANIC: %v", r)
		}
	}()
	hd := h.c.App.MsgServiceRouter().Handler(msg)
	if hd == nil {
		return fmt.Errorf("no route")
	}
	_, err = hd(ctx, msg)
	return err
}

func (h *harness) directDeliver(ctx sdk.Context, url string, msg sdk.Msg) (err error) {
	defer func() {
		if r := recover(); r != nil {
			err = fmt.Errorf("PANIC: %v", r)
		}
	}()
	m := h.direct.methods[url]
	_, err = m.handler(m.srv, ctx, func(i interface{}) error {
		reflect.ValueOf(i).Elem().Set(reflect.ValueOf(msg).Elem())
		return nil
	}, nil)
	return err
}

func clone(m sdk.Msg) sdk.Msg {
	n := reflect.New(reflect.TypeOf(m).Elem())
	n.Elem().Set(reflect.ValueOf(m).Elem())
	return n.Interface().(sdk.Msg)
}

func validateBasic(m sdk.Msg) bool {
	if v, ok := m.(sdk.HasValidateBasic); ok {
		return v.ValidateBasic() == nil
	}
	return true
}

func errClass(err error) string {
	if err == nil {
		return "ok"
	}
	s := err.Error()
	switch {
	case strings.HasPrefix(s, "PANIC"):
		return "panic"
	case strings.Contains(s, "expected gov account as only signer"), strings.Contains(s, "invalid authority"), strings.Contains(s, "unauthorized"), strings.Contains(s, "invalid signer"):
		return "invalid-authority"
	}
	return "other-error"
}

func main() {
	if len(os.Args) > 1 && os.Args[1] == "gen" {
		c := lib.NewChain(1, 1, nil)
		rows, routable, err := authMsgs(c)
		if err != nil || len(rows) == 0 {
			fmt.Fprintf(os.Stderr, "c16 gen: cannot build table (1): %v (%d rows)\n", err, len(rows))
			os.Exit(1)
		}
		must(writeTable(rows, routable))
		fmt.Printf("c16 gen: %d authority-carrying message types among %d routable messages\n", len(rows), routable)
		return
	}

	seed := lib.Seed()
	if os.Getenv("VERIF_MODE") == "replay" { // bin/replay: re-run the recorded seed and tier (the run is deterministic)
		if b, err := os.ReadFile(os.Getenv("VERIF_REPLAY")); err == nil {
			var rp struct {
				Seed int64  `json:"seed"`
				Tier string `json:"tier"`
			}
			if json.Unmarshal(b, &rp) == nil && rp.Seed != 0 {
				seed = rp.Seed
				os.Setenv("VERIF_SEED", fmt.Sprint(rp.Seed))
				os.Setenv("VERIF_TIER", rp.Tier)
			}
		}
	}
	r := lib.NewRand(seed)
	thorough := lib.Tier() == "thorough" || os.Getenv("VERIF_MODE") == "search"
	rep := lib.NewReport("C16")
	rep.Rule = "one case = (registered authority-carrying message type [x bridge chain] , payload accepted with the real governance authority, authority variant, delivery level A router/T router-in-tx-cache/B direct server method); monitor: non-governance authority => error AND all KV+transient stores byte-identical (observed on the handler's own context). non-trivial = the same payload with the governance authority was accepted and changed some store (so a missing guard would be visible); distinct by (type, chain/payload variant, authority class, level)"

	c := lib.NewChain(seed, 3, nil)
	h := &harness{c: c, rep: rep, r: r, urlIdx: map[string]bool{}}
	// every keeper that exposes its authority must hold the governance address (checked first: the
	// scenario below is set up with the governance authority and cannot work otherwise)
	h.checkKeeperAuthorities()
	var sc *scenario
	func() {
		defer func() {
			if e := recover(); e != nil {
				rep.Fail(lib.Failure{Kind: "harness", What: fmt.Sprintf("scenario set-up with the governance authority failed: %v", e), Sig: "C16:harness:setup"})
			}
		}()
		sc = setupScenario(c, r)
	}()
	if sc == nil {
		rep.Write()
		return
	}
	for n := range c.App.GetKVStoreKey() {
		h.kvNames = append(h.kvNames, n)
	}
	sort.Strings(h.kvNames)
	for n := range c.App.GetTransientStoreKey() {
		h.tNames = append(h.tNames, n)
	}
	sort.Strings(h.tNames)
	h.direct = fxServers(c)
	h.root = c.Ctx
	h.base = h.digest(h.root)
	h.guards = readGuardFacts()
	for url, g := range h.guards { // informational: which handlers compare case-insensitively
		if strings.Contains(g, "kind CmpEqualFold") {
			rep.Count("folding-handler:" + url)
		}
	}

	rows, routable, err := authMsgs(c)
	must(err)
	rep.Count(fmt.Sprintf("routable-msgs=%d", routable))
	rep.Count(fmt.Sprintf("authority-msgs=%d", len(rows)))

	vs := variants(c, r)
	chains := lib.ChainModules
	rounds := 1
	if thorough {
		rounds = 3
	}
	for round := 0; round < rounds; round++ {
		if round > 0 {
			vs = variants(c, r)
		}
		for _, row := range rows {
			pls := sc.build(row, r, chains)
			if pls == nil {
				rep.Notes = append(rep.Notes, "no structure-aware payload builder for "+row.URL+" (new message type?) — exercised with the zero payload only; add a builder in harness/c16/build.go")
				rep.Count("no-builder")
			}
			pls = append(pls, payload{Msg: zeroPayload(row), Variant: "zero-payload", NoPositive: "all fields but the authority are zero"})
			if row.PerChain {
				z := zeroPayload(row)
				reflect.ValueOf(z).Elem().FieldByName("ChainName").SetString(chains[r.Pick(len(chains))])
				pls = append(pls, payload{Msg: z, Variant: "zero-payload+chain", NoPositive: "all fields but authority and chain are zero"})
			}
			for _, pl := range pls {
				h.exercise(row, pl, vs)
			}
		}
	}

	h.configSweep(sc, rows, vs, chains)
	h.root, h.config, h.baseDump = c.Ctx, "", nil
	h.base = h.digest(h.root)

	casItems := h.casCases(sc, thorough)
	nestItems := h.nestedSweep(sc, rows, vs, chains)

	lib.WriteCases("Cases_C16.v", []string{"model.M_AuthorityTypes", "gen.Gen_Authority", "model.M_Authority", "model.M_AuthorityCorr"},
		"auth_case", h.items, "auth_mismatch "+runes(lib.GovAuthority()))
	lib.WriteCases("Cases_C16nest.v", []string{"model.M_AuthorityTypes", "gen.Gen_Authority", "model.M_Authority", "model.M_AuthorityCorr", "model.M_AuthNested", "model.M_AuthNestedCorr"},
		"nest_case", nestItems, "nest_mismatch "+runes(lib.GovAuthority()))
	lib.WriteCases("Cases_C16cas.v", []string{"model.M_Authority", "model.M_AuthorityCorr"}, "cas_case", casItems, "cas_mismatch")
	rep.Write()
}

// exercise one payload with the positive control and every authority variant
func (h *harness) exercise(row authMsg, pl payload, vs []variant) {
	rep, c := h.rep, h.c
	gov := lib.GovAuthority()
	_, hasDirect := h.direct.methods[row.URL]
	if row.InFx && !hasDirect {
		rep.Fail(lib.Failure{Kind: "harness", What: "fx-core message " + row.URL + " is routable but harness/c16 does not know its message server (add it to fxServers)", Sig: "C16:harness:noserver:" + row.URL})
	}

	// positive control: the governance authority is accepted and has an effect
	posOK, posEffect := false, false
	{
		m := clone(pl.Msg)
		setSigner(m, row.GoField, gov)
		ctx, _ := h.root.CacheContext()
		err := h.routerDeliver(ctx, m)
		posOK = err == nil
		if posOK {
			posEffect = len(h.base.diff(h.digest(ctx))) > 0
		}
		rep.Count("positive:" + errClass(err))
		if !posOK {
			rep.Count("positive-not-accepted:" + row.URL + ":" + pl.Variant + ":" + errClass(err))
		}
		if !posOK && pl.NoPositive == "" && h.config == "" {
			rep.Fail(lib.Failure{Kind: "harness", What: fmt.Sprintf("positive control failed: %s (%s) with the governance authority: %v", row.URL, pl.Variant, err),
				Sig: "C16:harness:positive:" + row.URL, Replay: map[string]string{"msg": fmt.Sprintf("%v", m)}})
		}
		if hasDirect && posOK && h.config == "" {
			ctx2, _ := h.root.CacheContext()
			if err := h.directDeliver(ctx2, row.URL, m); err != nil {
				rep.Fail(lib.Failure{Kind: "harness", What: fmt.Sprintf("direct server call of %s fails where the router succeeds: %v", row.URL, err), Sig: "C16:harness:direct:" + row.URL})
			}
		}
	}

	h.tRot++
	levels := []string{"A", "T"}
	if hasDirect {
		levels = append(levels, "B")
	}
	lite := pl.NoPositive != "" && !pl.Full // zero payloads etc.: the router delivery alone, the other levels add nothing there
	for vi, v := range vs {
		for _, lv := range levels {
			// the tx-cache delivery is dominated by A (same handler, writes discarded on error): a rotating quarter
			// of the authorities gets it, so that every (type, authority class) pair sees it over the payload variants
			if lv == "T" && (lite || h.config != "" || (vi+h.tRot)%4 != 0) {
				continue
			}
			if lv == "B" && lite {
				continue
			}
			m := clone(pl.Msg)
			setSigner(m, row.GoField, v.Value)
			ctx, _ := h.root.CacheContext()
			var err error
			switch lv {
			case "A":
				err = h.routerDeliver(ctx, m)
			case "T":
				txctx, write := ctx.CacheContext()
				err = h.routerDeliver(txctx, m)
				if err == nil {
					write()
				}
			case "B":
				err = h.directDeliver(ctx, row.URL, m)
			}
			after := h.digest(ctx)
			changed := h.base.diff(after)
			key := fmt.Sprintf("%s|%s|%s|%s|%s", row.URL, pl.Variant, v.Class, lv, h.config)
			rep.Case(key, posOK && posEffect)
			rep.Count("level=" + lv)
			rep.Count("outcome:" + errClass(err))

			isGov := isGovSpelling(v.Value)
			foldEq := strings.EqualFold(v.Value, gov)
			bad := ""
			switch {
			case isGov:
				// a valid spelling of the governance account: acceptance and rejection are both fine
				rep.Count("gov-spelling:" + v.Class + ":" + errClass(err))
			case lv == "B" && foldEq:
				// direct server call (no ValidateBasic): a string equal to the governance address up to
				// Unicode case folding that is NOT a decodable address. Unreachable through the router (level A
				// rejects it); recorded, not alarmed — see docs/C16.md "reading".
				rep.Count("direct-fold-lookalike:" + v.Class + ":" + errClass(err))
				if err == nil {
					h.note("observation (not a violation under the documented reading): " + row.URL + " called directly on its message server accepts the non-address string class " + v.Class + " that equals the governance address only under Unicode case folding; the router's ValidateBasic rejects it before the handler")
				}
			case err == nil:
				bad = "accepted"
			case len(changed) > 0:
				bad = "rejected but stores changed"
			}
			if bad != "" {
				var diff []string
				if h.baseDump == nil {
					h.baseDump = c.DumpAll(h.root)
				}
				diff = lib.DiffDumps(h.baseDump, c.DumpAll(ctx))
				es := ""
				if err != nil {
					es = err.Error()
				}
				rep.Fail(lib.Failure{Kind: "monitor",
					What: fmt.Sprintf("%s (%s)%s with non-governance authority class %s delivered %s: %s (stores changed: %v)", row.URL, pl.Variant, h.configText(), v.Class, lv, bad, changed),
					Sig:  "C16:authority:" + row.URL + ":" + bad,
					Replay: replayT{Seed: h.c.Seed, Config: h.config, SourceGuard: h.guards[row.URL], URL: row.URL, Variant: pl.Variant, Level: lv, Class: v.Class, Authority: v.Value,
						Msg: fmt.Sprintf("%v", m), Err: es, Changed: changed, Diff: diff}})
			}
			if len(rep.Samples) < 5 && v.Class == "gov-mixed-case" {
				rep.Sample(map[string]interface{}{"type": row.URL, "variant": pl.Variant, "authority_class": v.Class, "authority": v.Value, "level": lv, "outcome": errClass(err), "stores_changed": changed})
			}

			// correspondence with the model guard (every row; payloads the gov authority gets accepted)
			if posOK && lv != "T" {
				level := "LvRouter"
				if lv == "B" {
					level = "LvDirect"
				}
				it := fmt.Sprintf("mk_auth_case %s %s %s %s %s", coqStr(row.URL), level, lib.Bool(validateBasic(m)), coqAuth(v.Value), lib.Bool(err == nil))
				if !h.urlIdx[it] { // identical decisions (other chain / payload variant) are evaluated once
					h.urlIdx[it] = true
					h.items = append(h.items, it)
				}
			}
		}
	}
}

func (h *harness) configText() string {
	if h.config == "" {
		return ""
	}
	return " in configuration [" + h.config + "]"
}

// readGuardFacts: the rows harness/gen_c16 generated in this run (bin/check puts them next to the harness
// output), so that a replay can say what the source looks like: "url -> handler guard_idx kind against ..."
func readGuardFacts() map[string]string {
	out := map[string]string{}
	for _, p := range []string{filepath.Join(lib.OutDir(), "..", "gen", "Gen_Authority.v"), filepath.Join(lib.OutDir(), "..", "..", "..", "coq", "gen", "Gen_Authority.v")} {
		b, err := os.ReadFile(p)
		if err != nil {
			continue
		}
		re := regexp.MustCompile(`mk_handler "([^"]*)" "([^"]*)" "[^"]*" "([^"]*)" "[^"]*" \((-?\d+)\) (\w+) "([^"]*)" (true|false)`)
		for _, m := range re.FindAllStringSubmatch(string(b), -1) {
			fact := fmt.Sprintf("%s:%s guard statement #%s kind %s compared with %q call-before-guard=%s", m[2], m[3], m[4], m[5], m[6], m[7])
			if m[5] == "CmpGuardNotFirst" {
				fact += " — GuardNotFirst: the helper that compares the authority does something else first"
			}
			if out[m[1]] != "" {
				out[m[1]] += " | "
			}
			out[m[1]] += fact
		}
		break
	}
	return out
}

var noted = map[string]bool{}

func (h *harness) note(s string) {
	if !noted[s] && len(noted) < 12 {
		noted[s] = true
		h.rep.Notes = append(h.rep.Notes, s)
	}
}

// checkKeeperAuthorities: app/keepers/keepers.go hands `authAddr` to the keepers; every fx-core keeper
// that exposes it must hold exactly the governance module address.
func (h *harness) checkKeeperAuthorities() {
	gov := lib.GovAuthority()
	got := map[string]string{
		"erc20": h.c.App.Erc20Keeper.GetAuthority(),
		"evm":   h.c.App.EvmKeeper.GetAuthority().String(),
	}
	for _, ch := range lib.ChainModules {
		got["crosschain/"+ch] = h.c.XKeeper(ch).GetAuthority()
	}
	for n, a := range got {
		h.rep.Case("keeper-authority|"+n, true)
		if a != gov {
			h.rep.Fail(lib.Failure{Kind: "monitor", What: fmt.Sprintf("keeper %s holds authority %q, not the governance module address %q", n, a, gov),
				Sig: "C16:keeper-authority:" + n, Replay: map[string]string{"keeper": n, "authority": a, "gov": gov}})
		}
	}
}
