package main

import (
	"fmt"
	"sort"

	sdk "github.com/cosmos/cosmos-sdk/types"
	msgv1 "cosmossdk.io/api/cosmos/msg/v1"
	"google.golang.org/protobuf/proto"
	"google.golang.org/protobuf/reflect/protoreflect"
	"google.golang.org/protobuf/reflect/protoregistry"
	"google.golang.org/protobuf/types/descriptorpb"
	gogoproto "github.com/cosmos/gogoproto/proto"

	"fxverif/lib"
)

func main() {
	c := lib.NewChain(1, 1, nil)
	reg := c.App.InterfaceRegistry()
	urls := reg.ListImplementations(sdk.MsgInterfaceProtoName)
	sort.Strings(urls)
	files, err := gogoproto.MergedRegistry()
	if err != nil {
		panic(err)
	}
	_ = protoregistry.GlobalFiles
	for _, u := range urls {
		h := c.App.MsgServiceRouter().HandlerByTypeURL(u)
		d, err := files.FindDescriptorByName(protoreflect.FullName(u[1:]))
		if err != nil {
			fmt.Println(u, "NO DESCRIPTOR", err)
			continue
		}
		md := d.(protoreflect.MessageDescriptor)
		opts := md.Options().(*descriptorpb.MessageOptions)
		var signers []string
		if opts != nil && proto.HasExtension(opts, msgv1.E_Signer) {
			signers = proto.GetExtension(opts, msgv1.E_Signer).([]string)
		}
		hasAuth := md.Fields().ByName("authority") != nil
		fmt.Printf("%-70s handler=%v signers=%v hasAuthorityField=%v\n", u, h != nil, signers, hasAuth)
	}
}
