package main

// nested delivery: every privileged message wrapped in the REAL authz MsgExec (one and two levels deep, as a
// transaction of the would-be authority itself, and as a governance proposal would carry it: grantee = the
// governance account), with and without authz grants.  The inner handler must still see — and refuse — the
// inner message's own authority.  Writes Cases_C16nest.v (observed accept/reject vs model/M_AuthNested.v).

import (
	"fmt"
	"strings"

	codectypes "github.com/cosmos/cosmos-sdk/codec/types"
	sdk "github.com/cosmos/cosmos-sdk/types"
	"github.com/cosmos/cosmos-sdk/x/authz"

	"fxverif/lib"
)

type nnode struct {
	// leaf
	url  string
	msg  sdk.Msg
	auth string
	// exec
	exec    bool
	grantee string
	inner   []*nnode
}

func nLeaf(row authMsg, base sdk.Msg, auth string) *nnode {
	m := clone(base)
	setSigner(m, row.GoField, auth)
	return &nnode{url: row.URL, msg: m, auth: auth}
}

func nExec(grantee string, inner ...*nnode) *nnode {
	return &nnode{exec: true, grantee: grantee, inner: inner}
}

func (n *nnode) build() sdk.Msg {
	if !n.exec {
		return n.msg
	}
	var anys []*codectypes.Any
	for _, in := range n.inner {
		a, err := codectypes.NewAnyWithValue(in.build())
		must(err)
		anys = append(anys, a)
	}
	return &authz.MsgExec{Grantee: n.grantee, Msgs: anys}
}

// some leaf carries an authority that is not a spelling of the governance account
func (n *nnode) hasNonGov() bool {
	if !n.exec {
		return !isGovSpelling(n.auth)
	}
	for _, in := range n.inner {
		if in.hasNonGov() {
			return true
		}
	}
	return false
}

func decode(a string) []byte {
	bz, err := sdk.AccAddressFromBech32(a)
	if err != nil {
		return nil
	}
	return bz
}

func coqBytes(bz []byte) string {
	s := make([]string, len(bz))
	for i, b := range bz {
		s[i] = fmt.Sprint(b)
	}
	return "[" + strings.Join(s, "; ") + "]"
}

func coqOptBytes(bz []byte) string {
	if bz == nil {
		return "None"
	}
	return "(Some " + coqBytes(bz) + ")"
}

func (n *nnode) coq() string {
	if !n.exec {
		return fmt.Sprintf("(NLeaf (mk_nleaf %s %s %s %s))", coqStr(n.url), lib.Bool(validateBasic(n.msg)), coqAuth(n.auth), coqOptBytes(decode(n.auth)))
	}
	in := make([]string, len(n.inner))
	for i, x := range n.inner {
		in[i] = x.coq()
	}
	return "(NExec " + coqOptBytes(decode(n.grantee)) + " [" + strings.Join(in, "; ") + "])"
}

func govGranted(gs []grantT, govBz []byte) bool {
	for _, g := range gs {
		if string(g.granter) == string(govBz) {
			return true
		}
	}
	return false
}

type grantT struct {
	granter, grantee []byte
	url              string
}

func (h *harness) nestedSweep(sc *scenario, rows []authMsg, vs []variant, chains []string) []string {
	rep, c := h.rep, h.c
	gov := lib.GovAuthority()
	govBz := decode(gov)
	user := lib.CosmosKey(c.Seed, "c16-nest-user", 1).Acc()
	execURL := sdk.MsgTypeURL(&authz.MsgExec{})
	var items []string
	seen := map[string]bool{}

	run := func(row authMsg, shape, class string, tree *nnode, grants []grantT, txLevel, positive, emit bool) {
		ctx, _ := c.Ctx.CacheContext()
		for _, g := range grants {
			must(c.App.AuthzKeeper.SaveGrant(ctx, g.grantee, g.granter, authz.NewGenericAuthorization(g.url), nil))
		}
		base := h.digest(ctx)
		m := tree.build()
		var err error
		if txLevel {
			txctx, write := ctx.CacheContext()
			err = h.routerDeliver(txctx, m)
			if err == nil {
				write()
			}
		} else {
			err = h.routerDeliver(ctx, m)
		}
		changed := base.diff(h.digest(ctx))
		rep.Case(fmt.Sprintf("nested|%s|%s|%s", row.URL, shape, class), true)
		rep.Count("nested-shape=" + shape + ":" + errClass(err))
		bad := ""
		switch {
		case positive:
			if err != nil {
				rep.Fail(lib.Failure{Kind: "harness", What: fmt.Sprintf("nested positive control failed: %s wrapped as %s with the governance authority: %v", row.URL, shape, err), Sig: "C16:harness:nested-positive:" + row.URL})
			}
		case !tree.hasNonGov() && (decode(tree.grantee) == nil || isGovSpelling(tree.grantee) || govGranted(grants, govBz)):
			// every leaf carries the governance authority and the executor is the governance account or holds a grant
			// given by it (governance delegated): acceptance and rejection are both fine
		case err == nil:
			bad = "accepted"
		case len(changed) > 0:
			bad = "rejected but stores changed"
		}
		if bad != "" {
			es := ""
			if err != nil {
				es = err.Error()
			}
			rep.Fail(lib.Failure{Kind: "monitor",
				What: fmt.Sprintf("%s wrapped in authz MsgExec (%s) by a non-governance executor / with non-governance authority class %s: %s (stores changed: %v)", row.URL, shape, class, bad, changed),
				Sig:  "C16:authority:nested:" + row.URL + ":" + bad,
				Replay: map[string]interface{}{"seed": c.Seed, "type_url": row.URL, "shape": shape, "authority_class": class, "message": fmt.Sprintf("%v", m),
					"grants": fmt.Sprintf("%v", grants), "tx_level": txLevel, "error": es, "stores_changed": changed}})
		}
		var gs []string
		for _, g := range grants {
			gs = append(gs, fmt.Sprintf("(%s, %s, %s)", coqBytes(g.granter), coqBytes(g.grantee), coqStr(g.url)))
		}
		it := fmt.Sprintf("mk_nest_case [%s] %s %s", strings.Join(gs, "; "), tree.coq(), lib.Bool(err == nil))
		// every delivery is monitored; the model re-evaluation (coqc parses ~0.5 kB per case) gets the controls, every
		// accepted delivery and a rotating fifth of the rest
		if (emit || err == nil) && !seen[it] {
			seen[it] = true
			items = append(items, it)
		}
	}

	for ri, row := range rows {
		var pl *payload
		for _, p := range sc.build(row, h.r, chains[:1]) {
			if p.NoPositive == "" {
				q := p
				pl = &q
				break
			}
		}
		if pl == nil {
			rep.Count("nested-skipped-no-positive-payload:" + row.URL)
			continue
		}
		{ // the plain message must be accepted from the governance authority, else the wrapped controls mean nothing
			ctx, _ := c.Ctx.CacheContext()
			if err := h.routerDeliver(ctx, nLeaf(row, pl.Msg, gov).build()); err != nil {
				rep.Count("nested-skipped-plain-positive-fails:" + row.URL)
				continue
			}
		}
		G := func() *nnode { return nLeaf(row, pl.Msg, gov) }
		// controls that do not depend on the authority variant
		run(row, "exec[gov](M[gov])", "gov", nExec(gov, G()), nil, false, true, true)
		run(row, "exec[gov](exec[gov](M[gov]))", "gov", nExec(gov, nExec(gov, G())), nil, true, true, true)
		run(row, "exec[user](M[gov]) no grant", "gov", nExec(user.String(), G()), nil, false, false, true)
		run(row, "exec[user](exec[gov](M[gov])) no grant", "gov", nExec(user.String(), nExec(gov, G())), nil, true, false, true)
		run(row, "exec[user](M[gov]) granted by gov", "gov", nExec(user.String(), G()), []grantT{{govBz, user, row.URL}}, false, false, true)
		run(row, "exec[user](M[gov]) granted by user to gov", "gov", nExec(user.String(), G()), []grantT{{user, govBz, row.URL}}, false, false, true)

		for vi, v := range vs {
			if (vi+ri)%4 != 0 && !strings.HasPrefix(v.Class, "gov-") {
				continue
			}
			emit := (vi+2*ri)%5 == 0
			X := func() *nnode { return nLeaf(row, pl.Msg, v.Value) }
			xb := decode(v.Value)
			run(row, "exec[X](M[X])", v.Class, nExec(v.Value, X()), nil, false, false, emit)
			run(row, "exec[gov](M[X]) no grant", v.Class, nExec(gov, X()), nil, false, false, emit)
			if xb != nil {
				gr := []grantT{{xb, govBz, row.URL}, {xb, govBz, execURL}}
				run(row, "exec[gov](M[X]) granted by X", v.Class, nExec(gov, X()), gr, false, false, emit)
				run(row, "exec[gov](M[gov],M[X]) granted by X, tx", v.Class, nExec(gov, G(), X()), gr, true, false, emit)
				run(row, "exec[gov](exec[X](M[X])) granted by X, tx", v.Class, nExec(gov, nExec(v.Value, X())), gr, true, false, emit)
				run(row, "exec[X](exec[X](M[X]))", v.Class, nExec(v.Value, nExec(v.Value, X())), nil, false, false, emit)
			}
		}
	}
	rep.Count(fmt.Sprintf("nested-cases=%d", len(items)))
	return items
}
