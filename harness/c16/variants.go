package main

// variants.go: the authorities a privileged message is tried with.

import (
	"encoding/hex"
	"fmt"
	"sort"
	"strings"
	"unicode"

	sdk "github.com/cosmos/cosmos-sdk/types"
	"github.com/cosmos/cosmos-sdk/types/bech32"
	authtypes "github.com/cosmos/cosmos-sdk/x/auth/types"
	govtypes "github.com/cosmos/cosmos-sdk/x/gov/types"
	"github.com/ethereum/go-ethereum/common"

	fxapp "github.com/functionx/fx-core/v8/app"

	"fxverif/lib"
)

type variant struct {
	Class string
	Value string
}

func flipCaseAt(s string, i int) string {
	b := []rune(s)
	if unicode.IsLower(b[i]) {
		b[i] = unicode.ToUpper(b[i])
	} else {
		b[i] = unicode.ToLower(b[i])
	}
	return string(b)
}

func reprefix(hrp string, bz []byte) string {
	s, err := bech32.ConvertAndEncode(hrp, bz)
	must(err)
	return s
}

// variants: every class of the property's quantifier ("arbitrary non-governance authorities,
// including other module accounts and look-alike encodings") plus spellings of the governance
// address itself that a comparison could mistake (or rightly take) for it.
func variants(c *lib.Chain, r *lib.Rand) []variant {
	gov := lib.GovAuthority()
	govBz := authtypes.NewModuleAddress(govtypes.ModuleName)
	hrp := sdk.GetConfig().GetBech32AccountAddrPrefix()
	var vs []variant
	add := func(class, v string) { vs = append(vs, variant{class, v}) }

	// unrelated accounts
	add("random-account", lib.EthKey(c.Seed, "c16-rand", r.Intn(1<<20)).Acc().String())
	add("random-account", lib.CosmosKey(c.Seed, "c16-rand", r.Intn(1<<20)).Acc().String())
	rb := make([]byte, 20)
	r.Read(rb)
	add("random-account", sdk.AccAddress(rb).String())
	rb32 := make([]byte, 32)
	r.Read(rb32)
	add("random-account-32", sdk.AccAddress(rb32).String())
	add("validator-account", c.ValKeys[0].Acc().String())
	add("validator-operator", c.ValKeys[0].Val().String())

	// every module account of the app, and module names that own no account
	names := []string{}
	for n := range fxapp.GetMaccPerms() {
		names = append(names, n)
	}
	for _, n := range []string{"crosschain", "upgrade", "migrate", "fxgov", "auth", "bank", "staking", "Gov", "gov "} {
		names = append(names, n)
	}
	sort.Strings(names)
	for _, n := range names {
		if n == govtypes.ModuleName {
			continue
		}
		add("module-account:"+n, authtypes.NewModuleAddress(n).String())
	}

	// spellings of the governance address
	add("gov-upper", strings.ToUpper(gov))
	dataStart := len(hrp) + 1
	letters := []int{}
	for i := dataStart; i < len(gov); i++ {
		if gov[i] >= 'a' && gov[i] <= 'z' {
			letters = append(letters, i)
		}
	}
	add("gov-mixed-case", flipCaseAt(gov, letters[r.Pick(len(letters))]))
	add("gov-mixed-case", flipCaseAt(gov, letters[len(letters)-1]))
	add("gov-hrp-upper", strings.ToUpper(hrp)+gov[len(hrp):])
	if i := strings.IndexByte(gov[dataStart:], 'k'); i >= 0 {
		add("gov-unicode-fold", gov[:dataStart+i]+"\u212a"+gov[dataStart+i+1:])
	}
	if i := strings.IndexByte(gov[dataStart:], 's'); i >= 0 {
		add("gov-unicode-fold", gov[:dataStart+i]+"\u017f"+gov[dataStart+i+1:])
	}
	// homoglyph (Cyrillic a, e, c, x, p) - not a case fold
	for _, h := range [][2]string{{"a", "\u0430"}, {"e", "\u0435"}, {"c", "\u0441"}, {"x", "\u0445"}, {"p", "\u0440"}} {
		if i := strings.Index(gov[dataStart:], h[0]); i >= 0 {
			add("gov-homoglyph", gov[:dataStart+i]+h[1]+gov[dataStart+i+1:])
			break
		}
	}
	for _, p := range []string{"fx", "cosmos", "evmos", "fxvaloper", "cosmosvaloper", "gov"} {
		if p != hrp {
			add("gov-bech32-prefix:"+p, reprefix(p, govBz))
		}
	}
	add("gov-hex", "0x"+hex.EncodeToString(govBz))
	add("gov-hex-eip55", common.BytesToAddress(govBz).Hex())
	add("gov-hex-bare", hex.EncodeToString(govBz))
	add("gov-hex-upper", "0X"+strings.ToUpper(hex.EncodeToString(govBz)))
	for _, w := range [][2]string{{" ", ""}, {"", " "}, {"", "\n"}, {"\t", ""}, {"", "\x00"}, {"\ufeff", ""}, {"", "\u200b"}} {
		add("gov-whitespace", w[0]+gov+w[1])
	}
	add("empty", "")
	add("gov-truncated", gov[:len(gov)-1])
	add("gov-extended", gov+"q")
	last := gov[len(gov)-1]
	repl := byte('q')
	if last == 'q' {
		repl = 'p'
	}
	add("gov-bad-checksum", gov[:len(gov)-1]+string(repl))
	add("gov-twice", gov+gov)
	flipped := append([]byte{}, govBz...)
	flipped[r.Intn(len(flipped))] ^= 1 << uint(r.Intn(8))
	add("gov-bitflip", sdk.AccAddress(flipped).String())
	add("gov-padded-32", sdk.AccAddress(append(make([]byte, 12), govBz...)).String())
	add("gov-prefix-of-32", sdk.AccAddress(append(append([]byte{}, govBz...), make([]byte, 12)...)).String())
	add("module-name", govtypes.ModuleName)
	add("non-utf8", "\xff"+gov)
	add("non-utf8", gov[:dataStart]+"\xc0\xaf"+gov[dataStart+2:])
	return vs
}

// isGovSpelling: the reading of "its authority is the governance module account" used by the
// monitor.  An authority string IS the governance account iff it is a valid bech32 spelling, under
// the chain's account prefix, of the governance module address (the canonical lower-case string or
// the all-upper-case one).  Everything else is "another authority".
func isGovSpelling(a string) bool {
	if a == lib.GovAuthority() {
		return true
	}
	bz, err := sdk.AccAddressFromBech32(a)
	if err != nil {
		return false
	}
	return bz.Equals(authtypes.NewModuleAddress(govtypes.ModuleName))
}

// coqAuth renders an authority for the Coq case file: printable ASCII as a string literal (A "..."),
// anything else as the explicit list of code points (U [...]).
func coqAuth(s string) string {
	for i := 0; i < len(s); i++ {
		if s[i] < 32 || s[i] > 126 {
			return "(U " + runes(s) + ")"
		}
	}
	return "(A " + coqStr(s) + ")"
}

func runes(s string) string {
	rs := []rune(s)
	out := make([]string, len(rs))
	for i, x := range rs {
		out[i] = fmt.Sprintf("%d", x)
	}
	return "[" + strings.Join(out, "; ") + "]"
}
