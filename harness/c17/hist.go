package main

// hist.go: one long mixed history on the REAL application, generated from the seed (and from the
// chain state the history itself produced).  Everything here must be deterministic in the driver:
// no map iteration, no wall clock, keys and signatures derived from the seed.

import (
	"crypto/ecdsa"
	"crypto/sha256"
	"encoding/hex"
	"fmt"
	"math/big"
	"sort"
	"strings"
	"time"

	errorsmod "cosmossdk.io/errors"
	sdkmath "cosmossdk.io/math"
	abci "github.com/cometbft/cometbft/abci/types"
	clienttx "github.com/cosmos/cosmos-sdk/client/tx"
	codectypes "github.com/cosmos/cosmos-sdk/codec/types"
	sdk "github.com/cosmos/cosmos-sdk/types"
	"github.com/cosmos/cosmos-sdk/types/tx/signing"
	authsigning "github.com/cosmos/cosmos-sdk/x/auth/signing"
	banktypes "github.com/cosmos/cosmos-sdk/x/bank/types"
	distrtypes "github.com/cosmos/cosmos-sdk/x/distribution/types"
	govv1 "github.com/cosmos/cosmos-sdk/x/gov/types/v1"
	stakingtypes "github.com/cosmos/cosmos-sdk/x/staking/types"
	"github.com/ethereum/go-ethereum/common"
	"github.com/ethereum/go-ethereum/crypto"

	"github.com/functionx/fx-core/v8/contract"
	fxtypes "github.com/functionx/fx-core/v8/types"
	crosschainprecompile "github.com/functionx/fx-core/v8/x/crosschain/precompile"
	crosschaintypes "github.com/functionx/fx-core/v8/x/crosschain/types"
	erc20types "github.com/functionx/fx-core/v8/x/erc20/types"
	fxgovtypes "github.com/functionx/fx-core/v8/x/gov/types"
	migratetypes "github.com/functionx/fx-core/v8/x/migrate/types"
	stakingprecompile "github.com/functionx/fx-core/v8/x/staking/precompile"
	fxstakingtypes "github.com/functionx/fx-core/v8/x/staking/types"

	"fxverif/lib"
)

// ---------- trace ----------

type OpRes struct {
	Kind   string   `json:"kind"`
	Code   string   `json:"code"` // "ok" or codespace/code of the error (messages are not consensus data)
	Gas    uint64   `json:"gas,omitempty"`
	Data   string   `json:"data,omitempty"` // sha256 of the result data / return value
	Events []string `json:"events"`
	Info   string   `json:"info,omitempty"` // error text: informational only, never compared
}

type BlockRes struct {
	Height      int64    `json:"height"`
	AppHash     string   `json:"app_hash"`
	Ops         []OpRes  `json:"ops"`
	BlockEvents []string `json:"block_events"`
	TxResults   []string `json:"tx_results,omitempty"`
	Err         string   `json:"err,omitempty"`
}

func evStrings(evs []abci.Event) []string {
	out := make([]string, 0, len(evs))
	for _, e := range evs {
		var sb strings.Builder
		sb.WriteString(e.Type)
		for _, a := range e.Attributes {
			sb.WriteString("|" + a.Key + "=" + a.Value)
		}
		out = append(out, sb.String())
	}
	return out
}

func codeOf(err error) string {
	if err == nil {
		return "ok"
	}
	if strings.HasPrefix(err.Error(), "PANIC") {
		return "panic"
	}
	cs, code, _ := errorsmod.ABCIInfo(err, false)
	return fmt.Sprintf("%s/%d", cs, code)
}

func digest(b []byte) string {
	if len(b) == 0 {
		return ""
	}
	h := sha256.Sum256(b)
	return hex.EncodeToString(h[:8])
}

// ---------- world ----------

type world struct {
	c                  *lib.Chain
	r                  *lib.Rand
	users              []lib.Key // eth keys (fx-core account type)
	cusers             []lib.Key // cosmos secp256k1 keys (migration sources, plain signers)
	chains             []string
	xs                 map[string]*lib.XChain // indexed, never ranged
	toks               []*lib.Token
	height             uint64 // external block height counter for claims
	voting             int
	bfCases            []string
	mode               string    // "plain" | "noise" (extra non-committed activity: Simulate/CheckTx) | "restart" (new app object on the same DB now and then)
	nr                 *lib.Rand // driver-side randomness of the mode (never influences the history)
	noise              [][]byte  // transactions that are only simulated / check-tx'ed in noise mode, never delivered
	execd              map[string]uint64
	restarts, noises   int
	mustPass, votedAll map[uint64]bool // indexed only
	sacrID             []byte
	sacr               string // a sacrificial erc20 pair: its stored record gets corrupted by a passed MsgUpdateStore proposal
	panicStage         int    // 0 nothing yet, 1 corrupting proposal submitted, 2 toggle proposal (handler panics) submitted
	migN               int
	cur                []OpRes
	stats              map[string]int
	statK              []string
	txs                [][]byte
	txKinds            []string
	seqOff             map[string]uint64       // per block, indexed only
	backlog            map[string][]claimMaker // per chain: claims by event nonce (index 0 = nonce base+1)
	base               map[string]uint64
}

type claimMaker struct {
	kind string
	mk   func(nonce uint64) crosschaintypes.ExternalClaim
}

func (w *world) count(k string) {
	if _, ok := w.stats[k]; !ok {
		w.statK = append(w.statK, k)
	}
	w.stats[k]++
}

func newWorld(seed int64, histSeed int64, mode string) *world {
	c := lib.NewChain(seed, 4, nil)
	w := &world{c: c, r: lib.NewRand(histSeed), chains: []string{"eth", "bsc", "tron"}, xs: map[string]*lib.XChain{}, stats: map[string]int{}, height: 1000,
		seqOff: map[string]uint64{}, backlog: map[string][]claimMaker{}, base: map[string]uint64{},
		mode: mode, nr: lib.NewRand(histSeed ^ 0x5eed), execd: map[string]uint64{}, mustPass: map[uint64]bool{}, votedAll: map[uint64]bool{}}
	for i := 0; i < 6; i++ {
		u := lib.EthKey(seed, "c17-user", i)
		w.users = append(w.users, u)
		c.Mint(u.Acc(), lib.FX(200_000))
		c.EnsureAccount(c.Ctx, u.Acc())
	}
	for i := 0; i < 8; i++ {
		u := lib.CosmosKey(seed, "c17-cuser", i)
		w.cusers = append(w.cusers, u)
		c.Mint(u.Acc(), lib.FX(50_000))
		acc := c.App.AccountKeeper.GetAccount(c.Ctx, u.Acc())
		lib.Must(acc.SetPubKey(u.Priv.PubKey()))
		c.App.AccountKeeper.SetAccount(c.Ctx, acc)
	}
	for _, v := range c.ValKeys {
		c.Mint(v.Acc(), lib.FX(100_000))
	}
	stakes := map[string][]int64{"eth": {10_000, 14_000, 21_000, 30_000, 11_000, 10_000, 10_500}, "bsc": {10_000, 25_000, 12_000, 10_100, 10_200}, "tron": {16_000, 10_000, 13_000, 10_300}}
	for _, ch := range w.chains {
		x := c.X(ch)
		x.SetupOracles(stakes[ch])
		w.xs[ch] = x
	}
	w.toks = append(w.toks, c.SetupFX(w.chains))
	t1, err := c.SetupModuleOwned("USDV", 1, w.chains, "channel-0")
	lib.Must(err)
	w.toks = append(w.toks, t1)
	sac, err := c.SetupModuleOwned("SACR", 7, []string{"eth"}, "")
	lib.Must(err)
	w.sacr = sac.Base
	openTransferChannel(c, "channel-0")
	mintIBCVouchers(c, t1.IBCDenom, 1_000_000_000_000)
	t2, err := c.SetupExternal("EXTT", 2, w.users[0], []string{"eth", "bsc"})
	lib.Must(err)
	w.toks = append(w.toks, t2)
	// the external token's owner mints a supply for the users
	for _, u := range w.users {
		lib.Must(c.ERC20OwnerMint(c.Ctx, t2.ERC20, w.users[0], u.Hex(), big.NewInt(1_000_000_000)))
	}
	// initial bridged-in balances for every user and token, delegations for the first three users
	for ui, u := range w.users {
		for _, ch := range w.chains {
			for _, t := range w.toks {
				a := t.Alias(ch)
				if a == nil || (ui+len(ch))%2 == 0 {
					continue
				}
				uu, h := u, w.height
				w.observe("SendToFxClaim", ch, func(n uint64) crosschaintypes.ExternalClaim {
					return &crosschaintypes.MsgSendToFxClaim{EventNonce: n, BlockHeight: h, TokenContract: a.Contract, Amount: sdkmath.NewInt(50_000_000),
						Sender: lib.ExternalAccount(seed, ch, 3), Receiver: uu.Acc().String(), TargetIbc: ""}
				})
			}
		}
		if ui < 3 {
			for vi, vk := range c.ValKeys {
				if (ui+vi)%2 == 0 {
					_, err := c.App.StakingKeeper.Delegate(c.Ctx, u.Acc(), sdkmath.NewInt(1000+int64(ui*37+vi)).MulRaw(1e18), stakingtypes.Unbonded, mustVal(c, vk), true)
					lib.Must(err)
				}
			}
		}
	}
	w.cur = nil
	return w
}

func mustVal(c *lib.Chain, vk lib.Key) stakingtypes.Validator {
	v, err := c.App.StakingKeeper.GetValidator(c.Ctx, vk.Val())
	lib.Must(err)
	return v
}

// op runs f on a cache branch with its own event manager (what a message execution does) and records
// code, gas, events.
func (w *world) op(kind string, f func(ctx sdk.Context) ([]byte, error)) bool {
	c := w.c
	cctx, write := c.Ctx.CacheContext()
	em := sdk.NewEventManager()
	cctx = cctx.WithEventManager(em)
	gasBefore := cctx.GasMeter().GasConsumed()
	var data []byte
	var err error
	func() {
		defer func() {
			if r := recover(); r != nil {
				err = fmt.Errorf("PANIC: %v", r)
			}
		}()
		data, err = f(cctx)
	}()
	res := OpRes{Kind: kind, Code: codeOf(err), Gas: cctx.GasMeter().GasConsumed() - gasBefore, Data: digest(data)}
	if err == nil {
		write()
		res.Events = evStrings(em.ABCIEvents())
	} else {
		res.Info = err.Error()
	}
	w.cur = append(w.cur, res)
	w.count(kind + ":" + map[bool]string{true: "ok", false: "err"}[err == nil])
	return err == nil
}

// tx builds a fully signed transaction (SIGN_MODE_DIRECT) and queues it for the block being built: it is
// delivered by the real FinalizeBlock (decode, ValidateBasic, the whole ante chain with signature
// verification and fee deduction, message routing); its result is read from the block response.
func (w *world) tx(kind string, signer lib.Key, msgs ...sdk.Msg) {
	acc := w.c.App.AccountKeeper.GetAccount(w.c.Ctx, signer.Acc())
	if acc == nil {
		w.cur = append(w.cur, OpRes{Kind: "tx:" + kind, Code: "no-account"})
		return
	}
	seq := acc.GetSequence() + w.seqOff[signer.Acc().String()]
	w.seqOff[signer.Acc().String()]++
	w.txs = append(w.txs, w.signTx(signer, acc.GetAccountNumber(), seq, msgs...))
	w.txKinds = append(w.txKinds, kind)
}

// noiseTx: a valid signed transaction that is NEVER delivered: in noise mode it is simulated and
// check-tx'ed between blocks (what a node serving wallets does), in the other modes it is dropped.
// Built in every mode so that the history's PRNG stays in step.
func (w *world) noiseTx(signer lib.Key, msgs ...sdk.Msg) {
	acc := w.c.App.AccountKeeper.GetAccount(w.c.Ctx, signer.Acc())
	if acc == nil {
		return
	}
	w.noise = append(w.noise, w.signTx(signer, acc.GetAccountNumber(), acc.GetSequence()+w.seqOff[signer.Acc().String()], msgs...))
}

func (w *world) signTx(signer lib.Key, accNum, seq uint64, msgs ...sdk.Msg) []byte {
	c := w.c
	txCfg := c.App.GetTxConfig()
	b := txCfg.NewTxBuilder()
	lib.Must(b.SetMsgs(msgs...))
	b.SetGasLimit(3_000_000)
	b.SetFeeAmount(sdk.NewCoins(sdk.NewCoin(fxtypes.DefaultDenom, sdkmath.NewInt(12).MulRaw(1e18))))
	mode := signing.SignMode_SIGN_MODE_DIRECT
	lib.Must(b.SetSignatures(signing.SignatureV2{PubKey: signer.Priv.PubKey(), Data: &signing.SingleSignatureData{SignMode: mode}, Sequence: seq}))
	sd := authsigning.SignerData{ChainID: c.Ctx.ChainID(), AccountNumber: accNum, Sequence: seq, PubKey: signer.Priv.PubKey(), Address: signer.Acc().String()}
	sig, e := clienttx.SignWithPrivKey(c.Ctx, mode, sd, b, signer.Priv, txCfg, seq)
	lib.Must(e)
	lib.Must(b.SetSignatures(sig))
	bz, e := txCfg.TxEncoder()(b.GetTx())
	lib.Must(e)
	return bz
}

// nonCommitted: activity that must not influence block execution.  noise mode: every queued and every
// noise transaction is simulated and check-tx'ed (on the app's check/simulate state: branches that are
// dropped).  Results are ignored and never recorded.
func (w *world) nonCommitted() {
	noise := w.noise
	w.noise = nil
	if w.mode != "noise" {
		return
	}
	run := func(bz []byte) {
		defer func() { _ = recover() }()
		if w.nr.Chance(70) {
			_, _, _ = w.c.App.Simulate(bz)
		}
		if w.nr.Chance(50) {
			_, _ = w.c.App.CheckTx(&abci.RequestCheckTx{Tx: bz, Type: abci.CheckTxType_New})
		}
		w.noises++
	}
	for _, bz := range noise {
		run(bz)
	}
	for _, bz := range w.txs {
		if w.nr.Chance(30) {
			run(bz)
		}
	}
}

// maybeRestart (restart mode): right after a commit, now and then, a new application object is built on
// the same database: whatever lived only in the old object's memory is gone.
func (w *world) maybeRestart() string {
	if w.mode != "restart" || !w.nr.Chance(30) {
		return ""
	}
	if err := w.c.Restart(); err != nil {
		return err.Error()
	}
	for _, ch := range w.chains {
		w.xs[ch].Keeper = w.c.XKeeper(ch)
	}
	w.restarts++
	return ""
}

func (w *world) evm(ctx sdk.Context, from common.Address, to common.Address, value *big.Int, data []byte) ([]byte, error) {
	res := w.c.EvmCall(ctx, from, &to, value, 2_000_000, data)
	if res.Err != nil {
		return nil, res.Err
	}
	if res.Failed {
		return res.Ret, fmt.Errorf("evm: %s", res.VmError)
	}
	return res.Ret, nil
}

func (w *world) endBlock(dt time.Duration) BlockRes {
	c := w.c
	br := BlockRes{Ops: w.cur}
	w.cur = nil
	w.nonCommitted()
	txs, kinds := w.txs, w.txKinds
	w.txs, w.txKinds, w.seqOff = nil, nil, map[string]uint64{}
	resp, err := c.NextBlockResp(dt, txs)
	br.Height = c.Height
	if err != nil {
		br.Err = err.Error()
	} else if e := w.maybeRestart(); e != "" {
		br.Err = "restart: " + e
	}
	if resp != nil {
		br.AppHash = hex.EncodeToString(resp.AppHash)
		br.BlockEvents = evStrings(resp.Events)
		for i, tr := range resp.TxResults {
			code := "ok"
			if tr.Code != 0 {
				code = fmt.Sprintf("%s/%d", tr.Codespace, tr.Code)
			}
			kind := "?"
			if i < len(kinds) {
				kind = kinds[i]
			}
			o := OpRes{Kind: "tx:" + kind, Code: code, Gas: uint64(tr.GasUsed), Data: digest(tr.Data), Events: evStrings(tr.Events)}
			if tr.Code != 0 {
				o.Info = tr.Log
			}
			br.Ops = append(br.Ops, o)
			w.count("tx:" + kind + ":" + map[bool]string{true: "ok", false: "err"}[tr.Code == 0])
		}
	}
	w.height += 3
	return br
}

// ---------- operations ----------

func (w *world) pickChain() string { return w.chains[w.r.Pick(len(w.chains))] }

// observe: a new external event (claim) is appended to the chain's backlog; then every oracle, in a
// seed-chosen order, votes for the events it has not voted for yet — in nonce order, as the module
// demands — except that an oracle may stay silent this round and catch up later.
func (w *world) observe(kind, ch string, mk func(nonce uint64) crosschaintypes.ExternalClaim) {
	x := w.xs[ch]
	if len(w.backlog[ch]) == 0 {
		w.base[ch] = x.Keeper.GetLastObservedEventNonce(w.c.Ctx)
	}
	w.backlog[ch] = append(w.backlog[ch], claimMaker{kind, mk})
	w.catchUp(ch)
}

func (w *world) catchUp(ch string) {
	x := w.xs[ch]
	for _, i := range w.r.Perm(len(x.Oracles)) {
		if w.r.Chance(12) {
			continue
		}
		o := x.Oracles[i]
		if orc, found := x.Keeper.GetOracle(w.c.Ctx, o.Oracle.Acc()); !found || !orc.Online {
			if !w.r.Chance(5) { // an unbonded oracle rarely tries
				continue
			}
		}
		for steps := 0; steps < 8; steps++ {
			next := x.Keeper.GetLastEventNonceByOracle(w.c.Ctx, o.Oracle.Acc()) + 1
			if next <= w.base[ch] || next > w.base[ch]+uint64(len(w.backlog[ch])) {
				break
			}
			cm := w.backlog[ch][next-w.base[ch]-1]
			claim := cm.mk(next)
			ok := w.op(cm.kind+"/"+ch, func(ctx sdk.Context) ([]byte, error) {
				setClaimBridger(claim, o.Bridger.Acc().String(), ch)
				anyClaim, err := codectypes.NewAnyWithValue(claim)
				if err != nil {
					return nil, err
				}
				m := &crosschaintypes.MsgClaim{ChainName: ch, BridgerAddress: o.Bridger.Acc().String(), Claim: anyClaim}
				if err := m.ValidateBasic(); err != nil {
					return nil, err
				}
				_, err = x.Msg().Claim(ctx, m)
				return nil, err
			})
			if !ok {
				break
			}
		}
	}
}

func setClaimBridger(claim crosschaintypes.ExternalClaim, bridger, chain string) {
	switch c := claim.(type) {
	case *crosschaintypes.MsgSendToFxClaim:
		c.BridgerAddress, c.ChainName = bridger, chain
	case *crosschaintypes.MsgSendToExternalClaim:
		c.BridgerAddress, c.ChainName = bridger, chain
	case *crosschaintypes.MsgBridgeTokenClaim:
		c.BridgerAddress, c.ChainName = bridger, chain
	case *crosschaintypes.MsgOracleSetUpdatedClaim:
		c.BridgerAddress, c.ChainName = bridger, chain
	case *crosschaintypes.MsgBridgeCallClaim:
		c.BridgerAddress, c.ChainName = bridger, chain
	case *crosschaintypes.MsgBridgeCallResultClaim:
		c.BridgerAddress, c.ChainName = bridger, chain
	}
}

func (w *world) tokOn(ch string) (*lib.Token, *lib.BridgeAlias) {
	for tries := 0; tries < 6; tries++ {
		t := w.toks[w.r.Pick(len(w.toks))]
		if a := t.Alias(ch); a != nil {
			return t, a
		}
	}
	return w.toks[0], w.toks[0].Alias(ch)
}

func (w *world) ecdsaOf(k lib.Key) *ecdsa.PrivateKey {
	p, err := crypto.ToECDSA(k.ECDSAKeyBytes())
	lib.Must(err)
	return p
}

// step performs one seed-chosen operation
func (w *world) step() {
	c, r := w.c, w.r
	u := w.users[r.Pick(len(w.users))]
	v := w.users[r.Pick(len(w.users))]
	switch k := r.Intn(100); {
	case k < 16: // bridge in
		ch := w.pickChain()
		_, a := w.tokOn(ch)
		amt := sdkmath.NewInt(1_000 + r.Int63n(5_000_000))
		h := w.height
		target, kind := "", "SendToFxClaim"
		if r.Chance(35) { // onward over IBC: token with an IBC alias on the open transfer channel
			if ia := w.toks[1].Alias(ch); ia != nil {
				a = ia
				target, kind = hex.EncodeToString([]byte("px/transfer/"+w.toks[1].IBCChannel)), "SendToFxClaim(ibc)"
			}
		}
		w.observe(kind, ch, func(n uint64) crosschaintypes.ExternalClaim {
			return &crosschaintypes.MsgSendToFxClaim{EventNonce: n, BlockHeight: h, TokenContract: a.Contract, Amount: amt,
				Sender: lib.ExternalAccount(c.Seed, ch, 3), Receiver: u.Acc().String(), TargetIbc: target}
		})
	case k < 28: // bridge out (real tx)
		ch := w.pickChain()
		t, a := w.tokOn(ch)
		_ = a
		amt := 100 + r.Int63n(20_000)
		fee := 1 + r.Int63n(300)
		m := &crosschaintypes.MsgSendToExternal{Sender: u.Acc().String(), Dest: lib.ExternalAccount(c.Seed, ch, 1),
			Amount: lib.Coin(t.Base, amt), BridgeFee: lib.Coin(t.Base, fee), ChainName: ch}
		w.tx("SendToExternal/"+ch, u, m)
	case k < 33: // batch request + confirms
		ch := w.pickChain()
		t, a := w.tokOn(ch)
		x := w.xs[ch]
		// prefer a token that has transfers waiting in the pool
		var waiting []string
		x.Keeper.IterateUnbatchedTransactions(c.Ctx, "", func(tx *crosschaintypes.OutgoingTransferTx) bool {
			if len(waiting) == 0 || waiting[len(waiting)-1] != tx.Token.Contract {
				waiting = append(waiting, tx.Token.Contract)
			}
			return false
		})
		if len(waiting) > 0 {
			want := waiting[r.Pick(len(waiting))]
			for _, tk := range w.toks {
				if al := tk.Alias(ch); al != nil && al.Contract == want {
					t, a = tk, al
				}
			}
		}
		d := a.Denom
		if t.Kind == lib.TokFX {
			d = fxtypes.DefaultDenom
		}
		var nonce uint64
		ok := w.op("RequestBatch/"+ch, func(ctx sdk.Context) ([]byte, error) {
			m := &crosschaintypes.MsgRequestBatch{ChainName: ch, Sender: x.Oracles[0].Bridger.Acc().String(), Denom: d,
				MinimumFee: sdkmath.NewInt(1), FeeReceive: lib.ExternalAccount(c.Seed, ch, 7), BaseFee: sdkmath.ZeroInt()}
			if e := m.ValidateBasic(); e != nil {
				return nil, e
			}
			res, e := x.Msg().RequestBatch(ctx, m)
			if e == nil {
				nonce = res.BatchNonce
			}
			return nil, e
		})
		if ok && ch != "tron" {
			batch := x.Keeper.GetOutgoingTxBatch(c.Ctx, a.Contract, nonce)
			if batch != nil {
				cp, err := batch.GetCheckpoint(x.Keeper.GetGravityID(c.Ctx))
				if err == nil {
					for _, i := range r.Perm(len(x.Oracles)) {
						o := x.Oracles[i]
						sig, _ := crosschaintypes.NewEthereumSignature(cp, o.External)
						w.op("ConfirmBatch/"+ch, func(ctx sdk.Context) ([]byte, error) {
							_, e := x.Msg().ConfirmBatch(ctx, &crosschaintypes.MsgConfirmBatch{Nonce: nonce, TokenContract: a.Contract,
								BridgerAddress: o.Bridger.Acc().String(), ExternalAddress: o.ExtAddr, Signature: hex.EncodeToString(sig), ChainName: ch})
							return nil, e
						})
					}
				}
			}
		}
	case k < 38: // a batch executed on the external chain
		ch := w.pickChain()
		x := w.xs[ch]
		var found *crosschaintypes.OutgoingTxBatch
		x.Keeper.IterateOutgoingTxBatches(c.Ctx, func(b *crosschaintypes.OutgoingTxBatch) bool {
			found = b
			return true
		})
		if found != nil {
			h := w.height
			w.observe("SendToExternalClaim", ch, func(n uint64) crosschaintypes.ExternalClaim {
				return &crosschaintypes.MsgSendToExternalClaim{EventNonce: n, BlockHeight: h, BatchNonce: found.BatchNonce, TokenContract: found.TokenContract}
			})
		}
	case k < 44: // inbound bridge call carrying tokens
		ch := w.pickChain()
		_, a := w.tokOn(ch)
		amt := sdkmath.NewInt(500 + r.Int63n(100_000))
		h := w.height
		w.observe("BridgeCallClaim", ch, func(n uint64) crosschaintypes.ExternalClaim {
			return &crosschaintypes.MsgBridgeCallClaim{EventNonce: n, BlockHeight: h, Sender: lib.ExternalAccount(c.Seed, ch, 4),
				Refund: lib.ExternalAccount(c.Seed, ch, 5), TokenContracts: []string{a.Contract}, Amounts: []sdkmath.Int{amt},
				To: crosschaintypes.ExternalAddrToStr(ch, v.Hex().Bytes()), Data: "", Value: sdkmath.ZeroInt(), Memo: "", TxOrigin: lib.ExternalAccount(c.Seed, ch, 4)}
		})
	case k < 52: // erc20 conversions
		t := w.toks[1+r.Pick(len(w.toks)-1)]
		if r.Chance(55) {
			w.tx("ConvertCoin", u, &erc20types.MsgConvertCoin{Coin: lib.Coin(t.Base, 1+r.Int63n(50_000)), Receiver: v.Hex().Hex(), Sender: u.Acc().String()})
		} else {
			// (a MsgConvertERC20 cannot travel in a signed tx: ValidateBasic wants a hex sender, the signer
			// extraction a bech32 one — so it goes through the message server)
			w.op("ConvertERC20", func(ctx sdk.Context) ([]byte, error) {
				m := &erc20types.MsgConvertERC20{ContractAddress: t.ERC20.Hex(), Amount: sdkmath.NewInt(1 + r.Int63n(50_000)), Receiver: v.Acc().String(), Sender: u.Hex().Hex()}
				if e := m.ValidateBasic(); e != nil {
					return nil, e
				}
				_, e := c.App.Erc20Keeper.ConvertERC20(ctx, m)
				return nil, e
			})
		}
	case k < 58: // staking precompile through the real EVM
		val := c.ValKeys[r.Pick(len(c.ValKeys))].Val().String()
		switch r.Intn(3) {
		case 0:
			w.op("pre:delegateV2", func(ctx sdk.Context) ([]byte, error) {
				data, e := stakingprecompile.NewDelegateV2Method(nil).PackInput(fxstakingtypes.DelegateV2Args{Validator: val, Amount: big.NewInt(1e15 + r.Int63n(1e15))})
				if e != nil {
					return nil, e
				}
				return w.evm(ctx, u.Hex(), lib.StakingPrecompile, nil, data)
			})
		case 1:
			w.op("pre:withdraw", func(ctx sdk.Context) ([]byte, error) {
				data, e := stakingprecompile.NewWithdrawMethod(nil).PackInput(fxstakingtypes.WithdrawArgs{Validator: val})
				if e != nil {
					return nil, e
				}
				return w.evm(ctx, u.Hex(), lib.StakingPrecompile, nil, data)
			})
		default:
			w.op("pre:undelegateV2", func(ctx sdk.Context) ([]byte, error) {
				data, e := stakingprecompile.NewUndelegateV2Method(nil).PackInput(fxstakingtypes.UndelegateV2Args{Validator: val, Amount: big.NewInt(1 + r.Int63n(1e14))})
				if e != nil {
					return nil, e
				}
				return w.evm(ctx, u.Hex(), lib.StakingPrecompile, nil, data)
			})
		}
	case k < 64: // crosschain precompile: native FX out through the EVM
		ch := w.pickChain()
		amt, fee := 1000+r.Int63n(100_000), 1+r.Int63n(500)
		w.op("pre:crossChain/"+ch, func(ctx sdk.Context) ([]byte, error) {
			args := crosschaintypes.CrossChainArgs{Token: common.Address{}, Receipt: lib.ExternalAccount(c.Seed, ch, 1), Amount: big.NewInt(amt), Fee: big.NewInt(fee),
				Target: fxtypes.MustStrToByte32(ch), Memo: ""}
			data, e := crosschainprecompile.NewCrossChainMethod(nil).PackInput(args)
			if e != nil {
				return nil, e
			}
			return w.evm(ctx, u.Hex(), lib.CrosschainPrecompile, big.NewInt(amt+fee), data)
		})
	case k < 69: // plain ERC-20 traffic and WFX
		t := w.toks[2]
		if r.Chance(50) {
			w.op("erc20:transfer", func(ctx sdk.Context) ([]byte, error) {
				data, _ := contract.GetFIP20().ABI.Pack("transfer", v.Hex(), big.NewInt(1+r.Int63n(10_000)))
				return w.evm(ctx, u.Hex(), t.ERC20, nil, data)
			})
		} else {
			w.op("wfx:deposit", func(ctx sdk.Context) ([]byte, error) {
				return w.evm(ctx, u.Hex(), w.toks[0].ERC20, big.NewInt(1+r.Int63n(1e12)), []byte{0xd0, 0xe3, 0x0d, 0xb0})
			})
		}
	case k < 75: // staking / distribution / bank through real txs
		val := c.ValKeys[r.Pick(len(c.ValKeys))].Val().String()
		switch r.Intn(4) {
		case 0:
			w.tx("Delegate", u, &stakingtypes.MsgDelegate{DelegatorAddress: u.Acc().String(), ValidatorAddress: val, Amount: lib.FX(1 + r.Int63n(50))})
		case 1:
			w.tx("WithdrawReward", u, &distrtypes.MsgWithdrawDelegatorReward{DelegatorAddress: u.Acc().String(), ValidatorAddress: val})
		case 2:
			w.tx("Undelegate", u, &stakingtypes.MsgUndelegate{DelegatorAddress: u.Acc().String(), ValidatorAddress: val, Amount: lib.Coin(fxtypes.DefaultDenom, 1+r.Int63n(1e17))})
		default:
			cu := w.cusers[len(w.cusers)-1-r.Pick(2)] // never migrated
			w.tx("BankSend", cu, &banktypes.MsgSend{FromAddress: cu.Acc().String(), ToAddress: v.Acc().String(), Amount: sdk.NewCoins(lib.FX(1 + r.Int63n(5)))})
		}
	case k < 81: // governance: submit (real tx), all validators and some users vote (real txs)
		w.proposal()
	case k < 85: // account migration (real tx)
		if w.migN < len(w.cusers)-2 {
			from := w.cusers[w.migN]
			to := lib.EthKey(c.Seed, "c17-migrate-to", w.migN)
			w.migN++
			sig, err := crypto.Sign(migratetypes.MigrateAccountSignatureHash(from.Acc(), to.Hex().Bytes()), w.ecdsaOf(to))
			lib.Must(err)
			w.tx("MigrateAccount", from, migratetypes.NewMsgMigrateAccount(from.Acc(), to.Hex(), hex.EncodeToString(sig)))
		}
	case k < 90: // parameter updates by the governance authority (message servers)
		ch := w.pickChain()
		switch r.Intn(4) {
		case 3:
			// governance replaces the approved oracle list: one bonded oracle (a small one) is dropped and unbonded,
			// fresh addresses are approved (UpdateProposalOracles: membership maps, unbond loop)
			x := w.xs[ch]
			w.op("UpdateChainOracles/"+ch, func(ctx sdk.Context) ([]byte, error) {
				po, _ := x.Keeper.GetProposalOracle(ctx)
				var keep []string
				// drop up to two approved oracles at once (several unbondings in one message: their order matters)
				d1, d2 := r.Intn(len(po.Oracles)+1), r.Intn(len(po.Oracles)+1)
				if r.Chance(35) {
					d2 = -1
				}
				for i, o := range po.Oracles {
					if (i != d1 && i != d2) || len(po.Oracles) < 3 {
						keep = append(keep, o)
					}
				}
				for i := 0; i < 1+r.Intn(2); i++ {
					keep = append(keep, lib.EthKey(c.Seed, "c17-neworacle/"+ch, r.Intn(1<<20)).Acc().String())
				}
				_, e := x.Msg().UpdateChainOracles(ctx, &crosschaintypes.MsgUpdateChainOracles{ChainName: ch, Authority: lib.GovAuthority(), Oracles: keep})
				return nil, e
			})
		case 0:
			w.op("UpdateParams/"+ch, func(ctx sdk.Context) ([]byte, error) {
				p := w.xs[ch].Keeper.GetParams(ctx)
				p.OracleSetUpdatePowerChangePercent = sdkmath.LegacyNewDecWithPrec(int64(1+r.Intn(20)), 2)
				p.Oracles = nil
				_, e := w.xs[ch].Msg().UpdateParams(ctx, &crosschaintypes.MsgUpdateParams{ChainName: ch, Authority: lib.GovAuthority(), Params: p})
				return nil, e
			})
		case 1:
			w.op("erc20.UpdateParams", func(ctx sdk.Context) ([]byte, error) {
				p := c.App.Erc20Keeper.GetParams(ctx)
				p.IbcTimeout = time.Duration(1+r.Intn(24)) * time.Hour
				_, e := c.App.Erc20Keeper.UpdateParams(ctx, &erc20types.MsgUpdateParams{Authority: lib.GovAuthority(), Params: p})
				return nil, e
			})
		default:
			// stake changes of an oracle: changes the oracle set's normalised powers (PowerDiff in the end blocker)
			x := w.xs[ch]
			o := x.Oracles[r.Pick(len(x.Oracles))]
			w.op("AddDelegate/"+ch, func(ctx sdk.Context) ([]byte, error) {
				_, e := x.Msg().AddDelegate(ctx, &crosschaintypes.MsgAddDelegate{ChainName: ch, OracleAddress: o.Oracle.Acc().String(), Amount: lib.FX(100 + r.Int63n(3000))})
				return nil, e
			})
		}
	case k < 95: // queries whose results are derived from maps (sorted before they are returned)
		ch := w.pickChain()
		maxEl := uint(1 + r.Intn(4))
		w.op("query:BatchFees/"+ch, func(ctx sdk.Context) ([]byte, error) {
			fees := w.xs[ch].Keeper.GetAllBatchFees(ctx, maxEl, nil)
			var sb strings.Builder
			for _, f := range fees {
				sb.WriteString(fmt.Sprintf("%s:%s:%d:%s;", f.TokenContract, f.TotalFees, f.TotalTxs, f.TotalAmount))
			}
			sb.WriteString(strings.Join(crosschaintypes.GetSupportChains(), ","))
			// correspondence case for the Coq model of createBatchFees + sort (contracts -> order-preserving ranks)
			var contracts []string
			type ptx struct{ c, fee, amt string }
			var pool []ptx
			w.xs[ch].Keeper.IterateUnbatchedTransactions(ctx, "", func(tx *crosschaintypes.OutgoingTransferTx) bool {
				pool = append(pool, ptx{tx.Fee.Contract, tx.Fee.Amount.String(), tx.Token.Amount.String()})
				contracts = append(contracts, tx.Fee.Contract)
				return false
			})
			sort.Strings(contracts)
			rank := func(c string) int { return sort.SearchStrings(contracts, c) }
			var pc, oc []string
			for _, p := range pool {
				pc = append(pc, fmt.Sprintf("(%d, (%s, %s))", rank(p.c), p.fee, p.amt))
			}
			for _, f := range fees {
				oc = append(oc, fmt.Sprintf("(%d, (%s, (%d, %s)))", rank(f.TokenContract), f.TotalFees, f.TotalTxs, f.TotalAmount))
			}
			if len(pool) > 0 && len(w.bfCases) < 400 {
				w.bfCases = append(w.bfCases, fmt.Sprintf("mk_bf_case %d %s %s", maxEl, lib.List(pc), lib.List(oc)))
			}
			return []byte(sb.String()), nil
		})
	default: // cancel a pending outgoing transfer
		ch := w.pickChain()
		x := w.xs[ch]
		var id uint64
		var sender string
		x.Keeper.IterateUnbatchedTransactions(c.Ctx, "", func(tx *crosschaintypes.OutgoingTransferTx) bool {
			id, sender = tx.Id, tx.Sender
			return r.Chance(40)
		})
		if id != 0 {
			for _, cand := range w.users {
				if cand.Acc().String() == sender {
					w.tx("CancelSendToExternal/"+ch, cand, &crosschaintypes.MsgCancelSendToExternal{TransactionId: id, Sender: sender, ChainName: ch})
				}
			}
		}
	}
}

// proposal: submit a proposal with 1-2 messages of one type, deposit enough to start voting, vote.
// The tally (x/gov Tally: validator map) runs in the end blocker once the voting period is over.
func (w *world) proposal() {
	c, r := w.c, w.r
	proposer := w.users[r.Pick(len(w.users))]
	var msgs []sdk.Msg
	switch r.Intn(3) {
	case 0:
		p := c.App.Erc20Keeper.GetParams(c.Ctx)
		p.EnableEVMHook = !p.EnableEVMHook
		msgs = []sdk.Msg{&erc20types.MsgUpdateParams{Authority: lib.GovAuthority(), Params: p}}
	case 1:
		msgs = []sdk.Msg{&fxgovtypes.MsgUpdateSwitchParams{Authority: lib.GovAuthority(), Params: fxgovtypes.SwitchParams{DisableMsgTypes: []string{sdk.MsgTypeURL(&erc20types.MsgConvertDenom{})}}}}
	default:
		for _, ch := range []string{"eth", "bsc"} {
			p := w.xs[ch].Keeper.GetParams(c.Ctx)
			p.AverageBlockTime = 5000 + uint64(r.Intn(2000))
			p.Oracles = nil
			msgs = append(msgs, &crosschaintypes.MsgUpdateParams{ChainName: ch, Authority: lib.GovAuthority(), Params: p})
		}
	}
	before, _ := c.App.GovKeeper.Keeper.ProposalID.Peek(c.Ctx)
	m, err := govv1.NewMsgSubmitProposal(msgs, sdk.NewCoins(lib.FX(10_000)), proposer.Acc().String(), "", fmt.Sprintf("p%d-%d", before, r.Intn(1000)), "summary", false)
	lib.Must(err)
	w.tx("SubmitProposal", proposer, m)
}

// votes: real vote transactions on every proposal that is in its voting period
func (w *world) votes() {
	c, r := w.c, w.r
	var ids []uint64
	_ = c.App.GovKeeper.Keeper.Proposals.Walk(c.Ctx, nil, func(id uint64, p govv1.Proposal) (bool, error) {
		if p.Status == govv1.StatusVotingPeriod {
			ids = append(ids, id)
			if len(p.Messages) > 0 && (p.Messages[0].TypeUrl == "/fx.gov.v1.MsgUpdateStore" || p.Messages[0].TypeUrl == "/fx.erc20.v1.MsgToggleTokenConversion" ||
				p.Messages[0].TypeUrl == "/fx.erc20.v1.MsgRegisterCoin") {
				w.mustPass[id] = true
			}
		}
		return false, nil
	})
	w.voting = len(ids)
	opts := []govv1.VoteOption{govv1.OptionYes, govv1.OptionYes, govv1.OptionYes, govv1.OptionNo, govv1.OptionAbstain, govv1.OptionNoWithVeto}
	for _, id := range ids {
		if w.mustPass[id] { // the corrupting / panicking pair of proposals: every validator votes yes (once)
			if !w.votedAll[id] {
				w.votedAll[id] = true
				for _, vk := range c.ValKeys {
					w.tx("Vote(validator,yes)", vk, &govv1.MsgVote{ProposalId: id, Voter: vk.Acc().String(), Option: govv1.OptionYes})
				}
			}
			continue
		}
		for _, i := range r.Perm(len(c.ValKeys)) {
			if r.Chance(45) {
				vk := c.ValKeys[i]
				w.tx("Vote(validator)", vk, &govv1.MsgVote{ProposalId: id, Voter: vk.Acc().String(), Option: opts[r.Pick(len(opts))]})
			}
		}
		for _, u := range w.users {
			if r.Chance(15) {
				w.tx("Vote(user)", u, govv1.NewMsgVoteWeighted(u.Acc(), id, govv1.WeightedVoteOptions{
					{Option: govv1.OptionYes, Weight: "0.6"}, {Option: govv1.OptionNo, Weight: "0.4"}}, ""))
			}
		}
	}
}

// competingRegisterCoin: proposals that PASS and FAIL AT EXECUTION for several reasons at once (the failure
// reason — err.Error() of the handler — is stored in the proposal and emitted): two competing MsgRegisterCoin
// proposals registering different coins under the same four bridge aliases end in the same block (the first
// executes, the second finds every alias taken), and a third one reuses three aliases of an existing coin.
func (w *world) competingRegisterCoin(block int) {
	if block != 12 && block != 150 {
		return
	}
	c := w.c
	tag := fmt.Sprintf("%d", block)
	var aliases []string
	for i, ch := range []string{"eth", "bsc", "tron", "eth"} {
		aliases = append(aliases, crosschaintypes.NewBridgeDenom(ch, lib.ExternalContract(c.Seed, ch, 7000+block+i)))
	}
	mk := func(sym string, al []string) sdk.Msg {
		return &erc20types.MsgRegisterCoin{Authority: lib.GovAuthority(), Metadata: fxtypes.GetCrossChainMetadataManyToOne(sym+" coin", sym, 18, al...)}
	}
	submit := func(kind string, proposer lib.Key, m sdk.Msg) {
		p, err := govv1.NewMsgSubmitProposal([]sdk.Msg{m}, sdk.NewCoins(lib.FX(10_000)), proposer.Acc().String(), "", kind, "summary", false)
		lib.Must(err)
		w.tx("SubmitProposal("+kind+")", proposer, p)
	}
	submit("RegisterCoin A", w.users[2], mk("CMPA"+tag, aliases))
	submit("RegisterCoin B, same aliases", w.users[3], mk("CMPB"+tag, []string{aliases[2], aliases[0], aliases[3], aliases[1]}))
	var taken []string
	for _, a := range w.toks[1].Aliases {
		taken = append(taken, a.Denom)
	}
	submit("RegisterCoin C, aliases of an existing coin", w.users[4], mk("CMPC"+tag, taken))
}

// panickingProposal: a proposal that PASSES and whose message handler PANICS (x/gov recovers the panic and
// stores the failure reason in the proposal and in the active_proposal event).  Reached with gov messages only:
// proposal #1 (MsgUpdateStore) overwrites the stored record of the sacrificial erc20 pair with undecodable
// bytes; proposal #2 (MsgToggleTokenConversion for that pair) then panics in MustUnmarshal when it is executed.
func (w *world) panickingProposal(block int) {
	c := w.c
	if block < 8 || w.panicStage >= 2 {
		return
	}
	proposer := w.users[1]
	id, ok := w.sacrID, true
	if w.panicStage == 0 {
		pair, found := c.App.Erc20Keeper.GetTokenPair(c.Ctx, w.sacr)
		if !found {
			return
		}
		id = pair.GetID()
		w.sacrID = id
	}
	_ = ok
	key := append(append([]byte{}, erc20types.KeyPrefixTokenPair...), id...)
	cur := c.Ctx.KVStore(c.App.GetKey(erc20types.StoreKey)).Get(key)
	corrupt := "ffff01"
	switch w.panicStage {
	case 0:
		m, err := govv1.NewMsgSubmitProposal([]sdk.Msg{&fxgovtypes.MsgUpdateStore{Authority: lib.GovAuthority(), UpdateStores: []fxgovtypes.UpdateStore{{
			Space: erc20types.StoreKey, Key: hex.EncodeToString(key), OldValue: hex.EncodeToString(cur), Value: corrupt}}}},
			sdk.NewCoins(lib.FX(10_000)), proposer.Acc().String(), "", "corrupt a token pair record", "summary", false)
		lib.Must(err)
		w.tx("SubmitProposal(UpdateStore)", proposer, m)
		w.panicStage = 1
	case 1:
		if hex.EncodeToString(cur) != corrupt {
			return // proposal #1 has not been executed yet
		}
		m, err := govv1.NewMsgSubmitProposal([]sdk.Msg{&erc20types.MsgToggleTokenConversion{Authority: lib.GovAuthority(), Token: w.sacr}},
			sdk.NewCoins(lib.FX(10_000)), proposer.Acc().String(), "", "toggle the corrupted pair", "summary", false)
		lib.Must(err)
		w.tx("SubmitProposal(Toggle,panics)", proposer, m)
		w.panicStage = 2
	}
}

// executePending: observed SendToFx / BridgeCall claims wait in the pending queue until somebody executes them
// through the crosschain precompile's executeClaim (in nonce order, a few per block)
func (w *world) executePending() {
	c, r := w.c, w.r
	for _, ch := range w.chains {
		x := w.xs[ch]
		last := x.Keeper.GetLastObservedEventNonce(c.Ctx)
		for n, done := w.execd[ch]+1, 0; n <= last && done < 6; n++ {
			w.execd[ch] = n
			if _, pending := x.Keeper.GetPendingExecuteClaim(c.Ctx, n); !pending {
				continue
			}
			if r.Chance(8) { // left in the queue for good
				continue
			}
			done++
			nonce, caller := n, w.users[r.Pick(len(w.users))]
			w.op("pre:executeClaim/"+ch, func(ctx sdk.Context) ([]byte, error) {
				data, e := crosschainprecompile.NewExecuteClaimMethod(nil).PackInput(crosschaintypes.ExecuteClaimArgs{Chain: ch, EventNonce: new(big.Int).SetUint64(nonce)})
				if e != nil {
					return nil, e
				}
				return w.evm(ctx, caller.Hex(), lib.CrosschainPrecompile, nil, data)
			})
		}
	}
}

// stakeTraffic: oracle stake changes that are NOT committed:
//   - a two-message transaction whose first message (MsgAddDelegate) succeeds and whose second fails: baseapp
//     rolls the whole transaction back (part of the history in every mode)
//   - a valid MsgAddDelegate transaction that is only simulated / check-tx'ed (noise mode)
func (w *world) stakeTraffic() {
	c, r := w.c, w.r
	ch := w.pickChain()
	x := w.xs[ch]
	o := x.Oracles[r.Pick(len(x.Oracles))]
	add := &crosschaintypes.MsgAddDelegate{ChainName: ch, OracleAddress: o.Oracle.Acc().String(), Amount: lib.FX(3_000 + r.Int63n(30_000))}
	if r.Chance(25) {
		w.tx("AddDelegate+failing-2nd-msg/"+ch, o.Oracle, add,
			&banktypes.MsgSend{FromAddress: o.Oracle.Acc().String(), ToAddress: w.users[0].Acc().String(), Amount: sdk.NewCoins(lib.FX(900_000_000))})
	}
	if r.Chance(60) {
		o2 := x.Oracles[r.Pick(len(x.Oracles))]
		w.noiseTx(o2.Oracle, &crosschaintypes.MsgAddDelegate{ChainName: ch, OracleAddress: o2.Oracle.Acc().String(), Amount: lib.FX(5_000 + r.Int63n(40_000))})
	}
	_ = c
}

// run executes the whole history and returns the per-block results
func (w *world) run(blocks int) []BlockRes {
	var out []BlockRes
	out = append(out, w.endBlock(lib.BlockStep)) // the setup block
	sinceProposal := 0
	for b := 0; b < blocks; b++ {
		n := 2 + w.r.Intn(5)
		for i := 0; i < n; i++ {
			w.step()
		}
		w.votes()
		w.panickingProposal(b)
		w.competingRegisterCoin(b)
		w.executePending()
		w.stakeTraffic()
		for _, ch := range w.chains { // lagging oracles catch up
			if len(w.backlog[ch]) > 0 && w.r.Chance(50) {
				w.catchUp(ch)
			}
		}
		dt := lib.BlockStep
		if w.voting > 0 {
			sinceProposal++
			if sinceProposal >= 5 { // let the voting periods end: tally + execution in the end blocker
				dt = 15 * 24 * time.Hour
				sinceProposal = 0
			}
		}
		br := w.endBlock(dt)
		out = append(out, br)
		if br.Err != "" {
			break
		}
	}
	return out
}

func (w *world) statLines() []string {
	ks := append([]string{}, w.statK...)
	sort.Strings(ks)
	var out []string
	for _, k := range ks {
		out = append(out, fmt.Sprintf("%s=%d", k, w.stats[k]))
	}
	return out
}
