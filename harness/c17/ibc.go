package main

// ibc.go: an OPEN transfer channel on the real app (localhost client, connection, channel, capability),
// set up the way testutil/helpers.GenIBCTransferChannel does it but with fixed identifiers, so that a
// SendToFx claim with an IBC target really sends a packet (packet commitment in the ibc store, send_packet
// event with the timeout timestamp).

import (
	sdk "github.com/cosmos/cosmos-sdk/types"
	capabilitytypes "github.com/cosmos/ibc-go/modules/capability/types"
	clienttypes "github.com/cosmos/ibc-go/v8/modules/core/02-client/types"
	connectiontypes "github.com/cosmos/ibc-go/v8/modules/core/03-connection/types"
	channeltypes "github.com/cosmos/ibc-go/v8/modules/core/04-channel/types"
	commitmenttypes "github.com/cosmos/ibc-go/v8/modules/core/23-commitment/types"
	host "github.com/cosmos/ibc-go/v8/modules/core/24-host"
	"github.com/cosmos/ibc-go/v8/modules/core/exported"
	ibctm "github.com/cosmos/ibc-go/v8/modules/light-clients/07-tendermint"
	localhost "github.com/cosmos/ibc-go/v8/modules/light-clients/09-localhost"

	"fxverif/lib"
)

func openTransferChannel(c *lib.Chain, channelID string) {
	ctx := c.Ctx
	portID := "transfer"
	connectionID := connectiontypes.FormatConnectionIdentifier(7)
	clientID := clienttypes.FormatClientIdentifier(exported.Localhost, 7)
	revision := clienttypes.ParseChainID(ctx.ChainID())
	lh := localhost.NewClientState(clienttypes.NewHeight(revision, uint64(ctx.BlockHeight())))
	c.App.IBCKeeper.ClientKeeper.SetClientState(ctx, clientID, lh)
	params := c.App.IBCKeeper.ClientKeeper.GetParams(ctx)
	params.AllowedClients = append(params.AllowedClients, lh.ClientType())
	c.App.IBCKeeper.ClientKeeper.SetParams(ctx, params)
	cons := &ibctm.ConsensusState{Timestamp: ctx.BlockTime(), NextValidatorsHash: ctx.BlockHeader().NextValidatorsHash}
	c.App.IBCKeeper.ClientKeeper.SetClientConsensusState(ctx, clientID, clienttypes.NewHeight(0, uint64(ctx.BlockHeight())), cons)
	capName := host.ChannelCapabilityPath(portID, channelID)
	cap, err := c.App.ScopedIBCKeeper.NewCapability(ctx, capName)
	lib.Must(err)
	lib.Must(c.App.ScopedTransferKeeper.ClaimCapability(ctx, capabilitytypes.NewCapability(cap.Index), capName))
	conn := connectiontypes.NewConnectionEnd(connectiontypes.OPEN, clientID,
		connectiontypes.Counterparty{ClientId: "clientId", ConnectionId: "connection-1", Prefix: commitmenttypes.NewMerklePrefix([]byte("prefix"))},
		connectiontypes.GetCompatibleVersions(), 500)
	c.App.IBCKeeper.ConnectionKeeper.SetConnection(ctx, connectionID, conn)
	ch := channeltypes.NewChannel(channeltypes.OPEN, channeltypes.ORDERED, channeltypes.NewCounterparty(portID, channelID), []string{connectionID}, "mock-version")
	c.App.IBCKeeper.ChannelKeeper.SetChannel(ctx, portID, channelID, ch)
	c.App.IBCKeeper.ChannelKeeper.SetNextSequenceSend(ctx, portID, channelID, 1)
	c.App.IBCKeeper.ChannelKeeper.SetNextChannelSequence(ctx, 1)
}

func mintIBCVouchers(c *lib.Chain, denom string, amount int64) {
	coins := sdk.NewCoins(lib.Coin(denom, amount))
	lib.Must(c.App.BankKeeper.MintCoins(c.Ctx, "transfer", coins))
}
