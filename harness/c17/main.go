// c17: block execution is deterministic — the property's own oracle.
//
// parent:  re-executes itself as k independent OS processes (quick 3, thorough 8) with different
//
//	GOMAXPROCS / GOGC settings and staggered wall-clock starts (Go's map iteration order and
//	hash seeds differ per process and per range statement anyway).  Every child builds the real
//	fx-core app with lib.NewChain(seed) and executes the SAME long mixed history (hist.go):
//	crosschain claims / batches / confirms, erc20 conversions, staking and crosschain
//	precompile calls through the real EVM, gov proposals with validator votes that are tallied
//	in the end blocker, account migration, parameter updates, map-derived queries — real signed
//	transactions through runTx and message-server calls, blocks through FinalizeBlock/Commit.
//	App hash, op/tx results (code, gas, data digest) and event lists are compared block by
//	block.  Monitor failure = two processes disagree; replay = seed + first diverging block + diff.
//
// child:   VERIF_C17_CHILD=i: runs the history, writes trace_i.json.
// Also writes Cases_C17.v: real BridgeValidators.PowerDiff / real GetAllBatchFees-style folds vs the
// Coq models in model/M_Perm.v, and checks in-process that repeated evaluation gives identical bits.
package main

import (
	"encoding/json"
	"fmt"
	"math"
	"os"
	"os/exec"
	"path/filepath"
	"strconv"
	"strings"
	"time"

	crosschaintypes "github.com/functionx/fx-core/v8/x/crosschain/types"

	"fxverif/lib"
)

type trace struct {
	Child   int        `json:"child"`
	Seed    int64      `json:"seed"`
	Blocks  []BlockRes `json:"blocks"`
	Stats   []string   `json:"stats"`
	BfCases []string   `json:"bf_cases"`
	Env     string     `json:"env"`
}

type replayT struct {
	Seed         int64     `json:"seed"`
	Blocks       int       `json:"blocks"`
	Children     [2]int    `json:"children"`
	Envs         [2]string `json:"envs"`
	FirstDiverge int64     `json:"first_diverging_block"`
	Field        string    `json:"field"`
	Diff         []string  `json:"diff"`
}

func child(idx int, seed int64, blocks int) {
	if ms := lib.EnvInt("VERIF_C17_DELAY_MS", 0); ms > 0 {
		time.Sleep(time.Duration(ms) * time.Millisecond) // staggered wall-clock start (driver only)
	}
	mode := os.Getenv("VERIF_C17_MODE")
	if mode == "" {
		mode = "plain"
	}
	w := newWorld(seed, seed*7919+13, mode)
	t := trace{Child: idx, Seed: seed, Blocks: w.run(blocks),
		Env: fmt.Sprintf("GOMAXPROCS=%s GOGC=%s delay=%sms", os.Getenv("GOMAXPROCS"), os.Getenv("GOGC"), os.Getenv("VERIF_C17_DELAY_MS"))}
	t.Stats, t.BfCases = w.statLines(), w.bfCases
	t.Env += fmt.Sprintf(" mode=%s restarts=%d non-committed-deliveries=%d", mode, w.restarts, w.noises)
	b, err := json.Marshal(t)
	lib.Must(err)
	lib.Must(os.WriteFile(filepath.Join(lib.OutDir(), fmt.Sprintf("trace_%d.json", idx)), b, 0o644))
}

func blockDiff(a, b BlockRes) (field string, diff []string) {
	add := func(f, x, y string) {
		if field == "" {
			field = f
		}
		if len(diff) < 24 {
			diff = append(diff, fmt.Sprintf("%s: %s  <>  %s", f, x, y))
		}
	}
	if a.Err != b.Err {
		add("block-error", a.Err, b.Err)
	}
	if len(a.Ops) != len(b.Ops) {
		add("op-count", strconv.Itoa(len(a.Ops)), strconv.Itoa(len(b.Ops)))
	}
	for i := 0; i < len(a.Ops) && i < len(b.Ops); i++ {
		x, y := a.Ops[i], b.Ops[i]
		if x.Kind != y.Kind {
			add(fmt.Sprintf("op[%d].kind", i), x.Kind, y.Kind)
			continue
		}
		if x.Code != y.Code {
			add(fmt.Sprintf("op[%d:%s].result-code", i, x.Kind), x.Code+" "+x.Info, y.Code+" "+y.Info)
		}
		if x.Gas != y.Gas {
			add(fmt.Sprintf("op[%d:%s].gas", i, x.Kind), strconv.FormatUint(x.Gas, 10), strconv.FormatUint(y.Gas, 10))
		}
		if x.Data != y.Data {
			add(fmt.Sprintf("op[%d:%s].data", i, x.Kind), x.Data, y.Data)
		}
		if strings.Join(x.Events, "\n") != strings.Join(y.Events, "\n") {
			for j := 0; j < len(x.Events) || j < len(y.Events); j++ {
				xs, ys := "", ""
				if j < len(x.Events) {
					xs = x.Events[j]
				}
				if j < len(y.Events) {
					ys = y.Events[j]
				}
				if xs != ys {
					add(fmt.Sprintf("op[%d:%s].events[%d]", i, x.Kind, j), xs, ys)
					break
				}
			}
		}
	}
	if strings.Join(a.BlockEvents, "\n") != strings.Join(b.BlockEvents, "\n") {
		for j := 0; j < len(a.BlockEvents) || j < len(b.BlockEvents); j++ {
			xs, ys := "", ""
			if j < len(a.BlockEvents) {
				xs = a.BlockEvents[j]
			}
			if j < len(b.BlockEvents) {
				ys = b.BlockEvents[j]
			}
			if xs != ys {
				add(fmt.Sprintf("block-events[%d]", j), xs, ys)
				break
			}
		}
	}
	if strings.Join(a.TxResults, ";") != strings.Join(b.TxResults, ";") {
		add("tx-results", strings.Join(a.TxResults, ";"), strings.Join(b.TxResults, ";"))
	}
	if a.AppHash != b.AppHash {
		add("app-hash", a.AppHash, b.AppHash)
	}
	return
}

func main() {
	seed := lib.Seed()
	thorough := lib.Tier() == "thorough" || os.Getenv("VERIF_MODE") == "search"
	blocks := 400
	k := 3
	if thorough {
		blocks, k = 1500, 8
	}
	if v := lib.EnvInt("VERIF_C17_BLOCKS", 0); v > 0 {
		blocks = int(v)
	}
	if v := lib.EnvInt("VERIF_C17_K", 0); v > 0 {
		k = int(v)
	}
	if os.Getenv("VERIF_MODE") == "replay" {
		if b, err := os.ReadFile(os.Getenv("VERIF_REPLAY")); err == nil {
			var rp struct {
				Replay replayT `json:"replay"`
			}
			if json.Unmarshal(b, &rp) == nil && rp.Replay.Blocks > 0 {
				seed, blocks = rp.Replay.Seed, rp.Replay.Blocks
			}
		}
	}
	if ci := os.Getenv("VERIF_C17_CHILD"); ci != "" {
		idx, _ := strconv.Atoi(ci)
		child(idx, seed, blocks)
		return
	}

	rep := lib.NewReport("C17")
	rep.Rule = "one case = one block of one mixed history (crosschain claims/batches/confirms, erc20 conversions, precompile calls through the EVM, gov proposals tallied in the end blocker, migrations, param updates, map-derived queries; real signed txs + message servers) executed in k independent OS processes (different GOMAXPROCS/GOGC, staggered starts) and compared on app hash, op/tx result codes, gas, data digests and full event lists; non-trivial = the block contains at least one successful operation; distinct by (height, app hash)"

	gmp := []string{"1", "2", "4", "8", "3", "1", "6", "2"}
	gogc := []string{"100", "20", "off", "50", "200", "10", "100", "off"}
	// what the processes differ in besides the runtime settings: extra non-committed activity (Simulate/CheckTx on
	// dropped branches) and restarts (new app object on the same database)
	modes := []string{"plain", "noise", "restart", "noise", "restart", "plain", "noise", "restart"}
	self, err := os.Executable()
	lib.Must(err)
	type proc struct {
		cmd *exec.Cmd
		out *strings.Builder
		env string
	}
	var procs []proc
	maxPar := 4
	for i := 0; i < k; i++ {
		cmd := exec.Command(self)
		env := os.Environ()
		env = append(env, "VERIF_C17_CHILD="+strconv.Itoa(i), "VERIF_SEED="+strconv.FormatInt(seed, 10), "VERIF_C17_BLOCKS="+strconv.Itoa(blocks),
			"GOMAXPROCS="+gmp[i%len(gmp)], "GOGC="+gogc[i%len(gogc)], "VERIF_C17_DELAY_MS="+strconv.Itoa(137*i), "VERIF_MODE=check", "VERIF_C17_MODE="+modes[i%len(modes)])
		cmd.Env = env
		sb := &strings.Builder{}
		cmd.Stdout, cmd.Stderr = sb, sb
		procs = append(procs, proc{cmd, sb, fmt.Sprintf("GOMAXPROCS=%s GOGC=%s mode=%s", gmp[i%len(gmp)], gogc[i%len(gogc)], modes[i%len(modes)])})
	}
	// at most maxPar children at a time
	for s := 0; s < len(procs); s += maxPar {
		e := s + maxPar
		if e > len(procs) {
			e = len(procs)
		}
		for i := s; i < e; i++ {
			lib.Must(procs[i].cmd.Start())
		}
		for i := s; i < e; i++ {
			if err := procs[i].cmd.Wait(); err != nil {
				rep.Fail(lib.Failure{Kind: "harness", What: fmt.Sprintf("child %d failed: %v: %s", i, err, tail(procs[i].out.String(), 1500)), Sig: "C17:harness:child"})
			}
		}
	}
	var traces []trace
	for i := 0; i < k; i++ {
		b, err := os.ReadFile(filepath.Join(lib.OutDir(), fmt.Sprintf("trace_%d.json", i)))
		if err != nil {
			continue
		}
		var t trace
		lib.Must(json.Unmarshal(b, &t))
		traces = append(traces, t)
	}
	if len(traces) < 2 {
		rep.Fail(lib.Failure{Kind: "harness", What: "fewer than two child traces", Sig: "C17:harness:traces"})
		rep.Write()
		return
	}
	ref := traces[0]
	for _, s := range ref.Stats {
		kv := strings.SplitN(s, "=", 2)
		n, _ := strconv.Atoi(kv[1])
		rep.Histogram["op "+kv[0]] = n
	}
	okOps := 0
	for _, b := range ref.Blocks {
		nontriv := false
		for _, o := range b.Ops {
			if o.Code == "ok" {
				nontriv = true
				okOps++
			}
		}
		for range traces[1:] {
			rep.Case(fmt.Sprintf("%d|%s", b.Height, b.AppHash), nontriv)
		}
		if b.Err != "" {
			rep.Notes = append(rep.Notes, fmt.Sprintf("block %d ended with %s (history stops there in every process)", b.Height, b.Err))
		}
	}
	rep.Count(fmt.Sprintf("processes=%d", len(traces)))
	rep.Count(fmt.Sprintf("blocks=%d", len(ref.Blocks)))
	rep.Histogram["successful-ops"] = okOps
	rep.Sample(map[string]interface{}{"last_block": ref.Blocks[len(ref.Blocks)-1].Height, "last_app_hash": ref.Blocks[len(ref.Blocks)-1].AppHash, "processes": len(traces)})
	for _, t := range traces[1:] {
		n := len(ref.Blocks)
		if len(t.Blocks) < n {
			n = len(t.Blocks)
		}
		diverged := false
		for i := 0; i < n; i++ {
			if field, diff := blockDiff(ref.Blocks[i], t.Blocks[i]); field != "" {
				f0 := strings.SplitN(field, "[", 2)[0]
				rep.Fail(lib.Failure{Kind: "monitor",
					What: fmt.Sprintf("processes %d and %d executing the same history disagree at block %d on %s", ref.Child, t.Child, ref.Blocks[i].Height, field),
					Sig:  "C17:diverge:" + f0,
					Replay: replayT{Seed: seed, Blocks: blocks, Children: [2]int{ref.Child, t.Child}, Envs: [2]string{ref.Env, t.Env},
						FirstDiverge: ref.Blocks[i].Height, Field: field, Diff: diff}})
				diverged = true
				break
			}
		}
		if !diverged && len(t.Blocks) != len(ref.Blocks) {
			rep.Fail(lib.Failure{Kind: "monitor", What: fmt.Sprintf("processes %d and %d produced %d and %d blocks", ref.Child, t.Child, len(ref.Blocks), len(t.Blocks)),
				Sig: "C17:diverge:length", Replay: replayT{Seed: seed, Blocks: blocks, Children: [2]int{ref.Child, t.Child}}})
		}
	}

	if len(rep.Failures) == 0 { // traces are large; keep them only when something has to be looked at
		for i := 0; i < k; i++ {
			_ = os.Remove(filepath.Join(lib.OutDir(), fmt.Sprintf("trace_%d.json", i)))
		}
	}
	modelCases(rep, seed, thorough)
	inProcessReplays(rep, seed, thorough)
	tallyTies(rep, seed, thorough)
	upoTies(rep, seed, thorough)
	pruneTies(rep, seed, thorough)
	rebuildTies(rep)
	for _, it := range ref.BfCases {
		rep.Case("batchfees|"+it, true)
	}
	lib.WriteCases("Cases_C17bf.v", []string{"model.M_Perm", "model.M_PermCorr"}, "bf_case", ref.BfCases, "bf_mismatch")
	rep.Write()
}

func tail(s string, n int) string {
	if len(s) > n {
		return s[len(s)-n:]
	}
	return s
}

// modelCases: the real PowerDiff (float accumulation over a map) against the exact integer model,
// and repeated evaluation in one process (each `range` picks a fresh random start).
func modelCases(rep *lib.Report, seed int64, thorough bool) {
	r := lib.NewRand(seed + 17)
	n := 300
	if thorough {
		n = 2000
	}
	var items []string
	unstable := 0
	for i := 0; i < n; i++ {
		mk := func() (crosschaintypes.BridgeValidators, string) {
			m := 1 + r.Intn(12)
			if r.Chance(10) {
				m = 60 + r.Intn(41) // up to MaxOracleSize members
			}
			var bv crosschaintypes.BridgeValidators
			var coq []string
			for j := 0; j < m; j++ {
				id := r.Intn(20)
				if m > 20 {
					id = r.Intn(140)
				}
				var p uint64
				switch r.Intn(5) {
				case 0:
					p = math.MaxUint32
				case 1:
					p = uint64(r.Intn(3))
				default:
					p = uint64(r.Int63n(math.MaxUint32))
				}
				bv = append(bv, crosschaintypes.BridgeValidator{Power: p, ExternalAddress: fmt.Sprintf("0x%040x", id)})
				coq = append(coq, fmt.Sprintf("(%d, %d)", id, p))
			}
			return bv, lib.List(coq)
		}
		b, bc := mk()
		c, cc := mk()
		first := b.PowerDiff(c)
		for rep2 := 0; rep2 < 20; rep2++ {
			if again := b.PowerDiff(c); math.Float64bits(again) != math.Float64bits(first) {
				// not an alarm by itself (the float is not an observable of the property); the exact-bit
				// correspondence with the model (Cases_C17.v) breaks on it and the threshold replays decide
				unstable++
				break
			}
		}
		sum := math.Round(first * float64(math.MaxUint32))
		rep.Case(fmt.Sprintf("powerdiff|%s|%s", bc, cc), len(b) > 1 && len(c) > 1)
		fmt8 := strings.TrimLeft(strings.Replace(fmt.Sprintf("%.8f", first), ".", "", 1), "0")
		if fmt8 == "" {
			fmt8 = "0"
		}
		items = append(items, fmt.Sprintf("mk_pd_case %s %s %d %s %s", bc, cc, int64(sum), fmt8, "("+strconv.FormatFloat(first, 'x', -1, 64)+")%float"))
	}
	if unstable > 0 {
		rep.Notes = append(rep.Notes, fmt.Sprintf("PowerDiff returned different float64 bits for the same two oracle sets in one process in %d of %d cases (map-order dependent accumulation)", unstable, n))
	}
	lib.WriteCases("Cases_C17.v", []string{"model.M_Perm", "model.M_PermCorr"}, "pd_case", items, "pd_mismatch")
}
