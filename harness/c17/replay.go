package main

// replay.go: in-process replays.  Go picks a fresh random start for every `range` over a map, so
// executing the SAME operation N times on cache branches of the SAME state samples N map orders in
// one process — much denser than k OS processes.  Directed scenarios put the state where an order
// dependence would show:
//
//	threshold   the change of the normalised oracle powers equals the oracle-set update threshold
//	            EXACTLY (a valid, gov-settable 0.4 / 0.8; MaxUint32 is divisible by 5 and the stake totals
//	            are chosen so that normalisation is exact), with >= 3 members changed: the crosschain end
//	            blocker's decision to create a new oracle set (PowerDiff -> rendered -> compared) must be
//	            the same every time
//	multidrop   one MsgUpdateChainOracles removes 2-3 bonded oracles at once: unbond order, events,
//	            staking queue
//	tally       several proposals end their voting period in the same block with all validators and
//	            delegators voting: gov end blocker (tally map)
//
// Observable: SHA-256 over every KV store + the event list of the replayed call.

import (
	"crypto/sha256"
	"encoding/hex"
	"fmt"
	"sort"
	"time"

	sdkmath "cosmossdk.io/math"
	sdk "github.com/cosmos/cosmos-sdk/types"
	govv1 "github.com/cosmos/cosmos-sdk/x/gov/types/v1"

	"github.com/ethereum/go-ethereum/crypto"

	fxtypes "github.com/functionx/fx-core/v8/types"
	crosschaintypes "github.com/functionx/fx-core/v8/x/crosschain/types"
	erc20types "github.com/functionx/fx-core/v8/x/erc20/types"
	migratetypes "github.com/functionx/fx-core/v8/x/migrate/types"

	"fxverif/lib"
)

type replayScenario struct {
	Kind     string   `json:"scenario"`
	Seed     int64    `json:"chain_seed"`
	Chain    string   `json:"chain,omitempty"`
	Detail   string   `json:"detail"`
	Replays  int      `json:"replays"`
	Distinct int      `json:"distinct_outcomes"`
	Diff     []string `json:"diff"`
}

func storeDigest(c *lib.Chain, ctx sdk.Context, names []string) map[string]string {
	out := map[string]string{}
	for _, n := range names {
		h := sha256.New()
		for _, kv := range c.DumpPrefix(ctx, n, nil) {
			fmt.Fprintf(h, "%d:%d:", len(kv.K), len(kv.V))
			h.Write(kv.K)
			h.Write(kv.V)
		}
		out[n] = hex.EncodeToString(h.Sum(nil)[:8])
	}
	return out
}

// replayN runs f n times on fresh cache branches of c.Ctx and compares stores and events.
func replayN(rep *lib.Report, c *lib.Chain, sc replayScenario, n int, ctxOf func(sdk.Context) sdk.Context, f func(ctx sdk.Context) error) {
	var names []string
	for nm := range c.App.GetKVStoreKey() {
		names = append(names, nm)
	}
	sort.Strings(names)
	type outcome struct {
		stores map[string]string
		events []string
		err    string
		text   string
	}
	texts := map[string]bool{}
	var first outcome
	distinct := map[string]bool{}
	var diff []string
	for i := 0; i < n; i++ {
		cctx, _ := c.Ctx.CacheContext()
		em := sdk.NewEventManager()
		cctx = cctx.WithEventManager(em)
		if ctxOf != nil {
			cctx = ctxOf(cctx)
		}
		var err error
		func() {
			defer func() {
				if r := recover(); r != nil {
					err = fmt.Errorf("PANIC: %v", r)
				}
			}()
			err = f(cctx)
		}()
		o := outcome{stores: storeDigest(c, cctx, names), events: evStrings(em.ABCIEvents()), err: codeOf(err)}
		if err != nil {
			o.text = err.Error()
		}
		texts[o.text] = true
		key := o.err
		for _, nm := range names {
			key += "|" + o.stores[nm]
		}
		eh := sha256.New()
		for _, e := range o.events {
			eh.Write([]byte(e + "\n"))
		}
		key += "|" + hex.EncodeToString(eh.Sum(nil)[:8])
		distinct[key] = true
		if i == 0 {
			first = o
			continue
		}
		if len(diff) == 0 {
			if o.err != first.err {
				diff = append(diff, fmt.Sprintf("replay %d result: %s <> %s", i, first.err, o.err))
			}
			for _, nm := range names {
				if o.stores[nm] != first.stores[nm] {
					diff = append(diff, fmt.Sprintf("replay %d store %s: %s <> %s", i, nm, first.stores[nm], o.stores[nm]))
				}
			}
			for j := 0; j < len(o.events) || j < len(first.events); j++ {
				a, b := "", ""
				if j < len(first.events) {
					a = first.events[j]
				}
				if j < len(o.events) {
					b = o.events[j]
				}
				if a != b {
					diff = append(diff, fmt.Sprintf("replay %d events[%d]: %s  <>  %s", i, j, a, b))
					break
				}
			}
		}
	}
	sc.Replays, sc.Distinct, sc.Diff = n, len(distinct), diff
	rep.Case(fmt.Sprintf("inprocess|%s|%d|%s|%s", sc.Kind, sc.Seed, sc.Chain, sc.Detail), first.err == "ok")
	rep.Count("inprocess-replay:" + sc.Kind)
	if len(texts) > 1 && len(distinct) == 1 {
		rep.Notes = append(rep.Notes, fmt.Sprintf("%s: %d replays returned %d different error TEXTS with the same result code, stores and events (not consensus data unless a proposal executes this handler)", sc.Kind, n, len(texts)))
	}
	if len(distinct) > 1 {
		rep.Fail(lib.Failure{Kind: "monitor",
			What: fmt.Sprintf("%d replays of the same %s on the same state gave %d different outcomes (%s)", n, sc.Kind, len(distinct), sc.Detail),
			Sig:  "C17:inprocess-replay:" + sc.Kind, Replay: sc})
	}
}

// thresholdScenario: stakes a_i -> b_i (units of 1500 FX) with sum a = 51, sum b = 255 and
// sum |b_i - 5 a_i| = 51*k, so that the change of the normalised powers is exactly k/5.
func thresholdScenario(r *lib.Rand) (a, b []int64, k int64) {
	for {
		n := 6 + r.Intn(2)
		a = make([]int64, n)
		rest := int64(51)
		for i := range a {
			a[i] = 7
			rest -= 7
		}
		for rest > 0 {
			a[r.Intn(n)]++
			rest--
		}
		k = 2
		if r.Chance(30) {
			k = 4
		}
		half := 51 * k / 2
		// split the members into gainers and losers
		perm := r.Perm(n)
		ng := 2 + r.Intn(n-3)
		d := make([]int64, n)
		for x := int64(0); x < half; x++ {
			d[perm[r.Intn(ng)]]++
		}
		for x := int64(0); x < half; x++ {
			d[perm[ng+r.Intn(n-ng)]]--
		}
		b = make([]int64, n)
		ok, changed := true, 0
		for i := range a {
			b[i] = 5*a[i] + d[i]
			if b[i] < a[i] || b[i] > 66 {
				ok = false
			}
			if d[i] != 0 {
				changed++
			}
		}
		if ok && changed >= 3 {
			return
		}
	}
}

func inProcessReplays(rep *lib.Report, seed int64, thorough bool) {
	r := lib.NewRand(seed*31 + 5)
	nThr, nDrop, nTally, reps := 3, 2, 1, 48
	if thorough {
		nThr, nDrop, nTally, reps = 20, 10, 4, 64
	}
	chains := []string{"eth", "bsc", "tron"}
	const unit = 1500 // FX per stake unit: 15 power units
	for i := 0; i < nThr; i++ {
		cs := seed*1000 + int64(i)
		ch := chains[r.Pick(len(chains))]
		a, b, k := thresholdScenario(r)
		c := lib.NewChain(cs, 3, nil)
		x := c.X(ch)
		p := x.Keeper.GetParams(c.Ctx)
		p.OracleSetUpdatePowerChangePercent = sdkmath.LegacyNewDecWithPrec(2*k, 1) // k/5
		p.Oracles = nil
		_, err := x.Msg().UpdateParams(c.Ctx, &crosschaintypes.MsgUpdateParams{ChainName: ch, Authority: lib.GovAuthority(), Params: p})
		lib.Must(err)
		stakes := make([]int64, len(a))
		for j := range a {
			stakes[j] = a[j] * unit
		}
		x.SetupOracles(stakes)
		lib.Must(c.NextBlock()) // the end blocker stores oracle set #1
		x = c.X(ch)
		x.Oracles = nil
		for j := range a {
			o := x.NewOracle(j)
			if b[j] > a[j] {
				_, err := x.Msg().AddDelegate(c.Ctx, &crosschaintypes.MsgAddDelegate{ChainName: ch, OracleAddress: o.Oracle.Acc().String(), Amount: lib.FX((b[j] - a[j]) * unit)})
				lib.Must(err)
			}
		}
		// b_j < a_j never happens (thresholdScenario keeps b >= a)
		// integer check that the state is exactly on the boundary
		cur := x.Keeper.GetCurrentOracleSet(c.Ctx)
		last := x.Keeper.GetLatestOracleSet(c.Ctx)
		sum := int64(0)
		if last != nil {
			old := map[string]int64{}
			for _, m := range last.Members {
				old[m.ExternalAddress] = int64(m.Power)
			}
			for _, m := range cur.Members {
				dlt := int64(m.Power) - old[m.ExternalAddress]
				if dlt < 0 {
					dlt = -dlt
				}
				sum += dlt
			}
		}
		onBoundary := sum*5 == k*4294967295
		if !onBoundary {
			rep.Notes = append(rep.Notes, fmt.Sprintf("threshold scenario %d on %s is not exactly on the boundary (sum %d) — replayed anyway", i, ch, sum))
		}
		rep.Count(fmt.Sprintf("threshold-on-boundary=%v", onBoundary))
		sc := replayScenario{Kind: "crosschain-endblocker-at-threshold", Seed: cs, Chain: ch,
			Detail: fmt.Sprintf("stakes %v -> %v units of %d FX, oracle_set_update_power_change_percent = %d/5, sum|delta power| = %d", a, b, unit, k, sum)}
		replayN(rep, c, sc, reps, nil, func(ctx sdk.Context) error {
			_, err := c.App.EndBlocker(ctx)
			return err
		})
	}
	for i := 0; i < nDrop; i++ {
		cs := seed*1000 + 500 + int64(i)
		ch := chains[r.Pick(len(chains))]
		c := lib.NewChain(cs, 4, nil)
		x := c.X(ch)
		n := 11 + r.Intn(4)
		stakes := make([]int64, n)
		for j := range stakes {
			stakes[j] = 10_000
		}
		x.SetupOracles(stakes)
		lib.Must(c.NextBlock())
		x = c.X(ch)
		po, _ := x.Keeper.GetProposalOracle(c.Ctx)
		nd := 2 + r.Intn(2)
		dropIdx := r.Perm(len(po.Oracles))[:nd]
		var keep []string
		for j, o := range po.Oracles {
			dropped := false
			for _, d := range dropIdx {
				if d == j {
					dropped = true
				}
			}
			if !dropped {
				keep = append(keep, o)
			}
		}
		keep = append(keep, lib.EthKey(cs, "c17-replay-new", 1).Acc().String())
		sc := replayScenario{Kind: "update-chain-oracles-multidrop", Seed: cs, Chain: ch, Detail: fmt.Sprintf("%d equal oracles, %d removed in one message", n, nd)}
		replayN(rep, c, sc, reps, nil, func(ctx sdk.Context) error {
			_, err := x.Msg().UpdateChainOracles(ctx, &crosschaintypes.MsgUpdateChainOracles{ChainName: ch, Authority: lib.GovAuthority(), Oracles: keep})
			return err
		})
	}
	for i := 0; i < nTally; i++ {
		cs := seed*1000 + 900 + int64(i)
		c := lib.NewChain(cs, 5+r.Intn(4), nil)
		var users []lib.Key
		for u := 0; u < 5; u++ {
			k := lib.EthKey(cs, "c17-replay-user", u)
			users = append(users, k)
			c.Mint(k.Acc(), lib.FX(100_000))
		}
		for vi, vk := range c.ValKeys {
			c.Mint(vk.Acc(), lib.FX(50_000))
			for ui, u := range users {
				if (ui+vi)%2 == 0 {
					_, err := c.App.StakingKeeper.Delegate(c.Ctx, u.Acc(), sdkmath.NewInt(500+int64(37*ui+11*vi)).MulRaw(1e18), 1, mustVal(c, vk), true)
					lib.Must(err)
				}
			}
		}
		lib.Must(c.NextBlock())
		gs := c.App.GovKeeper
		nprop := 2 + r.Intn(2)
		opts := []govv1.VoteOption{govv1.OptionYes, govv1.OptionYes, govv1.OptionNo, govv1.OptionAbstain, govv1.OptionNoWithVeto}
		for pi := 0; pi < nprop; pi++ {
			p := c.App.Erc20Keeper.GetParams(c.Ctx)
			p.IbcTimeout = time.Duration(2+pi) * time.Hour
			msgs := []sdk.Msg{&erc20types.MsgUpdateParams{Authority: lib.GovAuthority(), Params: p}}
			prop, err := gs.Keeper.SubmitProposal(c.Ctx, msgs, "", fmt.Sprintf("p%d", pi), "s", users[0].Acc(), false)
			lib.Must(err)
			_, err = gs.AddDeposit(c.Ctx, prop.Id, users[0].Acc(), sdk.NewCoins(lib.FX(10_000)))
			lib.Must(err)
			for _, vk := range c.ValKeys {
				lib.Must(gs.Keeper.AddVote(c.Ctx, prop.Id, vk.Acc(), govv1.NewNonSplitVoteOption(opts[r.Pick(len(opts))]), ""))
			}
			for _, u := range users[1:] {
				lib.Must(gs.Keeper.AddVote(c.Ctx, prop.Id, u.Acc(), govv1.WeightedVoteOptions{{Option: govv1.OptionYes, Weight: "0.7"}, {Option: govv1.OptionNoWithVeto, Weight: "0.3"}}, ""))
			}
		}
		after := c.Time.Add(15 * 24 * time.Hour)
		sc := replayScenario{Kind: "gov-endblocker-tally", Seed: cs, Detail: fmt.Sprintf("%d validators, %d proposals ending in one block", len(c.ValKeys), nprop)}
		replayN(rep, c, sc, reps, func(ctx sdk.Context) sdk.Context { return ctx.WithBlockTime(after) }, func(ctx sdk.Context) error {
			_, err := c.App.EndBlocker(ctx)
			return err
		})
	}
	// a proposal that passes and whose handler panics: the recovered failure reason is stored in the proposal and emitted
	for i := 0; i < nTally; i++ {
		cs := seed*1000 + 950 + int64(i)
		c := lib.NewChain(cs, 3+r.Intn(3), nil)
		u := lib.EthKey(cs, "c17-replay-proposer", 0)
		c.Mint(u.Acc(), lib.FX(100_000))
		tok, err := c.SetupModuleOwned("SACR", 7, []string{"eth"}, "")
		lib.Must(err)
		pair, found := c.App.Erc20Keeper.GetTokenPair(c.Ctx, tok.Base)
		if !found {
			panic("sacrificial pair not registered")
		}
		key := append(append([]byte{}, erc20types.KeyPrefixTokenPair...), pair.GetID()...)
		c.Ctx.KVStore(c.App.GetKey(erc20types.StoreKey)).Set(key, []byte{0xff, 0xff, 0x01})
		lib.Must(c.NextBlock())
		gs := c.App.GovKeeper
		prop, err := gs.Keeper.SubmitProposal(c.Ctx, []sdk.Msg{&erc20types.MsgToggleTokenConversion{Authority: lib.GovAuthority(), Token: tok.Base}}, "", "toggle", "s", u.Acc(), false)
		lib.Must(err)
		_, err = gs.AddDeposit(c.Ctx, prop.Id, u.Acc(), sdk.NewCoins(lib.FX(10_000)))
		lib.Must(err)
		for _, vk := range c.ValKeys {
			lib.Must(gs.Keeper.AddVote(c.Ctx, prop.Id, vk.Acc(), govv1.NewNonSplitVoteOption(govv1.OptionYes), ""))
		}
		after := c.Time.Add(15 * 24 * time.Hour)
		sc := replayScenario{Kind: "gov-endblocker-panicking-handler", Seed: cs, Detail: "a passed MsgToggleTokenConversion proposal whose handler panics on a corrupted pair record"}
		replayN(rep, c, sc, reps, func(ctx sdk.Context) sdk.Context { return ctx.WithBlockTime(after) }, func(ctx sdk.Context) error {
			_, err := c.App.EndBlocker(ctx)
			return err
		})
	}
	// handler ERROR paths with several simultaneous causes, executed by a passed proposal: the failure reason
	// (err.Error() of the handler) is stored in the proposal and emitted by the gov end blocker
	type failing struct {
		kind string
		msgs func(c *lib.Chain, cs int64) []sdk.Msg
	}
	for _, f := range []failing{
		{"gov-endblocker-failing-RegisterCoin(4 taken aliases)", func(c *lib.Chain, cs int64) []sdk.Msg {
			tok, err := c.SetupModuleOwned("USDV", 1, []string{"eth", "bsc", "tron", "polygon"}, "")
			lib.Must(err)
			var taken []string
			for _, a := range tok.Aliases {
				taken = append(taken, a.Denom)
			}
			return []sdk.Msg{&erc20types.MsgRegisterCoin{Authority: lib.GovAuthority(), Metadata: fxtypes.GetCrossChainMetadataManyToOne("Other coin", "OTHR", 18, taken...)}}
		}},
		{"gov-endblocker-failing-RegisterERC20(3 taken aliases)", func(c *lib.Chain, cs int64) []sdk.Msg {
			tok, err := c.SetupModuleOwned("USDV", 1, []string{"eth", "bsc", "tron"}, "")
			lib.Must(err)
			owner := lib.EthKey(cs, "c17-replay-owner", 0)
			addr, err := c.DeployFIP20(owner, "Free token", "FREE")
			lib.Must(err)
			var taken []string
			for _, a := range tok.Aliases {
				taken = append(taken, a.Denom)
			}
			return []sdk.Msg{&erc20types.MsgRegisterERC20{Authority: lib.GovAuthority(), Erc20Address: addr.Hex(), Aliases: taken}}
		}},
	} {
		cs := seed*1000 + 970
		c := lib.NewChain(cs, 3+r.Intn(3), nil)
		u := lib.EthKey(cs, "c17-replay-proposer", 0)
		c.Mint(u.Acc(), lib.FX(100_000))
		msgs := f.msgs(c, cs)
		lib.Must(c.NextBlock())
		gs := c.App.GovKeeper
		prop, err := gs.Keeper.SubmitProposal(c.Ctx, msgs, "", "failing", "s", u.Acc(), false)
		if err != nil {
			rep.Notes = append(rep.Notes, "scenario "+f.kind+": proposal not accepted at submission: "+err.Error())
			continue
		}
		_, err = gs.AddDeposit(c.Ctx, prop.Id, u.Acc(), sdk.NewCoins(lib.FX(10_000)))
		lib.Must(err)
		for _, vk := range c.ValKeys {
			lib.Must(gs.Keeper.AddVote(c.Ctx, prop.Id, vk.Acc(), govv1.NewNonSplitVoteOption(govv1.OptionYes), ""))
		}
		after := c.Time.Add(15 * 24 * time.Hour)
		sc := replayScenario{Kind: f.kind, Seed: cs, Detail: "a passed proposal whose message fails at execution for several reasons at once"}
		replayN(rep, c, sc, reps, func(ctx sdk.Context) sdk.Context { return ctx.WithBlockTime(after) }, func(ctx sdk.Context) error {
			_, err := c.App.EndBlocker(ctx)
			return err
		})
		// the scenario is only meaningful if the proposal really failed at execution
		cctx, _ := c.Ctx.CacheContext()
		_, _ = c.App.EndBlocker(cctx.WithBlockTime(after))
		if p, err := gs.Keeper.Proposals.Get(cctx, prop.Id); err == nil {
			rep.Count("failing-proposal-status:" + p.Status.String())
		}
	}
	// multi-cause refusals of messages that are not governance messages: the RESULT CODE of the transaction must
	// not depend on which cause is reported (error text is not consensus data; a difference is reported as a note)
	{
		cs := seed*1000 + 980
		c := lib.NewChain(cs, 3, nil)
		x := c.X("eth")
		x.SetupOracles([]int64{10_000, 10_000, 10_000})
		u := lib.EthKey(cs, "c17-replay-user", 0)
		c.Mint(u.Acc(), lib.FX(1000))
		lib.Must(c.NextBlock())
		x = c.X("eth")
		coins := sdk.NewCoins(lib.Coin("unknowna", 5), lib.Coin("unknownb", 6), lib.Coin("unknownc", 7), lib.Coin("unknownd", 8))
		lib.Must(c.App.BankKeeper.MintCoins(c.Ctx, "mint", coins))
		lib.Must(c.App.BankKeeper.SendCoinsFromModuleToAccount(c.Ctx, "mint", u.Acc(), coins))
		sc := replayScenario{Kind: "bridge-call-several-unknown-tokens", Seed: cs, Chain: "eth", Detail: "MsgBridgeCall carrying four coins none of which is a bridge token"}
		replayN(rep, c, sc, reps, nil, func(ctx sdk.Context) error {
			_, err := x.Msg().BridgeCall(ctx, &crosschaintypes.MsgBridgeCall{ChainName: "eth", Sender: u.Acc().String(), Refund: u.Acc().String(),
				Coins: coins, To: lib.ExternalAccount(cs, "eth", 2), Data: "", Memo: "", Value: sdkmath.ZeroInt()})
			return err
		})
		// MigrateAccount refused for several reasons at once: the source has a delegation AND is an oracle's bridger AND the
		// target already exists as an account with funds
		from := lib.CosmosKey(cs, "c17-replay-from", 0)
		to := lib.EthKey(cs, "c17-replay-to", 0)
		c.Mint(from.Acc(), lib.FX(5000))
		c.Mint(to.Acc(), lib.FX(5000))
		acc := c.App.AccountKeeper.GetAccount(c.Ctx, from.Acc())
		lib.Must(acc.SetPubKey(from.Priv.PubKey()))
		c.App.AccountKeeper.SetAccount(c.Ctx, acc)
		for _, k := range []lib.Key{from, to} {
			_, err := c.App.StakingKeeper.Delegate(c.Ctx, k.Acc(), sdkmath.NewInt(100).MulRaw(1e18), 1, mustVal(c, c.ValKeys[0]), true)
			lib.Must(err)
		}
		ecd, err := crypto.ToECDSA(to.ECDSAKeyBytes())
		lib.Must(err)
		sig, err := crypto.Sign(migratetypes.MigrateAccountSignatureHash(from.Acc(), to.Hex().Bytes()), ecd)
		lib.Must(err)
		sc2 := replayScenario{Kind: "migrate-account-refused-for-several-reasons", Seed: cs, Detail: "source and target both hold delegations"}
		replayN(rep, c, sc2, reps, nil, func(ctx sdk.Context) error {
			_, err := c.App.MigrateKeeper.MigrateAccount(ctx, migratetypes.NewMsgMigrateAccount(from.Acc(), to.Hex(), hex.EncodeToString(sig)))
			return err
		})
	}
}
