package main

// ties.go: correspondence runs that tie the remaining consumer models of coq/model/M_Perm.v to the real
// code (each writes a Cases_C17*.v evaluated in coqc):
//
//	Cases_C17tally.v   real x/gov Tally (replayed on cache branches: every replay ranges the validator map in
//	                   a fresh random order; all replays must agree) vs tally_counts on the same votes
//	Cases_C17upo.v     real UpdateProposalOracles vs upo (who is unbonded, accepted or refused)
//	Cases_C17prune.v   real pruneAttestations (inside an observing Claim) vs prune (delete_all over rebuild)
//	Cases_C17rb.v      real GetMaccPerms / ModuleAccountAddrs, two iteration orders, vs rebuild

import (
	"fmt"
	"sort"
	"strings"

	sdkmath "cosmossdk.io/math"
	codectypes "github.com/cosmos/cosmos-sdk/codec/types"
	sdk "github.com/cosmos/cosmos-sdk/types"
	govv1 "github.com/cosmos/cosmos-sdk/x/gov/types/v1"
	stakingtypes "github.com/cosmos/cosmos-sdk/x/staking/types"

	fxapp "github.com/functionx/fx-core/v8/app"
	crosschaintypes "github.com/functionx/fx-core/v8/x/crosschain/types"
	erc20types "github.com/functionx/fx-core/v8/x/erc20/types"

	"fxverif/lib"
)

func decStr(d sdkmath.LegacyDec) string { return d.BigInt().String() } // scaled by 10^18

func tallyTies(rep *lib.Report, seed int64, thorough bool) {
	r := lib.NewRand(seed*77 + 3)
	n, reps := 6, 24
	if thorough {
		n, reps = 40, 48
	}
	var items []string
	for i := 0; i < n; i++ {
		cs := seed*2000 + int64(i)
		c := lib.NewChain(cs, 3+r.Intn(6), nil)
		var users []lib.Key
		for u := 0; u < 4; u++ {
			k := lib.EthKey(cs, "c17-tally-user", u)
			users = append(users, k)
			c.Mint(k.Acc(), lib.FX(100_000))
		}
		for vi, vk := range c.ValKeys {
			for ui, u := range users {
				if r.Chance(60) {
					amt := sdkmath.NewInt(100 + r.Int63n(5000)).MulRaw(1e18).AddRaw(r.Int63n(1e9))
					_, err := c.App.StakingKeeper.Delegate(c.Ctx, u.Acc(), amt, stakingtypes.Unbonded, mustVal(c, vk), true)
					lib.Must(err)
					_, _ = ui, vi
				}
			}
		}
		lib.Must(c.NextBlock())
		gs := c.App.GovKeeper
		p := c.App.Erc20Keeper.GetParams(c.Ctx)
		prop, err := gs.Keeper.SubmitProposal(c.Ctx, []sdk.Msg{&erc20types.MsgUpdateParams{Authority: lib.GovAuthority(), Params: p}}, "", "p", "s", users[0].Acc(), false)
		lib.Must(err)
		_, err = gs.AddDeposit(c.Ctx, prop.Id, users[0].Acc(), sdk.NewCoins(lib.FX(10_000)))
		lib.Must(err)
		weights := []govv1.WeightedVoteOptions{
			{&govv1.WeightedVoteOption{Option: govv1.OptionYes, Weight: "1"}},
			{&govv1.WeightedVoteOption{Option: govv1.OptionNo, Weight: "1"}},
			{&govv1.WeightedVoteOption{Option: govv1.OptionAbstain, Weight: "1"}},
			{&govv1.WeightedVoteOption{Option: govv1.OptionNoWithVeto, Weight: "1"}},
			{&govv1.WeightedVoteOption{Option: govv1.OptionYes, Weight: "0.6"}, &govv1.WeightedVoteOption{Option: govv1.OptionNo, Weight: "0.4"}},
			{&govv1.WeightedVoteOption{Option: govv1.OptionYes, Weight: "0.333333333333333333"}, &govv1.WeightedVoteOption{Option: govv1.OptionAbstain, Weight: "0.333333333333333333"}, &govv1.WeightedVoteOption{Option: govv1.OptionNoWithVeto, Weight: "0.333333333333333334"}},
		}
		valVote := map[string]govv1.WeightedVoteOptions{} // indexed only
		for _, vk := range c.ValKeys {
			if r.Chance(80) {
				w := weights[r.Pick(len(weights))]
				lib.Must(gs.Keeper.AddVote(c.Ctx, prop.Id, vk.Acc(), w, ""))
				valVote[vk.Val().String()] = w
			}
		}
		// delegators vote too: their share is deducted from the validators and tallied by the store-ordered vote walk.
		// The harness recomputes that walk with the SDK's own decimal type: acc and the per-validator deductions.
		acc := [5]sdkmath.LegacyDec{sdkmath.LegacyZeroDec(), sdkmath.LegacyZeroDec(), sdkmath.LegacyZeroDec(), sdkmath.LegacyZeroDec(), sdkmath.LegacyZeroDec()}
		deductions := map[string]sdkmath.LegacyDec{} // indexed only
		optIdx := func(o govv1.VoteOption) int {
			switch o {
			case govv1.OptionYes:
				return 0
			case govv1.OptionAbstain:
				return 1
			case govv1.OptionNo:
				return 2
			}
			return 3
		}
		type voter struct {
			addr sdk.AccAddress
			w    govv1.WeightedVoteOptions
		}
		var voters []voter
		for _, u := range users {
			if r.Chance(60) {
				w := weights[r.Pick(len(weights))]
				lib.Must(gs.Keeper.AddVote(c.Ctx, prop.Id, u.Acc(), w, ""))
				voters = append(voters, voter{u.Acc(), w})
			}
		}
		for _, vk := range c.ValKeys {
			if w, ok := valVote[vk.Val().String()]; ok {
				voters = append(voters, voter{vk.Acc(), w})
			}
		}
		for _, vt := range voters {
			dels, err := c.App.StakingKeeper.GetDelegatorDelegations(c.Ctx, vt.addr, 1000)
			lib.Must(err)
			for _, d := range dels {
				valAddr, err := sdk.ValAddressFromBech32(d.ValidatorAddress)
				lib.Must(err)
				val, err := c.App.StakingKeeper.GetValidator(c.Ctx, valAddr)
				if err != nil || !val.IsBonded() {
					continue
				}
				ded, ok := deductions[d.ValidatorAddress]
				if !ok {
					ded = sdkmath.LegacyZeroDec()
				}
				deductions[d.ValidatorAddress] = ded.Add(d.Shares)
				vp := d.Shares.MulInt(val.GetBondedTokens()).Quo(val.GetDelegatorShares())
				for _, o := range vt.w {
					wd, _ := sdkmath.LegacyNewDecFromStr(o.Weight)
					acc[optIdx(o.Option)] = acc[optIdx(o.Option)].Add(vp.Mul(wd))
				}
				acc[4] = acc[4].Add(vp)
			}
		}
		var vals []string
		for _, vk := range c.ValKeys {
			val := mustVal(c, vk)
			ded, ok := deductions[vk.Val().String()]
			if !ok {
				ded = sdkmath.LegacyZeroDec()
			}
			var vs []string
			for _, o := range valVote[vk.Val().String()] {
				wd, _ := sdkmath.LegacyNewDecFromStr(o.Weight)
				// model option numbering: 1 yes, 2 abstain, 3 no, 4 veto
				vs = append(vs, fmt.Sprintf("(%d, %s)", optIdx(o.Option)+1, decStr(wd)))
			}
			vals = append(vals, fmt.Sprintf("mk_gov_val %s %s %s %s", decStr(val.GetDelegatorShares()), decStr(ded), val.GetBondedTokens().String(), lib.List(vs)))
		}
		proposal, err := gs.Keeper.Proposals.Get(c.Ctx, prop.Id)
		lib.Must(err)
		first := ""
		stable := true
		for j := 0; j < reps; j++ {
			cctx, _ := c.Ctx.CacheContext()
			_, _, tr, err := gs.Tally(cctx, proposal)
			lib.Must(err)
			got := fmt.Sprintf("(%s, %s, %s, %s)", tr.YesCount, tr.AbstainCount, tr.NoCount, tr.NoWithVetoCount)
			if j == 0 {
				first = got
			} else if got != first {
				stable = false
				rep.Fail(lib.Failure{Kind: "monitor", What: fmt.Sprintf("x/gov Tally of the same votes on the same state returned %s and %s", first, got),
					Sig: "C17:inprocess-replay:tally", Replay: map[string]interface{}{"chain_seed": cs, "validators": len(c.ValKeys), "first": first, "other": got}})
				break
			}
		}
		rep.Case(fmt.Sprintf("tally|%d|%s", cs, first), len(valVote) > 1)
		if stable {
			items = append(items, fmt.Sprintf("mk_tally_case (mk_tally %s %s %s %s %s) %s %s", decStr(acc[0]), decStr(acc[1]), decStr(acc[2]), decStr(acc[3]), decStr(acc[4]), lib.List(vals), first))
		}
	}
	lib.WriteCases("Cases_C17tally.v", []string{"model.M_Perm", "model.M_PermCorr"}, "tally_case", items, "tally_mismatch")
}

func upoTies(rep *lib.Report, seed int64, thorough bool) {
	r := lib.NewRand(seed*79 + 5)
	n := 16
	if thorough {
		n = 120
	}
	chains := []string{"eth", "bsc", "tron"}
	var items []string
	for i := 0; i < n; i++ {
		cs := seed*3000 + int64(i)
		ch := chains[r.Pick(len(chains))]
		c := lib.NewChain(cs, 3, nil)
		x := c.X(ch)
		no := 4 + r.Intn(9)
		stakes := make([]int64, no)
		for j := range stakes {
			stakes[j] = 10_000 + 1000*int64(r.Intn(6))
		}
		x.SetupOracles(stakes)
		lib.Must(c.NextBlock())
		x = c.X(ch)
		// sometimes a first update already took some oracles offline
		if r.Chance(40) {
			po, _ := x.Keeper.GetProposalOracle(c.Ctx)
			keep := append([]string{}, po.Oracles[1:]...)
			_ = c.Try(func(ctx sdk.Context) error { return x.Keeper.UpdateProposalOracles(ctx, keep) })
		}
		all := x.Keeper.GetAllOracles(c.Ctx, false)
		id := map[string]int{} // indexed only
		var allCoq []string
		for j, o := range all {
			id[o.OracleAddress] = j
			allCoq = append(allCoq, fmt.Sprintf("mk_orc %d %s %s", j, lib.Bool(o.Online), o.GetPower().String()))
		}
		po, _ := x.Keeper.GetProposalOracle(c.Ctx)
		next := len(all)
		idOf := func(a string) int {
			if v, ok := id[a]; ok {
				return v
			}
			id[a] = next
			next++
			return id[a]
		}
		var old, newIDs []int64
		for _, a := range po.Oracles {
			old = append(old, int64(idOf(a)))
		}
		var newList []string
		drops := r.Intn(4)
		perm := r.Perm(len(po.Oracles))
		for k, pi := range perm {
			if k < drops {
				continue
			}
			newList = append(newList, po.Oracles[pi])
		}
		extra := r.Intn(3)
		if r.Chance(4) {
			extra = 101
		}
		for k := 0; k < extra; k++ {
			newList = append(newList, lib.EthKey(cs, "c17-upo-new", k).Acc().String())
		}
		for _, a := range newList {
			newIDs = append(newIDs, int64(idOf(a)))
		}
		cctx, _ := c.Ctx.CacheContext()
		err := x.Keeper.UpdateProposalOracles(cctx, newList)
		obs := "None"
		if err == nil {
			var off []int64
			for j, o := range all {
				after, _ := x.Keeper.GetOracle(cctx, o.GetOracle())
				if o.Online && !after.Online {
					off = append(off, int64(j))
				} else if !o.Online && !after.Online {
					// already offline oracles that are dropped again are "unbonded" once more by the code: the model lists them too
					inNew, inOld := false, false
					for _, a := range newList {
						inNew = inNew || a == o.OracleAddress
					}
					for _, a := range po.Oracles {
						inOld = inOld || a == o.OracleAddress
					}
					if inOld && !inNew {
						off = append(off, int64(j))
					}
				}
			}
			obs = "(Some " + lib.ZList(off) + ")"
		} else if !strings.Contains(err.Error(), "max change power") && !strings.Contains(err.Error(), "oracle length") {
			rep.Count("upo-skipped-other-error")
			continue
		}
		rep.Case(fmt.Sprintf("upo|%d", cs), drops > 0)
		rep.Count("upo:" + map[bool]string{true: "accepted", false: "refused"}[err == nil])
		items = append(items, fmt.Sprintf("mk_upo_case %d %s %s %s %s", crosschaintypes.MaxOracleSize, lib.List(allCoq), lib.ZList(old), lib.ZList(newIDs), obs))
	}
	lib.WriteCases("Cases_C17upo.v", []string{"model.M_Perm", "model.M_PermCorr"}, "upo_case", items, "upo_mismatch")
}

func pruneTies(rep *lib.Report, seed int64, thorough bool) {
	r := lib.NewRand(seed*83 + 7)
	total := 150
	if thorough {
		total = 400
	}
	c := lib.NewChain(seed*4000+1, 3, nil)
	x := c.X("eth")
	x.SetupOracles([]int64{10_000, 10_000, 10_000})
	c.SetupFX([]string{"eth"})
	fx := lib.ExternalContract(c.Seed, "eth", 9000)
	lib.Must(c.NextBlock())
	x = c.X("eth")
	x.Oracles = []*lib.Oracle{x.NewOracle(0), x.NewOracle(1), x.NewOracle(2)}
	nonces := func(ctx sdk.Context) []int64 {
		var out []int64
		x.Keeper.IterateAttestationAndClaim(ctx, func(_ *crosschaintypes.Attestation, cl crosschaintypes.ExternalClaim) bool {
			out = append(out, int64(cl.GetEventNonce()))
			return false
		})
		return out
	}
	var items []string
	recv := lib.EthKey(c.Seed, "c17-prune-recv", 0).Acc().String()
	for n := uint64(1); n <= uint64(total); n++ {
		// oracle 2 sometimes reports a different amount for the same nonce (a second attestation at that nonce)
		for oi, o := range x.Oracles {
			amt := int64(1000)
			if oi == 2 && r.Chance(30) {
				amt = 999
			}
			claim := &crosschaintypes.MsgSendToFxClaim{EventNonce: n, BlockHeight: 1000 + n, TokenContract: fx, Amount: sdkmath.NewInt(amt),
				Sender: lib.ExternalAccount(c.Seed, "eth", 3), Receiver: recv, TargetIbc: "", BridgerAddress: o.Bridger.Acc().String(), ChainName: "eth"}
			anyClaim, err := codectypes.NewAnyWithValue(claim)
			lib.Must(err)
			before := append(nonces(c.Ctx), int64(n))
			lastBefore := x.Keeper.GetLastObservedEventNonce(c.Ctx)
			err = c.Try(func(ctx sdk.Context) error {
				_, e := x.Msg().Claim(ctx, &crosschaintypes.MsgClaim{ChainName: "eth", BridgerAddress: o.Bridger.Acc().String(), Claim: anyClaim})
				return e
			})
			if err != nil {
				continue
			}
			last := x.Keeper.GetLastObservedEventNonce(c.Ctx)
			if last == lastBefore {
				continue // not the observing vote: no pruning
			}
			after := nonces(c.Ctx)
			if n%3 == 0 || last < crosschaintypes.MaxKeepEventSize+5 && n%7 == 0 {
				rep.Case(fmt.Sprintf("prune|%d", n), last > crosschaintypes.MaxKeepEventSize)
				items = append(items, fmt.Sprintf("mk_prune_case %d %d %s %s", crosschaintypes.MaxKeepEventSize, last, lib.ZList(before), lib.ZList(after)))
			}
		}
		if n%10 == 0 {
			lib.Must(c.NextBlock())
			x.Keeper = c.XKeeper("eth")
		}
	}
	lib.WriteCases("Cases_C17prune.v", []string{"model.M_Perm", "model.M_PermCorr"}, "prune_case", items, "prune_mismatch")
}

func rebuildTies(rep *lib.Report) {
	var items []string
	mk := func(entries map[string]int64) string {
		var names []string
		for n := range entries { // any order; ranks are taken from the sorted list
			names = append(names, n)
		}
		sort.Strings(names)
		return ""
	}
	_ = mk
	for i := 0; i < 6; i++ {
		orders := [2][]string{}
		var names []string
		for j := 0; j < 2; j++ {
			m := fxapp.GetMaccPerms()
			if j == 0 {
				for n := range m {
					names = append(names, n)
				}
				sort.Strings(names)
			}
			var coq []string
			for n, perms := range m { // deliberately in Go's iteration order
				coq = append(coq, fmt.Sprintf("(%d, %d)", sort.SearchStrings(names, n), len(perms)))
			}
			orders[j] = coq
		}
		rep.Case(fmt.Sprintf("rebuild|maccperms|%d", i), true)
		items = append(items, fmt.Sprintf("mk_rb_case %s %s", lib.List(orders[0]), lib.List(orders[1])))
		var addrs []string
		o2 := [2][]string{}
		for j := 0; j < 2; j++ {
			m := fxapp.ModuleAccountAddrs()
			if j == 0 {
				for a := range m {
					addrs = append(addrs, a)
				}
				sort.Strings(addrs)
			}
			var coq []string
			for a, v := range m {
				b := 0
				if v {
					b = 1
				}
				coq = append(coq, fmt.Sprintf("(%d, %d)", sort.SearchStrings(addrs, a), b))
			}
			o2[j] = coq
		}
		items = append(items, fmt.Sprintf("mk_rb_case %s %s", lib.List(o2[0]), lib.List(o2[1])))
	}
	lib.WriteCases("Cases_C17rb.v", []string{"model.M_Perm", "model.M_PermCorr"}, "rb_case", items, "rb_mismatch")
}
