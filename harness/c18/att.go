package main

import (
	"fmt"
	"strings"

	sdkmath "cosmossdk.io/math"
	sdk "github.com/cosmos/cosmos-sdk/types"
	"github.com/ethereum/go-ethereum/common"

	crosschaintypes "github.com/functionx/fx-core/v8/x/crosschain/types"

	"fxverif/lib"
)

// boundary 1: the vote that makes an event observed, with a handler that fails / succeeds.
// pre = all oracles but the last have voted; op = the last oracle's vote (real MsgServer.Claim, tx semantics).
func (e *env) attestationCases() []string {
	c, x := e.c, e.x
	k := x.Keeper
	var out []string
	newContract := lib.EthKey(c.Seed, "new-bridge-token", 0).Hex().Hex()

	type scen struct {
		name string
		kind int64 // model claim kind
		arg  func(ctx sdk.Context) int64
		mk   func(ctx sdk.Context) crosschaintypes.ExternalClaim
	}
	// outgoing bridge calls (carrying tokens) whose timeout already lies below the external height, per scenario
	staleOf := map[string]int{"bridge-token-existing+timed-out-calls": 2, "oracle-set-unknown+timed-out-call": 1, "send-to-fx+timed-out-call": 1}
	tokenID := func(contract string) int64 {
		for i, t := range e.toks {
			if t.Contract == contract {
				return int64(i)
			}
		}
		return 5
	}
	btc := func(contract string) func(sdk.Context) crosschaintypes.ExternalClaim {
		return func(sdk.Context) crosschaintypes.ExternalClaim {
			return &crosschaintypes.MsgBridgeTokenClaim{TokenContract: contract, Name: "Tok", Symbol: "TOK", Decimals: 18}
		}
	}
	osc := func(nonce func(ctx sdk.Context) uint64) func(sdk.Context) crosschaintypes.ExternalClaim {
		return func(ctx sdk.Context) crosschaintypes.ExternalClaim {
			n := nonce(ctx)
			cl := &crosschaintypes.MsgOracleSetUpdatedClaim{OracleSetNonce: n}
			if os := k.GetOracleSet(ctx, n); os != nil {
				cl.Members = os.Members
			}
			return cl
		}
	}
	latestOS := func(ctx sdk.Context) uint64 {
		var n uint64
		for _, os := range k.GetOracleSets(ctx) {
			if os.Nonce > n {
				n = os.Nonce
			}
		}
		return n
	}
	scens := []scen{
		{"bridge-token-existing", 0, func(sdk.Context) int64 { return 0 }, btc(e.toks[0].Contract)},
		{"bridge-token-existing-2", 0, func(sdk.Context) int64 { return 2 }, btc(e.toks[2].Contract)},
		{"bridge-token-fx-wrong-decimals", 3, func(sdk.Context) int64 { return 0 }, func(sdk.Context) crosschaintypes.ExternalClaim {
			return &crosschaintypes.MsgBridgeTokenClaim{TokenContract: lib.EthKey(c.Seed, "fx-bridge-token", 0).Hex().Hex(), Name: "Function X", Symbol: "FX", Decimals: 6}
		}},
		// a tolerated handler failure at an event that ALSO triggers the clean-ups of TryAttestation: timed-out outgoing bridge
		// calls must still be refunded and removed at that event
		{"bridge-token-existing+timed-out-calls", 0, func(sdk.Context) int64 { return 1 }, btc(e.toks[1].Contract)},
		{"oracle-set-unknown+timed-out-call", 1, func(sdk.Context) int64 { return 7777 }, osc(func(sdk.Context) uint64 { return 7777 })},
		{"send-to-fx+timed-out-call", 2, nil, func(sdk.Context) crosschaintypes.ExternalClaim {
			return &crosschaintypes.MsgSendToFxClaim{TokenContract: e.toks[1].Contract, Amount: sdkmath.NewInt(5),
				Sender: lib.EthKey(c.Seed, "ext", 1).Hex().Hex(), Receiver: lib.EthKey(c.Seed, "warm", 1).Acc().String()}
		}},
		{"bridge-token-new", 0, func(sdk.Context) int64 { return tokenID(newContract) }, btc(newContract)},
		{"oracle-set-unknown", 1, func(sdk.Context) int64 { return 7777 }, osc(func(sdk.Context) uint64 { return 7777 })},
		{"oracle-set-zero", 1, func(sdk.Context) int64 { return 0 }, osc(func(sdk.Context) uint64 { return 0 })},
		{"oracle-set-known", 1, func(ctx sdk.Context) int64 { return int64(latestOS(ctx)) }, osc(latestOS)},
		// a handler that PANICS (unknown batch): not a tolerated failure — the vote transaction fails as a whole
		{"send-to-external-unknown-batch", 4, func(sdk.Context) int64 { return 0 }, func(sdk.Context) crosschaintypes.ExternalClaim {
			return &crosschaintypes.MsgSendToExternalClaim{BatchNonce: 4242, TokenContract: e.toks[0].Contract}
		}},
		{"send-to-fx", 2, nil, func(sdk.Context) crosschaintypes.ExternalClaim {
			return &crosschaintypes.MsgSendToFxClaim{TokenContract: e.toks[1].Contract, Amount: sdkmath.NewInt(5),
				Sender: lib.EthKey(c.Seed, "ext", 1).Hex().Hex(), Receiver: lib.EthKey(c.Seed, "warm", 1).Acc().String()}
		}},
		{"bridge-call", 2, nil, func(sdk.Context) crosschaintypes.ExternalClaim {
			a := lib.EthKey(c.Seed, "bc-sender", 0).Hex().Hex()
			return &crosschaintypes.MsgBridgeCallClaim{Sender: a, Refund: a, To: a, TxOrigin: a, Value: sdkmath.ZeroInt()}
		}},
	}
	for _, s := range scens {
		B, _ := c.Ctx.CacheContext()
		nonce := k.GetLastObservedEventNonce(B) + 1
		e.extH++
		// outgoing bridge calls made earlier (their coins left the sender already) that have timed out by now
		staleRefund := lib.EthKey(c.Seed, "stale-refund", 0).Hex()
		c.EnsureAccount(B, staleRefund.Bytes())
		for j := 0; j < staleOf[s.name]; j++ {
			t := e.toks[j%3]
			lib.Must(c.App.BankKeeper.MintCoins(B, "eth", sdk.NewCoins(sdk.NewCoin(t.BridgeDenom, sdkmath.NewInt(0).AddRaw(1)))))
			oc, err := k.BuildOutgoingBridgeCall(B, staleRefund, staleRefund, []crosschaintypes.ERC20Token{crosschaintypes.NewERC20Token(sdkmath.NewInt(int64(7+j)), t.Contract)}, common.Address{}, nil, nil, 0)
			lib.Must(err)
			oc.Timeout = 1 // far below the external height of any claim
			k.AddOutgoingBridgeCallWithoutBuild(B, oc)
			k.SetBridgeCallFromMsg(B, oc.Nonce) // made by a message: refunded as bridge coins, not into the EVM
		}
		countCalls := func(ctx sdk.Context) int64 {
			n := int64(0)
			k.IterateOutgoingBridgeCalls(ctx, func(*crosschaintypes.OutgoingBridgeCall) bool { n++; return false })
			return n
		}
		stalePre := countCalls(B)
		claim := s.mk(B)
		setNonce(claim, nonce, e.extH)
		last := x.Oracles[len(x.Oracles)-1]
		for _, o := range x.Oracles[:len(x.Oracles)-1] {
			lib.Must(e.vote(B, o, cloneClaim(claim)))
		}
		if att := k.GetAttestation(B, nonce, claim.ClaimHash()); att == nil || att.Observed {
			panic("attestation should exist and not be observed before the last vote")
		}
		arg := nonce
		if s.arg != nil {
			arg = uint64(s.arg(B))
		}
		// pre-state of the abstract case
		var osets []int64
		for _, os := range k.GetOracleSets(B) {
			osets = append(osets, int64(os.Nonce))
		}
		lastOS := int64(0)
		if los := k.GetLastObservedOracleSet(B); los != nil {
			lastOS = int64(los.Nonce)
		}
		var tokens []int64
		for i := range e.toks {
			tokens = append(tokens, int64(i))
		}

		// branch 1: the real vote
		B1, _ := B.CacheContext()
		B1 = B1.WithEventManager(sdk.NewEventManager())
		myClaim := cloneClaim(claim)
		err := e.vote(B1, last, myClaim)
		post := c.DumpAll(B1)
		if err != nil {
			// the transaction failed (handler panic): nothing of it may stay, not even the vote; the event is NOT observed
			if s.kind != 4 {
				panic("vote transaction failed unexpectedly in scenario " + s.name + ": " + err.Error())
			}
			if !strings.Contains(err.Error(), "PANIC") {
				panic("vote refused for another reason: " + err.Error())
			}
			if diff := lib.DiffDumps(c.DumpAll(B), post); len(diff) > 0 {
				e.failSig(lib.Failure{Kind: "monitor", Sig: "C18:attestation:panic:" + s.name,
					What:   "a vote transaction whose handler panicked left writes behind",
					Replay: map[string]interface{}{"scenario": s.name, "diff(-pre,+post)": diff}})
			}
			e.rep.Case("att:"+s.name, false)
			e.rep.Count(fmt.Sprintf("attestation:%s:tx-failed", s.name))
			_, pend := k.GetPendingExecuteClaim(B1, nonce)
			lastOS2 := int64(0)
			if los := k.GetLastObservedOracleSet(B1); los != nil {
				lastOS2 = int64(los.Nonce)
			}
			out = append(out, fmt.Sprintf("mk_att_case %d %d %s %s %d %d %d %d 2 %d false %s %d",
				stalePre, countCalls(B1), lib.ZList(tokens), lib.ZList(osets), lastOS, nonce-1, s.kind, arg, k.GetLastObservedEventNonce(B1), lib.Bool(pend), lastOS2))
			continue
		}
		ok, seen := false, false
		for _, ev := range B1.EventManager().Events() {
			if ev.Type != crosschaintypes.EventTypeContractEvent {
				continue
			}
			for _, a := range ev.Attributes {
				if a.Key == crosschaintypes.AttributeKeyStateSuccess {
					seen, ok = true, a.Value == "true"
				}
			}
		}
		if !seen {
			panic("no contract event: the last vote did not make the event observed")
		}
		obsNonce := k.GetLastObservedEventNonce(B1)
		obsTok := false
		if s.kind == 0 {
			obsTok = k.HasBridgeToken(B1, crosschaintypes.NewBridgeDenom("eth", claim.(*crosschaintypes.MsgBridgeTokenClaim).TokenContract))
		}
		_, obsPending := k.GetPendingExecuteClaim(B1, nonce)
		obsLastOS := int64(0)
		if los := k.GetLastObservedOracleSet(B1); los != nil {
			obsLastOS = int64(los.Nonce)
		}

		// monitor: failed handler => exactly "event marked observed" (+ this oracle's vote bookkeeping)
		if !ok {
			B2, _ := B.CacheContext()
			att := k.GetAttestation(B2, nonce, claim.ClaimHash())
			att.Votes = append(att.Votes, last.Oracle.Acc().String())
			att.Observed = true
			k.SetLastObservedEventNonce(B2, nonce)
			k.SetLastObservedBlockHeight(B2, claim.GetBlockHeight(), uint64(B2.BlockHeight()))
			k.SetAttestation(B2, nonce, claim.ClaimHash(), att)
			// … and the clean-ups every observed event triggers (TryAttestation): outgoing bridge calls whose timeout lies below
			// the external height just reported are refunded and removed
			var timedOut []*crosschaintypes.OutgoingBridgeCall
			k.IterateOutgoingBridgeCalls(B2, func(o *crosschaintypes.OutgoingBridgeCall) bool {
				if o.Timeout <= claim.GetBlockHeight() {
					timedOut = append(timedOut, o)
				}
				return false
			})
			for _, o := range timedOut {
				k.HandleOutgoingBridgeCallRefund(B2, o)
				k.DeleteOutgoingBridgeCallRecord(B2, o.Nonce)
			}
			k.SetLastEventNonceByOracle(B2, last.Oracle.Acc(), nonce)
			k.SetLastEventBlockHeightByOracle(B2, last.Oracle.Acc(), claim.GetBlockHeight())
			if diff := lib.DiffDumps(c.DumpAll(B2), post); len(diff) > 0 {
				e.failSig(lib.Failure{Kind: "monitor", Sig: "C18:attestation:" + s.name,
					What:   "state after an observed event whose handler failed differs from 'event marked observed'",
					Replay: map[string]interface{}{"scenario": s.name, "diff(-designated,+real)": diff}})
			}
		}
		e.rep.Case("att:"+s.name, !ok)
		e.rep.Count(fmt.Sprintf("attestation:%s:ok=%v", s.name, ok))
		cls := 1
		if ok {
			cls = 0
		}
		out = append(out, fmt.Sprintf("mk_att_case %d %d %s %s %d %d %d %d %d %d %s %s %d",
			stalePre, countCalls(B1), lib.ZList(tokens), lib.ZList(osets), lastOS, nonce-1, s.kind, arg,
			cls, obsNonce, lib.Bool(obsTok), lib.Bool(obsPending), obsLastOS))
	}
	return out
}
