package main

import (
	"encoding/json"
	"fmt"
	"math/big"
	"os"

	sdkmath "cosmossdk.io/math"
	sdk "github.com/cosmos/cosmos-sdk/types"

	crosschaintypes "github.com/functionx/fx-core/v8/x/crosschain/types"

	"fxverif/c18/tok"
	"fxverif/lib"
)

// findingViaPrecompile replays the (fixed) finding C18-1 end to end: the claim is observed by the oracles and executed by an
// ordinary account through the executeClaim precompile (real EVM transaction path), on a branch of the state.
func (e *env) findingViaPrecompile() {
	c, x := e.c, e.x
	B, _ := c.Ctx.CacheContext()
	t := e.toks[0]
	sender := lib.EthKey(c.Seed, "bc-sender", 0).Hex()
	victim := lib.EthKey(c.Seed, "bc-refund", 0).Hex()
	coins := sdk.NewCoins(sdk.NewCoin(t.Base, sdkmath.NewInt(1000)))
	lib.Must(c.App.BankKeeper.MintCoins(B, "mint", coins))
	lib.Must(c.App.BankKeeper.SendCoinsFromModuleToAccount(B, "mint", victim.Bytes(), coins))
	lib.Must(c.App.BankKeeper.MintCoins(B, "eth", sdk.NewCoins(sdk.NewCoin(t.BridgeDenom, sdkmath.NewInt(1000)))))
	msg := &crosschaintypes.MsgBridgeCallClaim{Sender: sender.Hex(), Refund: victim.Hex(), To: e.cWriteRevert.Hex(), Value: sdkmath.ZeroInt(), TxOrigin: sender.Hex(),
		TokenContracts: []string{t.Contract}, Amounts: []sdkmath.Int{sdkmath.NewInt(10)}}
	nonce := e.observe(B, msg)
	input, err := crosschaintypes.GetABI().Pack("executeClaim", "eth", new(big.Int).SetUint64(nonce))
	lib.Must(err)
	caller := lib.EthKey(c.Seed, "anybody", 0).Hex()
	before := [2]string{tok.Bank(c, B, e.cWriteRevert.Bytes(), t.Base).String(), tok.Bank(c, B, victim.Bytes(), t.Base).String()}
	pre := lib.CrosschainPrecompile
	res := c.EvmCall(B, caller, &pre, nil, 5_000_000, input)
	after := [2]string{tok.Bank(c, B, e.cWriteRevert.Bytes(), t.Base).String(), tok.Bank(c, B, victim.Bytes(), t.Base).String()}
	n := 0
	x.Keeper.IterateOutgoingBridgeCalls(B, func(o *crosschaintypes.OutgoingBridgeCall) bool { n++; return false })
	// regression of finding C18-1 (fixed): the deposit must go out again as the refund — nobody's balance changes
	if !(res.Err == nil && !res.Failed && after[0] == before[0] && after[1] == before[1] && n == 1) {
		e.failSig(lib.Failure{Kind: "monitor", Sig: "C18:bridgecall:precompile",
			What: "failed inbound bridge call executed through the executeClaim precompile did not end in the designated refund",
			Replay: map[string]interface{}{"evm_failed": res.Failed, "err": fmt.Sprint(res.Err), "receiver_base_coins": before[0] + " -> " + after[0],
				"refund_address_base_coins": before[1] + " -> " + after[1], "outgoing_refund_calls": n}})
	}
}

// replay re-runs one recorded failing bridge-call case (bin/replay)
func (e *env) replay(path string) {
	var r struct {
		Replay struct {
			Case     *bcCase `json:"case"`
			Scenario string  `json:"scenario"`
		} `json:"replay"`
	}
	bz, err := os.ReadFile(path)
	lib.Must(err)
	lib.Must(json.Unmarshal(bz, &r))
	shown := 0
	if r.Replay.Case != nil {
		fmt.Println("replaying bridge-call case:", fmt.Sprintf("%+v", *r.Replay.Case))
		e.bridgeCallCase(*r.Replay.Case)
	} else {
		// a named scenario of one of the fixed boundary suites (attestation / gov / IBC receive / SendToFx->IBC / outgoing calls):
		// the suites are deterministic; re-run them and show what the named scenario gives on this tree
		fmt.Println("replaying scenario:", r.Replay.Scenario)
		e.attestationCases()
		e.govCases(2)
		e.ibcRecvCases()
		e.sendToFxIbcCases()
		e.outgoingCallCases()
	}
	for _, f := range e.rep.Failures {
		if r.Replay.Case == nil {
			if m, ok := f.Replay.(map[string]interface{}); !ok || fmt.Sprint(m["scenario"]) != r.Replay.Scenario {
				continue
			}
		}
		out, _ := json.MarshalIndent(f, "", " ")
		fmt.Println(string(out))
		shown++
	}
	if shown == 0 {
		fmt.Println("no monitor failure on this tree")
	}
}
