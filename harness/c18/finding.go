package main

import (
	"encoding/json"
	"fmt"
	"math/big"
	"os"

	sdkmath "cosmossdk.io/math"
	sdk "github.com/cosmos/cosmos-sdk/types"

	crosschaintypes "github.com/functionx/fx-core/v8/x/crosschain/types"

	"fxverif/c18/tok"
	"fxverif/lib"
)

// findingViaPrecompile replays C18-1 end to end: the claim is observed by the oracles and executed by an
// ordinary account through the executeClaim precompile (real EVM transaction path), on a branch of the state.
func (e *env) findingViaPrecompile() {
	c, x := e.c, e.x
	B, _ := c.Ctx.CacheContext()
	t := e.toks[0]
	sender := lib.EthKey(c.Seed, "bc-sender", 0).Hex()
	victim := lib.EthKey(c.Seed, "bc-refund", 0).Hex()
	coins := sdk.NewCoins(sdk.NewCoin(t.Base, sdkmath.NewInt(1000)))
	lib.Must(c.App.BankKeeper.MintCoins(B, "mint", coins))
	lib.Must(c.App.BankKeeper.SendCoinsFromModuleToAccount(B, "mint", victim.Bytes(), coins))
	lib.Must(c.App.BankKeeper.MintCoins(B, "eth", sdk.NewCoins(sdk.NewCoin(t.BridgeDenom, sdkmath.NewInt(1000)))))
	msg := &crosschaintypes.MsgBridgeCallClaim{Sender: sender.Hex(), Refund: victim.Hex(), To: e.cWriteRevert.Hex(), Value: sdkmath.ZeroInt(), TxOrigin: sender.Hex(),
		TokenContracts: []string{t.Contract}, Amounts: []sdkmath.Int{sdkmath.NewInt(10)}}
	nonce := e.observe(B, msg)
	input, err := crosschaintypes.GetABI().Pack("executeClaim", "eth", new(big.Int).SetUint64(nonce))
	lib.Must(err)
	caller := lib.EthKey(c.Seed, "anybody", 0).Hex()
	before := [2]string{tok.Bank(c, B, e.cWriteRevert.Bytes(), t.Base).String(), tok.Bank(c, B, victim.Bytes(), t.Base).String()}
	pre := lib.CrosschainPrecompile
	res := c.EvmCall(B, caller, &pre, nil, 5_000_000, input)
	after := [2]string{tok.Bank(c, B, e.cWriteRevert.Bytes(), t.Base).String(), tok.Bank(c, B, victim.Bytes(), t.Base).String()}
	n := 0
	x.Keeper.IterateOutgoingBridgeCalls(B, func(o *crosschaintypes.OutgoingBridgeCall) bool { n++; return false })
	e.rep.Notes = append(e.rep.Notes, fmt.Sprintf("C18-1 through the executeClaim precompile: evm failed=%v err=%v; receiver(contract) base coins %s -> %s, refund address base coins %s -> %s, outgoing refund calls=%d",
		res.Failed, res.Err, before[0], after[0], before[1], after[1], n))
	if !(res.Err == nil && !res.Failed && after[0] == "10" && after[1] == "990") {
		e.rep.Notes = append(e.rep.Notes, "C18-1 did NOT reproduce through the precompile on this tree")
	}
}

// replay re-runs one recorded failing bridge-call case (bin/replay)
func (e *env) replay(path string) {
	var r struct {
		Replay struct {
			Case bcCase `json:"case"`
		} `json:"replay"`
	}
	bz, err := os.ReadFile(path)
	lib.Must(err)
	lib.Must(json.Unmarshal(bz, &r))
	fmt.Println("replaying bridge-call case:", fmt.Sprintf("%+v", r.Replay.Case))
	e.bridgeCallCase(r.Replay.Case)
	for _, f := range e.rep.Failures {
		out, _ := json.MarshalIndent(f, "", " ")
		fmt.Println(string(out))
	}
	if len(e.rep.Failures) == 0 {
		fmt.Println("no monitor failure on this tree")
	}
}
