package main

import (
	"fmt"
	"time"

	"cosmossdk.io/collections"
	sdkmath "cosmossdk.io/math"
	sdk "github.com/cosmos/cosmos-sdk/types"
	authtypes "github.com/cosmos/cosmos-sdk/x/auth/types"
	banktypes "github.com/cosmos/cosmos-sdk/x/bank/types"
	distrtypes "github.com/cosmos/cosmos-sdk/x/distribution/types"
	govtypes "github.com/cosmos/cosmos-sdk/x/gov/types"
	govv1 "github.com/cosmos/cosmos-sdk/x/gov/types/v1"

	fxtypes "github.com/functionx/fx-core/v8/types"
	fxgov "github.com/functionx/fx-core/v8/x/gov"
	fxgovkeeper "github.com/functionx/fx-core/v8/x/gov/keeper"

	"fxverif/lib"
)

type govMsg struct {
	Kind int64 `json:"kind"` // 0 = bank send from the gov account, 2 = send to a blocked address (always fails)
	To   int64 `json:"to"`   // recipient 1..3
	Amt  int64 `json:"amt"`
}
type govCase struct {
	GovBal int64    `json:"gov_balance"`
	Msgs   []govMsg `json:"msgs"`
}

// boundary 3: a passed proposal whose i-th message fails.  pre = proposal submitted, deposited, voted, voting
// period over; op = the real gov EndBlocker.
func (e *env) govCases(n int) []string {
	var out []string
	// fixed: failure at first / middle / last of three, all succeed, blocked recipient after two sends
	fixed := []govCase{
		{100, []govMsg{{0, 1, 101}, {0, 2, 10}, {0, 3, 10}}},
		{100, []govMsg{{0, 1, 60}, {0, 2, 50}, {0, 3, 10}}},
		{100, []govMsg{{0, 1, 60}, {0, 2, 30}, {0, 3, 11}}},
		{100, []govMsg{{0, 1, 60}, {0, 2, 30}, {0, 3, 10}}},
		{100, []govMsg{{0, 1, 60}, {0, 2, 30}, {2, 0, 5}, {0, 3, 1}}},
		{100, []govMsg{{2, 0, 5}}},
		{100, []govMsg{{0, 1, 100}}},
	}
	for _, k := range fixed {
		out = append(out, e.govCase(k))
	}
	for i := 0; i < n; i++ {
		r := e.r
		k := govCase{GovBal: int64(50 + r.Intn(200))}
		nm := 1 + r.Intn(4)
		for j := 0; j < nm; j++ {
			m := govMsg{Kind: 0, To: int64(1 + r.Intn(3)), Amt: int64(1 + r.Intn(int(k.GovBal)))}
			if r.Chance(12) {
				m.Kind = 2
			}
			k.Msgs = append(k.Msgs, m)
		}
		out = append(out, e.govCase(k))
	}
	return out
}

func (e *env) govCase(k govCase) string {
	c := e.c
	gk := c.App.GovKeeper
	ms := fxgovkeeper.NewMsgServerImpl(gk)
	B, _ := c.Ctx.CacheContext()
	govAddr := authtypes.NewModuleAddress(govtypes.ModuleName)
	denom := fxtypes.DefaultDenom
	// the gov account holds exactly GovBal (whatever it held before is moved away)
	if cur := c.App.BankKeeper.GetBalance(B, govAddr, denom); cur.IsPositive() {
		lib.Must(c.App.BankKeeper.SendCoinsFromModuleToModule(B, govtypes.ModuleName, distrtypes.ModuleName, sdk.NewCoins(cur)))
	}
	fund := sdk.NewCoins(sdk.NewCoin(denom, sdkmath.NewInt(k.GovBal)))
	lib.Must(c.App.BankKeeper.MintCoins(B, "mint", fund))
	lib.Must(c.App.BankKeeper.SendCoinsFromModuleToModule(B, "mint", govtypes.ModuleName, fund))
	rcp := []sdk.AccAddress{nil}
	for i := 1; i <= 3; i++ {
		a := lib.EthKey(c.Seed, "gov-rcp", i).Acc()
		c.EnsureAccount(B, a)
		rcp = append(rcp, a)
	}
	blocked := authtypes.NewModuleAddress(authtypes.FeeCollectorName)
	var msgs []sdk.Msg
	for _, m := range k.Msgs {
		to := blocked
		if m.Kind == 0 {
			to = rcp[m.To]
		}
		msgs = append(msgs, &banktypes.MsgSend{FromAddress: govAddr.String(), ToAddress: to.String(),
			Amount: sdk.NewCoins(sdk.NewCoin(denom, sdkmath.NewInt(m.Amt)))})
	}
	proposer := lib.EthKey(c.Seed, "gov-proposer", 0).Acc()
	params, err := gk.Params.Get(B)
	lib.Must(err)
	dep := sdk.NewCoins(params.MinDeposit...).MulInt(sdkmath.NewInt(3))
	lib.Must(c.App.BankKeeper.MintCoins(B, "mint", dep))
	lib.Must(c.App.BankKeeper.SendCoinsFromModuleToAccount(B, "mint", proposer, dep))
	sp, err := govv1.NewMsgSubmitProposal(msgs, dep, proposer.String(), "", "payouts", "payouts from the gov account", false)
	lib.Must(err)
	resp, err := ms.SubmitProposal(B, sp)
	lib.Must(err)
	id := resp.ProposalId
	_, err = ms.Vote(B, &govv1.MsgVote{ProposalId: id, Voter: c.ValKeys[0].Acc().String(), Option: govv1.OptionYes})
	lib.Must(err)
	prop, err := gk.Proposals.Get(B, id)
	lib.Must(err)
	if prop.Status != govv1.StatusVotingPeriod {
		panic("proposal not in voting period: " + prop.Status.String())
	}
	B = B.WithBlockTime(prop.VotingEndTime.Add(time.Second))

	// deposits sit in the gov account until the end blocker hands them back, which it does BEFORE the messages run
	held := sdkmath.ZeroInt()
	bals := func(ctx sdk.Context) string {
		v := []string{lib.ZBig(c.App.BankKeeper.GetBalance(ctx, govAddr, denom).Amount.Sub(held).BigInt())}
		for i := 1; i <= 3; i++ {
			v = append(v, lib.ZBig(c.App.BankKeeper.GetBalance(ctx, rcp[i], denom).Amount.BigInt()))
		}
		return lib.List(v)
	}
	held = dep.AmountOf(denom)
	preBal := bals(B)
	held = sdkmath.ZeroInt()

	// branch 1: the real end blocker
	B1, _ := B.CacheContext()
	lib.Must(fxgov.EndBlocker(B1, gk))
	post := c.DumpAll(B1)
	after, err := gk.Proposals.Get(B1, id)
	lib.Must(err)
	postBal := bals(B1)
	passed := after.Status == govv1.StatusPassed

	// position of the failing message, by running the handlers on a scratch branch (also yields the error text)
	failAt, failText := -1, ""
	{
		S, _ := B.CacheContext()
		// the end blocker hands the deposits back (or burns them) BEFORE the messages run: the gov account no longer holds them
		pS, err := gk.Proposals.Get(S, id)
		lib.Must(err)
		_, burnS, _, err := gk.Tally(S, pS)
		lib.Must(err)
		if burnS {
			lib.Must(gk.DeleteAndBurnDeposits(S, id))
		} else {
			lib.Must(gk.RefundAndDeleteDeposits(S, id))
		}
		for i, m := range msgs {
			_, err := gk.Router().Handler(m)(S, m)
			if err != nil {
				failAt, failText = i, err.Error()
				break
			}
		}
	}
	if failAt >= 0 {
		// monitor: designated outcome = proposal failed (+ tally result, deposits handled, queue entry removed), nothing else
		B2, _ := B.CacheContext()
		p2, err := gk.Proposals.Get(B2, id)
		lib.Must(err)
		_, burn, tally, err := gk.Tally(B2, p2)
		lib.Must(err)
		if burn {
			lib.Must(gk.DeleteAndBurnDeposits(B2, id))
		} else {
			lib.Must(gk.RefundAndDeleteDeposits(B2, id))
		}
		lib.Must(gk.ActiveProposalsQueue.Remove(B2, collections.Join(*p2.VotingEndTime, id)))
		p2.Status = govv1.StatusFailed
		p2.FailedReason = failText
		p2.FinalTallyResult = &tally
		lib.Must(gk.SetProposal(B2, p2))
		if diff := lib.DiffDumps(c.DumpAll(B2), post); len(diff) > 0 {
			e.failSig(lib.Failure{Kind: "monitor", Sig: fmt.Sprintf("C18:gov:fail-at-%d-of-%d", failAt, len(msgs)),
				What:   "state after a passed proposal whose message failed differs from 'proposal marked failed'",
				Replay: map[string]interface{}{"case": k, "diff(-designated,+real)": diff}})
		}
	}
	e.rep.Case("gov:"+fmt.Sprint(k), failAt > 0)
	e.rep.Count(fmt.Sprintf("gov:failAt=%d,n=%d", failAt, len(msgs)))

	var mm []string
	for _, m := range k.Msgs {
		mm = append(mm, fmt.Sprintf("(%d, %d, %d)", m.Kind, m.To, m.Amt))
	}
	return fmt.Sprintf("mk_gov_case %s 0 %s %s %s 0 %d", preBal, lib.List(mm), lib.Bool(passed), postBal, int64(after.Status))
}
