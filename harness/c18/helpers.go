package main

import (
	"fmt"
	"os"
	"reflect"

	codectypes "github.com/cosmos/cosmos-sdk/codec/types"
	sdk "github.com/cosmos/cosmos-sdk/types"
	"github.com/cosmos/gogoproto/proto"

	crosschaintypes "github.com/functionx/fx-core/v8/x/crosschain/types"

	"fxverif/lib"
)

func lookupEnv(k string) (string, bool) { return os.LookupEnv(k) }

// ClaimOn: oracle o's vote for claim through the real MsgServer.Claim on the given context.
func claimOn(x *lib.XChain, ctx sdk.Context, o *lib.Oracle, claim crosschaintypes.ExternalClaim) error {
	setBridger(claim, o.Bridger.Acc().String(), x.Module)
	anyClaim, err := codectypes.NewAnyWithValue(claim)
	if err != nil {
		return err
	}
	_, err = x.Msg().Claim(ctx, &crosschaintypes.MsgClaim{ChainName: x.Module, BridgerAddress: o.Bridger.Acc().String(), Claim: anyClaim})
	return err
}

func setBridger(claim crosschaintypes.ExternalClaim, bridger, chain string) {
	switch c := claim.(type) {
	case *crosschaintypes.MsgSendToFxClaim:
		c.BridgerAddress, c.ChainName = bridger, chain
	case *crosschaintypes.MsgBridgeTokenClaim:
		c.BridgerAddress, c.ChainName = bridger, chain
	case *crosschaintypes.MsgSendToExternalClaim:
		c.BridgerAddress, c.ChainName = bridger, chain
	case *crosschaintypes.MsgBridgeCallResultClaim:
		c.BridgerAddress, c.ChainName = bridger, chain
	case *crosschaintypes.MsgOracleSetUpdatedClaim:
		c.BridgerAddress, c.ChainName = bridger, chain
	case *crosschaintypes.MsgBridgeCallClaim:
		c.BridgerAddress, c.ChainName = bridger, chain
	default:
		panic(fmt.Sprintf("unknown claim type %T", claim))
	}
}

func setNonce(claim crosschaintypes.ExternalClaim, nonce, height uint64) {
	switch c := claim.(type) {
	case *crosschaintypes.MsgSendToFxClaim:
		c.EventNonce, c.BlockHeight = nonce, height
	case *crosschaintypes.MsgBridgeTokenClaim:
		c.EventNonce, c.BlockHeight = nonce, height
	case *crosschaintypes.MsgSendToExternalClaim:
		c.EventNonce, c.BlockHeight = nonce, height
	case *crosschaintypes.MsgBridgeCallResultClaim:
		c.EventNonce, c.BlockHeight = nonce, height
	case *crosschaintypes.MsgOracleSetUpdatedClaim:
		c.EventNonce, c.BlockHeight = nonce, height
	case *crosschaintypes.MsgBridgeCallClaim:
		c.EventNonce, c.BlockHeight = nonce, height
	default:
		panic(fmt.Sprintf("unknown claim type %T", claim))
	}
}

func cloneClaim(claim crosschaintypes.ExternalClaim) crosschaintypes.ExternalClaim {
	bz, err := proto.Marshal(claim)
	lib.Must(err)
	out := reflect.New(reflect.TypeOf(claim).Elem()).Interface().(crosschaintypes.ExternalClaim)
	lib.Must(proto.Unmarshal(bz, out))
	return out
}

// failOnce records at most three failures per signature, so that a recurring (known) finding cannot use up the
// report's failure budget and hide a different failure later in the run.
var sigCount = map[string]int{}

func (e *env) failSig(f lib.Failure) {
	sigCount[f.Sig]++
	if sigCount[f.Sig] <= 3 {
		e.rep.Fail(f)
	}
}
