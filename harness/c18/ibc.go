package main

import (
	"fmt"

	sdkmath "cosmossdk.io/math"
	sdk "github.com/cosmos/cosmos-sdk/types"
	transfertypes "github.com/cosmos/ibc-go/v8/modules/apps/transfer/types"
	channeltypes "github.com/cosmos/ibc-go/v8/modules/core/04-channel/types"

	fxtypes "github.com/functionx/fx-core/v8/types"
	erc20types "github.com/functionx/fx-core/v8/x/erc20/types"
	ibcmwtypes "github.com/functionx/fx-core/v8/x/ibc/middleware/types"

	"fxverif/c18/tok"
	"fxverif/lib"
)

// boundary 4: an inbound ICS-20 packet through the real IBCMiddleware stack under ibc-go's core cache rule.
func (e *env) ibcRecvCases() []string {
	c := e.c
	S, _ := c.Ctx.CacheContext()
	port, ch := tok.ChannelTo(c, S, 1, "channel-7") // the remote end carries another id; packets come from it
	vAlias := tok.VoucherDenom(c, S, port, ch, "ualias")
	alias := tok.AddToken(c, S, "eth", 4, true, vAlias) // base token with the voucher as an alias (many-to-one)
	own := tok.AddOwnVoucherToken(c, S, port, ch, "uown") // the voucher denom itself is the pair's coin
	_ = alias
	// FX that left over this channel earlier sits in escrow and can come back
	escrow := transfertypes.GetEscrowAddress(port, ch)
	fx := sdk.NewCoin(fxtypes.DefaultDenom, sdkmath.NewInt(1_000_000))
	lib.Must(c.App.BankKeeper.MintCoins(S, "mint", sdk.NewCoins(fx)))
	lib.Must(c.App.BankKeeper.SendCoinsFromModuleToAccount(S, "mint", escrow, sdk.NewCoins(fx)))
	c.App.IBCTransferKeeper.SetTotalEscrowForDenom(S, fx)

	// the derived memo-call sender needs an account (x/evm CallEVM reads its sequence); it gets one as soon as
	// anybody sends it a coin — done here so that the call itself is what succeeds or fails
	c.EnsureAccount(S, ibcmwtypes.IntermediateSender(port, "channel-7", "remote1sender").Bytes())
	U := lib.EthKey(c.Seed, "ibc-user", 0)
	relayer := lib.EthKey(c.Seed, "relayer", 0).Acc()
	src := "channel-7"
	fxBack := fmt.Sprintf("%s/%s/%s", port, src, fxtypes.DefaultDenom)
	hexU, bechU := U.Hex().Hex(), U.Acc().String()

	type scen struct {
		name                 string
		denom, amt, receiver string
		memo                 string
		sender               string
		raw                  []byte // overrides the packet data
		disableOwn           bool
		garblePair           bool // the stored token-pair record of the voucher's pair cannot be decoded: reading it PANICS
		parseOK, transferOK, hookOK bool
	}
	call := func(to string) string { return tok.MemoCall(c, to, nil, 0) }
	scens := []scen{
		{name: "parse:receiver-garbage", denom: "uown", amt: "10", receiver: "not-an-address", parseOK: false},
		{name: "parse:data-not-json", raw: []byte("{nope"), parseOK: false},
		{name: "transfer:amount-zero", denom: "uown", amt: "0", receiver: hexU, parseOK: true, transferOK: false},
		{name: "transfer:amount-text", denom: "uown", amt: "ten", receiver: hexU, parseOK: true, transferOK: false},
		{name: "transfer:escrow-short", denom: fxBack, amt: "2000000", receiver: hexU, parseOK: true, transferOK: false},
		{name: "hook:bech32-nonfx", denom: "uown", amt: "10", receiver: bechU, parseOK: true, transferOK: true, hookOK: false},
		{name: "hook:alias-voucher", denom: "ualias", amt: "10", receiver: hexU, parseOK: true, transferOK: true, hookOK: false},
		{name: "hook:unregistered", denom: "uother", amt: "10", receiver: hexU, parseOK: true, transferOK: true, hookOK: false},
		{name: "hook:pair-disabled", denom: "uown", amt: "10", receiver: hexU, disableOwn: true, parseOK: true, transferOK: true, hookOK: false},
		// the conversion fails AFTER the transfer module credited, and a memo follows whose own handling succeeds (or fails)
		{name: "hook:pair-disabled+memo-text", denom: "uown", amt: "10", receiver: hexU, memo: "thanks", disableOwn: true, parseOK: true, transferOK: true, hookOK: false},
		{name: "hook:pair-disabled+memo-json-no-type", denom: "uown", amt: "10", receiver: hexU, memo: `{"to":"0x01","data":""}`, disableOwn: true, parseOK: true, transferOK: true, hookOK: false},
		{name: "hook:pair-disabled+memo-call-ok", denom: "uown", amt: "10", receiver: hexU, memo: call(e.cWriteStop.Hex()), disableOwn: true, parseOK: true, transferOK: true, hookOK: false},
		{name: "hook:pair-disabled+memo-call-revert", denom: "uown", amt: "10", receiver: hexU, memo: call(e.cWriteRevert.Hex()), disableOwn: true, parseOK: true, transferOK: true, hookOK: false},
		{name: "hook:alias-voucher+memo-text", denom: "ualias", amt: "10", receiver: hexU, memo: "thanks", parseOK: true, transferOK: true, hookOK: false},
		{name: "hook:unregistered+memo-call-ok", denom: "uother", amt: "10", receiver: hexU, memo: call(e.cWriteStop.Hex()), parseOK: true, transferOK: true, hookOK: false},
		{name: "hook:fx-named-foreign", denom: fxtypes.DefaultDenom, amt: "10", receiver: hexU, parseOK: true, transferOK: true, hookOK: false},
		{name: "hook:fx-named-multihop", denom: port + "/channel-55/" + fxtypes.DefaultDenom, amt: "10", receiver: hexU, memo: "thanks", parseOK: true, transferOK: true, hookOK: false},
		{name: "hook:memo-bad-to", denom: "uown", amt: "10", receiver: hexU, memo: call("0x12"), parseOK: true, transferOK: true, hookOK: false},
		{name: "hook:memo-revert", denom: "uown", amt: "10", receiver: hexU, memo: call(e.cRevert.Hex()), parseOK: true, transferOK: true, hookOK: false},
		{name: "hook:memo-write-revert", denom: "uown", amt: "10", receiver: hexU, memo: call(e.cWriteRevert.Hex()), parseOK: true, transferOK: true, hookOK: false},
		{name: "hook:memo-invalid-op", denom: "uown", amt: "10", receiver: hexU, memo: call(e.cInvalid.Hex()), parseOK: true, transferOK: true, hookOK: false},
		{name: "hook:memo-out-of-gas", denom: "uown", amt: "10", receiver: hexU, memo: call(e.cLoop.Hex()), parseOK: true, transferOK: true, hookOK: false},
		{name: "hook:fx-memo-revert", denom: fxBack, amt: "10", receiver: bechU, memo: call(e.cWriteRevert.Hex()), parseOK: true, transferOK: true, hookOK: false},
		{name: "hook:memo-call-sender-without-account", denom: "uown", amt: "10", receiver: hexU, memo: call(e.cWriteStop.Hex()), sender: "remote1nobody", parseOK: true, transferOK: true, hookOK: false},
		// the follow-up PANICS after the transfer module has credited (undecodable pair record: MustUnmarshal in GetTokenPair).
		// A panic is not an acknowledgement: the MsgRecvPacket transaction fails, nothing is written
		{name: "hook:panic:pair-record-undecodable", denom: "uown", amt: "10", receiver: hexU, garblePair: true, parseOK: true, transferOK: true, hookOK: false},
		{name: "hook:panic:pair-record-undecodable+memo-call-ok", denom: "uown", amt: "10", receiver: hexU, memo: call(e.cWriteStop.Hex()), garblePair: true, parseOK: true, transferOK: true, hookOK: false},
		{name: "hook:panic:pair-record-undecodable+memo-text", denom: "uown", amt: "7", receiver: hexU, memo: "thanks", garblePair: true, parseOK: true, transferOK: true, hookOK: false},
		{name: "ok:own-hex", denom: "uown", amt: "10", receiver: hexU, parseOK: true, transferOK: true, hookOK: true},
		{name: "ok:own-hex-memo-text", denom: "uown", amt: "10", receiver: hexU, memo: "hello", parseOK: true, transferOK: true, hookOK: true},
		{name: "ok:own-hex-memo-call", denom: "uown", amt: "10", receiver: hexU, memo: call(e.cWriteStop.Hex()), parseOK: true, transferOK: true, hookOK: true},
		{name: "ok:fx-bech32", denom: fxBack, amt: "10", receiver: bechU, parseOK: true, transferOK: true, hookOK: true},
		{name: "ok:fx-hex", denom: fxBack, amt: "10", receiver: hexU, parseOK: true, transferOK: true, hookOK: true},
	}
	var out []string
	for i, s := range scens {
		B, _ := S.CacheContext()
		if s.disableOwn {
			tok.SetEnabled(c, B, own, false)
		}
		var pkt channeltypes.Packet
		if s.sender == "" {
			s.sender = "remote1sender"
		}
		data := transfertypes.NewFungibleTokenPacketData(s.denom, s.amt, s.sender, s.receiver, s.memo)
		pkt = tok.InPacket(uint64(i+1), src, port, ch, data)
		if s.raw != nil {
			pkt.Data = s.raw
		}
		if s.garblePair {
			p, found := c.App.Erc20Keeper.GetTokenPair(B, own.Base)
			if !found {
				panic("pair of the own voucher not found")
			}
			B.KVStore(c.App.GetKey(erc20types.StoreKey)).Set(append(append([]byte{}, erc20types.KeyPrefixTokenPair...), p.GetID()...), []byte{0xff, 0xff, 0xff, 0xff})
		}
		pre := c.DumpAll(B)
		// delivered by ibc-go's own MsgRecvPacket handler (channel checks, 09-localhost proof, receipt, cache rule, ack written)
		ok, _, refused, panicked := tok.RealRecvTx(c, B, pkt, relayer)
		if refused != nil {
			panic(fmt.Sprintf("scenario %s: the IBC core refused the message: %v", s.name, refused))
		}
		diff := tok.AppDiff(lib.DiffDumps(pre, c.DumpAll(B))) // the application's writes (receipt and acknowledgement are the core's)
		changed := len(diff) > 0
		if s.garblePair && panicked == nil && (ok || changed) {
			// the designated outcome of a panicking follow-up on this code: the transaction fails (an error acknowledgement with
			// nothing written would honour the property as well; a success acknowledgement or any write left does not)
			e.failSig(lib.Failure{Kind: "monitor", Sig: "C18:ibcrecv:" + s.name + ":panic-acknowledged",
				What:   fmt.Sprintf("the follow-up of an inbound packet panicked after the transfer module had credited, and the packet was acknowledged (success=%v) instead of failing the transaction", ok),
				Replay: map[string]interface{}{"scenario": s.name, "ack_success": ok, "diff(-pre,+post)": diff}})
		}
		if panicked != nil {
			e.rep.Count("ibcrecv:" + s.name + ":panicked")
		}
		// the follow-up of these packets fails by construction (no such pair, reverting callee, …): whatever the
		// acknowledgement says, nothing the application wrote may stay
		followUpFails := s.parseOK && s.transferOK && !s.hookOK
		if (!ok || followUpFails) && changed {
			e.failSig(lib.Failure{Kind: "monitor", Sig: "C18:ibcrecv:" + s.name,
				What:   "an IBC packet whose processing failed (error acknowledgement / failing follow-up) left application writes behind",
				Replay: map[string]interface{}{"scenario": s.name, "diff(-pre,+post)": diff}})
		}
		e.rep.Case("ibcrecv:"+s.name, s.parseOK && s.transferOK && !s.hookOK)
		e.rep.Count(fmt.Sprintf("ibcrecv:%s:ack=%v", s.name, ok))
		if s.garblePair {
			cls := 3
			if panicked == nil && ok {
				cls = 1
			} else if panicked == nil {
				cls = 2
			}
			out = append(out, fmt.Sprintf("mk_recv_case_panic %s %s %s %d %s", lib.Bool(s.parseOK), lib.Bool(s.transferOK), lib.Bool(s.hookOK), cls, lib.Bool(changed)))
			continue
		}
		out = append(out, fmt.Sprintf("mk_recv_case %s %s %s %s %s", lib.Bool(s.parseOK), lib.Bool(s.transferOK), lib.Bool(s.hookOK), lib.Bool(ok), lib.Bool(changed)))
	}
	return out
}
