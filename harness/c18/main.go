// c18: tolerated failures leave none of their own partial effects — correspondence + monitor on the REAL app.
//
// For each of the four boundaries (attestation handler, inbound bridge call, gov proposal messages,
// IBC receive with follow-up) the harness provokes the failure at every distinguishable point on a cache
// branch of the real state, computes the designated outcome with the keepers' own primitives on a second
// fresh branch, and compares full store dumps (monitor, independent of the model).  The same cases, in
// abstract form, are written to Cases_C18_*.v and evaluated against model/M_Cache.v inside coqc.
package main

import (
	"encoding/hex"
	"encoding/json"
	"fmt"
	"math/big"
	"os"
	"path/filepath"
	"sort"
	"strings"

	sdkmath "cosmossdk.io/math"
	sdk "github.com/cosmos/cosmos-sdk/types"
	"github.com/ethereum/go-ethereum/common"
	"github.com/ethereum/go-ethereum/core/vm"

	"github.com/functionx/fx-core/v8/contract"
	fxtypes "github.com/functionx/fx-core/v8/types"
	crosschaintypes "github.com/functionx/fx-core/v8/x/crosschain/types"
	erc20types "github.com/functionx/fx-core/v8/x/erc20/types"

	"fxverif/c18/tok"
	"fxverif/lib"
)

type env struct {
	c      *lib.Chain
	x      *lib.XChain
	r      *lib.Rand
	rep    *lib.Report
	toks   []tok.Token // bridged tokens on eth, model ids 0..3: 0-2 pairs owned by the module, 3 a pair owned externally (ERC-20 is the origin); base denoms sort like the ids
	fx     tok.Token   // model id -1: the FX bridge token (base coin = the native coin, ERC-20 = WFX); "FX" sorts before every other base denom
	nonce  uint64      // last event nonce voted by every oracle on c.Ctx
	extH   uint64
	search bool
	// contracts
	cStop, cRevert, cInvalid, cLoop, cWriteRevert, cWriteStop, cGas common.Address
}

const writeVal = 77

func main() {
	seed := lib.Seed()
	e := &env{r: lib.NewRand(seed), rep: lib.NewReport("C18")}
	e.search = lib.EnvInt("VERIF_SEARCH", 0) == 1 || strings.EqualFold(getenv("VERIF_MODE"), "search")
	e.rep.Rule = "one case = one provoked failure (or success control) at a boundary, run on a cache branch of the real app state: " +
		"bridge call (tokens 0-4 of 3 incl. duplicates/zero/unregistered at position i, pair disabled at coin i, target EOA/STOP/REVERT/INVALID/loop/write+revert/write+stop/gas-hungry with BridgeCallMaxGasLimit lowered by a real params update, refund = receiver | other poor | other rich, memo send-call-to), " +
		"attestation (bridge-token claim existing/new, oracle-set claim unknown/known nonce, send-to-fx), gov (1-4 bank sends from the gov account, failing one at every position: overdraw or blocked recipient), " +
		"IBC receive (parse / transfer / follow-up failures incl. memo call revert after writes); non-trivial = the sub-step fails after at least one write inside the cache branch; distinct by case content"

	n := 40
	if lib.Tier() == "thorough" {
		n = 300
	}
	if e.search {
		n *= 2
	}
	if v := lib.EnvInt("VERIF_N", 0); v > 0 {
		n = int(v)
	}
	e.setup(seed)
	if p := getenv("VERIF_REPLAY"); p != "" && getenv("VERIF_MODE") == "replay" {
		e.replay(p)
		return
	}
	e.findingViaPrecompile()

	var bc, att, gv, rc []string
	// fixed corpus first (replays of the model's witnesses), then generated cases
	bc = append(bc, e.bridgeCallCorpus()...)
	for i := 0; i < n; i++ {
		bc = append(bc, e.bridgeCallCase(e.genBridgeCall()))
	}
	att = e.attestationCases()
	gv = e.govCases(n / 4)
	rc = e.ibcRecvCases()
	stf := e.sendToFxIbcCases()
	ocs := e.outgoingCallCases()

	imports := []string{"model.M_Cache", "model.M_CacheCorr"}
	lib.WriteCases("Cases_C18_bridgecall.v", imports, "bc_case", bc, "bc_mismatch")
	lib.WriteCases("Cases_C18_attestation.v", imports, "att_case", att, "att_mismatch")
	lib.WriteCases("Cases_C18_gov.v", imports, "gov_case", gv, "gov_mismatch")
	lib.WriteCases("Cases_C18_ibcrecv.v", imports, "recv_case", rc, "recv_mismatch")
	lib.WriteCases("Cases_C18_sendtofx.v", imports, "stf_case", stf, "stf_mismatch")
	lib.WriteCases("Cases_C18_outcall.v", imports, "oc_case", ocs, "oc_mismatch")
	e.rep.Write()
}

func getenv(k string) string {
	v, _ := lookupEnv(k)
	return v
}

func (e *env) setup(seed int64) {
	c := lib.NewChain(seed, 1, nil)
	e.c = c
	lib.Must(c.NextBlock())
	e.x = c.X("eth")
	e.x.SetupOracles([]int64{10_000, 10_000})
	for i := 0; i < 3; i++ {
		e.toks = append(e.toks, tok.AddToken(c, c.Ctx, "eth", i, true))
	}
	{ // token 3: externally owned pair — the crosschain module holds the locked bridge tokens, the erc20 module the ERC-20
		t := tok.AddToken(c, c.Ctx, "eth", 3, false)
		e.toks = append(e.toks, t)
		lib.Must(c.App.BankKeeper.MintCoins(c.Ctx, "eth", sdk.NewCoins(sdk.NewCoin(t.BridgeDenom, sdkmath.NewInt(1_000_000)))))
		mod := common.BytesToAddress(c.App.AccountKeeper.GetModuleAddress(erc20types.ModuleName))
		lib.Must(c.App.EvmKeeper.ERC20Mint(c.Ctx, t.Erc20, mod, mod, big.NewInt(1_000_000)))
	}
	{ // FX as a bridge token: registered by a bridge-token claim with symbol FX; the module holds the FX that was bridged out
		contractFX := lib.EthKey(seed, "fx-on-eth", 0).Hex().Hex()
		lib.Must(e.x.Keeper.AddBridgeTokenExecuted(c.Ctx, &crosschaintypes.MsgBridgeTokenClaim{TokenContract: contractFX, Name: "Function X", Symbol: fxtypes.DefaultDenom, Decimals: 18, ChainName: "eth"}))
		lib.Must(c.App.BankKeeper.MintCoins(c.Ctx, "eth", sdk.NewCoins(sdk.NewCoin(fxtypes.DefaultDenom, sdkmath.NewInt(1_000_000)))))
		wfx, ok := tok.FxPair(c, c.Ctx)
		if !ok {
			panic("no FX token pair")
		}
		e.fx = tok.Token{Base: fxtypes.DefaultDenom, Module: "eth", Contract: contractFX, BridgeDenom: fxtypes.DefaultDenom, Erc20: wfx, NativeCoin: true}
	}
	lib.Must(c.NextBlock())
	mk := func(i byte, code []byte) common.Address {
		a := common.BytesToAddress([]byte{0xc0, 0xde, 0x18, i})
		c.InstallCode(c.Ctx, a, code)
		return a
	}
	e.cStop = mk(1, (&lib.Asm{}).Stop().B)
	e.cRevert = mk(2, (&lib.Asm{}).Revert().B)
	e.cInvalid = mk(3, (&lib.Asm{}).Invalid().B)
	e.cLoop = mk(4, (&lib.Asm{}).Op(vm.JUMPDEST).PushU(0).Op(vm.JUMP).B)
	e.cWriteRevert = mk(5, (&lib.Asm{}).SStore(0, writeVal).Revert().B)
	e.cWriteStop = mk(6, (&lib.Asm{}).SStore(0, writeVal).Stop().B)
	g := &lib.Asm{}
	for i := uint64(1); i <= 12; i++ { // 12 fresh storage slots: > 240k gas
		g.SStore(i, i)
	}
	e.cGas = mk(7, g.SStore(0, writeVal).Stop().B)
	// accounts that take part exist beforehand (first-time account creation is bookkeeping of the bank, not compared)
	for _, a := range []common.Address{lib.EthKey(seed, "bc-sender", 0).Hex(), lib.EthKey(seed, "bc-refund", 0).Hex(), lib.EthKey(seed, "eoa-target", 0).Hex()} {
		c.EnsureAccount(c.Ctx, a.Bytes())
	}
	for _, m := range []string{"eth", erc20types.ModuleName} {
		c.App.AccountKeeper.GetModuleAccount(c.Ctx, m)
	}
	lib.Must(c.NextBlock())
	// a first observed event so that an external block height is known (bridge-call timeouts need it)
	e.extH = 1000
	e.observe(c.Ctx, &crosschaintypes.MsgSendToFxClaim{
		TokenContract: e.toks[0].Contract, Amount: sdkmath.NewInt(1), Sender: lib.EthKey(seed, "ext", 0).Hex().Hex(),
		Receiver: lib.EthKey(seed, "warm", 0).Acc().String(),
	})
	lib.Must(c.NextBlock())
}

// vote submits claim as oracle o's vote through the real MsgServer on ctx with transaction semantics.
func (e *env) vote(ctx sdk.Context, o *lib.Oracle, claim crosschaintypes.ExternalClaim) error {
	return tryOn(ctx, func(ctx sdk.Context) error {
		return claimOn(e.x, ctx, o, claim)
	})
}

// observe makes every oracle vote for the claim (event nonce = last+1) on ctx; returns the event nonce.
func (e *env) observe(ctx sdk.Context, claim crosschaintypes.ExternalClaim) uint64 {
	n := e.x.Keeper.GetLastObservedEventNonce(ctx) + 1
	e.extH++
	setNonce(claim, n, e.extH)
	for _, o := range e.x.Oracles {
		lib.Must(e.vote(ctx, o, cloneClaim(claim)))
	}
	return n
}

func tryOn(ctx sdk.Context, f func(ctx sdk.Context) error) (err error) {
	cctx, write := ctx.CacheContext()
	defer func() {
		if r := recover(); r != nil {
			err = fmt.Errorf("PANIC: %v", r)
		}
	}()
	if e := f(cctx); e != nil {
		return e
	}
	write()
	return nil
}

// ---------------------------------------------------------------------------------------------
// boundary 2: inbound bridge call

type bcCase struct {
	Tokens     [][2]int64 `json:"tokens"`      // (token id, amount); id 9 = a contract the module does not know
	Disabled   []int      `json:"disabled"`    // token ids whose ERC-20 pair is disabled
	Target     string     `json:"target"`      // eoa|stop|revert|invalid|loop|writerevert|writestop|gas
	LowGas     bool       `json:"low_gas"`     // BridgeCallMaxGasLimit lowered to 100000 by a real params update
	BlockGas   int64      `json:"block_gas"`   // consensus block max gas seen by the call: 0 = chain default, -1 = unlimited, else the value
	Refund     string     `json:"refund"`      // same|poor|rich
	SendCallTo bool       `json:"send_call_to"`
	SenderIsRefund bool   `json:"sender_is_refund"`
	Value      int64      `json:"value"`       // msg.Value handed to the callee by the callback sender (or the claim's sender for send-call-to)
	FundCaller bool       `json:"fund_caller"` // whether that payer holds the value
	ViaEVM     bool       `json:"via_evm"`     // executed by an ordinary account through the executeClaim precompile (real EVM transaction path)
}

func (e *env) genBridgeCall() bcCase {
	r := e.r
	var k bcCase
	nt := r.Intn(5)
	for i := 0; i < nt; i++ {
		id := tokenIDs[r.Intn(len(tokenIDs))]
		amt := int64(1 + r.Intn(1000))
		if r.Chance(6) {
			amt = 0
		}
		k.Tokens = append(k.Tokens, [2]int64{id, amt})
	}
	if nt > 0 && r.Chance(8) {
		k.Tokens[r.Intn(nt)][0] = 9
	}
	if r.Chance(45) {
		k.Disabled = append(k.Disabled, int(tokenIDs[r.Intn(len(tokenIDs))]))
		if r.Chance(20) {
			k.Disabled = append(k.Disabled, int(tokenIDs[r.Intn(len(tokenIDs))]))
		}
	}
	if r.Chance(25) {
		k.Value = int64(1 + r.Intn(50))
		k.FundCaller = r.Chance(70)
	}
	k.Target = []string{"eoa", "stop", "revert", "invalid", "loop", "writerevert", "writestop", "gas", "revert", "writerevert"}[r.Intn(10)]
	k.LowGas = (k.Target == "gas" && r.Chance(70)) || r.Chance(10)
	if k.Target == "gas" || r.Chance(10) {
		k.BlockGas = []int64{0, -1, -1, 100_000, 5_000_000}[r.Intn(5)]
	}
	k.Refund = []string{"same", "same", "poor", "rich"}[r.Intn(4)]
	k.SendCallTo = r.Chance(22)
	k.SenderIsRefund = r.Chance(50)
	k.ViaEVM = r.Chance(25)
	if e.search {
		// search mode: weight towards the situations a broken boundary would show up in
		if k.Target == "eoa" || k.Target == "stop" {
			k.Target = "writerevert"
		}
	}
	return k
}

// corpus/C18/*.json: recorded failing inputs of past findings, run first on every check
func (e *env) corpusFiles() []bcCase {
	var out []bcCase
	files, _ := filepath.Glob(filepath.Join(corpusDir(), "C18", "*.json"))
	if filepath.Base(corpusDir()) == "C18" { // bin/check hands over corpus/<ID> itself
		files, _ = filepath.Glob(filepath.Join(corpusDir(), "*.json"))
	}
	sort.Strings(files)
	for _, f := range files {
		var r struct {
			Case bcCase `json:"case"`
		}
		bz, err := os.ReadFile(f)
		lib.Must(err)
		lib.Must(json.Unmarshal(bz, &r))
		out = append(out, r.Case)
	}
	return out
}

func corpusDir() string {
	if d := getenv("VERIF_CORPUS"); d != "" {
		return d
	}
	for _, d := range []string{"../corpus", "corpus", "/verif/corpus"} {
		if st, err := os.Stat(d); err == nil && st.IsDir() {
			return d
		}
	}
	return "/verif/corpus"
}

func (e *env) bridgeCallCorpus() []string {
	var out []string
	for _, k := range e.corpusFiles() {
		out = append(out, e.bridgeCallCase(k))
	}
	for _, k := range []bcCase{
		{Tokens: [][2]int64{{0, 10}}, Target: "writerevert", Refund: "rich", SendCallTo: true},
		// same-holder non-vacuity example: several tokens, a duplicate, contract writes then reverts
		{Tokens: [][2]int64{{1, 5}, {0, 10}, {1, 2}}, Target: "writerevert", Refund: "same"},
		// disabled pair at first / middle / last coin
		{Tokens: [][2]int64{{0, 3}, {1, 4}, {2, 5}}, Disabled: []int{0}, Target: "stop", Refund: "same"},
		{Tokens: [][2]int64{{0, 3}, {1, 4}, {2, 5}}, Disabled: []int{1}, Target: "stop", Refund: "same"},
		{Tokens: [][2]int64{{0, 3}, {1, 4}, {2, 5}}, Disabled: []int{2}, Target: "stop", Refund: "same"},
		{Tokens: [][2]int64{{0, 3}, {1, 4}, {2, 5}}, Disabled: []int{2}, Target: "eoa", Refund: "same"},
		// out of gas in two ways
		{Tokens: [][2]int64{{0, 3}}, Target: "loop", Refund: "same"},
		{Tokens: [][2]int64{{0, 3}}, Target: "gas", LowGas: true, Refund: "same"},
		{Tokens: [][2]int64{{0, 3}}, Target: "gas", LowGas: true, BlockGas: -1, Refund: "same"},
		{Tokens: [][2]int64{{0, 3}}, Target: "gas", BlockGas: 100_000, Refund: "same"},
		{Tokens: [][2]int64{{0, 3}}, Target: "gas", Refund: "same"},
		{Tokens: [][2]int64{{2, 8}}, Target: "invalid", Refund: "same", SendCallTo: true, SenderIsRefund: true},
		{Tokens: [][2]int64{{2, 8}}, Target: "revert", Refund: "same", SendCallTo: true, SenderIsRefund: false},
		{Tokens: nil, Target: "writerevert", Refund: "same"},
		// every token kind in one claim (FX, module-owned pair, externally owned pair), duplicates, foreign refund address
		{Tokens: [][2]int64{{3, 6}, {-1, 4}, {0, 10}, {3, 1}}, Target: "writerevert", Refund: "poor"},
		{Tokens: [][2]int64{{3, 6}, {-1, 4}, {0, 10}}, Disabled: []int{3}, Target: "stop", Refund: "rich"},
		{Tokens: [][2]int64{{-1, 40}, {2, 5}}, Disabled: []int{-1}, Target: "eoa", Refund: "same"},
		{Tokens: [][2]int64{{-1, 40}, {3, 5}}, Target: "writestop", Refund: "same"},
		// a deposit the module cannot pay (externally owned pair / FX are paid out of the module's holdings): reachable only if the
		// external chain reports more than ever left through this module — the handler errors after the earlier deposits were
		// written, the transaction keeps nothing
		{Tokens: [][2]int64{{0, 5}, {3, 2_000_000}}, Target: "stop", Refund: "same"},
		{Tokens: [][2]int64{{1, 5}, {-1, 2_000_000}, {2, 1}}, Target: "writerevert", Refund: "poor"},
		{Tokens: [][2]int64{{3, 1_000_000}, {3, 1}}, Target: "eoa", Refund: "same", ViaEVM: true},
		// msg.Value: paid by the callback sender inside the cache branch; short payer = the call is refused
		{Tokens: [][2]int64{{1, 9}}, Target: "writestop", Refund: "poor", Value: 7, FundCaller: true},
		{Tokens: [][2]int64{{1, 9}}, Target: "writerevert", Refund: "poor", Value: 7, FundCaller: true},
		{Tokens: [][2]int64{{1, 9}}, Target: "stop", Refund: "poor", Value: 7, FundCaller: false},
		{Tokens: [][2]int64{{-1, 30}}, Target: "stop", Refund: "same", Value: 7, FundCaller: false, SendCallTo: true, SenderIsRefund: true},
		{Tokens: [][2]int64{{3, 2}}, Target: "revert", Refund: "poor", Value: 3, FundCaller: true, ViaEVM: true},
		{Tokens: [][2]int64{{1, 5}, {0, 10}, {1, 2}}, Target: "writerevert", Refund: "same", ViaEVM: true},
		{Tokens: [][2]int64{{0, 3}, {1, 4}}, Disabled: []int{1}, Target: "stop", Refund: "same", ViaEVM: true},
		{Tokens: [][2]int64{{0, 10}}, Target: "revert", Refund: "poor", ViaEVM: true},
		{Tokens: [][2]int64{{0, 10}, {9, 1}}, Target: "stop", Refund: "same", ViaEVM: true},
		{Tokens: [][2]int64{{0, 3}, {9, 4}}, Target: "stop", Refund: "same"},
	} {
		out = append(out, e.bridgeCallCase(k))
	}
	return out
}

func (e *env) tokByID(id int64) tok.Token {
	if id == -1 {
		return e.fx
	}
	return e.toks[id]
}

var tokenIDs = []int64{-1, 0, 1, 2, 3}

func (e *env) callbackFrom() common.Address { return e.x.Keeper.GetCallbackFrom() }

func (e *env) target(name string) (common.Address, bool, bool, int64) {
	// address, isContract, fails (by construction), value written to slot 0 before returning/failing
	switch name {
	case "stop":
		return e.cStop, true, false, 0
	case "revert":
		return e.cRevert, true, true, 0
	case "invalid":
		return e.cInvalid, true, true, 0
	case "loop":
		return e.cLoop, true, true, 0
	case "writerevert":
		return e.cWriteRevert, true, true, writeVal
	case "writestop":
		return e.cWriteStop, true, false, writeVal
	case "gas":
		return e.cGas, true, false, writeVal
	}
	return lib.EthKey(e.c.Seed, "eoa-target", 0).Hex(), false, false, 0
}

func (e *env) bridgeCallCase(k bcCase) string {
	c, x := e.c, e.x
	B, _ := c.Ctx.CacheContext()
	to, isContract, fails, writes := e.target(k.Target)
	if k.BlockGas != 0 {
		cp := B.ConsensusParams()
		blk := *cp.Block
		blk.MaxGas = k.BlockGas
		cp.Block = &blk
		B = B.WithConsensusParams(cp)
	}
	// x/evm CallEVM: the gas limit argument (BridgeCallMaxGasLimit) is replaced by the block max gas whenever that is > 0
	limit := int64(crosschaintypes.MaxGasLimit)
	if k.LowGas {
		limit = 100_000
	}
	if mg := B.ConsensusParams().Block.MaxGas; mg > 0 {
		limit = mg
	}
	if k.Target == "gas" && limit < 300_000 {
		fails = true
	}
	if k.LowGas {
		p := x.Keeper.GetParams(B)
		p.BridgeCallMaxGasLimit = 100_000
		_, err := x.Msg().UpdateParams(B, &crosschaintypes.MsgUpdateParams{ChainName: "eth", Authority: lib.GovAuthority(), Params: p})
		lib.Must(err)
	}
	if !isContract {
		writes = 0
	}
	sender := lib.EthKey(c.Seed, "bc-sender", 0).Hex()
	var refund common.Address
	receiver := to
	if k.SendCallTo {
		receiver = sender
	}
	switch k.Refund {
	case "same":
		refund = receiver
	default:
		refund = lib.EthKey(c.Seed, "bc-refund", 0).Hex()
		if k.SendCallTo && k.SenderIsRefund {
			// sender is the refund address: receiver == refund after all
			refund = sender
		}
	}
	for _, d := range k.Disabled {
		tok.SetEnabled(c, B, e.tokByID(int64(d)), false)
	}
	if k.Refund == "rich" {
		for _, id := range tokenIDs {
			t := e.tokByID(id)
			coins := sdk.NewCoins(sdk.NewCoin(t.Base, sdkmath.NewInt(100_000)))
			lib.Must(c.App.BankKeeper.MintCoins(B, "mint", coins))
			lib.Must(c.App.BankKeeper.SendCoinsFromModuleToAccount(B, "mint", refund.Bytes(), coins))
			if id >= 0 && id <= 2 {
				// keep the bridge accounting balanced: the module holds the bridge tokens behind these base coins
				bc := sdk.NewCoins(sdk.NewCoin(t.BridgeDenom, sdkmath.NewInt(100_000)))
				lib.Must(c.App.BankKeeper.MintCoins(B, "eth", bc))
			}
		}
	}
	payer := e.callbackFrom()
	if k.SendCallTo {
		payer = sender
	}
	if k.Value > 0 && k.FundCaller {
		coins := sdk.NewCoins(sdk.NewCoin(fxtypes.DefaultDenom, sdkmath.NewInt(k.Value+5)))
		funder := lib.EthKey(c.Seed, "value-funder", 0).Acc()
		lib.Must(c.App.BankKeeper.MintCoins(B, "mint", coins))
		lib.Must(c.App.BankKeeper.SendCoinsFromModuleToAccount(B, "mint", funder, coins))
		lib.Must(c.App.BankKeeper.SendCoins(B, funder, payer.Bytes(), coins))
	}
	msg := &crosschaintypes.MsgBridgeCallClaim{
		Sender: sender.Hex(), Refund: refund.Hex(), To: to.Hex(), Value: sdkmath.NewInt(k.Value), TxOrigin: sender.Hex(),
	}
	unknown := lib.EthKey(c.Seed, "unknown-token", 0).Hex().Hex()
	for _, ta := range k.Tokens {
		if ta[0] == 9 {
			msg.TokenContracts = append(msg.TokenContracts, unknown)
		} else {
			msg.TokenContracts = append(msg.TokenContracts, e.tokByID(ta[0]).Contract)
		}
		msg.Amounts = append(msg.Amounts, sdkmath.NewInt(ta[1]))
	}
	if k.SendCallTo {
		msg.Memo = hex.EncodeToString(crosschaintypes.MemoSendCallTo.Bytes())
	}
	nonce := e.observe(B, msg)
	if _, ok := x.Keeper.GetPendingExecuteClaim(B, nonce); !ok {
		panic("claim not pending after observation")
	}

	// ---- ids and watched keys of the abstract case
	holders := []common.Address{}
	hid := map[common.Address]int64{}
	for _, a := range []common.Address{to, refund, sender, payer} {
		if _, ok := hid[a]; !ok {
			hid[a] = int64(len(holders) + 1)
			holders = append(holders, a)
		}
	}
	type wk struct {
		h, kind, t int64
	}
	var keys []wk
	for _, t := range tokenIDs {
		for _, a := range holders {
			keys = append(keys, wk{hid[a], 0, t}, wk{hid[a], 2, t})
		}
		if t == -1 { // FX: held by the crosschain module, the erc20 module (in passing) and the WFX contract; WFX supply
			keys = append(keys, wk{-1, 0, t}, wk{-2, 0, t}, wk{-5, 0, t}, wk{-3, 2, t})
			continue
		}
		keys = append(keys, wk{-1, 1, t}, wk{-2, 0, t}, wk{-2, 2, t}, wk{-3, 0, t}, wk{-3, 1, t}, wk{-3, 2, t})
	}
	read := func(ctx sdk.Context, k wk) *big.Int {
		t := e.tokByID(k.t)
		switch {
		case k.h == -1 && k.kind == 0:
			return tok.Bank(c, ctx, c.App.AccountKeeper.GetModuleAddress("eth"), t.Base).BigInt()
		case k.h == -5:
			return tok.Bank(c, ctx, t.Erc20.Bytes(), t.Base).BigInt()
		case k.h == -2 && k.kind == 2:
			return tok.BalanceOf(c, ctx, t.Erc20, common.BytesToAddress(c.App.AccountKeeper.GetModuleAddress(erc20types.ModuleName)))
		case k.h > 0 && k.kind == 0:
			return tok.Bank(c, ctx, holders[k.h-1].Bytes(), t.Base).BigInt()
		case k.h > 0 && k.kind == 2:
			return tok.BalanceOf(c, ctx, t.Erc20, holders[k.h-1])
		case k.h == -1:
			return tok.Bank(c, ctx, c.App.AccountKeeper.GetModuleAddress("eth"), t.BridgeDenom).BigInt()
		case k.h == -2:
			return tok.Bank(c, ctx, c.App.AccountKeeper.GetModuleAddress(erc20types.ModuleName), t.Base).BigInt()
		case k.h == -3 && k.kind == 0:
			return c.App.BankKeeper.GetSupply(ctx, t.Base).Amount.BigInt()
		case k.h == -3 && k.kind == 1:
			return c.App.BankKeeper.GetSupply(ctx, t.BridgeDenom).Amount.BigInt()
		default:
			return totalSupply(c, ctx, t.Erc20)
		}
	}
	snapshot := func(ctx sdk.Context) string {
		var items []string
		for _, k := range keys {
			items = append(items, lib.Pair(fmt.Sprintf("(%s, %d, %d)", lib.Z(k.h), k.kind, k.t), lib.ZBig(read(ctx, k))))
		}
		return lib.List(items)
	}
	preBal := snapshot(B)
	payerFX := tok.Bank(c, B, payer.Bytes(), fxtypes.DefaultDenom).BigInt()
	evm0 := c.App.EvmKeeper.GetState(B, to, common.Hash{}).Big()
	callsBefore := map[uint64]bool{}
	x.Keeper.IterateOutgoingBridgeCalls(B, func(o *crosschaintypes.OutgoingBridgeCall) bool { callsBefore[o.Nonce] = true; return false })

	// ---- branch 1: the real operation, as a transaction
	B1, _ := B.CacheContext()
	var err error
	if k.ViaEVM {
		input, perr := crosschaintypes.GetABI().Pack("executeClaim", "eth", new(big.Int).SetUint64(nonce))
		lib.Must(perr)
		pre := lib.CrosschainPrecompile
		res := c.EvmCall(B1, lib.EthKey(c.Seed, "anybody", 0).Hex(), &pre, nil, 40_000_000, input)
		if res.Err != nil {
			err = res.Err
		} else if res.Failed {
			err = fmt.Errorf("evm: %s", res.VmError)
		}
	} else {
		err = tryOn(B1, func(ctx sdk.Context) error { return x.Keeper.ExecuteClaim(ctx, nonce) })
	}
	post := c.DumpAll(B1)
	postBal := snapshot(B1)
	evm1 := c.App.EvmKeeper.GetState(B1, to, common.Hash{}).Big()
	_, stillPending := x.Keeper.GetPendingExecuteClaim(B1, nonce)
	var newCalls []string
	x.Keeper.IterateOutgoingBridgeCalls(B1, func(o *crosschaintypes.OutgoingBridgeCall) bool {
		if callsBefore[o.Nonce] {
			return false
		}
		var ts []string
		for _, t := range o.Tokens {
			id := int64(-99)
			for _, tid := range tokenIDs {
				if e.tokByID(tid).Contract == t.Contract {
					id = tid
				}
			}
			ts = append(ts, lib.Pair(lib.Z(id), lib.ZBig(t.Amount.BigInt())))
		}
		rid, ok := hid[crosschaintypes.ExternalAddrToHexAddr("eth", o.Refund)]
		if !ok {
			rid = -99
		}
		newCalls = append(newCalls, lib.Pair(lib.Z(rid), lib.List(ts)))
		return false
	})

	// ---- classify by construction: does the inner step fail?
	hasUnknown := false
	for _, ta := range k.Tokens {
		if ta[0] == 9 {
			hasUnknown = true
		}
	}
	sums := map[int64]int64{}
	for _, ta := range k.Tokens {
		sums[ta[0]] += ta[1]
	}
	disabledHit := false
	for _, d := range k.Disabled {
		if sums[int64(d)] > 0 {
			disabledHit = true
		}
	}
	// msg.Value the payer cannot cover: the EVM refuses the call (only when there is a callee at all)
	valueShort := false
	if k.Value > 0 && isContract {
		// (balance read on the pre-state; the deposits may add FX to the payer only if it is the receiver)
		have := payerFX
		if payer == receiver {
			have = new(big.Int).Add(have, big.NewInt(sums[-1]))
		}
		valueShort = have.Cmp(big.NewInt(k.Value)) < 0
	}
	// the module cannot pay a deposit: handler error like an unknown token
	depositShort := sums[3] > 1_000_000 || sums[-1] > 1_000_000
	innerFails := !hasUnknown && !depositShort && (disabledHit || (isContract && (fails || valueShort)))
	wroteInside := innerFails && (len(sums) > 0 || writes != 0)

	// ---- monitor: designated outcome on a second fresh branch, full dump comparison
	if innerFails && k.ViaEVM {
		// through the EVM the dump also carries the caller's nonce, receipts etc.; the designated outcome is checked on
		// every watched balance, the refund records and the claim
		rel := "receiver==refund"
		if receiver != refund {
			rel = "receiver!=refund"
		}
		if err != nil || postBal != preBal || len(newCalls) != 1 || stillPending {
			e.failSig(lib.Failure{Kind: "monitor", Sig: "C18:bridgecall:" + rel + ":evm",
				What:   "inbound bridge call with a failing contract call, executed through the executeClaim precompile, did not end in the designated refund",
				Replay: map[string]interface{}{"case": k, "error": fmt.Sprint(err), "balances_before": preBal, "balances_after": postBal, "new_refund_calls": newCalls, "still_pending": stillPending}})
		}
	} else if innerFails {
		B2, _ := B.CacheContext()
		e.designatedBridgeCall(B2, msg, nonce, refund)
		want := c.DumpAll(B2)
		diff := lib.DiffDumps(want, post)
		rel := "receiver==refund"
		if receiver != refund {
			rel = "receiver!=refund"
		}
		if err != nil {
			e.failSig(lib.Failure{Kind: "monitor", Sig: "C18:bridgecall:" + rel + ":error",
				What:   "inbound bridge call with a failing contract call did not end in the designated refund: ExecuteClaim returned " + trunc(err.Error(), 120),
				Replay: map[string]interface{}{"case": k, "error": err.Error()}})
		} else if len(diff) > 0 {
			e.failSig(lib.Failure{Kind: "monitor", Sig: "C18:bridgecall:" + rel + ":diff",
				What:   "state after a tolerated bridge-call failure differs from the designated outcome (refund record funded by the deposit, nothing else)",
				Replay: map[string]interface{}{"case": k, "diff(-designated,+real)": diff}})
		}
	}
	e.rep.Case("bc:"+fmt.Sprint(k), wroteInside)
	e.rep.Count("bridgecall:target=" + k.Target)
	e.rep.Count(fmt.Sprintf("bridgecall:innerFails=%v,refund=%s,err=%v", innerFails, k.Refund, err != nil))
	e.rep.Sample(map[string]interface{}{"boundary": "bridgecall", "case": k, "err": fmt.Sprint(err)})

	// ---- abstract case for the model
	var toks []string
	for _, ta := range k.Tokens {
		toks = append(toks, lib.Pair(lib.Z(ta[0]), lib.Z(ta[1])))
	}
	var en []int64
	for _, t := range tokenIDs {
		dis := false
		for _, d := range k.Disabled {
			if int64(d) == t {
				dis = true
			}
		}
		if !dis {
			en = append(en, t)
		}
	}
	return fmt.Sprintf("mk_bc_case %s %s %s [((-1), 2); (3, 1)] true %d %d %d %d %s %s %s %d %d %s %d %s %s %s %s %s %s",
		preBal, lib.ZList(tokenIDs), lib.ZList(en), nonce, hid[sender], hid[refund], hid[to], lib.Bool(isContract), lib.Bool(k.SendCallTo), lib.List(toks),
		k.Value, hid[payer], lib.Bool(fails), writes, lib.ZBig(evm0),
		lib.Bool(err == nil), postBal, lib.List(newCalls), lib.Bool(stillPending), lib.ZBig(evm1))
}

// designatedBridgeCall writes, with the keeper's own primitives, what a failed inbound bridge call is meant
// to leave behind: the claim consumed, the bridge account bookkeeping of ExecuteClaim, and ONE outgoing
// refund bridge call for the deposited amounts to the refund address.  No balance moves: the deposit goes
// out again as the refund.
func (e *env) designatedBridgeCall(ctx sdk.Context, msg *crosschaintypes.MsgBridgeCallClaim, nonce uint64, refund common.Address) {
	k := e.x.Keeper
	k.DeletePendingExecuteClaim(ctx, nonce)
	k.CreateBridgeAccount(ctx, msg.TxOrigin)
	sum := map[string]sdkmath.Int{}
	for i, tc := range msg.TokenContracts {
		if v, ok := sum[tc]; ok {
			sum[tc] = v.Add(msg.Amounts[i])
		} else {
			sum[tc] = msg.Amounts[i]
		}
	}
	// ordered like the base coins (by base denom)
	type ent struct {
		base string
		t    crosschaintypes.ERC20Token
	}
	var ents []ent
	for _, id := range tokenIDs {
		t := e.tokByID(id)
		if v, ok := sum[t.Contract]; ok && v.IsPositive() {
			ents = append(ents, ent{t.Base, crosschaintypes.NewERC20Token(v, t.Contract)})
		}
	}
	sort.Slice(ents, func(i, j int) bool { return ents[i].base < ents[j].base })
	tokens := make([]crosschaintypes.ERC20Token, 0, len(ents))
	for _, en := range ents {
		tokens = append(tokens, en.t)
	}
	out, err := k.BuildOutgoingBridgeCall(ctx, refund, refund, tokens, common.Address{}, nil, nil, nonce)
	lib.Must(err)
	k.AddOutgoingBridgeCallWithoutBuild(ctx, out)
}

func totalSupply(c *lib.Chain, ctx sdk.Context, erc20 common.Address) *big.Int {
	var res struct{ Value *big.Int }
	if err := c.App.EvmKeeper.QueryContract(ctx, common.BytesToAddress(c.App.AccountKeeper.GetModuleAddress(erc20types.ModuleName)), erc20, contract.GetFIP20().ABI, "totalSupply", &res); err != nil {
		return big.NewInt(-1)
	}
	return res.Value
}

func trunc(s string, n int) string {
	if len(s) > n {
		return s[:n]
	}
	return s
}
