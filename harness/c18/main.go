package main

import (
	"fmt"

	sdkmath "cosmossdk.io/math"
	sdk "github.com/cosmos/cosmos-sdk/types"
	"github.com/ethereum/go-ethereum/common"

	crosschaintypes "github.com/functionx/fx-core/v8/x/crosschain/types"

	"fxverif/c18/tok"
	"fxverif/lib"
)

func main() {
	c := lib.NewChain(1, 1, nil)
	lib.Must(c.NextBlock())
	x := c.X("eth")
	A := tok.AddToken(c, c.Ctx, "eth", 0, true)
	B := tok.AddToken(c, c.Ctx, "eth", 1, true)
	rev := common.HexToAddress("0x00000000000000000000000000000000000c0de1")
	c.InstallCode(c.Ctx, rev, (&lib.Asm{}).Revert().B)
	lib.Must(c.NextBlock())

	S := lib.EthKey(1, "u", 0).Hex()
	F := lib.EthKey(1, "u", 1).Hex()
	msg := &crosschaintypes.MsgBridgeCallClaim{
		ChainName: "eth", BridgerAddress: lib.EthKey(1, "u", 9).Acc().String(), EventNonce: 1, BlockHeight: 1,
		Sender: S.Hex(), Refund: F.Hex(), To: rev.Hex(), TokenContracts: []string{A.Contract, B.Contract},
		Amounts: []sdkmath.Int{sdkmath.NewInt(100), sdkmath.NewInt(200)}, Value: sdkmath.ZeroInt(), TxOrigin: S.Hex(),
	}
	show := func(ctx sdk.Context, tag string) {
		fmt.Println(tag)
		for _, who := range []common.Address{rev, F, S} {
			fmt.Printf("  %s bank A=%s B=%s erc A=%s B=%s\n", who.Hex()[:8], tok.Bank(c, ctx, who.Bytes(), A.Base), tok.Bank(c, ctx, who.Bytes(), B.Base),
				tok.BalanceOf(c, ctx, A.Erc20, who), tok.BalanceOf(c, ctx, B.Erc20, who))
		}
		x.Keeper.IterateOutgoingBridgeCalls(ctx, func(o *crosschaintypes.OutgoingBridgeCall) bool {
			fmt.Printf("  outcall %+v\n", o)
			return false
		})
	}
	{
		ctx, _ := c.Ctx.CacheContext()
		err := x.Keeper.BridgeCallHandler(ctx, msg)
		fmt.Println("refund has nothing: err =", err)
		show(ctx, "after")
	}
	{
		ctx, _ := c.Ctx.CacheContext()
		c.App.BankKeeper.MintCoins(ctx, "mint", sdk.NewCoins(sdk.NewCoin(A.Base, sdkmath.NewInt(1000)), sdk.NewCoin(B.Base, sdkmath.NewInt(1000))))
		c.App.BankKeeper.SendCoinsFromModuleToAccount(ctx, "mint", F.Bytes(), sdk.NewCoins(sdk.NewCoin(A.Base, sdkmath.NewInt(1000)), sdk.NewCoin(B.Base, sdkmath.NewInt(1000))))
		show(ctx, "before")
		err := x.Keeper.BridgeCallHandler(ctx, msg)
		fmt.Println("refund rich: err =", err)
		show(ctx, "after")
	}
	{
		ctx, _ := c.Ctx.CacheContext()
		m2 := *msg
		m2.Refund = rev.Hex()
		err := x.Keeper.BridgeCallHandler(ctx, &m2)
		fmt.Println("refund==to: err =", err)
		show(ctx, "after")
	}
}
