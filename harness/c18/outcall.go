package main

import (
	"fmt"
	"math/big"

	sdkmath "cosmossdk.io/math"
	sdk "github.com/cosmos/cosmos-sdk/types"
	authtypes "github.com/cosmos/cosmos-sdk/x/auth/types"
	"github.com/ethereum/go-ethereum/common"

	crosschaintypes "github.com/functionx/fx-core/v8/x/crosschain/types"
	erc20types "github.com/functionx/fx-core/v8/x/erc20/types"

	"fxverif/c18/tok"
	"fxverif/lib"
)

func (e *env) outcallProbe() {
	c, x := e.c, e.x
	k := x.Keeper
	S, _ := c.Ctx.CacheContext()
	t := tok.AddToken(c, S, "eth", 6, true)
	tok.RegisterAliases(c, S, t)
	U := lib.EthKey(c.Seed, "oc-user", 0)
	c.EnsureAccount(S, U.Acc())
	coins := sdk.NewCoins(sdk.NewCoin(t.Base, sdkmath.NewInt(1000)))
	lib.Must(c.App.BankKeeper.MintCoins(S, "mint", coins))
	lib.Must(c.App.BankKeeper.SendCoinsFromModuleToAccount(S, "mint", U.Acc(), coins))
	lib.Must(c.App.BankKeeper.MintCoins(S, "eth", sdk.NewCoins(sdk.NewCoin(t.BridgeDenom, sdkmath.NewInt(1000)))))
	_, err := c.App.Erc20Keeper.ConvertCoin(S, &erc20types.MsgConvertCoin{Coin: coins[0], Receiver: U.Hex().Hex(), Sender: U.Acc().String()})
	lib.Must(err)
	blocked := common.BytesToAddress(authtypes.NewModuleAddress(authtypes.FeeCollectorName))
	show := func(ctx sdk.Context, tag string, refund common.Address) {
		n := 0
		k.IterateOutgoingBridgeCalls(ctx, func(*crosschaintypes.OutgoingBridgeCall) bool { n++; return false })
		fmt.Printf("%s: U erc=%s base=%s | refund erc=%s base=%s bridge=%s | calls=%d lastObserved=%d\n", tag, tok.BalanceOf(c, ctx, t.Erc20, U.Hex()), tok.Bank(c, ctx, U.Acc(), t.Base),
			tok.BalanceOf(c, ctx, t.Erc20, refund), tok.Bank(c, ctx, refund.Bytes(), t.Base), tok.Bank(c, ctx, refund.Bytes(), t.BridgeDenom), n, k.GetLastObservedEventNonce(ctx))
	}
	for _, sc := range []struct {
		name    string
		refund  common.Address
		disable bool
		result  string // "ok" | "fail" | "timeout"
	}{
		{"result-ok", U.Hex(), false, "ok"}, {"result-fail", U.Hex(), false, "fail"}, {"result-fail-pair-off", U.Hex(), true, "fail"},
		{"result-fail-blocked-refund", blocked, false, "fail"}, {"timeout", U.Hex(), false, "timeout"}, {"timeout-pair-off", U.Hex(), true, "timeout"},
		{"timeout-blocked-refund", blocked, false, "timeout"},
	} {
		B, _ := S.CacheContext()
		input, err := crosschaintypes.GetABI().Pack("bridgeCall", "eth", sc.refund, []common.Address{t.Erc20}, []*big.Int{big.NewInt(100)}, common.HexToAddress("0x01"), []byte{}, big.NewInt(0), []byte{})
		lib.Must(err)
		pre := lib.CrosschainPrecompile
		c.EvmCall(B, U.Hex(), &t.Erc20, nil, 1_000_000, append([]byte{0x09, 0x5e, 0xa7, 0xb3}, append(common.LeftPadBytes(pre.Bytes(), 32), common.LeftPadBytes(big.NewInt(100).Bytes(), 32)...)...))
		res := c.EvmCall(B, U.Hex(), &pre, nil, 3_000_000, input)
		fmt.Println("==", sc.name, "bridgeCall failed:", res.Failed, res.VmError, res.Err)
		show(B, " after call", sc.refund)
		var oc *crosschaintypes.OutgoingBridgeCall
		k.IterateOutgoingBridgeCalls(B, func(o *crosschaintypes.OutgoingBridgeCall) bool { oc = o; return true })
		if oc == nil {
			continue
		}
		if sc.disable {
			tok.SetEnabled(c, B, t, false)
		}
		if sc.result == "timeout" {
			// any event reporting an external height beyond the call's timeout
			claim := &crosschaintypes.MsgSendToFxClaim{TokenContract: e.toks[0].Contract, Amount: sdkmath.NewInt(1), Sender: U.Hex().Hex(), Receiver: U.Acc().String()}
			n := k.GetLastObservedEventNonce(B) + 1
			setNonce(claim, n, oc.Timeout+10)
			var errs []error
			for _, o := range x.Oracles {
				errs = append(errs, e.vote(B, o, cloneClaim(claim)))
			}
			fmt.Println(" votes:", errs)
		} else {
			claim := &crosschaintypes.MsgBridgeCallResultClaim{Nonce: oc.Nonce, TxOrigin: U.Hex().Hex(), Success: sc.result == "ok", Cause: "x"}
			nonce := e.observe(B, claim)
			err := tryOn(B, func(ctx sdk.Context) error { return k.ExecuteClaim(ctx, nonce) })
			fmt.Println(" execute:", err)
		}
		show(B, " after", sc.refund)
	}
}
