package main

import (
	"fmt"
	"math/big"
	"strings"

	sdkmath "cosmossdk.io/math"
	sdk "github.com/cosmos/cosmos-sdk/types"
	authtypes "github.com/cosmos/cosmos-sdk/x/auth/types"
	"github.com/ethereum/go-ethereum/common"

	crosschaintypes "github.com/functionx/fx-core/v8/x/crosschain/types"
	fxtypes "github.com/functionx/fx-core/v8/types"
	erc20types "github.com/functionx/fx-core/v8/x/erc20/types"

	"fxverif/c18/tok"
	"fxverif/lib"
)

// Outgoing bridge calls coming back: BridgeCallResult claims (success / failure / unknown nonce) and time-outs, which the
// clean-up inside TryAttestation refunds at the next observed event.  The call is made through the real bridgeCall precompile
// by an ordinary account; the refund address is the caller's own, or an address the bank refuses to credit (any caller may
// name one), and the token pair / the erc20 module may have been switched off by governance in between.
func (e *env) outgoingCallCases() []string {
	c, x := e.c, e.x
	k := x.Keeper
	S, _ := c.Ctx.CacheContext()
	t := tok.AddToken(c, S, "eth", 6, true)
	tok.RegisterAliases(c, S, t)
	// a second and a third token, later in sorted base-denom order (the refund converts coin by coin in that order)
	t2 := tok.AddToken(c, S, "eth", 7, true)
	tok.RegisterAliases(c, S, t2)
	t3 := tok.AddToken(c, S, "eth", 8, true)
	tok.RegisterAliases(c, S, t3)
	if !(t.Base < t2.Base && t2.Base < t3.Base) {
		panic("token order")
	}
	U := lib.EthKey(c.Seed, "oc-user", 0)
	c.EnsureAccount(S, U.Acc())
	for _, tk := range []tok.Token{t, t2, t3} {
		coins := sdk.NewCoins(sdk.NewCoin(tk.Base, sdkmath.NewInt(1000)))
		lib.Must(c.App.BankKeeper.MintCoins(S, "mint", coins))
		lib.Must(c.App.BankKeeper.SendCoinsFromModuleToAccount(S, "mint", U.Acc(), coins))
		lib.Must(c.App.BankKeeper.MintCoins(S, "eth", sdk.NewCoins(sdk.NewCoin(tk.BridgeDenom, sdkmath.NewInt(1000)))))
		_, err := c.App.Erc20Keeper.ConvertCoin(S, &erc20types.MsgConvertCoin{Coin: coins[0], Receiver: U.Hex().Hex(), Sender: U.Acc().String()})
		lib.Must(err)
	}
	blocked := common.BytesToAddress(authtypes.NewModuleAddress(authtypes.FeeCollectorName))
	const amount = 100

	type scen struct {
		name    string
		kind    int64  // model kind: 0 result ok, 1 result fail, 2 timeout at an event whose handler succeeds, 3 … fails (tolerated)
		refund  string // "self" | "blocked"
		off     string // "" | "pair" | "erc20"
		unknown bool   // the result claim names a nonce that does not exist
		ntok    int    // tokens carried by the call (default 1)
	}
	scens := []scen{
		{"result-success", 0, "self", "", false, 0},
		{"result-failure", 1, "self", "", false, 0},
		{"result-failure-pair-off", 1, "self", "pair", false, 0},
		{"result-failure-erc20-off", 1, "self", "erc20", false, 0},
		{"result-failure-blocked-refund", 1, "blocked", "", false, 0},
		{"result-failure-unknown-nonce", 1, "self", "", true, 0},
		{"timeout-at-ok-event", 2, "self", "", false, 0},
		{"timeout-at-failing-event", 3, "self", "", false, 0},
		{"timeout-at-failing-event-pair-off", 3, "self", "pair", false, 0},
		{"timeout-at-ok-event-erc20-off", 2, "self", "erc20", false, 0},
		{"timeout-at-failing-event-blocked-refund", 3, "blocked", "", false, 0},
		{"timeout-at-ok-event-blocked-refund", 2, "blocked", "", false, 0},
		// calls carrying several tokens: the "refund to evm" leg converts them one after the other on the caller's context.
		// A conversion that fails at the 2nd / last coin must not leave the earlier coins converted (all or nothing)
		{"result-failure-3tok", 1, "self", "", false, 3},
		{"result-failure-2tok-second-pair-off", 1, "self", "pair2", false, 2},
		{"result-failure-3tok-last-pair-off", 1, "self", "pair3", false, 3},
		{"timeout-at-failing-event-3tok", 3, "self", "", false, 3},
		{"timeout-at-failing-event-2tok-second-pair-off", 3, "self", "pair2", false, 2},
		{"timeout-at-ok-event-3tok-last-pair-off", 2, "self", "pair3", false, 3},
	}
	countCalls := func(ctx sdk.Context) int64 {
		n := int64(0)
		k.IterateOutgoingBridgeCalls(ctx, func(*crosschaintypes.OutgoingBridgeCall) bool { n++; return false })
		return n
	}
	// the refund of one outgoing call, as two steps built from the keeper's own primitives: the base coins go to the refund address
	// (the refund in its from-msg form), then the "refund to evm" conversion of ALL coins — all or nothing: a conversion
	// that fails is a failed step and leaves none of its writes
	designatedRefund := func(ctx sdk.Context, oc *crosschaintypes.OutgoingBridgeCall) {
		fromMsg := k.HasBridgeCallFromMsg(ctx, oc.Nonce)
		k.SetBridgeCallFromMsg(ctx, oc.Nonce)
		coins := k.HandleOutgoingBridgeCallRefund(ctx, oc)
		if fromMsg {
			return
		}
		k.DeleteBridgeCallFromMsg(ctx, oc.Nonce)
		acc := crosschaintypes.ExternalAddrToAccAddr("eth", oc.GetRefund())
		_ = tryOn(ctx, func(ctx sdk.Context) error {
			for _, coin := range coins {
				if coin.Denom == fxtypes.DefaultDenom {
					continue
				}
				if _, err := c.App.Erc20Keeper.ConvertCoin(ctx, &erc20types.MsgConvertCoin{Coin: coin, Receiver: common.BytesToAddress(acc).String(), Sender: acc.String()}); err != nil {
					return err
				}
			}
			return nil
		})
	}
	var out []string
	for _, sc := range scens {
		B, _ := S.CacheContext()
		refund := U.Hex()
		if sc.refund == "blocked" {
			refund = blocked
		}
		if sc.ntok == 0 {
			sc.ntok = 1
		}
		carried := []tok.Token{t, t2, t3}[:sc.ntok]
		var erc20s []common.Address
		var amounts []*big.Int
		for _, tk := range carried {
			erc20s, amounts = append(erc20s, tk.Erc20), append(amounts, big.NewInt(amount))
		}
		pre := lib.CrosschainPrecompile
		input, err := crosschaintypes.GetABI().Pack("bridgeCall", "eth", refund, erc20s, amounts, common.HexToAddress("0x01"), []byte{}, big.NewInt(0), []byte{})
		lib.Must(err)
		if res := c.EvmCall(B, U.Hex(), &pre, nil, 3_000_000, input); res.Failed || res.Err != nil {
			panic(fmt.Sprintf("bridgeCall refused: %v %v", res.VmError, res.Err))
		}
		var oc *crosschaintypes.OutgoingBridgeCall
		k.IterateOutgoingBridgeCalls(B, func(o *crosschaintypes.OutgoingBridgeCall) bool { oc = o; return true })
		switch sc.off {
		case "pair":
			tok.SetEnabled(c, B, t, false)
		case "pair2":
			tok.SetEnabled(c, B, t2, false)
		case "pair3":
			tok.SetEnabled(c, B, t3, false)
		case "erc20":
			p := c.App.Erc20Keeper.GetParams(B)
			p.EnableErc20 = false
			_, err := c.App.Erc20Keeper.UpdateParams(B, &erc20types.MsgUpdateParams{Authority: lib.GovAuthority(), Params: p})
			lib.Must(err)
		}
		payable := sc.refund == "self" && sc.off == ""
		refundErc := func(ctx sdk.Context) *big.Int { return tok.BalanceOf(c, ctx, t.Erc20, refund) }
		erc0 := refundErc(B)
		// independent of any designated state: the refund of ONE call arrives in one form — every token as ERC-20 or every token as
		// base coin, never some of each
		holdings := func(ctx sdk.Context) (erc, bank []*big.Int) {
			for _, tk := range carried {
				erc = append(erc, tok.BalanceOf(c, ctx, tk.Erc20, refund))
				bank = append(bank, tok.Bank(c, ctx, refund.Bytes(), tk.Base).BigInt())
			}
			return
		}
		ercH0, bankH0 := holdings(B)
		oneForm := func(ctx sdk.Context) {
			ercH, bankH := holdings(ctx)
			asErc, asBank := 0, 0
			var detail []string
			for i := range carried {
				de, db := new(big.Int).Sub(ercH[i], ercH0[i]), new(big.Int).Sub(bankH[i], bankH0[i])
				if de.Sign() > 0 {
					asErc++
				}
				if db.Sign() > 0 {
					asBank++
				}
				detail = append(detail, fmt.Sprintf("token %d: ERC-20 %+d, base coin %+d", i+1, de, db))
			}
			if asErc > 0 && asBank > 0 {
				e.failSig(lib.Failure{Kind: "monitor", Sig: "C18:outcall:" + sc.name + ":refund-half-converted",
					What:   "the refund of one outgoing bridge call ended partly as ERC-20 and partly as base coins: a conversion that failed half-way was tolerated and its earlier writes kept",
					Replay: map[string]interface{}{"scenario": sc.name, "refund_address": refund.Hex(), "switched_off": sc.off, "holdings": detail}})
			}
		}
		cls := int64(0)
		var preDump, post map[string][]string

		if sc.kind < 2 {
			nonce := oc.Nonce
			if sc.unknown {
				nonce = 999
			}
			claim := &crosschaintypes.MsgBridgeCallResultClaim{Nonce: nonce, TxOrigin: U.Hex().Hex(), Success: sc.kind == 0, Cause: "reverted"}
			ev := e.observe(B, claim)
			preDump = c.DumpAll(B)
			B1, _ := B.CacheContext()
			err := tryOn(B1, func(ctx sdk.Context) error { return k.ExecuteClaim(ctx, ev) })
			post = c.DumpAll(B1)
			if err != nil {
				cls = 2
				if d := lib.DiffDumps(preDump, post); len(d) > 0 {
					e.failSig(lib.Failure{Kind: "monitor", Sig: "C18:outcall:" + sc.name + ":failed-tx-left-writes", What: "a BridgeCallResult claim whose execution failed left writes behind",
						Replay: map[string]interface{}{"scenario": sc.name, "diff": d}})
				}
			} else {
				oneForm(B1)
				// designated: claim consumed, (refund on failure,) record removed — with the keeper's own primitives
				B2, _ := B.CacheContext()
				k.DeletePendingExecuteClaim(B2, ev)
				k.CreateBridgeAccount(B2, claim.TxOrigin)
				if sc.kind == 1 {
					designatedRefund(B2, oc)
				}
				k.DeleteOutgoingBridgeCallRecord(B2, oc.Nonce)
				if d := lib.DiffDumps(c.DumpAll(B2), post); len(d) > 0 {
					e.failSig(lib.Failure{Kind: "monitor", Sig: "C18:outcall:" + sc.name, What: "state after a BridgeCallResult claim differs from its designated outcome",
						Replay: map[string]interface{}{"scenario": sc.name, "diff(-designated,+real)": d}})
				}
			}
			out = append(out, fmt.Sprintf("mk_oc_case %d %s %s %d %d %d", sc.kind, lib.Bool(payable), lib.Bool(!sc.unknown), cls, countCalls(B1),
				new(big.Int).Div(new(big.Int).Sub(refundErc(B1), erc0), big.NewInt(amount)).Int64()))
		} else {
			// an event that reports an external height beyond the call's timeout; its own handler succeeds (send-to-fx) or fails
			// in the tolerated way (bridge-token claim for a token that exists)
			var claim crosschaintypes.ExternalClaim = &crosschaintypes.MsgSendToFxClaim{TokenContract: e.toks[0].Contract, Amount: sdkmath.NewInt(1), Sender: U.Hex().Hex(), Receiver: U.Acc().String()}
			if sc.kind == 3 {
				claim = &crosschaintypes.MsgBridgeTokenClaim{TokenContract: e.toks[0].Contract, Name: "Tok", Symbol: "TOK", Decimals: 18}
			}
			ev := k.GetLastObservedEventNonce(B) + 1
			setNonce(claim, ev, oc.Timeout+10)
			last := x.Oracles[len(x.Oracles)-1]
			for _, o := range x.Oracles[:len(x.Oracles)-1] {
				lib.Must(e.vote(B, o, cloneClaim(claim)))
			}
			preDump = c.DumpAll(B)
			B1, _ := B.CacheContext()
			verr := e.vote(B1, last, cloneClaim(claim))
			post = c.DumpAll(B1)
			if verr != nil {
				if !strings.Contains(verr.Error(), "PANIC") {
					panic("vote refused: " + verr.Error())
				}
				cls = 2
				// the property: an observed event (handler failing or not) ends with the event marked observed; here the whole
				// vote transaction is lost because an unrelated, timed-out call cannot be refunded
				e.failSig(lib.Failure{Kind: "monitor", Sig: "C18:attestation:cleanup-panic:" + sc.name,
					What: "the vote that makes an event observed fails as a whole because the refund of a timed-out outgoing bridge call panics: the event is not marked observed (and no later one can be)",
					Replay: map[string]interface{}{"scenario": sc.name, "refund_address": refund.Hex(), "switched_off": sc.off, "panic": trunc(verr.Error(), 200),
						"last_observed_event_nonce": k.GetLastObservedEventNonce(B1), "outgoing_calls": countCalls(B1), "state_changed": len(lib.DiffDumps(preDump, post)) > 0}})
			} else {
				oneForm(B1)
				if sc.kind == 3 {
					cls = 1
					B2, _ := B.CacheContext()
					att := k.GetAttestation(B2, ev, claim.ClaimHash())
					att.Votes = append(att.Votes, last.Oracle.Acc().String())
					att.Observed = true
					k.SetLastObservedEventNonce(B2, ev)
					k.SetLastObservedBlockHeight(B2, claim.GetBlockHeight(), uint64(B2.BlockHeight()))
					k.SetAttestation(B2, ev, claim.ClaimHash(), att)
					// the call is refunded and removed — if its refund can be paid; otherwise it simply stays
					_ = tryOn(B2, func(ctx sdk.Context) error {
						designatedRefund(ctx, oc)
						k.DeleteOutgoingBridgeCallRecord(ctx, oc.Nonce)
						return nil
					})
					k.SetLastEventNonceByOracle(B2, last.Oracle.Acc(), ev)
					k.SetLastEventBlockHeightByOracle(B2, last.Oracle.Acc(), claim.GetBlockHeight())
					if d := lib.DiffDumps(c.DumpAll(B2), post); len(d) > 0 {
						e.failSig(lib.Failure{Kind: "monitor", Sig: "C18:outcall:" + sc.name, What: "state after a failed event that coincides with a timed-out outgoing call differs from 'event observed + call refunded and removed'",
							Replay: map[string]interface{}{"scenario": sc.name, "diff(-designated,+real)": d}})
					}
				}
			}
			out = append(out, fmt.Sprintf("mk_oc_case %d %s true %d %d %d", sc.kind, lib.Bool(payable), cls, countCalls(B1),
				new(big.Int).Div(new(big.Int).Sub(refundErc(B1), erc0), big.NewInt(amount)).Int64()))
		}
		e.rep.Case("outcall:"+sc.name, cls == 2 || sc.kind == 3)
		e.rep.Count(fmt.Sprintf("outcall:%s:class=%d", sc.name, cls))
	}
	return out
}
