package main

import (
	"encoding/hex"
	"fmt"

	sdkmath "cosmossdk.io/math"
	sdk "github.com/cosmos/cosmos-sdk/types"
	transfertypes "github.com/cosmos/ibc-go/v8/modules/apps/transfer/types"
	channeltypes "github.com/cosmos/ibc-go/v8/modules/core/04-channel/types"

	crosschaintypes "github.com/functionx/fx-core/v8/x/crosschain/types"

	"fxverif/c18/tok"
	"fxverif/lib"
)

// A SendToFx claim whose target is an IBC channel (send_to_fx.go SendToFxExecuted / transferIBCHandler): deposit to the
// receiver, conversion of the base coin into the target channel's voucher, ICS-20 transfer. On this code none of it is a
// tolerated failure: an error at any stage fails the executeClaim transaction, nothing stays, the claim remains pending.
// The monitor accepts exactly two outcomes for a forward that cannot succeed (by construction):
//   - ExecuteClaim errors and the state is untouched, or
//   - ExecuteClaim returns nil ("tolerated") and the state is the designated outcome of that failure: the claim consumed and
//     the bridged amount with the receiver as the BASE coin — nothing the failed forward wrote (no voucher, no burnt coin).
func (e *env) sendToFxIbcCases() []string {
	c, x := e.c, e.x
	k := x.Keeper
	S, _ := c.Ctx.CacheContext()
	c.App.IBCKeeper.ChannelKeeper.SetNextChannelSequence(S, 3)
	port, ch := tok.Channel(c, S, 1) // channel-3
	voucher := tok.VoucherDenom(c, S, port, ch, "ustf")
	t := tok.AddToken(c, S, "eth", 5, true, voucher)
	lib.Must(c.App.BankKeeper.MintCoins(S, transfertypes.ModuleName, sdk.NewCoins(sdk.NewCoin(voucher, sdkmath.NewInt(10_000)))))
	receiver := lib.EthKey(c.Seed, "stf-receiver", 0)
	c.EnsureAccount(S, receiver.Acc())

	type scen struct {
		name   string
		failAt int64 // 0 = the forward succeeds, 2 = no voucher alias for the target channel, 3 = the transfer itself fails
		target string
		close  bool
	}
	scens := []scen{
		{"ok", 0, "px/transfer/channel-3", false},
		{"channel-closed", 3, "px/transfer/channel-3", true},
		{"no-alias-on-target-channel", 2, "px/transfer/channel-4", false},
		{"channel-closed-other-amount", 3, "px/transfer/channel-3", true},
	}
	var out []string
	for i, s := range scens {
		B, _ := S.CacheContext()
		if s.close {
			chn, ok := c.App.IBCKeeper.ChannelKeeper.GetChannel(B, port, ch)
			if !ok {
				panic("channel missing")
			}
			chn.State = channeltypes.CLOSED
			c.App.IBCKeeper.ChannelKeeper.SetChannel(B, port, ch, chn)
		}
		amount := sdkmath.NewInt(int64(100 + 11*i))
		claim := &crosschaintypes.MsgSendToFxClaim{TokenContract: t.Contract, Amount: amount, Sender: lib.EthKey(c.Seed, "ext", 2).Hex().Hex(),
			Receiver: receiver.Acc().String(), TargetIbc: hex.EncodeToString([]byte(s.target))}
		nonce := e.observe(B, claim)
		if _, ok := k.GetPendingExecuteClaim(B, nonce); !ok {
			panic("send-to-fx claim not pending")
		}
		pre := c.DumpAll(B)
		B1, _ := B.CacheContext()
		err := tryOn(B1, func(ctx sdk.Context) error { return k.ExecuteClaim(ctx, nonce) })
		post := c.DumpAll(B1)
		changed := len(lib.DiffDumps(pre, post)) > 0
		if s.failAt != 0 {
			if err != nil {
				if changed {
					e.failSig(lib.Failure{Kind: "monitor", Sig: "C18:sendtofx-ibc:" + s.name + ":error-left-writes",
						What:   "a SendToFx claim whose IBC forward failed was rejected but left writes behind",
						Replay: map[string]interface{}{"scenario": s.name, "diff": lib.DiffDumps(pre, post)}})
				}
			} else {
				B2, _ := B.CacheContext()
				k.DeletePendingExecuteClaim(B2, nonce)
				_, derr := k.BridgeTokenToBaseCoin(B2, t.Contract, amount, receiver.Acc())
				lib.Must(derr)
				if diff := lib.DiffDumps(c.DumpAll(B2), post); len(diff) > 0 {
					e.failSig(lib.Failure{Kind: "monitor", Sig: "C18:sendtofx-ibc:" + s.name + ":tolerated-with-partial-writes",
						What:   "a SendToFx claim whose IBC forward failed was accepted as executed, but the state is not 'claim consumed, bridged amount with the receiver as base coin': writes of the failed forward stayed",
						Replay: map[string]interface{}{"scenario": s.name, "target": s.target, "channel_closed": s.close, "amount": amount.String(), "diff(-designated,+real)": diff}})
				}
			}
		}
		e.rep.Case("sendtofx-ibc:"+s.name, s.failAt == 3)
		e.rep.Count(fmt.Sprintf("sendtofx-ibc:%s:err=%v", s.name, err != nil))
		out = append(out, fmt.Sprintf("mk_stf_case %d %s %s", s.failAt, lib.Bool(err == nil), lib.Bool(changed)))
	}
	return out
}
