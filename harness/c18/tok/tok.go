// Package tok: token / IBC channel set-up shared by the C18 and C19 harnesses (owned by C18/C19).
// Everything is done through the real keepers of the real app, in the way the repo's own
// test helpers do it (x/crosschain/keeper/keeper_v1_test.go AddRandomBaseToken / SetIBCDenom,
// testutil/helpers/suite.go AddTokenPair / GenIBCTransferChannel), but deterministically.
package tok

import (
	"encoding/hex"
	"fmt"
	"math/big"
	"strings"
	"time"

	sdkmath "cosmossdk.io/math"
	sdk "github.com/cosmos/cosmos-sdk/types"
	authtypes "github.com/cosmos/cosmos-sdk/x/auth/types"
	banktypes "github.com/cosmos/cosmos-sdk/x/bank/types"
	capabilitytypes "github.com/cosmos/ibc-go/modules/capability/types"
	transfertypes "github.com/cosmos/ibc-go/v8/modules/apps/transfer/types"
	clienttypes "github.com/cosmos/ibc-go/v8/modules/core/02-client/types"
	connectiontypes "github.com/cosmos/ibc-go/v8/modules/core/03-connection/types"
	channeltypes "github.com/cosmos/ibc-go/v8/modules/core/04-channel/types"
	commitmenttypes "github.com/cosmos/ibc-go/v8/modules/core/23-commitment/types"
	porttypes "github.com/cosmos/ibc-go/v8/modules/core/05-port/types"
	host "github.com/cosmos/ibc-go/v8/modules/core/24-host"
	"github.com/cosmos/ibc-go/v8/modules/core/exported"
	localhost "github.com/cosmos/ibc-go/v8/modules/light-clients/09-localhost"
	"github.com/ethereum/go-ethereum/common"

	fxtypes "github.com/functionx/fx-core/v8/types"
	crosschaintypes "github.com/functionx/fx-core/v8/x/crosschain/types"
	erc20types "github.com/functionx/fx-core/v8/x/erc20/types"
	ibcmwtypes "github.com/functionx/fx-core/v8/x/ibc/middleware/types"

	"fxverif/lib"
)

// Token is one bridged base token: bank metadata with the bridge denom as alias, the bridge token
// registered in a crosschain module, and an ERC-20 token pair.
type Token struct {
	Base        string         // base denom (bank)
	Module      string         // crosschain module that bridges it
	Contract    string         // external token contract
	BridgeDenom string         // <module><contract>
	Erc20       common.Address // ERC-20 side of the token pair
	NativeCoin  bool           // pair owner = module (coin is the origin) vs external (ERC-20 is the origin)
}

func extContract(seed int64, module string, i int) string {
	k := lib.EthKey(seed, "tokcontract/"+module, i)
	return crosschaintypes.ExternalAddrToStr(module, k.Hex().Bytes())
}

// AddToken registers base token #i for a crosschain module on ctx; extraAliases are further bridge
// denoms of the same base token (e.g. an IBC voucher denom).
func AddToken(c *lib.Chain, ctx sdk.Context, module string, i int, nativeCoin bool, extraAliases ...string) Token {
	base := fmt.Sprintf("tk%c%s", 'a'+rune(i), module)
	contract := extContract(c.Seed, module, i)
	bridgeDenom := crosschaintypes.NewBridgeDenom(module, contract)
	k := c.XKeeper(module)
	aliases := append([]string{bridgeDenom}, extraAliases...)
	lib.Must(k.SetToken(ctx, "Test Token "+base, strings.ToUpper(base), 18, aliases...))
	lib.Must(k.AddBridgeTokenExecuted(ctx, &crosschaintypes.MsgBridgeTokenClaim{
		TokenContract: contract, Name: "Test Token", Symbol: base, Decimals: 18, ChainName: module,
	}))
	owner := erc20types.OWNER_EXTERNAL
	if nativeCoin {
		owner = erc20types.OWNER_MODULE
	}
	erc20Mod := common.BytesToAddress(authtypes.NewModuleAddress(erc20types.ModuleName).Bytes())
	addr, err := c.App.Erc20Keeper.DeployUpgradableToken(ctx, erc20Mod, "Test Token", strings.ToUpper(base), 18)
	lib.Must(err)
	c.App.Erc20Keeper.AddTokenPair(ctx, erc20types.TokenPair{Erc20Address: addr.String(), Denom: base, Enabled: true, ContractOwner: owner})
	return Token{Base: base, Module: module, Contract: contract, BridgeDenom: bridgeDenom, Erc20: addr, NativeCoin: nativeCoin}
}

// SetEnabled sets the token pair's Enabled flag through the real keeper.
func SetEnabled(c *lib.Chain, ctx sdk.Context, t Token, enabled bool) {
	p, ok := c.App.Erc20Keeper.GetTokenPair(ctx, t.Base)
	if !ok {
		panic("pair not found " + t.Base)
	}
	if p.Enabled != enabled {
		_, err := c.App.Erc20Keeper.ToggleTokenConvert(ctx, t.Base)
		lib.Must(err)
	}
}

func BalanceOf(c *lib.Chain, ctx sdk.Context, erc20, who common.Address) *big.Int {
	b, err := c.App.EvmKeeper.ERC20BalanceOf(ctx, erc20, who)
	if err != nil {
		return big.NewInt(-1)
	}
	return b
}

func Bank(c *lib.Chain, ctx sdk.Context, who sdk.AccAddress, denom string) sdkmath.Int {
	return c.App.BankKeeper.GetBalance(ctx, who, denom).Amount
}

func FxPair(c *lib.Chain, ctx sdk.Context) (common.Address, bool) {
	p, ok := c.App.Erc20Keeper.GetTokenPair(ctx, fxtypes.DefaultDenom)
	if !ok {
		return common.Address{}, false
	}
	return p.GetERC20Contract(), true
}

// Channel opens transfer channel #n (channel-n on both ends) the way testutil/helpers.GenIBCTransferChannel
// does (localhost client, OPEN connection and channel, capability claimed by the transfer module), with a
// fixed first send sequence.
func Channel(c *lib.Chain, ctx sdk.Context, firstSeq uint64) (portID, channelID string) {
	return ChannelTo(c, ctx, firstSeq, "")
}

// ChannelTo is Channel with the channel id of the remote end given (counterparty); "" = the same id as the local end.
func ChannelTo(c *lib.Chain, ctx sdk.Context, firstSeq uint64, remoteChannelID string) (portID, channelID string) {
	portID = "transfer"
	app := c.App
	channelSequence := app.IBCKeeper.ChannelKeeper.GetNextChannelSequence(ctx)
	channelID = fmt.Sprintf("channel-%d", channelSequence)
	if remoteChannelID == "" {
		remoteChannelID = channelID
	}
	connectionID := connectiontypes.FormatConnectionIdentifier(channelSequence)
	// the connection sits on ibc-go's own 09-localhost light client (client id "09-localhost", created by the client module's
	// InitGenesis): its proof verification reads the "counterparty's" commitment out of the LOCAL IBC store, which lets the
	// harness drive the real MsgRecvPacket handler (RealRecv) without a second chain
	clientID := exported.LocalhostClientID

	revision := clienttypes.ParseChainID(ctx.ChainID())
	localHostClient := localhost.NewClientState(clienttypes.NewHeight(revision, uint64(ctx.BlockHeight())))
	if _, found := app.IBCKeeper.ClientKeeper.GetClientState(ctx, clientID); !found {
		app.IBCKeeper.ClientKeeper.SetClientState(ctx, clientID, localHostClient)
	}

	params := app.IBCKeeper.ClientKeeper.GetParams(ctx)
	allowed := false
	for _, ct := range params.AllowedClients {
		allowed = allowed || ct == localHostClient.ClientType()
	}
	if !allowed {
		params.AllowedClients = append(params.AllowedClients, localHostClient.ClientType())
		app.IBCKeeper.ClientKeeper.SetParams(ctx, params)
	}


	channelCapability, err := app.ScopedIBCKeeper.NewCapability(ctx, host.ChannelCapabilityPath(portID, channelID))
	lib.Must(err)
	lib.Must(app.ScopedTransferKeeper.ClaimCapability(ctx, capabilitytypes.NewCapability(channelCapability.Index), host.ChannelCapabilityPath(portID, channelID)))

	connectionEnd := connectiontypes.NewConnectionEnd(connectiontypes.OPEN, clientID,
		connectiontypes.Counterparty{ClientId: "clientId", ConnectionId: "connection-1", Prefix: commitmenttypes.NewMerklePrefix([]byte("prefix"))},
		connectiontypes.GetCompatibleVersions(), 0)
	app.IBCKeeper.ConnectionKeeper.SetConnection(ctx, connectionID, connectionEnd)

	channel := channeltypes.NewChannel(channeltypes.OPEN, channeltypes.UNORDERED, channeltypes.NewCounterparty(portID, remoteChannelID), []string{connectionID}, transfertypes.Version)
	app.IBCKeeper.ChannelKeeper.SetChannel(ctx, portID, channelID, channel)
	app.IBCKeeper.ChannelKeeper.SetNextSequenceSend(ctx, portID, channelID, firstSeq)
	app.IBCKeeper.ChannelKeeper.SetNextChannelSequence(ctx, channelSequence+1)
	return portID, channelID
}

// VoucherDenom returns ibc/HASH of base received over (port, channel) and stores the denom trace (SetIBCDenom in the repo's tests).
func VoucherDenom(c *lib.Chain, ctx sdk.Context, portID, channelID, base string) string {
	trace := transfertypes.ParseDenomTrace(transfertypes.GetDenomPrefix(portID, channelID) + base)
	if !c.App.IBCTransferKeeper.HasDenomTrace(ctx, trace.Hash()) {
		c.App.IBCTransferKeeper.SetDenomTrace(ctx, trace)
	}
	return trace.IBCDenom()
}

// AddOwnVoucherToken registers the IBC voucher denom of `base` over (port, channel) itself as the coin of a
// native-coin token pair (one-to-one registration, erc20 RegisterNativeCoin as governance does it).
func AddOwnVoucherToken(c *lib.Chain, ctx sdk.Context, portID, channelID, base string) Token {
	trace := transfertypes.ParseDenomTrace(transfertypes.GetDenomPrefix(portID, channelID) + base)
	denom := trace.IBCDenom()
	meta := banktypes.Metadata{
		Base: denom, Name: trace.GetFullDenomPath(), Symbol: strings.ToUpper(base), Display: strings.ToLower(base),
		DenomUnits: []*banktypes.DenomUnit{{Denom: denom, Exponent: 0}, {Denom: strings.ToUpper(base), Exponent: 18}},
	}
	pair, err := c.App.Erc20Keeper.RegisterNativeCoin(ctx, meta)
	lib.Must(err)
	return Token{Base: denom, Erc20: pair.GetERC20Contract(), NativeCoin: true}
}

// ---- the IBC application stack of the real app, wrapped in ibc-go's core cache rule -------------------

// TransferStack returns the top IBCModule routed for port "transfer" (fx IBCMiddleware around ibc-go transfer).
func TransferStack(c *lib.Chain) porttypes.IBCModule {
	m, ok := c.App.IBCKeeper.Router.GetRoute(transfertypes.ModuleName)
	if !ok {
		panic("no transfer route")
	}
	return m
}

// CoreRecv transcribes ibc-go v8.5.1 modules/core/keeper/msg_server.go RecvPacket, application part:
//
//	cacheCtx, writeFn = ctx.CacheContext()
//	ack := cbs.OnRecvPacket(cacheCtx, msg.Packet, relayer)
//	if ack == nil || ack.Success() { writeFn() }
//
// (proof verification, receipts and WriteAcknowledgement belong to the core and are not run).
// CoreRecvTx is CoreRecv inside the MsgRecvPacket transaction: a panic of the application callback fails the transaction —
// nothing is written (neither the branch nor anything else) and no acknowledgement is stored.
func CoreRecvTx(c *lib.Chain, ctx sdk.Context, pkt channeltypes.Packet, relayer sdk.AccAddress) (success bool, ack []byte, panicked interface{}) {
	txCtx, writeTx := ctx.CacheContext()
	defer func() {
		if r := recover(); r != nil {
			success, ack, panicked = false, nil, r
		}
	}()
	success, ack = CoreRecv(c, txCtx, pkt, relayer)
	writeTx()
	return success, ack, nil
}

// RealRecv delivers the packet through ibc-go's OWN MsgRecvPacket handler (modules/core/keeper/msg_server.go RecvPacket): channel
// and connection checks, capability lookup, timeout check, proof verification (09-localhost client: the commitment the remote end
// "made" is written into the local IBC store for the duration of the call), replay protection / receipt, the application
// callback under the core's cache rule, WriteAcknowledgement.  refused = the core itself rejected the message (err);
// otherwise success = ack.Success() of the acknowledgement the core stored (read back from its event).
func RealRecv(c *lib.Chain, ctx sdk.Context, pkt channeltypes.Packet, relayer sdk.AccAddress) (success bool, ack []byte, err error) {
	store := ctx.KVStore(c.App.GetKey(exported.StoreKey))
	ckey := host.PacketCommitmentKey(pkt.SourcePort, pkt.SourceChannel, pkt.Sequence)
	if store.Has(ckey) {
		panic(fmt.Sprintf("RealRecv: a commitment already sits at %s (the remote end's channel id is a local one: use another sequence)", ckey))
	}
	store.Set(ckey, channeltypes.CommitPacket(c.App.AppCodec(), pkt))
	defer store.Delete(ckey)
	em := sdk.NewEventManager()
	_, err = c.App.IBCKeeper.RecvPacket(ctx.WithEventManager(em), &channeltypes.MsgRecvPacket{
		Packet: pkt, ProofCommitment: localhost.SentinelProof, ProofHeight: clienttypes.NewHeight(0, 1), Signer: relayer.String()})
	if err != nil {
		return false, nil, err
	}
	for _, ev := range em.Events() {
		if ev.Type != channeltypes.EventTypeWriteAck {
			continue
		}
		for _, a := range ev.Attributes {
			if a.Key == channeltypes.AttributeKeyAckHex {
				ack, _ = hex.DecodeString(a.Value)
			}
		}
	}
	if ack == nil {
		return true, nil, nil // asynchronous acknowledgement (not used by this stack)
	}
	var parsed channeltypes.Acknowledgement
	if e := channeltypes.SubModuleCdc.UnmarshalJSON(ack, &parsed); e != nil {
		return false, ack, fmt.Errorf("acknowledgement not decodable: %w", e)
	}
	return parsed.Success(), ack, nil
}

// RealRecvTx is RealRecv inside the MsgRecvPacket transaction: a panic (panicked != nil), or the core refusing the message
// (refused != nil), fails the transaction — nothing is written.
func RealRecvTx(c *lib.Chain, ctx sdk.Context, pkt channeltypes.Packet, relayer sdk.AccAddress) (success bool, ack []byte, refused error, panicked interface{}) {
	txCtx, writeTx := ctx.CacheContext()
	defer func() {
		if r := recover(); r != nil {
			success, ack, refused, panicked = false, nil, nil, r
		}
	}()
	ok, a, err := RealRecv(c, txCtx, pkt, relayer)
	if err != nil {
		return false, nil, err, nil
	}
	writeTx()
	return ok, a, nil, nil
}

// RealAck delivers an acknowledgement through ibc-go's own MsgAcknowledgement handler (channel keeper AcknowledgePacket: channel /
// connection / capability checks, the packet commitment must exist and match, proof of the acknowledgement through the
// 09-localhost client — the remote end's acknowledgement commitment is written into the local store for the duration of the
// call —, commitment deleted, application callback; a callback error fails the message).  A packet without commitment is a
// no-op for the core (nil error, nothing happens).
func RealAck(c *lib.Chain, ctx sdk.Context, pkt channeltypes.Packet, ack []byte, relayer sdk.AccAddress) error {
	store := ctx.KVStore(c.App.GetKey(exported.StoreKey))
	akey := host.PacketAcknowledgementKey(pkt.DestinationPort, pkt.DestinationChannel, pkt.Sequence)
	if store.Has(akey) {
		panic(fmt.Sprintf("RealAck: an acknowledgement already sits at %s", akey))
	}
	store.Set(akey, channeltypes.CommitAcknowledgement(ack))
	defer store.Delete(akey)
	_, err := c.App.IBCKeeper.Acknowledgement(ctx, &channeltypes.MsgAcknowledgement{
		Packet: pkt, Acknowledgement: ack, ProofAcked: localhost.SentinelProof, ProofHeight: clienttypes.NewHeight(0, 1), Signer: relayer.String()})
	return err
}

// RealTimeout delivers a timeout through ibc-go's own MsgTimeout handler (channel keeper TimeoutPacket: the timeout must have
// passed on the remote end — with the 09-localhost client that is the local block time, so the call runs at a block time past the
// packet's timeout timestamp —, the commitment must exist and match, proof that the remote end has no receipt, commitment
// deleted, application callback).
func RealTimeout(c *lib.Chain, ctx sdk.Context, pkt channeltypes.Packet, relayer sdk.AccAddress) error {
	late := ctx
	if ts := pkt.TimeoutTimestamp; ts > 0 && uint64(ctx.BlockTime().UnixNano()) <= ts {
		late = ctx.WithBlockTime(time.Unix(0, int64(ts)).Add(time.Second))
	}
	_, err := c.App.IBCKeeper.Timeout(late, &channeltypes.MsgTimeout{
		Packet: pkt, ProofUnreceived: localhost.SentinelProof, ProofHeight: clienttypes.NewHeight(0, 1), NextSequenceRecv: 1, Signer: relayer.String()})
	return err
}

// AppDiff drops from a store-dump diff the IBC core's own writes of a received packet (receipt, acknowledgement commitment):
// what is left is what the APPLICATION wrote.
func AppDiff(diff []string) []string {
	var out []string
	for _, l := range diff {
		if strings.HasPrefix(l, "ibc: ") && (strings.Contains(l, hex.EncodeToString([]byte("receipts/ports/"))) || strings.Contains(l, hex.EncodeToString([]byte("acks/ports/")))) {
			continue
		}
		out = append(out, l)
	}
	return out
}

func CoreRecv(c *lib.Chain, ctx sdk.Context, pkt channeltypes.Packet, relayer sdk.AccAddress) (success bool, ack []byte) {
	cacheCtx, writeFn := ctx.CacheContext()
	a := TransferStack(c).OnRecvPacket(cacheCtx, pkt, relayer)
	if a == nil || a.Success() {
		writeFn()
	}
	if a == nil {
		return true, nil
	}
	return a.Success(), a.Acknowledgement()
}

// InPacket builds an inbound ICS-20 packet arriving on our (port, channel) from the counterparty's srcChannel.
func InPacket(seq uint64, srcChannel, port, channel string, data transfertypes.FungibleTokenPacketData) channeltypes.Packet {
	return channeltypes.NewPacket(data.GetBytes(), seq, port, srcChannel, port, channel, clienttypes.NewHeight(0, 1_000_000), 0)
}

// MemoCall renders an IbcCallEvmPacket memo with the app codec.
func MemoCall(c *lib.Chain, to string, data []byte, value int64) string {
	bz, err := c.App.AppCodec().MarshalInterfaceJSON(&ibcmwtypes.IbcCallEvmPacket{To: to, Data: hex.EncodeToString(data), Value: sdkmath.NewInt(value)})
	lib.Must(err)
	return string(bz)
}

// RegisterAliases records the token's bridge denoms as aliases of its base denom in the erc20 module too (what
// RegisterNativeCoin does for metadata with aliases); the refund of outgoing bridge calls converts through this map.
func RegisterAliases(c *lib.Chain, ctx sdk.Context, t Token, extra ...string) {
	c.App.Erc20Keeper.SetAliasesDenom(ctx, t.Base, append([]string{t.BridgeDenom}, extra...)...)
}
