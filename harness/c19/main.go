package main

import (
	"fmt"
	"math/big"

	sdkmath "cosmossdk.io/math"
	sdk "github.com/cosmos/cosmos-sdk/types"
	"github.com/cosmos/cosmos-sdk/types/bech32"
	transfertypes "github.com/cosmos/ibc-go/v8/modules/apps/transfer/types"
	clienttypes "github.com/cosmos/ibc-go/v8/modules/core/02-client/types"
	channeltypes "github.com/cosmos/ibc-go/v8/modules/core/04-channel/types"
	"github.com/ethereum/go-ethereum/common"

	fxtypes "github.com/functionx/fx-core/v8/types"
	crosschaintypes "github.com/functionx/fx-core/v8/x/crosschain/types"
	erc20types "github.com/functionx/fx-core/v8/x/erc20/types"

	"fxverif/c18/tok"
	"fxverif/lib"
)

func main() {
	pxAddr, _ := bech32.ConvertAndEncode("px", make([]byte, 20))
	c := lib.NewChain(1, 1, nil)
	lib.Must(c.NextBlock())
	port, ch := tok.Channel(c, c.Ctx, 1)
	vA := tok.VoucherDenom(c, c.Ctx, port, ch, "uaaa")
	A := tok.AddToken(c, c.Ctx, "eth", 0, true, vA)
	B := tok.AddOwnVoucherToken(c, c.Ctx, port, ch, "ubbb")
	lib.Must(c.NextBlock())
	fmt.Println("channel", port, ch, "voucher", vA, "token", A, B)
	mod, _ := c.App.IBCKeeper.Router.GetRoute("transfer")

	U := lib.EthKey(1, "u", 0)
	relayer := lib.EthKey(1, "relayer", 0).Acc()
	tmod := c.App.AccountKeeper.GetModuleAddress("transfer")
	rel := func(ctx sdk.Context) []string {
		var out []string
		for _, kv := range c.DumpPrefix(ctx, erc20types.StoreKey, erc20types.KeyPrefixIBCTransfer) {
			out = append(out, string(kv.K[1:]))
		}
		return out
	}
	show := func(tag string) {
		fmt.Printf("%s: U bank A=%s vA=%s B=%s ercA=%s ercB=%s fx=%s | transfer mod vA=%s B=%s | supply vA=%s B=%s A=%s rel=%v\n", tag,
			tok.Bank(c, c.Ctx, U.Acc(), A.Base), tok.Bank(c, c.Ctx, U.Acc(), vA), tok.Bank(c, c.Ctx, U.Acc(), B.Base),
			tok.BalanceOf(c, c.Ctx, A.Erc20, U.Hex()), tok.BalanceOf(c, c.Ctx, B.Erc20, U.Hex()), tok.Bank(c, c.Ctx, U.Acc(), fxtypes.DefaultDenom),
			tok.Bank(c, c.Ctx, tmod, vA), tok.Bank(c, c.Ctx, tmod, B.Base),
			c.App.BankKeeper.GetSupply(c.Ctx, vA).Amount, c.App.BankKeeper.GetSupply(c.Ctx, B.Base).Amount, c.App.BankKeeper.GetSupply(c.Ctx, A.Base).Amount, rel(c.Ctx))
	}
	recv := func(denom, amt, receiver, memo string) {
		data := transfertypes.NewFungibleTokenPacketData(denom, amt, "cosmos1sender", receiver, memo)
		pkt := channeltypes.NewPacket(data.GetBytes(), 7, "transfer", "channel-9", port, ch, clienttypes.NewHeight(0, 1000), 0)
		cctx, write := c.Ctx.CacheContext()
		ack := mod.OnRecvPacket(cctx, pkt, relayer)
		fmt.Println("recv", denom, receiver, "ack success", ack.Success(), string(ack.Acknowledgement()))
		if ack.Success() {
			write()
		}
	}
	recv("ubbb", "1000", U.Hex().Hex(), "")
	show("after recv B hex")
	recv("ubbb", "1000", U.Acc().String(), "")
	show("after recv B bech32")
	recv("uaaa", "1000", U.Hex().Hex(), "")
	show("after recv A hex")

	// give U ERC-20 of A and fund the voucher pool
	amt := sdk.NewCoins(sdk.NewCoin(A.Base, sdkmath.NewInt(5000)))
	lib.Must(c.App.BankKeeper.MintCoins(c.Ctx, "mint", amt))
	lib.Must(c.App.BankKeeper.SendCoinsFromModuleToAccount(c.Ctx, "mint", U.Acc(), amt))
	_, err := c.App.Erc20Keeper.ConvertCoin(c.Ctx, &erc20types.MsgConvertCoin{Coin: amt[0], Receiver: U.Hex().Hex(), Sender: U.Acc().String()})
	lib.Must(err)
	pool := sdk.NewCoins(sdk.NewCoin(vA, sdkmath.NewInt(5000)))
	lib.Must(c.App.BankKeeper.MintCoins(c.Ctx, "transfer", pool))
	show("funded")

	send := func(token common.Address, a int64) {
		pack, err := crosschaintypes.GetABI().Pack("crossChain", token, pxAddr, big.NewInt(a), big.NewInt(0), fxtypes.MustStrToByte32("ibc/0/px"), "")
		lib.Must(err)
		r := c.EvmCall(c.Ctx, U.Hex(), &token, nil, 1_000_000, approve(lib.CrosschainPrecompile, big.NewInt(a)))
		fmt.Println("approve", r.Failed, r.VmError, r.Err)
		target := lib.CrosschainPrecompile
		r = c.EvmCall(c.Ctx, U.Hex(), &target, nil, 3_000_000, pack)
		fmt.Println("crossChain", r.Failed, r.VmError, r.Err)
	}
	send(A.Erc20, 300)
	show("after send A 300")
	send(B.Erc20, 100)
	show("after send B 100")
	seq, _ := c.App.IBCKeeper.ChannelKeeper.GetNextSequenceSend(c.Ctx, port, ch)
	fmt.Println("next seq", seq)
	com := c.App.IBCKeeper.ChannelKeeper.GetPacketCommitment(c.Ctx, port, ch, 1)
	fmt.Printf("commitment %x\n", com)
	// reconstruct the packet
	data := transfertypes.NewFungibleTokenPacketData("transfer/channel-0/uaaa", "300", U.Acc().String(), pxAddr, "")
	timeout := uint64(c.Ctx.BlockTime().UnixNano()) + uint64(c.App.Erc20Keeper.GetIbcTimeout(c.Ctx))
	pkt := channeltypes.NewPacket(data.GetBytes(), 1, port, ch, port, ch, clienttypes.ZeroHeight(), timeout)
	fmt.Printf("reconstructed %x\n", channeltypes.CommitPacket(c.App.AppCodec(), pkt))

	okAck := channeltypes.NewResultAcknowledgement([]byte{1}).Acknowledgement()
	errAck := channeltypes.NewErrorAcknowledgement(fmt.Errorf("x")).Acknowledgement()
	{
		err := c.Try(func(ctx sdk.Context) error { return mod.OnAcknowledgementPacket(ctx, pkt, okAck, relayer) })
		fmt.Println("ack ok err=", err)
		show("after ack ok")
	}
	{
		err := c.Try(func(ctx sdk.Context) error { return mod.OnAcknowledgementPacket(ctx, pkt, errAck, relayer) })
		fmt.Println("ack err err=", err)
		show("after ack err (replayed)")
	}
	{
		err := c.Try(func(ctx sdk.Context) error { return mod.OnTimeoutPacket(ctx, pkt, relayer) })
		fmt.Println("timeout err=", err)
		show("after timeout (replayed)")
	}
}

func approve(spender common.Address, amt *big.Int) []byte {
	out := []byte{0x09, 0x5e, 0xa7, 0xb3}
	out = append(out, common.LeftPadBytes(spender.Bytes(), 32)...)
	out = append(out, common.LeftPadBytes(amt.Bytes(), 32)...)
	return out
}
