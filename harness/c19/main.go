package main

import (
	"fmt"
	"math/big"

	sdkmath "cosmossdk.io/math"
	sdk "github.com/cosmos/cosmos-sdk/types"
	transfertypes "github.com/cosmos/ibc-go/v8/modules/apps/transfer/types"
	clienttypes "github.com/cosmos/ibc-go/v8/modules/core/02-client/types"
	channeltypes "github.com/cosmos/ibc-go/v8/modules/core/04-channel/types"
	"github.com/ethereum/go-ethereum/common"

	fxtypes "github.com/functionx/fx-core/v8/types"
	crosschaintypes "github.com/functionx/fx-core/v8/x/crosschain/types"
	erc20types "github.com/functionx/fx-core/v8/x/erc20/types"

	"fxverif/c18/tok"
	"fxverif/lib"
)

func main() {
	c := lib.NewChain(1, 1, nil)
	lib.Must(c.NextBlock())
	port, ch := tok.Channel(c, c.Ctx, 1)
	vA := tok.VoucherDenom(c, c.Ctx, port, ch, "uaaa")
	A := tok.AddToken(c, c.Ctx, "eth", 0, true, vA)
	lib.Must(c.NextBlock())
	fmt.Println("channel", port, ch, "voucher", vA, "token", A)
	mod, ok := c.App.IBCKeeper.Router.GetRoute("transfer")
	fmt.Println("route", ok, fmt.Sprintf("%T", mod))

	U := lib.EthKey(1, "u", 0)
	relayer := lib.EthKey(1, "relayer", 0).Acc()
	rel := func(ctx sdk.Context) []string {
		var out []string
		for _, kv := range c.DumpPrefix(ctx, erc20types.StoreKey, erc20types.KeyPrefixIBCTransfer) {
			out = append(out, string(kv.K[1:]))
		}
		return out
	}
	show := func(tag string) {
		fmt.Printf("%s: U bank base=%s voucher=%s erc=%s fx=%s rel=%v\n", tag, tok.Bank(c, c.Ctx, U.Acc(), A.Base), tok.Bank(c, c.Ctx, U.Acc(), vA),
			tok.BalanceOf(c, c.Ctx, A.Erc20, U.Hex()), tok.Bank(c, c.Ctx, U.Acc(), fxtypes.DefaultDenom), rel(c.Ctx))
	}
	// recv with hex receiver
	data := transfertypes.NewFungibleTokenPacketData("uaaa", "1000", "cosmos1sender", U.Hex().Hex(), "")
	pkt := channeltypes.NewPacket(data.GetBytes(), 7, "transfer", "channel-9", port, ch, clienttypes.NewHeight(0, 1000), 0)
	cctx, write := c.Ctx.CacheContext()
	ack := mod.OnRecvPacket(cctx, pkt, relayer)
	fmt.Println("ack success", ack.Success(), string(ack.Acknowledgement()))
	if ack.Success() {
		write()
	}
	show("after recv")

	// send from evm
	pack, err := crosschaintypes.GetABI().Pack("crossChain", A.Erc20, "px1qqqqqqqqqqqqqqqqqqqqqqqqqqqqqqqqqqqqqqqq", big.NewInt(300), big.NewInt(0), fxtypes.MustStrToByte32("ibc/0/px"), "")
	lib.Must(err)
	// approve crosschain precompile
	app, _ := fxContractERC20Approve(lib.CrosschainPrecompile, big.NewInt(300))
	r := c.EvmCall(c.Ctx, U.Hex(), &A.Erc20, nil, 1_000_000, app)
	fmt.Println("approve", r.Failed, r.VmError, r.Err)
	target := lib.CrosschainPrecompile
	r = c.EvmCall(c.Ctx, U.Hex(), &target, nil, 3_000_000, pack)
	fmt.Println("crossChain", r.Failed, r.VmError, r.Err)
	show("after send")
	seq, _ := c.App.IBCKeeper.ChannelKeeper.GetNextSequenceSend(c.Ctx, port, ch)
	fmt.Println("next seq", seq)
	com := c.App.IBCKeeper.ChannelKeeper.GetPacketCommitment(c.Ctx, port, ch, 1)
	fmt.Printf("commitment %x\n", com)
	_ = sdkmath.ZeroInt
	_ = common.Address{}
}

func fxContractERC20Approve(spender common.Address, amt *big.Int) ([]byte, error) {
	// approve(address,uint256) selector 0x095ea7b3
	out := []byte{0x09, 0x5e, 0xa7, 0xb3}
	out = append(out, common.LeftPadBytes(spender.Bytes(), 32)...)
	out = append(out, common.LeftPadBytes(amt.Bytes(), 32)...)
	return out, nil
}
