// c19: IBC transfers through the fx middleware credit or refund exactly once — correspondence + monitors on the REAL app.
//
// Histories of operations (sends from the EVM precompile, plain sends, inbound packets of every shape,
// acknowledgements, timeouts, duplicated/replayed deliveries, pair toggles) are executed on the real app:
// packets go through the real IBCMiddleware → ibc-go transfer stack (taken from the IBC router), wrapped in the
// transcribed core rules (cache-and-discard on receive; commitment must exist for ack/timeout).  After every
// operation balances (bank + ERC-20), relation records and the acknowledgement class are written next to the
// operation into Cases_C19.v and compared with model/M_Ibc.v inside coqc.  Independent monitors evaluate the
// property text on the same observables.
package main

import (
	"bytes"
	"crypto/sha256"
	"encoding/json"
	"fmt"
	"math/big"
	"os"
	"path/filepath"
	"sort"
	"strings"

	sdkmath "cosmossdk.io/math"
	sdk "github.com/cosmos/cosmos-sdk/types"
	"github.com/cosmos/cosmos-sdk/types/bech32"
	authtypes "github.com/cosmos/cosmos-sdk/x/auth/types"
	transfertypes "github.com/cosmos/ibc-go/v8/modules/apps/transfer/types"
	clienttypes "github.com/cosmos/ibc-go/v8/modules/core/02-client/types"
	channeltypes "github.com/cosmos/ibc-go/v8/modules/core/04-channel/types"
	host "github.com/cosmos/ibc-go/v8/modules/core/24-host"
	ibcexported "github.com/cosmos/ibc-go/v8/modules/core/exported"
	"github.com/ethereum/go-ethereum/common"
	"github.com/ethereum/go-ethereum/core/vm"

	"github.com/functionx/fx-core/v8/contract"
	fxtypes "github.com/functionx/fx-core/v8/types"
	crosschaintypes "github.com/functionx/fx-core/v8/x/crosschain/types"
	erc20types "github.com/functionx/fx-core/v8/x/erc20/types"
	ibcmwtypes "github.com/functionx/fx-core/v8/x/ibc/middleware/types"

	"fxverif/c18/tok"
	"fxverif/lib"
)

const (
	port   = "transfer"
	nUsers = 3
)

type env struct {
	c       *lib.Chain
	r       *lib.Rand
	rep     *lib.Report
	chans   []string       // local channel ids of model channels 0 and 1: channel-11, channel-1
	chanNum []int
	obsItems []string
	remote  []int          // channel number of each channel's REMOTE end (always different from the local one)
	alias   [3]tok.Token   // model token ids 0,1,2 ; voucher alias of channel t
	vAlias  [3]string      // voucher denoms
	own     [2]tok.Token   // model token ids 10,11 ; Base = the voucher denom of channel t
	users   []lib.Key
	relayer sdk.AccAddress
	blocked sdk.AccAddress // an address the bank refuses to credit
	cCaller, cRevert common.Address
	accts   []int64 // model ids of derived memo-call senders that have an account
	pxAddr  string
	local   map[common.Address]string // every address that has a key, code or a module behind it
}

// ---- operations (JSON = replay format) ----
type opT struct {
	Kind   string `json:"op"` // sendevm|sendplain|recv|ack|timeout|ackraw|timeoutraw|toggle|exportimport
	Chan   int    `json:"chan"`
	User   int    `json:"user"`
	Denom  string `json:"denom"` // fx|alias0|alias1|own10|own11|unreg
	Amt    int64  `json:"amt"`
	Seq    uint64 `json:"seq"`
	OK     bool   `json:"ok"`
	AckKind string `json:"ack_kind,omitempty"` // "" = standard; "errempty" = error acknowledgement with empty text {"error":""}; "result0" = result acknowledgement with payload 0x00
	// recv
	Src      int    `json:"src"`
	Sender   int    `json:"sender"`
	RawDenom string `json:"raw_denom"`
	Receiver string `json:"receiver"` // hex|bech32|bad
	Memo     string `json:"memo"`     // none|text|bad|call|callrevert
}

type sentPk struct {
	pkt    channeltypes.Packet
	data   transfertypes.FungibleTokenPacketData
	ch     int
	seq    uint64
	user   int
	denom  string
	amt    int64
	evm    bool
	reconv int // monitor: ERC-20 re-conversions seen for this (channel, sequence)
	done   bool
	lost   bool // its tracking record existed before a genesis export/import and did not exist after it
}

func main() {
	seed := lib.Seed()
	e := &env{r: lib.NewRand(seed), rep: lib.NewReport("C19"), local: map[common.Address]string{}}
	e.rep.Rule = "one case = one history of 12-30 operations on a branch of the real app: sends from the EVM precompile (ERC-20 of an alias token, native FX, refused kinds), plain sends (FX, alias voucher, own voucher), inbound packets (denom FX-return / own voucher / alias voucher / unregistered / wrong channel; receiver hex / bech32 / garbage; amount incl. 0; memo none / text / malformed call / call / reverting call, derived sender with or without account), ack ok|err, timeout, duplicated and replayed deliveries, pair toggles, three channels whose remote ends carry other ids (local channel-7 = the remote id of channel-11, equal sequences in flight on both); one lifecycle history on the chain itself with a genesis export / import in the middle; " +
		"non-trivial = the history contains a refund of an EVM-started transfer or an error acknowledgement after the transfer module had credited; distinct by operation list"
	n := 30
	if lib.Tier() == "thorough" {
		n = 250
	}
	if strings.EqualFold(os.Getenv("VERIF_MODE"), "search") {
		n *= 2
	}
	if v := lib.EnvInt("VERIF_N", 0); v > 0 {
		n = int(v)
	}
	e.setup(seed)
	if p := os.Getenv("VERIF_REPLAY"); p != "" && os.Getenv("VERIF_MODE") == "replay" {
		e.replay(p)
		return
	}
	var items []string
	for _, h := range e.corpus() {
		items = append(items, e.history(h))
	}
	for i := 0; i < n; i++ {
		items = append(items, e.history(e.gen(i%2 == 0)))
	}
	e.observations()
	items = append(items, e.obsItems...)
	// lifecycle histories (genesis export -> new app from the exported state) change the chain itself: they run last
	for _, h := range e.lifecycle() {
		if it := e.history(h); it != "" {
			items = append(items, it)
		}
	}
	lib.WriteCases("Cases_C19.v", []string{"model.M_Cache", "model.M_Ibc", "model.M_IbcCorr"}, "hist", items, "hist_mismatch")
	e.rep.Write()
}

func (e *env) setup(seed int64) {
	c := lib.NewChain(seed, 1, nil)
	e.c = c
	lib.Must(c.NextBlock())
	ctx := c.Ctx
	// channel-11 and channel-1: ids decimal-prefix related, with send sequences chosen so that the k-th packet of one and
	// the k-th packet of the other read the same when channel id and sequence are written next to each other
	// (channel-11 / k  vs  channel-1 / 1k): a relation key that is not injective shows up
	// every channel's remote end carries an id DIFFERENT from the local one, and local / remote ids come from overlapping sets:
	//   model channel 0 = channel-11 -> remote channel-7      model channel 1 = channel-1 -> remote channel-8
	//   model channel 2 = channel-7  -> remote channel-9      (local channel-7 is named like channel-11's remote end)
	// channels 0 and 2 both start at sequence 1, so equal sequences are in flight on "A" and on the channel named like A's remote end
	c.App.IBCKeeper.ChannelKeeper.SetNextChannelSequence(ctx, 11)
	_, ch0 := tok.ChannelTo(c, ctx, 1, "channel-7")
	c.App.IBCKeeper.ChannelKeeper.SetNextChannelSequence(ctx, 1)
	_, ch1 := tok.ChannelTo(c, ctx, 11, "channel-8")
	c.App.IBCKeeper.ChannelKeeper.SetNextChannelSequence(ctx, 7)
	_, ch2 := tok.ChannelTo(c, ctx, 1, "channel-9")
	if ch0 != "channel-11" || ch1 != "channel-1" || ch2 != "channel-7" {
		panic("unexpected channel ids " + ch0 + " " + ch1 + " " + ch2)
	}
	e.chans = []string{ch0, ch1, ch2}
	e.chanNum = []int{11, 1, 7}
	e.remote = []int{7, 8, 9}
	e.vAlias[2] = tok.VoucherDenom(c, ctx, port, ch2, "ua2")
	e.alias[2] = tok.AddToken(c, ctx, "eth", 2, true, e.vAlias[2])
	for t := 0; t < 2; t++ {
		e.vAlias[t] = tok.VoucherDenom(c, ctx, port, e.chans[t], fmt.Sprintf("ua%d", t))
		e.alias[t] = tok.AddToken(c, ctx, "eth", t, true, e.vAlias[t])
		e.own[t] = tok.AddOwnVoucherToken(c, ctx, port, e.chans[t], fmt.Sprintf("uo%d", t))
		tok.VoucherDenom(c, ctx, port, e.chans[t], fmt.Sprintf("uo%d", t)) // users hold this voucher: it has been received before, so its trace is known
	}
	e.relayer = lib.EthKey(seed, "relayer", 0).Acc()
	e.blocked = authtypes.NewModuleAddress(authtypes.FeeCollectorName)
	e.pxAddr, _ = bech32.ConvertAndEncode("px", make([]byte, 20))
	for u := 0; u < nUsers; u++ {
		k := lib.EthKey(seed, "ibc-user", u)
		e.users = append(e.users, k)
		e.local[k.Hex()] = fmt.Sprintf("user %d", u)
		c.EnsureAccount(ctx, k.Acc())
		c.Mint(k.Acc(), sdk.NewCoin(fxtypes.DefaultDenom, sdkmath.NewInt(1_000_000)))
		for t := 0; t < 3; t++ {
			if t < 2 {
				c.Mint(k.Acc(), sdk.NewCoin(e.own[t].Base, sdkmath.NewInt(1000)))
			}
			c.Mint(k.Acc(), sdk.NewCoin(e.alias[t].Base, sdkmath.NewInt(5000)))
			// the bridge module holds the bridge tokens behind the base coins
			lib.Must(c.App.BankKeeper.MintCoins(ctx, "eth", sdk.NewCoins(sdk.NewCoin(e.alias[t].BridgeDenom, sdkmath.NewInt(5000)))))
			_, err := c.App.Erc20Keeper.ConvertCoin(ctx, &erc20types.MsgConvertCoin{Coin: sdk.NewCoin(e.alias[t].Base, sdkmath.NewInt(3000)), Receiver: k.Hex().Hex(), Sender: k.Acc().String()})
			lib.Must(err)
		}
	}
	for t := 0; t < 3; t++ { // FX that left over this channel earlier sits in escrow and can come back
		fx := sdk.NewCoin(fxtypes.DefaultDenom, sdkmath.NewInt(700))
		c.Mint(transfertypes.GetEscrowAddress(port, e.chans[t]), fx)
	}
	c.App.IBCTransferKeeper.SetTotalEscrowForDenom(ctx, sdk.NewCoin(fxtypes.DefaultDenom, sdkmath.NewInt(2100)))
	for t := 0; t < 3; t++ { // base coins of the bridged tokens that left earlier by plain ICS-20 transfers
		for ch := 0; ch < 3; ch++ {
			c.Mint(transfertypes.GetEscrowAddress(port, e.chans[ch]), sdk.NewCoin(e.alias[t].Base, sdkmath.NewInt(300)))
		}
		lib.Must(c.App.BankKeeper.MintCoins(ctx, "eth", sdk.NewCoins(sdk.NewCoin(e.alias[t].BridgeDenom, sdkmath.NewInt(900)))))
		c.App.IBCTransferKeeper.SetTotalEscrowForDenom(ctx, sdk.NewCoin(e.alias[t].Base, sdkmath.NewInt(900)))
	}
	for t := 0; t < 3; t++ { // voucher pool of the transfer module
		lib.Must(c.App.BankKeeper.MintCoins(ctx, transfertypes.ModuleName, sdk.NewCoins(sdk.NewCoin(e.vAlias[t], sdkmath.NewInt(4000)))))
	}
	e.cCaller = common.BytesToAddress([]byte{0xc0, 0xde, 0x19, 1})
	c.InstallCode(ctx, e.cCaller, (&lib.Asm{}).Op(vm.CALLER).PushU(0).Op(vm.SSTORE).Stop().B)
	e.cRevert = common.BytesToAddress([]byte{0xc0, 0xde, 0x19, 2})
	c.InstallCode(ctx, e.cRevert, (&lib.Asm{}).SStore(1, 9).Revert().B)
	e.local[e.cCaller], e.local[e.cRevert] = "contract", "contract"
	// derived senders (remote channel 7, sender 0) and (8, 1) have been sent a coin before => they have an account
	c.Mint(derived(7, 0).Bytes(), sdk.NewCoin(fxtypes.DefaultDenom, sdkmath.NewInt(10))) // can pay the value of three memo calls
	for _, p := range [][2]int{{7, 0}, {8, 1}} {
		c.EnsureAccount(ctx, derived(p[0], p[1]).Bytes())
		e.accts = append(e.accts, 1000+100*int64(p[0])+int64(p[1]))
	}
	c.App.AccountKeeper.IterateAccounts(ctx, func(a sdk.AccountI) bool {
		if _, isMod := a.(sdk.ModuleAccountI); isMod || a.GetPubKey() != nil {
			e.local[common.BytesToAddress(a.GetAddress())] = "account with key / module"
		}
		return false
	})
	for _, m := range []string{"transfer", "erc20", "eth", "evm", "gov", "mint", "distribution", "bonded_tokens_pool", "fee_collector"} {
		e.local[common.BytesToAddress(authtypes.NewModuleAddress(m))] = "module " + m
	}
	lib.Must(c.NextBlock())
}

func remoteSender(i int) string { return fmt.Sprintf("remote1sender%d", i) }

// independent re-implementation of the documented derivation: last 20 bytes of sha256(sha256("port/channel") || sender)
func derived(src, sender int) common.Address {
	th := sha256.Sum256([]byte(fmt.Sprintf("%s/channel-%d", port, src)))
	h := sha256.New()
	h.Write(th[:])
	h.Write([]byte(remoteSender(sender)))
	return common.BytesToAddress(h.Sum(nil))
}

// ---------------------------------------------------------------------------------------------
// generator

// corpus/C19/*.json: recorded failing histories of past findings, run first on every check
func (e *env) corpusFiles() [][]opT {
	dir := os.Getenv("VERIF_CORPUS")
	if dir == "" {
		dir = "/verif/corpus"
		for _, d := range []string{"../corpus", "corpus"} {
			if st, err := os.Stat(d); err == nil && st.IsDir() {
				dir = d
				break
			}
		}
	}
	files, _ := filepath.Glob(filepath.Join(dir, "C19", "*.json"))
	if filepath.Base(dir) == "C19" { // bin/check hands over corpus/<ID> itself
		files, _ = filepath.Glob(filepath.Join(dir, "*.json"))
	}
	sort.Strings(files)
	var out [][]opT
	for _, f := range files {
		var r struct {
			Ops []opT `json:"ops"`
		}
		bz, err := os.ReadFile(f)
		lib.Must(err)
		lib.Must(json.Unmarshal(bz, &r))
		out = append(out, r.Ops)
	}
	return out
}

func (e *env) corpus() [][]opT {
	return append(e.corpusFiles(), [][]opT{
		// the bank creates an account for a first-time recipient: the derived sender of (channel-11's remote end, sender 2) has none;
		// a memo call from it is refused, then it RECEIVES coins (it is a packet's receiver) and the same call goes through;
		// a packet whose receiver is its own derived sender carries a call with value: the transfer step credits the receiver
		// (account created), the call spends 3 of the 20 just received
		{{Kind: "recv", Chan: 0, Sender: 2, RawDenom: "uo0", Denom: "own10", Amt: 6, Receiver: "hex", User: 1, Memo: "call"},
			{Kind: "recv", Chan: 0, Sender: 2, RawDenom: "fxback", Denom: "fx", Amt: 20, Receiver: "derived", User: 0, Memo: "callvalue"},
			{Kind: "recv", Chan: 0, Sender: 2, RawDenom: "uo0", Denom: "own10", Amt: 6, Receiver: "hex", User: 1, Memo: "call"},
			{Kind: "recv", Chan: 0, Sender: 2, RawDenom: "uo0", Denom: "own10", Amt: 4, Receiver: "derived", User: 0, Memo: "callvalue"},
			{Kind: "recv", Chan: 0, Sender: 2, RawDenom: "fxback", Denom: "fx", Amt: 5, Receiver: "derived", User: 0, Memo: "callrevert"}},
		// the prefix rule of BaseDenomToBridgeDenom: the channel-11 token is taken for the target channel-1 (its voucher is escrowed
		// there, not burnt) by EVM sends and by the bridge's SendToFx->IBC path alike; over channel-7 it is refused. Refunds
		// unescrow the voucher; with a record they come back as ERC-20
		{{Kind: "sendevm", Chan: 1, User: 0, Denom: "alias0", Amt: 44}, {Kind: "sendplain", Chan: 1, User: 1, Denom: "alias0", Amt: 21},
			{Kind: "sendevm", Chan: 2, User: 0, Denom: "alias0", Amt: 9}, {Kind: "sendevm", Chan: 1, User: 2, Denom: "alias1", Amt: 13},
			{Kind: "timeout", Chan: 1, Seq: 12}, {Kind: "ack", Chan: 1, Seq: 11, OK: false}, {Kind: "ack", Chan: 1, Seq: 13, OK: true},
			{Kind: "timeoutraw", Chan: 1, Seq: 11}},
		// ICS-20 channels are unordered: three EVM-started transfers with consecutive sequences in flight on one channel, the
		// LAST one is acknowledged first (success) — the records of the two below it must live on until their own timeout /
		// error acknowledgement, which must come back as ERC-20
		{{Kind: "sendevm", Chan: 0, User: 0, Denom: "alias0", Amt: 50}, {Kind: "sendevm", Chan: 0, User: 1, Denom: "alias0", Amt: 60},
			{Kind: "sendevm", Chan: 0, User: 2, Denom: "alias0", Amt: 70}, {Kind: "ack", Chan: 0, Seq: 3, OK: true},
			{Kind: "timeout", Chan: 0, Seq: 2}, {Kind: "ack", Chan: 0, Seq: 1, OK: false},
			{Kind: "sendevm", Chan: 1, User: 1, Denom: "alias1", Amt: 20}, {Kind: "sendplain", Chan: 1, User: 1, Denom: "alias1", Amt: 10},
			{Kind: "sendevm", Chan: 1, User: 2, Denom: "alias1", Amt: 30}, {Kind: "ack", Chan: 1, Seq: 13, OK: true, AckKind: "result0"},
			{Kind: "ack", Chan: 1, Seq: 12, OK: true}, {Kind: "timeout", Chan: 1, Seq: 11, AckKind: "onclose"}},
		// the two ends of a channel carry different ids (channel-11 <-> channel-7 there), and local channel-7 is named like the
		// remote end of channel-11. Equal sequences (1) are in flight on both: an EVM-started transfer on channel-7 and a plain
		// bank transfer on channel-11. The plain one times out first: it must come back as bank coins and must not touch the
		// record of (channel-7, 1); the EVM one then comes back as ERC-20 and its record goes. (Record looked up under the
		// packet's SOURCE channel — the local one —, never under the destination channel.)
		{{Kind: "sendevm", Chan: 2, User: 0, Denom: "alias2", Amt: 80}, {Kind: "sendplain", Chan: 0, User: 1, Denom: "alias0", Amt: 45},
			{Kind: "timeout", Chan: 0, Seq: 1}, {Kind: "timeout", Chan: 2, Seq: 1}, {Kind: "timeoutraw", Chan: 2, Seq: 1}},
		{{Kind: "sendevm", Chan: 2, User: 2, Denom: "alias2", Amt: 33}, {Kind: "sendevm", Chan: 0, User: 2, Denom: "alias0", Amt: 21},
			{Kind: "sendplain", Chan: 2, User: 0, Denom: "base0", Amt: 11}, {Kind: "sendplain", Chan: 0, User: 0, Denom: "fx", Amt: 19},
			{Kind: "ack", Chan: 0, Seq: 2, OK: false}, {Kind: "ack", Chan: 0, Seq: 1, OK: false}, {Kind: "ack", Chan: 2, Seq: 2, OK: false, AckKind: "errempty"},
			{Kind: "ack", Chan: 2, Seq: 1, OK: true}, {Kind: "ackraw", Chan: 2, Seq: 1, OK: false}},
		// an EVM-started transfer in flight on channel-11 (seq 1) and a plain one on channel-1 (seq 11): "channel-11"+"1" vs
		// "channel-1"+"11"; the plain one times out first, then the EVM one — each must be refunded in its own form
		{{Kind: "sendevm", Chan: 0, User: 0, Denom: "alias0", Amt: 90}, {Kind: "sendplain", Chan: 1, User: 1, Denom: "alias1", Amt: 40},
			{Kind: "timeout", Chan: 1, Seq: 11}, {Kind: "timeout", Chan: 0, Seq: 1}},
		{{Kind: "sendplain", Chan: 0, User: 2, Denom: "alias0", Amt: 35}, {Kind: "sendevm", Chan: 1, User: 1, Denom: "alias1", Amt: 60},
			{Kind: "sendevm", Chan: 0, User: 0, Denom: "alias0", Amt: 25}, {Kind: "sendplain", Chan: 1, User: 2, Denom: "own11", Amt: 15},
			{Kind: "ack", Chan: 0, Seq: 1, OK: false}, {Kind: "ack", Chan: 1, Seq: 12, OK: false, AckKind: "errempty"},
			{Kind: "ack", Chan: 1, Seq: 11, OK: true}, {Kind: "timeout", Chan: 0, Seq: 2}},
		// governance switches conversion off between send and timeout / error acknowledgement: the delivery is refused and can be
		// retried after re-enabling — the refund is ERC-20 then; plain transfers are refunded regardless
		{{Kind: "sendevm", Chan: 0, User: 0, Denom: "alias0", Amt: 64}, {Kind: "sendevm", Chan: 1, User: 1, Denom: "alias1", Amt: 21},
			{Kind: "sendplain", Chan: 0, User: 2, Denom: "alias0", Amt: 9}, {Kind: "toggle", Denom: "erc20"},
			{Kind: "timeout", Chan: 0, Seq: 1}, {Kind: "ack", Chan: 1, Seq: 11, OK: false}, {Kind: "timeout", Chan: 0, Seq: 2},
			{Kind: "recv", Chan: 0, Src: 7, Sender: 0, RawDenom: "uo0", Denom: "own10", Amt: 13, Receiver: "hex", User: 2, Memo: "none"},
			{Kind: "toggle", Denom: "erc20"}, {Kind: "timeout", Chan: 0, Seq: 1}, {Kind: "ack", Chan: 1, Seq: 11, OK: false}},
		// coins merely named FX are not the native coin; conversion failure (pair off) with memos whose handling succeeds
		{{Kind: "recv", Chan: 0, Src: 7, Sender: 0, RawDenom: "FX", Denom: "unreg", Amt: 50, Receiver: "hex", User: 2, Memo: "none"},
			{Kind: "recv", Chan: 1, Src: 8, Sender: 1, RawDenom: "hopfx", Denom: "unreg", Amt: 50, Receiver: "hex", User: 1, Memo: "none"},
			{Kind: "recv", Chan: 0, Src: 7, Sender: 0, RawDenom: "FX", Denom: "unreg", Amt: 50, Receiver: "bech32", User: 2, Memo: "text"},
			{Kind: "toggle", Denom: "own10"},
			{Kind: "recv", Chan: 0, Src: 7, Sender: 0, RawDenom: "uo0", Denom: "own10", Amt: 8, Receiver: "hex", User: 2, Memo: "text"},
			{Kind: "recv", Chan: 0, Src: 7, Sender: 0, RawDenom: "uo0", Denom: "own10", Amt: 8, Receiver: "hex", User: 2, Memo: "call"},
			{Kind: "recv", Chan: 0, Src: 7, Sender: 0, RawDenom: "uo0", Denom: "own10", Amt: 8, Receiver: "hex", User: 2, Memo: "none"}},
		// the base coin of a bridged token leaves by a plain ICS-20 transfer (escrow) and comes home: to a hex receiver it must
		// arrive as ERC-20 (nothing as bank coin), to a bech32 receiver / with the pair off it is refused; the plain send itself
		// is refunded as bank coin
		{{Kind: "sendplain", Chan: 0, User: 0, Denom: "base0", Amt: 120}, {Kind: "sendplain", Chan: 1, User: 1, Denom: "base0", Amt: 30},
			{Kind: "recv", Chan: 0, Src: 7, Sender: 0, RawDenom: "baseback0", Denom: "base0", Amt: 70, Receiver: "hex", User: 2, Memo: "none"},
			{Kind: "recv", Chan: 0, Src: 7, Sender: 0, RawDenom: "baseback0", Denom: "base0", Amt: 20, Receiver: "bech32", User: 2, Memo: "none"},
			{Kind: "recv", Chan: 1, Src: 8, Sender: 1, RawDenom: "baseback0", Denom: "base0", Amt: 25, Receiver: "hex", User: 1, Memo: "call"},
			{Kind: "recv", Chan: 1, Src: 8, Sender: 1, RawDenom: "baseback1", Denom: "base1", Amt: 9, Receiver: "hex", User: 0, Memo: "text"},
			{Kind: "toggle", Denom: "alias0"},
			{Kind: "recv", Chan: 0, Src: 7, Sender: 0, RawDenom: "baseback0", Denom: "base0", Amt: 5, Receiver: "hex", User: 2, Memo: "none"},
			{Kind: "toggle", Denom: "alias0"},
			{Kind: "recv", Chan: 0, Src: 7, Sender: 0, RawDenom: "baseback0", Denom: "base0", Amt: 5000, Receiver: "hex", User: 2, Memo: "none"},
			{Kind: "timeout", Chan: 0, Seq: 1}, {Kind: "ack", Chan: 1, Seq: 11, OK: false}, {Kind: "timeoutraw", Chan: 0, Seq: 1}},
		// blocked receivers; memo calls with value (derived sender funded with 10: three calls of 3, the fourth is refused; a derived
		// sender without funds is refused); timeout after the channel was closed
		{{Kind: "recv", Chan: 0, Src: 7, Sender: 0, RawDenom: "uo0", Denom: "own10", Amt: 5, Receiver: "blockedhex", User: 0, Memo: "none"},
			{Kind: "recv", Chan: 0, Src: 7, Sender: 0, RawDenom: "fxback", Denom: "fx", Amt: 5, Receiver: "blockedbech32", User: 0, Memo: "none"},
			{Kind: "recv", Chan: 0, Src: 7, Sender: 0, RawDenom: "baseback0", Denom: "base0", Amt: 5, Receiver: "blockedhex", User: 0, Memo: "text"},
			{Kind: "recv", Chan: 0, Src: 7, Sender: 0, RawDenom: "uo0", Denom: "own10", Amt: 5, Receiver: "hex", User: 1, Memo: "callvalue"},
			{Kind: "recv", Chan: 0, Src: 7, Sender: 0, RawDenom: "fxback", Denom: "fx", Amt: 5, Receiver: "hex", User: 1, Memo: "callvalue"},
			{Kind: "recv", Chan: 0, Src: 7, Sender: 0, RawDenom: "baseback0", Denom: "base0", Amt: 5, Receiver: "hex", User: 1, Memo: "callvalue"},
			{Kind: "recv", Chan: 0, Src: 7, Sender: 0, RawDenom: "uo0", Denom: "own10", Amt: 5, Receiver: "hex", User: 1, Memo: "callvalue"},
			{Kind: "recv", Chan: 1, Src: 8, Sender: 1, RawDenom: "uo1", Denom: "own11", Amt: 5, Receiver: "hex", User: 1, Memo: "callvalue"},
			{Kind: "sendevm", Chan: 0, User: 2, Denom: "alias0", Amt: 31}, {Kind: "sendplain", Chan: 0, User: 2, Denom: "base0", Amt: 12},
			{Kind: "timeout", Chan: 0, Seq: 1, AckKind: "onclose"}, {Kind: "timeout", Chan: 0, Seq: 2, AckKind: "onclose"},
			{Kind: "timeout", Chan: 0, Seq: 1, AckKind: "onclose"}, {Kind: "timeoutraw", Chan: 0, Seq: 1}},
		// acknowledgement kinds: error acknowledgement with empty text (refund as ERC-20, record removed), result with payload 0
		{{Kind: "sendevm", Chan: 0, User: 1, Denom: "alias0", Amt: 77}, {Kind: "ack", Chan: 0, Seq: 1, OK: false, AckKind: "errempty"},
			{Kind: "sendevm", Chan: 0, User: 1, Denom: "alias0", Amt: 33}, {Kind: "ack", Chan: 0, Seq: 2, OK: true, AckKind: "result0"},
			{Kind: "sendplain", Chan: 0, User: 1, Denom: "alias0", Amt: 12}, {Kind: "ack", Chan: 0, Seq: 3, OK: false, AckKind: "errempty"}},
		// success acknowledgement on the other channel, then a replayed failure acknowledgement
		{{Kind: "sendevm", Chan: 1, User: 2, Denom: "alias1", Amt: 120}, {Kind: "ack", Chan: 1, Seq: 11, OK: true},
			{Kind: "ack", Chan: 1, Seq: 11, OK: true}, {Kind: "ackraw", Chan: 1, Seq: 11, OK: false}, {Kind: "timeoutraw", Chan: 1, Seq: 11}},
		// error ack, pair disabled at refund time, then enabled
		{{Kind: "sendevm", Chan: 1, User: 1, Denom: "alias1", Amt: 70}, {Kind: "toggle", Denom: "alias1"}, {Kind: "ack", Chan: 1, Seq: 11, OK: false},
			{Kind: "toggle", Denom: "alias1"}, {Kind: "ack", Chan: 1, Seq: 11, OK: false}, {Kind: "ack", Chan: 1, Seq: 11, OK: false}},
		// inbound shapes
		{{Kind: "recv", Chan: 0, Src: 7, Sender: 0, RawDenom: "uo0", Denom: "own10", Amt: 50, Receiver: "hex", User: 2, Memo: "none"},
			{Kind: "recv", Chan: 0, Src: 7, Sender: 0, RawDenom: "uo0", Denom: "own10", Amt: 50, Receiver: "bech32", User: 2, Memo: "none"},
			{Kind: "recv", Chan: 0, Src: 7, Sender: 0, RawDenom: "ua0", Denom: "alias0", Amt: 50, Receiver: "hex", User: 2, Memo: "none"},
			{Kind: "recv", Chan: 0, Src: 7, Sender: 0, RawDenom: "uo0", Denom: "own10", Amt: 5, Receiver: "hex", User: 1, Memo: "call"},
			{Kind: "recv", Chan: 0, Src: 7, Sender: 2, RawDenom: "uo0", Denom: "own10", Amt: 5, Receiver: "hex", User: 1, Memo: "call"},
			{Kind: "recv", Chan: 0, Src: 7, Sender: 0, RawDenom: "uo0", Denom: "own10", Amt: 5, Receiver: "hex", User: 1, Memo: "callrevert"},
			{Kind: "recv", Chan: 1, Src: 8, Sender: 1, RawDenom: "uo1", Denom: "own11", Amt: 5, Receiver: "hex", User: 1, Memo: "text"},
			{Kind: "recv", Chan: 1, Src: 8, Sender: 1, RawDenom: "uo1", Denom: "own11", Amt: 5, Receiver: "hex", User: 1, Memo: "bad"},
			{Kind: "sendplain", Chan: 0, User: 0, Denom: "fx", Amt: 500},
			{Kind: "recv", Chan: 0, Src: 7, Sender: 0, RawDenom: "fxback", Denom: "fx", Amt: 100, Receiver: "hex", User: 2, Memo: "none"},
			{Kind: "recv", Chan: 0, Src: 7, Sender: 0, RawDenom: "fxback", Denom: "fx", Amt: 100, Receiver: "bech32", User: 2, Memo: "call"},
			{Kind: "recv", Chan: 0, Src: 7, Sender: 0, RawDenom: "fxback", Denom: "fx", Amt: 1000, Receiver: "hex", User: 2, Memo: "none"}},
		// plain sends refunded: never ERC-20
		{{Kind: "sendplain", Chan: 0, User: 1, Denom: "alias0", Amt: 40}, {Kind: "sendplain", Chan: 0, User: 1, Denom: "own10", Amt: 30},
			{Kind: "sendevm", Chan: 0, User: 1, Denom: "fx", Amt: 20}, {Kind: "sendevm", Chan: 0, User: 1, Denom: "own10", Amt: 20},
			{Kind: "timeout", Chan: 0, Seq: 1}, {Kind: "ack", Chan: 0, Seq: 2, OK: false}, {Kind: "timeout", Chan: 0, Seq: 3},
			{Kind: "timeoutraw", Chan: 0, Seq: 1}, {Kind: "ackraw", Chan: 0, Seq: 3, OK: false}},
	}...)
}

// lifecycle: transfers in flight across a genesis export / import (real ExportAppStateAndValidators -> InitChain of a new app)
func (e *env) lifecycle() [][]opT {
	return [][]opT{
		{{Kind: "sendevm", Chan: 0, User: 0, Denom: "alias0", Amt: 60}, {Kind: "sendplain", Chan: 0, User: 1, Denom: "alias0", Amt: 25},
			{Kind: "sendevm", Chan: 2, User: 2, Denom: "alias2", Amt: 40}, {Kind: "sendevm", Chan: 1, User: 1, Denom: "fx", Amt: 30},
			{Kind: "recv", Chan: 0, Sender: 0, RawDenom: "uo0", Denom: "own10", Amt: 7, Receiver: "hex", User: 2, Memo: "call"},
			{Kind: "exportimport"},
			{Kind: "timeout", Chan: 0, Seq: 1}, {Kind: "ack", Chan: 0, Seq: 2, OK: false}, {Kind: "ack", Chan: 2, Seq: 1, OK: false},
			{Kind: "ack", Chan: 1, Seq: 11, OK: false}, {Kind: "timeoutraw", Chan: 0, Seq: 1},
			{Kind: "recv", Chan: 0, Sender: 0, RawDenom: "uo0", Denom: "own10", Amt: 9, Receiver: "hex", User: 2, Memo: "call"},
			{Kind: "sendevm", Chan: 1, User: 1, Denom: "alias1", Amt: 15}, {Kind: "timeout", Chan: 1, Seq: 12}},
	}
}

func (e *env) gen(avoidKnown bool) []opT {
	r := e.r
	n := 12 + r.Intn(19)
	var ops []opT
	next := []uint64{1, 11, 1}
	type fl struct {
		ch  int
		seq uint64
		evm bool
	}
	var inflight, all, completed []fl
	_ = all
	for i := 0; i < n; i++ {
		switch x := r.Intn(100); {
		case x < 22:
			ch := r.Intn(3)
			o := opT{Kind: "sendevm", Chan: ch, User: r.Intn(nUsers), Denom: fmt.Sprintf("alias%d", ch), Amt: int64(1 + r.Intn(400))}
			switch r.Intn(10) {
			case 0:
				o.Denom = "fx"
			case 1:
				if ch < 2 {
					o.Denom = fmt.Sprintf("own1%d", ch)
				} else {
					o.Denom = "fx"
				}
			case 2:
				// no voucher alias for this channel. Only from channel-11: BaseDenomToBridgeDenom matches the alias by
				// strings.HasPrefix(trace path, "transfer/channel-N"), so over channel-1 the channel-11 voucher would be taken
				if ch == 0 {
					o.Denom = "alias1"
				} else { // over channel-1 the channel-11 voucher IS taken (prefix match): accepted, escrowed; over channel-7 refused
					o.Denom = "alias0"
				}
			case 3:
				o.Amt = 3500 // more than the user holds
			}
			ops = append(ops, o)
			ok := ((o.Denom == fmt.Sprintf("alias%d", ch) || (o.Denom == "alias0" && ch == 1)) && o.Amt <= 400) || o.Denom == "fx"
			if ok { // optimistic bookkeeping; the executor knows the truth
				f := fl{ch, next[ch], o.Denom != "fx"}
				next[ch]++
				inflight, all = append(inflight, f), append(all, f)
			}
		case x < 32:
			ch := r.Intn(3)
			d := []string{"fx", fmt.Sprintf("alias%d", ch), fmt.Sprintf("own1%d", ch), "base0", "base1", "base2", "alias0"}[r.Intn(7)]
			if d == "own12" { // no own-voucher pair coin on the third channel
				d = "alias2"
			}
			ops = append(ops, opT{Kind: "sendplain", Chan: ch, User: r.Intn(nUsers), Denom: d, Amt: int64(1 + r.Intn(150))})
			f := fl{ch, next[ch], false}
			next[ch]++
			inflight, all = append(inflight, f), append(all, f)
		case x < 62:
			ch := r.Intn(3)
			o := opT{Kind: "recv", Chan: ch, Src: e.remote[ch], Sender: r.Intn(3), User: r.Intn(nUsers), Amt: int64(1 + r.Intn(300))}
			switch r.Intn(10) {
			case 8, 9:
				t := r.Intn(3)
				o.RawDenom, o.Denom = fmt.Sprintf("baseback%d", t), fmt.Sprintf("base%d", t)
			case 0, 1, 2:
				o.RawDenom, o.Denom = fmt.Sprintf("uo%d", ch), fmt.Sprintf("own1%d", ch)
				if ch == 2 {
					o.RawDenom, o.Denom = "fxback", "fx"
				}
			case 3:
				o.RawDenom, o.Denom = fmt.Sprintf("ua%d", ch), fmt.Sprintf("alias%d", ch)
			case 4:
				o.RawDenom, o.Denom = fmt.Sprintf("uo%d", (ch+1)%2), "unreg" // another channel's denom: a different voucher here
			case 5:
				// unregistered foreign coins, among them a counterparty coin merely NAMED like the native coin and a
				// multi-hop path ending in that name (neither is the native coin coming home)
				o.RawDenom, o.Denom = []string{"ufoo", "FX", "hopfx"}[r.Intn(3)], "unreg"
			default:
				o.RawDenom, o.Denom = "fxback", "fx"
			}
			o.Receiver = []string{"hex", "hex", "hex", "hex", "bech32", "bad", "blockedhex", "blockedbech32"}[r.Intn(8)]
			o.Memo = []string{"none", "none", "text", "bad", "call", "call", "callrevert", "callvalue"}[r.Intn(8)]
			if r.Chance(5) {
				o.Amt = 0
			}
			if strings.HasPrefix(o.Memo, "call") && r.Chance(60) { // a derived sender that has an account
				if ch == 0 {
					o.Sender = 0
				} else if ch == 1 {
					o.Sender = 1
				}
			}
			if ch == 0 && r.Chance(8) { // the receiver is the derived memo-call sender of (this channel, sender 2) itself
				o.Receiver, o.Sender = "derived", 2
			}
			ops = append(ops, o)
		case x < 84 && len(inflight) > 0:
			j := r.Intn(len(inflight))
			f := inflight[j]
			inflight = append(inflight[:j], inflight[j+1:]...)
			completed = append(completed, f)
			// governance switches the pair / the erc20 module off between the send and its acknowledgement or timeout
			switched := ""
			if f.evm && r.Chance(25) {
				switched = []string{fmt.Sprintf("alias%d", f.ch), "erc20"}[r.Intn(2)]
				ops = append(ops, opT{Kind: "toggle", Denom: switched})
			}
			defer0 := len(ops)
			switch r.Intn(3) {
			case 0:
				if avoidKnown && f.evm {
					ops = append(ops, opT{Kind: "timeout", Chan: f.ch, Seq: f.seq})
				} else {
					a := opT{Kind: "ack", Chan: f.ch, Seq: f.seq, OK: true}
					if r.Chance(30) {
						a.AckKind = "result0"
					}
					ops = append(ops, a)
				}
			case 1:
				a := opT{Kind: "ack", Chan: f.ch, Seq: f.seq, OK: false}
				if r.Chance(40) {
					a.AckKind = "errempty"
				}
				ops = append(ops, a)
			default:
				t := opT{Kind: "timeout", Chan: f.ch, Seq: f.seq}
				if r.Chance(35) {
					t.AckKind = "onclose"
				}
				ops = append(ops, t)
			}
			if switched != "" { // switched on again; the refused delivery is retried
				ops = append(ops, opT{Kind: "toggle", Denom: switched}, ops[defer0])
			}
			if r.Chance(30) { // duplicated delivery through the core
				ops = append(ops, opT{Kind: []string{"ack", "timeout"}[r.Intn(2)], Chan: f.ch, Seq: f.seq, OK: r.Chance(50)})
			}
		case x < 94 && len(completed) > 0:
			// replays of deliveries that already happened (the core refuses them; handed straight to the application)
			f := completed[r.Intn(len(completed))]
			if r.Chance(50) {
				ops = append(ops, opT{Kind: "ackraw", Chan: f.ch, Seq: f.seq, OK: r.Chance(30)})
			} else {
				ops = append(ops, opT{Kind: "timeoutraw", Chan: f.ch, Seq: f.seq})
			}
		default:
			ops = append(ops, opT{Kind: "toggle", Denom: []string{"alias0", "alias1", "alias2", "own10", "own11", "erc20", "erc20"}[r.Intn(7)]})
		}
	}
	return ops
}

// ---------------------------------------------------------------------------------------------
// executor

func (e *env) tokenOf(d string) (tok.Token, int64, bool) {
	switch d {
	case "alias0":
		return e.alias[0], 0, true
	case "alias1":
		return e.alias[1], 1, true
	case "alias2":
		return e.alias[2], 2, true
	case "own10":
		return e.own[0], 10, true
	case "own11":
		return e.own[1], 11, true
	case "base0": // the base coin of bridged token 0 itself (plain ICS-20 transfer, escrowed; comes home unwound)
		return e.alias[0], 0, true
	case "base1":
		return e.alias[1], 1, true
	case "base2":
		return e.alias[2], 2, true
	}
	return tok.Token{}, -1, false
}

func coqDenom(d string) string {
	switch d {
	case "fx":
		return "DFx"
	case "alias0":
		return "(DAlias 0)"
	case "alias1":
		return "(DAlias 1)"
	case "alias2":
		return "(DAlias 2)"
	case "own10":
		return "(DOwn 10)"
	case "own11":
		return "(DOwn 11)"
	case "base0":
		return "(DBase 0)"
	case "base1":
		return "(DBase 1)"
	case "base2":
		return "(DBase 2)"
	}
	return "DUnreg"
}

type wkey struct{ h, k, t int64 }

func (e *env) watch() []wkey {
	var ks []wkey
	toks := []int64{0, 1, 2, 10, 11}
	for u := int64(0); u < nUsers; u++ {
		for _, t := range toks {
			ks = append(ks, wkey{u, 0, t}, wkey{u, 2, t})
		}
		ks = append(ks, wkey{u, 1, 0}, wkey{u, 1, 1}, wkey{u, 1, 2}, wkey{u, 3, 0})
	}
	for _, t := range toks {
		ks = append(ks, wkey{-4, 0, t}, wkey{-2, 0, t}, wkey{-3, 0, t}, wkey{-3, 2, t})
	}
	for _, t := range []int64{0, 1, 2} {
		ks = append(ks, wkey{-4, 1, t}, wkey{-3, 1, t})
	}
	ks = append(ks, wkey{-10, 3, 0}, wkey{-11, 3, 0}, wkey{-12, 3, 0})
	ks = append(ks, wkey{1700, 3, 0}, wkey{1801, 3, 0}, wkey{60, 3, 0}) // FX of the two derived senders with accounts and of the memo callee
	for _, t := range []int64{0, 1, 2} { // base coins of the bridged tokens, and their vouchers, in the channel escrows
		ks = append(ks, wkey{-10, 0, t}, wkey{-11, 0, t}, wkey{-12, 0, t})
		ks = append(ks, wkey{-10, 1, t}, wkey{-11, 1, t}, wkey{-12, 1, t})
	}
	// a derived memo-call sender that has NO account at the start and may be a packet's receiver (the bank creates the account on credit)
	ks = append(ks, wkey{1702, 3, 0})
	for _, t := range toks {
		ks = append(ks, wkey{1702, 0, t}, wkey{1702, 2, t})
	}
	return ks
}

// voucherMeta: do the voucher denoms of the alias tokens have bank metadata of their own? (all or none: the model keeps one flag)
func (e *env) voucherMeta(ctx sdk.Context) bool {
	n := 0
	for _, v := range e.vAlias {
		if e.c.App.BankKeeper.HasDenomMetaData(ctx, v) {
			n++
		}
	}
	if n != 0 && n != len(e.vAlias) {
		e.rep.Fail(lib.Failure{Kind: "harness", What: fmt.Sprintf("%d of %d alias vouchers have bank metadata: the model keeps one flag for all", n, len(e.vAlias))})
	}
	return n > 0
}

func (e *env) tokByID(t int64) tok.Token {
	if t >= 10 {
		return e.own[t-10]
	}
	return e.alias[t]
}

func (e *env) read(ctx sdk.Context, k wkey) *big.Int {
	c := e.c
	var who sdk.AccAddress
	switch {
	case k.h == 1700:
		who = derived(7, 0).Bytes()
	case k.h == 1801:
		who = derived(8, 1).Bytes()
	case k.h == 1702:
		who = derived(7, 2).Bytes()
	case k.h == 60:
		who = e.cCaller.Bytes()
	case k.h >= 0:
		who = e.users[k.h].Acc()
	case k.h == -4:
		who = authtypes.NewModuleAddress(transfertypes.ModuleName)
	case k.h == -2:
		who = authtypes.NewModuleAddress(erc20types.ModuleName)
	case k.h <= -10:
		who = transfertypes.GetEscrowAddress(port, e.chans[-k.h-10])
	}
	switch k.k {
	case 0:
		if k.h == -3 {
			return c.App.BankKeeper.GetSupply(ctx, e.tokByID(k.t).Base).Amount.BigInt()
		}
		return tok.Bank(c, ctx, who, e.tokByID(k.t).Base).BigInt()
	case 1:
		if k.h == -3 {
			return c.App.BankKeeper.GetSupply(ctx, e.vAlias[k.t]).Amount.BigInt()
		}
		return tok.Bank(c, ctx, who, e.vAlias[k.t]).BigInt()
	case 2:
		if k.h == -3 {
			var res struct{ Value *big.Int }
			lib.Must(c.App.EvmKeeper.QueryContract(ctx, common.BytesToAddress(authtypes.NewModuleAddress(erc20types.ModuleName)), e.tokByID(k.t).Erc20, contract.GetFIP20().ABI, "totalSupply", &res))
			return res.Value
		}
		if k.h >= 1000 {
			return tok.BalanceOf(c, ctx, e.tokByID(k.t).Erc20, common.BytesToAddress(who))
		}
		return tok.BalanceOf(c, ctx, e.tokByID(k.t).Erc20, e.users[k.h].Hex())
	default:
		return tok.Bank(c, ctx, who, fxtypes.DefaultDenom).BigInt()
	}
}

func (e *env) snapshot(ctx sdk.Context) string {
	var items []string
	for _, k := range e.watch() {
		items = append(items, lib.Pair(fmt.Sprintf("(%s, %d, %s)", lib.Z(k.h), k.k, lib.Z(k.t)), lib.ZBig(e.read(ctx, k))))
	}
	return lib.List(items)
}

// relations lists, as (model channel, sequence), the sent packets whose tracking record exists — looked up with the
// real key function — plus (-1, n) if the store holds n records belonging to no packet of this history.
func (e *env) relations(ctx sdk.Context, sent map[string]*sentPk) (string, map[string]bool) {
	store := ctx.KVStore(e.c.App.GetKey(erc20types.StoreKey))
	var items []string
	set := map[string]bool{}
	keys := map[string]bool{}
	var ids []string
	for id := range sent {
		ids = append(ids, id)
	}
	sort.Strings(ids)
	for _, id := range ids {
		sp := sent[id]
		k := erc20types.GetIBCTransferKey(e.chans[sp.ch], sp.seq)
		if store.Has(k) {
			set[id] = true
			keys[string(k)] = true
			items = append(items, lib.Pair(lib.Z(int64(sp.ch)), lib.ZU(sp.seq)))
		}
	}
	extra := 0
	for _, kv := range e.c.DumpPrefix(ctx, erc20types.StoreKey, erc20types.KeyPrefixIBCTransfer) {
		if !keys[string(kv.K)] {
			extra++
		}
	}
	if extra > 0 {
		items = append(items, lib.Pair("(-1)", lib.Z(int64(extra))))
	}
	return lib.List(items), set
}

func tryOn(ctx sdk.Context, f func(ctx sdk.Context) error) (err error) {
	cctx, write := ctx.CacheContext()
	defer func() {
		if r := recover(); r != nil {
			err = fmt.Errorf("PANIC: %v", r)
		}
	}()
	if e := f(cctx); e != nil {
		return e
	}
	write()
	return nil
}

func approveData(spender common.Address, amt *big.Int) []byte {
	out := []byte{0x09, 0x5e, 0xa7, 0xb3}
	out = append(out, common.LeftPadBytes(spender.Bytes(), 32)...)
	return append(out, common.LeftPadBytes(amt.Bytes(), 32)...)
}

func (e *env) erc20All(ctx sdk.Context, who common.Address) map[int64]*big.Int {
	m := map[int64]*big.Int{}
	for _, t := range []int64{0, 1, 2, 10, 11} {
		m[t] = tok.BalanceOf(e.c, ctx, e.tokByID(t).Erc20, who)
	}
	return m
}

var sigCount = map[string]int{}

// at most three recorded failures per signature: a recurring (known) finding must not use up the report's budget
func (e *env) fail(sig, what string, ops []opT, i int, extra interface{}) {
	sigCount[sig]++
	if sigCount[sig] > 3 {
		return
	}
	e.rep.Fail(lib.Failure{Kind: "monitor", Sig: sig, What: what,
		Replay: map[string]interface{}{"ops": ops[:i+1], "at": i, "detail": extra}})
}

// history executes ops on a fresh branch of the real state and returns the Coq case.
func (e *env) history(ops []opT) string {
	c := e.c
	B, _ := c.Ctx.CacheContext()
	lifecycle := false
	for _, o := range ops {
		if o.Kind == "exportimport" {
			// lifecycle history: runs on the chain itself (committed blocks), the state is exported and a NEW app is started
			// from the exported genesis (real ExportAppStateAndValidators -> InitChain). Such histories run last.
			B = c.Ctx
			lifecycle = true
		}
	}
	stack := tok.TransferStack(c)
	init := e.snapshot(B)
	var pairs []int64
	for _, t := range []int64{0, 1, 2, 10, 11} {
		if p, ok := c.App.Erc20Keeper.GetTokenPair(B, e.tokByID(t).Base); ok && p.Enabled {
			pairs = append(pairs, t)
		}
	}
	if c.App.Erc20Keeper.GetEnableErc20(B) {
		pairs = append(pairs, -1) // the module-wide switch (model: pseudo pair Erc20Switch)
	}
	if e.voucherMeta(B) {
		pairs = append(pairs, -2) // the alias vouchers have bank metadata of their own (model: pseudo pair VoucherMeta)
	}
	sort.Slice(pairs, func(i, j int) bool { return pairs[i] < pairs[j] })
	accts := append([]int64{}, e.accts...)
	if c.App.AccountKeeper.HasAccount(B, derived(7, 2).Bytes()) { // (got one in an earlier lifecycle history)
		accts = append(accts, 1702)
	}
	var seqs []string
	for i, ch := range e.chans {
		q, _ := c.App.IBCKeeper.ChannelKeeper.GetNextSequenceSend(B, port, ch)
		seqs = append(seqs, lib.Pair(lib.Z(int64(i)), lib.ZU(q)))
	}
	sent := map[string]*sentPk{}
	key := func(ch int, seq uint64) string { return fmt.Sprintf("%d/%d", ch, seq) }
	nontrivial := false
	var items []string
	recvSeq := uint64(0)

	for i, o := range ops {
		kind := 0
		var coq string
		switch o.Kind {
		case "sendevm", "sendplain":
			ch := e.chans[o.Chan]
			user := e.users[o.User]
			seq, _ := c.App.IBCKeeper.ChannelKeeper.GetNextSequenceSend(B, port, ch)
			tk, _, isTok := e.tokenOf(o.Denom)
			timeout := uint64(B.BlockTime().UnixNano()) + uint64(c.App.Erc20Keeper.GetIbcTimeout(B))
			ok := false
			var pathDenom string
			if o.Kind == "sendevm" {
				token, value := tk.Erc20, (*big.Int)(nil)
				if o.Denom == "fx" {
					token, value = common.Address{}, big.NewInt(o.Amt)
				} else {
					c.EvmCall(B, user.Hex(), &token, nil, 1_000_000, approveData(lib.CrosschainPrecompile, big.NewInt(o.Amt)))
				}
				input, err := crosschaintypes.GetABI().Pack("crossChain", token, e.pxAddr, big.NewInt(o.Amt), big.NewInt(0),
					fxtypes.MustStrToByte32(fmt.Sprintf("ibc/%d/px", e.chanNum[o.Chan])), "")
				lib.Must(err)
				pre := lib.CrosschainPrecompile
				res := c.EvmCall(B, user.Hex(), &pre, value, 3_000_000, input)
				ok = res.Err == nil && !res.Failed
			} else {
				err := tryOn(B, func(ctx sdk.Context) error {
					coin := sdk.NewCoin(fxtypes.DefaultDenom, sdkmath.NewInt(o.Amt))
					if isTok {
						coin = sdk.NewCoin(tk.Base, sdkmath.NewInt(o.Amt))
						if strings.HasPrefix(o.Denom, "alias") { // the bridge's SendToFx->IBC path (transferIBCHandler)
							var err error
							coin, err = c.App.EthKeeper.BaseCoinToIBCCoin(ctx, coin, user.Acc(), fmt.Sprintf("ibc/%d/px", e.chanNum[o.Chan]))
							if err != nil {
								return err
							}
						}
					}
					_, err := c.App.IBCTransferKeeper.Transfer(ctx, transfertypes.NewMsgTransfer(port, ch, coin, user.Acc().String(), e.pxAddr, clienttypes.ZeroHeight(), timeout, ""))
					return err
				})
				ok = err == nil
			}
			if ok {
				switch {
				case o.Denom == "fx":
					pathDenom = fxtypes.DefaultDenom
				case strings.HasPrefix(o.Denom, "base"):
					pathDenom = tk.Base
				case strings.HasPrefix(o.Denom, "alias"):
					// the voucher that left is the one of the token's own channel (over channel-1 the prefix match of
					// BaseDenomToBridgeDenom also accepts the channel-11 voucher — observation history only)
					ai := int(o.Denom[len(o.Denom)-1] - '0')
					pathDenom = fmt.Sprintf("%s/%s/ua%d", port, e.chans[ai], ai)
				default:
					pathDenom = fmt.Sprintf("%s/%s/uo%d", port, ch, o.Chan%2)
				}
				data := transfertypes.NewFungibleTokenPacketData(pathDenom, fmt.Sprint(o.Amt), user.Acc().String(), e.pxAddr, "")
				// the packet as the core built it: source = the local channel, destination = the channel id of the REMOTE end
				pkt := channeltypes.NewPacket(data.GetBytes(), seq, port, ch, port, fmt.Sprintf("channel-%d", e.remote[o.Chan]), clienttypes.ZeroHeight(), timeout)
				got := c.App.IBCKeeper.ChannelKeeper.GetPacketCommitment(B, port, ch, seq)
				if !bytes.Equal(got, channeltypes.CommitPacket(c.App.AppCodec(), pkt)) {
					e.rep.Fail(lib.Failure{Kind: "harness", What: fmt.Sprintf("cannot reconstruct the packet sent by op %d (%+v): commitment differs", i, o)})
				}
				sent[key(o.Chan, seq)] = &sentPk{pkt: pkt, data: data, ch: o.Chan, seq: seq, user: o.User, denom: o.Denom, amt: o.Amt,
					evm: o.Kind == "sendevm" && o.Denom != "fx"}
				kind = 1
			} else {
				kind = 2
			}
			cons := "SendFromEvm"
			if o.Kind == "sendplain" {
				cons = "SendPlain"
			}
			coq = fmt.Sprintf("%s %d %d %s %d", cons, o.Chan, o.User, coqDenom(o.Denom), o.Amt)

		case "recv":
			ch := e.chans[o.Chan]
			user := e.users[o.User]
			o.Src = e.remote[o.Chan] // an inbound packet's source channel is the remote end of the channel it arrives on
			raw := o.RawDenom
			if raw == "fxback" {
				raw = fmt.Sprintf("%s/channel-%d/%s", port, o.Src, fxtypes.DefaultDenom)
			} else if raw == "hopfx" {
				raw = fmt.Sprintf("%s/channel-55/%s", port, fxtypes.DefaultDenom)
			} else if strings.HasPrefix(raw, "baseback") { // the base coin of a bridged token unwinding out of this channel's escrow
				raw = fmt.Sprintf("%s/channel-%d/%s", port, o.Src, e.alias[raw[len(raw)-1]-'0'].Base)
			}
			receiver, addrOK, isHex := user.Hex().Hex(), true, true
			switch o.Receiver {
			case "bech32":
				receiver, isHex = user.Acc().String(), false
			case "bad":
				receiver, addrOK, isHex = "0xnothex", false, false
			case "blockedhex": // an address the bank refuses to credit (module account)
				receiver = common.BytesToAddress(e.blocked).Hex()
			case "blockedbech32":
				receiver, isHex = e.blocked.String(), false
			case "derived": // the address memo calls of (this channel's remote end, this sender) run as
				receiver = derived(o.Src, o.Sender).Hex()
			}
			recvID := int64(o.User)
			tHex, tAcc := user.Hex(), user.Acc()
			if strings.HasPrefix(o.Receiver, "blocked") {
				recvID = 90
			} else if o.Receiver == "derived" {
				recvID = 1000 + 100*int64(o.Src) + int64(o.Sender)
				tHex, tAcc = derived(o.Src, o.Sender), sdk.AccAddress(derived(o.Src, o.Sender).Bytes())
				if recvID != 1702 {
					e.rep.Fail(lib.Failure{Kind: "harness", What: "derived receiver other than (7,2) is not watched"})
				}
			}
			memo, coqMemo := "", "NoMemo"
			switch o.Memo {
			case "text":
				memo, coqMemo = "thanks!", "MemoText"
			case "bad":
				memo, coqMemo = tok.MemoCall(c, "0x12", nil, 0), "MemoBad"
			case "call":
				memo, coqMemo = tok.MemoCall(c, e.cCaller.Hex(), nil, 0), "(MemoCall false 0)"
			case "callrevert":
				memo, coqMemo = tok.MemoCall(c, e.cRevert.Hex(), nil, 0), "(MemoCall true 0)"
			case "callvalue": // the call hands 3 units of FX to the callee: paid by the derived sender
				memo, coqMemo = tok.MemoCall(c, e.cCaller.Hex(), nil, 3), "(MemoCall false 3)"
			}
			data := transfertypes.NewFungibleTokenPacketData(raw, fmt.Sprint(o.Amt), remoteSender(o.Sender), receiver, memo)
			recvSeq++
			// (sequences far from the ones local channels send with: the remote channel ids are local ids too, and the
			// 09-localhost client reads the remote end's commitment out of the local store)
			pkt := tok.InPacket(100000+recvSeq, fmt.Sprintf("channel-%d", o.Src), port, ch, data)

			// monitor observables before
			preDump := c.DumpAll(B)
			ercBefore := e.erc20All(B, tHex)
			bankBefore := c.App.BankKeeper.GetAllBalances(B, tAcc)
			c.App.EvmKeeper.SetState(B, e.cCaller, common.Hash{}, nil)
			preDump = c.DumpAll(B)
			// through ibc-go's own MsgRecvPacket handler
			ok, _, rerr := tok.RealRecv(c, B, pkt, e.relayer)
			if rerr != nil {
				e.rep.Fail(lib.Failure{Kind: "harness", What: fmt.Sprintf("op %d: the IBC core refused the inbound packet: %v", i, rerr)})
			}
			if ok {
				kind = 1
			} else {
				kind = 2
			}
			if ok && recvID == 90 {
				e.fail("C19:recv:blocked-receiver-credited", "an inbound packet to an address the bank refuses to credit got a success acknowledgement", ops, i, receiver)
			}
			// ---- monitor: credit exactly as ERC-20 or nothing + error acknowledgement
			if !ok {
				if d := tok.AppDiff(lib.DiffDumps(preDump, c.DumpAll(B))); len(d) > 0 {
					e.fail("C19:recv:error-ack-left-state", "inbound packet answered with an error acknowledgement changed state", ops, i, d)
				}
				if addrOK && o.Amt > 0 && o.Denom != "fx" && isHex {
					nontrivial = true
				}
			} else {
				ercAfter := e.erc20All(B, tHex)
				bankAfter := c.App.BankKeeper.GetAllBalances(B, tAcc)
				sumErc, nTok := big.NewInt(0), 0
				for t, b := range ercAfter {
					if d := new(big.Int).Sub(b, ercBefore[t]); d.Sign() != 0 {
						sumErc.Add(sumErc, d)
						nTok++
					}
				}
				bankDelta, _ := bankAfter.SafeSub(bankBefore...) // (a negative entry = the receiver paid something: not zero, not the credit)
				if o.Receiver == "derived" && o.Memo == "callvalue" {
					// the receiver is the payer of its own memo call's value: exactness is the model comparison's matter
				} else if o.RawDenom == "fxback" {
					// reading: the native coin stays the native (EVM) balance — exactly the amount, no ERC-20
					want := sdk.NewCoins(sdk.NewCoin(fxtypes.DefaultDenom, sdkmath.NewInt(o.Amt)))
					if !bankDelta.Equal(want) || nTok != 0 {
						e.fail("C19:recv:fx-credit", "inbound native FX did not credit exactly the amount as native coin", ops, i, fmt.Sprint(bankDelta, sumErc))
					}
				} else {
					// (a bech32 receiver is outside the property text; if such a packet were ever accepted the same exactness is asked)
					if nTok != 1 || sumErc.Cmp(big.NewInt(o.Amt)) != 0 || !bankDelta.IsZero() {
						e.fail("C19:recv:credit", "inbound token: success acknowledgement without exactly the amount as ERC-20 (and nothing else) for the receiver", ops, i,
							fmt.Sprintf("erc20 delta %s over %d tokens, bank delta %s", sumErc, nTok, bankDelta))
					}
				}
				// ---- monitor: memo call sender
				if o.Memo == "call" {
					got := common.BytesToAddress(c.App.EvmKeeper.GetState(B, e.cCaller, common.Hash{}).Bytes())
					want := derived(o.Src, o.Sender)
					if got != want {
						e.fail("C19:memo:sender", "memo call executed with a sender other than the one derived from (port, channel, original sender)", ops, i, fmt.Sprint(got, want))
					}
					if who, isLocal := e.local[got]; isLocal {
						e.fail("C19:memo:impersonation", "memo call executed as a local account: "+who, ops, i, got.Hex())
					}
					if c.App.EvmKeeper.IsContract(B, got) {
						e.fail("C19:memo:impersonation", "memo call sender is a contract", ops, i, got.Hex())
					}
					if acc := c.App.AccountKeeper.GetAccount(B, got.Bytes()); acc != nil && acc.GetPubKey() != nil {
						e.fail("C19:memo:impersonation", "memo call sender has a public key", ops, i, got.Hex())
					}
				}
			}
			coq = fmt.Sprintf("Recv (mk_in %d %d %d %s %d %s %s %d %s)", o.Src, o.Chan, o.Sender, coqDenom(o.Denom), o.Amt,
				lib.Bool(addrOK), lib.Bool(isHex), recvID, coqMemo)

		case "ack", "timeout", "ackraw", "timeoutraw":
			sp := sent[key(o.Chan, o.Seq)]
			raw := strings.HasSuffix(o.Kind, "raw")
			isAck := strings.HasPrefix(o.Kind, "ack")
			delivered := false
			var cbErr error
			if sp != nil {
				ch := e.chans[o.Chan]
				user := e.users[sp.user]
				ercBefore := e.erc20All(B, user.Hex())
				bankBefore := c.App.BankKeeper.GetAllBalances(B, user.Acc())
				has := len(c.App.IBCKeeper.ChannelKeeper.GetPacketCommitment(B, port, ch, o.Seq)) > 0
				ack := channeltypes.NewResultAcknowledgement([]byte{1})
				if !o.OK {
					ack = channeltypes.NewErrorAcknowledgement(fmt.Errorf("refused"))
					if o.AckKind == "errempty" { // still an error acknowledgement: the oneof is Acknowledgement_Error
						ack = channeltypes.Acknowledgement{Response: &channeltypes.Acknowledgement_Error{Error: ""}}
					}
				} else if o.AckKind == "result0" {
					ack = channeltypes.NewResultAcknowledgement([]byte{0})
				}
				switch {
				case !raw && o.AckKind != "onclose":
					// through ibc-go's OWN MsgAcknowledgement / MsgTimeout handlers (commitment check and deletion, proof through the
					// 09-localhost client, application callback; a callback error fails the message as a whole)
					cbErr = tryOn(B, func(ctx sdk.Context) error {
						if isAck {
							return tok.RealAck(c, ctx, sp.pkt, ack.Acknowledgement(), e.relayer)
						}
						return tok.RealTimeout(c, ctx, sp.pkt, e.relayer)
					})
					if !has && cbErr != nil {
						e.rep.Fail(lib.Failure{Kind: "harness", What: fmt.Sprintf("op %d: a delivery for a packet without commitment is a no-op for the core, got: %v", i, cbErr)})
					}
					delivered = has && cbErr == nil
				case raw || has:
					cbErr = tryOn(B, func(ctx sdk.Context) error {
						if !raw {
							// ibc-go TimeoutOnClose (needs a proof that the REMOTE end of the channel is closed — the remote ids are local
							// channels here, so this one kind stays transcribed): commitment deleted, then the same application callback
							ctx.KVStore(c.App.GetKey(ibcexported.StoreKey)).Delete(host.PacketCommitmentKey(port, ch, o.Seq))
						}
						if isAck {
							return stack.OnAcknowledgementPacket(ctx, sp.pkt, ack.Acknowledgement(), e.relayer)
						}
						if o.AckKind == "onclose" {
							chn, _ := c.App.IBCKeeper.ChannelKeeper.GetChannel(ctx, port, ch)
							chn.State = channeltypes.CLOSED
							c.App.IBCKeeper.ChannelKeeper.SetChannel(ctx, port, ch, chn)
							err := stack.OnTimeoutPacket(ctx, sp.pkt, e.relayer)
							chn.State = channeltypes.OPEN // (re-opened for the rest of the history: the model has no channel state)
							c.App.IBCKeeper.ChannelKeeper.SetChannel(ctx, port, ch, chn)
							return err
						}
						return stack.OnTimeoutPacket(ctx, sp.pkt, e.relayer)
					})
					delivered = cbErr == nil
				}
				if cbErr != nil && lifecycle {
					e.rep.Notes = append(e.rep.Notes, fmt.Sprintf("observation (lifecycle history, op %d %s %s/%d, EVM-started=%v, record lost in export=%v): the delivery is refused: %v",
						i, o.Kind, ch, o.Seq, sp.evm, sp.lost, cbErr))
				}
				// ---- monitors: refund form and count, record removal
				ercAfter := e.erc20All(B, user.Hex())
				bankDelta := c.App.BankKeeper.GetAllBalances(B, user.Acc()).Sub(bankBefore...)
				ercDelta := big.NewInt(0)
				for t, b := range ercAfter {
					ercDelta.Add(ercDelta, new(big.Int).Sub(b, ercBefore[t]))
				}
				if ercDelta.Sign() != 0 {
					sp.reconv++
					if !sp.evm {
						e.fail("C19:refund:erc20-for-non-evm", "a transfer that did not start in the EVM was refunded as ERC-20", ops, i, ercDelta.String())
					}
					if sp.reconv > 1 {
						e.fail("C19:refund:twice", "the ERC-20 re-conversion of one (channel, sequence) happened more than once", ops, i, key(o.Chan, o.Seq))
					}
					if ercDelta.Cmp(big.NewInt(sp.amt)) != 0 {
						e.fail("C19:refund:amount", "ERC-20 refund differs from the amount sent", ops, i, ercDelta.String())
					}
				}
				if delivered && !raw {
					refundOp := !(isAck && o.OK)
					if refundOp && sp.evm {
						nontrivial = true
						if sig := "C19:refund:form"; ercDelta.Cmp(big.NewInt(sp.amt)) != 0 || !bankDelta.IsZero() {
							if sp.lost {
								sig = "C19:export-import:refund-form"
							}
							e.fail(sig, "an EVM-started transfer was not refunded exactly once in ERC-20 form", ops, i,
								fmt.Sprintf("erc20 delta %s bank delta %s", ercDelta, bankDelta))
						}
					}
					if _, set := e.relations(B, sent); set[key(o.Chan, o.Seq)] {
						what := "timeout"
						if isAck && o.OK {
							what = "success"
						} else if isAck {
							what = "failure"
						}
						e.fail("C19:relation-kept:"+what, "the tracking record of a transfer is still there after its "+what+" was processed", ops, i, fmt.Sprintf("%s/%d", ch, o.Seq))
					}
				}
			}
			switch o.Kind {
			case "ack":
				coq = fmt.Sprintf("Ack %d %d %s", o.Chan, o.Seq, lib.Bool(o.OK))
			case "timeout":
				coq = fmt.Sprintf("Timeout %d %d", o.Chan, o.Seq)
			case "ackraw":
				coq = fmt.Sprintf("AckRaw %d %d %s", o.Chan, o.Seq, lib.Bool(o.OK))
			default:
				coq = fmt.Sprintf("TimeoutRaw %d %d", o.Chan, o.Seq)
			}

		case "exportimport":
			_, before := e.relations(B, sent)
			{ // lib's ExportImport adds the localhost client type to the exported IBC genesis itself; listed twice the genesis is invalid
				params := c.App.IBCKeeper.ClientKeeper.GetParams(B)
				var keep []string
				for _, ct := range params.AllowedClients {
					if ct != ibcexported.Localhost {
						keep = append(keep, ct)
					}
				}
				params.AllowedClients = keep
				c.App.IBCKeeper.ClientKeeper.SetParams(B, params)
			}
			nc, err := c.ExportImport()
			if err != nil {
				e.rep.Fail(lib.Failure{Kind: "harness", What: fmt.Sprintf("export / import at op %d failed: %v", i, err)})
				return ""
			}
			metaBefore := e.voucherMeta(B)
			e.c, c = nc, nc
			B = nc.Ctx
			stack = tok.TransferStack(nc)
			e.rep.Notes = append(e.rep.Notes, fmt.Sprintf("observation: the voucher denoms of the alias tokens have bank metadata of their own: before the export %v, after the import %v "+
				"(ibc-go transfer InitGenesis writes metadata for every stored denom trace; crosschain HasToken = HasDenomMetaData then takes the voucher for a base denom, "+
				"IBCCoinToBaseCoin no longer swaps it for the base coin: refunds of alias-token transfers arrive as voucher coins, and a refund WITH a tracking record fails in ConvertCoin)",
				metaBefore, e.voucherMeta(B)))
			_, after := e.relations(B, sent)
			// ---- monitor: a transfer in flight keeps its tracking record across a genesis export / import
			for id := range before {
				sp := sent[id]
				inFlight := len(c.App.IBCKeeper.ChannelKeeper.GetPacketCommitment(B, port, e.chans[sp.ch], sp.seq)) > 0
				if !after[id] {
					sp.lost = true
					if inFlight {
						e.fail("C19:export-import:relation-lost", "the tracking record of an EVM-started transfer still in flight did not survive a genesis export / import (the packet commitment did)", ops, i,
							fmt.Sprintf("%s/%d", e.chans[sp.ch], sp.seq))
					}
				}
			}
			coq = "ExportImport"

		case "toggle":
			if o.Denom == "erc20" { // governance: erc20 Params.EnableErc20, through the real authority-guarded handler
				params := c.App.Erc20Keeper.GetParams(B)
				params.EnableErc20 = !params.EnableErc20
				_, err := c.App.Erc20Keeper.UpdateParams(B, &erc20types.MsgUpdateParams{Authority: lib.GovAuthority(), Params: params})
				lib.Must(err)
				coq = "TogglePair Erc20Switch"
			} else {
				tk, id, _ := e.tokenOf(o.Denom)
				p, _ := c.App.Erc20Keeper.GetTokenPair(B, tk.Base)
				tok.SetEnabled(c, B, tk, !p.Enabled)
				coq = fmt.Sprintf("TogglePair %d", id)
			}
		}
		e.rep.Count("op=" + o.Kind)
		if o.Kind == "recv" {
			e.rep.Count(fmt.Sprintf("recv:%s/%s/%s:ack=%d", o.Denom, o.Receiver, o.Memo, kind))
		}
		rel, _ := e.relations(B, sent)
		items = append(items, lib.Pair(coq, fmt.Sprintf("mk_obs %d %s %s", kind, e.snapshot(B), rel)))
	}
	bz, _ := json.Marshal(ops)
	e.rep.Case(string(bz), nontrivial)
	e.rep.Sample(ops)
	var ids []string
	for i, n := range e.chanNum {
		ids = append(ids, lib.Pair(lib.Z(int64(i)), lib.Z(int64(n))))
	}
	return fmt.Sprintf("mk_hist %s %s %s %s %s\n   %s", init, lib.ZList(pairs), lib.ZList(accts), lib.List(seqs), lib.List(ids), lib.List(items))
}

func (e *env) replay(path string) {
	var r struct {
		Replay struct {
			Ops []opT `json:"ops"`
		} `json:"replay"`
	}
	bz, err := os.ReadFile(path)
	lib.Must(err)
	lib.Must(json.Unmarshal(bz, &r))
	e.history(r.Replay.Ops)
	for _, f := range e.rep.Failures {
		out, _ := json.MarshalIndent(f, "", " ")
		fmt.Println(string(out))
	}
	if len(e.rep.Failures) == 0 {
		fmt.Println("no monitor failure on this tree")
	}
}

var _ = ibcmwtypes.IntermediateSender

// observations: behaviours seen around the middleware that are NOT violations of a clause of C19 (decided against the property
// text in docs/C19.md). They are run on the real app on every check — monitors on, not part of the model comparison — and
// reported as notes with the numbers observed.
func (e *env) observations() {
	c := e.c
	note := func(f string, a ...interface{}) { e.rep.Notes = append(e.rep.Notes, "observation: "+fmt.Sprintf(f, a...)) }
	failuresBefore := len(e.rep.Failures)

	// (1) BaseDenomToBridgeDenom picks the voucher alias by strings.HasPrefix(trace path, "transfer/channel-N"): a send of the
	// channel-11 token over channel-1 is accepted and leaves with the channel-11 voucher (escrowed, not burnt). C19's clauses
	// still hold for it: refunded to the sender as ERC-20, exactly once, record removed (monitors of history()).
	h := e.history([]opT{{Kind: "sendevm", Chan: 1, User: 0, Denom: "alias0", Amt: 44}, {Kind: "timeout", Chan: 1, Seq: 11},
		{Kind: "timeoutraw", Chan: 1, Seq: 11}, {Kind: "sendevm", Chan: 1, User: 1, Denom: "alias0", Amt: 17}, {Kind: "ack", Chan: 1, Seq: 12, OK: true}})
	e.obsItems = append(e.obsItems, h) // compared with the model like every other history (the model has the prefix rule)
	note("ERC-20 of the channel-11 token sent over channel-1: accepted=%v (prefix match of the alias path); refunded as ERC-20 exactly once on timeout, record removed on success: %d monitor failures",
		strings.Contains(h, "(SendFromEvm 1 0 (DAlias 0) 44, mk_obs 1 "), len(e.rep.Failures)-failuresBefore)

	B, _ := c.Ctx.CacheContext()
	user := e.users[2]
	// (2) a voucher registered as its own pair coin: the receiver gets exactly the amount as ERC-20 (C19 holds); the bank supply
	// of the voucher grows by TWICE the amount, the surplus sits in the transfer module account (a ledger matter: C04/C08)
	{
		v := e.own[0]
		sup0 := c.App.BankKeeper.GetSupply(B, v.Base).Amount
		mod0 := tok.Bank(c, B, authtypes.NewModuleAddress(transfertypes.ModuleName), v.Base)
		erc0 := tok.BalanceOf(c, B, v.Erc20, user.Hex())
		data := transfertypes.NewFungibleTokenPacketData("uo0", "50", remoteSender(0), user.Hex().Hex(), "")
		ok, _ := tok.CoreRecv(c, B, tok.InPacket(900, "channel-7", port, e.chans[0], data), e.relayer)
		note("inbound 50 of a voucher that is its own pair coin: ack success=%v, receiver ERC-20 +%s, voucher bank supply +%s, transfer module account +%s",
			ok, new(big.Int).Sub(tok.BalanceOf(c, B, v.Erc20, user.Hex()), erc0), c.App.BankKeeper.GetSupply(B, v.Base).Amount.Sub(sup0),
			tok.Bank(c, B, authtypes.NewModuleAddress(transfertypes.ModuleName), v.Base).Sub(mod0))
	}
	// (2b) a voucher that is only an ALIAS of a base token (many-to-one registration) can never be received: ibc-go gives the
	// voucher bank metadata during the same receive, ManyToOne then takes it for its own base denom and ConvertCoin finds no
	// pair. Error acknowledgement, nothing credited (the sender is refunded on the source chain): the "credits nothing"
	// branch of C19 — a liveness matter, not a C19 violation.
	{
		pre := c.DumpAll(B)
		data := transfertypes.NewFungibleTokenPacketData("ua0", "50", remoteSender(0), user.Hex().Hex(), "")
		ok, _ := tok.CoreRecv(c, B, tok.InPacket(905, "channel-7", port, e.chans[0], data), e.relayer)
		note("inbound 50 of a voucher registered only as an alias of a base token, hex receiver: ack success=%v, state changed=%v", ok, len(lib.DiffDumps(pre, c.DumpAll(B))) > 0)
	}
	// (3) IntermediateSender hashes the packet's SOURCE channel (the remote chain's id): two counterparties that both call their
	// end channel-7 (hypothetical here: the set-up's remote ends are channel-7/8/9) give the same derived sender for the same sender string. No local account is impersonated (C19's clause).
	{
		var seen []common.Address
		for i := 0; i < 2; i++ {
			c.App.EvmKeeper.SetState(B, e.cCaller, common.Hash{}, nil)
			data := transfertypes.NewFungibleTokenPacketData(fmt.Sprintf("uo%d", i), "5", remoteSender(0), user.Hex().Hex(), tok.MemoCall(c, e.cCaller.Hex(), nil, 0))
			ok, _ := tok.CoreRecv(c, B, tok.InPacket(901+uint64(i), "channel-7", port, e.chans[i], data), e.relayer)
			got := common.BytesToAddress(c.App.EvmKeeper.GetState(B, e.cCaller, common.Hash{}).Bytes())
			if ok {
				seen = append(seen, got)
			}
		}
		if len(seen) == 2 {
			_, local := e.local[seen[0]]
			note("memo calls from the same sender string over two different local channels (%s, %s) whose remote ends are both channel-7 run as %s and %s (equal=%v); that address is a local account: %v",
				e.chans[0], e.chans[1], seen[0].Hex(), seen[1].Hex(), seen[0] == seen[1], local)
		}
	}
	// (4) a memo call needs an auth account at the derived sender; without one the packet is refused: nothing credited
	{
		pre := c.DumpAll(B)
		data := transfertypes.NewFungibleTokenPacketData("uo0", "5", remoteSender(2), user.Hex().Hex(), tok.MemoCall(c, e.cCaller.Hex(), nil, 0))
		ok, _ := tok.CoreRecv(c, B, tok.InPacket(903, "channel-7", port, e.chans[0], data), e.relayer)
		note("memo call whose derived sender has no account yet: ack success=%v, state changed=%v", ok, len(lib.DiffDumps(pre, c.DumpAll(B))) > 0)
	}
}
