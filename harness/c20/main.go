// c20: correspondence + monitor for the minimum-fee rule (ante/fees.go).
// Runs the REAL CheckTxFeees.Check on generated (config, ctx, tx) cases, writes the
// observed verdicts as a Coq file evaluated against model.M_Fee.check, and evaluates the
// property itself (independent big-integer specification) on the real verdicts.
package main

import (
	"fmt"
	"math/big"
	"sort"

	"cosmossdk.io/log"
	sdkmath "cosmossdk.io/math"
	tmproto "github.com/cometbft/cometbft/proto/tendermint/types"
	sdk "github.com/cosmos/cosmos-sdk/types"
	banktypes "github.com/cosmos/cosmos-sdk/x/bank/types"
	distrtypes "github.com/cosmos/cosmos-sdk/x/distribution/types"
	govv1 "github.com/cosmos/cosmos-sdk/x/gov/types/v1"
	stakingtypes "github.com/cosmos/cosmos-sdk/x/staking/types"
	protov2 "google.golang.org/protobuf/proto"

	fxante "github.com/functionx/fx-core/v8/ante"
	crosschaintypes "github.com/functionx/fx-core/v8/x/crosschain/types"

	"fxverif/lib"
)

type mockTx struct {
	msgs []sdk.Msg
	gas  uint64
	fee  sdk.Coins
}

func (t mockTx) GetMsgs() []sdk.Msg                    { return t.msgs }
func (t mockTx) GetMsgsV2() ([]protov2.Message, error) { return nil, nil }
func (t mockTx) GetGas() uint64                        { return t.gas }
func (t mockTx) GetFee() sdk.Coins                     { return t.fee }
func (t mockTx) FeePayer() []byte                      { return nil }
func (t mockTx) FeeGranter() []byte                    { return nil }

var universe = []sdk.Msg{
	&banktypes.MsgSend{},
	&distrtypes.MsgWithdrawDelegatorReward{},
	&govv1.MsgVote{},
	&stakingtypes.MsgDelegate{},
	&crosschaintypes.MsgSendToExternal{},
	&crosschaintypes.MsgClaim{},
	// type URLs of which another registered type's URL is a strict extension: an exemption is by EXACT type URL
	&govv1.MsgVoteWeighted{},           // "/cosmos.gov.v1.MsgVote" + "Weighted"
	&crosschaintypes.MsgConfirm{},      // "/fx.gravity.crosschain.v1.MsgConfirm"
	&crosschaintypes.MsgConfirmBatch{}, // … + "Batch"
}

var denoms = []string{"aaa", "bbb", "ccc", "ddd"}

type caseT struct {
	Exempt    []int    `json:"exempt_type_ids"`
	Allowance uint64   `json:"allowance"`
	Msgs      []int    `json:"msg_type_ids"`
	Gas       uint64   `json:"gas"`
	Fee       [][2]string `json:"fee"`        // denom id, amount
	IsCheck   bool     `json:"is_check"`
	MinPrices [][2]string `json:"min_prices"` // denom id, scaled dec
	Verdict   string   `json:"verdict"`
}

func main() {
	seed := lib.Seed()
	r := lib.NewRand(seed)
	n := 3000
	if lib.Tier() == "thorough" {
		n = 20000
	}
	if v := lib.EnvInt("VERIF_N", 0); v > 0 {
		n = int(v)
	}
	rep := lib.NewReport("C20")
	rep.Rule = "cases (exempt set, allowance, message list, gas, fee coins, node min prices, check-mode) drawn from one PRNG with boundary bias (gas = n*allowance+{-1,0,1} incl. uint64 wrap, fee = required+{-1,0,1}); non-trivial = CheckTx mode with a non-zero node minimum price; distinct by full case content"

	var items []string
	for i := 0; i < n; i++ {
		c := gen(r)
		run(&c)
		key := fmt.Sprintf("%v", c)
		nonzero := false
		for _, p := range c.MinPrices {
			if p[1] != "0" {
				nonzero = true
			}
		}
		rep.Case(key, c.IsCheck && nonzero)
		rep.Count("verdict=" + c.Verdict)
		rep.Count(fmt.Sprintf("nmsgs=%d", min(len(c.Msgs), 4)))
		rep.Sample(c)
		if what := monitor(c); what != "" {
			rep.Fail(lib.Failure{Kind: "monitor", What: what, Sig: "C20:fee:" + what, Replay: c})
		}
		items = append(items, coqCase(c))
	}
	lib.WriteCases("Cases_C20.v", []string{"model.M_Fee", "model.M_FeeCorr"}, "fee_case", items, "fee_mismatch")
	rep.Write()
}

func min(a, b int) int {
	if a < b {
		return a
	}
	return b
}

func gen(r *lib.Rand) caseT {
	var c caseT
	// exempt set
	for id := 1; id <= len(universe); id++ {
		if r.Chance(45) {
			c.Exempt = append(c.Exempt, id)
		}
	}
	if r.Chance(10) {
		c.Exempt = append(c.Exempt, 99) // a configured type url no message has
	}
	switch r.Intn(4) {
	case 0:
		c.Allowance = r.U64Edge()
	case 1:
		c.Allowance = uint64(r.Intn(500_000))
	default:
		c.Allowance = 50_000 + uint64(r.Intn(5))
	}
	nm := 1 + r.Intn(5)
	if r.Chance(4) {
		nm = 0
	}
	allEx := r.Chance(55) && len(c.Exempt) > 0
	for i := 0; i < nm; i++ {
		if allEx {
			id := c.Exempt[r.Intn(len(c.Exempt))]
			if id == 99 {
				id = 1 + r.Intn(len(universe))
			}
			c.Msgs = append(c.Msgs, id)
		} else {
			c.Msgs = append(c.Msgs, 1+r.Intn(len(universe)))
		}
	}
	prod := uint64(len(c.Msgs)) * c.Allowance // wraps like the code under test
	switch r.Intn(6) {
	case 0:
		c.Gas = prod
	case 1:
		c.Gas = prod + 1
	case 2:
		c.Gas = prod - 1
	case 3:
		c.Gas = r.U64Edge()
	default:
		c.Gas = 1 + uint64(r.Intn(400_000))
	}
	if c.Gas == 0 && r.Chance(80) {
		c.Gas = 1 + uint64(r.Intn(1000))
	}
	c.IsCheck = !r.Chance(8)
	// node min prices: sorted by denom, distinct
	for d := range denoms {
		if r.Chance(40) {
			var amt *big.Int
			switch r.Intn(5) {
			case 0:
				amt = big.NewInt(0)
			case 1:
				amt = big.NewInt(int64(1 + r.Intn(1000))) // tiny: 1e-18 ..
			case 2:
				amt = new(big.Int).Mul(big.NewInt(int64(1+r.Intn(9))), big.NewInt(1e12*1e6)) // whole numbers
			default:
				amt = new(big.Int).Mul(big.NewInt(int64(1+r.Intn(1_000_000))), big.NewInt(1e9))
			}
			c.MinPrices = append(c.MinPrices, [2]string{fmt.Sprint(d), amt.String()})
		}
	}
	// fee coins: sorted, positive; amounts near the requirement
	for d := range denoms {
		if r.Chance(45) {
			req := big.NewInt(int64(1 + r.Intn(1_000_000)))
			for _, p := range c.MinPrices {
				if p[0] == fmt.Sprint(d) && r.Chance(75) {
					gp, _ := new(big.Int).SetString(p[1], 10)
					g := new(big.Int).SetUint64(c.Gas)
					x := new(big.Int).Mul(gp, g)
					q, m := new(big.Int).QuoRem(x, big.NewInt(1e18), new(big.Int))
					if m.Sign() > 0 {
						q.Add(q, big.NewInt(1))
					}
					q.Add(q, big.NewInt(int64(r.Intn(3)-1)))
					req = q
				}
			}
			if req.Sign() <= 0 {
				req = big.NewInt(1)
			}
			c.Fee = append(c.Fee, [2]string{fmt.Sprint(d), req.String()})
		}
	}
	return c
}

func run(c *caseT) {
	var types []string
	for _, id := range c.Exempt {
		if id == 99 {
			types = append(types, "/fx.unknown.MsgNothing")
		} else {
			types = append(types, sdk.MsgTypeURL(universe[id-1]))
		}
	}
	ctf := fxante.NewCheckTxFeees(types, c.Allowance)
	var tx mockTx
	for _, id := range c.Msgs {
		tx.msgs = append(tx.msgs, universe[id-1])
	}
	tx.gas = c.Gas
	for _, f := range c.Fee {
		a, _ := sdkmath.NewIntFromString(f[1])
		var d int
		fmt.Sscan(f[0], &d)
		tx.fee = append(tx.fee, sdk.Coin{Denom: denoms[d], Amount: a})
	}
	var mgp sdk.DecCoins
	for _, p := range c.MinPrices {
		bi, _ := new(big.Int).SetString(p[1], 10)
		var d int
		fmt.Sscan(p[0], &d)
		mgp = append(mgp, sdk.DecCoin{Denom: denoms[d], Amount: sdkmath.LegacyNewDecFromBigIntWithPrec(bi, 18)})
	}
	ctx := sdk.NewContext(nil, tmproto.Header{}, c.IsCheck, log.NewNopLogger()).WithMinGasPrices(mgp)
	func() {
		defer func() {
			if rec := recover(); rec != nil {
				c.Verdict = "Panic"
			}
		}()
		_, _, err := ctf.Check(ctx, tx)
		if err != nil {
			c.Verdict = "Reject"
		} else {
			c.Verdict = "Admit"
		}
	}()
}

// monitor: the property text evaluated on the REAL verdict with unbounded integers.
func monitor(c caseT) string {
	if !c.IsCheck {
		return ""
	}
	nonzero := false
	for _, p := range c.MinPrices {
		if p[1] != "0" {
			nonzero = true
		}
	}
	if !nonzero {
		return ""
	}
	// gas >= 2^63 is refused by the SDK's block-gas check and gas == 0 by DeductFeeDecorator
	// before the fee checker is called: outside the property's reach (the model still covers them)
	if c.Gas >= 1<<63 || c.Gas == 0 {
		return ""
	}
	ex := map[int]bool{}
	for _, id := range c.Exempt {
		ex[id] = true
	}
	allEx := len(c.Msgs) > 0
	for _, id := range c.Msgs {
		if !ex[id] {
			allEx = false
		}
	}
	trueProd := new(big.Int).Mul(big.NewInt(int64(len(c.Msgs))), new(big.Int).SetUint64(c.Allowance))
	within := new(big.Int).SetUint64(c.Gas).Cmp(trueProd) <= 0
	wrapProd := uint64(len(c.Msgs)) * c.Allowance
	// meets the minimum in some priced denomination
	meets := false
	for _, f := range c.Fee {
		for _, p := range c.MinPrices {
			if p[0] != f[0] {
				continue
			}
			gp, _ := new(big.Int).SetString(p[1], 10)
			x := new(big.Int).Mul(gp, new(big.Int).SetUint64(c.Gas))
			q, m := new(big.Int).QuoRem(x, big.NewInt(1e18), new(big.Int))
			if m.Sign() > 0 {
				q.Add(q, big.NewInt(1))
			}
			a, _ := new(big.Int).SetString(f[1], 10)
			if q.Sign() > 0 && a.Cmp(q) >= 0 {
				meets = true
			}
		}
	}
	switch c.Verdict {
	case "Admit":
		if !meets && !(allEx && within) {
			return "admitted below the minimum price without a genuine bypass"
		}
	case "Reject":
		if meets {
			return "rejected although the fee meets the minimum price"
		}
		if allEx && c.Gas <= wrapProd {
			return "rejected although every message is exempt and gas is within the allowance"
		}
	case "Panic":
		return "fee checker panicked on a gas limit below 2^63"
	}
	return ""
}

func coqCase(c caseT) string {
	ex := make([]int64, len(c.Exempt))
	for i, v := range c.Exempt {
		ex[i] = int64(v)
	}
	ms := make([]int64, len(c.Msgs))
	for i, v := range c.Msgs {
		ms[i] = int64(v)
	}
	pairs := func(ps [][2]string) string {
		s := make([]string, len(ps))
		for i, p := range ps {
			s[i] = lib.Pair(p[0], p[1])
		}
		return lib.List(s)
	}
	sort.Slice(c.Fee, func(i, j int) bool { return c.Fee[i][0] < c.Fee[j][0] })
	return fmt.Sprintf("mk_fee_case %s %s %s %s %s %s %s %s",
		lib.ZList(ex), lib.ZU(c.Allowance), lib.ZList(ms), lib.ZU(c.Gas), pairs(c.Fee),
		lib.Bool(c.IsCheck), pairs(c.MinPrices), c.Verdict)
}
