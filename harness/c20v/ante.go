package main

// ante.go: stage (iv) — hostile transactions through the REAL CheckTx and FinalizeBlock (tx decoder,
// baseapp.runTx: ValidateBasic of every message, the fx-core ante handler chain, message handlers).
// baseapp.runTx and the fx ante handler recover panics and turn them into code 111222/"undefined"
// (errors.ErrPanic): such a response is a monitor failure with recovery label recovered-by-baseapp /
// recovered-by-ante; a panic escaping CheckTx/FinalizeBlock is labelled unrecovered.

import (
	"fmt"
	"math/big"
	"regexp"
	"strings"

	abci "github.com/cometbft/cometbft/abci/types"
	tmproto "github.com/cometbft/cometbft/proto/tendermint/types"
	codectypes "github.com/cosmos/cosmos-sdk/codec/types"
	cryptocodec "github.com/cosmos/cosmos-sdk/crypto/codec"
	kmultisig "github.com/cosmos/cosmos-sdk/crypto/keys/multisig"
	cryptotypes "github.com/cosmos/cosmos-sdk/crypto/types"
	sdk "github.com/cosmos/cosmos-sdk/types"
	txtypes "github.com/cosmos/cosmos-sdk/types/tx"
	"github.com/cosmos/cosmos-sdk/types/tx/signing"
	authante "github.com/cosmos/cosmos-sdk/x/auth/ante"
	banktypes "github.com/cosmos/cosmos-sdk/x/bank/types"
	"github.com/cosmos/gogoproto/proto"
	ethtypes "github.com/ethereum/go-ethereum/core/types"
	ethermintevm "github.com/evmos/ethermint/x/evm/types"

	"fxverif/lib"
)

const panicCode = 111222 // cosmossdk.io/errors.ErrPanic, codespace "undefined"

type acct struct {
	key    lib.Key
	num    uint64
	seq    uint64 // committed sequence
	chkSeq uint64 // sequence in the CheckTx state
}

type anteEnv struct {
	accts []*acct
	multi *kmultisig.LegacyAminoPubKey
	mnum  uint64
	mseq  uint64
}

func (h *harness) refreshAccounts(e *anteEnv) {
	for _, a := range e.accts {
		acc := h.c.App.AccountKeeper.GetAccount(h.c.Ctx, a.key.Acc())
		if acc != nil {
			a.num, a.seq = acc.GetAccountNumber(), acc.GetSequence()
			a.chkSeq = a.seq
		}
	}
	if acc := h.c.App.AccountKeeper.GetAccount(h.c.Ctx, sdk.AccAddress(e.multi.Address())); acc != nil {
		e.mnum, e.mseq = acc.GetAccountNumber(), acc.GetSequence()
	}
}

// rawTx assembles and signs (SIGN_MODE_DIRECT) a TxRaw from already encoded message Anys.
type txSpec struct {
	Msgs    []*codectypes.Any
	Signer  *acct
	Seq     uint64
	Gas     uint64
	Fee     sdk.Coins
	ExtOpts []*codectypes.Any
	NonCrit []*codectypes.Any
	Memo    string
}

func (h *harness) rawTx(s txSpec) []byte {
	body := &txtypes.TxBody{Messages: s.Msgs, Memo: s.Memo, ExtensionOptions: s.ExtOpts, NonCriticalExtensionOptions: s.NonCrit}
	bodyBz, err := proto.Marshal(body)
	lib.Must(err)
	pkAny, err := codectypes.NewAnyWithValue(s.Signer.key.Priv.PubKey())
	lib.Must(err)
	ai := &txtypes.AuthInfo{
		SignerInfos: []*txtypes.SignerInfo{{PublicKey: pkAny, ModeInfo: &txtypes.ModeInfo{Sum: &txtypes.ModeInfo_Single_{Single: &txtypes.ModeInfo_Single{Mode: signing.SignMode_SIGN_MODE_DIRECT}}}, Sequence: s.Seq}},
		Fee:         &txtypes.Fee{Amount: s.Fee, GasLimit: s.Gas},
	}
	aiBz, err := proto.Marshal(ai)
	lib.Must(err)
	return h.signRaw(bodyBz, aiBz, s.Signer)
}

func (h *harness) signRaw(bodyBz, aiBz []byte, signer *acct) []byte {
	doc := &txtypes.SignDoc{BodyBytes: bodyBz, AuthInfoBytes: aiBz, ChainId: h.c.Ctx.ChainID(), AccountNumber: signer.num}
	docBz, err := proto.Marshal(doc)
	lib.Must(err)
	sig, err := signer.key.Priv.Sign(docBz)
	lib.Must(err)
	raw := &txtypes.TxRaw{BodyBytes: bodyBz, AuthInfoBytes: aiBz, Signatures: [][]byte{sig}}
	bz, err := proto.Marshal(raw)
	lib.Must(err)
	return bz
}

// resign: after surgery on body/auth-info keep the signature valid when possible (so later decorators are reached too)
func (h *harness) resign(txBz []byte, signer *acct) []byte {
	var raw txtypes.TxRaw
	if err := proto.Unmarshal(txBz, &raw); err != nil || len(raw.Signatures) == 0 {
		return txBz
	}
	doc := &txtypes.SignDoc{BodyBytes: raw.BodyBytes, AuthInfoBytes: raw.AuthInfoBytes, ChainId: h.c.Ctx.ChainID(), AccountNumber: signer.num}
	docBz, _ := proto.Marshal(doc)
	sig, err := signer.key.Priv.Sign(docBz)
	if err != nil {
		return txBz
	}
	raw.Signatures[0] = sig
	bz, _ := proto.Marshal(&raw)
	return bz
}

var numRe = regexp.MustCompile(`\d+`)

func normPanic(s string) string {
	s = strings.TrimSuffix(strings.TrimSpace(s), ": panic")
	s = numRe.ReplaceAllString(s, "N")
	return short(s, 70)
}

// attributeAntePanic re-runs the decorator chain (assembled from the source order, antechain.go) under the harness'
// recover on the CheckTx context to obtain the stack of a panic the real handler has swallowed.
func (h *harness) attributeAntePanic(txBz []byte) string {
	tx, err := h.c.App.GetTxConfig().TxDecoder()(txBz)
	if err != nil {
		return ""
	}
	ctx, _ := h.c.App.GetContextForCheckTx(txBz).CacheContext()
	if hasExt, ok := tx.(authante.HasExtensionOptionsTx); ok && len(hasExt.GetExtensionOptions()) > 0 {
		if hasExt.GetExtensionOptions()[0].GetTypeUrl() != "/ethermint.evm.v1.ExtensionOptionsEthereumTx" {
			return ""
		}
		if o := guard(func() error { return h.ethChainRun(ctx, tx) }); o.Class == "panic" {
			return o.Site
		}
		return ""
	}
	if o := guard(func() error { _, err := h.cosmosChain()(ctx, tx, false); return err }); o.Class == "panic" {
		return o.Site
	}
	return ""
}

// classify one ABCI tx response
func (h *harness) txResult(route string, txBz []byte, code uint32, codespace, log, how string) string {
	cls := "accepted"
	if code != 0 {
		cls = fmt.Sprintf("rejected:%s/%d", codespace, code)
	}
	if code == panicCode && codespace == "undefined" {
		cls = "PANIC-recovered"
		o := outcome{Class: "panic", Msg: normPanic(strings.SplitN(log, "\n", 2)[0])}
		recovery := "recovered-by-ante"
		stage := "ante"
		if strings.HasPrefix(log, "recovered:") {
			recovery = "recovered-by-baseapp"
			o.Site, o.Top = panicSite(strings.SplitN(log, "stack:\n", 2)[len(strings.SplitN(log, "stack:\n", 2))-1])
			switch {
			case strings.Contains(log, "MsgServiceRouter"):
				stage = "handler"
			case strings.Contains(log, "validateBasicTxMsgs"):
				stage = "validate"
			default:
				stage = "runtx"
			}
			o.Msg = normPanic(strings.TrimPrefix(strings.SplitN(log, "\n", 2)[0], "recovered: "))
		} else {
			o.Site = h.attributeAntePanic(txBz)
			if o.Site == "" {
				o.Site = "dep:unattributed(" + o.Msg + ")"
			}
		}
		h.fail(stage, recovery, o, "transaction makes the node panic in "+route,
			map[string]interface{}{"stage": "ante", "route": route, "tx_bytes_hex": fmt.Sprintf("%x", txBz), "how": how, "panic": o.Msg, "log_head": short(log, 300)})
	}
	h.rep.Count("tx:" + route + ":" + strings.SplitN(cls, ":", 2)[0])
	return cls
}

func (h *harness) checkTx(e *anteEnv, txBz []byte, how string) string {
	var res *abci.ResponseCheckTx
	o := guard(func() error {
		var err error
		res, err = h.c.App.CheckTx(&abci.RequestCheckTx{Tx: txBz, Type: abci.CheckTxType_New})
		return err
	})
	if o.Class == "panic" {
		h.fail("checktx", "unrecovered", o, "panic escapes CheckTx",
			map[string]interface{}{"stage": "ante", "route": "CheckTx", "tx_bytes_hex": fmt.Sprintf("%x", txBz), "how": how, "panic": o.Msg, "top_frame": o.Top})
		h.rep.Case("tx|CheckTx|UNRECOVERED|"+o.Site, true)
		return "PANIC-unrecovered"
	}
	if o.Class == "err" || res == nil {
		h.rep.Case("tx|CheckTx|abci-error", false)
		return "abci-error"
	}
	cls := h.txResult("CheckTx", txBz, res.Code, res.Codespace, res.Log, how)
	h.rep.Case(fmt.Sprintf("tx|CheckTx|%s|%s", cls, strings.SplitN(how, " ", 2)[0]), res.Codespace != "sdk" || res.Code != 2) // non-trivial: decoded
	return cls
}

// deliver runs a block containing txs through the real FinalizeBlock + Commit.
func (h *harness) deliver(txs [][]byte, hows []string) []string {
	c := h.c
	out := make([]string, len(txs))
	var commit abci.CommitInfo
	commit.Round = 1
	for _, val := range c.ValSet.Validators {
		pk, err := cryptocodec.FromCmtPubKeyInterface(val.PubKey)
		lib.Must(err)
		commit.Votes = append(commit.Votes, abci.VoteInfo{Validator: abci.Validator{Address: pk.Address(), Power: val.VotingPower}, BlockIdFlag: tmproto.BlockIDFlagCommit})
	}
	proposer := c.ValSet.Proposer.Address.Bytes()
	height := c.Height + 1
	if c.Height == 0 {
		height = 1
	}
	c.Time = c.Time.Add(lib.BlockStep)
	var res *abci.ResponseFinalizeBlock
	o := guard(func() error {
		var err error
		res, err = c.App.FinalizeBlock(&abci.RequestFinalizeBlock{Height: height, Time: c.Time, ProposerAddress: proposer, DecidedLastCommit: commit, Txs: txs})
		return err
	})
	if o.Class != "ok" {
		if o.Class == "panic" {
			h.fail("finalizeblock", "unrecovered", o, "panic escapes FinalizeBlock",
				map[string]interface{}{"stage": "ante", "route": "FinalizeBlock", "txs_hex": hexAll(txs), "hows": hows, "panic": o.Msg, "top_frame": o.Top})
		} else {
			h.rep.Fail(lib.Failure{Kind: "harness", What: "FinalizeBlock refused the block: " + o.Msg, Sig: "harness"})
		}
		for i := range out {
			out[i] = "block-failed"
		}
		return out
	}
	for i, r := range res.TxResults {
		out[i] = h.txResult("FinalizeBlock", txs[i], r.Code, r.Codespace, r.Log, hows[i])
		h.rep.Case(fmt.Sprintf("tx|FinalizeBlock|%s|%s", out[i], strings.SplitN(hows[i], " ", 2)[0]), true)
	}
	_, err := c.App.Commit()
	lib.Must(err)
	c.Height = height
	_, err = c.App.ProcessProposal(&abci.RequestProcessProposal{Height: height + 1, Time: c.Time.Add(lib.BlockStep), ProposerAddress: proposer, ProposedLastCommit: commit})
	lib.Must(err)
	c.Ctx = c.App.GetContextForFinalizeBlock(nil).WithProposer(proposer)
	return out
}

func hexAll(txs [][]byte) []string {
	out := make([]string, len(txs))
	for i, t := range txs {
		out[i] = fmt.Sprintf("%x", t)
	}
	return out
}

func (h *harness) anyOf(m proto.Message) *codectypes.Any {
	bz, ok := marshalGuard(m)
	if !ok {
		return &codectypes.Any{TypeUrl: "/" + proto.MessageName(m)}
	}
	return &codectypes.Any{TypeUrl: "/" + proto.MessageName(m), Value: bz}
}

// newAnteEnv funds the harness accounts (and a 2-of-3 multisig account over three of them) and commits a block.
func (h *harness) newAnteEnv() *anteEnv {
	e := &anteEnv{}
	for _, k := range h.p.keys {
		h.c.Mint(k.Acc(), lib.FX(1_000_000))
		e.accts = append(e.accts, &acct{key: k})
	}
	e.multi = kmultisig.NewLegacyAminoPubKey(2, []cryptotypes.PubKey{h.p.keys[0].Priv.PubKey(), h.p.keys[2].Priv.PubKey(), h.p.keys[4].Priv.PubKey()})
	h.c.Mint(sdk.AccAddress(e.multi.Address()), lib.FX(1_000_000))
	lib.Must(h.c.NextBlock())
	h.refreshAccounts(e)
	return e
}

func (h *harness) stageAnte() {
	e := h.newAnteEnv()
	fee := sdk.NewCoins(lib.FX(10))
	a0 := e.accts[0]
	send := func(a *acct) *codectypes.Any {
		return h.anyOf(&banktypes.MsgSend{FromAddress: a.key.Acc().String(), ToAddress: h.p.accOK[1], Amount: sdk.NewCoins(lib.FX(1))})
	}

	// ---- A. CheckTx: generic one-field surgery over complete signed transactions ----
	var seeds []struct {
		bz  []byte
		who *acct
		tag string
	}
	seeds = append(seeds, struct {
		bz  []byte
		who *acct
		tag string
	}{h.rawTx(txSpec{Msgs: []*codectypes.Any{send(a0)}, Signer: a0, Seq: a0.chkSeq, Gas: 300000, Fee: fee, Memo: "m"}), a0, "MsgSend"})
	for _, url := range []string{"/fx.gravity.crosschain.v1.MsgSendToExternal", "/fx.gravity.crosschain.v1.MsgBridgeCall", "/fx.gravity.crosschain.v1.MsgUpdateParams", "/fx.gravity.crosschain.v1.MsgConfirm", "/fx.gravity.crosschain.v1.MsgClaim", "/fx.erc20.v1.MsgConvertCoin", "/fx.migrate.v1.MsgMigrateAccount"} {
		m := h.explicitBase(url)
		seeds = append(seeds, struct {
			bz  []byte
			who *acct
			tag string
		}{h.rawTx(txSpec{Msgs: []*codectypes.Any{h.anyOf(m)}, Signer: a0, Seq: a0.chkSeq, Gas: 500000, Fee: fee}), a0, url[strings.LastIndex(url, ".")+1:]})
	}
	// a well-formed ethereum transaction (extension option route)
	if ethBz := h.ethTxBytes(e.accts[1]); ethBz != nil {
		seeds = append(seeds, struct {
			bz  []byte
			who *acct
			tag string
		}{ethBz, e.accts[1], "MsgEthereumTx"})
	}
	for _, sd := range seeds {
		// the unmodified seed is not submitted here (it would advance the CheckTx sequence); its mutants are
		for _, path := range wirePaths(sd.bz, 5) {
			for _, op := range []string{"drop", "empty", "dup"} {
				bz, ok := applyWire(sd.bz, wireOp{Path: path, Op: op})
				if !ok {
					continue
				}
				how := fmt.Sprintf("%s field %v of a signed %s tx", op, path, sd.tag)
				h.checkTx(e, bz, how)
				if path[0].Num != 3 { // not the signatures: also try with a fresh valid signature over the damaged body/auth-info
					h.checkTx(e, h.resign(bz, sd.who), how+" (re-signed)")
				}
			}
		}
		for i := 0; i < 30*h.scale; i++ {
			bz := append([]byte{}, sd.bz...)
			switch h.r.Intn(3) {
			case 0:
				bz[h.r.Intn(len(bz))] ^= byte(1 << uint(h.r.Intn(8)))
			case 1:
				bz = bz[:h.r.Intn(len(bz))]
			default:
				j := h.r.Intn(len(bz))
				bz = append(append(append([]byte{}, bz[:j]...), randBytes(h.r, 1+h.r.Intn(6))...), bz[j:]...)
			}
			h.checkTx(e, bz, "byte damage of a signed "+sd.tag+" tx")
		}
	}
	for i := 0; i < 60*h.scale; i++ {
		h.checkTx(e, randBytes(h.r, h.r.Intn(300)), "random bytes")
	}

	// ---- B. CheckTx: targeted structures ----
	h.targetedTxs(e, fee, send)

	// ---- C. FinalizeBlock: every message type, valid instance and one-field damaged instances, signed by its signer ----
	h.deliverStage(e, fee)
}

func (h *harness) ethTxBytes(a *acct) []byte {
	var out []byte
	o := guard(func() error {
		chainID := h.c.App.EvmKeeper.ChainID()
		to := lib.CrosschainPrecompile
		nonce := h.c.App.EvmKeeper.GetNonce(h.c.Ctx, a.key.Hex())
		tx := ethermintevm.NewTx(chainID, nonce, &to, big.NewInt(0), 200000, big.NewInt(600_000_000_000), nil, nil, []byte{1, 2, 3, 4, 5}, nil)
		tx.From = a.key.Hex().Bytes()
		if err := tx.Sign(ethtypes.LatestSignerForChainID(chainID), ethSigner{a.key}); err != nil {
			return err
		}
		built, err := tx.BuildTx(h.c.App.GetTxConfig().NewTxBuilder(), "FX")
		if err != nil {
			return err
		}
		out, err = h.c.App.GetTxConfig().TxEncoder()(built)
		return err
	})
	if o.Class != "ok" {
		h.rep.Count("harness:eth-seed-tx-unavailable")
		return nil
	}
	return out
}

func (h *harness) targetedTxs(e *anteEnv, fee sdk.Coins, send func(*acct) *codectypes.Any) {
	a0 := e.accts[0]
	single := func(mode signing.SignMode) *txtypes.ModeInfo {
		return &txtypes.ModeInfo{Sum: &txtypes.ModeInfo_Single_{Single: &txtypes.ModeInfo_Single{Mode: mode}}}
	}
	pk := func(k cryptotypes.PubKey) *codectypes.Any { a, _ := codectypes.NewAnyWithValue(k); return a }
	body, _ := proto.Marshal(&txtypes.TxBody{Messages: []*codectypes.Any{send(a0)}})
	submit := func(how string, ai *txtypes.AuthInfo, nsig int, signer *acct) {
		aiBz, err := proto.Marshal(ai)
		if err != nil {
			return
		}
		bz := h.signRaw(body, aiBz, signer)
		var raw txtypes.TxRaw
		_ = proto.Unmarshal(bz, &raw)
		for len(raw.Signatures) < nsig {
			raw.Signatures = append(raw.Signatures, raw.Signatures[0])
		}
		raw.Signatures = raw.Signatures[:nsig]
		bz, _ = proto.Marshal(&raw)
		h.checkTx(e, bz, how)
	}
	f := &txtypes.Fee{Amount: fee, GasLimit: 300000}
	si := func(k cryptotypes.PubKey, mi *txtypes.ModeInfo, seq uint64) *txtypes.SignerInfo {
		s := &txtypes.SignerInfo{ModeInfo: mi, Sequence: seq}
		if k != nil {
			s.PublicKey = pk(k)
		}
		return s
	}
	k0 := a0.key.Priv.PubKey()
	// signer-info / signature count mismatches
	submit("2 signer infos, 1 signature, 1 signer", &txtypes.AuthInfo{SignerInfos: []*txtypes.SignerInfo{si(k0, single(1), a0.chkSeq), si(k0, single(1), a0.chkSeq)}, Fee: f}, 1, a0)
	submit("2 signer infos (second without key), 1 signature", &txtypes.AuthInfo{SignerInfos: []*txtypes.SignerInfo{si(k0, single(1), a0.chkSeq), si(nil, single(1), 0)}, Fee: f}, 1, a0)
	submit("0 signer infos, 1 signature", &txtypes.AuthInfo{Fee: f}, 1, a0)
	submit("1 signer info, 2 signatures", &txtypes.AuthInfo{SignerInfos: []*txtypes.SignerInfo{si(k0, single(1), a0.chkSeq)}, Fee: f}, 2, a0)
	submit("1 signer info, 0 signatures", &txtypes.AuthInfo{SignerInfos: []*txtypes.SignerInfo{si(k0, single(1), a0.chkSeq)}, Fee: f}, 0, a0)
	submit("signer info without mode info", &txtypes.AuthInfo{SignerInfos: []*txtypes.SignerInfo{si(k0, nil, a0.chkSeq)}, Fee: f}, 1, a0)
	submit("empty mode info", &txtypes.AuthInfo{SignerInfos: []*txtypes.SignerInfo{si(k0, &txtypes.ModeInfo{}, a0.chkSeq)}, Fee: f}, 1, a0)
	submit("unknown sign mode", &txtypes.AuthInfo{SignerInfos: []*txtypes.SignerInfo{si(k0, single(77), a0.chkSeq)}, Fee: f}, 1, a0)
	submit("no fee", &txtypes.AuthInfo{SignerInfos: []*txtypes.SignerInfo{si(k0, single(1), a0.chkSeq)}}, 1, a0)
	submit("gas 0", &txtypes.AuthInfo{SignerInfos: []*txtypes.SignerInfo{si(k0, single(1), a0.chkSeq)}, Fee: &txtypes.Fee{Amount: fee}}, 1, a0)
	submit("gas max", &txtypes.AuthInfo{SignerInfos: []*txtypes.SignerInfo{si(k0, single(1), a0.chkSeq)}, Fee: &txtypes.Fee{Amount: fee, GasLimit: ^uint64(0)}}, 1, a0)
	submit("garbage payer/granter", &txtypes.AuthInfo{SignerInfos: []*txtypes.SignerInfo{si(k0, single(1), a0.chkSeq)}, Fee: &txtypes.Fee{Amount: fee, GasLimit: 300000, Payer: "zz", Granter: "\x00"}}, 1, a0)
	submit("tip with garbage tipper", &txtypes.AuthInfo{SignerInfos: []*txtypes.SignerInfo{si(k0, single(1), a0.chkSeq)}, Fee: f, Tip: &txtypes.Tip{Amount: fee, Tipper: "x"}}, 1, a0)
	// multisig mode info against a single key, and against the funded multisig account, with hostile bit arrays
	multiBody, _ := proto.Marshal(&txtypes.TxBody{Messages: []*codectypes.Any{h.anyOf(&banktypes.MsgSend{FromAddress: sdk.AccAddress(e.multi.Address()).String(), ToAddress: h.p.accOK[1], Amount: sdk.NewCoins(lib.FX(1))})}})
	for _, nbits := range []uint32{0, 1, 2, 3, 4, 8, 9, 64} {
		for _, nmodes := range []int{0, 1, 2, 3, 5} {
			for _, nsigs := range []int{0, 1, 2, 3, 5} {
				elems := make([]byte, (nbits+7)/8)
				for i := range elems {
					elems[i] = 0xff
				}
				mis := make([]*txtypes.ModeInfo, nmodes)
				for i := range mis {
					mis[i] = single(signing.SignMode_SIGN_MODE_LEGACY_AMINO_JSON)
				}
				mi := &txtypes.ModeInfo{Sum: &txtypes.ModeInfo_Multi_{Multi: &txtypes.ModeInfo_Multi{Bitarray: &cryptotypes.CompactBitArray{ExtraBitsStored: nbits % 8, Elems: elems}, ModeInfos: mis}}}
				ms := &cryptotypes.MultiSignature{}
				for i := 0; i < nsigs; i++ {
					ms.Signatures = append(ms.Signatures, randBytes(h.r, 64))
				}
				msBz, _ := proto.Marshal(ms)
				for _, onMulti := range []bool{true, false} {
					var ai *txtypes.AuthInfo
					b := body
					if onMulti {
						ai = &txtypes.AuthInfo{SignerInfos: []*txtypes.SignerInfo{si(e.multi, mi, e.mseq)}, Fee: f}
						b = multiBody
					} else {
						ai = &txtypes.AuthInfo{SignerInfos: []*txtypes.SignerInfo{si(k0, mi, a0.chkSeq)}, Fee: f}
					}
					aiBz, _ := proto.Marshal(ai)
					raw := &txtypes.TxRaw{BodyBytes: b, AuthInfoBytes: aiBz, Signatures: [][]byte{msBz}}
					bz, _ := proto.Marshal(raw)
					h.checkTx(e, bz, fmt.Sprintf("multisig mode info bits=%d modes=%d sigs=%d onMultisigAccount=%v", nbits, nmodes, nsigs, onMulti))
				}
			}
		}
	}
	// extension options
	ethExt := &codectypes.Any{TypeUrl: "/ethermint.evm.v1.ExtensionOptionsEthereumTx"}
	for _, ext := range [][]*codectypes.Any{{ethExt}, {{TypeUrl: "/ethermint.types.v1.ExtensionOptionsWeb3Tx"}}, {{TypeUrl: "/nonexistent.Ext"}}, {ethExt, ethExt}} {
		for _, msgs := range [][]*codectypes.Any{{send(a0)}, {}, {{TypeUrl: "/ethermint.evm.v1.MsgEthereumTx"}}, {{TypeUrl: "/ethermint.evm.v1.MsgEthereumTx", Value: randBytes(h.r, 20)}},
			{h.anyOf(&ethermintevm.MsgEthereumTx{From: randBytes(h.r, 20)})}, {h.anyOf(&ethermintevm.MsgEthereumTx{From: randBytes(h.r, 3)})}, {h.anyOf(h.ethTxSample(h.r)), send(a0)}} {
			h.checkTx(e, h.rawTx(txSpec{Msgs: msgs, Signer: a0, Seq: a0.chkSeq, Gas: 300000, Fee: fee, ExtOpts: ext}), fmt.Sprintf("extension option %s with %d msgs", ext[0].TypeUrl, len(msgs)))
			h.checkTx(e, h.rawTx(txSpec{Msgs: msgs, Signer: a0, Seq: a0.chkSeq, Gas: 300000, Fee: fee, NonCrit: ext}), fmt.Sprintf("non-critical extension option %s with %d msgs", ext[0].TypeUrl, len(msgs)))
		}
	}
	// MsgEthereumTx without the extension option, empty message list, unknown message type, huge memo
	h.checkTx(e, h.rawTx(txSpec{Msgs: []*codectypes.Any{h.anyOf(h.ethTxSample(h.r))}, Signer: a0, Seq: a0.chkSeq, Gas: 300000, Fee: fee}), "MsgEthereumTx without extension option")
	h.checkTx(e, h.rawTx(txSpec{Msgs: nil, Signer: a0, Seq: a0.chkSeq, Gas: 300000, Fee: fee}), "no messages")
	h.checkTx(e, h.rawTx(txSpec{Msgs: []*codectypes.Any{{TypeUrl: "/fx.unknown.Msg"}}, Signer: a0, Seq: a0.chkSeq, Gas: 300000, Fee: fee}), "unknown message type")
	h.checkTx(e, h.rawTx(txSpec{Msgs: []*codectypes.Any{send(a0)}, Signer: a0, Seq: a0.chkSeq, Gas: 300000, Fee: fee, Memo: strings.Repeat("m", 100_000)}), "huge memo")
}

// deliverStage: blocks of signed transactions, one per harness account, carrying each registered message type:
// the explicit valid instance and one-field damaged encodings of it. Exercises ValidateBasic inside runTx and the handlers.
func (h *harness) deliverStage(e *anteEnv, fee sdk.Coins) {
	type item struct {
		any *codectypes.Any
		how string
	}
	var items []item
	for _, mt := range fxMsgTypes(h.reg) {
		if _, err := h.reg.Resolve(mt.URL); err != nil {
			continue
		}
		base := h.explicitBase(mt.URL)
		if base == nil {
			continue
		}
		if _, isMsg := base.(sdk.Msg); !isMsg {
			continue
		}
		if h.c.App.MsgServiceRouter().Handler(base.(sdk.Msg)) == nil {
			continue
		}
		tname := mt.URL[strings.LastIndex(mt.URL, ".")+1:]
		for _, chain := range []string{"eth", "tron"} {
			b := h.explicitBaseOn(mt.URL, chain)
			bz, ok := marshalGuard(b)
			if !ok {
				continue
			}
			items = append(items, item{&codectypes.Any{TypeUrl: mt.URL, Value: bz}, "valid " + tname + " on " + chain})
			if chain == "tron" && !strings.Contains(mt.URL, "crosschain") {
				break
			}
			paths := wirePaths(bz, 3)
			for _, path := range paths {
				ops := []string{"drop", "empty"}
				for _, op := range ops {
					if m, ok := applyWire(bz, wireOp{Path: path, Op: op}); ok {
						items = append(items, item{&codectypes.Any{TypeUrl: mt.URL, Value: m}, fmt.Sprintf("%s field %v of %s on %s", op, path, tname, chain)})
					}
				}
				// a text that is neither hex, nor an address, nor a number: reaches the Must* conversions of a handler
				// whenever ValidateBasic forgot to look at the field
				if chain == "eth" {
					if m, ok := applyWire(bz, wireOp{Path: path, Op: "set", Set: []byte("zz")}); ok {
						items = append(items, item{&codectypes.Any{TypeUrl: mt.URL, Value: m}, fmt.Sprintf("set field %v of %s to \"zz\"", path, tname)})
					}
				}
			}
		}
	}
	h.rep.Count(fmt.Sprintf("deliver items=%d", len(items)))
	// every item is signed by the account that the message names as its signer, if the harness owns it, else by account 0
	for i := 0; i < len(items); {
		var txs [][]byte
		var hows []string
		used := map[int]bool{}
		for ; i < len(items) && len(txs) < len(e.accts); i++ {
			it := items[i]
			who := 0
			if m, o := decodeMsg(h.reg, it.any.TypeUrl, it.any.Value); o.Class == "ok" {
				if sm, ok := m.(sdk.Msg); ok {
					if k, ok := h.signerOf(sm); ok {
						for j, a := range e.accts {
							if string(a.key.Acc()) == string(k.Acc()) {
								who = j
							}
						}
					}
				}
			}
			if used[who] {
				// pick any unused account: the tx fails signature/signer checks but still passes the earlier stages
				found := false
				for j := range e.accts {
					if !used[j] {
						who, found = j, true
						break
					}
				}
				if !found {
					break
				}
			}
			used[who] = true
			a := e.accts[who]
			txs = append(txs, h.rawTx(txSpec{Msgs: []*codectypes.Any{it.any}, Signer: a, Seq: a.seq, Gas: 2_000_000, Fee: fee}))
			hows = append(hows, it.how)
		}
		if len(txs) == 0 {
			break
		}
		h.deliver(txs, hows)
		h.refreshAccounts(e)
	}
}
