package main

// antechain.go: the order of the ante decorators is READ from ante/handler_options.go of the tree under check
// (go/ast, the same extraction harness/gen_c20 writes into Gen_MsgFields.v as gen_ante_decorators /
// gen_eth_ante_steps) and a recover-free copy of the chain is assembled from a constructor registry keyed by the
// source expression. It is used for one purpose: to obtain the stack of a panic that the REAL handler has already
// reported (code 111222, swallowed by ante.NewAnteHandler's Recover) so that the failing decorator can be named.
// A reordering or removal in the source is followed automatically; a decorator the registry does not know is skipped
// and counted (attribution then falls back to "unattributed(<message>)").

import (
	"go/ast"
	"go/parser"
	"go/printer"
	"go/token"
	"math/big"
	"os"
	"path/filepath"
	"strings"

	sdk "github.com/cosmos/cosmos-sdk/types"
	authante "github.com/cosmos/cosmos-sdk/x/auth/ante"
	ibcante "github.com/cosmos/ibc-go/v8/modules/core/ante"
	ethtypes "github.com/ethereum/go-ethereum/core/types"
	ethante "github.com/evmos/ethermint/app/ante"

	fxante "github.com/functionx/fx-core/v8/ante"
)

type anteSource struct {
	Cosmos []string // decorator expressions of newCosmosAnteHandler, in order
	Eth    []string // ethante.* calls of newEthAnteHandler's closure, in order, then its trailing decorators
	ok     bool
}

func exprText(fset *token.FileSet, e ast.Expr) string {
	var b strings.Builder
	_ = printer.Fprint(&b, fset, e)
	return strings.Join(strings.Fields(b.String()), " ")
}

func readAnteSource() anteSource {
	repo := os.Getenv("VERIF_REPO")
	if repo == "" {
		repo = "/repo"
	}
	var out anteSource
	fset := token.NewFileSet()
	f, err := parser.ParseFile(fset, filepath.Join(repo, "ante", "handler_options.go"), nil, 0)
	if err != nil {
		return out
	}
	for _, d := range f.Decls {
		fd, ok := d.(*ast.FuncDecl)
		if !ok || fd.Body == nil {
			continue
		}
		switch fd.Name.Name {
		case "newCosmosAnteHandler":
			ast.Inspect(fd.Body, func(n ast.Node) bool {
				call, ok := n.(*ast.CallExpr)
				if !ok {
					return true
				}
				if sel, ok := call.Fun.(*ast.SelectorExpr); ok && sel.Sel.Name == "ChainAnteDecorators" {
					for _, a := range call.Args {
						switch a := a.(type) {
						case *ast.CallExpr:
							out.Cosmos = append(out.Cosmos, exprText(fset, a.Fun))
						case *ast.CompositeLit:
							out.Cosmos = append(out.Cosmos, exprText(fset, a.Type))
						default:
							out.Cosmos = append(out.Cosmos, exprText(fset, a))
						}
					}
					return false
				}
				return true
			})
		case "newEthAnteHandler":
			var trailing []string
			ast.Inspect(fd.Body, func(n ast.Node) bool {
				switch x := n.(type) {
				case *ast.CompositeLit: // decorators := []sdk.AnteDecorator{...}
					if strings.Contains(exprText(fset, x.Type), "AnteDecorator") {
						for _, el := range x.Elts {
							if c, ok := el.(*ast.CallExpr); ok {
								trailing = append(trailing, exprText(fset, c.Fun))
							}
						}
						return false
					}
				case *ast.CallExpr:
					if sel, ok := x.Fun.(*ast.SelectorExpr); ok {
						if id, ok := sel.X.(*ast.Ident); ok && id.Name == "ethante" && sel.Sel.Name != "NewCachedAccountGetter" {
							out.Eth = append(out.Eth, "ethante."+sel.Sel.Name)
						}
					}
				}
				return true
			})
			out.Eth = append(out.Eth, trailing...)
		}
	}
	out.ok = len(out.Cosmos) > 0
	return out
}

// cosmosChain assembles the decorators named in the source, in source order.
func (h *harness) cosmosChain() sdk.AnteHandler {
	app := h.c.App
	ctors := map[string]func() sdk.AnteDecorator{
		"ethante.RejectMessagesDecorator":      func() sdk.AnteDecorator { return ethante.RejectMessagesDecorator{} },
		"NewDisableMsgDecorator":               func() sdk.AnteDecorator { return fxante.NewDisableMsgDecorator(nil, app.GovKeeper) },
		"ante.NewSetUpContextDecorator":        func() sdk.AnteDecorator { return authante.NewSetUpContextDecorator() },
		"NewRejectExtensionOptionsDecorator":   func() sdk.AnteDecorator { return fxante.NewRejectExtensionOptionsDecorator() },
		"ante.NewValidateBasicDecorator":       func() sdk.AnteDecorator { return authante.NewValidateBasicDecorator() },
		"ante.NewTxTimeoutHeightDecorator":     func() sdk.AnteDecorator { return authante.NewTxTimeoutHeightDecorator() },
		"ante.NewValidateMemoDecorator":        func() sdk.AnteDecorator { return authante.NewValidateMemoDecorator(app.AccountKeeper) },
		"ante.NewConsumeGasForTxSizeDecorator": func() sdk.AnteDecorator { return authante.NewConsumeGasForTxSizeDecorator(app.AccountKeeper) },
		"ante.NewDeductFeeDecorator": func() sdk.AnteDecorator {
			return authante.NewDeductFeeDecorator(app.AccountKeeper, app.BankKeeper, app.FeeGrantKeeper, nil)
		},
		"NewPubKeyDecorator":                func() sdk.AnteDecorator { return fxante.NewPubKeyDecorator(app.AccountKeeper) },
		"ante.NewSetPubKeyDecorator":        func() sdk.AnteDecorator { return authante.NewSetPubKeyDecorator(app.AccountKeeper) },
		"ante.NewValidateSigCountDecorator": func() sdk.AnteDecorator { return authante.NewValidateSigCountDecorator(app.AccountKeeper) },
		"ante.NewSigGasConsumeDecorator": func() sdk.AnteDecorator {
			return authante.NewSigGasConsumeDecorator(app.AccountKeeper, fxante.DefaultSigVerificationGasConsumer)
		},
		"ante.NewSigVerificationDecorator": func() sdk.AnteDecorator {
			return authante.NewSigVerificationDecorator(app.AccountKeeper, app.GetTxConfig().SignModeHandler())
		},
		"ante.NewIncrementSequenceDecorator": func() sdk.AnteDecorator { return authante.NewIncrementSequenceDecorator(app.AccountKeeper) },
		"ibcante.NewRedundantRelayDecorator": func() sdk.AnteDecorator { return ibcante.NewRedundantRelayDecorator(app.IBCKeeper) },
	}
	var ds []sdk.AnteDecorator
	for _, name := range h.anteSrc.Cosmos {
		if mk, ok := ctors[name]; ok {
			ds = append(ds, mk())
		} else {
			h.rep.Count("ante-chain:decorator-unknown-to-the-harness:" + name)
		}
	}
	return sdk.ChainAnteDecorators(ds...)
}

// ethChainRun runs the steps of newEthAnteHandler named in the source, in source order, without its recover.
func (h *harness) ethChainRun(ctx sdk.Context, tx sdk.Tx) error {
	app := h.c.App
	blockCfg, err := app.EvmKeeper.EVMBlockConfig(ctx, app.EvmKeeper.ChainID())
	if err != nil {
		return err
	}
	evmParams := &blockCfg.Params
	baseFee := blockCfg.BaseFee
	var getter ethante.AccountGetter
	next := func(ctx sdk.Context, _ sdk.Tx, _ bool) (sdk.Context, error) { return ctx, nil }
	steps := map[string]func() error{
		"ethante.SetupEthContext":    func() error { c2, err := ethante.SetupEthContext(ctx); ctx = c2; return err },
		"ethante.CheckEthMempoolFee": func() error { return ethante.CheckEthMempoolFee(ctx, tx, false, baseFee, evmParams.EvmDenom) },
		"ethante.CheckEthMinGasPrice": func() error {
			return ethante.CheckEthMinGasPrice(tx, blockCfg.FeeMarketParams.MinGasPrice, baseFee)
		},
		"ethante.ValidateEthBasic": func() error { return ethante.ValidateEthBasic(ctx, tx, evmParams, baseFee) },
		"ethante.VerifyEthSig": func() error {
			return ethante.VerifyEthSig(tx, ethtypes.MakeSigner(blockCfg.ChainConfig, blockCfg.BlockNumber))
		},
		"ethante.VerifyEthAccount": func() error {
			return ethante.VerifyEthAccount(ctx, tx, app.EvmKeeper, evmParams.EvmDenom, getter)
		},
		"ethante.CheckEthCanTransfer": func() error {
			return ethante.CheckEthCanTransfer(ctx, tx, baseFee, blockCfg.Rules, app.EvmKeeper, evmParams)
		},
		"ethante.CheckEthGasConsume": func() error {
			c2, err := ethante.CheckEthGasConsume(ctx, tx, blockCfg.Rules, app.EvmKeeper, baseFee, 0, evmParams.EvmDenom)
			if err == nil {
				ctx = c2
			}
			return err
		},
		"ethante.CheckAndSetEthSenderNonce": func() error {
			return ethante.CheckAndSetEthSenderNonce(ctx, tx, app.AccountKeeper, false, getter)
		},
		"NewEthPubKeyDecorator": func() error {
			_, err := fxante.NewEthPubKeyDecorator(app.AccountKeeper).AnteHandle(ctx, tx, false, next)
			return err
		},
		"newTxListenerDecorator": func() error { return nil },
	}
	getter = ethante.NewCachedAccountGetter(ctx, app.AccountKeeper)
	for _, name := range h.anteSrc.Eth {
		if f, ok := steps[name]; ok {
			if err := f(); err != nil {
				return err
			}
		} else {
			h.rep.Count("ante-chain:eth-step-unknown-to-the-harness:" + name)
		}
	}
	return nil
}

var _ = big.NewInt
