package main

// bases.go: one explicitly VALID instance per message type (ValidateBasic accepts it on the unchanged tree).
// They seed the one-field sweeps (a nil-method call hidden behind earlier checks is only reached when the
// earlier checks pass), the transactions of the ante stage, and the concretisers of the model cases.

import (
	"encoding/hex"
	"time"

	sdkmath "cosmossdk.io/math"
	codectypes "github.com/cosmos/cosmos-sdk/codec/types"
	sdk "github.com/cosmos/cosmos-sdk/types"
	"github.com/cosmos/gogoproto/proto"
	"github.com/ethereum/go-ethereum/common"
	"github.com/ethereum/go-ethereum/crypto"
	ethermintevm "github.com/evmos/ethermint/x/evm/types"
	feemarkettypes "github.com/evmos/ethermint/x/feemarket/types"

	fxtypes "github.com/functionx/fx-core/v8/types"
	crosschaintypes "github.com/functionx/fx-core/v8/x/crosschain/types"
	erc20types "github.com/functionx/fx-core/v8/x/erc20/types"
	fxevmtypes "github.com/functionx/fx-core/v8/x/evm/types"
	fxgovtypes "github.com/functionx/fx-core/v8/x/gov/types"
	migratetypes "github.com/functionx/fx-core/v8/x/migrate/types"

	"fxverif/lib"
)

func fxCoin(n int64) sdk.Coin { return sdk.NewCoin(fxtypes.DefaultDenom, sdkmath.NewInt(n)) }

func mustAny(m proto.Message) *codectypes.Any {
	a, err := codectypes.NewAnyWithValue(m)
	lib.Must(err)
	return a
}

func (h *harness) migrateSig(from lib.Key, to lib.Key) string {
	hash := migratetypes.MigrateAccountSignatureHash(from.Acc(), to.Hex().Bytes())
	ek, err := crypto.ToECDSA(to.Priv.Bytes())
	lib.Must(err)
	sig, err := crypto.Sign(hash, ek)
	lib.Must(err)
	return hex.EncodeToString(sig)
}

func (h *harness) sendToFxClaim(chain string, ext func(int) string) *crosschaintypes.MsgSendToFxClaim {
	return &crosschaintypes.MsgSendToFxClaim{EventNonce: 1, BlockHeight: 10, TokenContract: ext(2), Amount: sdkmath.NewInt(5), Sender: ext(3),
		Receiver: h.p.accOK[1], TargetIbc: "", BridgerAddress: h.p.accOK[0], ChainName: chain}
}

// explicitBase returns a valid instance of the given type (chain "eth"), or nil if there is none (the filler is used then).
func (h *harness) explicitBase(url string) proto.Message { return h.explicitBaseOn(url, "eth") }

func (h *harness) explicitBaseOn(url, chain string) proto.Message {
	p := h.p
	acc := func(i int) string { return p.accOK[i%len(p.accOK)] }
	ext := func(i int) string {
		if chain == "tron" {
			return p.tronOK[i%len(p.tronOK)]
		}
		return p.ethOK[i%len(p.ethOK)]
	}
	eth := func(i int) string { return p.ethOK[i%len(p.ethOK)] }
	val := func(i int) string { return p.valOK[i%len(p.valOK)] }
	sig := "aabbccdd"
	const X = "/fx.gravity.crosschain.v1."
	switch url {
	case X + "MsgBondedOracle":
		return &crosschaintypes.MsgBondedOracle{ChainName: chain, OracleAddress: acc(0), BridgerAddress: acc(1), ExternalAddress: ext(0), ValidatorAddress: val(0), DelegateAmount: fxCoin(1000)}
	case X + "MsgAddDelegate":
		return &crosschaintypes.MsgAddDelegate{ChainName: chain, OracleAddress: acc(0), Amount: fxCoin(5)}
	case X + "MsgReDelegate":
		return &crosschaintypes.MsgReDelegate{ChainName: chain, OracleAddress: acc(0), ValidatorAddress: val(1)}
	case X + "MsgEditBridger":
		return &crosschaintypes.MsgEditBridger{ChainName: chain, OracleAddress: acc(0), BridgerAddress: val(1)}
	case X + "MsgWithdrawReward":
		return &crosschaintypes.MsgWithdrawReward{ChainName: chain, OracleAddress: acc(0)}
	case X + "MsgUnbondedOracle":
		return &crosschaintypes.MsgUnbondedOracle{ChainName: chain, OracleAddress: acc(0)}
	case X + "MsgOracleSetConfirm":
		return &crosschaintypes.MsgOracleSetConfirm{Nonce: 1, BridgerAddress: acc(0), ExternalAddress: ext(0), Signature: sig, ChainName: chain}
	case X + "MsgConfirmBatch":
		return &crosschaintypes.MsgConfirmBatch{Nonce: 1, TokenContract: ext(2), BridgerAddress: acc(0), ExternalAddress: ext(0), Signature: sig, ChainName: chain}
	case X + "MsgBridgeCallConfirm":
		return &crosschaintypes.MsgBridgeCallConfirm{ChainName: chain, BridgerAddress: acc(0), ExternalAddress: ext(0), Nonce: 1, Signature: sig}
	case X + "MsgSendToExternal":
		return &crosschaintypes.MsgSendToExternal{Sender: acc(0), Dest: ext(1), Amount: fxCoin(10), BridgeFee: fxCoin(1), ChainName: chain}
	case X + "MsgCancelSendToExternal":
		return &crosschaintypes.MsgCancelSendToExternal{TransactionId: 1, Sender: acc(0), ChainName: chain}
	case X + "MsgIncreaseBridgeFee":
		return &crosschaintypes.MsgIncreaseBridgeFee{ChainName: chain, TransactionId: 1, Sender: acc(0), AddBridgeFee: fxCoin(1)}
	case X + "MsgRequestBatch":
		return &crosschaintypes.MsgRequestBatch{Sender: acc(0), Denom: "FX", MinimumFee: sdkmath.NewInt(1), FeeReceive: ext(1), ChainName: chain, BaseFee: sdkmath.NewInt(0)}
	case X + "MsgBridgeCall":
		return &crosschaintypes.MsgBridgeCall{ChainName: chain, Sender: acc(0), Refund: acc(0), Coins: sdk.NewCoins(fxCoin(3)), To: ext(1), Data: "00", Value: sdkmath.ZeroInt(), Memo: "01"}
	case X + "MsgUpdateParams":
		return &crosschaintypes.MsgUpdateParams{ChainName: chain, Authority: acc(0), Params: crosschaintypes.DefaultParams()}
	case X + "MsgUpdateChainOracles":
		return &crosschaintypes.MsgUpdateChainOracles{ChainName: chain, Authority: acc(0), Oracles: []string{acc(1), acc(2)}}
	case X + "MsgSetOrchestratorAddress":
		return &crosschaintypes.MsgSetOrchestratorAddress{OracleAddress: acc(0), BridgerAddress: acc(1), ExternalAddress: ext(0), Deposit: fxCoin(1), ChainName: chain}
	case X + "MsgAddOracleDeposit":
		return &crosschaintypes.MsgAddOracleDeposit{OracleAddress: acc(0), Amount: fxCoin(1), ChainName: chain}
	case X + "MsgSendToFxClaim":
		return h.sendToFxClaim(chain, ext)
	case X + "MsgBridgeCallClaim":
		return &crosschaintypes.MsgBridgeCallClaim{ChainName: chain, BridgerAddress: acc(0), EventNonce: 1, BlockHeight: 10, Sender: ext(3), Refund: ext(3), TokenContracts: []string{ext(2), ext(4)},
			Amounts: []sdkmath.Int{sdkmath.NewInt(1), sdkmath.NewInt(2)}, To: ext(5), Data: "00", Value: sdkmath.ZeroInt(), Memo: "", TxOrigin: ext(3)}
	case X + "MsgBridgeCallResultClaim":
		return &crosschaintypes.MsgBridgeCallResultClaim{ChainName: chain, BridgerAddress: acc(0), EventNonce: 1, BlockHeight: 10, Nonce: 1, TxOrigin: ext(3), Success: true, Cause: ""}
	case X + "MsgSendToExternalClaim":
		return &crosschaintypes.MsgSendToExternalClaim{EventNonce: 1, BlockHeight: 10, BatchNonce: 1, TokenContract: ext(2), BridgerAddress: acc(0), ChainName: chain}
	case X + "MsgBridgeTokenClaim":
		return &crosschaintypes.MsgBridgeTokenClaim{EventNonce: 1, BlockHeight: 10, TokenContract: ext(2), Name: "Tether", Symbol: "USDT", Decimals: 6, BridgerAddress: acc(0), ChannelIbc: "", ChainName: chain}
	case X + "MsgOracleSetUpdatedClaim":
		return &crosschaintypes.MsgOracleSetUpdatedClaim{EventNonce: 1, BlockHeight: 10, OracleSetNonce: 1, Members: []crosschaintypes.BridgeValidator{{Power: 10, ExternalAddress: ext(0)}, {Power: 5, ExternalAddress: ext(1)}}, BridgerAddress: acc(0), ChainName: chain}
	case X + "MsgClaim":
		return &crosschaintypes.MsgClaim{ChainName: chain, BridgerAddress: acc(0), Claim: mustAny(h.sendToFxClaim(chain, ext))}
	case X + "MsgConfirm":
		return &crosschaintypes.MsgConfirm{ChainName: chain, BridgerAddress: acc(0), Confirm: mustAny(&crosschaintypes.MsgOracleSetConfirm{Nonce: 1, BridgerAddress: acc(0), ExternalAddress: ext(0), Signature: sig, ChainName: chain})}
	case "/fx.erc20.v1.MsgConvertCoin":
		return &erc20types.MsgConvertCoin{Coin: fxCoin(1), Receiver: eth(1), Sender: acc(0)}
	case "/fx.erc20.v1.MsgConvertERC20":
		return &erc20types.MsgConvertERC20{ContractAddress: eth(2), Amount: sdkmath.NewInt(1), Receiver: acc(0), Sender: eth(1)}
	case "/fx.erc20.v1.MsgConvertDenom":
		return &erc20types.MsgConvertDenom{Sender: acc(0), Receiver: acc(1), Coin: fxCoin(1), Target: "eth"}
	case "/fx.erc20.v1.MsgUpdateParams":
		return &erc20types.MsgUpdateParams{Authority: acc(0), Params: erc20types.Params{EnableErc20: true, EnableEVMHook: true, IbcTimeout: 12 * time.Hour}}
	case "/fx.erc20.v1.MsgRegisterCoin":
		return &erc20types.MsgRegisterCoin{Authority: acc(0), Metadata: fxtypes.GetCrossChainMetadataManyToOne("Tether USD", "USDT", 6, "eth0x0000000000000000000000000000000000000001")}
	case "/fx.erc20.v1.MsgRegisterERC20":
		return &erc20types.MsgRegisterERC20{Authority: acc(0), Erc20Address: eth(2), Aliases: []string{"usdc", "eth0x0000000000000000000000000000000000000002"}}
	case "/fx.erc20.v1.MsgToggleTokenConversion":
		return &erc20types.MsgToggleTokenConversion{Authority: acc(0), Token: eth(2)}
	case "/fx.erc20.v1.MsgUpdateDenomAlias":
		return &erc20types.MsgUpdateDenomAlias{Authority: acc(0), Denom: "usdt", Alias: "eth0x0000000000000000000000000000000000000001"}
	case "/fx.evm.v1.MsgCallContract":
		return &fxevmtypes.MsgCallContract{Authority: acc(0), ContractAddress: eth(2), Data: "00"}
	case "/fx.gov.v1.MsgUpdateStore":
		return &fxgovtypes.MsgUpdateStore{Authority: acc(0), UpdateStores: []fxgovtypes.UpdateStore{{Space: "bank", Key: "01", OldValue: "", Value: "02"}}}
	case "/fx.gov.v1.MsgUpdateSwitchParams":
		return &fxgovtypes.MsgUpdateSwitchParams{Authority: acc(0), Params: fxgovtypes.SwitchParams{DisablePrecompiles: []string{"0x1004"}, DisableMsgTypes: []string{"/fx.erc20.v1.MsgConvertCoin"}}}
	case "/fx.gov.v1.MsgUpdateCustomParams":
		vp := time.Hour
		return &fxgovtypes.MsgUpdateCustomParams{Authority: acc(0), MsgUrl: "/fx.erc20.v1.MsgRegisterCoin", CustomParams: fxgovtypes.CustomParams{DepositRatio: "0.1", VotingPeriod: &vp, Quorum: "0.25"}}
	case X + "UpdateChainOraclesProposal":
		return &crosschaintypes.UpdateChainOraclesProposal{Title: "t", Description: "d", ChainName: chain, Oracles: []string{acc(1), acc(2)}}
	case X + "InitCrossChainParamsProposal":
		p := crosschaintypes.DefaultParams()
		return &crosschaintypes.InitCrossChainParamsProposal{Title: "t", Description: "d", ChainName: chain, Params: &p}
	case "/fx.erc20.v1.RegisterCoinProposal":
		return &erc20types.RegisterCoinProposal{Title: "t", Description: "d", Metadata: fxtypes.GetCrossChainMetadataManyToOne("Tether USD", "USDT", 6, "eth0x0000000000000000000000000000000000000001")}
	case "/fx.erc20.v1.RegisterERC20Proposal":
		return &erc20types.RegisterERC20Proposal{Title: "t", Description: "d", Erc20Address: eth(2), Aliases: []string{"usdc"}}
	case "/fx.erc20.v1.ToggleTokenConversionProposal":
		return &erc20types.ToggleTokenConversionProposal{Title: "t", Description: "d", Token: eth(2)}
	case "/fx.erc20.v1.UpdateDenomAliasProposal":
		return &erc20types.UpdateDenomAliasProposal{Title: "t", Description: "d", Denom: "usdt", Alias: "eth0x0000000000000000000000000000000000000001"}
	case "/fx.migrate.v1.MsgMigrateAccount":
		from, to := p.keys[0], p.keys[1]
		return &migratetypes.MsgMigrateAccount{From: from.Acc().String(), To: to.Hex().Hex(), Signature: h.migrateSig(from, to)}
	case "/ethermint.evm.v1.MsgEthereumTx":
		return h.ethTxSample(h.r)
	case "/ethermint.evm.v1.MsgUpdateParams":
		return &ethermintevm.MsgUpdateParams{Authority: acc(0), Params: ethermintevm.DefaultParams()}
	case "/ethermint.feemarket.v1.MsgUpdateParams":
		return &feemarkettypes.MsgUpdateParams{Authority: acc(0), Params: feemarkettypes.DefaultParams()}
	}
	return nil
}

var _ = common.Address{}
