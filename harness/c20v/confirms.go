package main

// confirms.go: stage (viii) — STATEFUL confirm deliveries on every crosschain module (tron and the seven eth-like chains).
// For each chain the state a confirm needs is built on the real keeper: bonded oracles with registered bridger and
// external address, a stored oracle set, a stored outgoing batch and a stored outgoing bridge call. Then
// MsgOracleSetConfirm / MsgConfirmBatch / MsgBridgeCallConfirm from a registered bridger, referring to the EXISTING object,
// are decoded from the wire, validated and executed through the real router handler with the signature swept over every
// byte length 0..70 (+128, 1000) and several recovery-byte variants — the path
//   ValidateBasic -> ConfirmHandler -> checkpoint -> ValidateConfirmSign -> Validate{Tron,Ethereum}Signature
// reads fixed offsets of the attacker's signature. A correctly signed confirm per object shows the path is open.

import (
	"crypto/ecdsa"
	"encoding/hex"
	"fmt"
	"strings"

	sdkmath "cosmossdk.io/math"
	sdk "github.com/cosmos/cosmos-sdk/types"
	"github.com/cosmos/gogoproto/proto"
	"github.com/ethereum/go-ethereum/crypto"

	crosschaintypes "github.com/functionx/fx-core/v8/x/crosschain/types"
	trontypes "github.com/functionx/fx-core/v8/x/tron/types"

	"fxverif/lib"
)

func (h *harness) stageConfirms() {
	for _, chain := range crosschaintypes.GetSupportChains() {
		if h.w == nil || h.w.chains[chain] == nil {
			h.rep.Count("confirms:no-world:" + chain)
			continue
		}
		x := h.w.chains[chain].x
		ctx := h.c.Ctx
		k := x.Keeper
		var members crosschaintypes.BridgeValidators
		for _, o := range x.Oracles {
			members = append(members, crosschaintypes.BridgeValidator{Power: 1000, ExternalAddress: o.ExtAddr})
		}
		tok := lib.ExternalContract(h.seed, chain, 77)
		user := lib.ExternalAccount(h.seed, chain, 78)
		const objNonce = 900001 // far from the nonces the populated state uses
		setup := guard(func() error {
			k.StoreOracleSet(ctx, crosschaintypes.NewOracleSet(objNonce, uint64(ctx.BlockHeight()), members))
			if err := k.StoreBatch(ctx, &crosschaintypes.OutgoingTxBatch{BatchNonce: objNonce, BatchTimeout: 1 << 40, TokenContract: tok, Block: uint64(ctx.BlockHeight()), FeeReceive: user}); err != nil {
				return err
			}
			k.SetOutgoingBridgeCall(ctx, &crosschaintypes.OutgoingBridgeCall{Nonce: objNonce, Timeout: 1 << 40, BlockHeight: uint64(ctx.BlockHeight()), Sender: user, Refund: user, To: tok,
				Tokens: []crosschaintypes.ERC20Token{{Contract: tok, Amount: sdkmath.NewInt(1)}}, Data: "00", Memo: "", EventNonce: 0})
			return nil
		})
		if setup.Class != "ok" {
			h.rep.Count("confirms:object-setup-failed:" + chain)
			h.rep.Notes = append(h.rep.Notes, "confirm stage: storing oracle set / batch / bridge call failed on "+chain+": "+setup.Msg)
			continue
		}
		gravityID := k.GetGravityID(ctx)
		or := x.Oracles[0]
		mk := func(kind int, sig string) proto.Message {
			switch kind {
			case 0:
				return &crosschaintypes.MsgOracleSetConfirm{Nonce: objNonce, BridgerAddress: or.Bridger.Acc().String(), ExternalAddress: or.ExtAddr, Signature: sig, ChainName: chain}
			case 1:
				return &crosschaintypes.MsgConfirmBatch{Nonce: objNonce, TokenContract: tok, BridgerAddress: or.Bridger.Acc().String(), ExternalAddress: or.ExtAddr, Signature: sig, ChainName: chain}
			default:
				return &crosschaintypes.MsgBridgeCallConfirm{Nonce: objNonce, BridgerAddress: or.Bridger.Acc().String(), ExternalAddress: or.ExtAddr, Signature: sig, ChainName: chain}
			}
		}
		names := []string{"MsgOracleSetConfirm", "MsgConfirmBatch", "MsgBridgeCallConfirm"}
		for kind := 0; kind < 3; kind++ {
			url := "/fx.gravity.crosschain.v1." + names[kind]
			reached := 0
			for _, n := range sigLengths() {
				for variant := 0; variant < 5; variant++ {
					sig := hex.EncodeToString(h.sigBytes(n, variant))
					bz, ok := marshalGuard(mk(kind, sig))
					if !ok {
						continue
					}
					res := h.runHandlerRes(url, bz, fmt.Sprintf("%s on %s from a registered bridger for an existing object, %d-byte signature (variant %d)", names[kind], chain, n, variant))
					if strings.HasPrefix(res, "err:") && strings.Contains(res, "signature") {
						reached++
					}
				}
			}
			h.rep.Count(fmt.Sprintf("confirms:%s:%s:reached-signature-check=%d", chain, names[kind], reached))
			if reached == 0 {
				h.rep.Notes = append(h.rep.Notes, fmt.Sprintf("confirm stage: no %s on %s reached the signature check (state setup no longer matches the handler)", names[kind], chain))
			}
			// a correctly signed confirm for the same object: accepted
			if cp := h.confirmCheckpoint(chain, kind, x, gravityID, tok); cp != nil {
				if sig, err := signCheckpoint(chain, cp, or.External); err == nil {
					bz, _ := marshalGuard(mk(kind, hex.EncodeToString(sig)))
					res := h.runHandlerRes(url, bz, fmt.Sprintf("correctly signed %s on %s", names[kind], chain))
					h.rep.Count("confirms:valid-signature:" + short(res, 40))
				}
			}
		}
	}
}

func (h *harness) confirmCheckpoint(chain string, kind int, x *lib.XChain, gravityID, tok string) []byte {
	ctx := h.c.Ctx
	var cp []byte
	o := guard(func() error {
		var err error
		switch kind {
		case 0:
			os := x.Keeper.GetOracleSet(ctx, 900001)
			if chain == trontypes.ModuleName {
				cp, err = trontypes.GetCheckpointOracleSet(os, gravityID)
			} else {
				cp, err = os.GetCheckpoint(gravityID)
			}
		case 1:
			b := x.Keeper.GetOutgoingTxBatch(ctx, tok, 900001)
			if chain == trontypes.ModuleName {
				cp, err = trontypes.GetCheckpointConfirmBatch(b, gravityID)
			} else {
				cp, err = b.GetCheckpoint(gravityID)
			}
		default:
			bc, found := x.Keeper.GetOutgoingBridgeCallByNonce(ctx, 900001)
			if !found {
				return fmt.Errorf("not found")
			}
			if chain == trontypes.ModuleName {
				cp, err = trontypes.GetCheckpointBridgeCall(bc, gravityID)
			} else {
				cp, err = bc.GetCheckpoint(gravityID)
			}
		}
		return err
	})
	if o.Class != "ok" {
		h.rep.Count("confirms:checkpoint-unavailable:" + chain)
		return nil
	}
	return cp
}

func signCheckpoint(chain string, cp []byte, key *ecdsa.PrivateKey) ([]byte, error) {
	if chain == trontypes.ModuleName {
		return trontypes.NewTronSignature(cp, key)
	}
	return crosschaintypes.NewEthereumSignature(cp, key)
}

var _ = crypto.Keccak256
var _ sdk.Msg
