package main

import (
	"fmt"
	"os"
)

func (h *harness) debugBases() {
	if os.Getenv("C20V_DEBUG") == "" {
		return
	}
	for _, mt := range fxMsgTypes(h.reg) {
		b := h.explicitBase(mt.URL)
		if b == nil {
			fmt.Println("NO BASE", mt.URL)
			continue
		}
		bz, ok := marshalGuard(b)
		if !ok {
			fmt.Println("MARSHAL FAIL", mt.URL)
			continue
		}
		m, o := decodeMsg(h.reg, mt.URL, bz)
		if o.Class != "ok" {
			fmt.Println("DECODE", mt.URL, o)
			continue
		}
		for ep, o := range h.evalMsg(m) {
			if o.Class != "ok" {
				fmt.Printf("%-55s %-18s %s %s\n", mt.URL, ep, o.Class, short(o.Msg, 120))
			}
		}
	}
}
