package main

// handlers.go: stage (vii) — every routed message type through its REAL handler (the function the message
// service router dispatches to — also what a governance proposal executes), on every ValidateBasic-ACCEPTED
// representative of hostile field classes. This is where a Must*/…ToBytes/NewCoin conversion that relies on a
// validation the validator does not (or no longer does) perform shows up as a panic: the two sites each look fine alone.
//
// For each type: the explicit valid instance (chains eth and tron for crosschain messages), with the `Authority`
// field — if there is one — set to the real governance authority so that the handler body runs (a transaction
// cannot be signed by the module account; the router handler is invoked directly on a cache context, exactly as
// gov's proposal execution does). Then every (nested) length-delimited leaf field is overwritten on the wire with each
// class representative below; whatever still decodes and passes ValidateBasic is executed.

import (
	"fmt"
	"reflect"
	"strings"

	codectypes "github.com/cosmos/cosmos-sdk/codec/types"
	sdk "github.com/cosmos/cosmos-sdk/types"
	govv1 "github.com/cosmos/cosmos-sdk/x/gov/types/v1"
	govv1beta1 "github.com/cosmos/cosmos-sdk/x/gov/types/v1beta1"
	"github.com/cosmos/gogoproto/proto"
	"google.golang.org/protobuf/encoding/protowire"

	crosschaintypes "github.com/functionx/fx-core/v8/x/crosschain/types"

	"fxverif/lib"
)

// text classes: odd/even length hex in both cases, hex with 0x, non-hex, separators, blanks, numbers of every sign, long
var hostileTexts = []string{"", "0", "abc", "ABC", "0102030", "00", "0x00", "0x0", "-", "zz", " ", "00 ", "-1", "1", "0.5",
	"115792089237316195423570985008687907853269984665640564039457584007913129639936", "eth", "tron", "bank", "FX", "/", "ibc/0/px",
	// boundary integers as decimal text (sdkmath.Int / Coin amounts travel as strings)
	"9223372036854775807", "9223372036854775808", "18446744073709551615", "18446744073709551616",
	"57896044618658097711785492504343953926634992332820282019728792003956564819968",
	"115792089237316195423570985008687907853269984665640564039457584007913129639935"}

// boundary values for varint fields (uint64 ids, nonces, heights, powers)
var hostileVarints = []uint64{0, 1, 2, 1<<31 - 1, 1 << 31, 1<<32 - 1, 1 << 32, 1<<63 - 1, 1 << 63, ^uint64(0)}

// sweep: every single-field mutation of an encoded instance, handed to f
func (h *harness) sweep(bz []byte, depth int, f func(mbz []byte, how string)) {
	paths := wirePaths(bz, depth)
	for _, path := range paths {
		for _, txt := range hostileTexts {
			if mbz, ok := applyWire(bz, wireOp{Path: path, Op: "set", Set: []byte(txt)}); ok {
				f(mbz, fmt.Sprintf("field %v set to %q", path, short(txt, 24)))
			}
		}
		for _, v := range hostileVarints {
			if mbz, ok := applyWire(bz, wireOp{Path: path, Op: "setvarint", Varint: v}); ok {
				f(mbz, fmt.Sprintf("varint field %v set to %d", path, v))
			}
		}
		for _, op := range []string{"drop", "empty", "dup"} {
			if mbz, ok := applyWire(bz, wireOp{Path: path, Op: op}); ok {
				f(mbz, fmt.Sprintf("%s field %v", op, path))
			}
		}
	}
	// absent varint fields (proto3 omits zero): add with each boundary value
	fs, ok := parseWire(bz)
	if ok {
		present := map[int]bool{}
		maxNum := 0
		for _, fl := range fs {
			present[int(fl.Num)] = true
			if int(fl.Num) > maxNum {
				maxNum = int(fl.Num)
			}
		}
		for num := 1; num <= maxNum+2 && num <= 16; num++ {
			if present[num] {
				continue
			}
			for _, v := range []uint64{1, 1 << 63, ^uint64(0)} {
				raw := protowire.AppendTag(append([]byte{}, bz...), protowire.Number(num), protowire.VarintType)
				raw = protowire.AppendVarint(raw, v)
				f(raw, fmt.Sprintf("absent field %d added as varint %d", num, v))
			}
		}
	}
}

func setAuthority(m proto.Message, authority string) {
	v := reflect.ValueOf(m).Elem()
	if f := v.FieldByName("Authority"); f.IsValid() && f.Kind() == reflect.String {
		f.SetString(authority)
	}
}

func (h *harness) runHandler(url string, bz []byte, how string) { h.runHandlerRes(url, bz, how) }

// runHandlerRes: decode, ValidateBasic, real handler on a cache context; returns "decode-err" | "vb:<error>" | "ok" | "err:<error>" | "panic"
func (h *harness) runHandlerRes(url string, bz []byte, how string) (res string) {
	m, o := decodeMsg(h.reg, url, bz)
	if o.Class != "ok" {
		h.rep.Count("handler:decode-" + o.Class)
		return "decode-err"
	}
	sm, ok := m.(sdk.Msg)
	if !ok {
		return "not-a-msg"
	}
	tname := url[strings.LastIndex(url, ".")+1:]
	if vb, ok := m.(sdk.HasValidateBasic); ok {
		ov := guard(vb.ValidateBasic)
		if ov.Class == "panic" {
			h.fail("validate", "recovered-by-baseapp", ov, tname+".ValidateBasic panics on "+how,
				map[string]interface{}{"stage": "handlers", "type_url": url, "msg_bytes_hex": fmt.Sprintf("%x", bz), "how": how, "panic": ov.Msg})
			return "panic"
		}
		if ov.Class != "ok" {
			h.rep.Count("handler:rejected-by-ValidateBasic")
			h.rep.Case(fmt.Sprintf("handlers|%s|vb-err|%s", tname, short(strings.SplitN(ov.Msg, ":", 2)[0], 30)), false)
			return "vb:" + ov.Msg
		}
	}
	handler := h.c.App.MsgServiceRouter().Handler(sm)
	if handler == nil {
		return "no-handler"
	}
	ctx, _ := h.c.Ctx.CacheContext()
	oh := guard(func() error { _, err := handler(ctx, sm); return err })
	h.rep.Count("handler:executed:" + oh.Class)
	h.rep.Case(fmt.Sprintf("handlers|%s|%s|%s|%s", tname, oh.Class, short(strings.SplitN(oh.Msg, ":", 2)[0], 30), oh.Site), true)
	if oh.Class == "panic" {
		h.fail("handler", "recovered-by-baseapp", oh, tname+" passes ValidateBasic and its handler panics on "+how,
			map[string]interface{}{"stage": "handlers", "type_url": url, "msg_bytes_hex": fmt.Sprintf("%x", bz), "how": how, "panic": oh.Msg, "top_frame": oh.Top,
				"note": "executed through MsgServiceRouter().Handler on a cache context (what runTx and gov proposal execution call)"})
		return "panic"
	}
	if oh.Class == "err" {
		return "err:" + oh.Msg
	}
	return "ok"
}

func (h *harness) stageHandlers() {
	gov := lib.GovAuthority()
	for _, k := range h.p.keys {
		h.c.Mint(k.Acc(), lib.FX(1_000))
	}
	n := 0
	for _, mt := range fxMsgTypes(h.reg) {
		if !strings.HasPrefix(mt.URL, "/fx.") {
			// ethermint's handlers are dependency code; MsgEthereumTx in particular is only ever executed behind the
			// ethereum ante route (which derives From from the signature) and cannot be part of a proposal
			continue
		}
		base := h.explicitBase(mt.URL)
		if base == nil {
			continue
		}
		sm, isMsg := base.(sdk.Msg)
		if !isMsg || h.c.App.MsgServiceRouter().Handler(sm) == nil {
			continue
		}
		chains := []string{"eth"}
		if strings.Contains(mt.URL, "crosschain") {
			chains = append(chains, "tron")
		}
		for _, chain := range chains {
			for _, auth := range []string{gov, ""} {
				b := h.explicitBaseOn(mt.URL, chain)
				if auth != "" {
					if v := reflect.ValueOf(b).Elem().FieldByName("Authority"); !v.IsValid() {
						continue // no authority field: the own-address variant below is the only one
					}
					setAuthority(b, auth)
				}
				bz, ok := marshalGuard(b)
				if !ok {
					continue
				}
				who := "own address"
				if auth != "" {
					who = "gov authority"
				}
				h.runHandler(mt.URL, bz, "valid instance ("+who+", "+chain+")")
				n++
				// fields that are absent from the encoding (proto3 omits empty strings): add them with each class, at the
				// root and inside every nested message
				for _, parent := range append([][]wstep{nil}, messagePaths(bz, 2)...) {
					present := map[int]bool{}
					sub := bz
					okp := true
					for _, st := range parent {
						fs, ok := parseWire(sub)
						if !ok {
							okp = false
							break
						}
						occ, found := 0, false
						for _, f := range fs {
							if int(f.Num) == st.Num {
								if occ == st.Occ {
									sub, found = f.Val, true
									break
								}
								occ++
							}
						}
						if !found {
							okp = false
							break
						}
					}
					if !okp {
						continue
					}
					fs, _ := parseWire(sub)
					maxNum := 0
					for _, f := range fs {
						present[int(f.Num)] = true
						if int(f.Num) > maxNum {
							maxNum = int(f.Num)
						}
					}
					for num := 1; num <= maxNum+3 && num <= 16; num++ {
						if present[num] {
							continue
						}
						for _, txt := range hostileTexts[1:] {
							path := append(append([]wstep{}, parent...), wstep{num, 0})
							if mbz, ok := applyWire(bz, wireOp{Path: path, Op: "add", Set: []byte(txt)}); ok {
								h.runHandler(mt.URL, mbz, fmt.Sprintf("absent field %v added as %q (%s, %s)", path, txt, who, chain))
								n++
							}
						}
					}
				}
				for _, path := range wirePaths(bz, 3) {
					for _, txt := range hostileTexts {
						if mbz, ok := applyWire(bz, wireOp{Path: path, Op: "set", Set: []byte(txt)}); ok {
							h.runHandler(mt.URL, mbz, fmt.Sprintf("field %v set to %q (%s, %s)", path, txt, who, chain))
							n++
						}
					}
					for _, op := range []string{"drop", "empty", "dup"} {
						if mbz, ok := applyWire(bz, wireOp{Path: path, Op: op}); ok {
							h.runHandler(mt.URL, mbz, fmt.Sprintf("%s field %v (%s, %s)", op, path, who, chain))
							n++
						}
					}
				}
			}
		}
	}
	// legacy gov Content types: wrapped into the SDK's v1beta1 MsgSubmitProposal (any funded account may send one);
	// its handler calls content.ValidateBasic() and then looks for a route
	for _, curl := range h.reg.ListImplementations("cosmos.gov.v1beta1.Content") {
		if !strings.HasPrefix(curl, "/fx.") {
			continue
		}
		for _, chain := range []string{"eth", "tron"} {
			b := h.explicitBaseOn(curl, chain)
			if b == nil {
				continue
			}
			cbz, ok := marshalGuard(b)
			if !ok {
				continue
			}
			wrap := func(content []byte, how string) {
				m := &govv1beta1.MsgSubmitProposal{Content: &codectypes.Any{TypeUrl: curl, Value: content}, InitialDeposit: sdk.NewCoins(lib.FX(1)), Proposer: h.p.accOK[0]}
				bz, ok := marshalGuard(m)
				if !ok {
					return
				}
				h.runHandler("/cosmos.gov.v1beta1.MsgSubmitProposal", bz, how+" inside MsgSubmitProposal")
				n++
			}
			tname := curl[strings.LastIndex(curl, ".")+1:]
			wrap(cbz, "valid "+tname+" ("+chain+")")
			for _, path := range wirePaths(cbz, 3) {
				for _, txt := range hostileTexts {
					if mbz, ok := applyWire(cbz, wireOp{Path: path, Op: "set", Set: []byte(txt)}); ok {
						wrap(mbz, fmt.Sprintf("%s field %v set to %q", tname, path, txt))
					}
				}
				for _, op := range []string{"drop", "empty", "dup"} {
					if mbz, ok := applyWire(cbz, wireOp{Path: path, Op: op}); ok {
						wrap(mbz, fmt.Sprintf("%s %s field %v", tname, op, path))
					}
				}
			}
			if !strings.Contains(curl, "crosschain") {
				break
			}
		}
	}
	// ---- instances that are valid against the populated state (world.go): the handlers get past their look-ups ----
	budget := 0
	for _, it := range h.statefulBases() {
		bz, ok := marshalGuard(it.msg)
		if !ok {
			continue
		}
		res := h.runHandlerRes(it.url, bz, "state-valid instance ("+it.how+")")
		h.rep.Count("handler:state-valid:" + strings.SplitN(res, ":", 2)[0])
		n++
		// quick tier: the full sweep on eth and tron, a thinned sweep on the other chains (same code, other router entry)
		thin := h.scale <= 3 && !(strings.HasSuffix(it.how, " on eth") || strings.HasSuffix(it.how, " on tron") || !strings.Contains(it.how, " on "))
		h.sweep(bz, 3, func(mbz []byte, how string) {
			budget++
			if thin && budget%6 != 0 {
				return
			}
			h.runHandler(it.url, mbz, how+" of a state-valid "+it.url[strings.LastIndex(it.url, ".")+1:]+" ("+it.how+")")
			n++
		})
		// governance route: the same message as the content of a v1 proposal (fx gov keeper's submit path)
		if v := reflect.ValueOf(it.msg).Elem().FieldByName("Authority"); v.IsValid() {
			if sm, ok := it.msg.(sdk.Msg); ok {
				if m, err := govv1.NewMsgSubmitProposal([]sdk.Msg{sm}, sdk.NewCoins(lib.FX(1000)), h.w.user.Acc().String(), "", "t", "s", false); err == nil {
					if pbz, ok := marshalGuard(m); ok {
						h.runHandler("/cosmos.gov.v1.MsgSubmitProposal", pbz, "proposal carrying a state-valid "+it.url)
						n++
					}
				}
			}
		}
	}
	// ---- claims: the inner claim is mutated on the wire, decoded with the registry, and handed to the real Claim handler
	//      inside a MsgClaim built in memory (MsgClaim decoded from transaction bytes never carries its claim: no
	//      UnpackInterfaces — the struct route is what relayers' tests and any future fix would exercise) ----
	if h.w != nil {
		for _, chain := range crosschaintypes.GetSupportChains() {
			cw := h.w.chains[chain]
			if cw == nil {
				continue
			}
			if h.scale <= 3 && chain != "eth" && chain != "tron" {
				continue
			}
			srv := cw.x.Msg()
			bridger := cw.x.Oracles[0].Bridger.Acc().String()
			for _, claim := range h.claimBases(cw) {
				rv := reflect.ValueOf(claim).Elem()
				rv.FieldByName("BridgerAddress").SetString(bridger)
				rv.FieldByName("ChainName").SetString(chain)
				url := "/" + proto.MessageName(claim)
				cbz, ok := marshalGuard(claim)
				if !ok {
					continue
				}
				tname := url[strings.LastIndex(url, ".")+1:]
				run := func(mbz []byte, how string) {
					dm, o := decodeMsg(h.reg, url, mbz)
					if o.Class != "ok" {
						return
					}
					dc, ok := dm.(crosschaintypes.ExternalClaim)
					if !ok {
						return
					}
					if ov := guard(dc.ValidateBasic); ov.Class != "ok" {
						if ov.Class == "panic" {
							h.fail("validate", "recovered-by-baseapp", ov, tname+".ValidateBasic panics on "+how, map[string]interface{}{"stage": "handlers", "type_url": url, "msg_bytes_hex": fmt.Sprintf("%x", mbz), "how": how})
						}
						return
					}
					any, err := codectypes.NewAnyWithValue(dc)
					if err != nil {
						return
					}
					ctx, _ := h.c.Ctx.CacheContext()
					oh := guard(func() error {
						_, err := srv.Claim(ctx, &crosschaintypes.MsgClaim{ChainName: chain, BridgerAddress: bridger, Claim: any})
						return err
					})
					n++
					if oh.Class == "ok" {
						// claims that are parked for execution (SendToFx, BridgeCall, BridgeCallResult): execute them as the
						// executeClaim precompile / end blocker does
						if _, found := cw.x.Keeper.GetPendingExecuteClaim(ctx, dc.GetEventNonce()); found {
							oe := guard(func() error { return cw.x.Keeper.ExecuteClaim(ctx, dc.GetEventNonce()) })
							h.rep.Count("handler:claim-execute:" + oe.Class)
							h.rep.Case(fmt.Sprintf("claims-exec|%s|%s|%s|%s", tname, oe.Class, short(strings.SplitN(oe.Msg, ":", 2)[0], 30), oe.Site), true)
							if oe.Class == "panic" {
								oh = oe
							}
						}
					}
					h.rep.Count("handler:claim:" + oh.Class)
					h.rep.Case(fmt.Sprintf("claims|%s|%s|%s|%s", tname, oh.Class, short(strings.SplitN(oh.Msg, ":", 2)[0], 30), oh.Site), true)
					if oh.Class == "panic" && quorumInvariant(oh) {
						// deliberate alarms of the bridge: a claim executes only after >= 66% of the oracle power attested it; these
						// three sites panic on purpose when the attested event contradicts the chain's own records
						h.rep.Count("deliberate-quorum-invariant:" + oh.Site)
					} else if oh.Class == "panic" {
						h.fail("handler", "recovered-by-baseapp", oh, tname+" passes ValidateBasic and its execution by the quorum oracle panics on "+how+" ("+chain+")",
							map[string]interface{}{"stage": "handlers", "type_url": url, "claim_bytes_hex": fmt.Sprintf("%x", mbz), "chain": chain, "how": how, "panic": oh.Msg, "top_frame": oh.Top,
								"note": "claim decoded from these bytes, wrapped into an in-memory MsgClaim of the quorum oracle's bridger, executed by the real MsgServer.Claim on the populated state"})
					}
				}
				run(cbz, "state-valid "+tname)
				h.sweep(cbz, 3, func(mbz []byte, how string) { run(mbz, how+" of a state-valid "+tname) })
			}
		}
	}
	h.rep.Count(fmt.Sprintf("handler:instances=%d", n))
}

// messagePaths: the paths of wirePaths whose payload itself parses as a message (candidates for adding absent fields)
func messagePaths(bz []byte, depth int) [][]wstep {
	var out [][]wstep
	fs, ok := parseWire(bz)
	if !ok {
		return nil
	}
	occ := map[int]int{}
	for _, f := range fs {
		st := wstep{int(f.Num), occ[int(f.Num)]}
		occ[int(f.Num)]++
		if f.Val != nil && len(f.Val) > 0 && looksLikeMessage(f.Val) {
			out = append(out, []wstep{st})
			if depth > 0 {
				for _, p := range messagePaths(f.Val, depth-1) {
					out = append(out, append([]wstep{st}, p...))
				}
			}
		}
	}
	return out
}

// quorumInvariant: the explicit panic(...) statements with which the crosschain keeper refuses a QUORUM-attested event that
// contradicts its own records (unknown batch, unknown bridge call, oracle set that is not the one it issued).
func quorumInvariant(o outcome) bool {
	for site, msg := range map[string]string{
		"fx:x/crosschain/keeper.Keeper.OutgoingTxBatchExecuted": "unknown batch nonce",
		"fx:x/crosschain/keeper.Keeper.BridgeCallResultHandler": "bridge call not found",
		"fx:x/crosschain/keeper.Keeper.UpdateOracleSetExecuted": "Potential bridge highjacking",
	} {
		if o.Site == site && strings.HasPrefix(o.Msg, msg) {
			return true
		}
	}
	return false
}
