// c20v: validation harness + monitor + model correspondence for the first half of property C20:
// "arbitrary bytes offered as any fxcore message, claim, precompile call data, cross-chain target or
// address are either accepted or rejected with an error; stateless validation, the ante handler and
// precompile argument decoding never panic".
//
// Everything here drives the REAL fx-core code (full app on MemDB) under recover:
//
//	(i)   every registered /fx.* (and /ethermint.*) message type: wire-level instances -> ValidateBasic, signers
//	(ii)  every method of the staking and crosschain precompiles: call data through the real EVM and
//	      directly through ParseMethodArgs(+Validate)
//	(iii) strings into ParseFxTarget / ParseAddress / ValidateExternalAddr (all chains) (+ the conversions
//	      the code applies after validation)
//	(iv)  hostile transactions through the real CheckTx / FinalizeBlock (ante handler, message handlers)
//	(v)   model correspondence: abstract inputs of coq/model/M_Validate.v concretised to wire bytes, the real
//	      verdict (ok/err/panic) written to Cases_C20v.v and compared with the model inside coqc.
//
// Monitor: any panic reachable from input the node accepts from the network is a failure.
package main

import (
	"fmt"
	"math/big"
	"os"
	"reflect"
	"sort"
	"strings"

	codectypes "github.com/cosmos/cosmos-sdk/codec/types"
	sdk "github.com/cosmos/cosmos-sdk/types"
	"github.com/cosmos/gogoproto/proto"
	"github.com/ethereum/go-ethereum/common"

	"fxverif/lib"
)

type harness struct {
	c     *lib.Chain
	reg   codectypes.InterfaceRegistry
	rep   *lib.Report
	r     *lib.Rand
	p     *pools
	seed  int64
	scale int // 1 quick, bigger for thorough/search
	sigs  map[string]int
	only  map[string]bool

	w          *world                    // populated state (world.go)
	anteSrc    anteSource                // decorator order read from ante/handler_options.go of the tree under check
	forceUint  map[string]*big.Int       // precompile stage: forced uint256 arguments (by ABI input name)
	forceAddr  map[string]common.Address // precompile stage: forced address arguments
	tokenAddrs []common.Address          // ERC20 contracts with a registered token pair
	forceLen   map[string]int            // precompile stage: forced lengths of array arguments (by ABI input name)
}

// fail registers a monitor failure; one Failure per signature (the first replay is kept), occurrences counted.
func (h *harness) fail(stage, recovery string, o outcome, what string, replay map[string]interface{}) {
	sig := fmt.Sprintf("C20:panic:%s:%s:%s", recovery, stage, o.Site)
	h.sigs[sig]++
	h.rep.Count("PANIC " + sig)
	if h.sigs[sig] > 1 {
		return
	}
	replay["signature"] = sig
	h.rep.Fail(lib.Failure{Kind: "monitor", What: fmt.Sprintf("%s [%s; %s] at %s: %s", what, stage, recovery, o.Site, o.Msg), Sig: sig, Replay: replay})
}

func (h *harness) want(stage string) bool { return len(h.only) == 0 || h.only[stage] }

func main() {
	seed := lib.Seed()
	h := &harness{seed: seed, r: lib.NewRand(seed), rep: lib.NewReport("C20"), sigs: map[string]int{}, scale: 3, only: map[string]bool{}}
	if lib.Tier() == "thorough" {
		h.scale = 60
	}
	if os.Getenv("VERIF_MODE") == "search" {
		h.scale = 80
	}
	if v := lib.EnvInt("VERIF_SCALE", 0); v > 0 {
		h.scale = int(v)
	}
	for _, s := range strings.Split(os.Getenv("VERIF_ONLY"), ",") {
		if s != "" {
			h.only[s] = true
		}
	}
	h.rep.Rule = "validation half: wire-level message instances (valid-biased reflection filler, one-field absent/empty/duplicate sweeps, byte flips, truncations, raw random bytes) for every registered /fx.* and /ethermint.* type; ABI boundary/truncated/random call data for every precompile method; structured strings for targets/addresses; signed and unsigned hostile txs through CheckTx/FinalizeBlock; model cases = abstract inputs of M_Validate concretised in several ways. Non-trivial = the instance decoded and reached a validator / the call reached a precompile method / the tx reached the ante handler; distinct by (stage, type, outcome class, error-or-panic site, mutation kind)"
	h.c = lib.NewChain(seed, 2, nil)
	h.reg = h.c.App.InterfaceRegistry()
	h.p = newPools(seed)
	h.anteSrc = readAnteSource()
	if !h.anteSrc.ok {
		h.rep.Count("ante-chain:source-not-readable")
	}

	h.buildWorld()
	if os.Getenv("VERIF_MODE") == "replay" && os.Getenv("VERIF_REPLAY") != "" {
		h.replayFile(os.Getenv("VERIF_REPLAY"))
		h.rep.Write()
		return
	}

	if h.want("msgs") {
		h.stageMsgs()
	}
	if h.want("precompile") {
		h.stagePrecompiles()
	}
	if h.want("strings") {
		h.stageStrings()
	}
	if h.want("ante") {
		h.stageAnte()
	}
	if h.want("handlers") {
		h.stageHandlers()
	}
	if h.want("model") {
		h.stageModel()
	}
	if h.want("confirms") {
		h.stageConfirms()
	}
	h.replayKnown()
	if h.want("corpus") {
		h.stageCorpus()
	}
	// deterministic order of failures
	sort.SliceStable(h.rep.Failures, func(i, j int) bool { return h.rep.Failures[i].Sig < h.rep.Failures[j].Sig })
	h.rep.Write()
}

// ---------------- stage (i): messages ----------------

func (h *harness) newFiller(valid int) *filler {
	f := &filler{r: h.r, p: h.p, valid: valid}
	switch k := h.r.Intn(10); {
	case k < 6:
		f.chain = ethChains[h.r.Intn(len(ethChains))]
	case k < 9:
		f.chain = "tron"
	default:
		f.chain = unknownChain(h.r)
	}
	if valid >= 90 && f.chain != "tron" && !contains(ethChains, f.chain) {
		f.chain = "eth"
	}
	return f
}

func contains(l []string, s string) bool {
	for _, x := range l {
		if x == s {
			return true
		}
	}
	return false
}

func marshalGuard(m proto.Message) (bz []byte, ok bool) {
	o := guard(func() error {
		var err error
		bz, err = proto.Marshal(m)
		return err
	})
	return bz, o.Class == "ok"
}

// instance: decode bytes as url, run the entry points, record.
func (h *harness) instance(stage, url string, bz []byte, how string) (decoded bool, outs map[string]outcome) {
	m, o := decodeMsg(h.reg, url, bz)
	tname := url[strings.LastIndex(url, ".")+1:]
	if o.Class == "panic" {
		h.rep.Case(fmt.Sprintf("%s|%s|decode-panic|%s", stage, tname, o.Site), true)
		h.fail("decode", "recovered-by-baseapp", o, tname+" decoding panics on "+how,
			map[string]interface{}{"stage": stage, "type_url": url, "msg_bytes_hex": fmt.Sprintf("%x", bz), "how": how, "panic": o.Msg, "top_frame": o.Top})
		return false, nil
	}
	if o.Class == "err" {
		h.rep.Case(fmt.Sprintf("%s|%s|decode-err", stage, tname), false)
		h.rep.Count("msg:decode:err")
		return false, nil
	}
	outs = h.evalMsg(m)
	key := []string{stage, tname, strings.SplitN(how, " ", 2)[0]}
	for _, ep := range []string{"ValidateBasic", "GetMsgV1Signers"} {
		if o, ok := outs[ep]; ok {
			key = append(key, o.Class, short(strings.SplitN(o.Msg, ":", 2)[0], 40), o.Site)
		}
	}
	h.rep.Case(strings.Join(key, "|"), true)
	h.recordMsg(stage, url, bz, outs, how)
	return true, outs
}

func (h *harness) stageMsgs() {
	types := fxMsgTypes(h.reg)
	h.rep.Count(fmt.Sprintf("registered fx/ethermint message types=%d", len(types)))
	for _, mt := range types {
		tname := mt.URL[strings.LastIndex(mt.URL, ".")+1:]
		// zero value and empty bytes
		h.instance("msgs", mt.URL, nil, "zero-value (empty bytes)")

		// a pool of encodings of valid-biased instances; remember the ones ValidateBasic accepts
		var bases [][]byte
		var okBases [][]byte
		if b := h.explicitBase(mt.URL); b != nil {
			if bz, ok := marshalGuard(b); ok {
				bases = append(bases, bz)
				_, outs := h.instance("msgs", mt.URL, bz, "explicit valid instance")
				if o, has := outs["ValidateBasic"]; has && o.Class == "ok" || !has && outs != nil {
					okBases = append(okBases, bz)
				}
			}
		}
		nFill := 30 * h.scale
		for i := 0; i < nFill; i++ {
			valid := []int{97, 97, 90, 75, 50, 20}[h.r.Intn(6)]
			f := h.newFiller(valid)
			m := mt.Proto()
			f.fill(reflect.ValueOf(m).Elem())
			bz, ok := marshalGuard(m)
			if !ok {
				h.rep.Count("harness:marshal-refused")
				continue
			}
			_, outs := h.instance("msgs", mt.URL, bz, fmt.Sprintf("filler(valid=%d%%)", valid))
			if valid >= 90 && len(bases) < 6 {
				bases = append(bases, bz)
			}
			if o, has := outs["ValidateBasic"]; (has && o.Class == "ok" || !has && outs != nil) && len(okBases) < 4 {
				okBases = append(okBases, bz)
			}
		}
		if len(okBases) == 0 && mt.HasVB {
			h.rep.Count("no-valid-base:" + tname)
		} else {
			h.rep.Count("valid-base-found")
		}
		// one-field sweeps over accepted instances first (a nil-method call behind earlier checks needs them to pass)
		sweep := append(append([][]byte{}, okBases...), bases...)
		if len(sweep) > 5 {
			sweep = sweep[:5]
		}
		for _, base := range sweep {
			for _, path := range wirePaths(base, 3) {
				for _, op := range []string{"drop", "empty", "dup"} {
					bz, ok := applyWire(base, wireOp{Path: path, Op: op})
					if !ok {
						continue
					}
					h.instance("msgs", mt.URL, bz, fmt.Sprintf("%s field %v of a valid-looking encoding", op, path))
				}
				// a few payload replacements
				for _, payload := range [][]byte{[]byte("-1"), []byte("0"), []byte("x"), {0xff}, []byte(strings.Repeat("9", 80)), []byte("115792089237316195423570985008687907853269984665640564039457584007913129639936")} {
					if bz, ok := applyWire(base, wireOp{Path: path, Op: "set", Set: payload}); ok {
						h.instance("msgs", mt.URL, bz, fmt.Sprintf("set field %v to %q", path, short(string(payload), 12)))
					}
				}
			}
			// byte-level damage
			for i := 0; i < 20*h.scale && len(base) > 0; i++ {
				bz := append([]byte{}, base...)
				switch h.r.Intn(3) {
				case 0:
					bz[h.r.Intn(len(bz))] ^= byte(1 << uint(h.r.Intn(8)))
				case 1:
					bz = bz[:h.r.Intn(len(bz))]
				default:
					j := h.r.Intn(len(bz))
					bz = append(append(append([]byte{}, bz[:j]...), randBytes(h.r, 1+h.r.Intn(6))...), bz[j:]...)
				}
				h.instance("msgs", mt.URL, bz, "byte damage of a valid-looking encoding")
			}
		}
		// raw random bytes
		for i := 0; i < 40*h.scale; i++ {
			h.instance("msgs", mt.URL, randBytes(h.r, h.r.Intn(120)), "random bytes")
		}
	}
}

// signerOf returns the key owning the first required signer of m, if the harness owns it.
func (h *harness) signerOf(m sdk.Msg) (lib.Key, bool) {
	var signers [][]byte
	o := guard(func() error {
		var err error
		signers, _, err = h.c.App.AppCodec().GetMsgV1Signers(m)
		return err
	})
	if o.Class != "ok" || len(signers) == 0 {
		return lib.Key{}, false
	}
	for _, k := range h.p.keys {
		if string(k.Acc()) == string(signers[0]) {
			return k, true
		}
	}
	return lib.Key{}, false
}
